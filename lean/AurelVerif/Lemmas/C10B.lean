/-
Lemmas/C10B.lean — generated `bweyl_n_down3` and `bweyl_u_down4` against the textbook
expressions of Spec/Weyl.lean (one theorem per first index: each component costs ~12 s).
-/
import AurelVerif.Gen.CoreCurv
import AurelVerif.Gen.CoreHelpers
import AurelVerif.Gen.CoreBig_bweyl_u_down4
import AurelVerif.Lemmas.CoreTac
import AurelVerif.Spec.Weyl

set_option linter.unusedSimpArgs false
set_option linter.unusedVariables false

namespace AurelVerif.C10
open AurelVerif.Gen.Core AurelVerif.Tensor AurelVerif.CoreTac AurelVerif.Spec.Weyl

variable {K : Type} [Field K]

/-- `K^i{}_j = γ^{ik} K_kj` as the code builds it (`np.einsum('ij..., jk... -> ik...', gammaup3, Kdown3)`). -/
def Kmixed (e : Env K) (i k : Fin 3) : K := ∑ j, e.gammaup3 i j * e.Kdown3 j k

set_option maxRecDepth 100000 in
set_option maxHeartbeats 1000000 in
theorem bweyl_n_spec_0 (e : Env K) : ∀ b : Fin 3,
    bweyl_n_down3 e 0 b
      = bweylN (epsUud3 e.gammaup3 (levicivita_down3 e)) e.gammadown3 (s_covd_dd e e.Kdown3)
          (s_covd_scalar e e.Ktrace) (s_covd_ud e (Kmixed e)) 0 b := by
  cases3 <;>
    (simp only [bweyl_n_down3, ↓vec3_0, ↓vec3_1, ↓vec3_2]
     simp only [bweylN, epsUud3, Kmixed, Fin.sum_univ_three, s_covd_dd, s_covd_ud, s_covd_scalar,
       levicivita_down3, ↓vec3_0, ↓vec3_1, ↓vec3_2, mul_zero, zero_mul, add_zero, zero_add]
     simp only [core_unfold]
     ring)

set_option maxRecDepth 100000 in
set_option maxHeartbeats 1000000 in
theorem bweyl_n_spec_1 (e : Env K) : ∀ b : Fin 3,
    bweyl_n_down3 e 1 b
      = bweylN (epsUud3 e.gammaup3 (levicivita_down3 e)) e.gammadown3 (s_covd_dd e e.Kdown3)
          (s_covd_scalar e e.Ktrace) (s_covd_ud e (Kmixed e)) 1 b := by
  cases3 <;>
    (simp only [bweyl_n_down3, ↓vec3_0, ↓vec3_1, ↓vec3_2]
     simp only [bweylN, epsUud3, Kmixed, Fin.sum_univ_three, s_covd_dd, s_covd_ud, s_covd_scalar,
       levicivita_down3, ↓vec3_0, ↓vec3_1, ↓vec3_2, mul_zero, zero_mul, add_zero, zero_add]
     simp only [core_unfold]
     ring)

set_option maxRecDepth 100000 in
set_option maxHeartbeats 1000000 in
theorem bweyl_n_spec_2 (e : Env K) : ∀ b : Fin 3,
    bweyl_n_down3 e 2 b
      = bweylN (epsUud3 e.gammaup3 (levicivita_down3 e)) e.gammadown3 (s_covd_dd e e.Kdown3)
          (s_covd_scalar e e.Ktrace) (s_covd_ud e (Kmixed e)) 2 b := by
  cases3 <;>
    (simp only [bweyl_n_down3, ↓vec3_0, ↓vec3_1, ↓vec3_2]
     simp only [bweylN, epsUud3, Kmixed, Fin.sum_univ_three, s_covd_dd, s_covd_ud, s_covd_scalar,
       levicivita_down3, ↓vec3_0, ↓vec3_1, ↓vec3_2, mul_zero, zero_mul, add_zero, zero_add]
     simp only [core_unfold]
     ring)

theorem bweyl_n_matches (e : Env K) : ∀ a b : Fin 3,
    bweyl_n_down3 e a b
      = bweylN (epsUud3 e.gammaup3 (levicivita_down3 e)) e.gammadown3 (s_covd_dd e e.Kdown3)
          (s_covd_scalar e e.Ktrace) (s_covd_ud e (Kmixed e)) a b := by
  cases3
  · exact bweyl_n_spec_0 e
  · exact bweyl_n_spec_1 e
  · exact bweyl_n_spec_2 e

set_option maxRecDepth 100000 in
set_option maxHeartbeats 1000000 in
theorem bweyl_u_spec_0 (e : Env K) : ∀ f : Fin 4,
    bweyl_u_down4 e 0 f = bweylU e.st_Weyl_down4 e.uup4 (epsUudd e.gup4 (levicivita_down4 e)) 0 f := by
  cases4 <;>
    (simp only [bweyl_u_down4, ↓vec4_0, ↓vec4_1, ↓vec4_2, ↓vec4_3]
     simp only [bweylU, epsUudd, Fin.sum_univ_four, levicivita_down4, ↓vec4_0, ↓vec4_1, ↓vec4_2, ↓vec4_3,
       mul_zero, zero_mul, add_zero, zero_add]
     simp only [core_unfold]
     ring)

set_option maxRecDepth 100000 in
set_option maxHeartbeats 1000000 in
theorem bweyl_u_spec_1 (e : Env K) : ∀ f : Fin 4,
    bweyl_u_down4 e 1 f = bweylU e.st_Weyl_down4 e.uup4 (epsUudd e.gup4 (levicivita_down4 e)) 1 f := by
  cases4 <;>
    (simp only [bweyl_u_down4, ↓vec4_0, ↓vec4_1, ↓vec4_2, ↓vec4_3]
     simp only [bweylU, epsUudd, Fin.sum_univ_four, levicivita_down4, ↓vec4_0, ↓vec4_1, ↓vec4_2, ↓vec4_3,
       mul_zero, zero_mul, add_zero, zero_add]
     simp only [core_unfold]
     ring)

set_option maxRecDepth 100000 in
set_option maxHeartbeats 1000000 in
theorem bweyl_u_spec_2 (e : Env K) : ∀ f : Fin 4,
    bweyl_u_down4 e 2 f = bweylU e.st_Weyl_down4 e.uup4 (epsUudd e.gup4 (levicivita_down4 e)) 2 f := by
  cases4 <;>
    (simp only [bweyl_u_down4, ↓vec4_0, ↓vec4_1, ↓vec4_2, ↓vec4_3]
     simp only [bweylU, epsUudd, Fin.sum_univ_four, levicivita_down4, ↓vec4_0, ↓vec4_1, ↓vec4_2, ↓vec4_3,
       mul_zero, zero_mul, add_zero, zero_add]
     simp only [core_unfold]
     ring)

set_option maxRecDepth 100000 in
set_option maxHeartbeats 1000000 in
theorem bweyl_u_spec_3 (e : Env K) : ∀ f : Fin 4,
    bweyl_u_down4 e 3 f = bweylU e.st_Weyl_down4 e.uup4 (epsUudd e.gup4 (levicivita_down4 e)) 3 f := by
  cases4 <;>
    (simp only [bweyl_u_down4, ↓vec4_0, ↓vec4_1, ↓vec4_2, ↓vec4_3]
     simp only [bweylU, epsUudd, Fin.sum_univ_four, levicivita_down4, ↓vec4_0, ↓vec4_1, ↓vec4_2, ↓vec4_3,
       mul_zero, zero_mul, add_zero, zero_add]
     simp only [core_unfold]
     ring)

theorem bweyl_u_matches (e : Env K) : ∀ a f : Fin 4,
    bweyl_u_down4 e a f = bweylU e.st_Weyl_down4 e.uup4 (epsUudd e.gup4 (levicivita_down4 e)) a f := by
  cases4
  · exact bweyl_u_spec_0 e
  · exact bweyl_u_spec_1 e
  · exact bweyl_u_spec_2 e
  · exact bweyl_u_spec_3 e

end AurelVerif.C10
