/-
Lemmas/C12Call.lean — one whole call of Model/ReadCacheX.lean (`readDataX`):
the loop over the restarts, `vars=[]`, calls that do not touch the cache, the
returned rows.
-/
import AurelVerif.Lemmas.C12Restart
namespace AurelVerif.ReadCacheXLemmas
open AurelVerif.Chunks AurelVerif.ReadCache AurelVerif.ReadCacheX AurelVerif.ReadCacheLemmas
  AurelVerif.ChunksLemmas
set_option linter.unusedSimpArgs false
set_option linter.unusedVariables false

/-! ### the loop over the restarts, 3D data (no checkpoints) -/

/-- what the loop has established after the restarts `pre` -/
structure LoopOK {β : Type} (w : World β) (rl : Nat) (V : List (List Nat)) (names : List DName)
    (pre : List (Nat × List Nat)) (st : LoopSt β) : Prop where
  ginv : GInvX w st.store
  flat : st.var.flatten = V.flatten
  tabs : ∀ d ∈ st.datar, TabSpec w rl names d
  shape : st.datar.map (fun d => (d.1, d.2.its)) = pre.filter fun rt => !rt.2.isEmpty

/-- every restart that has something to do is catalogued with 3D output and holds AT LEAST
ONE requested component ("not starved") -/
def NotStarved {β : Type} (w : World β) (V : List (List Nat)) (todo : List (Nat × List Nat)) : Prop :=
  ∀ rt ∈ todo, rt.2 ≠ [] → ∃ ri, w.info rt.1 = some ri ∧ ri.varAvail.isSome = true ∧
    ∃ c ∈ V.flatten, w.has rt.1 c = true

theorem loop_spec {β : Type} (w : World β) (split : Bool) (rl : Nat) (V : List (List Nat))
    (todo : List (Nat × List Nat)) (hall : NotStarved w V todo)
    (store : Store β) (hG : GInvX w store) :
    ∃ st, foldE (restartStep w false split rl) { var := V, datar := [], store := store } todo = .ok st ∧
      LoopOK w rl V (V.flatten.map DName.var ++ [DName.t]) todo st := by
  apply foldE_total_prefix (fun pre st => LoopOK w rl V (V.flatten.map DName.var ++ [DName.t]) pre st)
    (restartStep w false split rl) todo ?_
    todo [] _ (List.nil_append _).symm ⟨hG, rfl, (by intro d hd; cases hd), rfl⟩
  intro pre rt post st hw hP
  unfold restartStep
  by_cases hnil : rt.2 = []
  · simp only [hnil, if_true]
    refine ⟨st, rfl, hP.ginv, hP.flat, hP.tabs, ?_⟩
    rw [hP.shape, List.filter_append]
    simp [hnil]
  · simp only [hnil, if_false]
    obtain ⟨ri, hri, hva, c1, hc1, hh⟩ := hall rt (by rw [hw]; simp) hnil
    have hc1' : c1 ∈ st.var.flatten := by rw [hP.flat]; exact hc1
    have hvarne : st.var ≠ [] := by
      intro e
      rw [e] at hc1'
      cases hc1'
    have hnone : ri.varAvail.isNone = false := by
      cases hv : ri.varAvail with
      | none => rw [hv] at hva; cases hva
      | some x => rfl
    simp only [hri, hvarne, if_false, Bool.false_eq_true]
    have hshape : ∀ (T : Tab β), T.its = rt.2 →
        (st.datar ++ [(rt.1, T)]).map (fun d => (d.1, d.2.its)) = (pre ++ [rt]).filter fun rt => !rt.2.isEmpty := by
      intro T hT
      rw [List.map_append, hP.shape, List.filter_append]
      congr 1
      obtain ⟨r1, r2⟩ := rt
      cases r2 with
      | nil => exact absurd rfl hnil
      | cons a b => simp only at hT; simp [hT]
    cases split with
    | true =>
      simp only [if_true, hnone]
      obtain ⟨⟨T, store', var'⟩, hr⟩ :=
        readRestartX_total w rt.1 rl rt.2 ri.grouped st.var st.store hP.ginv
      obtain ⟨hspec, hits, hflat⟩ := readRestartX_spec w rt.1 rl rt.2 false ri.grouped st.var st.store hP.ginv
        c1 hc1' hh T store' var' hr
      have hG' : GInvX w store' :=
        (readRestartX_pres w (GInvX w) (savePresHas_ginvX w) false ri.grouped st.var st.store rt.1 rl rt.2 hP.ginv).1
          _ hr
      rw [hr]
      refine ⟨_, rfl, hG', by rw [hflat]; exact hP.flat, ?_, hshape T hits⟩
      intro d hd
      rcases List.mem_append.mp hd with hd | hd
      · exact hP.tabs d hd
      · simp at hd; subst hd
        rw [← hP.flat]; exact hspec
    | false =>
      simp only [Bool.false_eq_true, if_false, hnone]
      refine ⟨_, rfl, hP.ginv, hP.flat, ?_, hshape _ rfl⟩
      intro d hd
      rcases List.mem_append.mp hd with hd | hd
      · exact hP.tabs d hd
      · simp at hd; subst hd
        rw [← hP.flat]
        exact readDirectX_spec w st.var rt.1 rl rt.2 c1 hc1' hh

/-- every restart that has something to do is catalogued with 3D output -/
def Has3D {β : Type} (w : World β) (todo : List (Nat × List Nat)) : Prop :=
  ∀ rt ∈ todo, rt.2 ≠ [] → ∃ ri, w.info rt.1 = some ri ∧ ri.varAvail.isSome = true

/-- **the cached loop never raises** on a cache with the invariant when the restarts read have
3D output — whatever variables they lack, even all the requested ones — and every table is
right on every requested component -/
theorem loop_cached_spec {β : Type} (w : World β) (rl : Nat) (V : List (List Nat)) (hVf : V.flatten ≠ [])
    (todo : List (Nat × List Nat)) (hall : Has3D w todo) (store : Store β) (hG : GInvX w store) :
    ∃ st, foldE (restartStep w false true rl) { var := V, datar := [], store := store } todo = .ok st ∧
      LoopOK w rl V (V.flatten.map DName.var) todo st := by
  apply foldE_total_prefix (fun pre st => LoopOK w rl V (V.flatten.map DName.var) pre st)
    (restartStep w false true rl) todo ?_
    todo [] _ (List.nil_append _).symm ⟨hG, rfl, (by intro d hd; cases hd), rfl⟩
  intro pre rt post st hw hP
  unfold restartStep
  by_cases hnil : rt.2 = []
  · simp only [hnil, if_true]
    refine ⟨st, rfl, hP.ginv, hP.flat, hP.tabs, ?_⟩
    rw [hP.shape, List.filter_append]
    simp [hnil]
  · simp only [hnil, if_false]
    obtain ⟨ri, hri, hva⟩ := hall rt (by rw [hw]; simp) hnil
    have hvarne : st.var ≠ [] := by
      intro e
      have := hP.flat
      rw [e] at this
      exact hVf this.symm
    have hnone : ri.varAvail.isNone = false := by
      cases hv : ri.varAvail with
      | none => rw [hv] at hva; cases hva
      | some x => rfl
    simp only [hri, hvarne, if_false, Bool.false_eq_true, if_true, hnone]
    obtain ⟨⟨T, store', var'⟩, hr⟩ :=
      readRestartX_total w rt.1 rl rt.2 ri.grouped st.var st.store hP.ginv
    obtain ⟨hspec, hits, hflat⟩ := readRestartX_spec_vars w rt.1 rl rt.2 false ri.grouped st.var st.store hP.ginv
      T store' var' hr
    have hG' : GInvX w store' :=
      (readRestartX_pres w (GInvX w) (savePresHas_ginvX w) false ri.grouped st.var st.store rt.1 rl rt.2 hP.ginv).1
        _ hr
    rw [hr]
    refine ⟨_, rfl, hG', by rw [hflat]; exact hP.flat, ?_, ?_⟩
    · intro d hd
      rcases List.mem_append.mp hd with hd | hd
      · exact hP.tabs d hd
      · simp at hd; subst hd
        rw [← hP.flat]; exact hspec
    · rw [List.map_append, hP.shape, List.filter_append]
      congr 1
      obtain ⟨r1, r2⟩ := rt
      cases r2 with
      | nil => exact absurd rfl hnil
      | cons a b => simp only at hits; simp [hits]

/-! ### `vars=[]` -/

/-- what the rest of the call uses of the loop's outcome -/
def outcome {β : Type} (r : Except (Store β) (LoopSt β)) : Except (Store β) (List (Nat × Tab β) × Store β) :=
  match r with
  | .ok st => .ok (st.datar, st.store)
  | .error s => .error s

theorem outcome_foldE_congr {β : Type} (w : World β) (usechk split : Bool) (rl : Nat)
    (todo : List (Nat × List Nat)) (st1 st2 : LoopSt β) (h : st1 = st2) :
    outcome (foldE (restartStep w usechk split rl) st1 todo) = outcome (foldE (restartStep w usechk split rl) st2 todo) := by
  rw [h]

/-- **`vars=[]` is the request for the 'var available' of the first restart that has
something to do** (and for nothing at all when no restart has) -/
theorem loop_resolve {β : Type} (w : World β) (usechk split : Bool) (rl : Nat) (V : List (List Nat)) (hV : V ≠ [])
    (todo : List (Nat × List Nat))
    (hres : ∀ rt, todo.find? (fun rt => !rt.2.isEmpty) = some rt → (w.info rt.1).bind (·.varAvail) = some V)
    (datar : List (Nat × Tab β)) (store : Store β) :
    outcome (foldE (restartStep w usechk split rl) { var := [], datar := datar, store := store } todo)
      = outcome (foldE (restartStep w usechk split rl) { var := V, datar := datar, store := store } todo) := by
  induction todo with
  | nil => rfl
  | cons rt rest ih =>
    by_cases hnil : rt.2 = []
    · -- nothing to do in this restart: `var` is not looked at
      have h1 : ∀ (st : LoopSt β), restartStep w usechk split rl st rt = .ok st := by
        intro st; unfold restartStep; simp [hnil]
      rw [foldE_cons_ok _ _ _ _ _ (h1 _), foldE_cons_ok _ _ _ _ _ (h1 _)]
      apply ih
      intro rt' hf
      apply hres
      simp only [List.find?_cons, hnil, List.isEmpty_nil, Bool.not_true]
      exact hf
    · have hne : (!rt.2.isEmpty) = true := by
        cases h2 : rt.2 with
        | nil => exact absurd h2 hnil
        | cons a b => rfl
      have hv := hres rt (by simp only [List.find?_cons, hne])
      -- the first step is the same: `var` becomes 'var available'
      have hstep : restartStep w usechk split rl { var := [], datar := datar, store := store } rt
          = restartStep w usechk split rl { var := V, datar := datar, store := store } rt := by
        unfold restartStep
        simp only [hnil, if_false, if_true, hV]
        cases hi : w.info rt.1 with
        | none => rfl
        | some ri =>
          rw [hi] at hv
          simp only [Option.bind_some] at hv
          simp only [hv]
      simp only [foldE, hstep]

/-! ### calls that do not use the cache: `usecheckpoints=True` or `split_per_it=False` -/

/-- the same outcome with the cache replaced -/
def reStore {β : Type} (s : Store β) (r : Except (Store β) (LoopSt β)) : Except (Store β) (LoopSt β) :=
  match r with
  | .ok st => .ok { st with store := s }
  | .error _ => .error s

theorem restartStep_nocache {β : Type} (w : World β) (usechk split : Bool) (h : usechk = true ∨ split = false)
    (rl : Nat) (st : LoopSt β) (rt : Nat × List Nat) (s : Store β) :
    restartStep w usechk split rl { st with store := s } rt = reStore s (restartStep w usechk split rl st rt) := by
  unfold restartStep
  by_cases hnil : rt.2 = []
  · simp [hnil, reStore]
  · simp only [hnil, if_false]
    cases w.info rt.1 with
    | none => rfl
    | some ri =>
      simp only
      cases (if st.var = [] then ri.varAvail else some st.var) with
      | none => rfl
      | some var =>
        simp only
        rcases h with h | h
        · subst h
          simp only [if_true]
          cases w.chkRead rt.1 var rt.2 rl <;> rfl
        · subst h
          cases usechk with
          | true =>
            simp only [if_true]
            cases w.chkRead rt.1 var rt.2 rl <;> rfl
          | false =>
            simp only [Bool.false_eq_true, if_false]
            cases ri.varAvail.isNone <;> rfl

theorem foldE_nocache {β : Type} (w : World β) (usechk split : Bool) (h : usechk = true ∨ split = false)
    (rl : Nat) (todo : List (Nat × List Nat)) (st : LoopSt β) (s : Store β) :
    foldE (restartStep w usechk split rl) { st with store := s } todo
      = reStore s (foldE (restartStep w usechk split rl) st todo) := by
  induction todo generalizing st with
  | nil => rfl
  | cons rt rest ih =>
    simp only [foldE]
    rw [restartStep_nocache w usechk split h rl st rt s]
    cases restartStep w usechk split rl st rt with
    | ok st' => exact ih st'
    | error e => rfl

/-- **a checkpoint call and an uncached call neither read nor write the cache**: the
result and the catalogue are those of the same call on an empty cache, and the cache is
what it was -/
theorem readDataX_nocache {β : Type} (w : World β) (done : List Nat) (c : CallX)
    (h : c.usechk = true ∨ c.split = false) (store : Store β) :
    readDataX w done c store = ((readDataX w done c []).1, (readDataX w done c []).2.1, store) := by
  unfold readDataX
  simp only
  split
  · rfl
  · split
    · rfl
    · split
      · rfl
      · rename_i todo _
        have key := foldE_nocache w c.usechk c.split h c.rl todo { var := c.req, datar := [], store := [] } store
        simp only at key
        rw [key]
        cases foldE (restartStep w c.usechk c.split c.rl) { var := c.req, datar := [], store := [] } todo with
        | error e => rfl
        | ok st =>
          simp only [reStore]
          cases flattenX (sortedSet c.its) st.datar <;> rfl

/-! ### the (iteration, restart) pairs of the rows -/

theorem mapOpt_id_some {γ : Type} (l : List (Option γ)) (ys : List γ) (h : mapOpt (fun x => x) l = some ys) :
    l = ys.map some := by
  induction l generalizing ys with
  | nil => simp only [mapOpt, Option.some.injEq] at h; subst h; rfl
  | cons x xs ih =>
    simp only [mapOpt] at h
    cases x with
    | none => simp at h
    | some y =>
      simp only at h
      cases hm : mapOpt (fun x => x) xs with
      | none => simp [hm] at h
      | some zs =>
        simp only [hm, Option.some.injEq] at h
        subst h
        simp [ih zs hm]

theorem rowAt_pair {β : Type} (keys : List DName) (d : Nat × Tab β) (iit : Nat) (hi : iit ∈ d.2.its)
    (row : Row β) (h : rowAt keys d iit = some row) : (row.1, row.2.1) = (iit, d.1) := by
  unfold rowAt at h
  simp only at h
  rw [nearest_exact_lemma d.2.its iit hi] at h
  cases hm : mapOpt (cellAt d.2 (nearestIdx d.2.its iit)) keys with
  | none => simp [hm] at h
  | some cells => simp only [hm, Option.some.injEq] at h; subst h; rfl

/-- whenever the flattening returns, its rows are the (iteration, restart) pairs of the two loops -/
theorem flattenX_pairs {β : Type} (sits : List Nat) (datar : List (Nat × Tab β)) (rows : List (Row β))
    (h : flattenX sits datar = some rows) : rows.map (fun r => (r.1, r.2.1)) = pairsOf sits datar := by
  unfold flattenX at h
  have hl := mapOpt_id_some _ rows h
  have hinj : ∀ (a b : List (Nat × Nat)), a.map some = b.map some → a = b := by
    intro a b hab
    exact List.map_injective_iff.mpr (fun x y hxy => Option.some.inj hxy) hab
  apply hinj
  have : (rows.map fun r => (r.1, r.2.1)).map some = (rows.map some).map (Option.map fun r => (r.1, r.2.1)) := by
    simp [List.map_map, Function.comp_def]
  rw [this, ← hl]
  unfold pairsOf
  rw [List.map_flatMap, List.map_flatMap]
  apply List.flatMap_congr
  intro iit hiit
  rw [List.map_filterMap, List.map_filterMap]
  apply List.filterMap_congr
  intro d hd
  by_cases hi : iit ∈ d.2.its
  · simp only [hi, if_true, Option.map_some]
    -- this optional row is an element of the list, hence `some`
    have hmem : rowAt (unionKeys datar) d iit ∈ (sits.flatMap fun iit => datar.filterMap fun d =>
        if iit ∈ d.2.its then some (rowAt (unionKeys datar) d iit) else none) :=
      List.mem_flatMap.mpr ⟨iit, hiit, List.mem_filterMap.mpr ⟨d, hd, by simp [hi]⟩⟩
    rw [hl] at hmem
    obtain ⟨row, _, hrow⟩ := List.mem_map.mp hmem
    rw [← hrow]
    simp only [Option.map_some, Option.some.injEq]
    exact rowAt_pair _ d iit hi row hrow.symm
  · simp [hi]

end AurelVerif.ReadCacheXLemmas
