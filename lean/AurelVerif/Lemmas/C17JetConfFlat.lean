/-
Lemmas/C17JetConfFlat.lean — written by tools/py2lean/c17_jetgen.py (developer tool, not run by ./check);
ordinary Lean source from then on.  Conformally flat metric `W(x)² η_ab` with `W1 = ∂_x W`, `W2 = ∂_x² W`.

`jet` is a 2-jet of a metric in the sense of Spec/Jet4.lean whose entries are rational functions of
the field variables `W W1 W2`.  Each `…T` table below is PROVEN equal to the textbook definition of
Spec/Jet4.lean (Christoffel symbols, derivative of the inverse metric, derivative of the
Christoffel symbols, Ricci tensor, Ricci scalar, Einstein tensor); the tables
themselves carry no authority.
-/
import AurelVerif.Lemmas.C17JetTac

set_option linter.unusedVariables false
set_option linter.unusedTactic false
set_option linter.unreachableTactic false
set_option linter.unusedSimpArgs false
set_option linter.style.longLine false
set_option linter.unusedSectionVars false

namespace AurelVerif.C17Jet.ConfFlat
open AurelVerif.Spec.Jet4 AurelVerif.Spec.Curvature AurelVerif.C17JetTac
variable {K : Type} [Field K] [CharZero K]

set_option maxHeartbeats 1000000 in
/-- the 2-jet: `g`, `gi = g⁻¹`, `dg c a b = ∂_c g_ab`, `ddg c d a b = ∂_c ∂_d g_ab`. -/
def jet (W W1 W2 : K) : Jet2 K where
  g := ![![(-W ^ (2:ℕ)), (0:K), (0:K), (0:K)], ![(0:K), W ^ (2:ℕ), (0:K), (0:K)], ![(0:K), (0:K), W ^ (2:ℕ), (0:K)], ![(0:K), (0:K), (0:K), W ^ (2:ℕ)]]
  gi := ![![(-(1 / W ^ (2:ℕ))), (0:K), (0:K), (0:K)], ![(0:K), (1 / W ^ (2:ℕ)), (0:K), (0:K)], ![(0:K), (0:K), (1 / W ^ (2:ℕ)), (0:K)], ![(0:K), (0:K), (0:K), (1 / W ^ (2:ℕ))]]
  dg := ![![![(0:K), (0:K), (0:K), (0:K)], ![(0:K), (0:K), (0:K), (0:K)], ![(0:K), (0:K), (0:K), (0:K)], ![(0:K), (0:K), (0:K), (0:K)]], ![![(-((2:K) * W * W1)), (0:K), (0:K), (0:K)], ![(0:K), ((2:K) * W * W1), (0:K), (0:K)], ![(0:K), (0:K), ((2:K) * W * W1), (0:K)], ![(0:K), (0:K), (0:K), ((2:K) * W * W1)]], ![![(0:K), (0:K), (0:K), (0:K)], ![(0:K), (0:K), (0:K), (0:K)], ![(0:K), (0:K), (0:K), (0:K)], ![(0:K), (0:K), (0:K), (0:K)]], ![![(0:K), (0:K), (0:K), (0:K)], ![(0:K), (0:K), (0:K), (0:K)], ![(0:K), (0:K), (0:K), (0:K)], ![(0:K), (0:K), (0:K), (0:K)]]]
  ddg := ![![![![(0:K), (0:K), (0:K), (0:K)], ![(0:K), (0:K), (0:K), (0:K)], ![(0:K), (0:K), (0:K), (0:K)], ![(0:K), (0:K), (0:K), (0:K)]], ![![(0:K), (0:K), (0:K), (0:K)], ![(0:K), (0:K), (0:K), (0:K)], ![(0:K), (0:K), (0:K), (0:K)], ![(0:K), (0:K), (0:K), (0:K)]], ![![(0:K), (0:K), (0:K), (0:K)], ![(0:K), (0:K), (0:K), (0:K)], ![(0:K), (0:K), (0:K), (0:K)], ![(0:K), (0:K), (0:K), (0:K)]], ![![(0:K), (0:K), (0:K), (0:K)], ![(0:K), (0:K), (0:K), (0:K)], ![(0:K), (0:K), (0:K), (0:K)], ![(0:K), (0:K), (0:K), (0:K)]]], ![![![(0:K), (0:K), (0:K), (0:K)], ![(0:K), (0:K), (0:K), (0:K)], ![(0:K), (0:K), (0:K), (0:K)], ![(0:K), (0:K), (0:K), (0:K)]], ![![(-((2:K) * ((W * W2) + W1 ^ (2:ℕ)))), (0:K), (0:K), (0:K)], ![(0:K), ((2:K) * ((W * W2) + W1 ^ (2:ℕ))), (0:K), (0:K)], ![(0:K), (0:K), ((2:K) * ((W * W2) + W1 ^ (2:ℕ))), (0:K)], ![(0:K), (0:K), (0:K), ((2:K) * ((W * W2) + W1 ^ (2:ℕ)))]], ![![(0:K), (0:K), (0:K), (0:K)], ![(0:K), (0:K), (0:K), (0:K)], ![(0:K), (0:K), (0:K), (0:K)], ![(0:K), (0:K), (0:K), (0:K)]], ![![(0:K), (0:K), (0:K), (0:K)], ![(0:K), (0:K), (0:K), (0:K)], ![(0:K), (0:K), (0:K), (0:K)], ![(0:K), (0:K), (0:K), (0:K)]]], ![![![(0:K), (0:K), (0:K), (0:K)], ![(0:K), (0:K), (0:K), (0:K)], ![(0:K), (0:K), (0:K), (0:K)], ![(0:K), (0:K), (0:K), (0:K)]], ![![(0:K), (0:K), (0:K), (0:K)], ![(0:K), (0:K), (0:K), (0:K)], ![(0:K), (0:K), (0:K), (0:K)], ![(0:K), (0:K), (0:K), (0:K)]], ![![(0:K), (0:K), (0:K), (0:K)], ![(0:K), (0:K), (0:K), (0:K)], ![(0:K), (0:K), (0:K), (0:K)], ![(0:K), (0:K), (0:K), (0:K)]], ![![(0:K), (0:K), (0:K), (0:K)], ![(0:K), (0:K), (0:K), (0:K)], ![(0:K), (0:K), (0:K), (0:K)], ![(0:K), (0:K), (0:K), (0:K)]]], ![![![(0:K), (0:K), (0:K), (0:K)], ![(0:K), (0:K), (0:K), (0:K)], ![(0:K), (0:K), (0:K), (0:K)], ![(0:K), (0:K), (0:K), (0:K)]], ![![(0:K), (0:K), (0:K), (0:K)], ![(0:K), (0:K), (0:K), (0:K)], ![(0:K), (0:K), (0:K), (0:K)], ![(0:K), (0:K), (0:K), (0:K)]], ![![(0:K), (0:K), (0:K), (0:K)], ![(0:K), (0:K), (0:K), (0:K)], ![(0:K), (0:K), (0:K), (0:K)], ![(0:K), (0:K), (0:K), (0:K)]], ![![(0:K), (0:K), (0:K), (0:K)], ![(0:K), (0:K), (0:K), (0:K)], ![(0:K), (0:K), (0:K), (0:K)], ![(0:K), (0:K), (0:K), (0:K)]]]]

theorem jet_inverse (W W1 W2 : K) (h0 : W ≠ 0) : (jet W W1 W2).IsInverse := by
  have h0n := h0; (try ring_nf at h0n); 
  refine forall4 ?_ ?_ ?_ ?_ <;> refine forall4 ?_ ?_ ?_ ?_ <;>
    (simp only [jet, Fin.sum_univ_four, Fin.isValue, Fin.reduceEq, if_true, if_false, reduceIte, Matrix.cons_val_zero, Matrix.cons_val_one, Matrix.cons_val]; jet_close)

set_option maxHeartbeats 1000000 in
theorem jet_symm (W W1 W2 : K) : (jet W W1 W2).IsSymm := by
  refine ⟨?_, ?_, ?_, ?_, ?_⟩
  · refine forall4 ?_ ?_ ?_ ?_ <;> refine forall4 ?_ ?_ ?_ ?_ <;> rfl
  · refine forall4 ?_ ?_ ?_ ?_ <;> refine forall4 ?_ ?_ ?_ ?_ <;> rfl
  · refine forall4 ?_ ?_ ?_ ?_ <;> refine forall4 ?_ ?_ ?_ ?_ <;> refine forall4 ?_ ?_ ?_ ?_ <;> rfl
  · refine forall4 ?_ ?_ ?_ ?_ <;> refine forall4 ?_ ?_ ?_ ?_ <;> refine forall4 ?_ ?_ ?_ ?_ <;> refine forall4 ?_ ?_ ?_ ?_ <;> rfl
  · refine forall4 ?_ ?_ ?_ ?_ <;> refine forall4 ?_ ?_ ?_ ?_ <;> refine forall4 ?_ ?_ ?_ ?_ <;> refine forall4 ?_ ?_ ?_ ?_ <;> rfl

set_option maxHeartbeats 1000000 in
/-- `Γ^a_{bc}` -/
def GamT (W W1 W2 : K) : Fin 4 → Fin 4 → Fin 4 → K :=
  ![![![(0:K), (W1 / W), (0:K), (0:K)], ![(W1 / W), (0:K), (0:K), (0:K)], ![(0:K), (0:K), (0:K), (0:K)], ![(0:K), (0:K), (0:K), (0:K)]], ![![(W1 / W), (0:K), (0:K), (0:K)], ![(0:K), (W1 / W), (0:K), (0:K)], ![(0:K), (0:K), (-(W1 / W)), (0:K)], ![(0:K), (0:K), (0:K), (-(W1 / W))]], ![![(0:K), (0:K), (0:K), (0:K)], ![(0:K), (0:K), (W1 / W), (0:K)], ![(0:K), (W1 / W), (0:K), (0:K)], ![(0:K), (0:K), (0:K), (0:K)]], ![![(0:K), (0:K), (0:K), (0:K)], ![(0:K), (0:K), (0:K), (W1 / W)], ![(0:K), (0:K), (0:K), (0:K)], ![(0:K), (W1 / W), (0:K), (0:K)]]]
set_option maxHeartbeats 1000000 in
theorem Gam_eq (W W1 W2 : K) (h0 : W ≠ 0) : (jet W W1 W2).Gam = GamT W W1 W2 := by
  have h0n := h0; (try ring_nf at h0n); 
  refine funext4 ?_ ?_ ?_ ?_ <;> refine funext4 ?_ ?_ ?_ ?_ <;> refine funext4 ?_ ?_ ?_ ?_ <;>
    (simp only [Jet2.Gam, christoffel, christoffel1]; simp only [GamT, jet, Fin.sum_univ_four, Matrix.cons_val_zero, Matrix.cons_val_one, Matrix.cons_val]; jet_close)

set_option maxHeartbeats 1000000 in
/-- `∂_e g^{ab}` -/
def dgiT (W W1 W2 : K) : Fin 4 → Fin 4 → Fin 4 → K :=
  ![![![(0:K), (0:K), (0:K), (0:K)], ![(0:K), (0:K), (0:K), (0:K)], ![(0:K), (0:K), (0:K), (0:K)], ![(0:K), (0:K), (0:K), (0:K)]], ![![(((2:K) * W1) / W ^ (3:ℕ)), (0:K), (0:K), (0:K)], ![(0:K), (-(((2:K) * W1) / W ^ (3:ℕ))), (0:K), (0:K)], ![(0:K), (0:K), (-(((2:K) * W1) / W ^ (3:ℕ))), (0:K)], ![(0:K), (0:K), (0:K), (-(((2:K) * W1) / W ^ (3:ℕ)))]], ![![(0:K), (0:K), (0:K), (0:K)], ![(0:K), (0:K), (0:K), (0:K)], ![(0:K), (0:K), (0:K), (0:K)], ![(0:K), (0:K), (0:K), (0:K)]], ![![(0:K), (0:K), (0:K), (0:K)], ![(0:K), (0:K), (0:K), (0:K)], ![(0:K), (0:K), (0:K), (0:K)], ![(0:K), (0:K), (0:K), (0:K)]]]
set_option maxHeartbeats 1000000 in
theorem dgi_eq (W W1 W2 : K) (h0 : W ≠ 0) : (jet W W1 W2).dgi = dgiT W W1 W2 := by
  have h0n := h0; (try ring_nf at h0n); 
  refine funext4 ?_ ?_ ?_ ?_ <;> refine funext4 ?_ ?_ ?_ ?_ <;> refine funext4 ?_ ?_ ?_ ?_ <;>
    (simp only [Jet2.dgi]; simp only [dgiT, jet, Fin.sum_univ_four, Matrix.cons_val_zero, Matrix.cons_val_one, Matrix.cons_val]; jet_close)

set_option maxHeartbeats 1000000 in
/-- `∂_e Γ^a_{bc}` -/
def dGamT (W W1 W2 : K) : Fin 4 → Fin 4 → Fin 4 → Fin 4 → K :=
  ![![![![(0:K), (0:K), (0:K), (0:K)], ![(0:K), (0:K), (0:K), (0:K)], ![(0:K), (0:K), (0:K), (0:K)], ![(0:K), (0:K), (0:K), (0:K)]], ![![(0:K), (0:K), (0:K), (0:K)], ![(0:K), (0:K), (0:K), (0:K)], ![(0:K), (0:K), (0:K), (0:K)], ![(0:K), (0:K), (0:K), (0:K)]], ![![(0:K), (0:K), (0:K), (0:K)], ![(0:K), (0:K), (0:K), (0:K)], ![(0:K), (0:K), (0:K), (0:K)], ![(0:K), (0:K), (0:K), (0:K)]], ![![(0:K), (0:K), (0:K), (0:K)], ![(0:K), (0:K), (0:K), (0:K)], ![(0:K), (0:K), (0:K), (0:K)], ![(0:K), (0:K), (0:K), (0:K)]]], ![![![(0:K), (((W * W2) - W1 ^ (2:ℕ)) / W ^ (2:ℕ)), (0:K), (0:K)], ![(((W * W2) - W1 ^ (2:ℕ)) / W ^ (2:ℕ)), (0:K), (0:K), (0:K)], ![(0:K), (0:K), (0:K), (0:K)], ![(0:K), (0:K), (0:K), (0:K)]], ![![(((W * W2) - W1 ^ (2:ℕ)) / W ^ (2:ℕ)), (0:K), (0:K), (0:K)], ![(0:K), (((W * W2) - W1 ^ (2:ℕ)) / W ^ (2:ℕ)), (0:K), (0:K)], ![(0:K), (0:K), (((-(W * W2)) + W1 ^ (2:ℕ)) / W ^ (2:ℕ)), (0:K)], ![(0:K), (0:K), (0:K), (((-(W * W2)) + W1 ^ (2:ℕ)) / W ^ (2:ℕ))]], ![![(0:K), (0:K), (0:K), (0:K)], ![(0:K), (0:K), (((W * W2) - W1 ^ (2:ℕ)) / W ^ (2:ℕ)), (0:K)], ![(0:K), (((W * W2) - W1 ^ (2:ℕ)) / W ^ (2:ℕ)), (0:K), (0:K)], ![(0:K), (0:K), (0:K), (0:K)]], ![![(0:K), (0:K), (0:K), (0:K)], ![(0:K), (0:K), (0:K), (((W * W2) - W1 ^ (2:ℕ)) / W ^ (2:ℕ))], ![(0:K), (0:K), (0:K), (0:K)], ![(0:K), (((W * W2) - W1 ^ (2:ℕ)) / W ^ (2:ℕ)), (0:K), (0:K)]]], ![![![(0:K), (0:K), (0:K), (0:K)], ![(0:K), (0:K), (0:K), (0:K)], ![(0:K), (0:K), (0:K), (0:K)], ![(0:K), (0:K), (0:K), (0:K)]], ![![(0:K), (0:K), (0:K), (0:K)], ![(0:K), (0:K), (0:K), (0:K)], ![(0:K), (0:K), (0:K), (0:K)], ![(0:K), (0:K), (0:K), (0:K)]], ![![(0:K), (0:K), (0:K), (0:K)], ![(0:K), (0:K), (0:K), (0:K)], ![(0:K), (0:K), (0:K), (0:K)], ![(0:K), (0:K), (0:K), (0:K)]], ![![(0:K), (0:K), (0:K), (0:K)], ![(0:K), (0:K), (0:K), (0:K)], ![(0:K), (0:K), (0:K), (0:K)], ![(0:K), (0:K), (0:K), (0:K)]]], ![![![(0:K), (0:K), (0:K), (0:K)], ![(0:K), (0:K), (0:K), (0:K)], ![(0:K), (0:K), (0:K), (0:K)], ![(0:K), (0:K), (0:K), (0:K)]], ![![(0:K), (0:K), (0:K), (0:K)], ![(0:K), (0:K), (0:K), (0:K)], ![(0:K), (0:K), (0:K), (0:K)], ![(0:K), (0:K), (0:K), (0:K)]], ![![(0:K), (0:K), (0:K), (0:K)], ![(0:K), (0:K), (0:K), (0:K)], ![(0:K), (0:K), (0:K), (0:K)], ![(0:K), (0:K), (0:K), (0:K)]], ![![(0:K), (0:K), (0:K), (0:K)], ![(0:K), (0:K), (0:K), (0:K)], ![(0:K), (0:K), (0:K), (0:K)], ![(0:K), (0:K), (0:K), (0:K)]]]]
set_option maxHeartbeats 1000000 in
theorem dGam_eq_0 (W W1 W2 : K) (h0 : W ≠ 0) : (jet W W1 W2).dGam 0 = dGamT W W1 W2 0 := by
  have h0n := h0; (try ring_nf at h0n); 
  refine funext4 ?_ ?_ ?_ ?_ <;> refine funext4 ?_ ?_ ?_ ?_ <;> refine funext4 ?_ ?_ ?_ ?_ <;>
    (simp only [Jet2.dGam, Jet2.Gl, Jet2.dGl, christoffel1, dgi_eq W W1 W2 h0]; simp only [dgiT, dGamT, jet, Fin.sum_univ_four, Matrix.cons_val_zero, Matrix.cons_val_one, Matrix.cons_val]; jet_close)
set_option maxHeartbeats 1000000 in
theorem dGam_eq_1 (W W1 W2 : K) (h0 : W ≠ 0) : (jet W W1 W2).dGam 1 = dGamT W W1 W2 1 := by
  have h0n := h0; (try ring_nf at h0n); 
  refine funext4 ?_ ?_ ?_ ?_ <;> refine funext4 ?_ ?_ ?_ ?_ <;> refine funext4 ?_ ?_ ?_ ?_ <;>
    (simp only [Jet2.dGam, Jet2.Gl, Jet2.dGl, christoffel1, dgi_eq W W1 W2 h0]; simp only [dgiT, dGamT, jet, Fin.sum_univ_four, Matrix.cons_val_zero, Matrix.cons_val_one, Matrix.cons_val]; jet_close)
set_option maxHeartbeats 1000000 in
theorem dGam_eq_2 (W W1 W2 : K) (h0 : W ≠ 0) : (jet W W1 W2).dGam 2 = dGamT W W1 W2 2 := by
  have h0n := h0; (try ring_nf at h0n); 
  refine funext4 ?_ ?_ ?_ ?_ <;> refine funext4 ?_ ?_ ?_ ?_ <;> refine funext4 ?_ ?_ ?_ ?_ <;>
    (simp only [Jet2.dGam, Jet2.Gl, Jet2.dGl, christoffel1, dgi_eq W W1 W2 h0]; simp only [dgiT, dGamT, jet, Fin.sum_univ_four, Matrix.cons_val_zero, Matrix.cons_val_one, Matrix.cons_val]; jet_close)
set_option maxHeartbeats 1000000 in
theorem dGam_eq_3 (W W1 W2 : K) (h0 : W ≠ 0) : (jet W W1 W2).dGam 3 = dGamT W W1 W2 3 := by
  have h0n := h0; (try ring_nf at h0n); 
  refine funext4 ?_ ?_ ?_ ?_ <;> refine funext4 ?_ ?_ ?_ ?_ <;> refine funext4 ?_ ?_ ?_ ?_ <;>
    (simp only [Jet2.dGam, Jet2.Gl, Jet2.dGl, christoffel1, dgi_eq W W1 W2 h0]; simp only [dgiT, dGamT, jet, Fin.sum_univ_four, Matrix.cons_val_zero, Matrix.cons_val_one, Matrix.cons_val]; jet_close)
theorem dGam_eq (W W1 W2 : K) (h0 : W ≠ 0) : (jet W W1 W2).dGam = dGamT W W1 W2 :=
  funext4 (dGam_eq_0 W W1 W2 h0) (dGam_eq_1 W W1 W2 h0) (dGam_eq_2 W W1 W2 h0) (dGam_eq_3 W W1 W2 h0)

set_option maxHeartbeats 1000000 in
/-- `R_ab` -/
def RicT (W W1 W2 : K) : Fin 4 → Fin 4 → K :=
  ![![(((W * W2) + W1 ^ (2:ℕ)) / W ^ (2:ℕ)), (0:K), (0:K), (0:K)], ![(0:K), (-(((3:K) * ((W * W2) - W1 ^ (2:ℕ))) / W ^ (2:ℕ))), (0:K), (0:K)], ![(0:K), (0:K), (((-(W * W2)) - W1 ^ (2:ℕ)) / W ^ (2:ℕ)), (0:K)], ![(0:K), (0:K), (0:K), (((-(W * W2)) - W1 ^ (2:ℕ)) / W ^ (2:ℕ))]]
set_option maxHeartbeats 1000000 in
theorem Ric_eq (W W1 W2 : K) (h0 : W ≠ 0) : (jet W W1 W2).Ric = RicT W W1 W2 := by
  have h0n := h0; (try ring_nf at h0n); 
  refine funext4 ?_ ?_ ?_ ?_ <;> refine funext4 ?_ ?_ ?_ ?_ <;>
    (simp only [Jet2.Ric, ricci, Jet2.Riem, Gam_eq W W1 W2 h0, dGam_eq W W1 W2 h0]; simp only [GamT, dGamT, RicT, jet, Fin.sum_univ_four, Matrix.cons_val_zero, Matrix.cons_val_one, Matrix.cons_val]; jet_close)

set_option maxHeartbeats 1000000 in
/-- `R` -/
def RicST (W W1 W2 : K) : K :=
  (-(((6:K) * W2) / W ^ (3:ℕ)))
set_option maxHeartbeats 1000000 in
theorem RicS_eq (W W1 W2 : K) (h0 : W ≠ 0) : (jet W W1 W2).RicS = RicST W W1 W2 := by
  have h0n := h0; (try ring_nf at h0n); 
    (simp only [Jet2.RicS, trace, Ric_eq W W1 W2 h0]; simp only [RicT, RicST, jet, Fin.sum_univ_four, Matrix.cons_val_zero, Matrix.cons_val_one, Matrix.cons_val]; jet_close)

set_option maxHeartbeats 1000000 in
/-- `G_ab = R_ab − ½ R g_ab` -/
def EinsteinT (W W1 W2 : K) : Fin 4 → Fin 4 → K :=
  ![![(((-((2:K) * W * W2)) + W1 ^ (2:ℕ)) / W ^ (2:ℕ)), (0:K), (0:K), (0:K)], ![(0:K), (((3:K) * W1 ^ (2:ℕ)) / W ^ (2:ℕ)), (0:K), (0:K)], ![(0:K), (0:K), ((((2:K) * W * W2) - W1 ^ (2:ℕ)) / W ^ (2:ℕ)), (0:K)], ![(0:K), (0:K), (0:K), ((((2:K) * W * W2) - W1 ^ (2:ℕ)) / W ^ (2:ℕ))]]
set_option maxHeartbeats 1000000 in
theorem Einstein_eq (W W1 W2 : K) (h0 : W ≠ 0) : (jet W W1 W2).Einstein = EinsteinT W W1 W2 := by
  have h0n := h0; (try ring_nf at h0n); 
  refine funext4 ?_ ?_ ?_ ?_ <;> refine funext4 ?_ ?_ ?_ ?_ <;>
    (simp only [Jet2.Einstein, einstein, Ric_eq W W1 W2 h0, RicS_eq W W1 W2 h0]; simp only [RicT, RicST, EinsteinT, jet, Fin.sum_univ_four, Matrix.cons_val_zero, Matrix.cons_val_one, Matrix.cons_val]; jet_close)

end AurelVerif.C17Jet.ConfFlat
