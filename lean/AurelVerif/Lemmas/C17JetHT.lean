/-
Lemmas/C17JetHT.lean — written by tools/py2lean/c17_jetgen.py (developer tool, not run by ./check);
ordinary Lean source from then on.  Harvey–Tsoubelis Bianchi IV plane-wave metric with `E = exp x`, `B = x + log t` (`∂_x E = E`, `∂_t B = 1/t`, `∂_x B = 1`).

`jet` is a 2-jet of a metric in the sense of Spec/Jet4.lean whose entries are rational functions of
the field variables `t E B`.  Each `…T` table below is PROVEN equal to the textbook definition of
Spec/Jet4.lean (Christoffel symbols, derivative of the inverse metric, derivative of the
Christoffel symbols, Ricci tensor, Ricci scalar, Einstein tensor); the tables
themselves carry no authority.
-/
import AurelVerif.Lemmas.C17JetTac

set_option linter.unusedVariables false
set_option linter.unusedTactic false
set_option linter.unreachableTactic false
set_option linter.unusedSimpArgs false
set_option linter.style.longLine false
set_option linter.unusedSectionVars false

namespace AurelVerif.C17Jet.HT
open AurelVerif.Spec.Jet4 AurelVerif.Spec.Curvature AurelVerif.C17JetTac
variable {K : Type} [Field K] [CharZero K]

set_option maxHeartbeats 1000000 in
/-- the 2-jet: `g`, `gi = g⁻¹`, `dg c a b = ∂_c g_ab`, `ddg c d a b = ∂_c ∂_d g_ab`. -/
def jet (t E B : K) : Jet2 K where
  g := ![![(-1:K), (0:K), (0:K), (0:K)], ![(0:K), t ^ (2:ℕ), (0:K), (0:K)], ![(0:K), (0:K), (E * t), (B * E * t)], ![(0:K), (0:K), (B * E * t), (E * t * (B ^ (2:ℕ) + (1:K)))]]
  gi := ![![(-1:K), (0:K), (0:K), (0:K)], ![(0:K), (1 / t ^ (2:ℕ)), (0:K), (0:K)], ![(0:K), (0:K), ((B ^ (2:ℕ) + (1:K)) / (E * t)), (-(B / (E * t)))], ![(0:K), (0:K), (-(B / (E * t))), ((1:K) / (E * t))]]
  dg := ![![![(0:K), (0:K), (0:K), (0:K)], ![(0:K), ((2:K) * t), (0:K), (0:K)], ![(0:K), (0:K), E, (E * (B + (1:K)))], ![(0:K), (0:K), (E * (B + (1:K))), (E * (B + (1:K)) ^ (2:ℕ))]], ![![(0:K), (0:K), (0:K), (0:K)], ![(0:K), (0:K), (0:K), (0:K)], ![(0:K), (0:K), (E * t), (E * t * (B + (1:K)))], ![(0:K), (0:K), (E * t * (B + (1:K))), (E * t * (B + (1:K)) ^ (2:ℕ))]], ![![(0:K), (0:K), (0:K), (0:K)], ![(0:K), (0:K), (0:K), (0:K)], ![(0:K), (0:K), (0:K), (0:K)], ![(0:K), (0:K), (0:K), (0:K)]], ![![(0:K), (0:K), (0:K), (0:K)], ![(0:K), (0:K), (0:K), (0:K)], ![(0:K), (0:K), (0:K), (0:K)], ![(0:K), (0:K), (0:K), (0:K)]]]
  ddg := ![![![![(0:K), (0:K), (0:K), (0:K)], ![(0:K), (2:K), (0:K), (0:K)], ![(0:K), (0:K), (0:K), (E / t)], ![(0:K), (0:K), (E / t), (((2:K) * E * (B + (1:K))) / t)]], ![![(0:K), (0:K), (0:K), (0:K)], ![(0:K), (0:K), (0:K), (0:K)], ![(0:K), (0:K), E, (E * (B + (2:K)))], ![(0:K), (0:K), (E * (B + (2:K))), (E * (B + (1:K)) * (B + (3:K)))]], ![![(0:K), (0:K), (0:K), (0:K)], ![(0:K), (0:K), (0:K), (0:K)], ![(0:K), (0:K), (0:K), (0:K)], ![(0:K), (0:K), (0:K), (0:K)]], ![![(0:K), (0:K), (0:K), (0:K)], ![(0:K), (0:K), (0:K), (0:K)], ![(0:K), (0:K), (0:K), (0:K)], ![(0:K), (0:K), (0:K), (0:K)]]], ![![![(0:K), (0:K), (0:K), (0:K)], ![(0:K), (0:K), (0:K), (0:K)], ![(0:K), (0:K), E, (E * (B + (2:K)))], ![(0:K), (0:K), (E * (B + (2:K))), (E * (B + (1:K)) * (B + (3:K)))]], ![![(0:K), (0:K), (0:K), (0:K)], ![(0:K), (0:K), (0:K), (0:K)], ![(0:K), (0:K), (E * t), (E * t * (B + (2:K)))], ![(0:K), (0:K), (E * t * (B + (2:K))), (E * t * (B + (1:K)) * (B + (3:K)))]], ![![(0:K), (0:K), (0:K), (0:K)], ![(0:K), (0:K), (0:K), (0:K)], ![(0:K), (0:K), (0:K), (0:K)], ![(0:K), (0:K), (0:K), (0:K)]], ![![(0:K), (0:K), (0:K), (0:K)], ![(0:K), (0:K), (0:K), (0:K)], ![(0:K), (0:K), (0:K), (0:K)], ![(0:K), (0:K), (0:K), (0:K)]]], ![![![(0:K), (0:K), (0:K), (0:K)], ![(0:K), (0:K), (0:K), (0:K)], ![(0:K), (0:K), (0:K), (0:K)], ![(0:K), (0:K), (0:K), (0:K)]], ![![(0:K), (0:K), (0:K), (0:K)], ![(0:K), (0:K), (0:K), (0:K)], ![(0:K), (0:K), (0:K), (0:K)], ![(0:K), (0:K), (0:K), (0:K)]], ![![(0:K), (0:K), (0:K), (0:K)], ![(0:K), (0:K), (0:K), (0:K)], ![(0:K), (0:K), (0:K), (0:K)], ![(0:K), (0:K), (0:K), (0:K)]], ![![(0:K), (0:K), (0:K), (0:K)], ![(0:K), (0:K), (0:K), (0:K)], ![(0:K), (0:K), (0:K), (0:K)], ![(0:K), (0:K), (0:K), (0:K)]]], ![![![(0:K), (0:K), (0:K), (0:K)], ![(0:K), (0:K), (0:K), (0:K)], ![(0:K), (0:K), (0:K), (0:K)], ![(0:K), (0:K), (0:K), (0:K)]], ![![(0:K), (0:K), (0:K), (0:K)], ![(0:K), (0:K), (0:K), (0:K)], ![(0:K), (0:K), (0:K), (0:K)], ![(0:K), (0:K), (0:K), (0:K)]], ![![(0:K), (0:K), (0:K), (0:K)], ![(0:K), (0:K), (0:K), (0:K)], ![(0:K), (0:K), (0:K), (0:K)], ![(0:K), (0:K), (0:K), (0:K)]], ![![(0:K), (0:K), (0:K), (0:K)], ![(0:K), (0:K), (0:K), (0:K)], ![(0:K), (0:K), (0:K), (0:K)], ![(0:K), (0:K), (0:K), (0:K)]]]]

theorem jet_inverse (t E B : K) (h0 : t ≠ 0) (h1 : E ≠ 0) : (jet t E B).IsInverse := by
  have h0n := h0; have h1n := h1; (try ring_nf at h0n); (try ring_nf at h1n); 
  refine forall4 ?_ ?_ ?_ ?_ <;> refine forall4 ?_ ?_ ?_ ?_ <;>
    (simp only [jet, Fin.sum_univ_four, Fin.isValue, Fin.reduceEq, if_true, if_false, reduceIte, Matrix.cons_val_zero, Matrix.cons_val_one, Matrix.cons_val]; jet_close)

set_option maxHeartbeats 1000000 in
theorem jet_symm (t E B : K) : (jet t E B).IsSymm := by
  refine ⟨?_, ?_, ?_, ?_, ?_⟩
  · refine forall4 ?_ ?_ ?_ ?_ <;> refine forall4 ?_ ?_ ?_ ?_ <;> rfl
  · refine forall4 ?_ ?_ ?_ ?_ <;> refine forall4 ?_ ?_ ?_ ?_ <;> rfl
  · refine forall4 ?_ ?_ ?_ ?_ <;> refine forall4 ?_ ?_ ?_ ?_ <;> refine forall4 ?_ ?_ ?_ ?_ <;> rfl
  · refine forall4 ?_ ?_ ?_ ?_ <;> refine forall4 ?_ ?_ ?_ ?_ <;> refine forall4 ?_ ?_ ?_ ?_ <;> refine forall4 ?_ ?_ ?_ ?_ <;> rfl
  · refine forall4 ?_ ?_ ?_ ?_ <;> refine forall4 ?_ ?_ ?_ ?_ <;> refine forall4 ?_ ?_ ?_ ?_ <;> refine forall4 ?_ ?_ ?_ ?_ <;> rfl

set_option maxHeartbeats 1000000 in
/-- `Γ^a_{bc}` -/
def GamT (t E B : K) : Fin 4 → Fin 4 → Fin 4 → K :=
  ![![![(0:K), (0:K), (0:K), (0:K)], ![(0:K), t, (0:K), (0:K)], ![(0:K), (0:K), (E / (2:K)), ((E * (B + (1:K))) / (2:K))], ![(0:K), (0:K), ((E * (B + (1:K))) / (2:K)), ((E * (B + (1:K)) ^ (2:ℕ)) / (2:K))]], ![![(0:K), (1 / t), (0:K), (0:K)], ![(1 / t), (0:K), (0:K), (0:K)], ![(0:K), (0:K), (-(E / ((2:K) * t))), (-((E * (B + (1:K))) / ((2:K) * t)))], ![(0:K), (0:K), (-((E * (B + (1:K))) / ((2:K) * t))), (-((E * (B + (1:K)) ^ (2:ℕ)) / ((2:K) * t)))]], ![![(0:K), (0:K), (((1:K) - B) / ((2:K) * t)), (-(((B - (1:K)) * (B + (1:K))) / ((2:K) * t)))], ![(0:K), (0:K), (-((B - (1:K)) / (2:K))), (-(((B - (1:K)) * (B + (1:K))) / (2:K)))], ![(((1:K) - B) / ((2:K) * t)), (-((B - (1:K)) / (2:K))), (0:K), (0:K)], ![(-(((B - (1:K)) * (B + (1:K))) / ((2:K) * t))), (-(((B - (1:K)) * (B + (1:K))) / (2:K))), (0:K), (0:K)]], ![![(0:K), (0:K), ((1:K) / ((2:K) * t)), ((B + (1:K)) / ((2:K) * t))], ![(0:K), (0:K), ((1:K) / 2), ((B + (1:K)) / (2:K))], ![((1:K) / ((2:K) * t)), ((1:K) / 2), (0:K), (0:K)], ![((B + (1:K)) / ((2:K) * t)), ((B + (1:K)) / (2:K)), (0:K), (0:K)]]]
set_option maxHeartbeats 1000000 in
theorem Gam_eq (t E B : K) (h0 : t ≠ 0) (h1 : E ≠ 0) : (jet t E B).Gam = GamT t E B := by
  have h0n := h0; have h1n := h1; (try ring_nf at h0n); (try ring_nf at h1n); 
  refine funext4 ?_ ?_ ?_ ?_ <;> refine funext4 ?_ ?_ ?_ ?_ <;> refine funext4 ?_ ?_ ?_ ?_ <;>
    (simp only [Jet2.Gam, christoffel, christoffel1]; simp only [GamT, jet, Fin.sum_univ_four, Matrix.cons_val_zero, Matrix.cons_val_one, Matrix.cons_val]; jet_close)

set_option maxHeartbeats 1000000 in
/-- `∂_e g^{ab}` -/
def dgiT (t E B : K) : Fin 4 → Fin 4 → Fin 4 → K :=
  ![![![(0:K), (0:K), (0:K), (0:K)], ![(0:K), (-((2:K) / t ^ (3:ℕ))), (0:K), (0:K)], ![(0:K), (0:K), (-((B - (1:K)) ^ (2:ℕ) / (E * t ^ (2:ℕ)))), ((B - (1:K)) / (E * t ^ (2:ℕ)))], ![(0:K), (0:K), ((B - (1:K)) / (E * t ^ (2:ℕ))), (-((1:K) / (E * t ^ (2:ℕ))))]], ![![(0:K), (0:K), (0:K), (0:K)], ![(0:K), (0:K), (0:K), (0:K)], ![(0:K), (0:K), (-((B - (1:K)) ^ (2:ℕ) / (E * t))), ((B - (1:K)) / (E * t))], ![(0:K), (0:K), ((B - (1:K)) / (E * t)), (-((1:K) / (E * t)))]], ![![(0:K), (0:K), (0:K), (0:K)], ![(0:K), (0:K), (0:K), (0:K)], ![(0:K), (0:K), (0:K), (0:K)], ![(0:K), (0:K), (0:K), (0:K)]], ![![(0:K), (0:K), (0:K), (0:K)], ![(0:K), (0:K), (0:K), (0:K)], ![(0:K), (0:K), (0:K), (0:K)], ![(0:K), (0:K), (0:K), (0:K)]]]
set_option maxHeartbeats 1000000 in
theorem dgi_eq (t E B : K) (h0 : t ≠ 0) (h1 : E ≠ 0) : (jet t E B).dgi = dgiT t E B := by
  have h0n := h0; have h1n := h1; (try ring_nf at h0n); (try ring_nf at h1n); 
  refine funext4 ?_ ?_ ?_ ?_ <;> refine funext4 ?_ ?_ ?_ ?_ <;> refine funext4 ?_ ?_ ?_ ?_ <;>
    (simp only [Jet2.dgi]; simp only [dgiT, jet, Fin.sum_univ_four, Matrix.cons_val_zero, Matrix.cons_val_one, Matrix.cons_val]; jet_close)

set_option maxHeartbeats 1000000 in
/-- `∂_e Γ^a_{bc}` -/
def dGamT (t E B : K) : Fin 4 → Fin 4 → Fin 4 → Fin 4 → K :=
  ![![![![(0:K), (0:K), (0:K), (0:K)], ![(0:K), (1:K), (0:K), (0:K)], ![(0:K), (0:K), (0:K), (E / ((2:K) * t))], ![(0:K), (0:K), (E / ((2:K) * t)), ((E * (B + (1:K))) / t)]], ![![(0:K), (-(1 / t ^ (2:ℕ))), (0:K), (0:K)], ![(-(1 / t ^ (2:ℕ))), (0:K), (0:K), (0:K)], ![(0:K), (0:K), (E / ((2:K) * t ^ (2:ℕ))), ((B * E) / ((2:K) * t ^ (2:ℕ)))], ![(0:K), (0:K), ((B * E) / ((2:K) * t ^ (2:ℕ))), ((E * (B - (1:K)) * (B + (1:K))) / ((2:K) * t ^ (2:ℕ)))]], ![![(0:K), (0:K), ((B - (2:K)) / ((2:K) * t ^ (2:ℕ))), ((B ^ (2:ℕ) - ((2:K) * B) - (1:K)) / ((2:K) * t ^ (2:ℕ)))], ![(0:K), (0:K), (-((1:K) / ((2:K) * t))), (-(B / t))], ![((B - (2:K)) / ((2:K) * t ^ (2:ℕ))), (-((1:K) / ((2:K) * t))), (0:K), (0:K)], ![((B ^ (2:ℕ) - ((2:K) * B) - (1:K)) / ((2:K) * t ^ (2:ℕ))), (-(B / t)), (0:K), (0:K)]], ![![(0:K), (0:K), (-((1:K) / ((2:K) * t ^ (2:ℕ)))), (-(B / ((2:K) * t ^ (2:ℕ))))], ![(0:K), (0:K), (0:K), ((1:K) / ((2:K) * t))], ![(-((1:K) / ((2:K) * t ^ (2:ℕ)))), (0:K), (0:K), (0:K)], ![(-(B / ((2:K) * t ^ (2:ℕ)))), ((1:K) / ((2:K) * t)), (0:K), (0:K)]]], ![![![(0:K), (0:K), (0:K), (0:K)], ![(0:K), (0:K), (0:K), (0:K)], ![(0:K), (0:K), (E / (2:K)), ((E * (B + (2:K))) / (2:K))], ![(0:K), (0:K), ((E * (B + (2:K))) / (2:K)), ((E * (B + (1:K)) * (B + (3:K))) / (2:K))]], ![![(0:K), (0:K), (0:K), (0:K)], ![(0:K), (0:K), (0:K), (0:K)], ![(0:K), (0:K), (-(E / ((2:K) * t))), (-((E * (B + (2:K))) / ((2:K) * t)))], ![(0:K), (0:K), (-((E * (B + (2:K))) / ((2:K) * t))), (-((E * (B + (1:K)) * (B + (3:K))) / ((2:K) * t)))]], ![![(0:K), (0:K), (-((1:K) / ((2:K) * t))), (-(B / t))], ![(0:K), (0:K), (-(1:K) / 2), (-B)], ![(-((1:K) / ((2:K) * t))), (-(1:K) / 2), (0:K), (0:K)], ![(-(B / t)), (-B), (0:K), (0:K)]], ![![(0:K), (0:K), (0:K), ((1:K) / ((2:K) * t))], ![(0:K), (0:K), (0:K), ((1:K) / 2)], ![(0:K), (0:K), (0:K), (0:K)], ![((1:K) / ((2:K) * t)), ((1:K) / 2), (0:K), (0:K)]]], ![![![(0:K), (0:K), (0:K), (0:K)], ![(0:K), (0:K), (0:K), (0:K)], ![(0:K), (0:K), (0:K), (0:K)], ![(0:K), (0:K), (0:K), (0:K)]], ![![(0:K), (0:K), (0:K), (0:K)], ![(0:K), (0:K), (0:K), (0:K)], ![(0:K), (0:K), (0:K), (0:K)], ![(0:K), (0:K), (0:K), (0:K)]], ![![(0:K), (0:K), (0:K), (0:K)], ![(0:K), (0:K), (0:K), (0:K)], ![(0:K), (0:K), (0:K), (0:K)], ![(0:K), (0:K), (0:K), (0:K)]], ![![(0:K), (0:K), (0:K), (0:K)], ![(0:K), (0:K), (0:K), (0:K)], ![(0:K), (0:K), (0:K), (0:K)], ![(0:K), (0:K), (0:K), (0:K)]]], ![![![(0:K), (0:K), (0:K), (0:K)], ![(0:K), (0:K), (0:K), (0:K)], ![(0:K), (0:K), (0:K), (0:K)], ![(0:K), (0:K), (0:K), (0:K)]], ![![(0:K), (0:K), (0:K), (0:K)], ![(0:K), (0:K), (0:K), (0:K)], ![(0:K), (0:K), (0:K), (0:K)], ![(0:K), (0:K), (0:K), (0:K)]], ![![(0:K), (0:K), (0:K), (0:K)], ![(0:K), (0:K), (0:K), (0:K)], ![(0:K), (0:K), (0:K), (0:K)], ![(0:K), (0:K), (0:K), (0:K)]], ![![(0:K), (0:K), (0:K), (0:K)], ![(0:K), (0:K), (0:K), (0:K)], ![(0:K), (0:K), (0:K), (0:K)], ![(0:K), (0:K), (0:K), (0:K)]]]]
set_option maxHeartbeats 1000000 in
theorem dGam_eq_0 (t E B : K) (h0 : t ≠ 0) (h1 : E ≠ 0) : (jet t E B).dGam 0 = dGamT t E B 0 := by
  have h0n := h0; have h1n := h1; (try ring_nf at h0n); (try ring_nf at h1n); 
  refine funext4 ?_ ?_ ?_ ?_ <;> refine funext4 ?_ ?_ ?_ ?_ <;> refine funext4 ?_ ?_ ?_ ?_ <;>
    (simp only [Jet2.dGam, Jet2.Gl, Jet2.dGl, christoffel1, dgi_eq t E B h0 h1]; simp only [dgiT, dGamT, jet, Fin.sum_univ_four, Matrix.cons_val_zero, Matrix.cons_val_one, Matrix.cons_val]; jet_close)
set_option maxHeartbeats 1000000 in
theorem dGam_eq_1 (t E B : K) (h0 : t ≠ 0) (h1 : E ≠ 0) : (jet t E B).dGam 1 = dGamT t E B 1 := by
  have h0n := h0; have h1n := h1; (try ring_nf at h0n); (try ring_nf at h1n); 
  refine funext4 ?_ ?_ ?_ ?_ <;> refine funext4 ?_ ?_ ?_ ?_ <;> refine funext4 ?_ ?_ ?_ ?_ <;>
    (simp only [Jet2.dGam, Jet2.Gl, Jet2.dGl, christoffel1, dgi_eq t E B h0 h1]; simp only [dgiT, dGamT, jet, Fin.sum_univ_four, Matrix.cons_val_zero, Matrix.cons_val_one, Matrix.cons_val]; jet_close)
set_option maxHeartbeats 1000000 in
theorem dGam_eq_2 (t E B : K) (h0 : t ≠ 0) (h1 : E ≠ 0) : (jet t E B).dGam 2 = dGamT t E B 2 := by
  have h0n := h0; have h1n := h1; (try ring_nf at h0n); (try ring_nf at h1n); 
  refine funext4 ?_ ?_ ?_ ?_ <;> refine funext4 ?_ ?_ ?_ ?_ <;> refine funext4 ?_ ?_ ?_ ?_ <;>
    (simp only [Jet2.dGam, Jet2.Gl, Jet2.dGl, christoffel1, dgi_eq t E B h0 h1]; simp only [dgiT, dGamT, jet, Fin.sum_univ_four, Matrix.cons_val_zero, Matrix.cons_val_one, Matrix.cons_val]; jet_close)
set_option maxHeartbeats 1000000 in
theorem dGam_eq_3 (t E B : K) (h0 : t ≠ 0) (h1 : E ≠ 0) : (jet t E B).dGam 3 = dGamT t E B 3 := by
  have h0n := h0; have h1n := h1; (try ring_nf at h0n); (try ring_nf at h1n); 
  refine funext4 ?_ ?_ ?_ ?_ <;> refine funext4 ?_ ?_ ?_ ?_ <;> refine funext4 ?_ ?_ ?_ ?_ <;>
    (simp only [Jet2.dGam, Jet2.Gl, Jet2.dGl, christoffel1, dgi_eq t E B h0 h1]; simp only [dgiT, dGamT, jet, Fin.sum_univ_four, Matrix.cons_val_zero, Matrix.cons_val_one, Matrix.cons_val]; jet_close)
theorem dGam_eq (t E B : K) (h0 : t ≠ 0) (h1 : E ≠ 0) : (jet t E B).dGam = dGamT t E B :=
  funext4 (dGam_eq_0 t E B h0 h1) (dGam_eq_1 t E B h0 h1) (dGam_eq_2 t E B h0 h1) (dGam_eq_3 t E B h0 h1)

set_option maxHeartbeats 1000000 in
/-- `R_ab` -/
def RicT (t E B : K) : Fin 4 → Fin 4 → K :=
  ![![(0:K), (0:K), (0:K), (0:K)], ![(0:K), (0:K), (0:K), (0:K)], ![(0:K), (0:K), (0:K), (0:K)], ![(0:K), (0:K), (0:K), (0:K)]]
set_option maxHeartbeats 1000000 in
theorem Ric_eq (t E B : K) (h0 : t ≠ 0) (h1 : E ≠ 0) : (jet t E B).Ric = RicT t E B := by
  have h0n := h0; have h1n := h1; (try ring_nf at h0n); (try ring_nf at h1n); 
  refine funext4 ?_ ?_ ?_ ?_ <;> refine funext4 ?_ ?_ ?_ ?_ <;>
    (simp only [Jet2.Ric, ricci, Jet2.Riem, Gam_eq t E B h0 h1, dGam_eq t E B h0 h1]; simp only [GamT, dGamT, RicT, jet, Fin.sum_univ_four, Matrix.cons_val_zero, Matrix.cons_val_one, Matrix.cons_val]; jet_close)

set_option maxHeartbeats 1000000 in
/-- `R` -/
def RicST (t E B : K) : K :=
  (0:K)
set_option maxHeartbeats 1000000 in
theorem RicS_eq (t E B : K) (h0 : t ≠ 0) (h1 : E ≠ 0) : (jet t E B).RicS = RicST t E B := by
  have h0n := h0; have h1n := h1; (try ring_nf at h0n); (try ring_nf at h1n); 
    (simp only [Jet2.RicS, trace, Ric_eq t E B h0 h1]; simp only [RicT, RicST, jet, Fin.sum_univ_four, Matrix.cons_val_zero, Matrix.cons_val_one, Matrix.cons_val]; jet_close)

set_option maxHeartbeats 1000000 in
/-- `G_ab = R_ab − ½ R g_ab` -/
def EinsteinT (t E B : K) : Fin 4 → Fin 4 → K :=
  ![![(0:K), (0:K), (0:K), (0:K)], ![(0:K), (0:K), (0:K), (0:K)], ![(0:K), (0:K), (0:K), (0:K)], ![(0:K), (0:K), (0:K), (0:K)]]
set_option maxHeartbeats 1000000 in
theorem Einstein_eq (t E B : K) (h0 : t ≠ 0) (h1 : E ≠ 0) : (jet t E B).Einstein = EinsteinT t E B := by
  have h0n := h0; have h1n := h1; (try ring_nf at h0n); (try ring_nf at h1n); 
  refine funext4 ?_ ?_ ?_ ?_ <;> refine funext4 ?_ ?_ ?_ ?_ <;>
    (simp only [Jet2.Einstein, einstein, Ric_eq t E B h0 h1, RicS_eq t E B h0 h1]; simp only [RicT, RicST, EinsteinT, jet, Fin.sum_univ_four, Matrix.cons_val_zero, Matrix.cons_val_one, Matrix.cons_val]; jet_close)

end AurelVerif.C17Jet.HT
