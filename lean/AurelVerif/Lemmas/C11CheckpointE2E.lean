/-
Lemmas/C11CheckpointE2E.lean — C11: `read_ET_data(usecheckpoints=True)` =
restart selection by checkpoint lists + `readCheckpoints` per restart +
flattening, on well-formed checkpoint files.
-/
import AurelVerif.Lemmas.C11CheckpointTable
namespace AurelVerif.CheckpointLemmas
open AurelVerif.Chunks AurelVerif.ChunksLemmas AurelVerif.Checkpoint AurelVerif.CheckpointSpec
open AurelVerif.Restarts AurelVerif.RestartsLemmas
set_option linter.unusedSimpArgs false
set_option linter.unusedVariables false

/-- the cell `(restart r, column k, iteration it)` of a correct answer -/
def ckCell {α : Type} (toAurel : String → String) (var : List String) (A : Nat → Nat → String → Arr3 α)
    (tm : Nat → Nat → Nat) (r : Nat) (k : String) (it : Nat) : Cell α :=
  if k = "t" then Cell.t (tm r it)
  else match var.find? (fun v => toAurel v == k) with
    | some v => Cell.arr (fixij (A r it v))
    | none => Cell.t 0

theorem find_inj (toAurel : String → String) (var : List String)
    (hinj : ∀ a ∈ var, ∀ b ∈ var, toAurel a = toAurel b → a = b) (v : String) (hv : v ∈ var) :
    var.find? (fun w => toAurel w == toAurel v) = some v := by
  induction var with
  | nil => cases hv
  | cons w rest ih =>
    by_cases e : toAurel w = toAurel v
    · have : w = v := hinj w (List.mem_cons_self ..) v hv e
      simp [List.find?_cons, this]
    · have hb : (toAurel w == toAurel v) = false := by simp [e]
      rw [List.find?_cons, hb]
      rcases List.mem_cons.mp hv with h | h
      · exact absurd (by rw [h]) e
      · exact ih (fun a ha b hb => hinj a (List.mem_cons_of_mem _ ha) b (List.mem_cons_of_mem _ hb)) h

/-- the table `readCheckpoints` returns on well-formed files is the ideal table -/
theorem checkpoint_table_ideal {α : Type} (toAurel : String → String) (var : List String)
    (hinj : ∀ a ∈ var, ∀ b ∈ var, toAurel a = toAurel b → a = b) (ht : ∀ v ∈ var, toAurel v ≠ "t")
    (A : Nat → Nat → String → Arr3 α) (tm : Nat → Nat → Nat) (r : Nat) (l : List Nat) :
    (⟨l, ("t", l.map fun i => Cell.t (tm r i))
        :: var.map fun v => (toAurel v, l.map fun i => Cell.arr (fixij (A r i v)))⟩ : Table (Cell α))
      = ideal ("t" :: var.map toAurel) (ckCell toAurel var A tm) r l := by
  unfold ideal aligned
  simp only [List.map_cons, List.map_map, Table.mk.injEq, true_and, List.cons.injEq]
  refine ⟨by simp [ckCell], ?_⟩
  apply List.map_congr_left
  intro v hv
  simp only [Function.comp, Prod.mk.injEq, true_and]
  apply List.map_congr_left
  intro i _
  simp [ckCell, ht v hv, find_inj toAurel var hinj v hv]

theorem activeRestarts_nil_iff (usechk : Bool) (cats : List Cat) (its : List Nat) :
    activeRestarts usechk cats its = [] ↔ rowsOf usechk cats its = [] := by
  constructor
  · intro h
    rw [List.eq_nil_iff_forall_not_mem]
    intro p hp
    have : p.2 ∈ activeRestarts usechk cats its := (mem_activeRestarts usechk cats its p.2).mpr ⟨p.1, hp⟩
    rw [h] at this; cases this
  · intro h
    rw [List.eq_nil_iff_forall_not_mem]
    intro r hr
    obtain ⟨it, hit⟩ := (mem_activeRestarts usechk cats its r).mp hr
    rw [h] at hit; cases hit

/-- **`read_data(..., usecheckpoints=True)` on well-formed checkpoints, any number of
restarts, any overlap of their checkpoint lists, any request (duplicate names included)** -/
theorem checkpoint_pipeline_lemma {α : Type} (toAurel : String → String) (cats : List Cat)
    (hnd : (cats.map (·.num)).Nodup) (files : Nat → List (CFile α)) (var : List String)
    (hvar : var ≠ []) (hinj : ∀ a ∈ var, ∀ b ∈ var, toAurel a = toAurel b → a = b)
    (ht : ∀ v ∈ var, toAurel v ≠ "t") (rl : Nat)
    (A : Nat → Nat → String → Arr3 α) (tm : Nat → Nat → Nat)
    (hgood : ∀ r it, pick true cats it = some r → GoodItAuto (files r) it rl var (A r it) (tm r it))
    (its : List Nat) :
    readETData true cats none its (fun r l => readCheckpoints toAurel (files r) var l rl)
      = some ((rowsOf true cats its).map Prod.fst,
              aligned (if rowsOf true cats its = [] then [] else "t" :: var.eraseDups.map toAurel) fun k =>
                (rowsOf true cats its).map fun p => some (ckCell toAurel var.eraseDups A tm p.2 k p.1)) := by
  have hm : ∀ v, v ∈ var.eraseDups → v ∈ var := fun v h => List.mem_eraseDups.mp h
  have hinj' : ∀ a ∈ var.eraseDups, ∀ b ∈ var.eraseDups, toAurel a = toAurel b → a = b :=
    fun a ha b hb => hinj a (hm a ha) b (hm b hb)
  have ht' : ∀ v ∈ var.eraseDups, toAurel v ≠ "t" := fun v hv => ht v (hm v hv)
  have hkeys : ("t" :: var.eraseDups.map toAurel).Nodup := by
    refine List.nodup_cons.mpr ⟨?_, ?_⟩
    · intro hmem
      obtain ⟨v, hv, e⟩ := List.mem_map.mp hmem
      exact ht' v hv e
    · exact (List.nodup_map_iff_inj_on (nodup_eraseDups_str var)).mpr (fun a ha b hb e => hinj' a ha b hb e)
  rw [readETData_auto true cats hnd (fun _ => "t" :: var.eraseDups.map toAurel)
    (ckCell toAurel var.eraseDups A tm) _ (by
      intro r l hl hs hp
      have hss := sortedSet_of_strict l hs
      have := readCheckpoints_good toAurel (files r) var hvar hinj ht l hl rl (A r) (tm r)
        (by rw [hss]; intro iit hi; exact hgood r iit (hp iit hi))
      rw [this, hss]
      exact congrArg some (checkpoint_table_ideal toAurel var.eraseDups hinj' ht' A tm r l)) its]
  rw [unionKeysOf_const _ hkeys]
  simp only [activeRestarts_nil_iff]
  congr 2
  unfold aligned
  apply List.map_congr_left
  intro k hk
  congr 1
  apply List.map_congr_left
  intro p _
  have hkK : k ∈ "t" :: var.eraseDups.map toAurel := by
    split at hk
    · cases hk
    · exact hk
  simp [cellOpt, hkK]

end AurelVerif.CheckpointLemmas
