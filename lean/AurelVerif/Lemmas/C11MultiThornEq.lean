/-
Lemmas/C11MultiThornEq.lean — C11: the literal multi-thorn model of `read_ET_checkpoints`
(Model/MultiThorn.lean) against the older model (Model/Checkpoint.lean).

The code has ONE implementation.  Model/Checkpoint.lean is its specialisation to the ordinary case
"no requested name is answered by two datasets of one (iteration, level, component)"; here this is
proven: under `AtMostOne` (every candidate list has at most one element) the two models agree,
raise or not (`readCheckpointsM_eq`), and whenever the old model returns a table the literal model
returns the same table (`readCheckpointsM_of_some`), so every exact-read-back theorem about
`readCheckpoints` holds for `readCheckpointsM`.
-/
import AurelVerif.Lemmas.C11MultiThorn
import AurelVerif.Lemmas.C11CheckpointE2E
namespace AurelVerif.MultiThornEq
open AurelVerif.Chunks AurelVerif.Restarts AurelVerif.Checkpoint AurelVerif.MultiThorn AurelVerif.MultiThornLemmas
open AurelVerif.CheckpointSpec AurelVerif.CheckpointLemmas AurelVerif.ChunksLemmas
set_option linter.unusedSimpArgs false
set_option linter.unusedVariables false

/-! ### `mapOpt` -/

theorem mapOpt_append {γ δ : Type} (f : γ → Option δ) (a b : List γ) :
    mapOpt f (a ++ b) = (mapOpt f a).bind fun x => (mapOpt f b).map fun y => x ++ y := by
  induction a with
  | nil => cases h : mapOpt f b <;> simp [mapOpt, h]
  | cons x xs ih =>
    simp only [List.cons_append, mapOpt]
    cases hx : f x with
    | none => rfl
    | some y =>
      simp only [ih]
      cases hxs : mapOpt f xs with
      | none => rfl
      | some ys =>
        cases hb : mapOpt f b with
        | none => rfl
        | some zs => rfl

theorem mapOpt_map {γ δ ε : Type} (f : δ → Option ε) (g : γ → δ) (l : List γ) :
    mapOpt f (l.map g) = mapOpt (fun x => f (g x)) l := by
  induction l with
  | nil => rfl
  | cons x xs ih => simp only [List.map_cons, mapOpt, ih]

theorem mapOpt_some_mem {γ δ : Type} (f : γ → Option δ) (l : List γ) (ys : List δ) (h : mapOpt f l = some ys) :
    ∀ x ∈ l, ∃ y, f x = some y := by
  induction l generalizing ys with
  | nil => intro x hx; cases hx
  | cons a as ih =>
    intro x hx
    simp only [mapOpt] at h
    cases ha : f a with
    | none => rw [ha] at h; cases h
    | some y =>
      rw [ha] at h
      cases has : mapOpt f as with
      | none => rw [has] at h; cases h
      | some zs =>
        rcases List.mem_cons.mp hx with rfl | hx'
        · exact ⟨y, ha⟩
        · exact ih zs has x hx'

/-! ### filing a list of selected datasets -/

/-- filing the datasets `sel` (name, dataset), in order -/
def applySel {α : Type} (st : St α) (sel : List (String × DSet α)) : St α :=
  sel.foldl (fun st vd => st.read vd.1 vd.2) st

theorem applySel_nil {α : Type} (st : St α) : applySel st [] = st := rfl

theorem applySel_cons {α : Type} (st : St α) (vd : String × DSet α) (sel : List (String × DSet α)) :
    applySel st (vd :: sel) = applySel (st.read vd.1 vd.2) sel := rfl

theorem applySel_append {α : Type} (st : St α) (a b : List (String × DSet α)) :
    applySel st (a ++ b) = applySel (applySel st a) b := by
  simp [applySel, List.foldl_append]

theorem applySel_var {α : Type} (sel : List (String × DSet α)) : ∀ st : St α, (applySel st sel).var = st.var := by
  induction sel with
  | nil => intro st; rfl
  | cons vd rest ih => intro st; rw [applySel_cons, ih]; rfl

theorem applySel_vc {α : Type} (sel : List (String × DSet α)) : ∀ st : St α,
    (applySel st sel).vc = sel.foldl (fun vc vd => vcSet vc vd.1 vd.2.iorigin (trimmed vd.2)) st.vc := by
  induction sel with
  | nil => intro st; rfl
  | cons vd rest ih => intro st; rw [applySel_cons, ih]; rfl

theorem applySel_last {α : Type} (sel : List (String × DSet α)) : ∀ st : St α,
    (applySel st sel).last = match sel.getLast? with
      | some vd => some vd.2
      | none => st.last := by
  induction sel with
  | nil => intro st; rfl
  | cons vd rest ih =>
    intro st
    rw [applySel_cons, ih]
    cases rest with
    | nil => rfl
    | cons w ws =>
      rw [List.getLast?_cons_cons]
      cases h : (w :: ws).getLast? with
      | none => simp at h
      | some x => rfl

/-- a state is determined by its three fields -/
theorem St.ext' {α : Type} (a b : St α) (h1 : a.var = b.var) (h2 : a.vc = b.vc) (h3 : a.last = b.last) : a = b := by
  cases a; cases b; simp_all

/-- the request list can be exchanged before or after the reads -/
theorem applySel_with_var {α : Type} (sel : List (String × DSet α)) (var' : List String) : ∀ st : St α,
    applySel { st with var := var' } sel = { applySel st sel with var := var' } := by
  induction sel with
  | nil => intro st; rfl
  | cons vd rest ih => intro st; rw [applySel_cons, applySel_cons, ← ih]; rfl

/-! ### the ordinary case: at most one candidate per (name, component) -/

/-- "should be only one key" -/
def one {β : Type} : List β → Option β
  | [d] => some d
  | _ => none

theorem selectKey_eq_one {α : Type} (rel : List (DSet α)) (nochunks : Bool) (v : String) (c : Option Nat) :
    selectKey rel nochunks v c = one (keyOf rel nochunks c v) := by
  unfold selectKey keyOf
  cases nochunks
  · simp only [Bool.false_eq_true, if_false]
    generalize List.filter (fun d => d.c == c) (List.filter (fun d => matchesVar d v) rel) = l
    rcases l with _ | ⟨d, _ | ⟨e, es⟩⟩ <;> rfl
  · simp only [if_true]
    generalize List.filter (fun d => matchesVar d v) rel = l
    rcases l with _ | ⟨d, _ | ⟨e, es⟩⟩ <;> rfl

theorem one_some {β : Type} (l : List β) (d : β) (h : one l = some d) : l = [d] := by
  match l, h with
  | [x], h => simp [one] at h; rw [h]

theorem ckChunks_le1 {α : Type} (rel : List (DSet α)) (nochunks : Bool) (vi : Nat) (v : String) :
    ∀ (cs : List (Option Nat)) (st : St α), (∀ c ∈ cs, (keyOf rel nochunks c v).length ≤ 1) →
      ckChunks (rel.filter fun d => matchesVar d v) nochunks vi cs v st
        = (mapOpt (fun c => (selectKey rel nochunks v c).map fun d => (v, d)) cs).map fun sel => (v, applySel st sel) := by
  intro cs
  induction cs with
  | nil => intro st _; rfl
  | cons c cs ih =>
    intro st h
    have hk : (if nochunks then rel.filter (fun d => matchesVar d v)
        else (rel.filter fun d => matchesVar d v).filter fun d => d.c == c) = keyOf rel nochunks c v := rfl
    simp only [ckChunks, hk, mapOpt]
    rw [selectKey_eq_one]
    have hlen := h c (List.mem_cons_self ..)
    cases hkey : keyOf rel nochunks c v with
    | nil => rw [pickKey_empty]; rfl
    | cons d tl =>
      cases tl with
      | cons e es => rw [hkey] at hlen; simp at hlen
      | nil =>
        rw [pickKey_single]
        have h1 : one [d] = some d := rfl
        rw [h1]
        simp only [Option.map_some]
        rw [ih (st.read v d) (fun c' hc' => h c' (List.mem_cons_of_mem _ hc'))]
        cases mapOpt (fun c => (selectKey rel nochunks v c).map fun d => (v, d)) cs with
        | none => rfl
        | some sel => rfl

/-- `for vi, v in enumerate(var)` when no name from position `vi` on has two candidates: the list is not
rewritten, the loop reads what `readFile` of the old model selects (or raises where it raises) -/
theorem ckVars_le1 {α : Type} (rel : List (DSet α)) (nochunks : Bool) (crange : List (Option Nat)) :
    ∀ (fuel vi : Nat) (st : St α), st.var.length - vi < fuel →
      (∀ v ∈ st.var.drop vi, ∀ c ∈ crange, (keyOf rel nochunks c v).length ≤ 1) →
      ckVars rel nochunks crange fuel vi st
        = (mapOpt (fun vc : String × Option Nat => (selectKey rel nochunks vc.1 vc.2).map fun d => (vc.1, d))
            ((st.var.drop vi).flatMap fun v => crange.map fun c => (v, c))).map (applySel st) := by
  intro fuel
  induction fuel with
  | zero => intro vi st h; omega
  | succ fuel ih =>
    intro vi st hf hk
    simp only [ckVars]
    cases hv : st.var[vi]? with
    | none =>
      have : st.var.length ≤ vi := by simpa using hv
      simp [List.drop_eq_nil_of_le this, mapOpt, applySel]
    | some v =>
      have hlt : vi < st.var.length := by
        rcases Nat.lt_or_ge vi st.var.length with h | h
        · exact h
        · have := List.getElem?_eq_none h; rw [this] at hv; cases hv
      have hget : st.var[vi] = v := by
        have := List.getElem?_eq_getElem hlt; rw [this] at hv; exact Option.some.inj hv
      have hdrop : st.var.drop vi = v :: st.var.drop (vi + 1) := by
        rw [← hget]; exact List.drop_eq_getElem_cons hlt
      simp only
      rw [ckChunks_le1 rel nochunks vi v crange st (hk v (by rw [hdrop]; exact List.mem_cons_self ..))]
      rw [hdrop, List.flatMap_cons, mapOpt_append, mapOpt_map]
      cases hsel : mapOpt (fun c => (selectKey rel nochunks v c).map fun d => (v, d)) crange with
      | none => rfl
      | some sel =>
        simp only [Option.map_some, Option.bind_some]
        have := ih (vi + 1) (applySel st sel) (by rw [applySel_var]; omega)
          (by
            intro w hw
            have : w ∈ st.var.drop (vi + 1) := by simpa [applySel_var] using hw
            exact hk w (by rw [hdrop]; exact List.mem_cons_of_mem _ this))
        rw [this, applySel_var]
        cases mapOpt (fun vc : String × Option Nat => (selectKey rel nochunks vc.1 vc.2).map fun d => (vc.1, d))
            ((st.var.drop (vi + 1)).flatMap fun v => crange.map fun c => (v, c)) with
        | none => rfl
        | some sel2 => simp [applySel_append]

/-- no requested name has two candidates in file `f` -/
def AtMostOneFile {α : Type} (cmax : CMax) (iit rl : Nat) (var : List String) (f : CFile α) : Prop :=
  ∀ nochunks crange, chunkRange cmax f (relevant f iit rl) = some (nochunks, crange) →
    ∀ v ∈ var, ∀ c ∈ crange, (keyOf (relevant f iit rl) nochunks c v).length ≤ 1

theorem fuelFor_gt {α : Type} (st : St α) (rel : List (DSet α)) : st.var.length < fuelFor st rel := by
  unfold fuelFor
  have h1 : (st.var.length + rel.length + 1) * 1 ≤ (st.var.length + rel.length + 1) * (rel.length + 1) :=
    Nat.mul_le_mul_left _ (by omega)
  omega

/-- **one file, ordinary case**: the literal loop = `readFile` of Model/Checkpoint.lean, filed in order -/
theorem ckFile_le1 {α : Type} (cmax : CMax) (iit rl : Nat) (st : St α) (f : CFile α)
    (h : AtMostOneFile cmax iit rl st.var f) :
    ckFile cmax iit rl st f = (readFile cmax iit rl st.var f).map (applySel st) := by
  unfold ckFile readFile
  simp only
  cases hcr : chunkRange cmax f (relevant f iit rl) with
  | none => rfl
  | some p =>
    obtain ⟨nochunks, crange⟩ := p
    simp only
    have := ckVars_le1 (relevant f iit rl) nochunks crange (fuelFor st (relevant f iit rl)) 0 st
      (by have := fuelFor_gt st (relevant f iit rl); omega)
      (by intro v hv c hc; exact h nochunks crange hcr v (by simpa using hv) c hc)
    rw [this]
    simp

/-- when `readFile` succeeds every candidate list was a singleton -/
theorem atMostOne_of_readFile {α : Type} (cmax : CMax) (iit rl : Nat) (var : List String) (f : CFile α)
    (sel : List (String × DSet α)) (h : readFile cmax iit rl var f = some sel) : AtMostOneFile cmax iit rl var f := by
  intro nochunks crange hcr v hv c hc
  unfold readFile at h
  simp only [hcr] at h
  obtain ⟨y, hy⟩ := mapOpt_some_mem _ _ _ h (v, c)
    (List.mem_flatMap.mpr ⟨v, hv, List.mem_map.mpr ⟨c, hc, rfl⟩⟩)
  simp only [selectKey_eq_one] at hy
  cases ho : one (keyOf (relevant f iit rl) nochunks c v) with
  | none => rw [ho] at hy; cases hy
  | some d => rw [one_some _ d ho]; simp

/-- the files after the first one -/
theorem ckFiles_le1 {α : Type} (cmax : CMax) (iit rl : Nat) :
    ∀ (fs : List (CFile α)) (st : St α), (∀ f ∈ fs, AtMostOneFile cmax iit rl st.var f) →
      ckFiles cmax iit rl fs st
        = (mapOpt (readFile cmax iit rl st.var) fs).map fun sels => applySel st sels.flatten := by
  intro fs
  induction fs with
  | nil => intro st _; rfl
  | cons f fs ih =>
    intro st h
    simp only [ckFiles, mapOpt]
    rw [ckFile_le1 cmax iit rl st f (h f (List.mem_cons_self ..))]
    cases hr : readFile cmax iit rl st.var f with
    | none => rfl
    | some sel =>
      simp only [Option.map_some]
      rw [ih (applySel st sel) (by
        intro g hg; rw [applySel_var]; exact h g (List.mem_cons_of_mem _ hg)), applySel_var]
      cases mapOpt (readFile cmax iit rl st.var) fs with
      | none => rfl
      | some sels => simp [applySel_append]

/-- **one iteration, general form**: the first file may rewrite the request list `var` to `var'` (its state is the
one of an ordinary read of `var'`), the other files are ordinary for `var'`.  Then the literal model returns what
the old model returns for `var'`, and the rewritten list. -/
theorem readItM_of_first {α : Type} (files : List (CFile α)) (iit rl : Nat) (var var' : List String)
    (f0 : CFile α) (fs : List (CFile α)) (hF : files.filter (fun f => f.itName == iit) = f0 :: fs)
    (cmax : CMax) (hc : cmaxOf (f0 :: fs) = some cmax)
    (h0 : ckFile cmax iit rl ⟨var, [], none⟩ f0
      = (readFile cmax iit rl var' f0).map (applySel ⟨var', [], none⟩))
    (hfs : ∀ f ∈ fs, AtMostOneFile cmax iit rl var' f) :
    readItM files iit rl var = (readIt cmax files iit rl var').map fun r => (var', r) := by
  unfold readItM readIt
  simp only [hF, hc, h0, mapOpt]
  cases hr : readFile cmax iit rl var' f0 with
  | none => rfl
  | some sel0 =>
    simp only [Option.map_some]
    have hlast := applySel_last sel0 (⟨var', [], none⟩ : St α)
    have hfiles := ckFiles_le1 cmax iit rl fs (applySel ⟨var', [], none⟩ sel0)
      (by intro f hf; rw [applySel_var]; exact hfs f hf)
    rw [applySel_var] at hfiles
    cases hl : sel0.getLast? with
    | none =>
      rw [hl] at hlast
      simp only [hlast]
      cases mapOpt (readFile cmax iit rl var') fs with
      | none => rfl
      | some sels => simp [hl]
    | some last =>
      rw [hl] at hlast
      simp only [hlast, hfiles]
      cases mapOpt (readFile cmax iit rl var') fs with
      | none => rfl
      | some sels =>
        simp only [Option.map_some, List.headD_cons, hl, List.flatten_cons]
        rw [applySel_var, applySel_vc, applySel_vc, ← List.foldl_append, applySel_var]
        cases mapOpt (fun v => ((List.foldl (fun vc vd => vcSet vc vd.1 vd.2.iorigin (trimmed vd.2))
            ([] : VarChunks α) (sel0 ++ sels.flatten)).get? v).bind fun d => (joinChunks d).map fixij) var' with
        | none => rfl
        | some arrs => rfl

/-- no requested name has two candidates in any file of the iteration -/
def AtMostOneIt {α : Type} (files : List (CFile α)) (iit rl : Nat) (var : List String) : Prop :=
  ∀ cmax, cmaxOf (filesOf files iit) = some cmax → ∀ f ∈ filesOf files iit, AtMostOneFile cmax iit rl var f

/-- **one iteration, ordinary case** -/
theorem readItM_le1 {α : Type} (files : List (CFile α)) (iit rl : Nat) (var : List String)
    (h : AtMostOneIt files iit rl var) :
    readItM files iit rl var = (readItAuto files iit rl var).map fun r => (var, r) := by
  unfold AtMostOneIt filesOf at h
  cases hF : files.filter (fun f => f.itName == iit) with
  | nil => simp [readItM, readItAuto, hF]
  | cons f0 fs =>
    rw [hF] at h
    cases hc : cmaxOf (f0 :: fs) with
    | none => simp [readItM, readItAuto, hF, hc]
    | some cmax =>
      have := readItM_of_first files iit rl var var f0 fs hF cmax hc
        (ckFile_le1 cmax iit rl ⟨var, [], none⟩ f0 (h cmax hc f0 (List.mem_cons_self ..)))
        (fun f hf => h cmax hc f (List.mem_cons_of_mem _ hf))
      rw [this]
      simp [readItAuto, hF, hc]

/-- when the old model reads the iteration, no name had two candidates -/
theorem atMostOneIt_of_some {α : Type} (files : List (CFile α)) (iit rl : Nat) (var : List String)
    (r : Option (Nat × List (Arr3 α))) (h : readItAuto files iit rl var = some r) : AtMostOneIt files iit rl var := by
  intro cmax hc f hf
  unfold filesOf at hc hf
  unfold readItAuto at h
  cases hF : files.filter (fun f => f.itName == iit) with
  | nil => rw [hF] at hf; cases hf
  | cons f0 fs =>
    rw [hF] at hc hf
    simp only [hF, hc] at h
    unfold readIt at h
    simp only [hF] at h
    cases hm : mapOpt (readFile cmax iit rl var) (f0 :: fs) with
    | none => rw [hm] at h; cases h
    | some sels =>
      obtain ⟨sel, hsel⟩ := mapOpt_some_mem _ _ _ hm f hf
      exact atMostOne_of_readFile cmax iit rl var f sel hsel

theorem readItM_of_some {α : Type} (files : List (CFile α)) (iit rl : Nat) (var : List String)
    (r : Option (Nat × List (Arr3 α))) (h : readItAuto files iit rl var = some r) :
    readItM files iit rl var = some (var, r) := by
  rw [readItM_le1 files iit rl var (atMostOneIt_of_some files iit rl var r h), h]; rfl

/-! ### the table -/

theorem itStepM_le1 {α : Type} (toAurel : String → String) (files : List (CFile α)) (rl : Nat) (var : List String)
    (d : Dict String (List (Cell α))) (iit : Nat) (h : AtMostOneIt files iit rl var) :
    itStepM toAurel files rl (var, d) iit = (itStep toAurel files rl var d iit).map fun d' => (var, d') := by
  unfold itStepM itStep
  simp only [readItM_le1 files iit rl var h]
  cases readItAuto files iit rl var with
  | none => rfl
  | some r =>
    cases r with
    | none => rfl
    | some ta => rfl

theorem foldlM_itStepM_le1 {α : Type} (toAurel : String → String) (files : List (CFile α)) (rl : Nat) (var : List String) :
    ∀ (l : List Nat) (d : Dict String (List (Cell α))), (∀ iit ∈ l, AtMostOneIt files iit rl var) →
      l.foldlM (itStepM toAurel files rl) (var, d) = (l.foldlM (itStep toAurel files rl var) d).map fun d' => (var, d') := by
  intro l
  induction l with
  | nil => intro d _; rfl
  | cons i l ih =>
    intro d h
    simp only [List.foldlM_cons, itStepM_le1 toAurel files rl var d i (h i (List.mem_cons_self ..))]
    cases itStep toAurel files rl var d i with
    | none => rfl
    | some d' =>
      simp only [Option.map_some, Option.bind_eq_bind, Option.bind_some]
      exact ih d' (fun j hj => h j (List.mem_cons_of_mem _ hj))

/-- **the two models agree in the ordinary case** (raise or not) -/
theorem readCheckpointsM_eq {α : Type} (toAurel : String → String) (files : List (CFile α)) (var : List String)
    (its : List Nat) (rl : Nat) (h : ∀ iit ∈ sortedSet its, AtMostOneIt files iit rl var.eraseDups) :
    readCheckpointsM toAurel files var its rl = readCheckpoints toAurel files var its rl := by
  unfold readCheckpointsM readCheckpoints readCheckpointsCore
  simp only [foldlM_itStepM_le1 toAurel files rl var.eraseDups (sortedSet its) _ h]
  cases (sortedSet its).foldlM (itStep toAurel files rl var.eraseDups) [("t", [])] with
  | none => rfl
  | some d => rfl

theorem foldlM_itStepM_of_some {α : Type} (toAurel : String → String) (files : List (CFile α)) (rl : Nat) (var : List String) :
    ∀ (l : List Nat) (d T : Dict String (List (Cell α))), l.foldlM (itStep toAurel files rl var) d = some T →
      l.foldlM (itStepM toAurel files rl) (var, d) = some (var, T) := by
  intro l
  induction l with
  | nil => intro d T h; simp only [List.foldlM_nil] at h ⊢; cases h; rfl
  | cons i l ih =>
    intro d T h
    simp only [List.foldlM_cons, Option.bind_eq_bind] at h ⊢
    cases hs : itStep toAurel files rl var d i with
    | none => rw [hs] at h; cases h
    | some d' =>
      rw [hs] at h
      simp only [Option.bind_some] at h
      have hone : AtMostOneIt files i rl var := by
        unfold itStep at hs
        cases hr : readItAuto files i rl var with
        | none => rw [hr] at hs; cases hs
        | some r => exact atMostOneIt_of_some files i rl var r hr
      rw [itStepM_le1 toAurel files rl var d i hone, hs]
      simp only [Option.map_some, Option.bind_some]
      exact ih d' T h

/-- **transfer**: whenever the old model returns a table, the literal multi-thorn model returns the same table -/
theorem readCheckpointsM_of_some {α : Type} (toAurel : String → String) (files : List (CFile α)) (var : List String)
    (its : List Nat) (rl : Nat) (T : Table (Cell α)) (h : readCheckpoints toAurel files var its rl = some T) :
    readCheckpointsM toAurel files var its rl = some T := by
  unfold readCheckpoints readCheckpointsCore at h
  unfold readCheckpointsM
  simp only at h ⊢
  cases hf : (sortedSet its).foldlM (itStep toAurel files rl var.eraseDups) [("t", [])] with
  | none => rw [hf] at h; cases h
  | some d =>
    rw [hf] at h
    simp only [foldlM_itStepM_of_some toAurel files rl var.eraseDups _ _ d hf]
    exact h

/-! ### D4: one file with several components, a name shared by two thorns -/

theorem isPrefixOf_self (p : List Char) : p.isPrefixOf p = true := by
  induction p with
  | nil => rfl
  | cons c cs ih => simp [List.isPrefixOf, ih]

theorem isInfix_self (p : List Char) : isInfix p p = true := by
  cases p with
  | nil => rfl
  | cons c cs => simp [isInfix, isPrefixOf_self]

theorem nameIn_of_eq {α : Type} (d e : DSet α) (h : combined e = combined d) : nameIn (combined d) e = true := by
  unfold nameIn; rw [h]; exact isInfix_self _

/-- a list with two different members is not a singleton -/
theorem not_single_of_two {β : Type} (l : List β) (a b : β) (ha : a ∈ l) (hb : b ∈ l) (hab : a ≠ b) :
    ∀ d, l ≠ [d] := by
  intro d h
  rw [h] at ha hb
  simp only [List.mem_singleton] at ha hb
  exact hab (ha.trans hb.symm)

/-- **the second look-up runs over all components**: several thorns answer at one component and the first
thorn's variable has another component in the pool -> ValueError -/
theorem pickKey_other_component_raises {α : Type} (d0 d1 : DSet α) (rest pool : List (DSet α)) (vi : Nat) (v : String)
    (st : St α) (hd0 : d0 ∈ pool) (e : DSet α) (he : e ∈ pool) (hec : e.c ≠ d0.c) (hname : combined e = combined d0) :
    pickKey (d0 :: d1 :: rest) pool vi v st = none := by
  have hne : ∀ d, pool.filter (nameIn (combined d0)) ≠ [d] :=
    not_single_of_two _ d0 e (List.mem_filter.mpr ⟨hd0, nameIn_of_eq d0 d0 rfl⟩)
      (List.mem_filter.mpr ⟨he, nameIn_of_eq d0 e hname⟩) (fun h => hec (by rw [h]))
  rcases hf : pool.filter (nameIn (combined d0)) with _ | ⟨x, _ | ⟨y, ys⟩⟩
  · simp [pickKey, hf]
  · exact absurd hf (hne x)
  · simp [pickKey, hf]

/-- the loop raises at the name `v` when the names in front of it are ordinary and `v` raises in every state -/
theorem ckVars_raises_at {α : Type} (rel : List (DSet α)) (nochunks : Bool) (crange : List (Option Nat)) (v : String)
    (post : List String)
    (hv : ∀ vi (st : St α), ckChunks (rel.filter fun d => matchesVar d v) nochunks vi crange v st = none) :
    ∀ (pre : List String) (fuel vi : Nat) (st : St α), st.var.drop vi = pre ++ v :: post →
      (∀ w ∈ pre, ∀ c ∈ crange, (keyOf rel nochunks c w).length ≤ 1) →
      ckVars rel nochunks crange fuel vi st = none := by
  intro pre
  induction pre with
  | nil =>
    intro fuel vi st hd _
    cases fuel with
    | zero => rfl
    | succ fuel =>
      have hx : st.var[vi]? = some v := by
        have := congrArg List.head? hd
        simpa [List.head?_drop] using this
      simp only [ckVars, hx, hv]
  | cons w pre ih =>
    intro fuel vi st hd hpre
    cases fuel with
    | zero => rfl
    | succ fuel =>
      have hx : st.var[vi]? = some w := by
        have := congrArg List.head? hd
        simpa [List.head?_drop] using this
      simp only [ckVars, hx]
      rw [ckChunks_le1 rel nochunks vi w crange st (hpre w (List.mem_cons_self ..))]
      cases mapOpt (fun c => (selectKey rel nochunks w c).map fun d => (w, d)) crange with
      | none => rfl
      | some sel =>
        simp only [Option.map_some]
        refine ih fuel (vi + 1) (applySel st sel) ?_ (fun w' hw' => hpre w' (List.mem_cons_of_mem _ hw'))
        rw [applySel_var]
        have : st.var.drop (vi + 1) = (st.var.drop vi).drop 1 := by rw [List.drop_drop]
        rw [this, hd]; rfl

/-- **D4**: one checkpoint file holding several components (` c=0 .. `), a requested name `v` answered at the first
component by the datasets `d0, d1, ..` of several thorns, and the first thorn's variable present in another
component as well (`e`): the file cannot be read, whatever else it contains -/
theorem ckFile_components_raises {α : Type} (cmax : CMax) (f : CFile α) (iit rl : Nat) (c0 : Option Nat)
    (cs : List (Option Nat)) (hcr : chunkRange cmax f (relevant f iit rl) = some (false, c0 :: cs))
    (pre post : List String) (v : String) (d0 d1 : DSet α) (rest : List (DSet α))
    (hpre : ∀ w ∈ pre, ∀ c ∈ c0 :: cs, (keyOf (relevant f iit rl) false c w).length ≤ 1)
    (hkey : keyOf (relevant f iit rl) false c0 v = d0 :: d1 :: rest)
    (e : DSet α) (he : e ∈ relevant f iit rl) (hev : matchesVar e v = true) (hec : e.c ≠ d0.c)
    (hname : combined e = combined d0) (vc0 : VarChunks α) (last0 : Option (DSet α)) :
    ckFile cmax iit rl ⟨pre ++ v :: post, vc0, last0⟩ f = none := by
  unfold ckFile
  simp only [hcr]
  refine ckVars_raises_at (relevant f iit rl) false (c0 :: cs) v post ?_ pre _ 0 _ rfl hpre
  intro vi st
  have hk : ((relevant f iit rl).filter fun d => matchesVar d v).filter (fun d => d.c == c0) = d0 :: d1 :: rest := by
    simpa [keyOf] using hkey
  have hd0 : d0 ∈ (relevant f iit rl).filter fun d => matchesVar d v := by
    have : d0 ∈ ((relevant f iit rl).filter fun d => matchesVar d v).filter (fun d => d.c == c0) := by
      rw [hk]; exact List.mem_cons_self ..
    exact (List.mem_filter.mp this).1
  simp only [ckChunks, Bool.false_eq_true, if_false, hk]
  rw [pickKey_other_component_raises d0 d1 rest _ vi v st hd0 e (List.mem_filter.mpr ⟨he, hev⟩) hec hname]

/-- the iteration whose only file is such a file cannot be read -/
theorem readItM_components_raises {α : Type} (files : List (CFile α)) (f : CFile α) (iit rl : Nat)
    (hF : files.filter (fun g => g.itName == iit) = [f]) (var : List String)
    (h : ckFile CMax.inFile iit rl ⟨var, [], none⟩ f = none) : readItM files iit rl var = none := by
  unfold readItM
  simp only [hF, cmaxOf, h]

/-- ... and the call raises when this is the first requested iteration -/
theorem readCheckpointsM_first_raises {α : Type} (toAurel : String → String) (files : List (CFile α)) (var : List String)
    (its : List Nat) (rl : Nat) (i0 : Nat) (later : List Nat) (hs : sortedSet its = i0 :: later)
    (h : readItM files i0 rl var.eraseDups = none) : readCheckpointsM toAurel files var its rl = none := by
  unfold readCheckpointsM
  simp only [hs, List.foldlM_cons, itStepM, h]
  rfl

/-! ### the lift: ONE rewrite in the first file of the first iteration, everything after it is ordinary -/

theorem readAll_eq_applySel {α : Type} (pick : String → DSet α) (names : List String) (st : St α) :
    readAll pick names st = applySel st (names.map fun w => (w, pick w)) := by
  simp [readAll, applySel, List.foldl_map]

theorem matchesVar_combined {α : Type} (d : DSet α) : matchesVar d (combined d) = true := by
  simp [matchesVar, combined]

theorem mem_keyOf {α : Type} (rel : List (DSet α)) (nochunks : Bool) (c : Option Nat) (w : String) (d : DSet α) :
    d ∈ keyOf rel nochunks c w ↔ d ∈ rel ∧ matchesVar d w = true ∧ (nochunks = true ∨ (d.c == c) = true) := by
  cases nochunks
  · simp only [keyOf, Bool.false_eq_true, if_false, List.mem_filter, false_or]
    tauto
  · simp [keyOf, List.mem_filter]

/-- the rewritten request list -/
def rewritten {α : Type} (pre post : List String) (d0 d1 : DSet α) (rest : List (DSet α)) : List String :=
  pre ++ combined d0 :: post ++ (d1 :: rest).map combined

/-- **the first file**: the name `v` of the request `pre ++ v :: post` is answered by the datasets `d0, d1, ..` of several
thorns; the file is ordinary for the rewritten list (the old model reads it: `sel`).  Then the literal loop ends in
the state of an ordinary read of the REWRITTEN list: each thorn's dataset filed once, under `THORN::var`. -/
theorem ckFile_rewrite_as_ordinary {α : Type} (cmax : CMax) (f : CFile α) (iit rl : Nat) (nochunks : Bool) (c : Option Nat)
    (hcr : chunkRange cmax f (relevant f iit rl) = some (nochunks, [c]))
    (pre post : List String) (v : String) (d0 d1 : DSet α) (rest : List (DSet α))
    (hkey : keyOf (relevant f iit rl) nochunks c v = d0 :: d1 :: rest) (hsame : restSame (d0 :: d1 :: rest) = true)
    (hpool : ((relevant f iit rl).filter fun d => matchesVar d v).filter (nameIn (combined d0)) = [d0])
    (sel : List (String × DSet α))
    (hread : readFile cmax iit rl (rewritten pre post d0 d1 rest) f = some sel) :
    ckFile cmax iit rl ⟨pre ++ v :: post, [], none⟩ f = some (applySel ⟨rewritten pre post d0 d1 rest, [], none⟩ sel) := by
  let pick : String → DSet α := fun w => (keyOf (relevant f iit rl) nochunks c w).headD d0
  have hall : ∀ w ∈ rewritten pre post d0 d1 rest, keyOf (relevant f iit rl) nochunks c w = [pick w] := by
    intro w hw
    have h := hread
    unfold readFile at h
    simp only [hcr] at h
    obtain ⟨y, hy⟩ := mapOpt_some_mem _ _ _ h (w, c)
      (List.mem_flatMap.mpr ⟨w, hw, List.mem_map.mpr ⟨c, List.mem_singleton.mpr rfl, rfl⟩⟩)
    simp only [selectKey_eq_one] at hy
    cases ho : one (keyOf (relevant f iit rl) nochunks c w) with
    | none => rw [ho] at hy; cases hy
    | some d =>
      have := one_some _ d ho
      show keyOf (relevant f iit rl) nochunks c w = [(keyOf (relevant f iit rl) nochunks c w).headD d0]
      rw [this]; rfl
  have hsel : sel = (rewritten pre post d0 d1 rest).map fun w => (w, pick w) := by
    have h := hread
    unfold readFile at h
    simp only [hcr] at h
    have h2 : mapOpt (fun vc : String × Option Nat =>
          (selectKey (relevant f iit rl) nochunks vc.1 vc.2).map fun d => (vc.1, d))
        ((rewritten pre post d0 d1 rest).flatMap fun v => [c].map fun c => (v, c))
        = some (((rewritten pre post d0 d1 rest).flatMap fun v => [c].map fun c => (v, c)).map fun vc => (vc.1, pick vc.1)) := by
      apply mapOpt_eq_map
      intro x hx
      obtain ⟨w, hw, hx⟩ := List.mem_flatMap.mp hx
      simp only [List.map_cons, List.map_nil, List.mem_singleton] at hx
      subst hx
      simp only [selectKey_eq_one, hall w hw]
      rfl
    rw [h2] at h
    have := Option.some.inj h
    rw [← this]
    generalize rewritten pre post d0 d1 rest = L
    induction L with
    | nil => rfl
    | cons a L ih =>
      simp only [List.map_cons, List.map_nil] at ih
      simp only [List.flatMap_cons, List.map_cons, List.map_nil, List.map_append, ih]; rfl
  have hpick0 : pick (combined d0) = d0 := by
    have hm : d0 ∈ keyOf (relevant f iit rl) nochunks c (combined d0) := by
      have h0 : d0 ∈ keyOf (relevant f iit rl) nochunks c v := by rw [hkey]; exact List.mem_cons_self ..
      rw [mem_keyOf] at h0 ⊢
      exact ⟨h0.1, matchesVar_combined d0, h0.2.2⟩
    rw [hall (combined d0) (by simp [rewritten])] at hm
    exact (List.mem_singleton.mp hm).symm
  have hone := ckFile_one_rewrite cmax f iit rl nochunks c hcr pick pre post v d0 d1 rest [] none
    (fun w hw => hall w (by simp [rewritten, hw])) hkey hsame hpool
    (fun w hw => hall w (by
      simp only [rewritten, List.mem_append, List.mem_cons] at hw ⊢
      rcases hw with hw | hw
      · exact Or.inl (Or.inr (Or.inr hw))
      · exact Or.inr hw))
  rw [hone, hsel, readAll_eq_applySel, readAll_eq_applySel]
  have e1 : ({ applySel (⟨pre ++ v :: post, [], none⟩ : St α) (pre.map fun w => (w, pick w)) with
        var := pre ++ combined d0 :: post ++ (d1 :: rest).map combined } : St α)
      = applySel ⟨rewritten pre post d0 d1 rest, [], none⟩ (pre.map fun w => (w, pick w)) := by
    rw [← applySel_with_var]; rfl
  rw [e1]
  have e2 : ∀ X : St α, X.read (combined d0) d0 = applySel X [(combined d0, d0)] := fun X => rfl
  rw [e2, ← applySel_append, ← applySel_append]
  congr 1
  simp [rewritten, hpick0]

/-- **one iteration**: the first file rewrites the request, the old model reads the iteration for the REWRITTEN
request: the literal model returns the same arrays and time, and the rewritten list -/
theorem readItM_rewrite {α : Type} (files : List (CFile α)) (iit rl : Nat) (f0 : CFile α) (fs : List (CFile α))
    (hF : files.filter (fun f => f.itName == iit) = f0 :: fs) (cmax : CMax) (hc : cmaxOf (f0 :: fs) = some cmax)
    (nochunks : Bool) (c : Option Nat) (hcr : chunkRange cmax f0 (relevant f0 iit rl) = some (nochunks, [c]))
    (pre post : List String) (v : String) (d0 d1 : DSet α) (rest : List (DSet α))
    (hkey : keyOf (relevant f0 iit rl) nochunks c v = d0 :: d1 :: rest) (hsame : restSame (d0 :: d1 :: rest) = true)
    (hpool : ((relevant f0 iit rl).filter fun d => matchesVar d v).filter (nameIn (combined d0)) = [d0])
    (r : Option (Nat × List (Arr3 α)))
    (hold : readIt cmax files iit rl (rewritten pre post d0 d1 rest) = some r) :
    readItM files iit rl (pre ++ v :: post) = some (rewritten pre post d0 d1 rest, r) := by
  have hm : ∃ sels, mapOpt (readFile cmax iit rl (rewritten pre post d0 d1 rest)) (f0 :: fs) = some sels := by
    unfold readIt at hold
    simp only [hF] at hold
    cases hm : mapOpt (readFile cmax iit rl (rewritten pre post d0 d1 rest)) (f0 :: fs) with
    | none => rw [hm] at hold; cases hold
    | some sels => exact ⟨sels, rfl⟩
  obtain ⟨sels, hm⟩ := hm
  obtain ⟨sel0, hsel0⟩ := mapOpt_some_mem _ _ _ hm f0 (List.mem_cons_self ..)
  have := readItM_of_first files iit rl (pre ++ v :: post) (rewritten pre post d0 d1 rest) f0 fs hF cmax hc
    (by rw [hsel0]; exact ckFile_rewrite_as_ordinary cmax f0 iit rl nochunks c hcr pre post v d0 d1 rest hkey hsame hpool
          sel0 hsel0)
    (by
      intro f hf
      obtain ⟨sel, hsel⟩ := mapOpt_some_mem _ _ _ hm f (List.mem_cons_of_mem _ hf)
      exact atMostOne_of_readFile cmax iit rl _ f sel hsel)
  rw [this, hold]; rfl

/-- **the table**: the first requested iteration rewrites the request in its first file; the old model reads the
table for the REWRITTEN request: the literal model returns exactly that table (columns under `THORN::var`) -/
theorem readCheckpointsM_rewrite {α : Type} (toAurel : String → String) (files : List (CFile α)) (var : List String)
    (its : List Nat) (rl : Nat) (pre post : List String) (v : String) (hvar : var.eraseDups = pre ++ v :: post)
    (i0 : Nat) (later : List Nat) (hs : sortedSet its = i0 :: later)
    (f0 : CFile α) (fs : List (CFile α))
    (hF : files.filter (fun f => f.itName == i0) = f0 :: fs) (cmax : CMax) (hc : cmaxOf (f0 :: fs) = some cmax)
    (nochunks : Bool) (c : Option Nat) (hcr : chunkRange cmax f0 (relevant f0 i0 rl) = some (nochunks, [c]))
    (d0 d1 : DSet α) (rest : List (DSet α))
    (hkey : keyOf (relevant f0 i0 rl) nochunks c v = d0 :: d1 :: rest) (hsame : restSame (d0 :: d1 :: rest) = true)
    (hpool : ((relevant f0 i0 rl).filter fun d => matchesVar d v).filter (nameIn (combined d0)) = [d0])
    (T : Table (Cell α))
    (hold : readCheckpointsCore toAurel files (rewritten pre post d0 d1 rest) its rl = some T) :
    readCheckpointsM toAurel files var its rl = some T := by
  unfold readCheckpointsCore at hold
  unfold readCheckpointsM
  simp only [hs, hvar, List.foldlM_cons, Option.bind_eq_bind] at hold ⊢
  cases h1 : itStep toAurel files rl (rewritten pre post d0 d1 rest) [("t", [])] i0 with
  | none => rw [h1] at hold; cases hold
  | some dd =>
    rw [h1] at hold
    simp only [Option.bind_some] at hold
    have hstep : itStepM toAurel files rl (pre ++ v :: post, [("t", [])]) i0 = some (rewritten pre post d0 d1 rest, dd) := by
      unfold itStep at h1
      unfold itStepM
      cases hr : readItAuto files i0 rl (rewritten pre post d0 d1 rest) with
      | none => rw [hr] at h1; cases h1
      | some r =>
        have hr' : readIt cmax files i0 rl (rewritten pre post d0 d1 rest) = some r := by
          unfold readItAuto at hr
          simpa only [hF, hc] using hr
        rw [hr] at h1
        simp only [readItM_rewrite files i0 rl f0 fs hF cmax hc nochunks c hcr pre post v d0 d1 rest hkey hsame hpool r hr']
        cases r with
        | none => simp only at h1 ⊢; rw [← Option.some.inj h1]
        | some ta => simp only at h1 ⊢; rw [← Option.some.inj h1]
    rw [hstep]
    simp only [Option.bind_some]
    cases hf : later.foldlM (itStep toAurel files rl (rewritten pre post d0 d1 rest)) dd with
    | none => rw [hf] at hold; cases hold
    | some d =>
      rw [hf] at hold
      rw [foldlM_itStepM_of_some toAurel files rl _ later dd d hf]
      exact hold

/-! ### the whole checkpoint pipeline with the literal reader -/

open AurelVerif.RestartsLemmas in
/-- `checkpoint_pipeline_lemma` (Lemmas/C11CheckpointE2E.lean) with `readCheckpointsM` as the per-restart reader -/
theorem checkpoint_pipeline_lemma_M {α : Type} (toAurel : String → String) (cats : List Cat)
    (hnd : (cats.map (·.num)).Nodup) (files : Nat → List (CFile α)) (var : List String)
    (hvar : var ≠ []) (hinj : ∀ a ∈ var, ∀ b ∈ var, toAurel a = toAurel b → a = b)
    (ht : ∀ v ∈ var, toAurel v ≠ "t") (rl : Nat)
    (A : Nat → Nat → String → Arr3 α) (tm : Nat → Nat → Nat)
    (hgood : ∀ r it, pick true cats it = some r → GoodItAuto (files r) it rl var (A r it) (tm r it))
    (its : List Nat) :
    readETData true cats none its (fun r l => readCheckpointsM toAurel (files r) var l rl)
      = some ((rowsOf true cats its).map Prod.fst,
              aligned (if rowsOf true cats its = [] then [] else "t" :: var.eraseDups.map toAurel) fun k =>
                (rowsOf true cats its).map fun p => some (ckCell toAurel var.eraseDups A tm p.2 k p.1)) := by
  have hm : ∀ v, v ∈ var.eraseDups → v ∈ var := fun v h => List.mem_eraseDups.mp h
  have hinj' : ∀ a ∈ var.eraseDups, ∀ b ∈ var.eraseDups, toAurel a = toAurel b → a = b :=
    fun a ha b hb => hinj a (hm a ha) b (hm b hb)
  have ht' : ∀ v ∈ var.eraseDups, toAurel v ≠ "t" := fun v hv => ht v (hm v hv)
  have hkeys : ("t" :: var.eraseDups.map toAurel).Nodup := by
    refine List.nodup_cons.mpr ⟨?_, ?_⟩
    · intro hmem
      obtain ⟨v, hv, e⟩ := List.mem_map.mp hmem
      exact ht' v hv e
    · exact (List.nodup_map_iff_inj_on (nodup_eraseDups_str var)).mpr (fun a ha b hb e => hinj' a ha b hb e)
  rw [readETData_auto true cats hnd (fun _ => "t" :: var.eraseDups.map toAurel)
    (ckCell toAurel var.eraseDups A tm) _ (by
      intro r l hl hs hp
      have hss := sortedSet_of_strict l hs
      have := readCheckpoints_good toAurel (files r) var hvar hinj ht l hl rl (A r) (tm r)
        (by rw [hss]; intro iit hi; exact hgood r iit (hp iit hi))
      rw [readCheckpointsM_of_some toAurel (files r) var l rl _ this, hss]
      exact congrArg some (checkpoint_table_ideal toAurel var.eraseDups hinj' ht' A tm r l)) its]
  rw [unionKeysOf_const _ hkeys]
  simp only [activeRestarts_nil_iff]
  congr 2
  unfold aligned
  apply List.map_congr_left
  intro k hk
  congr 1
  apply List.map_congr_left
  intro p _
  have hkK : k ∈ "t" :: var.eraseDups.map toAurel := by
    split at hk
    · cases hk
    · exact hk
  simp [cellOpt, hkK]

end AurelVerif.MultiThornEq
