/-
Lemmas/C17EinConfFlat.lean — Einstein's equations `G_ab = κ T_ab` for Conformally_flat, all ten
components, with the module's own `gdown4`, `Tdown4`, `kappa` (Gen/Solutions.lean); the jet is
proven to consist of the first and second partial derivatives of the module's metric.
-/
import AurelVerif.Lemmas.C17JetConfFlat
import AurelVerif.Lemmas.Solutions
import AurelVerif.Spec.MetricJet

set_option linter.unusedVariables false
set_option linter.unusedTactic false
set_option linter.unreachableTactic false
set_option linter.unusedSimpArgs false

namespace AurelVerif.C17Ein
open AurelVerif.Gen.Solutions AurelVerif.SolutionsLemmas AurelVerif.Spec.Jet4 AurelVerif.Spec.Curvature
open AurelVerif.C17JetTac AurelVerif.C17Jet

/-! ## Conformally_flat -/

theorem Conformally_flat_gdown4_closed (t x y z : ℝ) : Conformally_flat.gdown4_num t x y z =
    ![![-(Conformally_flat.Omega x ^ 2), 0, 0, 0], ![0, Conformally_flat.Omega x ^ 2, 0, 0],
      ![0, 0, Conformally_flat.Omega x ^ 2, 0], ![0, 0, 0, Conformally_flat.Omega x ^ 2]] := by
  refine funext4 ?_ ?_ ?_ ?_ <;> refine funext4 ?_ ?_ ?_ ?_ <;>
    simp [Conformally_flat.gdown4_num, Conformally_flat.gdown4_num_00, Conformally_flat.gdown4_num_01, Conformally_flat.gdown4_num_02, Conformally_flat.gdown4_num_03, Conformally_flat.gdown4_num_10, Conformally_flat.gdown4_num_11, Conformally_flat.gdown4_num_12, Conformally_flat.gdown4_num_13, Conformally_flat.gdown4_num_20, Conformally_flat.gdown4_num_21, Conformally_flat.gdown4_num_22, Conformally_flat.gdown4_num_23, Conformally_flat.gdown4_num_30, Conformally_flat.gdown4_num_31, Conformally_flat.gdown4_num_32, Conformally_flat.gdown4_num_33]

/-- the jet: the conformally flat family at `W = Omega x`, `W1 = dxOmega x`, `W2 = dxdxOmega x`
(the module's own helper functions, proven to be the derivatives of `Omega` in `helper_derivatives`). -/
noncomputable def Conformally_flat_jet (t x y z : ℝ) : Jet2 ℝ :=
  ConfFlat.jet (Conformally_flat.Omega x) (Conformally_flat.dxOmega x) (Conformally_flat.dxdxOmega x)

theorem Conformally_flat_Omega_pos (x : ℝ) : 0 < Conformally_flat.Omega x := by
  unfold Conformally_flat.Omega Conformally_flat.eps; positivity

theorem Conformally_flat_dxdxOmega_const (x : ℝ) :
    HasDerivAt (fun s => Conformally_flat.dxdxOmega s) 0 x := by
  unfold Conformally_flat.dxdxOmega; exact hasDerivAt_const _ _

theorem Conformally_flat_isJetField : IsJetField (fun _ _ _ _ => True) Conformally_flat.gdown4_num Conformally_flat_jet where
  g_eq := by
    intro t x y z hD
    rw [Conformally_flat_gdown4_closed]; rfl
  inverse := by
    intro t x y z hD

    exact ConfFlat.jet_inverse _ _ _ (Conformally_flat_Omega_pos x).ne'
  d1 := by
    intro t x y z hD

    have hW := (Conformally_flat_dOmega x).1
    have hW2 : HasDerivAt (fun s => Conformally_flat.Omega s ^ 2)
        (2 * Conformally_flat.Omega x * Conformally_flat.dxOmega x) x := (hW.pow 2).congr_deriv (by ring)
    have hW2n := hW2.neg
    refine forall4 ?_ ?_ ?_ ?_ <;> refine forall4 ?_ ?_ ?_ ?_ <;> refine forall4 ?_ ?_ ?_ ?_ <;>
      first
      | exact hasDerivAt_const _ _
      | (simp only [hasPartialAt_zero, hasPartialAt_one, hasPartialAt_two, hasPartialAt_three, Conformally_flat_gdown4_closed, Conformally_flat_jet, ConfFlat.jet, Matrix.cons_val_zero, Matrix.cons_val_one, Matrix.cons_val]
         first | exact hasDerivAt_const _ _ | exact hW2 | exact hW2n)
  d2 := by
    intro t x y z hD

    have hW := (Conformally_flat_dOmega x).1
    have hW1 := (Conformally_flat_dOmega x).2
    have hP : HasDerivAt (fun s => 2 * Conformally_flat.Omega s * Conformally_flat.dxOmega s)
        (2 * (Conformally_flat.Omega x * Conformally_flat.dxdxOmega x + Conformally_flat.dxOmega x ^ 2)) x :=
      ((hW.const_mul 2).mul hW1).congr_deriv (by ring)
    have hPn : HasDerivAt (fun s => -(2 * Conformally_flat.Omega s * Conformally_flat.dxOmega s))
        (-(2 * (Conformally_flat.Omega x * Conformally_flat.dxdxOmega x + Conformally_flat.dxOmega x ^ 2))) x :=
      hP.neg
    refine forall4 ?_ ?_ ?_ ?_ <;> refine forall4 ?_ ?_ ?_ ?_ <;> refine forall4 ?_ ?_ ?_ ?_ <;> refine forall4 ?_ ?_ ?_ ?_ <;>
      first
      | exact hasDerivAt_const _ _
      | (simp only [hasPartialAt_zero, hasPartialAt_one, hasPartialAt_two, hasPartialAt_three, Conformally_flat_jet, ConfFlat.jet, Matrix.cons_val_zero, Matrix.cons_val_one, Matrix.cons_val]
         first | exact hasDerivAt_const _ _ | exact hP | exact hPn)

/-- Conformally_flat: all ten Einstein equations `G_ab = κ T_ab` (no cosmological constant). -/
theorem Conformally_flat_einstein (t x y z : ℝ) :
    (Conformally_flat_jet t x y z).SolvesEinstein 0 Conformally_flat.kappa (Conformally_flat.Tdown4 t x y z) := by
  have hW := (Conformally_flat_Omega_pos x).ne'
  have hk : Conformally_flat.kappa ≠ 0 := by unfold Conformally_flat.kappa; positivity
  unfold Jet2.SolvesEinstein Conformally_flat_jet
  rw [ConfFlat.Einstein_eq _ _ _ hW]
  refine forall4 ?_ ?_ ?_ ?_ <;> refine forall4 ?_ ?_ ?_ ?_ <;>
    (simp only [ConfFlat.EinsteinT, ConfFlat.jet, Conformally_flat.Tdown4, Conformally_flat.Tdown4_00, Conformally_flat.Tdown4_01, Conformally_flat.Tdown4_02, Conformally_flat.Tdown4_03, Conformally_flat.Tdown4_10, Conformally_flat.Tdown4_11, Conformally_flat.Tdown4_12, Conformally_flat.Tdown4_13, Conformally_flat.Tdown4_20, Conformally_flat.Tdown4_21, Conformally_flat.Tdown4_22, Conformally_flat.Tdown4_23, Conformally_flat.Tdown4_30, Conformally_flat.Tdown4_31, Conformally_flat.Tdown4_32, Conformally_flat.Tdown4_33, Conformally_flat.gdown4_num, Conformally_flat.gdown4_num_00, Conformally_flat.gdown4_num_01, Conformally_flat.gdown4_num_02, Conformally_flat.gdown4_num_03, Conformally_flat.gdown4_num_10, Conformally_flat.gdown4_num_11, Conformally_flat.gdown4_num_12, Conformally_flat.gdown4_num_13, Conformally_flat.gdown4_num_20, Conformally_flat.gdown4_num_21, Conformally_flat.gdown4_num_22, Conformally_flat.gdown4_num_23, Conformally_flat.gdown4_num_30, Conformally_flat.gdown4_num_31, Conformally_flat.gdown4_num_32, Conformally_flat.gdown4_num_33,
      Conformally_flat.st_RicciS, Matrix.cons_val_zero, Matrix.cons_val_one, Matrix.cons_val]
     first | ring1 | (field_simp; ring1) | (field_simp; done))
end AurelVerif.C17Ein
