/-
Lemmas/C20Extract.lean — the sphere extraction of `Psi4_lm` end to end, on the models:

    psi4_sphere = interpolate(Re Ψ4, shifted_grid, points_sphere)
                  + 1j * interpolate(Im Ψ4, shifted_grid, points_sphere)     (core.py 1512-1525)
    psi4lm      = sYlm_coefficients(-2, lmax, psi4_sphere, θ2, φ2, sin θ2·dθ, dφ)

with the real copy of Model/Interp (Lemmas/C20InterpR.lean: `InterpR.interp3`) for
`interpolate(method='linear')` and the harmonics / grids / weights of Model/Harm
(`gridY`, `gridW`, `coeffs` of Lemmas/C20Quad.lean).

  * `coeffs_perturb`        ‖coeffs(ψ) − coeffs(φ)‖ ≤ E · Σ_p ‖Y_i(p)‖‖w(p)‖ if ‖ψ − φ‖ ≤ E on the grid
  * `gridY_norm_le`         ‖ₛY_lm‖ ≤ harmSup s l m = √(R/π) · Σ_r |coef_r|       (computable)
  * `gridW_norm_sum`        Σ_p ‖w(p)‖ ≤ 2π²
  * `psiSphere_error`       ‖psi4_sphere(p) − Ψ4(sphere point p)‖ ≤ interpolation bound (re + im)
  * `extraction_error`      Ψ4 band-limited on the sphere nodes (= recon a):
                            ‖psi4lm_i − a_i‖ ≤ harmSup·2π²·E_interp + Σ_j defectBound·‖a_j‖
  * `extraction_rate`       the same as  C₁·(hx² + hy² + hz²) + C₂/(Ntheta+1)²
  * `extraction_tendsto`    along any sequence of grids with widths → 0 and Ntheta → ∞ the extracted
                            coefficient converges to `a_i`
-/
import AurelVerif.Lemmas.C20QuadAll
import AurelVerif.Lemmas.C20InterpR

namespace AurelVerif.HarmLemmas
open AurelVerif.Harm AurelVerif.HarmGram AurelVerif.LinErr Complex
open scoped Real ComplexConjugate

/-! ### perturbation of the coefficient sums -/

theorem coeffs_perturb {ι κ : Type} [Fintype κ] (Y : ι → κ → ℂ) (w : κ → ℂ) (ψ φ : κ → ℂ) (E : ℝ)
    (h : ∀ p, ‖ψ p - φ p‖ ≤ E) (i : ι) :
    ‖coeffs Y w ψ i - coeffs Y w φ i‖ ≤ E * ∑ p, ‖Y i p‖ * ‖w p‖ := by
  unfold coeffs
  rw [← Finset.sum_sub_distrib, Finset.mul_sum]
  refine le_trans (norm_sum_le _ _) (Finset.sum_le_sum fun p _ => ?_)
  have e : conj (Y i p) * ψ p * w p - conj (Y i p) * φ p * w p = conj (Y i p) * (ψ p - φ p) * w p := by ring
  rw [e, norm_mul, norm_mul, RCLike.norm_conj]
  have h1 : ‖Y i p‖ * ‖ψ p - φ p‖ ≤ ‖Y i p‖ * E := mul_le_mul_of_nonneg_left (h p) (norm_nonneg _)
  calc ‖Y i p‖ * ‖ψ p - φ p‖ * ‖w p‖ ≤ ‖Y i p‖ * E * ‖w p‖ := mul_le_mul_of_nonneg_right h1 (norm_nonneg _)
    _ = E * (‖Y i p‖ * ‖w p‖) := by ring

/-- pointwise version: a separate bound `E p` at every node -/
theorem coeffs_perturb_pointwise {ι κ : Type} [Fintype κ] (Y : ι → κ → ℂ) (w : κ → ℂ) (ψ φ : κ → ℂ) (E : κ → ℝ)
    (h : ∀ p, ‖ψ p - φ p‖ ≤ E p) (i : ι) :
    ‖coeffs Y w ψ i - coeffs Y w φ i‖ ≤ ∑ p, ‖Y i p‖ * ‖w p‖ * E p := by
  unfold coeffs
  rw [← Finset.sum_sub_distrib]
  refine le_trans (norm_sum_le _ _) (Finset.sum_le_sum fun p _ => ?_)
  have e : conj (Y i p) * ψ p * w p - conj (Y i p) * φ p * w p = conj (Y i p) * (ψ p - φ p) * w p := by ring
  rw [e, norm_mul, norm_mul, RCLike.norm_conj]
  have h1 : ‖Y i p‖ * ‖ψ p - φ p‖ ≤ ‖Y i p‖ * E p := mul_le_mul_of_nonneg_left (h p) (norm_nonneg _)
  calc ‖Y i p‖ * ‖ψ p - φ p‖ * ‖w p‖ ≤ ‖Y i p‖ * E p * ‖w p‖ := mul_le_mul_of_nonneg_right h1 (norm_nonneg _)
    _ = ‖Y i p‖ * ‖w p‖ * E p := by ring

/-! ### sup bound of a harmonic -/

/-- `Σ_r |coef_r|` of a term list (a natural number) -/
def absCoef (ts : List Term) : ℕ := (ts.map fun t => t.coef.natAbs).sum

theorem abs_termFn_le (t : Term) (θ : ℝ) : |termFn t θ| ≤ ((t.coef.natAbs : ℕ) : ℝ) := by
  unfold termFn
  rw [abs_mul, abs_mul, abs_pow, abs_pow]
  have h1 : |((t.coef : ℤ) : ℝ)| = ((t.coef.natAbs : ℕ) : ℝ) := by
    rw [Nat.cast_natAbs, Int.cast_abs]
  rw [h1]
  have hc : |Real.cos (θ / 2)| ^ t.a.toNat ≤ 1 := pow_le_one₀ (abs_nonneg _) (Real.abs_cos_le_one _)
  have hs : |Real.sin (θ / 2)| ^ t.b.toNat ≤ 1 := pow_le_one₀ (abs_nonneg _) (Real.abs_sin_le_one _)
  have h0 : (0 : ℝ) ≤ ((t.coef.natAbs : ℕ) : ℝ) := Nat.cast_nonneg _
  calc ((t.coef.natAbs : ℕ) : ℝ) * |Real.cos (θ / 2)| ^ t.a.toNat * |Real.sin (θ / 2)| ^ t.b.toNat
      ≤ ((t.coef.natAbs : ℕ) : ℝ) * 1 * 1 :=
        mul_le_mul (mul_le_mul_of_nonneg_left hc h0) hs (pow_nonneg (abs_nonneg _) _) (by simp)
    _ = ((t.coef.natAbs : ℕ) : ℝ) := by ring

theorem abs_evalK_le (ts : List Term) (θ : ℝ) :
    |evalK ts (Real.cos (θ / 2)) (Real.sin (θ / 2))| ≤ ((absCoef ts : ℕ) : ℝ) := by
  rw [evalK_eq_termFn]
  unfold absCoef
  induction ts with
  | nil => simp
  | cons t ts ih =>
    simp only [List.map_cons, List.sum_cons, Nat.cast_add]
    exact le_trans (abs_add_le _ _) (add_le_add (abs_termFn_le t θ) ih)

/-- `√(R_{slm}/π) · Σ_r |coef_r|` — a bound of `|ₛY_lm|` on the whole sphere -/
noncomputable def harmSup (s l m : Int) : ℝ :=
  Real.sqrt (((normRadicand s l m : ℚ) : ℝ) / π) * ((absCoef (harmTerms s l m) : ℕ) : ℝ)

theorem harmSup_nonneg (s l m : Int) : 0 ≤ harmSup s l m :=
  mul_nonneg (Real.sqrt_nonneg _) (Nat.cast_nonneg _)

theorem norm_sYlmC_le (s l m : Int) (θ φ : ℝ) : ‖sYlmC s l m θ φ‖ ≤ harmSup s l m := by
  unfold sYlmC harmSup
  have he : I * (m : ℂ) * (φ : ℂ) = (((m : ℝ) * φ : ℝ) : ℂ) * I := by push_cast; ring
  rw [norm_mul, norm_mul, he, Complex.norm_exp_ofReal_mul_I, mul_one, Complex.norm_real, Complex.norm_real,
    Real.norm_eq_abs, Real.norm_eq_abs, abs_of_nonneg (Real.sqrt_nonneg _)]
  exact mul_le_mul_of_nonneg_left (abs_evalK_le _ θ) (Real.sqrt_nonneg _)

theorem gridY_norm_le (s : Int) (lmax N : Nat) (i : ModeIdx lmax) (p : GridIdx N) :
    ‖gridY s lmax N i p‖ ≤ harmSup s i.1.1 i.1.2 := norm_sYlmC_le _ _ _ _ _

/-! ### total weight of the angular grid -/

theorem gridW_norm_le (N : Nat) (p : GridIdx N) :
    ‖gridW N p‖ ≤ π / ((N : ℝ) + 1) * (2 * π / (2 * (N : ℝ) + 1)) := by
  unfold gridW
  rw [norm_mul, Complex.norm_real, Real.norm_eq_abs, abs_mul]
  have h1 : |((dTheta N : ℚ) : ℝ) * π| = π / ((N : ℝ) + 1) := by
    rw [dTheta_eq]; push_cast
    rw [abs_of_nonneg (by positivity)]; ring
  have h2 : ‖((dPhi (nPhi N) : ℚ) : ℂ) * (π : ℂ)‖ = 2 * π / (2 * (N : ℝ) + 1) := by
    have e : ((dPhi (nPhi N) : ℚ) : ℂ) * (π : ℂ) = (((2 / (2 * (N : ℝ) + 1)) * π : ℝ) : ℂ) := by
      rw [dPhi_eq]; unfold nPhi; push_cast; ring
    rw [e, Complex.norm_real, Real.norm_eq_abs, abs_of_nonneg (by positivity)]; ring
  rw [h1, h2]
  have hs : |Real.sin (((thetaNode N p.1 : ℚ) : ℝ) * π)| ≤ 1 := Real.abs_sin_le_one _
  have hp : 0 ≤ π / ((N : ℝ) + 1) := by positivity
  have hq : 0 ≤ 2 * π / (2 * (N : ℝ) + 1) := by positivity
  calc |Real.sin (((thetaNode N p.1 : ℚ) : ℝ) * π)| * (π / ((N : ℝ) + 1)) * (2 * π / (2 * (N : ℝ) + 1))
      ≤ 1 * (π / ((N : ℝ) + 1)) * (2 * π / (2 * (N : ℝ) + 1)) :=
        mul_le_mul_of_nonneg_right (mul_le_mul_of_nonneg_right hs hp) hq
    _ = π / ((N : ℝ) + 1) * (2 * π / (2 * (N : ℝ) + 1)) := by ring

/-- the weights `sin θ_j Δθ Δφ` of `Psi4_lm` sum (in absolute value) to at most `2π²`
(the exact value tends to `4π`). -/
theorem gridW_norm_sum (N : Nat) : ∑ p : GridIdx N, ‖gridW N p‖ ≤ 2 * π ^ 2 := by
  refine le_trans (Finset.sum_le_sum fun p _ => gridW_norm_le N p) ?_
  rw [Finset.sum_const, Finset.card_univ, Fintype.card_prod, Fintype.card_fin, Fintype.card_fin, nsmul_eq_mul]
  unfold nPhi
  have h1 : ((N : ℝ) + 1) ≠ 0 := by positivity
  have h2 : (2 * (N : ℝ) + 1) ≠ 0 := by positivity
  push_cast
  apply le_of_eq
  field_simp

theorem gridYW_sum_le (s : Int) (lmax N : Nat) (i : ModeIdx lmax) :
    ∑ p : GridIdx N, ‖gridY s lmax N i p‖ * ‖gridW N p‖ ≤ harmSup s i.1.1 i.1.2 * (2 * π ^ 2) := by
  calc ∑ p : GridIdx N, ‖gridY s lmax N i p‖ * ‖gridW N p‖
      ≤ ∑ p : GridIdx N, harmSup s i.1.1 i.1.2 * ‖gridW N p‖ :=
        Finset.sum_le_sum fun p _ => mul_le_mul_of_nonneg_right (gridY_norm_le s lmax N i p) (norm_nonneg _)
    _ = harmSup s i.1.1 i.1.2 * ∑ p : GridIdx N, ‖gridW N p‖ := by rw [Finset.mul_sum]
    _ ≤ harmSup s i.1.1 i.1.2 * (2 * π ^ 2) :=
        mul_le_mul_of_nonneg_left (gridW_norm_sum N) (harmSup_nonneg _ _ _)

/-! ### the points of the extraction sphere and `psi4_sphere` -/

/-- `θ_j` and `φ_k` of node `p` -/
noncomputable def nodeTheta (N : Nat) (p : GridIdx N) : ℝ := ((thetaNode N p.1 : ℚ) : ℝ) * π
noncomputable def nodePhi (N : Nat) (p : GridIdx N) : ℝ := ((phiNode (nPhi N) p.2 : ℚ) : ℝ) * π

/-- `fd.spherical_to_cartesian(radius, theta2, phi2)`:
`x = r sin θ cos φ`, `y = r sin θ sin φ`, `z = r cos θ` (relative to the centre) -/
noncomputable def sphX (R θ φ : ℝ) : ℝ := R * Real.sin θ * Real.cos φ
noncomputable def sphY (R θ φ : ℝ) : ℝ := R * Real.sin θ * Real.sin φ
noncomputable def sphZ (R θ : ℝ) : ℝ := R * Real.cos θ

/-- a grid of nodal values of a field -/
noncomputable def sampled (gx gy gz : List ℝ) (f : ℝ → ℝ → ℝ → ℝ) : Nat → Nat → Nat → ℝ :=
  fun i j k => f (InterpR.nth gx i) (InterpR.nth gy j) (InterpR.nth gz k)

/-- `psi4_sphere` of `Psi4_lm` for `Ψ4 = fr + i·fi` sampled on the (shifted) grid
`gx × gy × gz`, extraction radius `R`, angular grid with `Ntheta = N`. -/
noncomputable def psiSphere (gx gy gz : List ℝ) (fr fi : ℝ → ℝ → ℝ → ℝ) (R : ℝ) (N : Nat) : GridIdx N → ℂ :=
  fun p =>
    ((InterpR.interp3 gx gy gz (sampled gx gy gz fr)
        (sphX R (nodeTheta N p) (nodePhi N p)) (sphY R (nodeTheta N p) (nodePhi N p)) (sphZ R (nodeTheta N p)) : ℝ) : ℂ)
    + I * ((InterpR.interp3 gx gy gz (sampled gx gy gz fi)
        (sphX R (nodeTheta N p) (nodePhi N p)) (sphY R (nodeTheta N p) (nodePhi N p)) (sphZ R (nodeTheta N p)) : ℝ) : ℂ)

/-- the field itself at the sphere point of node `p` -/
noncomputable def fieldSphere (fr fi : ℝ → ℝ → ℝ → ℝ) (R : ℝ) (N : Nat) : GridIdx N → ℂ :=
  fun p =>
    ((fr (sphX R (nodeTheta N p) (nodePhi N p)) (sphY R (nodeTheta N p) (nodePhi N p)) (sphZ R (nodeTheta N p)) : ℝ) : ℂ)
    + I * ((fi (sphX R (nodeTheta N p) (nodePhi N p)) (sphY R (nodeTheta N p) (nodePhi N p)) (sphZ R (nodeTheta N p)) : ℝ) : ℂ)

/-- the hypotheses on the grid and on one real field: strictly ascending axes with ≥ 2 nodes,
cell widths ≤ `hx, hy, hz`, slices `C2On` on the box of the grid with bounds `Mx, My, Mz`. -/
structure GridField (gx gy gz : List ℝ) (f : ℝ → ℝ → ℝ → ℝ) (hx hy hz Mx My Mz : ℝ) : Prop where
  ax : gx.Pairwise (· < ·)
  ay : gy.Pairwise (· < ·)
  az : gz.Pairwise (· < ·)
  nx : 2 ≤ gx.length
  ny : 2 ≤ gy.length
  nz : 2 ≤ gz.length
  wx : ∀ i, i + 1 < gx.length → InterpR.nth gx (i + 1) - InterpR.nth gx i ≤ hx
  wy : ∀ j, j + 1 < gy.length → InterpR.nth gy (j + 1) - InterpR.nth gy j ≤ hy
  wz : ∀ k, k + 1 < gz.length → InterpR.nth gz (k + 1) - InterpR.nth gz k ≤ hz
  HX : ∀ y ∈ Set.Icc (InterpR.nth gy 0) (InterpR.nth gy (gy.length - 1)),
        ∀ z ∈ Set.Icc (InterpR.nth gz 0) (InterpR.nth gz (gz.length - 1)),
          C2On (fun x => f x y z) (InterpR.nth gx 0) (InterpR.nth gx (gx.length - 1)) Mx
  HY : ∀ x ∈ Set.Icc (InterpR.nth gx 0) (InterpR.nth gx (gx.length - 1)),
        ∀ z ∈ Set.Icc (InterpR.nth gz 0) (InterpR.nth gz (gz.length - 1)),
          C2On (fun y => f x y z) (InterpR.nth gy 0) (InterpR.nth gy (gy.length - 1)) My
  HZ : ∀ x ∈ Set.Icc (InterpR.nth gx 0) (InterpR.nth gx (gx.length - 1)),
        ∀ y ∈ Set.Icc (InterpR.nth gy 0) (InterpR.nth gy (gy.length - 1)),
          C2On (fun z => f x y z) (InterpR.nth gz 0) (InterpR.nth gz (gz.length - 1)) Mz

/-- the extraction sphere lies inside the grid — what the bounds check of
`numerical.interpolate` verifies (on the nodes of the angular grid) before interpolating -/
def SphereInside (gx gy gz : List ℝ) (R : ℝ) (N : Nat) : Prop :=
  ∀ p : GridIdx N,
    (InterpR.nth gx 0 ≤ sphX R (nodeTheta N p) (nodePhi N p) ∧ sphX R (nodeTheta N p) (nodePhi N p) ≤ InterpR.nth gx (gx.length - 1))
    ∧ (InterpR.nth gy 0 ≤ sphY R (nodeTheta N p) (nodePhi N p) ∧ sphY R (nodeTheta N p) (nodePhi N p) ≤ InterpR.nth gy (gy.length - 1))
    ∧ (InterpR.nth gz 0 ≤ sphZ R (nodeTheta N p) ∧ sphZ R (nodeTheta N p) ≤ InterpR.nth gz (gz.length - 1))

/-- sufficient: the cube `[−R, R]³` lies inside the (shifted) grid -/
theorem sphereInside_of_cube (gx gy gz : List ℝ) (R : ℝ) (N : Nat) (hR : 0 ≤ R)
    (bx0 : InterpR.nth gx 0 ≤ -R) (bx1 : R ≤ InterpR.nth gx (gx.length - 1))
    (by0 : InterpR.nth gy 0 ≤ -R) (by1 : R ≤ InterpR.nth gy (gy.length - 1))
    (bz0 : InterpR.nth gz 0 ≤ -R) (bz1 : R ≤ InterpR.nth gz (gz.length - 1)) :
    SphereInside gx gy gz R N := by
  intro p
  have key : ∀ u v : ℝ, |u| ≤ 1 → |v| ≤ 1 → -R ≤ R * u * v ∧ R * u * v ≤ R := by
    intro u v hu hv
    have huv : |u * v| ≤ 1 := by rw [abs_mul]; exact mul_le_one₀ hu (abs_nonneg _) hv
    have := abs_le.mp huv
    constructor <;> nlinarith [this.1, this.2]
  have k1 := key _ _ (Real.abs_sin_le_one (nodeTheta N p)) (Real.abs_cos_le_one (nodePhi N p))
  have k2 := key _ _ (Real.abs_sin_le_one (nodeTheta N p)) (Real.abs_sin_le_one (nodePhi N p))
  have k3 := key _ 1 (Real.abs_cos_le_one (nodeTheta N p)) (by simp)
  unfold sphX sphY sphZ
  refine ⟨⟨by linarith [k1.1], by linarith [k1.2]⟩, ⟨by linarith [k2.1], by linarith [k2.2]⟩, ?_, ?_⟩
  · have := k3.1; simp only [mul_one] at this; linarith
  · have := k3.2; simp only [mul_one] at this; linarith

/-- the interpolation bound of one real field -/
noncomputable def interpBound (hx hy hz Mx My Mz : ℝ) : ℝ := (hx ^ 2 * Mx + hy ^ 2 * My + hz ^ 2 * Mz) / 8

/-- `‖psi4_sphere − Ψ4‖` on every node of the angular grid: real and imaginary part are
interpolated separately, each with its own bounds. -/
theorem psiSphere_error {gx gy gz : List ℝ} {fr fi : ℝ → ℝ → ℝ → ℝ}
    {hx hy hz Mxr Myr Mzr Mxi Myi Mzi : ℝ}
    (Gr : GridField gx gy gz fr hx hy hz Mxr Myr Mzr) (Gi : GridField gx gy gz fi hx hy hz Mxi Myi Mzi)
    (R : ℝ) (N : Nat) (hin : SphereInside gx gy gz R N) (p : GridIdx N) :
    ‖psiSphere gx gy gz fr fi R N p - fieldSphere fr fi R N p‖
      ≤ interpBound hx hy hz Mxr Myr Mzr + interpBound hx hy hz Mxi Myi Mzi := by
  obtain ⟨⟨x0, x1⟩, ⟨y0, y1⟩, z0, z1⟩ := hin p
  have er := InterpR.interp3_error gx gy gz Gr.ax Gr.ay Gr.az Gr.nx Gr.ny Gr.nz fr Gr.wx Gr.wy Gr.wz
    Gr.HX Gr.HY Gr.HZ _ _ _ x0 x1 y0 y1 z0 z1
  have ei := InterpR.interp3_error gx gy gz Gi.ax Gi.ay Gi.az Gi.nx Gi.ny Gi.nz fi Gi.wx Gi.wy Gi.wz
    Gi.HX Gi.HY Gi.HZ _ _ _ x0 x1 y0 y1 z0 z1
  unfold psiSphere fieldSphere sampled interpBound
  set A := InterpR.interp3 gx gy gz (fun i j k => fr (InterpR.nth gx i) (InterpR.nth gy j) (InterpR.nth gz k))
    (sphX R (nodeTheta N p) (nodePhi N p)) (sphY R (nodeTheta N p) (nodePhi N p)) (sphZ R (nodeTheta N p))
  set B := InterpR.interp3 gx gy gz (fun i j k => fi (InterpR.nth gx i) (InterpR.nth gy j) (InterpR.nth gz k))
    (sphX R (nodeTheta N p) (nodePhi N p)) (sphY R (nodeTheta N p) (nodePhi N p)) (sphZ R (nodeTheta N p))
  set a := fr (sphX R (nodeTheta N p) (nodePhi N p)) (sphY R (nodeTheta N p) (nodePhi N p)) (sphZ R (nodeTheta N p))
  set b := fi (sphX R (nodeTheta N p) (nodePhi N p)) (sphY R (nodeTheta N p) (nodePhi N p)) (sphZ R (nodeTheta N p))
  have e : ((A : ℝ) : ℂ) + I * ((B : ℝ) : ℂ) - (((a : ℝ) : ℂ) + I * ((b : ℝ) : ℂ))
      = (((A - a : ℝ)) : ℂ) + I * (((B - b : ℝ)) : ℂ) := by push_cast; ring
  rw [e]
  refine le_trans (norm_add_le _ _) ?_
  rw [norm_mul, Complex.norm_I, one_mul, Complex.norm_real, Complex.norm_real, Real.norm_eq_abs, Real.norm_eq_abs]
  exact add_le_add er ei

/-! ### end to end -/

/-- `psi4lm[radius][l, m]` on the models -/
noncomputable def psi4lm (s : Int) (lmax : Nat) (gx gy gz : List ℝ) (fr fi : ℝ → ℝ → ℝ → ℝ) (R : ℝ) (N : Nat)
    (i : ModeIdx lmax) : ℂ :=
  coeffs (gridY s lmax N) (gridW N) (psiSphere gx gy gz fr fi R N) i

/-- **extraction error.**  `Ψ4 = fr + i·fi` with bounded pure second partials on the box of
the grid, band-limited on the nodes of the extraction sphere (`= Σ_j a_j ₛY_j`), sphere
inside the grid, `lmax ≤ Ntheta`:
`‖psi4lm_i − a_i‖ ≤ harmSup_i · 2π² · (interpolation bound re + im) + Σ_{j : m_j = m_i} defectBound · ‖a_j‖`. -/
theorem extraction_error (s : Int) (lmax N : Nat) (hN : lmax ≤ N)
    {gx gy gz : List ℝ} {fr fi : ℝ → ℝ → ℝ → ℝ} {hx hy hz Mxr Myr Mzr Mxi Myi Mzi : ℝ}
    (Gr : GridField gx gy gz fr hx hy hz Mxr Myr Mzr) (Gi : GridField gx gy gz fi hx hy hz Mxi Myi Mzi)
    (R : ℝ) (hin : SphereInside gx gy gz R N)
    (a : ModeIdx lmax → ℂ) (hsph : ∀ p, fieldSphere fr fi R N p = recon (gridY s lmax N) a p)
    (i : ModeIdx lmax) :
    ‖psi4lm s lmax gx gy gz fr fi R N i - (if |s| ≤ i.1.1 then a i else 0)‖
      ≤ harmSup s i.1.1 i.1.2 * (2 * π ^ 2)
          * (interpBound hx hy hz Mxr Myr Mzr + interpBound hx hy hz Mxi Myi Mzi)
        + ∑ j, (if i.1.2 = j.1.2 then defectBound s N i.1.1 i.1.2 j.1.1 else 0) * ‖a j‖ := by
  set E := interpBound hx hy hz Mxr Myr Mzr + interpBound hx hy hz Mxi Myi Mzi with hE
  have hE0 : 0 ≤ E := le_trans (norm_nonneg _) (psiSphere_error Gr Gi R N hin ⟨0, 0⟩)
  have h1 := coeffs_perturb (gridY s lmax N) (gridW N) (psiSphere gx gy gz fr fi R N)
    (fieldSphere fr fi R N) E (psiSphere_error Gr Gi R N hin) i
  have h2 := roundtrip_error_bound s lmax N hN a i
  have hfs : fieldSphere fr fi R N = recon (gridY s lmax N) a := funext hsph
  rw [hfs] at h1
  have h3 : E * ∑ p, ‖gridY s lmax N i p‖ * ‖gridW N p‖ ≤ harmSup s i.1.1 i.1.2 * (2 * π ^ 2) * E := by
    rw [mul_comm]
    exact mul_le_mul_of_nonneg_right (gridYW_sum_le s lmax N i) hE0
  unfold psi4lm
  calc ‖coeffs (gridY s lmax N) (gridW N) (psiSphere gx gy gz fr fi R N) i - (if |s| ≤ i.1.1 then a i else 0)‖
      = ‖(coeffs (gridY s lmax N) (gridW N) (psiSphere gx gy gz fr fi R N) i
            - coeffs (gridY s lmax N) (gridW N) (recon (gridY s lmax N) a) i)
          + (coeffs (gridY s lmax N) (gridW N) (recon (gridY s lmax N) a) i - (if |s| ≤ i.1.1 then a i else 0))‖ := by
        congr 1; ring
    _ ≤ _ := le_trans (norm_add_le _ _) (add_le_add (le_trans h1 h3) h2)

/-- **extraction error from node-wise interpolation errors** (no hypothesis on how they
were obtained: e.g. `InterpR.interp3_error_local` away from a singular axis, a cruder bound
next to it): `‖psi4lm_i − a_i‖ ≤ Σ_p ‖Y_i(p)‖·‖w(p)‖·E(p) + Σ_{j : m_j = m_i} defectBound·‖a_j‖`. -/
theorem extraction_error_pointwise (s : Int) (lmax N : Nat) (hN : lmax ≤ N)
    (gx gy gz : List ℝ) (fr fi : ℝ → ℝ → ℝ → ℝ) (R : ℝ) (E : GridIdx N → ℝ)
    (hE : ∀ p, ‖psiSphere gx gy gz fr fi R N p - fieldSphere fr fi R N p‖ ≤ E p)
    (a : ModeIdx lmax → ℂ) (hsph : ∀ p, fieldSphere fr fi R N p = recon (gridY s lmax N) a p)
    (i : ModeIdx lmax) :
    ‖psi4lm s lmax gx gy gz fr fi R N i - (if |s| ≤ i.1.1 then a i else 0)‖
      ≤ ∑ p, ‖gridY s lmax N i p‖ * ‖gridW N p‖ * E p
        + ∑ j, (if i.1.2 = j.1.2 then defectBound s N i.1.1 i.1.2 j.1.1 else 0) * ‖a j‖ := by
  have h1 := coeffs_perturb_pointwise (gridY s lmax N) (gridW N) (psiSphere gx gy gz fr fi R N)
    (fieldSphere fr fi R N) E hE i
  have h2 := roundtrip_error_bound s lmax N hN a i
  have hfs : fieldSphere fr fi R N = recon (gridY s lmax N) a := funext hsph
  rw [hfs] at h1
  unfold psi4lm
  calc ‖coeffs (gridY s lmax N) (gridW N) (psiSphere gx gy gz fr fi R N) i - (if |s| ≤ i.1.1 then a i else 0)‖
      = ‖(coeffs (gridY s lmax N) (gridW N) (psiSphere gx gy gz fr fi R N) i
            - coeffs (gridY s lmax N) (gridW N) (recon (gridY s lmax N) a) i)
          + (coeffs (gridY s lmax N) (gridW N) (recon (gridY s lmax N) a) i - (if |s| ≤ i.1.1 then a i else 0))‖ := by
        congr 1; ring
    _ ≤ _ := le_trans (norm_add_le _ _) (add_le_add h1 h2)

/-- **a pure harmonic on the extraction sphere.**  If `Ψ4 = amp · ₛY_{l0 m0}` on the nodes of
the extraction sphere (e.g. `Ψ4 = A · ₛY_{l0 m0}(θ, φ) · g(r)`, `amp = A·g(R)`), `psi4lm` returns
`amp` at `(l0, m0)` and `0` elsewhere up to the interpolation error and the θ-midpoint defect
of the pairs `(l, m0), (l0, m0)`. -/
theorem extraction_pure_mode (s : Int) (lmax N : Nat) (hN : lmax ≤ N)
    {gx gy gz : List ℝ} {fr fi : ℝ → ℝ → ℝ → ℝ} {hx hy hz Mxr Myr Mzr Mxi Myi Mzi : ℝ}
    (Gr : GridField gx gy gz fr hx hy hz Mxr Myr Mzr) (Gi : GridField gx gy gz fi hx hy hz Mxi Myi Mzi)
    (R : ℝ) (hin : SphereInside gx gy gz R N)
    (i0 : ModeIdx lmax) (amp : ℂ) (hsph : ∀ p, fieldSphere fr fi R N p = amp * gridY s lmax N i0 p)
    (i : ModeIdx lmax) :
    ‖psi4lm s lmax gx gy gz fr fi R N i - (if i = i0 ∧ |s| ≤ i0.1.1 then amp else 0)‖
      ≤ harmSup s i.1.1 i.1.2 * (2 * π ^ 2)
          * (interpBound hx hy hz Mxr Myr Mzr + interpBound hx hy hz Mxi Myi Mzi)
        + (if i.1.2 = i0.1.2 then defectBound s N i.1.1 i.1.2 i0.1.1 else 0) * ‖amp‖ := by
  classical
  have key := extraction_error s lmax N hN Gr Gi R hin (fun j => if j = i0 then amp else 0)
    (fun p => by rw [hsph p]; unfold recon; simp [Finset.sum_ite_eq']) i
  have e1 : (if |s| ≤ i.1.1 then (if i = i0 then amp else 0) else 0) = (if i = i0 ∧ |s| ≤ i0.1.1 then amp else 0) := by
    by_cases h : i = i0
    · subst h; by_cases h2 : |s| ≤ i.1.1 <;> simp [h2]
    · simp [h]
  have e2 : ∑ j, (if i.1.2 = j.1.2 then defectBound s N i.1.1 i.1.2 j.1.1 else 0) * ‖(if j = i0 then amp else 0)‖
      = (if i.1.2 = i0.1.2 then defectBound s N i.1.1 i.1.2 i0.1.1 else 0) * ‖amp‖ := by
    rw [Finset.sum_eq_single i0]
    · simp
    · intro j _ hj; simp [hj]
    · intro h; exact absurd (Finset.mem_univ _) h
  rw [e1, e2] at key
  exact key

/-! ### the explicit rate `C₁·(hx² + hy² + hz²) + C₂/(Ntheta+1)²` -/

/-- `defectBound` without its factor `1/(N+1)²` -/
noncomputable def defectConst (s : Int) (l m l' : Int) : ℝ :=
  Real.sqrt (((normRadicand s l m : ℚ) : ℝ) / π) * Real.sqrt (((normRadicand s l' m : ℚ) : ℝ) / π)
    * (2 * π) * (((Kθ s l m l' : ℕ) : ℝ) * π ^ 3 / 24)

theorem defectBound_eq (s : Int) (N : Nat) (l m l' : Int) :
    defectBound s N l m l' = defectConst s l m l' / ((N : ℝ) + 1) ^ 2 := by
  unfold defectBound defectConst
  have h : ((N : ℝ) + 1) ≠ 0 := by positivity
  push_cast
  field_simp

theorem defectConst_nonneg (s : Int) (l m l' : Int) : 0 ≤ defectConst s l m l' := by
  unfold defectConst
  have := Real.pi_pos
  exact mul_nonneg (mul_nonneg (mul_nonneg (Real.sqrt_nonneg _) (Real.sqrt_nonneg _)) (by positivity)) (by positivity)

/-- the angular constant `C₂ = Σ_{j : m_j = m_i} defectConst(l_i, m_i, l_j) · ‖a_j‖` -/
noncomputable def angConst (s : Int) (lmax : Nat) (a : ModeIdx lmax → ℂ) (i : ModeIdx lmax) : ℝ :=
  ∑ j, (if i.1.2 = j.1.2 then defectConst s i.1.1 i.1.2 j.1.1 else 0) * ‖a j‖

theorem angConst_nonneg (s : Int) (lmax : Nat) (a : ModeIdx lmax → ℂ) (i : ModeIdx lmax) :
    0 ≤ angConst s lmax a i := by
  unfold angConst
  refine Finset.sum_nonneg fun j _ => mul_nonneg ?_ (norm_nonneg _)
  split_ifs
  · exact defectConst_nonneg _ _ _ _
  · exact le_rfl

/-- **explicit rate**: all six second-derivative bounds `≤ M`:
`‖psi4lm_i − a_i‖ ≤ (harmSup_i·π²·M/2)·(hx² + hy² + hz²) + angConst_i/(Ntheta+1)²`. -/
theorem extraction_rate (s : Int) (lmax N : Nat) (hN : lmax ≤ N)
    {gx gy gz : List ℝ} {fr fi : ℝ → ℝ → ℝ → ℝ} {hx hy hz M : ℝ}
    (Gr : GridField gx gy gz fr hx hy hz M M M) (Gi : GridField gx gy gz fi hx hy hz M M M)
    (R : ℝ) (hin : SphereInside gx gy gz R N)
    (a : ModeIdx lmax → ℂ) (hsph : ∀ p, fieldSphere fr fi R N p = recon (gridY s lmax N) a p)
    (i : ModeIdx lmax) :
    ‖psi4lm s lmax gx gy gz fr fi R N i - (if |s| ≤ i.1.1 then a i else 0)‖
      ≤ harmSup s i.1.1 i.1.2 * π ^ 2 * M / 2 * (hx ^ 2 + hy ^ 2 + hz ^ 2)
        + angConst s lmax a i / ((N : ℝ) + 1) ^ 2 := by
  refine le_trans (extraction_error s lmax N hN Gr Gi R hin a hsph i) (le_of_eq ?_)
  congr 1
  · unfold interpBound; ring
  · unfold angConst
    rw [Finset.sum_div]
    apply Finset.sum_congr rfl
    intro j _
    by_cases h : i.1.2 = j.1.2
    · rw [if_pos h, if_pos h, defectBound_eq]; ring
    · rw [if_neg h, if_neg h]; ring

/-- a field that is band-limited on the whole extraction sphere is band-limited on the
nodes of every angular grid -/
theorem fieldSphere_of_sphere (s : Int) (lmax : Nat) (fr fi : ℝ → ℝ → ℝ → ℝ) (R : ℝ) (a : ModeIdx lmax → ℂ)
    (hsph : ∀ θ φ : ℝ, ((fr (sphX R θ φ) (sphY R θ φ) (sphZ R θ) : ℝ) : ℂ) + I * ((fi (sphX R θ φ) (sphY R θ φ) (sphZ R θ) : ℝ) : ℂ)
      = ∑ j : ModeIdx lmax, a j * sYlmC s j.1.1 j.1.2 θ φ) (N : Nat) (p : GridIdx N) :
    fieldSphere fr fi R N p = recon (gridY s lmax N) a p := by
  have := hsph (nodeTheta N p) (nodePhi N p)
  unfold fieldSphere recon gridY
  exact this

/-- **convergence with angular AND grid resolution.**  Fix the field `Ψ4 = fr + i·fi`, the
radius, the band limit and the coefficients `a` with `Ψ4 = Σ_j a_j ₛY_j` on the whole
extraction sphere.  Along ANY sequence of grids (containing the sphere, `Ψ4` regular on
their boxes with one bound `M`) whose cell widths are `≤ h n → 0`, with angular resolutions
`Nn n → ∞` (`≥ lmax`), the extracted coefficient `psi4lm_i` converges to `a_i` (to `0` for the
identically vanishing modes `l < |s|`). -/
theorem extraction_tendsto (s : Int) (lmax : Nat) (fr fi : ℝ → ℝ → ℝ → ℝ) (R M : ℝ)
    (a : ModeIdx lmax → ℂ)
    (hsph : ∀ θ φ : ℝ, ((fr (sphX R θ φ) (sphY R θ φ) (sphZ R θ) : ℝ) : ℂ) + I * ((fi (sphX R θ φ) (sphY R θ φ) (sphZ R θ) : ℝ) : ℂ)
      = ∑ j : ModeIdx lmax, a j * sYlmC s j.1.1 j.1.2 θ φ)
    (gx gy gz : ℕ → List ℝ) (Nn : ℕ → ℕ) (h : ℕ → ℝ)
    (hh : Filter.Tendsto h Filter.atTop (nhds 0)) (hNn : Filter.Tendsto Nn Filter.atTop Filter.atTop)
    (hN : ∀ n, lmax ≤ Nn n)
    (Gr : ∀ n, GridField (gx n) (gy n) (gz n) fr (h n) (h n) (h n) M M M)
    (Gi : ∀ n, GridField (gx n) (gy n) (gz n) fi (h n) (h n) (h n) M M M)
    (hin : ∀ n, SphereInside (gx n) (gy n) (gz n) R (Nn n))
    (i : ModeIdx lmax) :
    Filter.Tendsto (fun n => psi4lm s lmax (gx n) (gy n) (gz n) fr fi R (Nn n) i) Filter.atTop
      (nhds (if |s| ≤ i.1.1 then a i else 0)) := by
  rw [tendsto_iff_norm_sub_tendsto_zero]
  have hbound : ∀ n, ‖psi4lm s lmax (gx n) (gy n) (gz n) fr fi R (Nn n) i - (if |s| ≤ i.1.1 then a i else 0)‖
      ≤ harmSup s i.1.1 i.1.2 * π ^ 2 * M / 2 * (h n ^ 2 + h n ^ 2 + h n ^ 2)
        + angConst s lmax a i / (((Nn n : ℕ) : ℝ) + 1) ^ 2 := by
    intro n
    have hs := fieldSphere_of_sphere s lmax fr fi R a hsph (Nn n)
    have key := extraction_rate s lmax (Nn n) (hN n) (Gr n) (Gi n) R (hin n) a hs i
    exact key
  have hlim1 : Filter.Tendsto (fun n => harmSup s i.1.1 i.1.2 * π ^ 2 * M / 2 * (h n ^ 2 + h n ^ 2 + h n ^ 2))
      Filter.atTop (nhds (harmSup s i.1.1 i.1.2 * π ^ 2 * M / 2 * (0 ^ 2 + 0 ^ 2 + 0 ^ 2))) :=
    (((hh.pow 2).add (hh.pow 2)).add (hh.pow 2)).const_mul _
  have hlim2 : Filter.Tendsto (fun n => angConst s lmax a i / (((Nn n : ℕ) : ℝ) + 1) ^ 2) Filter.atTop (nhds 0) := by
    have hN1 : Filter.Tendsto (fun n => Nn n + 1) Filter.atTop Filter.atTop :=
      (Filter.tendsto_add_atTop_nat 1).comp hNn
    generalize angConst s lmax a i = C
    have h2 := (tendsto_const_div_pow C 2 two_ne_zero).comp hN1
    refine h2.congr (fun n => ?_)
    simp only [Function.comp_apply]
    push_cast
    rfl
  have hlim := hlim1.add hlim2
  simp only [ne_eq, OfNat.ofNat_ne_zero, not_false_eq_true, zero_pow, add_zero, mul_zero] at hlim
  exact squeeze_zero (fun n => norm_nonneg _) hbound hlim

end AurelVerif.HarmLemmas
