/-
Lemmas/C10EB.lean — generated `eweyl_n_down3` (both vacuum flags) and `eweyl_u_down4` against the
textbook expressions of Spec/Weyl.lean.
-/
import AurelVerif.Gen.CoreCurv
import AurelVerif.Gen.CoreHelpers
import AurelVerif.Gen.CoreBig_eweyl_u_down4
import AurelVerif.Lemmas.CoreTac
import AurelVerif.Spec.Weyl

set_option linter.unusedSimpArgs false
set_option linter.unusedVariables false

namespace AurelVerif.C10
open AurelVerif.Gen.Core AurelVerif.Tensor AurelVerif.CoreTac AurelVerif.Spec.Weyl

variable {K : Type} [Field K]

/-! ### E on the slice -/

theorem eweyl_n_matter_spec (e : Env K) : ∀ i j : Fin 3,
    eweyl_n_down3__dflt_matter e i j
      = eweylN e.gammaup3 e.gammadown3 e.s_Ricci_down3 e.Kdown3 e.Stressdown3_n e.Ktrace e.kappa false i j := by
  cases3 <;> cases3 <;>
    (simp only [core_unfold, eweylN, eweylCore, tracefree, Fin.sum_univ_three, Bool.false_eq_true, if_false]; ring)

theorem eweyl_n_vacuum_spec (e : Env K) : ∀ i j : Fin 3,
    eweyl_n_down3__dflt_vacuum e i j
      = eweylN e.gammaup3 e.gammadown3 e.s_Ricci_down3 e.Kdown3 e.Stressdown3_n e.Ktrace e.kappa true i j := by
  cases3 <;> cases3 <;>
    (simp only [core_unfold, eweylN, eweylCore, tracefree, Fin.sum_univ_three, if_true]; ring)

/-! ### E seen by the observer `u` -/

theorem eweyl_u_matches (e : Env K) : ∀ a c : Fin 4,
    eweyl_u_down4 e a c = eweylU e.st_Weyl_down4 e.uup4 a c := by
  cases4 <;> cases4 <;>
    (simp only [eweyl_u_down4, ↓vec4_0, ↓vec4_1, ↓vec4_2, ↓vec4_3, eweylU, Fin.sum_univ_four]; ring)

end AurelVerif.C10
