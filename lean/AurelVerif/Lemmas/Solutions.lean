/-
Lemmas/Solutions.lean — proofs for C17 (bundled analytic spacetimes).

All statements are about the definitions of Gen/Solutions.lean, which are
regenerated from src/aurel/solutions/*.py on every run.  A change of a
formula in a solution module changes the generated definition and breaks
exactly the lemmas below that mention it.

Conventions: `X.gammadown3_num t x y z i j` is component (i,j) of the array
`X.gammadown3(t, x, y, z)` (`analytical=False`), `_sym` the `analytical=True`
branch; grid arrays are modelled pointwise, so `np.ones/zeros(np.shape(x))`
are 1/0 and `maths.safe_division(a, b)` is Lean's `a / b` (`a / 0 = 0`).
Plain Python `/` is also `/`; every theorem states the domain condition
(`0 < t`, ...) under which its divisors are non-zero.
-/
import AurelVerif.Gen.Solutions
import Mathlib.Analysis.SpecialFunctions.Trigonometric.Deriv
import Mathlib.Analysis.SpecialFunctions.Trigonometric.DerivHyp
import Mathlib.Analysis.SpecialFunctions.ExpDeriv
import Mathlib.Analysis.SpecialFunctions.Pow.Deriv
import Mathlib.Analysis.SpecialFunctions.Log.Deriv
import Mathlib.Analysis.SpecialFunctions.Sqrt
import Mathlib.Analysis.Calculus.Deriv.Mul
import Mathlib.Analysis.Calculus.Deriv.Pow
import Mathlib.Analysis.Calculus.Deriv.Add
import Mathlib.Tactic.Ring
import Mathlib.Tactic.FieldSimp
import Mathlib.Tactic.Positivity
import Mathlib.Tactic.NormNum
import Mathlib.Tactic.Linarith
import Mathlib.Tactic.FinCases

set_option linter.unusedTactic false
set_option linter.unreachableTactic false
set_option linter.unusedSimpArgs false

namespace AurelVerif.SolutionsLemmas
open AurelVerif.Gen.Solutions

/-! ## EdS -/

theorem EdS_H0_pos : 0 < EdS.Hprop_today := by
  unfold EdS.Hprop_today EdS.h EdS.c; norm_num

theorem EdS_ttoday_pos : 0 < EdS.t_today := by
  have := EdS_H0_pos
  unfold EdS.t_today EdS.w; positivity

theorem EdS_kappa_pos : 0 < EdS.kappa := by
  unfold EdS.kappa; positivity

/-- `ȧ = a·H` from the module's own `a(t)` and `Hprop(t)`. -/
theorem EdS_a_deriv (t : ℝ) (ht : 0 < t) :
    HasDerivAt (fun s => EdS.a s) (EdS.a t * EdS.Hprop t) t := by
  have h0 := EdS_H0_pos
  have htt := EdS_ttoday_pos
  have hq : t / EdS.t_today ≠ 0 := (div_pos ht htt).ne'
  have h1 := ((hasDerivAt_id' t).div_const EdS.t_today).rpow_const
    (p := (2:ℝ) / ((3:ℝ) * ((1:ℝ) + EdS.w))) (Or.inl hq)
  have h2 := h1.const_mul EdS.a_today
  unfold EdS.a
  refine h2.congr_deriv ?_
  unfold EdS.Hprop
  rw [Real.rpow_sub_one hq]
  unfold EdS.t_today EdS.w
  field_simp

theorem EdS_a_pos (t : ℝ) (ht : 0 < t) : 0 < EdS.a t := by
  have htt := EdS_ttoday_pos
  unfold EdS.a EdS.a_today
  have := Real.rpow_pos_of_pos (div_pos ht htt) ((2:ℝ) / ((3:ℝ) * ((1:ℝ) + EdS.w)))
  positivity

theorem EdS_rate_diag (t x y z : ℝ) (ht : 0 < t) :
    HasDerivAt (fun s => EdS.gammadown3_00 s x y z)
      (-2 * EdS.alpha t x y z * EdS.Kdown3_00 t x y z) t := by
  unfold EdS.gammadown3_00
  have h := ((EdS_a_deriv t ht).pow 2).mul_const (1:ℝ)
  refine h.congr_deriv ?_
  unfold EdS.Kdown3_00 EdS.gammadown3_00 EdS.alpha
  ring

theorem EdS_K_is_metric_rate (t x y z : ℝ) (ht : 0 < t) (i j : Fin 3) :
    HasDerivAt (fun s => EdS.gammadown3 s x y z i j)
      (-2 * EdS.alpha t x y z * EdS.Kdown3 t x y z i j) t := by
  have hd := EdS_rate_diag t x y z ht
  have h0 : HasDerivAt (fun _ : ℝ => (0:ℝ)) (-2 * EdS.alpha t x y z * (-(0:ℝ) * EdS.Hprop t)) t :=
    (hasDerivAt_const t (0:ℝ)).congr_deriv (by ring)
  fin_cases i <;> fin_cases j
  · exact hd
  · exact h0
  · exact h0
  · exact h0
  · exact hd
  · exact h0
  · exact h0
  · exact h0
  · exact hd

/-- Friedmann equation `3H² = κρ + Λ` from the module's `Hprop`, `rho`, `kappa`, `Lambda`. -/
theorem EdS_friedmann (t : ℝ) :
    3 * EdS.Hprop t ^ 2 = EdS.kappa * EdS.rho t + EdS.Lambda := by
  have hk := EdS_kappa_pos.ne'
  unfold EdS.rho EdS.Omega_m EdS.Omega_m_EdS EdS.Lambda
  field_simp
  ring

/-- energy conservation `ρ̇ = −3H(ρ + p)` (with Friedmann: the `ij` Einstein equations of FLRW). -/
theorem EdS_continuity (t : ℝ) (ht : 0 < t) :
    HasDerivAt (fun s => EdS.rho s) (-3 * EdS.Hprop t * (EdS.rho t + EdS.press t)) t := by
  have hk := EdS_kappa_pos.ne'
  have h1 : HasDerivAt (fun s => EdS.Hprop s) (-(EdS.Hprop_today * EdS.t_today) / t ^ 2) t := by
    unfold EdS.Hprop
    have := (hasDerivAt_const t (EdS.Hprop_today * EdS.t_today)).div (hasDerivAt_id' t) ht.ne'
    refine this.congr_deriv ?_
    ring
  have h2 := (((h1.pow 2).const_mul ((3:ℝ) * EdS.Omega_m t)).div_const EdS.kappa)
  unfold EdS.rho
  refine h2.congr_deriv ?_
  have h0 := EdS_H0_pos
  have htn := ht.ne'
  unfold EdS.press EdS.rho EdS.Omega_m EdS.Omega_m_EdS EdS.Hprop EdS.w EdS.t_today EdS.w
  simp only [Nat.cast_ofNat, Nat.add_one_sub_one, pow_one, add_zero, mul_one, zero_mul]
  field_simp


/-! ## LCDM -/

theorem LCDM_H0_pos : 0 < LCDM.Hprop_today := by
  unfold LCDM.Hprop_today LCDM.h LCDM.c; norm_num

theorem LCDM_tE_pos : 0 < LCDM.t_today_EdS := by
  have := LCDM_H0_pos
  unfold LCDM.t_today_EdS; positivity

theorem LCDM_Om_pos : 0 < LCDM.Omega_m_today := by
  unfold LCDM.Omega_m_today; norm_num

theorem LCDM_Ol_pos : 0 < LCDM.Omega_l_today := by
  unfold LCDM.Omega_l_today LCDM.Omega_m_today; norm_num

theorem LCDM_kappa_pos : 0 < LCDM.kappa := by
  unfold LCDM.kappa; positivity

/-- the argument of `sinh` in `LCDM.a`. -/
noncomputable def LCDM_tau (t : ℝ) : ℝ := Real.sqrt LCDM.Omega_l_today * t / LCDM.t_today_EdS

theorem LCDM_tau_pos (t : ℝ) (ht : 0 < t) : 0 < LCDM_tau t := by
  have h1 := LCDM_tE_pos
  have h2 := Real.sqrt_pos.mpr LCDM_Ol_pos
  unfold LCDM_tau; positivity

theorem LCDM_sinh_pos (t : ℝ) (ht : 0 < t) : 0 < Real.sinh (LCDM_tau t) :=
  Real.sinh_pos_iff.mpr (LCDM_tau_pos t ht)

theorem cube_rpow_third (x : ℝ) (hx : 0 ≤ x) : (x ^ ((1:ℝ) / 3)) ^ (3:ℕ) = x := by
  rw [← Real.rpow_natCast, ← Real.rpow_mul hx]; norm_num

theorem cube_rpow_two_thirds (x : ℝ) (hx : 0 ≤ x) : (x ^ ((2:ℝ) / 3)) ^ (3:ℕ) = x ^ 2 := by
  rw [← Real.rpow_natCast, ← Real.rpow_mul hx]; norm_num

/-- `(a/a_today)³ = (Ω_m/Ω_Λ)·sinh²τ`. -/
theorem LCDM_an_cube (t : ℝ) (ht : 0 < t) :
    LCDM.an_today t ^ 3 = LCDM.Omega_m_today / LCDM.Omega_l_today * Real.sinh (LCDM_tau t) ^ 2 := by
  have hs := (LCDM_sinh_pos t ht).le
  have hq : 0 ≤ LCDM.Omega_m_today / LCDM.Omega_l_today := (div_pos LCDM_Om_pos LCDM_Ol_pos).le
  unfold LCDM.an_today LCDM.a_num LCDM.a_today
  rw [div_one, one_mul, mul_pow]
  have e1 := cube_rpow_third _ hq
  have e2 := cube_rpow_two_thirds _ hs
  unfold LCDM_tau at e2 ⊢
  rw [e1, e2]

theorem LCDM_an_pos (t : ℝ) (ht : 0 < t) : 0 < LCDM.an_today t := by
  have hs := LCDM_sinh_pos t ht
  unfold LCDM_tau at hs
  have h1 := Real.rpow_pos_of_pos (div_pos LCDM_Om_pos LCDM_Ol_pos) ((1:ℝ) / 3)
  have h2 := Real.rpow_pos_of_pos hs ((2:ℝ) / 3)
  unfold LCDM.an_today LCDM.a_num LCDM.a_today
  positivity

/-- closed form of the module's `Hprop`: `H = H₀ √Ω_Λ coth τ`. -/
theorem LCDM_H_closed (t : ℝ) (ht : 0 < t) :
    LCDM.Hprop t = LCDM.Hprop_today * (Real.sqrt LCDM.Omega_l_today
      * Real.cosh (LCDM_tau t) / Real.sinh (LCDM_tau t)) := by
  have hs := LCDM_sinh_pos t ht
  have hc := Real.cosh_pos (LCDM_tau t)
  have hl := LCDM_Ol_pos
  have hm := LCDM_Om_pos
  have hsl := Real.sqrt_pos.mpr hl
  unfold LCDM.Hprop
  rw [LCDM_an_cube t ht]
  congr 1
  have : LCDM.Omega_m_today / (LCDM.Omega_m_today / LCDM.Omega_l_today * Real.sinh (LCDM_tau t) ^ 2)
      + LCDM.Omega_l_today
      = (Real.sqrt LCDM.Omega_l_today * Real.cosh (LCDM_tau t) / Real.sinh (LCDM_tau t)) ^ 2 := by
    rw [div_pow, mul_pow, Real.sq_sqrt hl.le, Real.cosh_sq]
    field_simp
    ring
  rw [this, Real.sqrt_sq (by positivity)]

/-- `ȧ = a·H` from the module's own `a(t)` and `Hprop(t)`. -/
theorem LCDM_a_deriv (t : ℝ) (ht : 0 < t) :
    HasDerivAt (fun s => LCDM.a_num s) (LCDM.a_num t * LCDM.Hprop t) t := by
  have hs := LCDM_sinh_pos t ht
  have h0 := LCDM_H0_pos
  have hE := LCDM_tE_pos
  have harg : HasDerivAt (fun s => Real.sqrt LCDM.Omega_l_today * s / LCDM.t_today_EdS)
      (Real.sqrt LCDM.Omega_l_today * 1 / LCDM.t_today_EdS) t :=
    ((hasDerivAt_id' t).const_mul _).div_const _
  have h1 := (harg.sinh).rpow_const (p := (2:ℝ) / (3:ℝ)) (Or.inl (by
    have := hs.ne'; unfold LCDM_tau at this; exact this))
  have h2 := h1.const_mul (LCDM.a_today * (LCDM.Omega_m_today / LCDM.Omega_l_today) ^ ((1:ℝ) / (3:ℝ)))
  unfold LCDM.a_num
  refine h2.congr_deriv ?_
  rw [LCDM_H_closed t ht]
  have hs' := hs.ne'
  unfold LCDM_tau at hs' ⊢
  rw [Real.rpow_sub_one hs']
  unfold LCDM.t_today_EdS
  field_simp

theorem LCDM_rate_diag (t x y z : ℝ) (ht : 0 < t) :
    HasDerivAt (fun s => LCDM.gammadown3_num_00 s x y z)
      (-2 * LCDM.alpha t x y z * LCDM.Kdown3_00 t x y z) t := by
  unfold LCDM.gammadown3_num_00
  have h := ((LCDM_a_deriv t ht).pow 2).mul_const (1:ℝ)
  refine h.congr_deriv ?_
  unfold LCDM.Kdown3_00 LCDM.gammadown3_num_00 LCDM.alpha
  ring

theorem LCDM_K_is_metric_rate (t x y z : ℝ) (ht : 0 < t) (i j : Fin 3) :
    HasDerivAt (fun s => LCDM.gammadown3_num s x y z i j)
      (-2 * LCDM.alpha t x y z * LCDM.Kdown3 t x y z i j) t := by
  have hd := LCDM_rate_diag t x y z ht
  have h0 : HasDerivAt (fun _ : ℝ => (0:ℝ)) (-2 * LCDM.alpha t x y z * (-(0:ℝ) * LCDM.Hprop t)) t :=
    (hasDerivAt_const t (0:ℝ)).congr_deriv (by ring)
  fin_cases i <;> fin_cases j
  · exact hd
  · exact h0
  · exact h0
  · exact h0
  · exact hd
  · exact h0
  · exact h0
  · exact h0
  · exact hd

/-- Friedmann equation `3H² = κρ + Λ` from the module's `Hprop`, `Omega_m`, `rho`, `Lambda`. -/
theorem LCDM_friedmann (t : ℝ) (ht : 0 < t) :
    3 * LCDM.Hprop t ^ 2 = LCDM.kappa * LCDM.rho t + LCDM.Lambda := by
  have hk := LCDM_kappa_pos.ne'
  have hq : 0 < LCDM.an_today t ^ 3 := pow_pos (LCDM_an_pos t ht) 3
  have han := (LCDM_an_pos t ht).ne'
  have hl := LCDM_Ol_pos
  have hm := LCDM_Om_pos
  have hpos : 0 ≤ LCDM.Omega_m_today / LCDM.an_today t ^ 3 + LCDM.Omega_l_today := by positivity
  have hden : LCDM.Omega_m_today + LCDM.Omega_l_today * LCDM.an_today t ^ 3 ≠ 0 := by positivity
  unfold LCDM.rho LCDM.Omega_m LCDM.Lambda LCDM.Hprop LCDM.c
  rw [mul_pow, Real.sq_sqrt hpos]
  field_simp


/-! ## generic helpers -/

/-- a component that does not depend on `t`, with `α·K = 0`. -/
theorem static_rate (γ : ℝ → ℝ) (α K t : ℝ) (hstat : ∀ s, γ s = γ t) (hK : α * K = 0) :
    HasDerivAt γ (-2 * α * K) t := by
  have : γ = fun _ => γ t := funext hstat
  rw [this]
  exact (hasDerivAt_const t _).congr_deriv (by linarith)

/-! ## Conformally_flat (static, lapse Ω) -/

theorem Conformally_flat_K_is_metric_rate (t x y z : ℝ) (i j : Fin 3) :
    HasDerivAt (fun s => Conformally_flat.gammadown3_num s x y z i j)
      (-2 * Conformally_flat.alpha t x y z * Conformally_flat.Kdown3 t x y z i j) t := by
  apply static_rate
  · intro s; rfl
  · fin_cases i <;> fin_cases j <;> exact mul_zero _

/-- `dxOmega`, `dxdxOmega` (used by the module's `Tdown4`) are the derivatives of `Omega`. -/
theorem Conformally_flat_dOmega (x : ℝ) :
    HasDerivAt (fun s => Conformally_flat.Omega s) (Conformally_flat.dxOmega x) x ∧
    HasDerivAt (fun s => Conformally_flat.dxOmega s) (Conformally_flat.dxdxOmega x) x := by
  constructor
  · unfold Conformally_flat.Omega Conformally_flat.dxOmega
    have h := (((hasDerivAt_id' x).pow 2).const_mul Conformally_flat.eps).const_add (1:ℝ)
    refine h.congr_deriv ?_
    simp; ring
  · unfold Conformally_flat.dxOmega Conformally_flat.dxdxOmega
    have h := (hasDerivAt_id' x).const_mul ((2:ℝ) * Conformally_flat.eps)
    refine h.congr_deriv ?_
    ring

/-! ## Schwarzschild_isotropic (static) -/

theorem Schwarzschild_K_is_metric_rate (t x y z : ℝ) (i j : Fin 3) :
    HasDerivAt (fun s => Schwarzschild_isotropic.gammadown3_num s x y z i j)
      (-2 * Schwarzschild_isotropic.alpha_num t x y z * Schwarzschild_isotropic.Kdown3 t x y z i j) t := by
  apply static_rate
  · intro s; rfl
  · fin_cases i <;> fin_cases j <;> exact mul_zero _

/-! ## Harvey_Tsoubelis -/

theorem Harvey_Tsoubelis_K_is_metric_rate (t x y z : ℝ) (ht : 0 < t) (i j : Fin 3) :
    HasDerivAt (fun s => Harvey_Tsoubelis.gammadown3_num s x y z i j)
      (-2 * Harvey_Tsoubelis.alpha t x y z * Harvey_Tsoubelis.Kdown3 t x y z i j) t := by
  have hid := hasDerivAt_id' t
  have hB : HasDerivAt (fun s => x + Real.log s) (t⁻¹) t := (Real.hasDerivAt_log ht.ne').const_add x
  have htn := ht.ne'
  have h0 : HasDerivAt (fun _ : ℝ => (0:ℝ)) (-2 * (1:ℝ) * ((-(1:ℝ)) / 2 * 0)) t :=
    (hasDerivAt_const t (0:ℝ)).congr_deriv (by ring)
  have h00 : HasDerivAt (fun s => s * s * (1:ℝ)) (-2 * (1:ℝ) * ((-(1:ℝ)) / 2 * (2 * t * 1))) t :=
    ((hid.mul hid).mul_const 1).congr_deriv (by ring)
  have h11 : HasDerivAt (fun s => s * Real.exp x) (-2 * (1:ℝ) * ((-(1:ℝ)) / 2 * Real.exp x)) t :=
    (hid.mul_const (Real.exp x)).congr_deriv (by ring)
  have h12 : HasDerivAt (fun s => s * Real.exp x * (x + Real.log s))
      (-2 * (1:ℝ) * ((-(1:ℝ)) / 2 * (Real.exp x * (x + Real.log t) + t * Real.exp x * (1 / t)))) t :=
    ((hid.mul_const (Real.exp x)).mul hB).congr_deriv (by field_simp)
  have hBB : HasDerivAt (fun s => (x + Real.log s) * (x + Real.log s))
      (t⁻¹ * (x + Real.log t) + (x + Real.log t) * t⁻¹) t := hB.mul hB
  have h22 : HasDerivAt (fun s => s * Real.exp x * ((x + Real.log s) * (x + Real.log s) + 1))
      (-2 * (1:ℝ) * ((-(1:ℝ)) / 2 * (Real.exp x * ((x + Real.log t) * (x + Real.log t) + 1)
        + t * Real.exp x * (2 * (1 / t) * (x + Real.log t))))) t :=
    ((hid.mul_const (Real.exp x)).mul (hBB.add_const 1)).congr_deriv (by field_simp; ring)
  fin_cases i <;> fin_cases j
  · exact h00
  · exact h0
  · exact h0
  · exact h0
  · exact h11
  · exact h12
  · exact h0
  · exact h12
  · exact h22

/-! ## Non_diagonal -/

theorem Non_diagonal_K_is_metric_rate (t x y z : ℝ) (i j : Fin 3) :
    HasDerivAt (fun s => Non_diagonal.gammadown3_num s x y z i j)
      (-2 * (1:ℝ) * Non_diagonal.Kdown3 t x y z i j) t := by
  have hid := hasDerivAt_id' t
  have hd : HasDerivAt (fun s => s * Non_diagonal.A_num z)
      (-2 * (1:ℝ) * ((-(1:ℝ)) / 2 * Non_diagonal.A_num z)) t :=
    (hid.mul_const _).congr_deriv (by ring)
  have h0 : ∀ c : ℝ, HasDerivAt (fun _ : ℝ => c) (-2 * (1:ℝ) * ((-(1:ℝ)) / 2 * 0)) t := fun c =>
    (hasDerivAt_const t c).congr_deriv (by ring)
  fin_cases i <;> fin_cases j
  · exact hd
  · exact h0 1
  · exact h0 1
  · exact h0 1
  · exact hd
  · exact h0 0
  · exact h0 1
  · exact h0 0
  · exact hd

/-- `dzA`, `dzdzA` (used by the module's `Tdown4`) are the derivatives of `A`. -/
theorem Non_diagonal_dA (z : ℝ) :
    HasDerivAt (fun s => Non_diagonal.A_num s) (Non_diagonal.dzA z) z ∧
    HasDerivAt (fun s => Non_diagonal.dzA s) (Non_diagonal.dzdzA z) z := by
  have harg : HasDerivAt (fun s => Non_diagonal.fq * s) (Non_diagonal.fq * 1) z :=
    (hasDerivAt_id' z).const_mul _
  constructor
  · unfold Non_diagonal.A_num Non_diagonal.dzA
    refine ((harg.sin.const_mul ((1:ℝ) / 5)).const_add ((23:ℝ) / 10)).congr_deriv ?_
    ring
  · unfold Non_diagonal.dzA Non_diagonal.dzdzA
    refine (harg.cos.const_mul (((1:ℝ) / 5) * Non_diagonal.fq)).congr_deriv ?_
    ring


/-! ## Collins_Stewart -/

theorem Collins_Stewart_K_is_metric_rate (t x y z : ℝ) (ht : 0 < t) (i j : Fin 3) :
    HasDerivAt (fun s => Collins_Stewart.gammadown3_num s x y z i j)
      (-2 * (1:ℝ) * Collins_Stewart.Kdown3 t x y z i j) t := by
  have hp : ∀ p : ℝ, HasDerivAt (fun s : ℝ => s ^ p) (p * t ^ (p - 1)) t := fun p =>
    Real.hasDerivAt_rpow_const (Or.inl ht.ne')
  have h0 : HasDerivAt (fun _ : ℝ => (0:ℝ)) (-2 * (1:ℝ) * ((-(1:ℝ)) / 2 * 0)) t :=
    (hasDerivAt_const t (0:ℝ)).congr_deriv (by ring)
  set c : ℝ := Collins_Stewart.s * z / (2 * Collins_Stewart.gamma) with hc
  have h1 := (hp (2 * Collins_Stewart.p1)).mul_const (1:ℝ)
  have h2 := (hp (2 * Collins_Stewart.p2)).mul_const (1:ℝ)
  have h00 : HasDerivAt (fun s : ℝ => s ^ (2 * Collins_Stewart.p1) * 1)
      (-2 * (1:ℝ) * ((-(1:ℝ)) / 2 * (2 * Collins_Stewart.p1 * t ^ (2 * Collins_Stewart.p1 - 1) * 1))) t :=
    h1.congr_deriv (by ring)
  have h01 : HasDerivAt (fun s : ℝ => s ^ (2 * Collins_Stewart.p1) * 1 * c)
      (-2 * (1:ℝ) * ((-(1:ℝ)) / 2 * (2 * Collins_Stewart.p1 * t ^ (2 * Collins_Stewart.p1 - 1) * 1 * c))) t :=
    (h1.mul_const c).congr_deriv (by ring)
  have h11 : HasDerivAt (fun s : ℝ => s ^ (2 * Collins_Stewart.p2) * 1 + s ^ (2 * Collins_Stewart.p1) * 1 * c ^ 2)
      (-2 * (1:ℝ) * ((-(1:ℝ)) / 2 * (2 * Collins_Stewart.p2 * t ^ (2 * Collins_Stewart.p2 - 1) * 1
        + 2 * Collins_Stewart.p1 * t ^ (2 * Collins_Stewart.p1 - 1) * 1 * c ^ 2))) t :=
    (h2.add (h1.mul_const (c ^ 2))).congr_deriv (by ring)
  have h22 : HasDerivAt (fun s : ℝ => s ^ (2 * Collins_Stewart.p2) * 1)
      (-2 * (1:ℝ) * ((-(1:ℝ)) / 2 * (2 * Collins_Stewart.p2 * t ^ (2 * Collins_Stewart.p2 - 1) * 1))) t :=
    h2.congr_deriv (by ring)
  fin_cases i <;> fin_cases j
  · exact h00
  · exact h01
  · exact h0
  · exact h01
  · exact h11
  · exact h0
  · exact h0
  · exact h0
  · exact h22

/-! ## Rosquist_Jantzen -/

theorem Rosquist_Jantzen_K_is_metric_rate (t x y z : ℝ) (ht : 0 < t) (i j : Fin 3) :
    HasDerivAt (fun s => Rosquist_Jantzen.gammadown3_num s x y z i j)
      (-2 * (1:ℝ) * Rosquist_Jantzen.Kdown3 t x y z i j) t := by
  have hid := hasDerivAt_id' t
  have hp : ∀ p : ℝ, HasDerivAt (fun s : ℝ => s ^ p) (p * t ^ (p - 1)) t := fun p =>
    Real.hasDerivAt_rpow_const (Or.inl ht.ne')
  have h0 : HasDerivAt (fun _ : ℝ => (0:ℝ)) (-2 * (1:ℝ) * ((-(1:ℝ)) / 2 * 0)) t :=
    (hasDerivAt_const t (0:ℝ)).congr_deriv (by ring)
  set k := Rosquist_Jantzen.k
  set m := Rosquist_Jantzen.m
  set s' := Rosquist_Jantzen.s
  set q := Rosquist_Jantzen.q
  have h00 : HasDerivAt (fun s : ℝ => k * k * s * s * (1 + m * m) * 1)
      (-2 * (1:ℝ) * ((-(1:ℝ)) / 2 * (2 * k * k * t * (1 + m * m) * 1))) t :=
    (((((hid.const_mul (k * k)).mul hid).mul_const (1 + m * m)).mul_const 1)).congr_deriv (by ring)
  have e1 : (1 + s' - q) - 1 = s' - q := by ring
  have h01 : HasDerivAt (fun s : ℝ => m * k * s ^ (1 + s' - q) * Real.exp x)
      (-2 * (1:ℝ) * ((-(1:ℝ)) / 2 * ((1 + s' - q) * m * k * t ^ (s' - q) * Real.exp x))) t :=
    ((((hp (1 + s' - q)).const_mul (m * k)).mul_const (Real.exp x))).congr_deriv (by rw [e1]; ring)
  have h11 : HasDerivAt (fun s : ℝ => s ^ (2 * (s' - q)) * Real.exp (2 * x))
      (-2 * (1:ℝ) * ((-(1:ℝ)) / 2 * (2 * (s' - q) * t ^ (2 * (s' - q) - 1) * Real.exp (2 * x)))) t :=
    ((hp (2 * (s' - q))).mul_const _).congr_deriv (by ring)
  have h22 : HasDerivAt (fun s : ℝ => s ^ (2 * (s' + q)) * Real.exp (-2 * x))
      (-2 * (1:ℝ) * ((-(1:ℝ)) / 2 * (2 * (s' + q) * t ^ (2 * (s' + q) - 1) * Real.exp (-2 * x)))) t :=
    ((hp (2 * (s' + q))).mul_const _).congr_deriv (by ring)
  fin_cases i <;> fin_cases j
  · exact h00
  · exact h01
  · exact h0
  · exact h01
  · exact h11
  · exact h0
  · exact h0
  · exact h0
  · exact h22


/-! ## Szekeres -/

theorem LCDM_Lambda_pos : 0 < LCDM.Lambda := by
  have h0 := LCDM_H0_pos
  have hl := LCDM_Ol_pos
  unfold LCDM.Lambda LCDM.c; positivity

theorem Szekeres_tauC_pos : 0 < Szekeres.tauC := by
  have := LCDM_Lambda_pos
  unfold Szekeres.tauC
  exact Real.sqrt_pos.mpr (by positivity)

/-- the local `integrated_part` of `Szekeres.Z_terms`, as a function of `τ = tauC·t`. -/
noncomputable def Szekeres_IP (hyp2f1 : ℝ → ℝ → ℝ → ℝ → ℝ) (τ : ℝ) : ℝ :=
  (3:ℝ) / 5 * Real.sqrt (Real.cosh τ ^ 2) * hyp2f1 ((5:ℝ) / 6) ((3:ℝ) / 2) ((11:ℝ) / 6) (-(Real.sinh τ ^ 2))
    * Real.sinh τ ^ ((5:ℝ) / 3) / Real.cosh τ

/-- the local `part_to_integrate` of `Szekeres.Z_terms`. -/
noncomputable def Szekeres_PTI (τ : ℝ) : ℝ := Real.sinh τ ^ ((2:ℝ) / 3) / Real.cosh τ ^ 2

/-- `dtZ` returned by `Z_terms` is the `t`-derivative of `Z`, given that `integrated_part`
is an antiderivative of `part_to_integrate` (the hypergeometric identity, not in Mathlib). -/
theorem Szekeres_dtZ (hyp2f1 : ℝ → ℝ → ℝ → ℝ → ℝ) (t x y z : ℝ) (ht : 0 < t)
    (hIP : HasDerivAt (Szekeres_IP hyp2f1) (Szekeres_PTI (Szekeres.tauC * t)) (Szekeres.tauC * t)) :
    HasDerivAt (fun s => Szekeres.Z_terms_num_Z hyp2f1 s x y z)
      (Szekeres.Z_terms_num_dtZ hyp2f1 t x y z) t := by
  have hτ : HasDerivAt (fun s => Szekeres.tauC * s) (Szekeres.tauC * 1) t :=
    (hasDerivAt_id' t).const_mul _
  have hsinh : Real.sinh (Szekeres.tauC * t) ≠ 0 :=
    (Real.sinh_pos_iff.mpr (mul_pos Szekeres_tauC_pos ht)).ne'
  have hfM : HasDerivAt (fun s => Real.cosh (Szekeres.tauC * s) / Real.sinh (Szekeres.tauC * s))
      (Szekeres.tauC * (-1 / Real.sinh (Szekeres.tauC * t) ^ 2)) t := by
    refine (hτ.cosh.div hτ.sinh hsinh).congr_deriv ?_
    have := Real.cosh_sq (Szekeres.tauC * t)
    field_simp
    linear_combination (-Szekeres.tauC) * this
  have hI : HasDerivAt (fun s => Szekeres_IP hyp2f1 (Szekeres.tauC * s))
      (Szekeres_PTI (Szekeres.tauC * t) * (Szekeres.tauC * 1)) t := hIP.comp t hτ
  set bP : ℝ := Szekeres.Amp * (1 - Real.sin (Szekeres.k * z)) with hbP
  have hZ : HasDerivAt (fun s => 0 * (Real.cosh (Szekeres.tauC * s) / Real.sinh (Szekeres.tauC * s))
        + bP * (Real.cosh (Szekeres.tauC * s) / Real.sinh (Szekeres.tauC * s)
          * Szekeres_IP hyp2f1 (Szekeres.tauC * s))
        + (1 + Szekeres.B * bP * (x ^ 2 + y ^ 2))) _ t :=
    (((hfM.const_mul (0:ℝ)).add ((hfM.mul hI).const_mul bP)).add_const
      (1 + Szekeres.B * bP * (x ^ 2 + y ^ 2)))
  unfold Szekeres.Z_terms_num_Z
  refine hZ.congr_deriv ?_
  unfold Szekeres.Z_terms_num_dtZ Szekeres_PTI Szekeres_IP
  ring

theorem Szekeres_K_is_metric_rate_LCDM_part (hyp2f1 : ℝ → ℝ → ℝ → ℝ → ℝ) (t x y z : ℝ) (ht : 0 < t)
    (i j : Fin 3) (hij : ¬ (i = 2 ∧ j = 2)) :
    HasDerivAt (fun s => Szekeres.gammadown3_num hyp2f1 s x y z i j)
      (-2 * Szekeres.alpha t x y z * Szekeres.Kdown3 hyp2f1 t x y z i j) t := by
  have hd := LCDM_rate_diag t x y z ht
  have h0 : HasDerivAt (fun _ : ℝ => (0:ℝ)) (-2 * (1:ℝ) * (-(0:ℝ) * LCDM.Hprop t)) t :=
    (hasDerivAt_const t (0:ℝ)).congr_deriv (by ring)
  fin_cases i <;> fin_cases j
  · exact hd
  · exact h0
  · exact h0
  · exact h0
  · exact hd
  · exact h0
  · exact h0
  · exact h0
  · exact absurd ⟨rfl, rfl⟩ hij

theorem Szekeres_K_is_metric_rate (hyp2f1 : ℝ → ℝ → ℝ → ℝ → ℝ) (t x y z : ℝ) (ht : 0 < t)
    (hIP : HasDerivAt (Szekeres_IP hyp2f1) (Szekeres_PTI (Szekeres.tauC * t)) (Szekeres.tauC * t))
    (hZ : Szekeres.Z_terms_num_Z hyp2f1 t x y z ≠ 0) (i j : Fin 3) :
    HasDerivAt (fun s => Szekeres.gammadown3_num hyp2f1 s x y z i j)
      (-2 * Szekeres.alpha t x y z * Szekeres.Kdown3 hyp2f1 t x y z i j) t := by
  by_cases hij : i = 2 ∧ j = 2
  · obtain ⟨rfl, rfl⟩ := hij
    have hγ := LCDM_K_is_metric_rate t x y z ht 2 2
    have hz := Szekeres_dtZ hyp2f1 t x y z ht hIP
    have h : HasDerivAt (fun s => LCDM.gammadown3_num_22 s x y z * Szekeres.Z_terms_num_Z hyp2f1 s x y z ^ 2)
        (-2 * Szekeres.alpha t x y z * Szekeres.Kdown3_22 hyp2f1 t x y z) t := by
      have hz2 : HasDerivAt (fun s => Szekeres.Z_terms_num_Z hyp2f1 s x y z ^ 2)
          (2 * Szekeres.Z_terms_num_Z hyp2f1 t x y z * Szekeres.Z_terms_num_dtZ hyp2f1 t x y z) t := by
        refine (hz.pow 2).congr_deriv ?_
        simp
      have hγ' : HasDerivAt (fun s => LCDM.gammadown3_num_22 s x y z)
          (-2 * LCDM.alpha t x y z * LCDM.Kdown3_22 t x y z) t := hγ
      refine (hγ'.mul hz2).congr_deriv ?_
      unfold Szekeres.Kdown3_22 Szekeres.alpha LCDM.alpha LCDM.gammadown3_num_22
      field_simp
      ring
    exact h
  · exact Szekeres_K_is_metric_rate_LCDM_part hyp2f1 t x y z ht i j hij


/-! ## ICPertFLRW (first-order perturbed FLRW; `sol` = a background module, `fd`-derivatives of `Rc` opaque) -/

/-- background part: with `Rc = 0` (and its derivatives 0) on the EdS background the module returns
the EdS metric and extrinsic curvature. -/
theorem ICPertFLRW_background_EdS (t x y z : ℝ) :
    ICPertFLRW.gammadown3 EdS.Hprop EdS.Omega_m EdS.a EdS.fL 0 0 0 0 0 0 t 0 = EdS.gammadown3 t x y z ∧
    ICPertFLRW.Kdown3 EdS.Hprop EdS.Omega_m EdS.a EdS.fL 0 0 0 0 0 0 t 0 = EdS.Kdown3 t x y z := by
  constructor <;> funext i j <;> fin_cases i <;> fin_cases j <;>
    simp [ICPertFLRW.gammadown3, ICPertFLRW.Kdown3, EdS.gammadown3, EdS.Kdown3,
      ICPertFLRW.gammadown3_00, ICPertFLRW.gammadown3_01, ICPertFLRW.gammadown3_02,
      ICPertFLRW.gammadown3_10, ICPertFLRW.gammadown3_11, ICPertFLRW.gammadown3_12,
      ICPertFLRW.gammadown3_20, ICPertFLRW.gammadown3_21, ICPertFLRW.gammadown3_22,
      ICPertFLRW.Kdown3_00, ICPertFLRW.Kdown3_01, ICPertFLRW.Kdown3_02,
      ICPertFLRW.Kdown3_10, ICPertFLRW.Kdown3_11, ICPertFLRW.Kdown3_12,
      ICPertFLRW.Kdown3_20, ICPertFLRW.Kdown3_21, ICPertFLRW.Kdown3_22,
      EdS.gammadown3_00, EdS.gammadown3_01, EdS.gammadown3_02, EdS.gammadown3_10, EdS.gammadown3_11,
      EdS.gammadown3_12, EdS.gammadown3_20, EdS.gammadown3_21, EdS.gammadown3_22,
      EdS.Kdown3_00, EdS.Kdown3_01, EdS.Kdown3_02, EdS.Kdown3_10, EdS.Kdown3_11,
      EdS.Kdown3_12, EdS.Kdown3_20, EdS.Kdown3_21, EdS.Kdown3_22]

theorem ICPertFLRW_background_LCDM (t x y z : ℝ) :
    ICPertFLRW.gammadown3 LCDM.Hprop LCDM.Omega_m LCDM.a_num LCDM.fL 0 0 0 0 0 0 t 0 = LCDM.gammadown3_num t x y z ∧
    ICPertFLRW.Kdown3 LCDM.Hprop LCDM.Omega_m LCDM.a_num LCDM.fL 0 0 0 0 0 0 t 0 = LCDM.Kdown3 t x y z := by
  constructor <;> funext i j <;> fin_cases i <;> fin_cases j <;>
    simp [ICPertFLRW.gammadown3, ICPertFLRW.Kdown3, LCDM.gammadown3_num, LCDM.Kdown3,
      ICPertFLRW.gammadown3_00, ICPertFLRW.gammadown3_01, ICPertFLRW.gammadown3_02,
      ICPertFLRW.gammadown3_10, ICPertFLRW.gammadown3_11, ICPertFLRW.gammadown3_12,
      ICPertFLRW.gammadown3_20, ICPertFLRW.gammadown3_21, ICPertFLRW.gammadown3_22,
      ICPertFLRW.Kdown3_00, ICPertFLRW.Kdown3_01, ICPertFLRW.Kdown3_02,
      ICPertFLRW.Kdown3_10, ICPertFLRW.Kdown3_11, ICPertFLRW.Kdown3_12,
      ICPertFLRW.Kdown3_20, ICPertFLRW.Kdown3_21, ICPertFLRW.Kdown3_22,
      LCDM.gammadown3_num_00, LCDM.gammadown3_num_01, LCDM.gammadown3_num_02, LCDM.gammadown3_num_10,
      LCDM.gammadown3_num_11, LCDM.gammadown3_num_12, LCDM.gammadown3_num_20, LCDM.gammadown3_num_21,
      LCDM.gammadown3_num_22, LCDM.Kdown3_00, LCDM.Kdown3_01, LCDM.Kdown3_02, LCDM.Kdown3_10, LCDM.Kdown3_11,
      LCDM.Kdown3_12, LCDM.Kdown3_20, LCDM.Kdown3_21, LCDM.Kdown3_22]

theorem EdS_F (t : ℝ) : EdS.fL t + (3:ℝ) / 2 * EdS.Omega_m t = 5 / 2 := by
  unfold EdS.fL EdS.Omega_m EdS.Omega_m_EdS
  rw [Real.one_rpow]; norm_num

theorem EdS_H_deriv (t : ℝ) (ht : 0 < t) :
    HasDerivAt (fun s => EdS.Hprop s) (-(3:ℝ) / 2 * EdS.Hprop t ^ 2) t := by
  unfold EdS.Hprop
  have := (hasDerivAt_const t (EdS.Hprop_today * EdS.t_today)).div (hasDerivAt_id' t) ht.ne'
  refine this.congr_deriv ?_
  have h0 := EdS_H0_pos
  have htn := ht.ne'
  unfold EdS.t_today EdS.w
  field_simp
  ring

/-- on the EdS background the perturbed metric and extrinsic curvature satisfy `∂_t γ_ij = −2K_ij`
exactly (both are linear in the second derivatives of `Rc`, whatever their values). -/
theorem ICPertFLRW_EdS_K_is_metric_rate (dxx dxy dxz dyy dyz dzz Rc t : ℝ) (ht : 0 < t) (i j : Fin 3) :
    HasDerivAt (fun s => ICPertFLRW.gammadown3 EdS.Hprop EdS.Omega_m EdS.a EdS.fL dxx dxy dxz dyy dyz dzz s Rc i j)
      (-2 * (1:ℝ) * ICPertFLRW.Kdown3 EdS.Hprop EdS.Omega_m EdS.a EdS.fL dxx dxy dxz dyy dyz dzz t Rc i j) t := by
  have ha := EdS_a_deriv t ht
  have hH := EdS_H_deriv t ht
  have hF := EdS_F t
  have hHpos : EdS.Hprop t ≠ 0 := by
    have h0 := EdS_H0_pos
    have htt := EdS_ttoday_pos
    unfold EdS.Hprop; positivity
  set F : ℝ := EdS.fL t + (3:ℝ) / 2 * EdS.Omega_m t with hFdef
  have hFne : F ≠ 0 := by rw [hF]; norm_num
  have hden : HasDerivAt (fun s => F * EdS.Hprop s ^ 2)
      (F * (2 * EdS.Hprop t * (-(3:ℝ) / 2 * EdS.Hprop t ^ 2))) t := by
    refine ((hH.pow 2).const_mul F).congr_deriv ?_
    simp
  have hq : HasDerivAt (fun s => -(2:ℝ) / (F * EdS.Hprop s ^ 2))
      (-2 * ((2 + EdS.fL t) * (1 / (F * EdS.Hprop t)))) t := by
    refine ((hasDerivAt_const t (-(2:ℝ))).div hden (by positivity)).congr_deriv ?_
    have : EdS.fL t = 1 := by unfold EdS.fL EdS.Omega_m EdS.Omega_m_EdS; rw [Real.one_rpow]
    rw [this]
    field_simp
    ring
  have hoff : ∀ d : ℝ, HasDerivAt (fun s => -(2:ℝ) / (F * EdS.Hprop s ^ 2) * d)
      (-2 * (1:ℝ) * ((2 + EdS.fL t) * d * (1 / (F * EdS.Hprop t)))) t := fun d =>
    (hq.mul_const d).congr_deriv (by ring)
  have hdiag : ∀ d : ℝ, HasDerivAt (fun s => EdS.a s ^ 2 * (1 - 2 * Rc) + -(2:ℝ) / (F * EdS.Hprop s ^ 2) * d)
      (-2 * (1:ℝ) * (-(EdS.a t ^ 2) * EdS.Hprop t * (1 - 2 * Rc) + (2 + EdS.fL t) * d * (1 / (F * EdS.Hprop t)))) t :=
    fun d => (((ha.pow 2).mul_const (1 - 2 * Rc)).add (hq.mul_const d)).congr_deriv (by simp; ring)
  fin_cases i <;> fin_cases j
  · exact hdiag dxx
  · exact hoff dxy
  · exact hoff dxz
  · exact hoff dxy
  · exact hdiag dyy
  · exact hoff dyz
  · exact hoff dxz
  · exact hoff dyz
  · exact hdiag dzz


/-! ## T1: numeric branch = symbolic branch (`analytical=False/True`) -/

theorem LCDM_gammadown3_num_eq_sym (t x y z : ℝ) :
    LCDM.gammadown3_num t x y z = LCDM.gammadown3_sym t x y z := by
  funext i j
  fin_cases i <;> fin_cases j <;>
    simp [LCDM.gammadown3_num_00, LCDM.gammadown3_num_01, LCDM.gammadown3_num_02, LCDM.gammadown3_num_10,
      LCDM.gammadown3_num_11, LCDM.gammadown3_num_12, LCDM.gammadown3_num_20, LCDM.gammadown3_num_21,
      LCDM.gammadown3_num_22, LCDM.gammadown3_num, LCDM.gammadown3_sym_00, LCDM.gammadown3_sym_01,
      LCDM.gammadown3_sym_02, LCDM.gammadown3_sym_10, LCDM.gammadown3_sym_11, LCDM.gammadown3_sym_12,
      LCDM.gammadown3_sym_20, LCDM.gammadown3_sym_21, LCDM.gammadown3_sym_22, LCDM.gammadown3_sym,
      LCDM.a_num, LCDM.a_sym] <;> ring

theorem Conformally_flat_gammadown3_num_eq_sym (t x y z : ℝ) :
    Conformally_flat.gammadown3_num t x y z = Conformally_flat.gammadown3_sym t x y z := by
  funext i j
  fin_cases i <;> fin_cases j <;>
    simp [Conformally_flat.gammadown3_num_00, Conformally_flat.gammadown3_num_01,
      Conformally_flat.gammadown3_num_02, Conformally_flat.gammadown3_num_10,
      Conformally_flat.gammadown3_num_11, Conformally_flat.gammadown3_num_12,
      Conformally_flat.gammadown3_num_20, Conformally_flat.gammadown3_num_21,
      Conformally_flat.gammadown3_num_22, Conformally_flat.gammadown3_num,
      Conformally_flat.gammadown3_sym_00, Conformally_flat.gammadown3_sym_01,
      Conformally_flat.gammadown3_sym_02, Conformally_flat.gammadown3_sym_10,
      Conformally_flat.gammadown3_sym_11, Conformally_flat.gammadown3_sym_12,
      Conformally_flat.gammadown3_sym_20, Conformally_flat.gammadown3_sym_21,
      Conformally_flat.gammadown3_sym_22, Conformally_flat.gammadown3_sym] <;> ring

theorem Conformally_flat_gdown4_num_eq_sym (t x y z : ℝ) :
    Conformally_flat.gdown4_num t x y z = Conformally_flat.gdown4_sym t x y z := by
  funext i j
  fin_cases i <;> fin_cases j <;>
    simp [Conformally_flat.gdown4_num_00, Conformally_flat.gdown4_num_01, Conformally_flat.gdown4_num_02,
      Conformally_flat.gdown4_num_03, Conformally_flat.gdown4_num_10, Conformally_flat.gdown4_num_11,
      Conformally_flat.gdown4_num_12, Conformally_flat.gdown4_num_13, Conformally_flat.gdown4_num_20,
      Conformally_flat.gdown4_num_21, Conformally_flat.gdown4_num_22, Conformally_flat.gdown4_num_23,
      Conformally_flat.gdown4_num_30, Conformally_flat.gdown4_num_31, Conformally_flat.gdown4_num_32,
      Conformally_flat.gdown4_num_33, Conformally_flat.gdown4_num, Conformally_flat.gdown4_sym_00,
      Conformally_flat.gdown4_sym_01, Conformally_flat.gdown4_sym_02, Conformally_flat.gdown4_sym_03,
      Conformally_flat.gdown4_sym_10, Conformally_flat.gdown4_sym_11, Conformally_flat.gdown4_sym_12,
      Conformally_flat.gdown4_sym_13, Conformally_flat.gdown4_sym_20, Conformally_flat.gdown4_sym_21,
      Conformally_flat.gdown4_sym_22, Conformally_flat.gdown4_sym_23, Conformally_flat.gdown4_sym_30,
      Conformally_flat.gdown4_sym_31, Conformally_flat.gdown4_sym_32, Conformally_flat.gdown4_sym_33,
      Conformally_flat.gdown4_sym] <;> ring

theorem Schwarzschild_gammadown3_num_eq_sym (t x y z : ℝ) :
    Schwarzschild_isotropic.gammadown3_num t x y z = Schwarzschild_isotropic.gammadown3_sym t x y z := by
  funext i j
  fin_cases i <;> fin_cases j <;>
    simp [Schwarzschild_isotropic.gammadown3_num_00, Schwarzschild_isotropic.gammadown3_num_01,
      Schwarzschild_isotropic.gammadown3_num_02, Schwarzschild_isotropic.gammadown3_num_10,
      Schwarzschild_isotropic.gammadown3_num_11, Schwarzschild_isotropic.gammadown3_num_12,
      Schwarzschild_isotropic.gammadown3_num_20, Schwarzschild_isotropic.gammadown3_num_21,
      Schwarzschild_isotropic.gammadown3_num_22, Schwarzschild_isotropic.gammadown3_num,
      Schwarzschild_isotropic.gammadown3_sym_00, Schwarzschild_isotropic.gammadown3_sym_01,
      Schwarzschild_isotropic.gammadown3_sym_02, Schwarzschild_isotropic.gammadown3_sym_10,
      Schwarzschild_isotropic.gammadown3_sym_11, Schwarzschild_isotropic.gammadown3_sym_12,
      Schwarzschild_isotropic.gammadown3_sym_20, Schwarzschild_isotropic.gammadown3_sym_21,
      Schwarzschild_isotropic.gammadown3_sym_22, Schwarzschild_isotropic.gammadown3_sym] <;> ring

theorem Schwarzschild_gdown4_num_eq_sym (t x y z : ℝ) :
    Schwarzschild_isotropic.gdown4_num t x y z = Schwarzschild_isotropic.gdown4_sym t x y z := by
  funext i j
  fin_cases i <;> fin_cases j <;>
    simp [Schwarzschild_isotropic.gdown4_num_00, Schwarzschild_isotropic.gdown4_num_01,
      Schwarzschild_isotropic.gdown4_num_02, Schwarzschild_isotropic.gdown4_num_03,
      Schwarzschild_isotropic.gdown4_num_10, Schwarzschild_isotropic.gdown4_num_11,
      Schwarzschild_isotropic.gdown4_num_12, Schwarzschild_isotropic.gdown4_num_13,
      Schwarzschild_isotropic.gdown4_num_20, Schwarzschild_isotropic.gdown4_num_21,
      Schwarzschild_isotropic.gdown4_num_22, Schwarzschild_isotropic.gdown4_num_23,
      Schwarzschild_isotropic.gdown4_num_30, Schwarzschild_isotropic.gdown4_num_31,
      Schwarzschild_isotropic.gdown4_num_32, Schwarzschild_isotropic.gdown4_num_33,
      Schwarzschild_isotropic.gdown4_num, Schwarzschild_isotropic.gdown4_sym_00,
      Schwarzschild_isotropic.gdown4_sym_01, Schwarzschild_isotropic.gdown4_sym_02,
      Schwarzschild_isotropic.gdown4_sym_03, Schwarzschild_isotropic.gdown4_sym_10,
      Schwarzschild_isotropic.gdown4_sym_11, Schwarzschild_isotropic.gdown4_sym_12,
      Schwarzschild_isotropic.gdown4_sym_13, Schwarzschild_isotropic.gdown4_sym_20,
      Schwarzschild_isotropic.gdown4_sym_21, Schwarzschild_isotropic.gdown4_sym_22,
      Schwarzschild_isotropic.gdown4_sym_23, Schwarzschild_isotropic.gdown4_sym_30,
      Schwarzschild_isotropic.gdown4_sym_31, Schwarzschild_isotropic.gdown4_sym_32,
      Schwarzschild_isotropic.gdown4_sym_33, Schwarzschild_isotropic.gdown4_sym,
      Schwarzschild_isotropic.gammadown3_num_00, Schwarzschild_isotropic.gammadown3_num_01,
      Schwarzschild_isotropic.gammadown3_num_02, Schwarzschild_isotropic.gammadown3_num_10,
      Schwarzschild_isotropic.gammadown3_num_11, Schwarzschild_isotropic.gammadown3_num_12,
      Schwarzschild_isotropic.gammadown3_num_20, Schwarzschild_isotropic.gammadown3_num_21,
      Schwarzschild_isotropic.gammadown3_num_22, Schwarzschild_isotropic.gammadown3_num,
      Schwarzschild_isotropic.gammadown3_sym_00, Schwarzschild_isotropic.gammadown3_sym_01,
      Schwarzschild_isotropic.gammadown3_sym_02, Schwarzschild_isotropic.gammadown3_sym_10,
      Schwarzschild_isotropic.gammadown3_sym_11, Schwarzschild_isotropic.gammadown3_sym_12,
      Schwarzschild_isotropic.gammadown3_sym_20, Schwarzschild_isotropic.gammadown3_sym_21,
      Schwarzschild_isotropic.gammadown3_sym_22, Schwarzschild_isotropic.gammadown3_sym,
      Schwarzschild_isotropic.alpha_num, Schwarzschild_isotropic.alpha_sym] <;> ring

theorem Harvey_Tsoubelis_gammadown3_num_eq_sym (t x y z : ℝ) :
    Harvey_Tsoubelis.gammadown3_num t x y z = Harvey_Tsoubelis.gammadown3_sym t x y z := by
  funext i j
  fin_cases i <;> fin_cases j <;>
    simp [Harvey_Tsoubelis.gammadown3_num_00, Harvey_Tsoubelis.gammadown3_num_01,
      Harvey_Tsoubelis.gammadown3_num_02, Harvey_Tsoubelis.gammadown3_num_10,
      Harvey_Tsoubelis.gammadown3_num_11, Harvey_Tsoubelis.gammadown3_num_12,
      Harvey_Tsoubelis.gammadown3_num_20, Harvey_Tsoubelis.gammadown3_num_21,
      Harvey_Tsoubelis.gammadown3_num_22, Harvey_Tsoubelis.gammadown3_num,
      Harvey_Tsoubelis.gammadown3_sym_00, Harvey_Tsoubelis.gammadown3_sym_01,
      Harvey_Tsoubelis.gammadown3_sym_02, Harvey_Tsoubelis.gammadown3_sym_10,
      Harvey_Tsoubelis.gammadown3_sym_11, Harvey_Tsoubelis.gammadown3_sym_12,
      Harvey_Tsoubelis.gammadown3_sym_20, Harvey_Tsoubelis.gammadown3_sym_21,
      Harvey_Tsoubelis.gammadown3_sym_22, Harvey_Tsoubelis.gammadown3_sym] <;> ring

theorem Harvey_Tsoubelis_gdown4_num_eq_sym (t x y z : ℝ) :
    Harvey_Tsoubelis.gdown4_num t x y z = Harvey_Tsoubelis.gdown4_sym t x y z := by
  funext i j
  fin_cases i <;> fin_cases j <;>
    simp [Harvey_Tsoubelis.gdown4_num_00, Harvey_Tsoubelis.gdown4_num_01, Harvey_Tsoubelis.gdown4_num_02,
      Harvey_Tsoubelis.gdown4_num_03, Harvey_Tsoubelis.gdown4_num_10, Harvey_Tsoubelis.gdown4_num_11,
      Harvey_Tsoubelis.gdown4_num_12, Harvey_Tsoubelis.gdown4_num_13, Harvey_Tsoubelis.gdown4_num_20,
      Harvey_Tsoubelis.gdown4_num_21, Harvey_Tsoubelis.gdown4_num_22, Harvey_Tsoubelis.gdown4_num_23,
      Harvey_Tsoubelis.gdown4_num_30, Harvey_Tsoubelis.gdown4_num_31, Harvey_Tsoubelis.gdown4_num_32,
      Harvey_Tsoubelis.gdown4_num_33, Harvey_Tsoubelis.gdown4_num, Harvey_Tsoubelis.gdown4_sym_00,
      Harvey_Tsoubelis.gdown4_sym_01, Harvey_Tsoubelis.gdown4_sym_02, Harvey_Tsoubelis.gdown4_sym_03,
      Harvey_Tsoubelis.gdown4_sym_10, Harvey_Tsoubelis.gdown4_sym_11, Harvey_Tsoubelis.gdown4_sym_12,
      Harvey_Tsoubelis.gdown4_sym_13, Harvey_Tsoubelis.gdown4_sym_20, Harvey_Tsoubelis.gdown4_sym_21,
      Harvey_Tsoubelis.gdown4_sym_22, Harvey_Tsoubelis.gdown4_sym_23, Harvey_Tsoubelis.gdown4_sym_30,
      Harvey_Tsoubelis.gdown4_sym_31, Harvey_Tsoubelis.gdown4_sym_32, Harvey_Tsoubelis.gdown4_sym_33,
      Harvey_Tsoubelis.gdown4_sym, Harvey_Tsoubelis.gammadown3_num_00, Harvey_Tsoubelis.gammadown3_num_01,
      Harvey_Tsoubelis.gammadown3_num_02, Harvey_Tsoubelis.gammadown3_num_10,
      Harvey_Tsoubelis.gammadown3_num_11, Harvey_Tsoubelis.gammadown3_num_12,
      Harvey_Tsoubelis.gammadown3_num_20, Harvey_Tsoubelis.gammadown3_num_21,
      Harvey_Tsoubelis.gammadown3_num_22, Harvey_Tsoubelis.gammadown3_num,
      Harvey_Tsoubelis.gammadown3_sym_00, Harvey_Tsoubelis.gammadown3_sym_01,
      Harvey_Tsoubelis.gammadown3_sym_02, Harvey_Tsoubelis.gammadown3_sym_10,
      Harvey_Tsoubelis.gammadown3_sym_11, Harvey_Tsoubelis.gammadown3_sym_12,
      Harvey_Tsoubelis.gammadown3_sym_20, Harvey_Tsoubelis.gammadown3_sym_21,
      Harvey_Tsoubelis.gammadown3_sym_22, Harvey_Tsoubelis.gammadown3_sym] <;> ring

theorem Collins_Stewart_gammadown3_num_eq_sym (t x y z : ℝ) :
    Collins_Stewart.gammadown3_num t x y z = Collins_Stewart.gammadown3_sym t x y z := by
  funext i j
  fin_cases i <;> fin_cases j <;>
    simp [Collins_Stewart.gammadown3_num_00, Collins_Stewart.gammadown3_num_01,
      Collins_Stewart.gammadown3_num_02, Collins_Stewart.gammadown3_num_10,
      Collins_Stewart.gammadown3_num_11, Collins_Stewart.gammadown3_num_12,
      Collins_Stewart.gammadown3_num_20, Collins_Stewart.gammadown3_num_21,
      Collins_Stewart.gammadown3_num_22, Collins_Stewart.gammadown3_num, Collins_Stewart.gammadown3_sym_00,
      Collins_Stewart.gammadown3_sym_01, Collins_Stewart.gammadown3_sym_02,
      Collins_Stewart.gammadown3_sym_10, Collins_Stewart.gammadown3_sym_11,
      Collins_Stewart.gammadown3_sym_12, Collins_Stewart.gammadown3_sym_20,
      Collins_Stewart.gammadown3_sym_21, Collins_Stewart.gammadown3_sym_22, Collins_Stewart.gammadown3_sym] <;> ring

theorem Collins_Stewart_gdown4_num_eq_sym (t x y z : ℝ) :
    Collins_Stewart.gdown4_num t x y z = Collins_Stewart.gdown4_sym t x y z := by
  funext i j
  fin_cases i <;> fin_cases j <;>
    simp [Collins_Stewart.gdown4_num_00, Collins_Stewart.gdown4_num_01, Collins_Stewart.gdown4_num_02,
      Collins_Stewart.gdown4_num_03, Collins_Stewart.gdown4_num_10, Collins_Stewart.gdown4_num_11,
      Collins_Stewart.gdown4_num_12, Collins_Stewart.gdown4_num_13, Collins_Stewart.gdown4_num_20,
      Collins_Stewart.gdown4_num_21, Collins_Stewart.gdown4_num_22, Collins_Stewart.gdown4_num_23,
      Collins_Stewart.gdown4_num_30, Collins_Stewart.gdown4_num_31, Collins_Stewart.gdown4_num_32,
      Collins_Stewart.gdown4_num_33, Collins_Stewart.gdown4_num, Collins_Stewart.gdown4_sym_00,
      Collins_Stewart.gdown4_sym_01, Collins_Stewart.gdown4_sym_02, Collins_Stewart.gdown4_sym_03,
      Collins_Stewart.gdown4_sym_10, Collins_Stewart.gdown4_sym_11, Collins_Stewart.gdown4_sym_12,
      Collins_Stewart.gdown4_sym_13, Collins_Stewart.gdown4_sym_20, Collins_Stewart.gdown4_sym_21,
      Collins_Stewart.gdown4_sym_22, Collins_Stewart.gdown4_sym_23, Collins_Stewart.gdown4_sym_30,
      Collins_Stewart.gdown4_sym_31, Collins_Stewart.gdown4_sym_32, Collins_Stewart.gdown4_sym_33,
      Collins_Stewart.gdown4_sym, Collins_Stewart.gammadown3_num_00, Collins_Stewart.gammadown3_num_01,
      Collins_Stewart.gammadown3_num_02, Collins_Stewart.gammadown3_num_10,
      Collins_Stewart.gammadown3_num_11, Collins_Stewart.gammadown3_num_12,
      Collins_Stewart.gammadown3_num_20, Collins_Stewart.gammadown3_num_21,
      Collins_Stewart.gammadown3_num_22, Collins_Stewart.gammadown3_num, Collins_Stewart.gammadown3_sym_00,
      Collins_Stewart.gammadown3_sym_01, Collins_Stewart.gammadown3_sym_02,
      Collins_Stewart.gammadown3_sym_10, Collins_Stewart.gammadown3_sym_11,
      Collins_Stewart.gammadown3_sym_12, Collins_Stewart.gammadown3_sym_20,
      Collins_Stewart.gammadown3_sym_21, Collins_Stewart.gammadown3_sym_22, Collins_Stewart.gammadown3_sym] <;> ring

theorem Non_diagonal_gammadown3_num_eq_sym (t x y z : ℝ) :
    Non_diagonal.gammadown3_num t x y z = Non_diagonal.gammadown3_sym t x y z := by
  funext i j
  fin_cases i <;> fin_cases j <;>
    simp [Non_diagonal.gammadown3_num_00, Non_diagonal.gammadown3_num_01, Non_diagonal.gammadown3_num_02,
      Non_diagonal.gammadown3_num_10, Non_diagonal.gammadown3_num_11, Non_diagonal.gammadown3_num_12,
      Non_diagonal.gammadown3_num_20, Non_diagonal.gammadown3_num_21, Non_diagonal.gammadown3_num_22,
      Non_diagonal.gammadown3_num, Non_diagonal.gammadown3_sym_00, Non_diagonal.gammadown3_sym_01,
      Non_diagonal.gammadown3_sym_02, Non_diagonal.gammadown3_sym_10, Non_diagonal.gammadown3_sym_11,
      Non_diagonal.gammadown3_sym_12, Non_diagonal.gammadown3_sym_20, Non_diagonal.gammadown3_sym_21,
      Non_diagonal.gammadown3_sym_22, Non_diagonal.gammadown3_sym, Non_diagonal.A_num, Non_diagonal.A_sym] <;> ring

theorem Non_diagonal_gdown4_num_eq_sym (t x y z : ℝ) :
    Non_diagonal.gdown4_num t x y z = Non_diagonal.gdown4_sym t x y z := by
  funext i j
  fin_cases i <;> fin_cases j <;>
    simp [Non_diagonal.gdown4_num_00, Non_diagonal.gdown4_num_01, Non_diagonal.gdown4_num_02,
      Non_diagonal.gdown4_num_03, Non_diagonal.gdown4_num_10, Non_diagonal.gdown4_num_11,
      Non_diagonal.gdown4_num_12, Non_diagonal.gdown4_num_13, Non_diagonal.gdown4_num_20,
      Non_diagonal.gdown4_num_21, Non_diagonal.gdown4_num_22, Non_diagonal.gdown4_num_23,
      Non_diagonal.gdown4_num_30, Non_diagonal.gdown4_num_31, Non_diagonal.gdown4_num_32,
      Non_diagonal.gdown4_num_33, Non_diagonal.gdown4_num, Non_diagonal.gdown4_sym_00,
      Non_diagonal.gdown4_sym_01, Non_diagonal.gdown4_sym_02, Non_diagonal.gdown4_sym_03,
      Non_diagonal.gdown4_sym_10, Non_diagonal.gdown4_sym_11, Non_diagonal.gdown4_sym_12,
      Non_diagonal.gdown4_sym_13, Non_diagonal.gdown4_sym_20, Non_diagonal.gdown4_sym_21,
      Non_diagonal.gdown4_sym_22, Non_diagonal.gdown4_sym_23, Non_diagonal.gdown4_sym_30,
      Non_diagonal.gdown4_sym_31, Non_diagonal.gdown4_sym_32, Non_diagonal.gdown4_sym_33,
      Non_diagonal.gdown4_sym, Non_diagonal.gammadown3_num_00, Non_diagonal.gammadown3_num_01,
      Non_diagonal.gammadown3_num_02, Non_diagonal.gammadown3_num_10, Non_diagonal.gammadown3_num_11,
      Non_diagonal.gammadown3_num_12, Non_diagonal.gammadown3_num_20, Non_diagonal.gammadown3_num_21,
      Non_diagonal.gammadown3_num_22, Non_diagonal.gammadown3_num, Non_diagonal.gammadown3_sym_00,
      Non_diagonal.gammadown3_sym_01, Non_diagonal.gammadown3_sym_02, Non_diagonal.gammadown3_sym_10,
      Non_diagonal.gammadown3_sym_11, Non_diagonal.gammadown3_sym_12, Non_diagonal.gammadown3_sym_20,
      Non_diagonal.gammadown3_sym_21, Non_diagonal.gammadown3_sym_22, Non_diagonal.gammadown3_sym,
      Non_diagonal.A_num, Non_diagonal.A_sym] <;> ring

theorem Rosquist_Jantzen_gammadown3_num_eq_sym (t x y z : ℝ) :
    Rosquist_Jantzen.gammadown3_num t x y z = Rosquist_Jantzen.gammadown3_sym t x y z := by
  funext i j
  fin_cases i <;> fin_cases j <;>
    simp [Rosquist_Jantzen.gammadown3_num_00, Rosquist_Jantzen.gammadown3_num_01,
      Rosquist_Jantzen.gammadown3_num_02, Rosquist_Jantzen.gammadown3_num_10,
      Rosquist_Jantzen.gammadown3_num_11, Rosquist_Jantzen.gammadown3_num_12,
      Rosquist_Jantzen.gammadown3_num_20, Rosquist_Jantzen.gammadown3_num_21,
      Rosquist_Jantzen.gammadown3_num_22, Rosquist_Jantzen.gammadown3_num,
      Rosquist_Jantzen.gammadown3_sym_00, Rosquist_Jantzen.gammadown3_sym_01,
      Rosquist_Jantzen.gammadown3_sym_02, Rosquist_Jantzen.gammadown3_sym_10,
      Rosquist_Jantzen.gammadown3_sym_11, Rosquist_Jantzen.gammadown3_sym_12,
      Rosquist_Jantzen.gammadown3_sym_20, Rosquist_Jantzen.gammadown3_sym_21,
      Rosquist_Jantzen.gammadown3_sym_22, Rosquist_Jantzen.gammadown3_sym] <;> ring

theorem Rosquist_Jantzen_gdown4_num_eq_sym (t x y z : ℝ) :
    Rosquist_Jantzen.gdown4_num t x y z = Rosquist_Jantzen.gdown4_sym t x y z := by
  funext i j
  fin_cases i <;> fin_cases j <;>
    simp [Rosquist_Jantzen.gdown4_num_00, Rosquist_Jantzen.gdown4_num_01, Rosquist_Jantzen.gdown4_num_02,
      Rosquist_Jantzen.gdown4_num_03, Rosquist_Jantzen.gdown4_num_10, Rosquist_Jantzen.gdown4_num_11,
      Rosquist_Jantzen.gdown4_num_12, Rosquist_Jantzen.gdown4_num_13, Rosquist_Jantzen.gdown4_num_20,
      Rosquist_Jantzen.gdown4_num_21, Rosquist_Jantzen.gdown4_num_22, Rosquist_Jantzen.gdown4_num_23,
      Rosquist_Jantzen.gdown4_num_30, Rosquist_Jantzen.gdown4_num_31, Rosquist_Jantzen.gdown4_num_32,
      Rosquist_Jantzen.gdown4_num_33, Rosquist_Jantzen.gdown4_num, Rosquist_Jantzen.gdown4_sym_00,
      Rosquist_Jantzen.gdown4_sym_01, Rosquist_Jantzen.gdown4_sym_02, Rosquist_Jantzen.gdown4_sym_03,
      Rosquist_Jantzen.gdown4_sym_10, Rosquist_Jantzen.gdown4_sym_11, Rosquist_Jantzen.gdown4_sym_12,
      Rosquist_Jantzen.gdown4_sym_13, Rosquist_Jantzen.gdown4_sym_20, Rosquist_Jantzen.gdown4_sym_21,
      Rosquist_Jantzen.gdown4_sym_22, Rosquist_Jantzen.gdown4_sym_23, Rosquist_Jantzen.gdown4_sym_30,
      Rosquist_Jantzen.gdown4_sym_31, Rosquist_Jantzen.gdown4_sym_32, Rosquist_Jantzen.gdown4_sym_33,
      Rosquist_Jantzen.gdown4_sym, Rosquist_Jantzen.gammadown3_num_00, Rosquist_Jantzen.gammadown3_num_01,
      Rosquist_Jantzen.gammadown3_num_02, Rosquist_Jantzen.gammadown3_num_10,
      Rosquist_Jantzen.gammadown3_num_11, Rosquist_Jantzen.gammadown3_num_12,
      Rosquist_Jantzen.gammadown3_num_20, Rosquist_Jantzen.gammadown3_num_21,
      Rosquist_Jantzen.gammadown3_num_22, Rosquist_Jantzen.gammadown3_num,
      Rosquist_Jantzen.gammadown3_sym_00, Rosquist_Jantzen.gammadown3_sym_01,
      Rosquist_Jantzen.gammadown3_sym_02, Rosquist_Jantzen.gammadown3_sym_10,
      Rosquist_Jantzen.gammadown3_sym_11, Rosquist_Jantzen.gammadown3_sym_12,
      Rosquist_Jantzen.gammadown3_sym_20, Rosquist_Jantzen.gammadown3_sym_21,
      Rosquist_Jantzen.gammadown3_sym_22, Rosquist_Jantzen.gammadown3_sym] <;> ring

theorem Szekeres_gammadown3_num_eq_sym (hyp2f1 : ℝ → ℝ → ℝ → ℝ → ℝ) (t x y z : ℝ) :
    Szekeres.gammadown3_num hyp2f1 t x y z = Szekeres.gammadown3_sym hyp2f1 t x y z := by
  funext i j
  fin_cases i <;> fin_cases j <;>
    simp [Szekeres.gammadown3_num_00, Szekeres.gammadown3_num_01, Szekeres.gammadown3_num_02,
      Szekeres.gammadown3_num_10, Szekeres.gammadown3_num_11, Szekeres.gammadown3_num_12,
      Szekeres.gammadown3_num_20, Szekeres.gammadown3_num_21, Szekeres.gammadown3_num_22,
      Szekeres.gammadown3_num, Szekeres.gammadown3_sym_00, Szekeres.gammadown3_sym_01,
      Szekeres.gammadown3_sym_02, Szekeres.gammadown3_sym_10, Szekeres.gammadown3_sym_11,
      Szekeres.gammadown3_sym_12, Szekeres.gammadown3_sym_20, Szekeres.gammadown3_sym_21,
      Szekeres.gammadown3_sym_22, Szekeres.gammadown3_sym, Szekeres.Z_terms_num_F, Szekeres.Z_terms_num_Z,
      Szekeres.Z_terms_num_dtZ, Szekeres.Z_terms_sym_F, Szekeres.Z_terms_sym_Z, Szekeres.Z_terms_sym_dtZ,
      LCDM.gammadown3_num_00, LCDM.gammadown3_num_01, LCDM.gammadown3_num_02, LCDM.gammadown3_num_10,
      LCDM.gammadown3_num_11, LCDM.gammadown3_num_12, LCDM.gammadown3_num_20, LCDM.gammadown3_num_21,
      LCDM.gammadown3_num_22, LCDM.gammadown3_num, LCDM.gammadown3_sym_00, LCDM.gammadown3_sym_01,
      LCDM.gammadown3_sym_02, LCDM.gammadown3_sym_10, LCDM.gammadown3_sym_11, LCDM.gammadown3_sym_12,
      LCDM.gammadown3_sym_20, LCDM.gammadown3_sym_21, LCDM.gammadown3_sym_22, LCDM.gammadown3_sym,
      LCDM.a_num, LCDM.a_sym] <;> ring

theorem Szekeres_gdown4_num_eq_sym (hyp2f1 : ℝ → ℝ → ℝ → ℝ → ℝ) (t x y z : ℝ) :
    Szekeres.gdown4_num hyp2f1 t x y z = Szekeres.gdown4_sym hyp2f1 t x y z := by
  funext i j
  fin_cases i <;> fin_cases j <;>
    simp [Szekeres.gdown4_num_00, Szekeres.gdown4_num_01, Szekeres.gdown4_num_02, Szekeres.gdown4_num_03,
      Szekeres.gdown4_num_10, Szekeres.gdown4_num_11, Szekeres.gdown4_num_12, Szekeres.gdown4_num_13,
      Szekeres.gdown4_num_20, Szekeres.gdown4_num_21, Szekeres.gdown4_num_22, Szekeres.gdown4_num_23,
      Szekeres.gdown4_num_30, Szekeres.gdown4_num_31, Szekeres.gdown4_num_32, Szekeres.gdown4_num_33,
      Szekeres.gdown4_num, Szekeres.gdown4_sym_00, Szekeres.gdown4_sym_01, Szekeres.gdown4_sym_02,
      Szekeres.gdown4_sym_03, Szekeres.gdown4_sym_10, Szekeres.gdown4_sym_11, Szekeres.gdown4_sym_12,
      Szekeres.gdown4_sym_13, Szekeres.gdown4_sym_20, Szekeres.gdown4_sym_21, Szekeres.gdown4_sym_22,
      Szekeres.gdown4_sym_23, Szekeres.gdown4_sym_30, Szekeres.gdown4_sym_31, Szekeres.gdown4_sym_32,
      Szekeres.gdown4_sym_33, Szekeres.gdown4_sym, Szekeres.gammadown3_num_00, Szekeres.gammadown3_num_01,
      Szekeres.gammadown3_num_02, Szekeres.gammadown3_num_10, Szekeres.gammadown3_num_11,
      Szekeres.gammadown3_num_12, Szekeres.gammadown3_num_20, Szekeres.gammadown3_num_21,
      Szekeres.gammadown3_num_22, Szekeres.gammadown3_num, Szekeres.gammadown3_sym_00,
      Szekeres.gammadown3_sym_01, Szekeres.gammadown3_sym_02, Szekeres.gammadown3_sym_10,
      Szekeres.gammadown3_sym_11, Szekeres.gammadown3_sym_12, Szekeres.gammadown3_sym_20,
      Szekeres.gammadown3_sym_21, Szekeres.gammadown3_sym_22, Szekeres.gammadown3_sym,
      Szekeres.Z_terms_num_F, Szekeres.Z_terms_num_Z, Szekeres.Z_terms_num_dtZ, Szekeres.Z_terms_sym_F,
      Szekeres.Z_terms_sym_Z, Szekeres.Z_terms_sym_dtZ, LCDM.gammadown3_num_00, LCDM.gammadown3_num_01,
      LCDM.gammadown3_num_02, LCDM.gammadown3_num_10, LCDM.gammadown3_num_11, LCDM.gammadown3_num_12,
      LCDM.gammadown3_num_20, LCDM.gammadown3_num_21, LCDM.gammadown3_num_22, LCDM.gammadown3_num,
      LCDM.gammadown3_sym_00, LCDM.gammadown3_sym_01, LCDM.gammadown3_sym_02, LCDM.gammadown3_sym_10,
      LCDM.gammadown3_sym_11, LCDM.gammadown3_sym_12, LCDM.gammadown3_sym_20, LCDM.gammadown3_sym_21,
      LCDM.gammadown3_sym_22, LCDM.gammadown3_sym, LCDM.a_num, LCDM.a_sym] <;> ring
theorem LCDM_a_num_eq_sym (t : ℝ) : LCDM.a_num t = LCDM.a_sym t := by
  unfold LCDM.a_num LCDM.a_sym; with_reducible rfl

theorem Schwarzschild_alpha_num_eq_sym (t x y z : ℝ) :
    Schwarzschild_isotropic.alpha_num t x y z = Schwarzschild_isotropic.alpha_sym t x y z := by
  unfold Schwarzschild_isotropic.alpha_num Schwarzschild_isotropic.alpha_sym; with_reducible rfl

theorem Non_diagonal_A_num_eq_sym (z : ℝ) : Non_diagonal.A_num z = Non_diagonal.A_sym z := by
  unfold Non_diagonal.A_num Non_diagonal.A_sym; with_reducible rfl

theorem Szekeres_Z_terms_num_eq_sym (hyp2f1 : ℝ → ℝ → ℝ → ℝ → ℝ) (t x y z : ℝ) :
    Szekeres.Z_terms_num_F hyp2f1 t x y z = Szekeres.Z_terms_sym_F hyp2f1 t x y z ∧
    Szekeres.Z_terms_num_Z hyp2f1 t x y z = Szekeres.Z_terms_sym_Z hyp2f1 t x y z ∧
    Szekeres.Z_terms_num_dtZ hyp2f1 t x y z = Szekeres.Z_terms_sym_dtZ hyp2f1 t x y z := by
  refine ⟨?_, ?_, ?_⟩
  · unfold Szekeres.Z_terms_num_F Szekeres.Z_terms_sym_F; with_reducible rfl
  · unfold Szekeres.Z_terms_num_Z Szekeres.Z_terms_sym_Z; with_reducible rfl
  · unfold Szekeres.Z_terms_num_dtZ Szekeres.Z_terms_sym_dtZ; with_reducible rfl


/-! ## lapse and shift read off the module's own 4-metric -/

/-- the 4-metric of lapse `α`, zero shift and spatial metric `γ`. -/
def fourMetric (α : ℝ) (γ : Fin 3 → Fin 3 → ℝ) : Fin 4 → Fin 4 → ℝ :=
  ![![-(α ^ 2), 0, 0, 0], ![0, γ 0 0, γ 0 1, γ 0 2], ![0, γ 1 0, γ 1 1, γ 1 2], ![0, γ 2 0, γ 2 1, γ 2 2]]

theorem Conformally_flat_gdown4_is_3p1 (t x y z : ℝ) :
    Conformally_flat.gdown4_num t x y z = fourMetric (Conformally_flat.alpha t x y z) (Conformally_flat.gammadown3_num t x y z) := by
  funext i j
  fin_cases i <;> fin_cases j <;>
    simp [fourMetric, Conformally_flat.gdown4_num_00, Conformally_flat.gdown4_num_01,
      Conformally_flat.gdown4_num_02, Conformally_flat.gdown4_num_03, Conformally_flat.gdown4_num_10,
      Conformally_flat.gdown4_num_11, Conformally_flat.gdown4_num_12, Conformally_flat.gdown4_num_13,
      Conformally_flat.gdown4_num_20, Conformally_flat.gdown4_num_21, Conformally_flat.gdown4_num_22,
      Conformally_flat.gdown4_num_23, Conformally_flat.gdown4_num_30, Conformally_flat.gdown4_num_31,
      Conformally_flat.gdown4_num_32, Conformally_flat.gdown4_num_33, Conformally_flat.gdown4_num,
      Conformally_flat.gammadown3_num_00, Conformally_flat.gammadown3_num_01,
      Conformally_flat.gammadown3_num_02, Conformally_flat.gammadown3_num_10,
      Conformally_flat.gammadown3_num_11, Conformally_flat.gammadown3_num_12,
      Conformally_flat.gammadown3_num_20, Conformally_flat.gammadown3_num_21,
      Conformally_flat.gammadown3_num_22, Conformally_flat.gammadown3_num, Conformally_flat.alpha,
      Conformally_flat.Omega]

theorem Schwarzschild_gdown4_is_3p1 (t x y z : ℝ) :
    Schwarzschild_isotropic.gdown4_num t x y z = fourMetric (Schwarzschild_isotropic.alpha_num t x y z) (Schwarzschild_isotropic.gammadown3_num t x y z) := by
  funext i j
  fin_cases i <;> fin_cases j <;>
    simp [fourMetric, Schwarzschild_isotropic.gdown4_num_00, Schwarzschild_isotropic.gdown4_num_01,
      Schwarzschild_isotropic.gdown4_num_02, Schwarzschild_isotropic.gdown4_num_03,
      Schwarzschild_isotropic.gdown4_num_10, Schwarzschild_isotropic.gdown4_num_11,
      Schwarzschild_isotropic.gdown4_num_12, Schwarzschild_isotropic.gdown4_num_13,
      Schwarzschild_isotropic.gdown4_num_20, Schwarzschild_isotropic.gdown4_num_21,
      Schwarzschild_isotropic.gdown4_num_22, Schwarzschild_isotropic.gdown4_num_23,
      Schwarzschild_isotropic.gdown4_num_30, Schwarzschild_isotropic.gdown4_num_31,
      Schwarzschild_isotropic.gdown4_num_32, Schwarzschild_isotropic.gdown4_num_33,
      Schwarzschild_isotropic.gdown4_num, Schwarzschild_isotropic.gammadown3_num_00,
      Schwarzschild_isotropic.gammadown3_num_01, Schwarzschild_isotropic.gammadown3_num_02,
      Schwarzschild_isotropic.gammadown3_num_10, Schwarzschild_isotropic.gammadown3_num_11,
      Schwarzschild_isotropic.gammadown3_num_12, Schwarzschild_isotropic.gammadown3_num_20,
      Schwarzschild_isotropic.gammadown3_num_21, Schwarzschild_isotropic.gammadown3_num_22,
      Schwarzschild_isotropic.gammadown3_num, Schwarzschild_isotropic.alpha_num]

theorem Harvey_Tsoubelis_gdown4_is_3p1 (t x y z : ℝ) :
    Harvey_Tsoubelis.gdown4_num t x y z = fourMetric (Harvey_Tsoubelis.alpha t x y z) (Harvey_Tsoubelis.gammadown3_num t x y z) := by
  funext i j
  fin_cases i <;> fin_cases j <;>
    simp [fourMetric, Harvey_Tsoubelis.gdown4_num_00, Harvey_Tsoubelis.gdown4_num_01,
      Harvey_Tsoubelis.gdown4_num_02, Harvey_Tsoubelis.gdown4_num_03, Harvey_Tsoubelis.gdown4_num_10,
      Harvey_Tsoubelis.gdown4_num_11, Harvey_Tsoubelis.gdown4_num_12, Harvey_Tsoubelis.gdown4_num_13,
      Harvey_Tsoubelis.gdown4_num_20, Harvey_Tsoubelis.gdown4_num_21, Harvey_Tsoubelis.gdown4_num_22,
      Harvey_Tsoubelis.gdown4_num_23, Harvey_Tsoubelis.gdown4_num_30, Harvey_Tsoubelis.gdown4_num_31,
      Harvey_Tsoubelis.gdown4_num_32, Harvey_Tsoubelis.gdown4_num_33, Harvey_Tsoubelis.gdown4_num,
      Harvey_Tsoubelis.gammadown3_num_00, Harvey_Tsoubelis.gammadown3_num_01,
      Harvey_Tsoubelis.gammadown3_num_02, Harvey_Tsoubelis.gammadown3_num_10,
      Harvey_Tsoubelis.gammadown3_num_11, Harvey_Tsoubelis.gammadown3_num_12,
      Harvey_Tsoubelis.gammadown3_num_20, Harvey_Tsoubelis.gammadown3_num_21,
      Harvey_Tsoubelis.gammadown3_num_22, Harvey_Tsoubelis.gammadown3_num, Harvey_Tsoubelis.alpha]

theorem Collins_Stewart_gdown4_is_3p1 (t x y z : ℝ) :
    Collins_Stewart.gdown4_num t x y z = fourMetric (1) (Collins_Stewart.gammadown3_num t x y z) := by
  funext i j
  fin_cases i <;> fin_cases j <;>
    simp [fourMetric, Collins_Stewart.gdown4_num_00, Collins_Stewart.gdown4_num_01,
      Collins_Stewart.gdown4_num_02, Collins_Stewart.gdown4_num_03, Collins_Stewart.gdown4_num_10,
      Collins_Stewart.gdown4_num_11, Collins_Stewart.gdown4_num_12, Collins_Stewart.gdown4_num_13,
      Collins_Stewart.gdown4_num_20, Collins_Stewart.gdown4_num_21, Collins_Stewart.gdown4_num_22,
      Collins_Stewart.gdown4_num_23, Collins_Stewart.gdown4_num_30, Collins_Stewart.gdown4_num_31,
      Collins_Stewart.gdown4_num_32, Collins_Stewart.gdown4_num_33, Collins_Stewart.gdown4_num,
      Collins_Stewart.gammadown3_num_00, Collins_Stewart.gammadown3_num_01,
      Collins_Stewart.gammadown3_num_02, Collins_Stewart.gammadown3_num_10,
      Collins_Stewart.gammadown3_num_11, Collins_Stewart.gammadown3_num_12,
      Collins_Stewart.gammadown3_num_20, Collins_Stewart.gammadown3_num_21,
      Collins_Stewart.gammadown3_num_22, Collins_Stewart.gammadown3_num]

theorem Non_diagonal_gdown4_is_3p1 (t x y z : ℝ) :
    Non_diagonal.gdown4_num t x y z = fourMetric (1) (Non_diagonal.gammadown3_num t x y z) := by
  funext i j
  fin_cases i <;> fin_cases j <;>
    simp [fourMetric, Non_diagonal.gdown4_num_00, Non_diagonal.gdown4_num_01, Non_diagonal.gdown4_num_02,
      Non_diagonal.gdown4_num_03, Non_diagonal.gdown4_num_10, Non_diagonal.gdown4_num_11,
      Non_diagonal.gdown4_num_12, Non_diagonal.gdown4_num_13, Non_diagonal.gdown4_num_20,
      Non_diagonal.gdown4_num_21, Non_diagonal.gdown4_num_22, Non_diagonal.gdown4_num_23,
      Non_diagonal.gdown4_num_30, Non_diagonal.gdown4_num_31, Non_diagonal.gdown4_num_32,
      Non_diagonal.gdown4_num_33, Non_diagonal.gdown4_num, Non_diagonal.gammadown3_num_00,
      Non_diagonal.gammadown3_num_01, Non_diagonal.gammadown3_num_02, Non_diagonal.gammadown3_num_10,
      Non_diagonal.gammadown3_num_11, Non_diagonal.gammadown3_num_12, Non_diagonal.gammadown3_num_20,
      Non_diagonal.gammadown3_num_21, Non_diagonal.gammadown3_num_22, Non_diagonal.gammadown3_num]

theorem Rosquist_Jantzen_gdown4_is_3p1 (t x y z : ℝ) :
    Rosquist_Jantzen.gdown4_num t x y z = fourMetric (1) (Rosquist_Jantzen.gammadown3_num t x y z) := by
  funext i j
  fin_cases i <;> fin_cases j <;>
    simp [fourMetric, Rosquist_Jantzen.gdown4_num_00, Rosquist_Jantzen.gdown4_num_01,
      Rosquist_Jantzen.gdown4_num_02, Rosquist_Jantzen.gdown4_num_03, Rosquist_Jantzen.gdown4_num_10,
      Rosquist_Jantzen.gdown4_num_11, Rosquist_Jantzen.gdown4_num_12, Rosquist_Jantzen.gdown4_num_13,
      Rosquist_Jantzen.gdown4_num_20, Rosquist_Jantzen.gdown4_num_21, Rosquist_Jantzen.gdown4_num_22,
      Rosquist_Jantzen.gdown4_num_23, Rosquist_Jantzen.gdown4_num_30, Rosquist_Jantzen.gdown4_num_31,
      Rosquist_Jantzen.gdown4_num_32, Rosquist_Jantzen.gdown4_num_33, Rosquist_Jantzen.gdown4_num,
      Rosquist_Jantzen.gammadown3_num_00, Rosquist_Jantzen.gammadown3_num_01,
      Rosquist_Jantzen.gammadown3_num_02, Rosquist_Jantzen.gammadown3_num_10,
      Rosquist_Jantzen.gammadown3_num_11, Rosquist_Jantzen.gammadown3_num_12,
      Rosquist_Jantzen.gammadown3_num_20, Rosquist_Jantzen.gammadown3_num_21,
      Rosquist_Jantzen.gammadown3_num_22, Rosquist_Jantzen.gammadown3_num]

theorem Szekeres_gdown4_is_3p1 (hyp2f1 : ℝ → ℝ → ℝ → ℝ → ℝ) (t x y z : ℝ) :
    Szekeres.gdown4_num hyp2f1 t x y z = fourMetric (Szekeres.alpha t x y z) (Szekeres.gammadown3_num hyp2f1 t x y z) := by
  funext i j
  fin_cases i <;> fin_cases j <;>
    simp [fourMetric, Szekeres.gdown4_num_00, Szekeres.gdown4_num_01, Szekeres.gdown4_num_02,
      Szekeres.gdown4_num_03, Szekeres.gdown4_num_10, Szekeres.gdown4_num_11, Szekeres.gdown4_num_12,
      Szekeres.gdown4_num_13, Szekeres.gdown4_num_20, Szekeres.gdown4_num_21, Szekeres.gdown4_num_22,
      Szekeres.gdown4_num_23, Szekeres.gdown4_num_30, Szekeres.gdown4_num_31, Szekeres.gdown4_num_32,
      Szekeres.gdown4_num_33, Szekeres.gdown4_num, Szekeres.gammadown3_num_00, Szekeres.gammadown3_num_01,
      Szekeres.gammadown3_num_02, Szekeres.gammadown3_num_10, Szekeres.gammadown3_num_11,
      Szekeres.gammadown3_num_12, Szekeres.gammadown3_num_20, Szekeres.gammadown3_num_21,
      Szekeres.gammadown3_num_22, Szekeres.gammadown3_num, Szekeres.alpha]

theorem zero_shift (t x y z : ℝ) :
    EdS.betaup3 t x y z = 0 ∧ LCDM.betaup3 t x y z = 0 ∧ Schwarzschild_isotropic.betaup3 t x y z = 0 ∧
    Harvey_Tsoubelis.betaup3 t x y z = 0 ∧ Szekeres.betaup3 t x y z = 0 := by
  refine ⟨?_, ?_, ?_, ?_, ?_⟩ <;> funext i <;> fin_cases i <;>
    simp [EdS.betaup3_0, EdS.betaup3_1, EdS.betaup3_2, EdS.betaup3, LCDM.betaup3_0, LCDM.betaup3_1,
      LCDM.betaup3_2, LCDM.betaup3, Schwarzschild_isotropic.betaup3_0, Schwarzschild_isotropic.betaup3_1,
      Schwarzschild_isotropic.betaup3_2, Schwarzschild_isotropic.betaup3, Harvey_Tsoubelis.betaup3_0,
      Harvey_Tsoubelis.betaup3_1, Harvey_Tsoubelis.betaup3_2, Harvey_Tsoubelis.betaup3, Szekeres.betaup3_0,
      Szekeres.betaup3_1, Szekeres.betaup3_2, Szekeres.betaup3]


end AurelVerif.SolutionsLemmas
