/-
Lemmas/C20Quad.lean — what the DISCRETE inner product of `sYlm_coefficients` on
the grid of `Psi4_lm` is, exactly:

* `gridGram_eq`      gridGram = δ_{mm'} · √(R/π)√(R'/π) · 2π · thetaMid      (all s, l, l';
                     |m − m'| ≤ Nφ): the φ sum is exact, what remains is the θ MIDPOINT
                     sum `thetaMid` of the very integrand whose integral is `thetaInt`.
* `gridGram_defect`  for |s| ≤ 2, l, l' ≤ 12:  gridGram = δ_{ll'}δ_{mm'} + δ_{mm'}·thetaDefect,
                     thetaDefect = √(R/π)√(R'/π)·2π·(thetaMid − thetaInt)  — the only error of
                     the discrete Gram matrix is the θ-midpoint quadrature error.
* `midpoint_sin`     the midpoint rule on `sin(kθ)` in closed form (telescoping sum), and
  `integral_sin_nat` its exact integral: the rule is NOT exact for odd `k`.
* `gridGram_Y00`     ‖₀Y₀₀‖² on the grid = (π/2M)/sin(π/2M) > 1, M = Nθ+1: the hypothesis
                     `DiscreteOrthonormal` of `roundtrip_partial` is false on the code's grid
                     for every resolution.
* `roundtrip_defect` on the concrete index types (modes of `modes lmax`, nodes of the grid):
                     coeffs(recon a)_{lm} = [|s| ≤ l]·a_{lm} + Σ_{l'} thetaDefect(l, m, l')·a_{l'm}.
-/
import Mathlib.Data.Fintype.Sets
import Mathlib.Algebra.BigOperators.Fin
import Mathlib.Analysis.SpecialFunctions.Trigonometric.Bounds
import AurelVerif.Lemmas.C20Ortho
import AurelVerif.Lemmas.C20OrthoTable

namespace AurelVerif.HarmLemmas
open AurelVerif.Harm AurelVerif.HarmGram Complex intervalIntegral
open scoped Real ComplexConjugate

/-! ### the discrete Gram matrix on the code's grid -/

/-- `θ_j` of the grid with `Ntheta = N` -/
noncomputable def thetaPt (N j : Nat) : ℝ := ((thetaNode N j : ℚ) : ℝ) * π

/-- the θ midpoint sum `Σ_j (Σ_r…)(Σ_r'…)(θ_j) · sin θ_j · Δθ` -/
noncomputable def thetaMid (s : Int) (N : Nat) (l m l' : Int) : ℝ :=
  ∑ j ∈ Finset.range (N + 1),
    evalK (harmTerms s l m) (Real.cos (thetaPt N j / 2)) (Real.sin (thetaPt N j / 2))
      * evalK (harmTerms s l' m) (Real.cos (thetaPt N j / 2)) (Real.sin (thetaPt N j / 2))
      * (Real.sin (thetaPt N j) * (((dTheta N : ℚ) : ℝ) * π))

/-- normalisations × 2π × θ midpoint sum -/
noncomputable def gridR (s : Int) (N : Nat) (l m l' : Int) : ℝ :=
  Real.sqrt (((normRadicand s l m : ℚ) : ℝ) / π) * Real.sqrt (((normRadicand s l' m : ℚ) : ℝ) / π)
    * (2 * π) * thetaMid s N l m l'

/-- for ALL `s, l, l'` and `|m − m'| ≤ Nφ`: the φ sum of the code's grid is exact
(`2π δ_{mm'}`), what remains is the real θ midpoint sum. -/
theorem gridGram_eq (s : Int) (N : Nat) (l m l' m' : Int) (hd : |m' - m| ≤ ((nPhi N : Nat) : Int)) :
    gridGram s N l m l' m' = if m = m' then ((gridR s N l m l' : ℝ) : ℂ) else 0 := by
  by_cases hmm : m = m'
  swap
  · rw [if_neg hmm]; exact gridGram_offdiag s N l m l' m' hmm hd
  subst hmm
  rw [if_pos rfl]
  have key := phi_orthogonal (nPhi N) m m (by simp)
  rw [if_pos rfl] at key
  have hj : ∀ j : ℕ, (∑ k ∈ Finset.range (nPhi N + 1),
      conj (sYlmC s l m (((thetaNode N j : ℚ) : ℝ) * π) (((phiNode (nPhi N) k : ℚ) : ℝ) * π))
        * sYlmC s l' m (((thetaNode N j : ℚ) : ℝ) * π) (((phiNode (nPhi N) k : ℚ) : ℝ) * π)
        * (((Real.sin (((thetaNode N j : ℚ) : ℝ) * π) * (((dTheta N : ℚ) : ℝ) * π) : ℝ) : ℂ)
            * (((dPhi (nPhi N) : ℚ) : ℂ) * π)))
      = ((Real.sqrt (((normRadicand s l m : ℚ) : ℝ) / π) : ℝ) : ℂ)
        * ((evalK (harmTerms s l m) (Real.cos (((thetaNode N j : ℚ) : ℝ) * π / 2))
            (Real.sin (((thetaNode N j : ℚ) : ℝ) * π / 2)) : ℝ) : ℂ)
        * ((Real.sqrt (((normRadicand s l' m : ℚ) : ℝ) / π) : ℝ) : ℂ)
        * ((evalK (harmTerms s l' m) (Real.cos (((thetaNode N j : ℚ) : ℝ) * π / 2))
            (Real.sin (((thetaNode N j : ℚ) : ℝ) * π / 2)) : ℝ) : ℂ)
        * ((Real.sin (((thetaNode N j : ℚ) : ℝ) * π) * (((dTheta N : ℚ) : ℝ) * π) : ℝ) : ℂ)
        * (2 * (π : ℂ)) := by
    intro j
    unfold sYlmC
    set A : ℂ := ((Real.sqrt (((normRadicand s l m : ℚ) : ℝ) / π) : ℝ) : ℂ)
    set A' : ℂ := ((Real.sqrt (((normRadicand s l' m : ℚ) : ℝ) / π) : ℝ) : ℂ)
    set B : ℂ := ((evalK (harmTerms s l m) (Real.cos (((thetaNode N j : ℚ) : ℝ) * π / 2))
        (Real.sin (((thetaNode N j : ℚ) : ℝ) * π / 2)) : ℝ) : ℂ)
    set B' : ℂ := ((evalK (harmTerms s l' m) (Real.cos (((thetaNode N j : ℚ) : ℝ) * π / 2))
        (Real.sin (((thetaNode N j : ℚ) : ℝ) * π / 2)) : ℝ) : ℂ)
    set W : ℂ := ((Real.sin (((thetaNode N j : ℚ) : ℝ) * π) * (((dTheta N : ℚ) : ℝ) * π) : ℝ) : ℂ)
    have hA : conj A = A := conj_ofReal _
    have hB : conj B = B := conj_ofReal _
    have hterm : ∀ k : ℕ,
        conj (A * B * exp (I * (m : ℂ) * ((((phiNode (nPhi N) k : ℚ) : ℝ) * π : ℝ) : ℂ)))
          * (A' * B' * exp (I * (m : ℂ) * ((((phiNode (nPhi N) k : ℚ) : ℝ) * π : ℝ) : ℂ)))
          * (W * (((dPhi (nPhi N) : ℚ) : ℂ) * π))
        = (A * B * A' * B' * W) *
          (conj (exp (I * (m : ℂ) * (((phiNode (nPhi N) k : ℚ) : ℂ) * π)))
            * exp (I * (m : ℂ) * (((phiNode (nPhi N) k : ℚ) : ℂ) * π)) * (((dPhi (nPhi N) : ℚ) : ℂ) * π)) := by
      intro k
      rw [map_mul, map_mul, hA, hB]
      push_cast
      ring
    simp only [hterm]
    rw [← Finset.mul_sum, key]
  unfold gridGram
  simp only [hj]
  unfold gridR thetaMid thetaPt
  push_cast
  rw [Finset.mul_sum]
  apply Finset.sum_congr rfl
  intro j _
  ring

/-- the θ-midpoint quadrature error of the pair `(s,l,m)`, `(s,l',m)`, with the
normalisations: `√(R/π)√(R'/π) · 2π · (midpoint sum − integral)`. -/
noncomputable def thetaDefect (s : Int) (N : Nat) (l m l' : Int) : ℝ :=
  Real.sqrt (((normRadicand s l m : ℚ) : ℝ) / π) * Real.sqrt (((normRadicand s l' m : ℚ) : ℝ) / π)
    * (2 * π) * (thetaMid s N l m l' - thetaInt s l m l')

theorem gridR_eq (s : Int) (N : Nat) (l m l' : Int) :
    gridR s N l m l' = gramR s l m l' + thetaDefect s N l m l' := by
  unfold gridR gramR thetaDefect; ring

/-- discrete Gram matrix = continuous Gram matrix + θ-midpoint error (all `s, l, l'`). -/
theorem gridGram_eq_contGram_add (s : Int) (N : Nat) (l m l' m' : Int)
    (hd : |m' - m| ≤ ((nPhi N : Nat) : Int)) :
    gridGram s N l m l' m'
      = contGram s l m l' m' + if m = m' then ((thetaDefect s N l m l' : ℝ) : ℂ) else 0 := by
  rw [gridGram_eq s N l m l' m' hd, contGram_eq]
  by_cases hmm : m = m'
  · simp only [if_pos hmm, gridR_eq]; push_cast; ring
  · simp only [if_neg hmm]; ring

/-- with the orthonormality table (`|s| ≤ 2`, `l, l' ≤ 12`): the discrete Gram
matrix is the identity (on admissible modes) plus the θ-midpoint error. -/
theorem gridGram_defect (s : Int) (N : Nat) (l m l' m' : Int) (hs : |s| ≤ 2)
    (hlL : l ≤ (tableL : Int)) (hl'L : l' ≤ (tableL : Int)) (hd : |m' - m| ≤ ((nPhi N : Nat) : Int)) :
    gridGram s N l m l' m'
      = (if l = l' ∧ m = m' ∧ |s| ≤ l ∧ |m| ≤ l then 1 else 0)
        + if m = m' then ((thetaDefect s N l m l' : ℝ) : ℂ) else 0 := by
  rw [gridGram_eq_contGram_add s N l m l' m' hd, contGram_of_table tableOK_12 s l m l' m' hs hlL hl'L]

/-! ### the midpoint rule on `sin(kθ)` -/

/-- telescoping: `2 sin(x/2) · Σ_{j<M} sin((j+½)x) = 1 − cos(Mx)` -/
theorem two_sin_half_mul_sum (M : ℕ) (x : ℝ) :
    2 * Real.sin (x / 2) * ∑ j ∈ Finset.range M, Real.sin (((j : ℝ) + 1 / 2) * x)
      = 1 - Real.cos ((M : ℝ) * x) := by
  have ht : ∀ j : ℕ, 2 * Real.sin (x / 2) * Real.sin (((j : ℝ) + 1 / 2) * x)
      = Real.cos ((j : ℝ) * x) - Real.cos (((j + 1 : ℕ) : ℝ) * x) := by
    intro j
    rw [Real.cos_sub_cos]
    have e1 : ((j : ℝ) * x + ((j + 1 : ℕ) : ℝ) * x) / 2 = ((j : ℝ) + 1 / 2) * x := by push_cast; ring
    have e2 : ((j : ℝ) * x - ((j + 1 : ℕ) : ℝ) * x) / 2 = -(x / 2) := by push_cast; ring
    rw [e1, e2, Real.sin_neg]; ring
  rw [Finset.mul_sum]
  simp only [ht]
  rw [Finset.sum_range_sub' (fun j : ℕ => Real.cos ((j : ℝ) * x))]
  simp

/-- the midpoint rule with `M` nodes `θ_j = (j+½)π/M`, weight `π/M`, applied to
`sin(kθ)`, in closed form (for `sin(kπ/2M) ≠ 0`, e.g. `0 < k < 2M`). -/
theorem midpoint_sin (M k : ℕ) (hM : 0 < M) (hk : Real.sin ((k : ℝ) * π / (2 * M)) ≠ 0) :
    ∑ j ∈ Finset.range M, Real.sin ((k : ℝ) * (((j : ℝ) + 1 / 2) * π / M)) * (π / M)
      = (1 - Real.cos ((k : ℝ) * π)) / (2 * Real.sin ((k : ℝ) * π / (2 * M))) * (π / M) := by
  have hM' : (M : ℝ) ≠ 0 := by positivity
  rw [← Finset.sum_mul]
  congr 1
  have key := two_sin_half_mul_sum M ((k : ℝ) * π / M)
  have e1 : (k : ℝ) * π / M / 2 = (k : ℝ) * π / (2 * M) := by field_simp
  have e2 : (M : ℝ) * ((k : ℝ) * π / M) = (k : ℝ) * π := by field_simp
  rw [e1, e2] at key
  have e3 : ∀ j : ℕ, (k : ℝ) * (((j : ℝ) + 1 / 2) * π / M) = ((j : ℝ) + 1 / 2) * ((k : ℝ) * π / M) := by
    intro j; ring
  simp only [e3]
  rw [eq_div_iff (mul_ne_zero two_ne_zero hk)]
  linarith [key]

/-- `∫_0^π sin(kθ) dθ = (1 − cos kπ)/k` for `k ≥ 1` (`2/k` for odd `k`, `0` for even `k`). -/
theorem integral_sin_nat (k : ℕ) (hk : 0 < k) :
    ∫ θ in (0 : ℝ)..π, Real.sin ((k : ℝ) * θ) = (1 - Real.cos ((k : ℝ) * π)) / k := by
  have hk' : (k : ℝ) ≠ 0 := by positivity
  have hd : ∀ θ ∈ Set.uIcc (0 : ℝ) π,
      HasDerivAt (fun t : ℝ => -Real.cos ((k : ℝ) * t) / k) (Real.sin ((k : ℝ) * θ)) θ := by
    intro θ _
    have h := ((((hasDerivAt_id' θ).const_mul (k : ℝ)).cos).neg).div_const (k : ℝ)
    refine h.congr_deriv ?_
    field_simp
  have hc : Continuous fun θ : ℝ => Real.sin ((k : ℝ) * θ) := by fun_prop
  rw [integral_eq_sub_of_hasDerivAt hd (hc.intervalIntegrable 0 π)]
  simp only [mul_zero, Real.cos_zero]
  field_simp
  ring

/-- for `0 < u < π`: `u / sin u > 1` — the relative excess of the midpoint rule on
`sin(kθ)`, `u = kπ/(2M)`, is `u/sin u − 1 > 0`. -/
theorem one_lt_div_sin (u : ℝ) (h0 : 0 < u) (h1 : u < π) : 1 < u / Real.sin u := by
  have hs : 0 < Real.sin u := Real.sin_pos_of_pos_of_lt_pi h0 h1
  rw [lt_div_iff₀ hs, one_mul]
  exact Real.sin_lt h0

/-! ### the discrete norm of `₀Y₀₀`: not 1 at any resolution -/

theorem thetaPt_eq (N j : Nat) : thetaPt N j = ((j : ℝ) + 1 / 2) * π / ((N + 1 : ℕ) : ℝ) := by
  unfold thetaPt thetaNode
  push_cast
  ring

theorem gridR_Y00 (N : Nat) :
    gridR 0 N 0 0 0 = (π / (2 * ((N + 1 : ℕ) : ℝ))) / Real.sin (π / (2 * ((N + 1 : ℕ) : ℝ))) := by
  have hM : (0 : ℝ) < ((N + 1 : ℕ) : ℝ) := by positivity
  have hM' : ((N + 1 : ℕ) : ℝ) ≠ 0 := ne_of_gt hM
  have hu0 : 0 < π / (2 * ((N + 1 : ℕ) : ℝ)) := by positivity
  have hu1 : π / (2 * ((N + 1 : ℕ) : ℝ)) < π := by
    rw [div_lt_iff₀ (by positivity)]
    have : (1 : ℝ) ≤ ((N + 1 : ℕ) : ℝ) := by exact_mod_cast Nat.succ_le_succ (Nat.zero_le N)
    nlinarith [Real.pi_pos]
  have hs : Real.sin (π / (2 * ((N + 1 : ℕ) : ℝ))) ≠ 0 :=
    ne_of_gt (Real.sin_pos_of_pos_of_lt_pi hu0 hu1)
  have hT : harmTerms 0 0 0 = [⟨1, 0, 0⟩] := by decide +kernel
  have hR : normRadicand 0 0 0 = 1 / 4 := by decide +kernel
  unfold gridR thetaMid
  rw [hT, hR]
  have hE : ∀ c sn : ℝ, evalK [(⟨1, 0, 0⟩ : Term)] c sn = 1 := by
    intro c sn; simp [evalK]
  simp only [hE, one_mul]
  have hdt : (((dTheta N : ℚ) : ℝ) * π) = π / ((N + 1 : ℕ) : ℝ) := by
    rw [dTheta_eq]; push_cast; ring
  have hsum : ∑ j ∈ Finset.range (N + 1), Real.sin (thetaPt N j) * (((dTheta N : ℚ) : ℝ) * π)
      = (1 - Real.cos (((1 : ℕ) : ℝ) * π)) / (2 * Real.sin (((1 : ℕ) : ℝ) * π / (2 * ((N + 1 : ℕ) : ℝ))))
        * (π / ((N + 1 : ℕ) : ℝ)) := by
    rw [← midpoint_sin (N + 1) 1 (Nat.succ_pos N) (by simpa using hs)]
    apply Finset.sum_congr rfl
    intro j _
    rw [hdt, thetaPt_eq]
    push_cast
    ring_nf
  rw [hsum]
  have hA : Real.sqrt ((((1 / 4 : ℚ) : ℚ) : ℝ) / π) * Real.sqrt ((((1 / 4 : ℚ) : ℚ) : ℝ) / π)
      = 1 / (4 * π) := by
    rw [Real.mul_self_sqrt (by positivity)]
    push_cast
    field_simp
  rw [hA]
  simp only [Nat.cast_one, one_mul, Real.cos_pi]
  have hpi : (π : ℝ) ≠ 0 := Real.pi_ne_zero
  field_simp
  ring

/-- on the grid of `Psi4_lm` the discrete squared norm of `₀Y₀₀` is
`(π/2M)/sin(π/2M)`, `M = Ntheta + 1`, which is `> 1` for EVERY resolution. -/
theorem gridGram_Y00 (N : Nat) :
    gridGram 0 N 0 0 0 0
        = (((π / (2 * ((N + 1 : ℕ) : ℝ))) / Real.sin (π / (2 * ((N + 1 : ℕ) : ℝ))) : ℝ) : ℂ)
      ∧ 1 < (π / (2 * ((N + 1 : ℕ) : ℝ))) / Real.sin (π / (2 * ((N + 1 : ℕ) : ℝ))) := by
  constructor
  · rw [gridGram_eq 0 N 0 0 0 0 (by simp), if_pos rfl, gridR_Y00]
  · apply one_lt_div_sin
    · positivity
    · rw [div_lt_iff₀ (by positivity)]
      have : (1 : ℝ) ≤ ((N + 1 : ℕ) : ℝ) := by exact_mod_cast Nat.succ_le_succ (Nat.zero_le N)
      nlinarith [Real.pi_pos]

theorem gridGram_Y00_ne_one (N : Nat) : gridGram 0 N 0 0 0 0 ≠ 1 := by
  obtain ⟨h1, h2⟩ := gridGram_Y00 N
  rw [h1]
  intro h
  have : ((π / (2 * ((N + 1 : ℕ) : ℝ))) / Real.sin (π / (2 * ((N + 1 : ℕ) : ℝ))) : ℝ) = 1 := by
    exact_mod_cast h
  linarith

/-! ### the round trip on the concrete index types -/

theorem mem_modes (lmax : Nat) (l m : Int) :
    (l, m) ∈ modes lmax ↔ (0 ≤ l ∧ l ≤ (lmax : Int)) ∧ |m| ≤ l := by
  unfold modes
  simp only [List.mem_flatMap, List.mem_map, Prod.mk.injEq]
  constructor
  · rintro ⟨l0, hl0, m0, hm0, rfl, rfl⟩
    rw [mem_pyRange] at hl0 hm0
    refine ⟨by omega, abs_le.mpr (by omega)⟩
  · rintro ⟨h1, h2⟩
    have h2' := abs_le.mp h2
    exact ⟨l, (mem_pyRange _ _ _).mpr (by omega), m, (mem_pyRange _ _ _).mpr (by omega), rfl, rfl⟩

/-- the keys of the coefficient dictionary -/
abbrev ModeIdx (lmax : Nat) : Type := { p : Int × Int // p ∈ modes lmax }
/-- the nodes of the angular grid with `Ntheta = N` -/
abbrev GridIdx (N : Nat) : Type := Fin (N + 1) × Fin (nPhi N + 1)

/-- the harmonics on the grid, as `sYlm_coefficients` / `sYlm_reconstruct` see them -/
noncomputable def gridY (s : Int) (lmax N : Nat) : ModeIdx lmax → GridIdx N → ℂ :=
  fun i p => sYlmC s i.1.1 i.1.2 (((thetaNode N p.1 : ℚ) : ℝ) * π) (((phiNode (nPhi N) p.2 : ℚ) : ℝ) * π)

/-- `dtheta_weight · dphi` of `Psi4_lm` -/
noncomputable def gridW (N : Nat) : GridIdx N → ℂ :=
  fun p => ((Real.sin (((thetaNode N p.1 : ℚ) : ℝ) * π) * (((dTheta N : ℚ) : ℝ) * π) : ℝ) : ℂ)
    * (((dPhi (nPhi N) : ℚ) : ℂ) * π)

theorem gram_gridY (s : Int) (lmax N : Nat) (i j : ModeIdx lmax) :
    gram (gridY s lmax N) (gridW N) i j = gridGram s N i.1.1 i.1.2 j.1.1 j.1.2 := by
  unfold gram gridGram gridY gridW
  rw [Fintype.sum_prod_type]
  rw [← Fin.sum_univ_eq_sum_range (fun j' => ∑ k ∈ Finset.range (nPhi N + 1),
    conj (sYlmC s i.1.1 i.1.2 (((thetaNode N j' : ℚ) : ℝ) * π) (((phiNode (nPhi N) k : ℚ) : ℝ) * π))
      * sYlmC s j.1.1 j.1.2 (((thetaNode N j' : ℚ) : ℝ) * π) (((phiNode (nPhi N) k : ℚ) : ℝ) * π)
      * (((Real.sin (((thetaNode N j' : ℚ) : ℝ) * π) * (((dTheta N : ℚ) : ℝ) * π) : ℝ) : ℂ)
          * (((dPhi (nPhi N) : ℚ) : ℂ) * π))) (N + 1)]
  apply Finset.sum_congr rfl
  intro a _
  rw [← Fin.sum_univ_eq_sum_range (fun k =>
    conj (sYlmC s i.1.1 i.1.2 (((thetaNode N a : ℚ) : ℝ) * π) (((phiNode (nPhi N) k : ℚ) : ℝ) * π))
      * sYlmC s j.1.1 j.1.2 (((thetaNode N a : ℚ) : ℝ) * π) (((phiNode (nPhi N) k : ℚ) : ℝ) * π)
      * (((Real.sin (((thetaNode N a : ℚ) : ℝ) * π) * (((dTheta N : ℚ) : ℝ) * π) : ℝ) : ℂ)
          * (((dPhi (nPhi N) : ℚ) : ℂ) * π))) (nPhi N + 1)]

/-- **round trip = identity + θ-midpoint defect.**  For `|s| ≤ 2`, `lmax ≤ 12`,
`lmax ≤ Ntheta` (the code takes `Ntheta ≥ lmax + 1`): decomposing the synthesis of
the coefficients `a` on the grid of `Psi4_lm` returns, for the key `(l, m)`,
`a_{lm}` (or `0` if `l < |s|`: that harmonic is identically zero) plus the
θ-midpoint quadrature errors of the pairs `(l, m), (l', m)` applied to `a_{l'm}` —
only coefficients of the SAME `m` mix, and nothing else contributes. -/
theorem roundtrip_defect (s : Int) (lmax N : Nat) (hs : |s| ≤ 2) (hL : lmax ≤ tableL) (hN : lmax ≤ N)
    (a : ModeIdx lmax → ℂ) (i : ModeIdx lmax) :
    coeffs (gridY s lmax N) (gridW N) (recon (gridY s lmax N) a) i
      = (if |s| ≤ i.1.1 then a i else 0)
        + ∑ j, (if i.1.2 = j.1.2 then ((thetaDefect s N i.1.1 i.1.2 j.1.1 : ℝ) : ℂ) else 0) * a j := by
  rw [coeffs_recon]
  have hi := (mem_modes lmax i.1.1 i.1.2).mp (by simpa using i.2)
  have hgram : ∀ j : ModeIdx lmax, gram (gridY s lmax N) (gridW N) i j
      = (if i = j then (if |s| ≤ i.1.1 then 1 else 0) else 0)
        + (if i.1.2 = j.1.2 then ((thetaDefect s N i.1.1 i.1.2 j.1.1 : ℝ) : ℂ) else 0) := by
    intro j
    have hj := (mem_modes lmax j.1.1 j.1.2).mp (by simpa using j.2)
    have hd : |j.1.2 - i.1.2| ≤ ((nPhi N : Nat) : Int) := by
      have h1 := abs_le.mp hi.2
      have h2 := abs_le.mp hj.2
      unfold nPhi
      rw [abs_le]; push_cast; constructor <;> omega
    have hLi : i.1.1 ≤ (tableL : Int) := by have : (lmax : Int) ≤ (tableL : Int) := by exact_mod_cast hL
                                            omega
    have hLj : j.1.1 ≤ (tableL : Int) := by have : (lmax : Int) ≤ (tableL : Int) := by exact_mod_cast hL
                                            omega
    rw [gram_gridY, gridGram_defect s N _ _ _ _ hs hLi hLj hd]
    congr 1
    by_cases hij : i = j
    · subst hij
      rw [if_pos rfl]
      by_cases hsl : |s| ≤ i.1.1
      · rw [if_pos ⟨rfl, rfl, hsl, hi.2⟩, if_pos hsl]
      · rw [if_neg (fun h => hsl h.2.2.1), if_neg hsl]
    · rw [if_neg hij, if_neg]
      rintro ⟨h1, h2, _⟩
      exact hij (Subtype.ext (Prod.ext h1 h2))
  simp only [hgram, add_mul, Finset.sum_add_distrib]
  congr 1
  simp [Finset.sum_ite_eq]

/-- hence: if the θ rule were exact on the products of the band (`thetaDefect = 0`
for all pairs with equal `m`), decomposition would invert synthesis exactly (on
the modes `l ≥ |s|`; the others carry the zero function).  The hypothesis of
`roundtrip_partial` is reduced to a statement about the θ rule alone. -/
theorem roundtrip_of_theta_exact (s : Int) (lmax N : Nat) (hs : |s| ≤ 2) (hL : lmax ≤ tableL) (hN : lmax ≤ N)
    (hθ : ∀ i j : ModeIdx lmax, i.1.2 = j.1.2 → thetaMid s N i.1.1 i.1.2 j.1.1 = thetaInt s i.1.1 i.1.2 j.1.1)
    (a : ModeIdx lmax → ℂ) (i : ModeIdx lmax) :
    coeffs (gridY s lmax N) (gridW N) (recon (gridY s lmax N) a) i = if |s| ≤ i.1.1 then a i else 0 := by
  rw [roundtrip_defect s lmax N hs hL hN a i]
  have : ∀ j : ModeIdx lmax,
      (if i.1.2 = j.1.2 then ((thetaDefect s N i.1.1 i.1.2 j.1.1 : ℝ) : ℂ) else 0) * a j = 0 := by
    intro j
    by_cases h : i.1.2 = j.1.2
    · rw [if_pos h]; unfold thetaDefect; rw [hθ i j h]; simp
    · rw [if_neg h]; simp
  simp [this]

end AurelVerif.HarmLemmas
