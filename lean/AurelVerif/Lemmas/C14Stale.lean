/-
Lemmas/C14Stale.lean — C14, successive calls WITHOUT the feedback hypothesis:
what a later call can and cannot change.  Once a call has computed something
(its result is sorted), every later call returns a table that contains every
column of that result UNCHANGED: a column is never recomputed.  So when a later
call defines a custom variable that a column computed earlier would have read
(a custom `press` after the built-in `press_n`), the earlier column keeps the
value computed without it — the single call computes it with it.  Core Lean only.
-/
import AurelVerif.Lemmas.Table

namespace AurelVerif.Table
variable {C : Type}

/-- a well-formed table whose rows are in sorted order -/
structure SortedWF (E : Env C) (T : Table C) (n : Nat) (tk : Name) : Prop where
  wf : WF T n
  tkey : temporalKey T = some tk
  sorted : sortP E tk (rowsOf T n) = rowsOf T n

/-- one call on a sorted table keeps every column as it is -/
theorem call_keeps_columns (E : Env C) {T : Table C} {n : Nat} {tk : Name} (hn : 0 < n)
    (hsw : StrictWeak E.lt) (hT : SortedWF E T n tk) (v e : List Req)
    (hnt : ∀ x ∈ reqKeys v, x ∉ temporalNames) :
    ∃ T', overTime E T v e = .ok T' ∧ SortedWF E T' n tk ∧
      ∀ k col, get? k T = some col → get? k T' = some col := by
  by_cases hp : Processes E T v e
  · have hnt' : ∀ x ∈ (cleanVars E T v).map CReq.key, x ∉ temporalNames :=
      fun x hx => hnt x (((cleanVars_sublist E T v).map CReq.key).subset hx)
    obtain ⟨hwf1, htk1, hrows1, hsort1, _⟩ := call_result E hT.wf hn hT.tkey hsw v e hnt'
    refine ⟨_, overTime_processes E hT.wf hn hT.tkey hp, ⟨hwf1, htk1, by rw [hrows1]; exact hsort1⟩, ?_⟩
    intro k col hk
    have hkt : k ∈ keys T := mem_keys_of_get? hk
    obtain ⟨r0, rest, hL⟩ : ∃ r0 rest, sortP E tk (rowsOf T n) = r0 :: rest := by
      cases hs : sortP E tk (rowsOf T n) with
      | nil => exact absurd hs (sorted_ne_nil E hT.wf hn hT.tkey)
      | cons a b => exact ⟨a, b, rfl⟩
    have hr0 : r0 ∈ sortP E tk (rowsOf T n) := by rw [hL]; simp
    have hhead : ((sortP E tk (rowsOf T n)).map (callF E T v e)).head? = some (callF E T v e r0) := by
      rw [hL]; rfl
    rw [get?_colsOf hhead, if_pos, colOf_map_congr, hT.sorted, colOf_rowsOf hT.wf hk]
    · intro r hr
      exact get?_stepRow_input E _ _ (keys_of_mem_sorted E hT.wf hT.tkey hr) hkt
    · exact subset_keys_stepRow E _ _ _ r0 (by rw [keys_of_mem_sorted E hT.wf hT.tkey hr0]; exact hkt)
  · exact ⟨T, overTime_nothing_new E hT.wf hn hT.tkey hp, hT, fun _ _ h => h⟩

/-- any number of calls on a sorted table keeps every column as it is -/
theorem runCalls_keeps_columns (E : Env C) {n : Nat} {tk : Name} (hn : 0 < n) (hsw : StrictWeak E.lt)
    (calls : List (List Req × List Req)) (hnt : ∀ c ∈ calls, ∀ x ∈ reqKeys c.1, x ∉ temporalNames)
    {T : Table C} (hT : SortedWF E T n tk) :
    ∃ out, runCalls E T calls = .ok out ∧ SortedWF E out n tk ∧
      ∀ k col, get? k T = some col → get? k out = some col := by
  induction calls generalizing T with
  | nil => exact ⟨T, rfl, hT, fun _ _ h => h⟩
  | cons c cs ih =>
    obtain ⟨T1, h1, hT1, hk1⟩ := call_keeps_columns E hn hsw hT c.1 c.2 (hnt c (by simp))
    obtain ⟨out, h2, hT2, hk2⟩ := ih (fun c' hc' => hnt c' (by simp [hc'])) hT1
    refine ⟨out, ?_, hT2, fun k col h => hk2 k col (hk1 k col h)⟩
    rw [runCalls_cons, h1, andThen_ok, h2]

/-- **columns are never recomputed.**  `t` any table (any row order), `c` a call that
computes something, `rest` any later calls: the final table contains every column of
the table `T1` returned by `c`, cell by cell — whatever the later calls request. -/
theorem later_calls_keep_columns_lemma (E : Env C) {t : Table C} {n : Nat} {tk : Name} (hwf : WF t n)
    (hn : 0 < n) (htk : temporalKey t = some tk) (hsw : StrictWeak E.lt)
    (c : List Req × List Req) (rest : List (List Req × List Req)) (hp : Processes E t c.1 c.2)
    (hnt : ∀ c' ∈ c :: rest, ∀ x ∈ reqKeys c'.1, x ∉ temporalNames) :
    ∃ T1 out, overTime E t c.1 c.2 = .ok T1 ∧ runCalls E t (c :: rest) = .ok out ∧
      ∀ k col, get? k T1 = some col → get? k out = some col := by
  have hnt' : ∀ x ∈ (cleanVars E t c.1).map CReq.key, x ∉ temporalNames :=
    fun x hx => hnt c (by simp) x (((cleanVars_sublist E t c.1).map CReq.key).subset hx)
  obtain ⟨hwf1, htk1, hrows1, hsort1, _⟩ := call_result E hwf hn htk hsw c.1 c.2 hnt'
  have h1 := overTime_processes E hwf hn htk hp
  obtain ⟨out, h2, _, hk⟩ := runCalls_keeps_columns E hn hsw rest (fun c' hc' => hnt c' (by simp [hc']))
    (T := colsOf ((sortP E tk (rowsOf t n)).map (callF E t c.1 c.2))) ⟨hwf1, htk1, by rw [hrows1]; exact hsort1⟩
  exact ⟨_, out, h1, by rw [runCalls_cons, h1, andThen_ok, h2], hk⟩

/-- the hypotheses of the split theorem `split_invariance` WITHOUT the C01 feedback
hypothesis `FeedbackOK` (every other field of `SplitHyp`) -/
structure SplitHypNoFb (E : Env C) (t : Table C) (n : Nat) (tk : Name) (vars ests : List Req) : Prop where
  wf : WF t n
  pos : 0 < n
  tk : temporalKey t = some tk
  sw : StrictWeak E.lt
  nodup : (reqKeys vars).Nodup
  notemp : ∀ x ∈ reqKeys vars, x ∉ temporalNames
  rank_t : UniformRank E t
  rank_v : ∀ r ∈ rowsOf t n, ∀ r' ∈ rowsOf t n, ∀ c ∈ cleanVars E t vars,
    E.is3 (c.val E r) = E.is3 (c.val E r')
  rank_e : ∀ e ∈ allEsts E ests, ∀ c, E.is3 (estApply E e c) = false

theorem SplitHyp.toNoFb {E : Env C} {t : Table C} {n : Nat} {tk : Name} {vars ests : List Req}
    (H : SplitHyp E t n tk vars ests) : SplitHypNoFb E t n tk vars ests :=
  ⟨H.wf, H.pos, H.tk, H.sw, H.nodup, H.notemp, H.rank_t, H.rank_v, H.rank_e⟩

end AurelVerif.Table
