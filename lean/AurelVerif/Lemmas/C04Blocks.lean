/-
Lemmas/C04Blocks.lean — the three 3+1 blocks of the 4-Riemann tensor as the code
evaluates them at one grid point (Spec formulas applied to the cached entries), and
the 3+1 form of the inverse 4-metric.
-/
import AurelVerif.Lemmas.C04Populate

set_option linter.unusedSimpArgs false
set_option linter.unusedVariables false

namespace AurelVerif.C04L
open AurelVerif.Gen.Core AurelVerif.Tensor AurelVerif.CoreTac AurelVerif.C08 AurelVerif.Spec.Curvature

variable {K : Type} [Field K]

/-- `K_iμ K_jν g^{μν}` with the extrinsic curvature embedded as a 4-tensor `K4`
(what the code contracts: einsum `'ib, ja, ab -> ij'` on `s_to_st(Kdown3)` and `gup4`,
then the spatial block). -/
def KK4 (gup : Fin 4 → Fin 4 → K) (K4 : Fin 4 → Fin 4 → K) (i j : Fin 3) : K :=
  ∑ a, ∑ b, K4 i.succ b * K4 j.succ a * gup a b

/-- Gauss block on the cached `s_Riemann_down3`, `Kdown3`. -/
def RssssE (e : Env K) : Fin 3 → Fin 3 → Fin 3 → Fin 3 → K := gauss e.s_Riemann_down3 e.Kdown3

/-- Codazzi block; `D_a K_bc` from the abstract difference operator `e.D` and the cached `s_Gamma_udd3`. -/
def RssstE (e : Env K) : Fin 3 → Fin 3 → Fin 3 → K :=
  codazzi e.alpha e.betaup3 (RssssE e) (covdDD e.D e.s_Gamma_udd3 e.Kdown3)

/-- Mainardi block; `K4` is the embedded extrinsic curvature, `Ric4` the spatial block of the
4-Ricci tensor (`fun _ _ => 0` with the vacuum flag). -/
def RststE (e : Env K) (K4 : Fin 4 → Fin 4 → K) (Ric4 : Fin 3 → Fin 3 → K) : Fin 3 → Fin 3 → K :=
  mainardi e.alpha e.betaup3 (RssssE e) (RssstE e) e.s_Ricci_down3 (KK4 e.gup4 K4) e.Kdown3 e.Ktrace Ric4

/-- the generated covariant derivative helper is `D_a f_bc = ∂_a f_bc − Γ^d_{ab} f_dc − Γ^d_{ac} f_bd`. -/
theorem s_covd_dd_spec (e : Env K) (f : Fin 3 → Fin 3 → K) (a b c : Fin 3) :
    s_covd_dd e f a b c = covdDD e.D e.s_Gamma_udd3 f a b c := by
  unfold covdDD
  revert a b c
  cases3 <;> cases3 <;> cases3 <;> (simp only [core_unfold, Fin.sum_univ_three]; ring)

/-- `s_to_st` with a shift: `f_tt = β^i β^j f_ij`, `f_tk = f_kt = β^i f_ik`, `f_ij` unchanged;
without any shift key the time row and column are zero. -/
theorem s_to_st_spec (e : Env K) (f : Fin 3 → Fin 3 → K) :
    s_to_st__betaup3 e f 0 0 = ∑ i, ∑ j, e.betaup3 i * e.betaup3 j * f i j
    ∧ (∀ k : Fin 3, s_to_st__betaup3 e f 0 k.succ = ∑ i, e.betaup3 i * f i k
        ∧ s_to_st__betaup3 e f k.succ 0 = ∑ i, e.betaup3 i * f i k)
    ∧ (∀ i j : Fin 3, s_to_st__betaup3 e f i.succ j.succ = f i j)
    ∧ (∀ μ : Fin 4, s_to_st__dflt e f 0 μ = 0 ∧ s_to_st__dflt e f μ 0 = 0)
    ∧ (∀ i j : Fin 3, s_to_st__dflt e f i.succ j.succ = f i j) := by
  refine ⟨?_, ?_, ?_, ?_, ?_⟩
  · simp only [core_unfold, Fin.sum_univ_three]; ring
  · cases3 <;> (refine ⟨?_, ?_⟩ <;> simp only [core_unfold, Fin.sum_univ_three])
  · cases3 <;> cases3 <;> rfl
  · cases4 <;> exact ⟨rfl, rfl⟩
  · cases3 <;> cases3 <;> rfl

/-- the inverse 4-metric in 3+1 form:
`g^tt = −1/α²`, `g^ti = g^it = β^i/α²`, `g^ij = γ^ij − β^i β^j/α²`. -/
structure Gup3p1 (e : Env K) (gup : Fin 4 → Fin 4 → K) : Prop where
  h00 : gup 0 0 = -1 / e.alpha ^ 2
  h0i : ∀ i : Fin 3, gup 0 i.succ = e.betaup3 i / e.alpha ^ 2 ∧ gup i.succ 0 = e.betaup3 i / e.alpha ^ 2
  hij : ∀ i j : Fin 3, gup i.succ j.succ = e.gammaup3 i j - e.betaup3 i * e.betaup3 j / e.alpha ^ 2

/-- with the inverse metric in 3+1 form the 4-D contraction the code uses is the textbook
`K_ik K^k_j = γ^{kl} K_ik K_jl` (the shift terms cancel; `K` symmetric, `α ≠ 0`). -/
theorem KK4_eq_KK3 (e : Env K) (hg : Gup3p1 e e.gup4) (hK : Sym e.Kdown3) (hu : Sym e.gammaup3)
    (ha : e.alpha ≠ 0) (i j : Fin 3) :
    KK4 e.gup4 (s_to_st__betaup3 e e.Kdown3) i j = KK3 e.gammaup3 e.Kdown3 i j := by
  have h01 := hK 1 0; have h02 := hK 2 0; have h12 := hK 2 1
  have u01 := hu 1 0; have u02 := hu 2 0; have u12 := hu 2 1
  have g00 := hg.h00
  have g01 := (hg.h0i 0).1; have g02 := (hg.h0i 1).1; have g03 := (hg.h0i 2).1
  have g10 := (hg.h0i 0).2; have g20 := (hg.h0i 1).2; have g30 := (hg.h0i 2).2
  have g11 := hg.hij 0 0; have g12 := hg.hij 0 1; have g13 := hg.hij 0 2
  have g21 := hg.hij 1 0; have g22 := hg.hij 1 1; have g23 := hg.hij 1 2
  have g31 := hg.hij 2 0; have g32 := hg.hij 2 1; have g33 := hg.hij 2 2
  simp only [succ3_0, succ3_1, succ3_2] at g01 g02 g03 g10 g20 g30 g11 g12 g13 g21 g22 g23 g31 g32 g33
  revert i j
  cases3 <;> cases3 <;>
    (simp only [KK4, KK3, core_unfold, Fin.sum_univ_three, Fin.sum_univ_four, g00, g01, g02, g03, g10, g20, g30,
       g11, g12, g13, g21, g22, g23, g31, g32, g33, h01, h02, h12, u01, u02, u12]
     field_simp
     ring)

/-- without a shift (zero time row of the embedded `K`, `β = 0`) likewise. -/
theorem KK4_eq_KK3_noshift (e : Env K) (hg : Gup3p1 e e.gup4) (hu : Sym e.gammaup3)
    (hb : e.betaup3 = fun _ => 0) (i j : Fin 3) :
    KK4 e.gup4 (s_to_st__dflt e e.Kdown3) i j = KK3 e.gammaup3 e.Kdown3 i j := by
  have u01 := hu 1 0; have u02 := hu 2 0; have u12 := hu 2 1
  have g11 := hg.hij 0 0; have g12 := hg.hij 0 1; have g13 := hg.hij 0 2
  have g21 := hg.hij 1 0; have g22 := hg.hij 1 1; have g23 := hg.hij 1 2
  have g31 := hg.hij 2 0; have g32 := hg.hij 2 1; have g33 := hg.hij 2 2
  simp only [succ3_0, succ3_1, succ3_2, hb, zero_mul, zero_div, sub_zero] at g11 g12 g13 g21 g22 g23 g31 g32 g33
  revert i j
  cases3 <;> cases3 <;>
    (simp only [KK4, KK3, core_unfold, Fin.sum_univ_three, Fin.sum_univ_four,
       g11, g12, g13, g21, g22, g23, g31, g32, g33, u01, u02, u12]
     ring)

/-! ### symmetry structure of the three blocks (exact, generic) -/

/-- the Gauss block has the Riemann symmetries when `³R` has them and `K` is symmetric. -/
theorem gauss_sym (R3 : Fin 3 → Fin 3 → Fin 3 → Fin 3 → K) (Kd : Fin 3 → Fin 3 → K)
    (h : RiemannSym R3) (hK : Sym Kd) : RiemannSym (gauss R3 Kd) := by
  refine ⟨fun a b c d => ?_, fun a b c d => ?_, fun a b c d => ?_, fun a c d => ?_, fun a b c => ?_⟩
  · simp only [gauss]; rw [h.anti12 a b c d]; ring
  · simp only [gauss]; rw [h.anti34 a b c d]; ring
  · simp only [gauss]; rw [h.pair a b c d, hK a c, hK b d, hK a d, hK b c]; ring
  · simp only [gauss]; rw [h.diag12 a c d]; ring
  · simp only [gauss]; rw [h.diag34 a b c]; ring

/-- the Codazzi block is antisymmetric in its first pair (and vanishes on its diagonal). -/
theorem codazzi_antisym (alpha : K) (beta : Fin 3 → K) (A : Fin 3 → Fin 3 → Fin 3 → Fin 3 → K)
    (DK : Fin 3 → Fin 3 → Fin 3 → K) (h12 : ∀ a b c d, A a b c d = -A b a c d) (hd : ∀ a c d, A a a c d = 0) :
    (∀ i j k, codazzi alpha beta A DK i j k = -codazzi alpha beta A DK j i k)
    ∧ ∀ i k, codazzi alpha beta A DK i i k = 0 := by
  refine ⟨fun i j k => ?_, fun i k => ?_⟩
  · simp only [codazzi, Fin.sum_univ_three]
    rw [h12 i j k 0, h12 i j k 1, h12 i j k 2]; ring
  · simp only [codazzi, Fin.sum_univ_three]
    rw [hd i k 0, hd i k 1, hd i k 2]; ring

/-- the Mainardi block is symmetric. -/
theorem mainardi_sym (alpha : K) (beta : Fin 3 → K) (A : Fin 3 → Fin 3 → Fin 3 → Fin 3 → K)
    (B : Fin 3 → Fin 3 → Fin 3 → K) (Ric3 KK Kd : Fin 3 → Fin 3 → K) (Ktr : K) (Ric4 : Fin 3 → Fin 3 → K)
    (hp : ∀ a b c d, A a b c d = A c d a b) (h3 : Sym Ric3) (hKK : Sym KK) (hK : Sym Kd) (h4 : Sym Ric4) :
    Sym (mainardi alpha beta A B Ric3 KK Kd Ktr Ric4) := by
  intro i j
  simp only [mainardi, Fin.sum_univ_three]
  linear_combination (-(beta 0 * beta 0)) * hp i 0 j 0 + (-(beta 0 * beta 1)) * hp i 0 j 1
    + (-(beta 0 * beta 2)) * hp i 0 j 2 + (-(beta 1 * beta 0)) * hp i 1 j 0 + (-(beta 1 * beta 1)) * hp i 1 j 1
    + (-(beta 1 * beta 2)) * hp i 1 j 2 + (-(beta 2 * beta 0)) * hp i 2 j 0 + (-(beta 2 * beta 1)) * hp i 2 j 1
    + (-(beta 2 * beta 2)) * hp i 2 j 2
    + alpha ^ 2 * (h3 i j - hKK i j + Ktr * hK i j - h4 i j)

/-- `K_iμ K_jν g^{μν}` is symmetric for a symmetric inverse metric. -/
theorem KK4_symm (gup K4 : Fin 4 → Fin 4 → K) (hg : Sym gup) : Sym (KK4 gup K4) := by
  intro i j
  unfold KK4
  rw [Finset.sum_comm]
  refine Finset.sum_congr rfl fun a _ => Finset.sum_congr rfl fun b _ => ?_
  rw [hg b a]; ring

/-- **symmetry structure of the assembled tensor**: `populate(Gauss, Codazzi, Mainardi)` on the cached
entries has all Riemann symmetries when `³R` has them and `K`, `³R_ij`, `g^{μν}`, `⁴R_ij` are symmetric. -/
theorem blocks_sym (e : Env K) (K4 : Fin 4 → Fin 4 → K) (Ric4 : Fin 3 → Fin 3 → K)
    (h3 : RiemannSym e.s_Riemann_down3) (hK : Sym e.Kdown3) (hR3 : Sym e.s_Ricci_down3) (hg : Sym e.gup4)
    (hR4 : Sym Ric4) : RiemannSym (populate (RssssE e) (RssstE e) (RststE e K4 Ric4)) := by
  have hA : RiemannSym (RssssE e) := gauss_sym _ _ h3 hK
  have hB := codazzi_antisym e.alpha e.betaup3 (RssssE e) (covdDD e.D e.s_Gamma_udd3 e.Kdown3) hA.anti12 hA.diag12
  exact populate_sym _ _ _ ⟨hA, hB.1, hB.2,
    mainardi_sym _ _ _ _ _ _ _ _ _ hA.pair hR3 (KK4_symm _ _ hg) hK hR4⟩

end AurelVerif.C04L
