/-
Lemmas/C10Vol.lean — the generated Levi-Civita table `levicivita_symbol_down4` is the determinant
symbol: `Σ ε_abcd M_ap M_bq M_cr M_ds = det(M) ε_pqrs`; consequently `ε_abcd √(−g)` is the volume
form of a Lorentzian metric `g` (`Spec.Weyl.VolumeForm`: `ε_abcd ε^{cd}{}_{ef} = −2 (g_ae g_bf − g_af g_be)`)
whenever `g⁻¹ g = 1` and `(√(−g))² = −det g`.
-/
import AurelVerif.Gen.CoreHelpers
import AurelVerif.Lemmas.CoreTac
import AurelVerif.Lemmas.C10WeylEB
import Mathlib.LinearAlgebra.Matrix.Determinant.Basic

set_option linter.unusedSimpArgs false
set_option linter.unusedVariables false

namespace AurelVerif.C10
open AurelVerif.Gen.Core AurelVerif.Tensor AurelVerif.CoreTac AurelVerif.Spec.Weyl

variable {K : Type} [Field K]

/-- the 256-term sum against the generated table is the 24-term alternating sum. -/
theorem lc_sum (e : Env K) (T : Fin 4 → Fin 4 → Fin 4 → Fin 4 → K) :
    ∑ a, ∑ b, ∑ c, ∑ d, levicivita_symbol_down4 e a b c d * T a b c d
      = T 0 1 2 3 - T 0 1 3 2 - T 0 2 1 3 + T 0 2 3 1 + T 0 3 1 2 - T 0 3 2 1 - T 1 0 2 3 + T 1 0 3 2 + T 1 2 0 3 - T 1 2 3 0 - T 1 3 0 2 + T 1 3 2 0 + T 2 0 1 3 - T 2 0 3 1 - T 2 1 0 3 + T 2 1 3 0 + T 2 3 0 1 - T 2 3 1 0 - T 3 0 1 2 + T 3 0 2 1 + T 3 1 0 2 - T 3 1 2 0 - T 3 2 0 1 + T 3 2 1 0 := by
  simp only [Fin.sum_univ_four, levicivita_symbol_down4, ↓vec4_0, ↓vec4_1, ↓vec4_2, ↓vec4_3,
       zero_mul, one_mul, neg_mul, add_zero, zero_add]
  ring

/-- Leibniz determinant written with the generated table. -/
def detS (e : Env K) (M : Fin 4 → Fin 4 → K) : K :=
  ∑ a, ∑ b, ∑ c, ∑ d, levicivita_symbol_down4 e a b c d * (M a 0 * M b 1 * M c 2 * M d 3)

set_option maxHeartbeats 1000000 in
/-- `Σ ε_abcd M_ap M_bq M_cr M_ds = det(M) ε_pqrs`. -/
theorem lc_det (e : Env K) (M : Fin 4 → Fin 4 → K) (p q r s : Fin 4) :
    ∑ a, ∑ b, ∑ c, ∑ d, levicivita_symbol_down4 e a b c d * (M a p * M b q * M c r * M d s)
      = detS e M * levicivita_symbol_down4 e p q r s := by
  rw [detS, lc_sum e (fun a b c d => M a p * M b q * M c r * M d s),
    lc_sum e (fun a b c d => M a 0 * M b 1 * M c 2 * M d 3)]
  revert p q r s
  cases4 <;> cases4 <;> cases4 <;> cases4 <;>
    (simp only [levicivita_symbol_down4, ↓vec4_0, ↓vec4_1, ↓vec4_2, ↓vec4_3]
     ring)

/-- `detS` is Mathlib's determinant. -/
theorem detS_is_det (e : Env K) (M : Fin 4 → Fin 4 → K) : detS e M = Matrix.det (Matrix.of M) := by
  rw [detS, lc_sum e (fun a b c d => M a 0 * M b 1 * M c 2 * M d 3), Matrix.det_succ_row_zero]
  simp only [Fin.sum_univ_four, Matrix.det_fin_three, Matrix.submatrix_apply, Matrix.of_apply]
  simp [Fin.succAbove]
  ring

/-- `det(g⁻¹) det(g) = 1`. -/
theorem detS_inv (e : Env K) (g gup : Fin 4 → Fin 4 → K)
    (hinv : ∀ a b, ∑ c, gup a c * g c b = if a = b then 1 else 0) : detS e gup * detS e g = 1 := by
  rw [detS_is_det, detS_is_det, ← Matrix.det_mul]
  have : Matrix.of gup * Matrix.of g = 1 := by
    ext a b
    rw [Matrix.mul_apply, Matrix.one_apply]
    simp only [Matrix.of_apply]
    exact hinv a b
  rw [this, Matrix.det_one]

/-- `ε_pqcd ε_cdef = 2 (δ_pe δ_qf − δ_pf δ_qe)`, contracted with an arbitrary `T^{pq}`. -/
theorem lc_lc (e : Env K) (T : Fin 4 → Fin 4 → K) : ∀ e' f : Fin 4,
    ∑ p, ∑ q, T p q * ∑ c, ∑ d, levicivita_symbol_down4 e p q c d * levicivita_symbol_down4 e c d e' f
      = 2 * (T e' f - T f e') := by
  cases4 <;> cases4 <;>
    (simp only [Fin.sum_univ_four, levicivita_symbol_down4, ↓vec4_0, ↓vec4_1, ↓vec4_2, ↓vec4_3,
       zero_mul, mul_zero, add_zero, zero_add, one_mul, mul_one, neg_mul, mul_neg, neg_neg, neg_zero]
     ring)

/-- `ε_abcd g^{cc'} g^{dd'} = det(g⁻¹) g_pa g_qb ε_pqc'd'`. -/
theorem lc_raise2 (e : Env K) (g gup : Fin 4 → Fin 4 → K)
    (hinv : ∀ a b, ∑ c, gup a c * g c b = if a = b then 1 else 0) (a b c' d' : Fin 4) :
    ∑ c, ∑ d, levicivita_symbol_down4 e a b c d * (gup c c' * gup d d')
      = detS e gup * ∑ p, ∑ q, g p a * g q b * levicivita_symbol_down4 e p q c' d' := by
  obtain ⟨Z, hZ⟩ : ∃ Z : Fin 4 → Fin 4 → K,
      ∀ a' b', Z a' b' = ∑ c, ∑ d, levicivita_symbol_down4 e a' b' c d * (gup c c' * gup d d') :=
    ⟨_, fun _ _ => rfl⟩
  rw [← hZ a b]
  have S1 : ∑ a', ∑ b', (∑ p, gup a' p * g p a) * (∑ q, gup b' q * g q b) * Z a' b'
      = ∑ a', ∑ b', (if a' = a then 1 else 0) * (if b' = b then 1 else 0) * Z a' b' := by
    simp only [hinv]
  have S2 : ∑ a', ∑ b', (if a' = a then (1 : K) else 0) * (if b' = b then 1 else 0) * Z a' b' = Z a b := by
    simp [Finset.sum_ite_eq']
  have S3 : ∀ p q, ∑ a', ∑ b', gup a' p * gup b' q * Z a' b'
      = detS e gup * levicivita_symbol_down4 e p q c' d' := by
    intro p q
    rw [← lc_det e gup p q c' d']
    simp only [hZ]
    sum4_ring
  have S4 : ∑ p, ∑ q, g p a * g q b * (∑ a', ∑ b', gup a' p * gup b' q * Z a' b')
      = ∑ p, ∑ q, g p a * g q b * (detS e gup * levicivita_symbol_down4 e p q c' d') := by
    simp only [S3]
  linear_combination (norm := sum4_ring) S4 - S1 - S2

/-- **the generated table times `s` is the volume form of `g`** when `s² det(g⁻¹) = −1`. -/
theorem volumeForm_lc (e : Env K) (g gup : Fin 4 → Fin 4 → K) (hg : Symm g)
    (hinv : ∀ a b, ∑ c, gup a c * g c b = if a = b then 1 else 0) (s : K) (hs : s ^ 2 * detS e gup = -1) :
    VolumeForm g gup (fun a b c d => levicivita_symbol_down4 e a b c d * s) := by
  intro a b e' f
  have W1 : ∑ c', ∑ d', (∑ c, ∑ d, levicivita_symbol_down4 e a b c d * (gup c c' * gup d d'))
        * levicivita_symbol_down4 e c' d' e' f
      = ∑ c', ∑ d', (detS e gup * ∑ p, ∑ q, g p a * g q b * levicivita_symbol_down4 e p q c' d')
        * levicivita_symbol_down4 e c' d' e' f := by
    simp only [lc_raise2 e g gup hinv]
  have W2 := lc_lc e (fun p q => g p a * g q b) e' f
  rw [hg a e', hg b f, hg a f, hg b e']
  generalize detS e gup = D at hs W1
  simp only at W2 ⊢
  linear_combination (norm := sum4_ring) s ^ 2 * W1 + s ^ 2 * D * W2
    + 2 * (g e' a * g f b - g f a * g e' b) * hs

/-- `s² = −det g` and `g⁻¹ g = 1` give `s² det(g⁻¹) = −1`. -/
theorem vol_scale (e : Env K) (g gup : Fin 4 → Fin 4 → K)
    (hinv : ∀ a b, ∑ c, gup a c * g c b = if a = b then 1 else 0) (s : K) (hs : s ^ 2 = -detS e g) :
    s ^ 2 * detS e gup = -1 := by
  have := detS_inv e g gup hinv
  rw [hs]; linear_combination (-1 : K) * this

end AurelVerif.C10
