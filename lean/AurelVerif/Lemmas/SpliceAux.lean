/-
Lemmas/SpliceAux.lean — small Mathlib-free facts about `Option`-valued
`List.mapM`, Python indexing/slicing of the model, and index arithmetic,
used by Lemmas/SpliceLemmas.lean.
-/
import AurelVerif.Spec.FD

namespace AurelVerif.SpliceLemmas
open AurelVerif.Splice AurelVerif.StencilLemmas

/-! ### `List.mapM` in the `Option` monad -/

theorem mapM_cons_opt {α β : Type} (a : α) (l : List α) (f : α → Option β) :
    (a :: l).mapM f = (f a).bind (fun b => (l.mapM f).bind (fun bs => some (b :: bs))) := by
  rw [List.mapM_cons]; rfl

theorem mapM_append_opt {α β : Type} (l₁ l₂ : List α) (f : α → Option β) :
    (l₁ ++ l₂).mapM f = (l₁.mapM f).bind (fun a => (l₂.mapM f).bind (fun b => some (a ++ b))) := by
  rw [List.mapM_append]; rfl

theorem mapM_congr_opt {α β : Type} (l : List α) (f g : α → Option β)
    (h : ∀ x ∈ l, f x = g x) : l.mapM f = l.mapM g := by
  induction l with
  | nil => rfl
  | cons a l ih =>
    rw [mapM_cons_opt, mapM_cons_opt, h a (List.mem_cons_self ..),
      ih (fun x hx => h x (List.mem_cons_of_mem _ hx))]

theorem mapM_isSome_opt {α β : Type} (l : List α) (f : α → Option β)
    (h : ∀ x ∈ l, (f x).isSome) : (l.mapM f).isSome := by
  induction l with
  | nil => rfl
  | cons a l ih =>
    rw [mapM_cons_opt]
    have h1 := h a (List.mem_cons_self ..)
    have h2 := ih (fun x hx => h x (List.mem_cons_of_mem _ hx))
    obtain ⟨b, hb⟩ := Option.isSome_iff_exists.mp h1
    obtain ⟨bs, hbs⟩ := Option.isSome_iff_exists.mp h2
    rw [hb, hbs]; rfl

theorem mapM_length_opt {α β : Type} (l : List α) (f : α → Option β) (r : List β)
    (h : l.mapM f = some r) : r.length = l.length := by
  induction l generalizing r with
  | nil => simp [List.mapM_nil] at h; subst h; rfl
  | cons a l ih =>
    rw [mapM_cons_opt] at h
    cases hb : f a with
    | none => rw [hb] at h; simp at h
    | some b =>
      cases hbs : l.mapM f with
      | none => rw [hb, hbs] at h; simp at h
      | some bs =>
        rw [hb, hbs] at h
        simp at h; subst h
        simp [ih bs hbs]

theorem mapM_getElem_opt {α β : Type} (l : List α) (f : α → Option β) (r : List β)
    (h : l.mapM f = some r) (i : Nat) (hi : i < r.length) (hi' : i < l.length) :
    f l[i] = some r[i] := by
  induction l generalizing r i with
  | nil => simp at hi'
  | cons a l ih =>
    rw [mapM_cons_opt] at h
    cases hb : f a with
    | none => rw [hb] at h; simp at h
    | some b =>
      cases hbs : l.mapM f with
      | none => rw [hb, hbs] at h; simp at h
      | some bs =>
        rw [hb, hbs] at h
        simp at h; subst h
        cases i with
        | zero => simpa using hb
        | succ i =>
          simp only [List.getElem_cons_succ]
          exact ih bs hbs i (by simpa using hi) (by simpa using hi')

/-- naturality of `mapM` under a relabelling of the results. -/
theorem mapM_natural_opt {α β γ : Type} (l : List α) (F : α → Option β) (F' : α → Option γ)
    (h : β → γ) (hF : ∀ x ∈ l, F' x = (F x).map h) :
    l.mapM F' = (l.mapM F).map (List.map h) := by
  induction l with
  | nil => rfl
  | cons a l ih =>
    rw [mapM_cons_opt, mapM_cons_opt, hF a (List.mem_cons_self ..),
      ih (fun x hx => hF x (List.mem_cons_of_mem _ hx))]
    cases F a <;> cases l.mapM F <;> rfl

/-! ### Python indexing -/

theorem pyGet_nonneg {α : Type} (f : List α) (j : Int) (h : 0 ≤ j) : pyGet f j = f[j.toNat]? := by
  unfold pyGet pyIdx
  rw [if_pos h]
  by_cases h2 : j < (f.length : Int)
  · rw [if_pos h2]
  · rw [if_neg h2]
    have : f.length ≤ j.toNat := by omega
    simp [List.getElem?_eq_none this]

theorem clampBound_of_eq (n k : Nat) (i : Int) (hi : i = (k : Int)) (h : k ≤ n) :
    clampBound n i = k := by
  subst hi
  unfold clampBound
  simp only []
  rw [if_neg (by omega), if_neg (by omega), if_neg (by omega)]
  simp

theorem clampBound_neg (n k : Nat) (h1 : 1 ≤ k) (h : k ≤ n) :
    clampBound n (-(k : Int)) = n - k := by
  unfold clampBound
  have h0 : -(k : Int) < 0 := by omega
  simp only [h0, if_true]
  rw [if_neg (by omega), if_neg (by omega)]
  omega

/-! ### lists of three pieces -/

theorem getElem?_append3 {α : Type} (A B C : List α) (j : Nat) :
    (A ++ B ++ C)[j]? =
      if j < A.length then A[j]?
      else if j < A.length + B.length then B[j - A.length]?
      else C[j - A.length - B.length]? := by
  rw [List.getElem?_append, List.length_append]
  by_cases h1 : j < A.length + B.length
  · rw [if_pos h1, List.getElem?_append]
    by_cases h2 : j < A.length
    · rw [if_pos h2, if_pos h2]
    · rw [if_neg h2, if_neg h2, if_pos h1]
  · rw [if_neg h1, if_neg (by omega), if_neg h1]
    congr 1; omega

/-! ### `arange` -/

theorem arange_nat (a : Int) (n : Nat) :
    arange a (a + n) = (List.range n).map (fun (j : Nat) => a + (j : Int)) := by
  unfold arange
  have : (a + (n : Int) - a).toNat = n := by omega
  rw [this]

theorem fdMap_nat {α : Type} (st : Stencil) (f : List α) (a b : Int) (n : Nat) (hb : b = a + n) :
    fdMap st f a b = (List.range n).mapM (fun (j : Nat) => applySt st f (a + (j : Int))) := by
  subst hb
  unfold fdMap
  rw [arange_nat, List.mapM_map]
  rfl

theorem fdMap_range' {α : Type} (st : Stencil) (f : List α) (a n : Nat) (b : Int) (hb : b = (a : Int) + n) :
    fdMap st f a b = (List.range' a n).mapM (fun (j : Nat) => applySt st f (j : Int)) := by
  rw [fdMap_nat st f a b n hb, List.range'_eq_map_range, List.mapM_map]
  apply mapM_congr_opt
  intro x _
  simp [Function.comp]

/-! ### shapes -/

theorem shapesOK_iff (s : Scheme) (p : Nat) (hs : shapesOK s p = true) :
    s.maskLen * 2 = p ∧
    (∀ kc ∈ s.fwd, 0 ≤ kc.1 ∧ kc.1 ≤ (p : Int)) ∧
    (∀ kc ∈ s.bwd, -(p : Int) ≤ kc.1 ∧ kc.1 ≤ 0) ∧
    (∀ kc ∈ s.cen, -(s.maskLen : Int) ≤ kc.1 ∧ kc.1 ≤ (s.maskLen : Int)) := by
  unfold shapesOK at hs
  simp only [Bool.and_eq_true, List.all_eq_true, decide_eq_true_eq, beq_iff_eq] at hs
  obtain ⟨⟨⟨h1, h2⟩, h3⟩, h4⟩ := hs
  exact ⟨h1, h2, h3, h4⟩

/-! ### rows -/

theorem applySt_eq_directRow {α : Type} (st : Stencil) (f : List α) (i : Nat)
    (h : ∀ kc ∈ st, 0 ≤ (i : Int) + kc.1) : applySt st f i = directRow st f i := by
  unfold applySt directRow
  apply mapM_congr_opt
  intro kc hkc
  rw [pyGet_nonneg _ _ (h kc hkc), if_pos (h kc hkc)]

theorem directRow_isSome {α : Type} (st : Stencil) (f : List α) (i : Nat)
    (h : ∀ kc ∈ st, 0 ≤ (i : Int) + kc.1 ∧ (i : Int) + kc.1 < f.length) :
    (directRow st f i).isSome := by
  unfold directRow
  apply mapM_isSome_opt
  intro kc hkc
  obtain ⟨h1, h2⟩ := h kc hkc
  rw [if_pos h1]
  have : ((i : Int) + kc.1).toNat < f.length := by omega
  simp [List.getElem?_eq_getElem this]

end AurelVerif.SpliceLemmas
