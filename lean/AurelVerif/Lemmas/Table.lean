/-
Lemmas/Table.lean — helper lemmas and the long proofs for C14 (over_time).
Core Lean only (no Mathlib).
-/
import AurelVerif.Model.Table

deriving instance DecidableEq for Except

namespace AurelVerif.Table
variable {C : Type} {β : Type}

/-! ## 1. association lists -/

theorem has_iff {k : Name} {d : List (Name × β)} : has k d = true ↔ k ∈ keys d := by
  simp [has, keys, List.any_eq_true]

theorem has_false_iff {k : Name} {d : List (Name × β)} : has k d = false ↔ k ∉ keys d := by
  rw [← has_iff]; simp

theorem get?_none_iff {k : Name} {d : List (Name × β)} : get? k d = none ↔ k ∉ keys d := by
  induction d with
  | nil => simp [get?, keys]
  | cons kv rest ih =>
    by_cases h : kv.1 = k
    · simp [get?, keys, h]
    · have h' : ¬ k = kv.1 := fun e => h e.symm
      simp only [get?, beq_iff_eq, h, if_false, ih, keys, List.map_cons, List.mem_cons, h', false_or]

theorem get?_some_of_mem {k : Name} {d : List (Name × β)} (h : k ∈ keys d) : ∃ c, get? k d = some c := by
  cases hg : get? k d with
  | none => exact absurd h (get?_none_iff.mp hg)
  | some c => exact ⟨c, rfl⟩

theorem mem_keys_of_get? {k : Name} {d : List (Name × β)} {c : β} (h : get? k d = some c) : k ∈ keys d := by
  by_cases hk : k ∈ keys d
  · exact hk
  · rw [get?_none_iff.mpr hk] at h; cases h

theorem get?_append (k : Name) (a b : List (Name × β)) :
    get? k (a ++ b) = (get? k a).or (get? k b) := by
  induction a with
  | nil => simp [get?]
  | cons kv rest ih =>
    by_cases h : kv.1 = k <;> simp [get?, h, ih]

theorem get?_append_left {k : Name} {a b : List (Name × β)} (h : k ∈ keys a) :
    get? k (a ++ b) = get? k a := by
  obtain ⟨c, hc⟩ := get?_some_of_mem h
  simp [get?_append, hc]

theorem get?_append_right {k : Name} {a b : List (Name × β)} (h : k ∉ keys a) :
    get? k (a ++ b) = get? k b := by
  simp [get?_append, get?_none_iff.mpr h]

theorem keys_append (a b : List (Name × β)) : keys (a ++ b) = keys a ++ keys b := by
  simp [keys]

theorem get?_cons (k : Name) (kv : Name × β) (rest : List (Name × β)) :
    get? k (kv :: rest) = if kv.1 = k then some kv.2 else get? k rest := by
  by_cases h : kv.1 = k <;> simp [get?, h]

theorem has_cons (k : Name) (kv : Name × β) (rest : List (Name × β)) :
    has k (kv :: rest) = (kv.1 == k || has k rest) := rfl

theorem get?_map_set (d : List (Name × β)) (k k' : Name) (v : β) :
    get? k' (d.map (fun kv => if kv.1 == k then (kv.1, v) else kv))
      = if k' = k then (if has k d then some v else none) else get? k' d := by
  induction d with
  | nil => simp [get?, has]
  | cons kv rest ih =>
    rw [List.map_cons, get?_cons, ih, get?_cons, has_cons]
    by_cases h1 : kv.1 = k
    · by_cases h2 : k' = k
      · subst h2; simp [h1]
      · have : ¬ k = k' := fun e => h2 e.symm
        simp [h1, h2, this]
    · by_cases h2 : kv.1 = k'
      · have h3 : ¬ k' = k := fun e => h1 (h2.trans e)
        simp [h1, h2, h3]
      · simp [h1, h2]

theorem get?_dset (d : List (Name × β)) (k k' : Name) (v : β) :
    get? k' (dset d k v) = if k' = k then some v else get? k' d := by
  unfold dset
  by_cases hh : has k d = true
  · simp only [hh, if_true, get?_map_set]
  · have hf : has k d = false := by simpa using hh
    simp only [hf, Bool.false_eq_true, if_false, get?_append]
    by_cases h2 : k' = k
    · subst h2
      simp [get?_none_iff.mpr (has_false_iff.mp hf), get?]
    · have : ¬ k = k' := fun e => h2 e.symm
      simp [get?, h2, this]

theorem keys_dset (d : List (Name × β)) (k : Name) (v : β) :
    keys (dset d k v) = if k ∈ keys d then keys d else keys d ++ [k] := by
  unfold dset
  by_cases hh : has k d = true
  · have hm := has_iff.mp hh
    simp only [hh, if_true, hm]
    simp only [keys, List.map_map]
    apply List.map_congr_left
    intro kv _
    by_cases h : kv.1 = k <;> simp [h]
  · have hf : has k d = false := by simpa using hh
    have hm : k ∉ List.map (fun x : Name × β => x.1) d := has_false_iff.mp hf
    simp [hf, hm, keys]

theorem mem_keys_snoc {s : List (Name × β)} {k w : Name} {v : β} :
    w ∈ keys (s ++ [(k, v)]) ↔ w ∈ keys s ∨ w = k := by
  simp [keys]

theorem dset_of_not_mem {d : List (Name × β)} {k : Name} (h : k ∉ keys d) (v : β) :
    dset d k v = d ++ [(k, v)] := by
  unfold dset
  simp [has_false_iff.mpr h]

/-! ## 2. Except sequencing -/

theorem mapE_ok {α γ : Type} {f : α → Except Err γ} {g : α → γ} {l : List α}
    (h : ∀ a ∈ l, f a = .ok (g a)) : mapE f l = .ok (l.map g) := by
  induction l with
  | nil => rfl
  | cons a as ih =>
    have h1 := h a (by simp)
    have h2 := ih (fun b hb => h b (by simp [hb]))
    simp [mapE, h1, h2]

theorem mapE_ok_inv {α γ : Type} {f : α → Except Err γ} {l : List α} {out : List γ}
    (h : mapE f l = .ok out) : out.length = l.length ∧ ∀ a ∈ l, ∃ b, f a = .ok b := by
  induction l generalizing out with
  | nil => simp [mapE] at h; subst h; simp
  | cons a as ih =>
    simp only [mapE] at h
    cases hfa : f a with
    | error e => simp [hfa] at h
    | ok b =>
      simp only [hfa] at h
      cases hm : mapE f as with
      | error e => simp [hm] at h
      | ok bs =>
        simp only [hm, Except.ok.injEq] at h
        subst h
        obtain ⟨hl, hall⟩ := ih hm
        refine ⟨by simp [hl], ?_⟩
        intro x hx
        rcases List.mem_cons.mp hx with rfl | hx
        · exact ⟨b, hfa⟩
        · exact hall x hx

theorem foldlE_ok {α σ : Type} {f : σ → α → Except Err σ} {g : σ → α → σ} (P : σ → Prop)
    {l : List α} {b : σ}
    (hstep : ∀ s, P s → ∀ a ∈ l, f s a = .ok (g s a) ∧ P (g s a)) (hb : P b) :
    foldlE f b l = .ok (l.foldl g b) ∧ P (l.foldl g b) := by
  induction l generalizing b with
  | nil => exact ⟨rfl, hb⟩
  | cons a as ih =>
    obtain ⟨h1, h2⟩ := hstep b hb a (by simp)
    have := ih (b := g b a) (fun s hs x hx => hstep s hs x (by simp [hx])) h2
    simpa [foldlE, h1] using this

@[simp] theorem andThen_ok {α γ : Type} (a : α) (f : α → Except Err γ) : andThen (.ok a) f = f a := rfl
@[simp] theorem andThen_error {α γ : Type} (e : Err) (f : α → Except Err γ) :
    andThen (.error e) f = .error e := rfl
@[simp] theorem optE_some {α : Type} (err : Err) (a : α) : optE err (some a) = .ok a := rfl
@[simp] theorem optE_none {α : Type} (err : Err) : optE err (none : Option α) = .error err := rfl

theorem mapE_optE {α γ : Type} {f : α → Option γ} {err : Err} (l : List α)
    (h : ∀ a ∈ l, ∃ c, f a = some c) :
    mapE (fun a => optE err (f a)) l = .ok (l.filterMap f) := by
  induction l with
  | nil => rfl
  | cons a as ih =>
    obtain ⟨c, hc⟩ := h a (by simp)
    have := ih (fun b hb => h b (by simp [hb]))
    simp [mapE, hc, this]

/-! ## 3. pure versions of the per-row step and its effect on the key list -/

/-- pure body of the double loop (an absent key is appended) -/
def estOneP (E : Env C) (e : CReq) (d : Row C) (key : Name) : Row C :=
  if has (estKey key e.key) d then d
  else
    match get? key d with
    | some c => d ++ [(estKey key e.key, estApply E e c)]
    | none => d

def applyEstsP (E : Env C) (ests : List CReq) (sk : List Name) (d : Row C) : Row C :=
  ests.foldl (fun d e => sk.foldl (estOneP E e) d) d

/-- the row function of one call -/
def stepRow (E : Env C) (cv ce : List CReq) (sk : List Name) (r : Row C) : Row C :=
  applyEstsP E ce sk (stepVars E cv r)

def addKey (ks : List Name) (k : Name) : List Name := if k ∈ ks then ks else ks ++ [k]

def estOneK (e : Name) (ks : List Name) (key : Name) : List Name :=
  if estKey key e ∈ ks then ks else if key ∈ ks then ks ++ [estKey key e] else ks

def applyEstsK (ests : List Name) (sk : List Name) (ks : List Name) : List Name :=
  ests.foldl (fun ks e => sk.foldl (estOneK e) ks) ks

theorem keys_storeVars (E : Env C) (vars : List CReq) (rd row : Row C) :
    keys (storeVars E vars rd row) = (vars.map CReq.key).foldl addKey (keys row) := by
  unfold storeVars
  induction vars generalizing row with
  | nil => rfl
  | cons v vs ih =>
    simp only [List.foldl_cons, List.map_cons]
    rw [ih, keys_dset]
    rfl

theorem keys_stepVars (E : Env C) (vars : List CReq) (row : Row C) :
    keys (stepVars E vars row) = (vars.map CReq.key).foldl addKey (keys row) := by
  unfold stepVars
  cases vars with
  | nil => rfl
  | cons v vs => simp only [List.isEmpty_cons, Bool.false_eq_true, if_false, keys_storeVars]

theorem keys_estOneP (E : Env C) (e : CReq) (d : Row C) (key : Name) :
    keys (estOneP E e d key) = estOneK e.key (keys d) key := by
  unfold estOneP estOneK
  by_cases h1 : has (estKey key e.key) d = true
  · simp [h1, has_iff.mp h1]
  · have hf : has (estKey key e.key) d = false := by simpa using h1
    have hm := has_false_iff.mp hf
    simp only [hf, Bool.false_eq_true, if_false, hm]
    cases hg : get? key d with
    | none => simp [get?_none_iff.mp hg]
    | some c =>
      have hk : key ∈ List.map (fun x : Name × C => x.1) d := mem_keys_of_get? hg
      simp [hk, keys]

theorem keys_foldl_estOneP (E : Env C) (e : CReq) (sk : List Name) (d : Row C) :
    keys (sk.foldl (estOneP E e) d) = sk.foldl (estOneK e.key) (keys d) := by
  induction sk generalizing d with
  | nil => rfl
  | cons k ks ih => simp only [List.foldl_cons, ih, keys_estOneP]

theorem keys_applyEstsP (E : Env C) (ests : List CReq) (sk : List Name) (d : Row C) :
    keys (applyEstsP E ests sk d) = applyEstsK (ests.map CReq.key) sk (keys d) := by
  unfold applyEstsP applyEstsK
  induction ests generalizing d with
  | nil => rfl
  | cons e es ih => simp only [List.foldl_cons, List.map_cons, ih, keys_foldl_estOneP]

theorem keys_stepRow (E : Env C) (cv ce : List CReq) (sk : List Name) (r : Row C) :
    keys (stepRow E cv ce sk r)
      = applyEstsK (ce.map CReq.key) sk ((cv.map CReq.key).foldl addKey (keys r)) := by
  unfold stepRow
  rw [keys_applyEstsP, keys_stepVars]

/-- the keys of the processed row depend only on the keys of the input row -/
theorem keys_stepRow_congr (E : Env C) (cv ce : List CReq) (sk : List Name) {r r' : Row C}
    (h : keys r = keys r') : keys (stepRow E cv ce sk r) = keys (stepRow E cv ce sk r') := by
  rw [keys_stepRow, keys_stepRow, h]

theorem subset_addKey (ks : List Name) (k : Name) : ks ⊆ addKey ks k := by
  unfold addKey; split <;> simp

theorem subset_foldl_addKey (names ks : List Name) : ks ⊆ names.foldl addKey ks := by
  induction names generalizing ks with
  | nil => simp
  | cons n ns ih => exact List.Subset.trans (subset_addKey ks n) (ih _)

theorem subset_estOneK (e : Name) (ks : List Name) (key : Name) : ks ⊆ estOneK e ks key := by
  unfold estOneK; split
  · simp
  · split <;> simp

theorem subset_foldl_estOneK (e : Name) (sk ks : List Name) : ks ⊆ sk.foldl (estOneK e) ks := by
  induction sk generalizing ks with
  | nil => simp
  | cons n ns ih => exact List.Subset.trans (subset_estOneK e ks n) (ih _)

theorem subset_applyEstsK (ests sk ks : List Name) : ks ⊆ applyEstsK ests sk ks := by
  unfold applyEstsK
  induction ests generalizing ks with
  | nil => simp
  | cons e es ih => exact List.Subset.trans (subset_foldl_estOneK e sk ks) (ih _)

/-! ## 4. the Except versions succeed when the scalar keys are keys of the row -/

theorem estOne_ok (E : Env C) (e : CReq) (d : Row C) (key : Name) (h : key ∈ keys d) :
    estOne E e d key = .ok (estOneP E e d key) := by
  unfold estOne estOneP
  by_cases h1 : has (estKey key e.key) d = true
  · simp [h1]
  · have hf : has (estKey key e.key) d = false := by simpa using h1
    obtain ⟨c, hc⟩ := get?_some_of_mem h
    simp [hf, hc, dset_of_not_mem (has_false_iff.mp hf)]

theorem foldlE_estOne_ok (E : Env C) (e : CReq) (sk : List Name) (d : Row C) (h : sk ⊆ keys d) :
    foldlE (estOne E e) d sk = .ok (sk.foldl (estOneP E e) d) := by
  have := foldlE_ok (f := estOne E e) (g := estOneP E e) (P := fun s => sk ⊆ keys s) (l := sk) (b := d)
    (fun s hs a ha => ⟨estOne_ok E e s a (hs ha), by
      rw [keys_estOneP]; exact List.Subset.trans hs (subset_estOneK _ _ _)⟩) h
  exact this.1

theorem applyEsts_ok (E : Env C) (ests : List CReq) (sk : List Name) (d : Row C) (h : sk ⊆ keys d) :
    applyEsts E ests sk d = .ok (applyEstsP E ests sk d) := by
  have := foldlE_ok (f := fun d e => foldlE (estOne E e) d sk) (g := fun d e => sk.foldl (estOneP E e) d)
    (P := fun s => sk ⊆ keys s) (l := ests) (b := d)
    (fun s hs e _ => ⟨foldlE_estOne_ok E e sk s hs, by
      rw [keys_foldl_estOneP]; exact List.Subset.trans hs (subset_foldl_estOneK _ _ _)⟩) h
  exact this.1

theorem scalarKeys_subset (E : Env C) (d : Row C) : scalarKeys E d ⊆ keys d := by
  intro k hk
  simp only [scalarKeys, List.mem_map, List.mem_filter] at hk
  obtain ⟨kv, ⟨hm, _⟩, rfl⟩ := hk
  exact List.mem_map.mpr ⟨kv, hm, rfl⟩

/-! ## 5. well-formed tables, rows, columns -/

/-- a Python dict of `n`-element lists -/
structure WF (t : Table C) (n : Nat) : Prop where
  nodup : (keys t).Nodup
  rect : ∀ kc ∈ t, kc.2.length = n

/-- the list of per-step dictionaries of a well-formed table -/
def rowsOf (t : Table C) (n : Nat) : List (Row C) := (List.range n).map (rowAt t)

/-- column `k` of a list of dictionaries -/
def colOf (k : Name) (rows : List (Row C)) : List C := rows.filterMap (get? k)

/-- list of dicts → dict of columns (keys of the first dict) -/
def colsOf (rows : List (Row C)) : Table C :=
  match rows with
  | [] => []
  | r0 :: _ => (keys r0).map (fun k => (k, colOf k rows))

theorem rowAt_cons (kc : Name × List C) (t : Table C) (i : Nat) (h : i < kc.2.length) :
    rowAt (kc :: t) i = (kc.1, kc.2[i]) :: rowAt t i := by
  simp [rowAt, List.filterMap_cons, List.getElem?_eq_getElem h]

theorem keys_rowAt {t : Table C} {i : Nat} (h : ∀ kc ∈ t, i < kc.2.length) :
    keys (rowAt t i) = keys t := by
  induction t with
  | nil => rfl
  | cons kc rest ih =>
    rw [rowAt_cons kc rest i (h kc (by simp))]
    simp only [keys, List.map_cons] at ih ⊢
    rw [ih (fun x hx => h x (by simp [hx]))]

theorem get?_rowAt {t : Table C} {i : Nat} (h : ∀ kc ∈ t, i < kc.2.length) (k : Name) :
    get? k (rowAt t i) = (get? k t).bind (fun col => col[i]?) := by
  induction t with
  | nil => rfl
  | cons kc rest ih =>
    have hi := h kc (by simp)
    rw [rowAt_cons kc rest i hi, get?_cons, get?_cons, ih (fun x hx => h x (by simp [hx]))]
    by_cases hk : kc.1 = k <;> simp [hk, List.getElem?_eq_getElem hi]

theorem toRows_ok {t : Table C} {n : Nat} (hwf : WF t n) (hne : t ≠ []) : toRows t = .ok (rowsOf t n) := by
  cases t with
  | nil => exact absurd rfl hne
  | cons kc rest =>
    obtain ⟨k0, c0⟩ := kc
    have h0 : c0.length = n := hwf.rect (k0, c0) (by simp)
    have hall : ((k0, c0) :: rest).all (fun kc => kc.2.length == c0.length) = true := by
      rw [List.all_eq_true]
      intro x hx
      simp [hwf.rect x hx, h0]
    rw [h0] at hall
    simp only [toRows, h0, hall, if_true, rowsOf]

theorem toCols_ok {rows : List (Row C)} {K : List Name} (hne : rows ≠ [])
    (hu : ∀ r ∈ rows, keys r = K) : toCols rows = .ok (colsOf rows) := by
  cases rows with
  | nil => exact absurd rfl hne
  | cons r0 rest =>
    have hK : keys r0 = K := hu r0 (by simp)
    simp only [toCols, colsOf]
    apply mapE_ok
    intro k hk
    rw [mapE_optE (f := get? k) (err := Err.keyError) (r0 :: rest)
      (fun r hr => get?_some_of_mem (by rw [hu r hr, ← hK]; exact hk))]
    rfl

theorem get?_colsOf {rows : List (Row C)} {r0 : Row C} (h0 : rows.head? = some r0) (k : Name) :
    get? k (colsOf rows) = if k ∈ keys r0 then some (colOf k rows) else none := by
  cases rows with
  | nil => simp at h0
  | cons r rest =>
    simp only [List.head?_cons, Option.some.injEq] at h0
    subst h0
    simp only [colsOf]
    generalize keys r = ks
    induction ks with
    | nil => simp [get?]
    | cons a as ih =>
      rw [List.map_cons, get?_cons, ih]
      by_cases ha : a = k
      · simp [ha]
      · have : ¬ k = a := fun e => ha e.symm
        simp [ha, this]

theorem keys_colsOf {rows : List (Row C)} {r0 : Row C} (h0 : rows.head? = some r0) :
    keys (colsOf rows) = keys r0 := by
  cases rows with
  | nil => simp at h0
  | cons r rest =>
    simp only [List.head?_cons, Option.some.injEq] at h0
    subst h0
    simp [colsOf, keys, List.map_map]

/-! ## 6. the stable sort -/

theorem insertBy_perm {α : Type} (lt : α → α → Bool) (x : α) (l : List α) :
    (insertBy lt x l).Perm (x :: l) := by
  induction l with
  | nil => exact List.Perm.refl _
  | cons y ys ih =>
    unfold insertBy
    split
    · exact (List.Perm.cons y ih).trans (List.Perm.swap x y ys)
    · exact List.Perm.refl _

theorem stableSort_perm {α : Type} (lt : α → α → Bool) (l : List α) : (stableSort lt l).Perm l := by
  induction l with
  | nil => exact List.Perm.refl _
  | cons x xs ih => exact (insertBy_perm lt x _).trans (List.Perm.cons x ih)

theorem insertBy_map {α γ : Type} (lt : α → α → Bool) (lt' : γ → γ → Bool) (g : α → γ)
    (h : ∀ a b, lt' (g a) (g b) = lt a b) (x : α) (l : List α) :
    insertBy lt' (g x) (l.map g) = (insertBy lt x l).map g := by
  induction l with
  | nil => rfl
  | cons y ys ih =>
    simp only [List.map_cons, insertBy, h]
    split <;> simp [ih]

theorem stableSort_map {α γ : Type} (lt : α → α → Bool) (lt' : γ → γ → Bool) (g : α → γ)
    (h : ∀ a b, lt' (g a) (g b) = lt a b) (l : List α) :
    stableSort lt' (l.map g) = (stableSort lt l).map g := by
  induction l with
  | nil => rfl
  | cons x xs ih => simp only [List.map_cons, stableSort, ih, insertBy_map lt lt' g h]

/-- a list in which no later element is strictly smaller than an earlier one -/
def Sorted {α : Type} (lt : α → α → Bool) (l : List α) : Prop :=
  l.Pairwise (fun a b => lt b a = false)

theorem insertBy_of_le {α : Type} (lt : α → α → Bool) (x : α) (l : List α)
    (h : ∀ y ∈ l, lt y x = false) : insertBy lt x l = x :: l := by
  cases l with
  | nil => rfl
  | cons y ys => simp [insertBy, h y (by simp)]

theorem stableSort_of_sorted {α : Type} (lt : α → α → Bool) (l : List α) (h : Sorted lt l) :
    stableSort lt l = l := by
  induction l with
  | nil => rfl
  | cons x xs ih =>
    have hp := List.pairwise_cons.mp h
    rw [stableSort, ih hp.2, insertBy_of_le lt x xs hp.1]

/-- `<` is a strict weak order (what Python's sort assumes of the keys) -/
structure StrictWeak {α : Type} (lt : α → α → Bool) : Prop where
  asymm : ∀ a b, lt a b = true → lt b a = false
  negTrans : ∀ a b c, lt b a = false → lt c b = false → lt c a = false

theorem insertBy_sorted {α : Type} {lt : α → α → Bool} (hs : StrictWeak lt) (x : α) (l : List α)
    (h : Sorted lt l) : Sorted lt (insertBy lt x l) := by
  induction l with
  | nil => simp [insertBy, Sorted]
  | cons y ys ih =>
    have hp := List.pairwise_cons.mp h
    unfold insertBy
    by_cases hyx : lt y x = true
    · simp only [hyx, if_true]
      refine List.pairwise_cons.mpr ⟨?_, ih hp.2⟩
      intro z hz
      rcases List.mem_cons.mp ((insertBy_perm lt x ys).subset hz) with rfl | hz
      · exact hs.asymm _ _ hyx
      · exact hp.1 z hz
    · have hyx' : lt y x = false := by simpa using hyx
      simp only [hyx', Bool.false_eq_true, if_false]
      refine List.pairwise_cons.mpr ⟨?_, h⟩
      intro z hz
      rcases List.mem_cons.mp hz with rfl | hz
      · exact hyx'
      · exact hs.negTrans x y z hyx' (hp.1 z hz)

theorem stableSort_sorted {α : Type} {lt : α → α → Bool} (hs : StrictWeak lt) (l : List α) :
    Sorted lt (stableSort lt l) := by
  induction l with
  | nil => simp [stableSort, Sorted]
  | cons x xs ih => exact insertBy_sorted hs x _ ih

theorem sublist_insertBy {α : Type} (lt : α → α → Bool) (x : α) (l : List α) :
    l.Sublist (insertBy lt x l) := by
  induction l with
  | nil => simp
  | cons y ys ih =>
    unfold insertBy
    split
    · exact List.Sublist.cons_cons y ih
    · exact List.Sublist.cons x (List.Sublist.refl _)

theorem pair_sublist_insertBy {α : Type} (lt : α → α → Bool) (x b : α) (l : List α)
    (hb : b ∈ l) (hle : lt b x = false) : [x, b].Sublist (insertBy lt x l) := by
  induction l with
  | nil => simp at hb
  | cons y ys ih =>
    unfold insertBy
    by_cases hyx : lt y x = true
    · simp only [hyx, if_true]
      rcases List.mem_cons.mp hb with rfl | hb
      · rw [hle] at hyx; cases hyx
      · exact List.Sublist.cons y (ih hb)
    · simp only [hyx, if_false]
      exact List.Sublist.cons_cons x (List.singleton_sublist.mpr hb)

/-- stability: two elements that are in order in the input and not strictly
decreasing keep their relative order -/
theorem stableSort_stable {α : Type} (lt : α → α → Bool) (l : List α) (a b : α)
    (hab : [a, b].Sublist l) (hle : lt b a = false) : [a, b].Sublist (stableSort lt l) := by
  induction l with
  | nil => simp at hab
  | cons x xs ih =>
    simp only [stableSort]
    cases hab with
    | cons _ h => exact (ih h).trans (sublist_insertBy lt x _)
    | cons_cons _ h =>
      have hb : b ∈ xs := List.singleton_sublist.mp h
      exact pair_sublist_insertBy lt a b _ ((stableSort_perm lt xs).mem_iff.mpr hb) hle

/-- decorate every dictionary with its temporal cell -/
def decorate (tk : Name) (rows : List (Row C)) : List (C × Row C) :=
  rows.filterMap (fun r => (get? tk r).map (fun c => (c, r)))

/-- `sorted(rows, key=lambda x: x[tk])` -/
def sortP (E : Env C) (tk : Name) (rows : List (Row C)) : List (Row C) :=
  (stableSort (fun a b => E.lt a.1 b.1) (decorate tk rows)).map (·.2)

theorem sortRows_ok (E : Env C) {tk : Name} {rows : List (Row C)} (h : ∀ r ∈ rows, tk ∈ keys r) :
    sortRows E tk rows = .ok (sortP E tk rows) := by
  unfold sortRows sortP decorate
  rw [mapE_optE (f := fun r : Row C => (get? tk r).map (fun c => (c, r))) (err := Err.keyError) rows
    (fun r hr => by obtain ⟨c, hc⟩ := get?_some_of_mem (h r hr); exact ⟨(c, r), by simp [hc]⟩)]
  rfl

theorem decorate_map_snd {tk : Name} {rows : List (Row C)} (h : ∀ r ∈ rows, tk ∈ keys r) :
    (decorate tk rows).map (·.2) = rows := by
  induction rows with
  | nil => rfl
  | cons r rs ih =>
    obtain ⟨c, hc⟩ := get?_some_of_mem (h r (by simp))
    have := ih (fun x hx => h x (by simp [hx]))
    simp only [decorate, List.filterMap_cons, hc, Option.map_some, List.map_cons] at this ⊢
    rw [this]

theorem sortP_perm (E : Env C) {tk : Name} {rows : List (Row C)} (h : ∀ r ∈ rows, tk ∈ keys r) :
    (sortP E tk rows).Perm rows := by
  have h1 := (stableSort_perm (fun a b : C × Row C => E.lt a.1 b.1) (decorate tk rows)).map (·.2)
  rw [decorate_map_snd h] at h1
  exact h1

/-- sorting commutes with a row map that keeps the temporal cell -/
theorem sortP_map (E : Env C) {tk : Name} (F : Row C → Row C) (rows : List (Row C))
    (hF : ∀ r ∈ rows, get? tk (F r) = get? tk r) :
    sortP E tk (rows.map F) = (sortP E tk rows).map F := by
  have hdec : decorate tk (rows.map F) = (decorate tk rows).map (fun p => (p.1, F p.2)) := by
    induction rows with
    | nil => rfl
    | cons r rs ih =>
      have := ih (fun x hx => hF x (by simp [hx]))
      simp only [decorate, List.map_cons, List.filterMap_cons, hF r (by simp)] at this ⊢
      cases get? tk r with
      | none => simpa using this
      | some c => simp [this]
  unfold sortP
  rw [hdec, stableSort_map (fun a b : C × Row C => E.lt a.1 b.1) (fun a b : C × Row C => E.lt a.1 b.1)
    (fun p => (p.1, F p.2)) (fun _ _ => rfl)]
  simp [List.map_map]

/-! ## 7. normal form of one call on a well-formed table -/

theorem temporalKey_eq (t : Table C) :
    temporalKey t = if has "time" t then some "time" else if has "t" t then some "t"
      else if has "iteration" t then some "iteration" else if has "it" t then some "it" else none := by
  simp only [temporalKey, temporalNames, List.foldl]

theorem temporalKey_mem {t : Table C} {tk : Name} (h : temporalKey t = some tk) :
    tk ∈ keys t ∧ tk ∈ temporalNames := by
  rw [temporalKey_eq] at h
  by_cases h4 : has "time" t = true
  · simp [h4] at h; subst h; exact ⟨has_iff.mp h4, by simp [temporalNames]⟩
  · by_cases h3 : has "t" t = true
    · simp [h4, h3] at h; subst h
      exact ⟨has_iff.mp h3, by simp [temporalNames]⟩
    · by_cases h2 : has "iteration" t = true
      · simp [h4, h3, h2] at h; subst h
        exact ⟨has_iff.mp h2, by simp [temporalNames]⟩
      · by_cases h1 : has "it" t = true
        · simp [h4, h3, h2, h1] at h; subst h
          exact ⟨has_iff.mp h1, by simp [temporalNames]⟩
        · simp [h4, h3, h2, h1] at h

/-- the temporal key only depends on which of the four names are keys -/
theorem temporalKey_congr {t t' : Table C} (h : ∀ k ∈ temporalNames, has k t = has k t') :
    temporalKey t = temporalKey t' := by
  rw [temporalKey_eq, temporalKey_eq, h "time" (by simp [temporalNames]), h "t" (by simp [temporalNames]),
    h "iteration" (by simp [temporalNames]), h "it" (by simp [temporalNames])]

theorem filterMap_congr' {α γ : Type} {f g : α → Option γ} {l : List α} (h : ∀ a ∈ l, f a = g a) :
    l.filterMap f = l.filterMap g := by
  induction l with
  | nil => rfl
  | cons a as ih =>
    simp only [List.filterMap_cons, h a (by simp), ih (fun b hb => h b (by simp [hb]))]

theorem rowAt_zero_eq (t : Table C) :
    rowAt t 0 = t.filterMap (fun kc => kc.2.head?.map (fun c => (kc.1, c))) := by
  unfold rowAt
  apply filterMap_congr'
  intro kc _
  cases kc.2 <;> rfl

theorem tableScalarKeys_ok (E : Env C) {t : Table C} {n : Nat} (hwf : WF t n) (hn : 0 < n) :
    tableScalarKeys E t = .ok (scalarKeys E (rowAt t 0)) := by
  unfold tableScalarKeys
  rw [mapE_optE (f := fun kc : Name × List C => kc.2.head?.map (fun c => (kc.1, c))) (err := Err.indexError) t
    (fun kc hkc => by
      have hl := hwf.rect kc hkc
      cases hc : kc.2 with
      | nil => rw [hc] at hl; simp at hl; omega
      | cons c cs => exact ⟨(kc.1, c), by simp⟩)]
  simp only [andThen_ok, scalarKeys, rowAt_zero_eq]

/-- `skey + '_' + est not in data` for some scalar key -/
def lacksIn (t : Table C) (sk : List Name) (nm : Name) : Bool := sk.any (fun s => !has (estKey s nm) t)

/-- the cleaned estimates of a call -/
def cleanedEsts (E : Env C) (t : Table C) (cv : List CReq) (ests : List Req) : List CReq :=
  ests.flatMap (cleanEstItem E (if cv.isEmpty then lacksIn t (scalarKeys E (rowAt t 0)) else fun _ => true))

theorem cleanEsts_ok (E : Env C) {t : Table C} {n : Nat} (hwf : WF t n) (hn : 0 < n)
    (cv : List CReq) (ests : List Req) : cleanEsts E t cv ests = .ok (cleanedEsts E t cv ests) := by
  unfold cleanEsts cleanedEsts
  cases cv with
  | nil => simp [tableScalarKeys_ok E hwf hn]; rfl
  | cons v vs => simp

theorem rowsOf_succ (t : Table C) (m : Nat) :
    rowsOf t (m + 1) = rowAt t 0 :: (List.range m).map (fun i => rowAt t (i + 1)) := by
  simp [rowsOf, List.range_succ_eq_map, List.map_map, Function.comp_def]

theorem keys_of_mem_rowsOf {t : Table C} {n : Nat} (hwf : WF t n) {r : Row C} (hr : r ∈ rowsOf t n) :
    keys r = keys t := by
  simp only [rowsOf, List.mem_map, List.mem_range] at hr
  obtain ⟨i, hi, rfl⟩ := hr
  exact keys_rowAt (fun kc hkc => by rw [hwf.rect kc hkc]; exact hi)

theorem processStep_ok (E : Env C) (r : Row C) (cv ce : List CReq) (sk : List Name)
    (h : sk ⊆ keys (stepVars E cv r)) :
    processStep E r cv ce (some sk) = .ok (stepRow E cv ce sk r, sk) := by
  simp [processStep, applyEsts_ok E ce sk _ h, stepRow]

theorem processStep_none_ok (E : Env C) (r : Row C) (cv ce : List CReq) :
    processStep E r cv ce none
      = .ok (stepRow E cv ce (scalarKeys E (stepVars E cv r)) r, scalarKeys E (stepVars E cv r)) := by
  simp [processStep, applyEsts_ok E ce _ _ (scalarKeys_subset E _), stepRow]

/-- the processed rows of a call, in input order -/
def callRows (E : Env C) (t : Table C) (n : Nat) (cv ce : List CReq) : List (Row C) :=
  (rowsOf t n).map (stepRow E cv ce (scalarKeys E (stepVars E cv (rowAt t 0))))

theorem subset_keys_stepRow (E : Env C) (cv ce : List CReq) (sk : List Name) (r : Row C) :
    keys r ⊆ keys (stepRow E cv ce sk r) := by
  rw [keys_stepRow]
  exact List.Subset.trans (subset_foldl_addKey _ _) (subset_applyEstsK _ _ _)

theorem overTime_nf (E : Env C) {t : Table C} {n : Nat} {tk : Name} (hwf : WF t n) (hn : 0 < n)
    (htk : temporalKey t = some tk) (vars ests : List Req) :
    overTime E t vars ests =
      if (cleanVars E t vars).isEmpty && (cleanedEsts E t (cleanVars E t vars) ests).isEmpty then .ok t
      else .ok (colsOf (sortP E tk (callRows E t n (cleanVars E t vars)
        (cleanedEsts E t (cleanVars E t vars) ests)))) := by
  have htkm := (temporalKey_mem htk).1
  have hne : t ≠ [] := by intro h; subst h; simp [keys] at htkm
  unfold overTime
  simp only [htk, optE_some, andThen_ok, cleanEsts_ok E hwf hn]
  generalize cleanVars E t vars = cv
  generalize cleanedEsts E t cv ests = ce
  by_cases hnn : (cv.isEmpty && ce.isEmpty) = true
  · rw [if_pos hnn, if_pos hnn]
  · rw [if_neg hnn, if_neg hnn]
    simp only [toRows_ok hwf hne, andThen_ok]
    obtain ⟨m, rfl⟩ : ∃ m, n = m + 1 := ⟨n - 1, by omega⟩
    have hrows := rowsOf_succ t m
    have hk0 : keys (rowAt t 0) = keys t := keys_of_mem_rowsOf hwf (by rw [hrows]; simp)
    rw [hrows]
    simp only [processStep_none_ok, andThen_ok]
    generalize hsk : scalarKeys E (stepVars E cv (rowAt t 0)) = sk
    have hrest : mapE (fun r => andThen (processStep E r cv ce (some sk)) fun p => Except.ok p.1)
        ((List.range m).map (fun i => rowAt t (i + 1)))
        = .ok (((List.range m).map (fun i => rowAt t (i + 1))).map (stepRow E cv ce sk)) := by
      apply mapE_ok
      intro r hr
      have hkr : keys r = keys t := keys_of_mem_rowsOf hwf (by rw [hrows]; simp [hr])
      have hsub : sk ⊆ keys (stepVars E cv r) := by
        rw [keys_stepVars, hkr, ← hk0, ← keys_stepVars, ← hsk]
        exact scalarKeys_subset E _
      simp [processStep_ok E r cv ce sk hsub]
    simp only [hrest, andThen_ok]
    have hcr : callRows E t (m + 1) cv ce
        = stepRow E cv ce sk (rowAt t 0) :: ((List.range m).map (fun i => rowAt t (i + 1))).map (stepRow E cv ce sk) := by
      simp only [callRows, hrows, List.map_cons, hsk]
    rw [← hcr]
    have hkeys : ∀ r ∈ callRows E t (m + 1) cv ce, keys r = keys (stepRow E cv ce sk (rowAt t 0)) := by
      intro r hr
      simp only [callRows, List.mem_map] at hr
      obtain ⟨r', hr', rfl⟩ := hr
      rw [hsk]
      exact keys_stepRow_congr E cv ce _ ((keys_of_mem_rowsOf hwf hr').trans hk0.symm)
    have htkall : ∀ r ∈ callRows E t (m + 1) cv ce, tk ∈ keys r := by
      intro r hr
      simp only [callRows, List.mem_map] at hr
      obtain ⟨r', hr', rfl⟩ := hr
      exact subset_keys_stepRow E cv ce _ r' (by rw [keys_of_mem_rowsOf hwf hr']; exact htkm)
    rw [sortRows_ok E htkall, andThen_ok]
    have hperm := sortP_perm E htkall
    apply toCols_ok (K := keys (stepRow E cv ce sk (rowAt t 0)))
    · intro h
      have := hperm.length_eq
      rw [h, hcr] at this
      simp at this
    · intro r hr
      exact hkeys r (hperm.subset hr)

/-! ## 8. look-ups in the processed rows -/

/-- `rel.data` of the fresh `AurelCore` of one step once the custom variables
are set: a function of that step's dictionary alone -/
def relData (E : Env C) (cv : List CReq) (r : Row C) : Row C := runCustoms E cv (loadRel cv r)

theorem get?_storeVars (E : Env C) (vars : List CReq) (rd row : Row C) (k : Name) :
    get? k (storeVars E vars rd row)
      = if k ∈ vars.map CReq.key then some (relGet E rd k) else get? k row := by
  unfold storeVars
  induction vars generalizing row with
  | nil => simp
  | cons v vs ih =>
    simp only [List.foldl_cons, List.map_cons, List.mem_cons]
    rw [ih, get?_dset]
    by_cases h1 : k ∈ vs.map CReq.key
    · simp [h1]
    · by_cases h2 : k = v.key
      · simp [h2]
      · simp [h1, h2]

theorem get?_stepVars (E : Env C) (cv : List CReq) (r : Row C) (k : Name) :
    get? k (stepVars E cv r)
      = if k ∈ cv.map CReq.key then some (relGet E (relData E cv r) k) else get? k r := by
  cases cv with
  | nil => simp [stepVars]
  | cons v vs =>
    simp only [stepVars, List.isEmpty_cons, Bool.false_eq_true, if_false, get?_storeVars, relData]

theorem get?_estOneP_of_mem (E : Env C) (e : CReq) {d : Row C} (key : Name) {k : Name} (h : k ∈ keys d) :
    get? k (estOneP E e d key) = get? k d := by
  unfold estOneP
  split
  · rfl
  · split
    · exact get?_append_left h
    · rfl

theorem get?_foldl_estOneP_of_mem (E : Env C) (e : CReq) (sk : List Name) {d : Row C} {k : Name}
    (h : k ∈ keys d) : get? k (sk.foldl (estOneP E e) d) = get? k d := by
  induction sk generalizing d with
  | nil => rfl
  | cons key ks ih =>
    simp only [List.foldl_cons]
    rw [ih (by rw [keys_estOneP]; exact subset_estOneK _ _ _ h), get?_estOneP_of_mem E e key h]

theorem get?_applyEstsP_of_mem (E : Env C) (ests : List CReq) (sk : List Name) {d : Row C} {k : Name}
    (h : k ∈ keys d) : get? k (applyEstsP E ests sk d) = get? k d := by
  unfold applyEstsP
  induction ests generalizing d with
  | nil => rfl
  | cons e es ih =>
    simp only [List.foldl_cons]
    rw [ih (by rw [keys_foldl_estOneP]; exact subset_foldl_estOneK _ _ _ h),
      get?_foldl_estOneP_of_mem E e sk h]

theorem cleanVars_fresh (E : Env C) (t : Table C) (vars : List Req) {v : CReq}
    (hv : v ∈ cleanVars E t vars) : v.key ∉ keys t := by
  simp only [cleanVars, List.mem_flatMap] at hv
  obtain ⟨item, _, hv⟩ := hv
  cases item with
  | name s =>
    simp only [cleanVarItem] at hv
    split at hv
    · rename_i hc
      simp only [List.mem_singleton] at hv
      subst hv
      simp only [Bool.and_eq_true, Bool.not_eq_eq_eq_not, Bool.not_true] at hc
      exact has_false_iff.mp hc.1
    · simp at hv
  | dict items =>
    simp only [cleanVarItem, List.mem_filterMap] at hv
    obtain ⟨nf, _, hnf⟩ := hv
    split at hnf
    · rename_i hc
      simp only [Option.some.injEq] at hnf
      subst hnf
      simp only [Bool.and_eq_true, Bool.not_eq_eq_eq_not, Bool.not_true] at hc
      exact has_false_iff.mp hc.1
    · simp at hnf
  | other => simp [cleanVarItem] at hv

theorem not_mem_names_of_mem_keys (E : Env C) {t : Table C} {vars : List Req} {k : Name}
    (hk : k ∈ keys t) : k ∉ (cleanVars E t vars).map CReq.key := by
  intro h
  obtain ⟨v, hv, rfl⟩ := List.mem_map.mp h
  exact cleanVars_fresh E t vars hv hk

theorem get?_colsOf_map {L : List (Row C)} {F : Row C → Row C} {g : Row C → C} {k : Name}
    (hne : L ≠ []) (h : ∀ r ∈ L, get? k (F r) = some (g r)) :
    get? k (colsOf (L.map F)) = some (L.map g) := by
  cases L with
  | nil => exact absurd rfl hne
  | cons r0 rest =>
    have hk : k ∈ keys (F r0) := mem_keys_of_get? (h r0 (by simp))
    rw [get?_colsOf (r0 := F r0) (by simp), if_pos hk, colOf, List.filterMap_map]
    congr 1
    rw [← List.filterMap_eq_map]
    exact filterMap_congr' (fun r hr => by simp [h r hr])

theorem colOf_map_congr {L : List (Row C)} {F : Row C → Row C} {k : Name}
    (h : ∀ r ∈ L, get? k (F r) = get? k r) : colOf k (L.map F) = colOf k L := by
  rw [colOf, List.filterMap_map]
  exact filterMap_congr' (fun r hr => by simp [h r hr])

theorem filterMap_getElem?_range {α : Type} (l : List α) :
    (List.range l.length).filterMap (fun i => l[i]?) = l := by
  induction l with
  | nil => rfl
  | cons a as ih =>
    rw [List.length_cons, List.range_succ_eq_map, List.filterMap_cons]
    simp only [List.getElem?_cons_zero, List.filterMap_map]
    congr 1

/-- an input column is the column of the row list -/
theorem colOf_rowsOf {t : Table C} {n : Nat} (hwf : WF t n) {k : Name} {col : List C}
    (hk : get? k t = some col) : colOf k (rowsOf t n) = col := by
  have hlen : col.length = n := by
    have hmem : (k, col) ∈ t := by
      clear hwf
      induction t with
      | nil => simp [get?] at hk
      | cons kc rest ih =>
        rw [get?_cons] at hk
        by_cases h : kc.1 = k
        · simp only [h, if_true, Option.some.injEq] at hk
          subst hk; subst h; simp
        · simp only [h, if_false] at hk
          exact List.mem_cons_of_mem _ (ih hk)
    exact hwf.rect _ hmem
  rw [colOf, rowsOf, List.filterMap_map]
  have : ∀ i ∈ List.range n, (get? k ∘ rowAt t) i = col[i]? := by
    intro i hi
    have hi' : i < n := List.mem_range.mp hi
    simp [get?_rowAt (fun kc hkc => by rw [hwf.rect kc hkc]; exact hi') k, hk]
  rw [filterMap_congr' this, ← hlen]
  exact filterMap_getElem?_range col

theorem tk_not_name (E : Env C) {t : Table C} {tk : Name} (htk : temporalKey t = some tk) (vars : List Req) :
    tk ∉ (cleanVars E t vars).map CReq.key :=
  not_mem_names_of_mem_keys E (temporalKey_mem htk).1

/-- a processed row keeps every cell of its input row -/
theorem get?_stepRow_input (E : Env C) {t : Table C} {vars : List Req} (ce : List CReq) (sk : List Name)
    {r : Row C} (hr : keys r = keys t) {k : Name} (hk : k ∈ keys t) :
    get? k (stepRow E (cleanVars E t vars) ce sk r) = get? k r := by
  unfold stepRow
  have hk' : k ∈ keys (stepVars E (cleanVars E t vars) r) := by
    rw [keys_stepVars]; exact subset_foldl_addKey _ _ (by rw [hr]; exact hk)
  rw [get?_applyEstsP_of_mem E ce sk hk', get?_stepVars, if_neg (not_mem_names_of_mem_keys E hk)]

/-- sorted form of the normal form: the output is the column view of the
stably sorted input rows, each processed on its own -/
theorem overTime_nf2 (E : Env C) {t : Table C} {n : Nat} {tk : Name} (hwf : WF t n) (hn : 0 < n)
    (htk : temporalKey t = some tk) (vars ests : List Req) :
    overTime E t vars ests =
      if (cleanVars E t vars).isEmpty && (cleanedEsts E t (cleanVars E t vars) ests).isEmpty then .ok t
      else .ok (colsOf ((sortP E tk (rowsOf t n)).map
        (stepRow E (cleanVars E t vars) (cleanedEsts E t (cleanVars E t vars) ests)
          (scalarKeys E (stepVars E (cleanVars E t vars) (rowAt t 0)))))) := by
  rw [overTime_nf E hwf hn htk]
  unfold callRows
  rw [sortP_map]
  intro r hr
  exact get?_stepRow_input E _ _ (keys_of_mem_rowsOf hwf hr) (temporalKey_mem htk).1

theorem rowsOf_ne_nil (t : Table C) {n : Nat} (hn : 0 < n) : rowsOf t n ≠ [] := by
  obtain ⟨m, rfl⟩ : ∃ m, n = m + 1 := ⟨n - 1, by omega⟩
  rw [rowsOf_succ]; simp

theorem tk_mem_rows {t : Table C} {n : Nat} {tk : Name} (hwf : WF t n) (htk : temporalKey t = some tk) :
    ∀ r ∈ rowsOf t n, tk ∈ keys r := fun r hr => by
  rw [keys_of_mem_rowsOf hwf hr]; exact (temporalKey_mem htk).1

theorem sorted_ne_nil (E : Env C) {t : Table C} {n : Nat} {tk : Name} (hwf : WF t n) (hn : 0 < n)
    (htk : temporalKey t = some tk) : sortP E tk (rowsOf t n) ≠ [] := by
  intro h
  have := (sortP_perm E (tk_mem_rows hwf htk)).length_eq
  rw [h] at this
  exact rowsOf_ne_nil t hn (List.length_eq_zero_iff.mp this.symm)

theorem keys_of_mem_sorted (E : Env C) {t : Table C} {n : Nat} {tk : Name} (hwf : WF t n)
    (htk : temporalKey t = some tk) {r : Row C} (hr : r ∈ sortP E tk (rowsOf t n)) : keys r = keys t :=
  keys_of_mem_rowsOf hwf ((sortP_perm E (tk_mem_rows hwf htk)).subset hr)

/-! ## 9. the estimate written for one (scalar key, estimator) pair -/

theorem get?_estOneP_other (E : Env C) (e : CReq) (d : Row C) (key : Name) {k : Name}
    (hne : estKey key e.key ≠ k) : get? k (estOneP E e d key) = get? k d := by
  unfold estOneP
  split
  · rfl
  · split
    · rw [get?_append, get?_cons]
      simp [hne, get?]
    · rfl

/-- inner loop for the estimator `e` itself: the key of `(k, e)` is written from `d[k]` -/
theorem get?_foldl_estOneP_self (E : Env C) (e : CReq) (sk : List Name) (d : Row C) (k : Name) (c : C)
    (hk : k ∈ sk) (hc : get? k d = some c) (hnew : estKey k e.key ∉ keys d)
    (huniq : ∀ k' ∈ sk, estKey k' e.key = estKey k e.key → k' = k) :
    get? (estKey k e.key) (sk.foldl (estOneP E e) d) = some (estApply E e c) := by
  induction sk generalizing d with
  | nil => simp at hk
  | cons k0 ks ih =>
    simp only [List.foldl_cons]
    by_cases h0 : k0 = k
    · subst h0
      have hstep : get? (estKey k0 e.key) (estOneP E e d k0) = some (estApply E e c) := by
        unfold estOneP
        rw [has_false_iff.mpr hnew]
        simp only [Bool.false_eq_true, if_false, hc]
        rw [get?_append_right hnew, get?_cons]
        simp
      rw [get?_foldl_estOneP_of_mem E e ks (mem_keys_of_get? hstep), hstep]
    · have hk' : k ∈ ks := by
        rcases List.mem_cons.mp hk with h | h
        · exact absurd h.symm h0
        · exact h
      have hne : estKey k0 e.key ≠ estKey k e.key := fun h => h0 (huniq k0 (by simp) h)
      apply ih (estOneP E e d k0) hk'
      · rw [get?_estOneP_of_mem E e k0 (mem_keys_of_get? hc), hc]
      · intro hmem
        have := get?_estOneP_other E e d k0 hne
        rw [get?_none_iff.mpr hnew] at this
        exact (get?_none_iff.mp this) hmem
      · exact fun k' hk'' => huniq k' (by simp [hk''])

/-- inner loop of another estimator: the key of `(k, e)` is not touched -/
theorem get?_foldl_estOneP_other (E : Env C) (e' : CReq) (sk : List Name) (d : Row C) {key : Name}
    (hne : ∀ k' ∈ sk, estKey k' e'.key ≠ key) :
    get? key (sk.foldl (estOneP E e') d) = get? key d := by
  induction sk generalizing d with
  | nil => rfl
  | cons k0 ks ih =>
    simp only [List.foldl_cons]
    rw [ih _ (fun k' hk' => hne k' (by simp [hk'])), get?_estOneP_other E e' d k0 (hne k0 (by simp))]

/-- after the double loop the column `k_e` holds `est e (d[k])` — provided the
name `k_e` is new and no other (scalar key, estimator) pair spells the same name -/
theorem get?_applyEstsP_est (E : Env C) (ce : List CReq) (sk : List Name) (d : Row C)
    (e : CReq) (k : Name) (c : C) (he : e ∈ ce) (hk : k ∈ sk) (hc : get? k d = some c)
    (hnew : estKey k e.key ∉ keys d)
    (huniq : ∀ e' ∈ ce, ∀ k' ∈ sk, estKey k' e'.key = estKey k e.key → e' = e ∧ k' = k) :
    get? (estKey k e.key) (applyEstsP E ce sk d) = some (estApply E e c) := by
  unfold applyEstsP
  induction ce generalizing d with
  | nil => simp at he
  | cons e0 es ih =>
    simp only [List.foldl_cons]
    by_cases h0 : e0 = e
    · subst h0
      have h1 := get?_foldl_estOneP_self E e0 sk d k c hk hc hnew
        (fun k' hk' h => (huniq e0 (by simp) k' hk' h).2)
      have := get?_applyEstsP_of_mem E es sk (mem_keys_of_get? h1)
      unfold applyEstsP at this
      rw [this, h1]
    · have he' : e ∈ es := by
        rcases List.mem_cons.mp he with h | h
        · exact absurd h.symm h0
        · exact h
      have hne : ∀ k' ∈ sk, estKey k' e0.key ≠ estKey k e.key :=
        fun k' hk' h => h0 (huniq e0 (by simp) k' hk' h).1
      apply ih (sk.foldl (estOneP E e0) d) he'
      · rw [get?_foldl_estOneP_of_mem E e0 sk (mem_keys_of_get? hc), hc]
      · intro hmem
        have := get?_foldl_estOneP_other E e0 sk d hne
        rw [get?_none_iff.mpr hnew] at this
        exact (get?_none_iff.mp this) hmem
      · exact fun e' he'' => huniq e' (by simp [he''])

/-! ## 10. T1-T3, T5 -/

/-- the call computes something (it does not return its input unchanged) -/
def Processes (E : Env C) (t : Table C) (vars ests : List Req) : Prop :=
  ((cleanVars E t vars).isEmpty && (cleanedEsts E t (cleanVars E t vars) ests).isEmpty) = false

instance (E : Env C) (t : Table C) (vars ests : List Req) : Decidable (Processes E t vars ests) := by
  unfold Processes; infer_instance

/-- the scalar keys of a call: decided on the first row of the table as given -/
def callSk (E : Env C) (t : Table C) (vars : List Req) : List Name :=
  scalarKeys E (stepVars E (cleanVars E t vars) (rowAt t 0))

/-- the row function of a call -/
def callF (E : Env C) (t : Table C) (vars ests : List Req) : Row C → Row C :=
  stepRow E (cleanVars E t vars) (cleanedEsts E t (cleanVars E t vars) ests) (callSk E t vars)

theorem overTime_processes (E : Env C) {t : Table C} {n : Nat} {tk : Name} (hwf : WF t n) (hn : 0 < n)
    (htk : temporalKey t = some tk) {vars ests : List Req} (hp : Processes E t vars ests) :
    overTime E t vars ests = .ok (colsOf ((sortP E tk (rowsOf t n)).map (callF E t vars ests))) := by
  rw [overTime_nf2 E hwf hn htk, hp]
  rfl

theorem overTime_nothing_new (E : Env C) {t : Table C} {n : Nat} {tk : Name} (hwf : WF t n) (hn : 0 < n)
    (htk : temporalKey t = some tk) {vars ests : List Req} (hp : ¬ Processes E t vars ests) :
    overTime E t vars ests = .ok t := by
  rw [overTime_nf2 E hwf hn htk]
  simp only [Processes, Bool.not_eq_false] at hp
  rw [hp]; rfl

theorem per_step_lemma (E : Env C) {t : Table C} {n : Nat} {tk : Name} (hwf : WF t n) (hn : 0 < n)
    (htk : temporalKey t = some tk) {vars ests : List Req} (hp : Processes E t vars ests) :
    ∃ out, overTime E t vars ests = .ok out ∧
      ∀ v ∈ cleanVars E t vars,
        get? v.key out = some ((sortP E tk (rowsOf t n)).map
          (fun r => relGet E (relData E (cleanVars E t vars) r) v.key)) := by
  refine ⟨_, overTime_processes E hwf hn htk hp, ?_⟩
  intro v hv
  apply get?_colsOf_map (sorted_ne_nil E hwf hn htk)
  intro r _
  have hmem : v.key ∈ (cleanVars E t vars).map CReq.key := List.mem_map.mpr ⟨v, hv, rfl⟩
  have h1 : get? v.key (stepVars E (cleanVars E t vars) r)
      = some (relGet E (relData E (cleanVars E t vars) r) v.key) := by
    rw [get?_stepVars, if_pos hmem]
  unfold callF stepRow
  rw [get?_applyEstsP_of_mem E _ _ (mem_keys_of_get? h1), h1]

theorem inVars_iff (key : Name) (vars : List CReq) :
    inVars key vars = true → key ∈ vars.map CReq.key := by
  intro h
  simp only [inVars, List.any_eq_true] at h
  obtain ⟨v, hv, hk⟩ := h
  cases v with
  | name s => simp only [beq_iff_eq] at hk; exact List.mem_map.mpr ⟨.name s, hv, hk⟩
  | fn n f => simp at hk

theorem loadRel_of_fresh {cv : List CReq} {r : Row C} (h : ∀ k ∈ keys r, k ∉ cv.map CReq.key) :
    loadRel cv r = r := by
  unfold loadRel
  rw [List.filter_eq_self]
  intro kv hkv
  have hk : kv.1 ∈ keys r := List.mem_map.mpr ⟨kv, hkv, rfl⟩
  cases hi : inVars kv.1 cv with
  | false => rfl
  | true => exact absurd (inVars_iff _ _ hi) (h _ hk)

theorem runCustoms_names (E : Env C) {cv : List CReq} (h : ∀ v ∈ cv, ∃ s, v = .name s) (rd : Row C) :
    runCustoms E cv rd = rd := by
  unfold runCustoms
  induction cv generalizing rd with
  | nil => rfl
  | cons v vs ih =>
    obtain ⟨s, rfl⟩ := h v (by simp)
    simp only [List.foldl_cons]
    exact ih (fun x hx => h x (by simp [hx])) rd

/-- built-in names only: every stored cell is `comp` of that row's own input dictionary -/
theorem per_step_builtin_lemma (E : Env C) {t : Table C} {n : Nat} {tk : Name} (hwf : WF t n) (hn : 0 < n)
    (htk : temporalKey t = some tk) {vars ests : List Req} (hp : Processes E t vars ests)
    (hb : ∀ v ∈ cleanVars E t vars, ∃ s, v = .name s) :
    ∃ out, overTime E t vars ests = .ok out ∧
      ∀ s, CReq.name s ∈ cleanVars E t vars →
        get? s out = some ((sortP E tk (rowsOf t n)).map (fun r => E.comp r s)) := by
  obtain ⟨out, hout, hcells⟩ := per_step_lemma E hwf hn htk hp
  refine ⟨out, hout, ?_⟩
  intro s hs
  have := hcells (.name s) hs
  simp only [CReq.key] at this
  rw [this]
  congr 1
  apply List.map_congr_left
  intro r hr
  have hkr := keys_of_mem_sorted E hwf htk hr
  have hload : loadRel (cleanVars E t vars) r = r :=
    loadRel_of_fresh (fun k hk => not_mem_names_of_mem_keys E (by rw [← hkr]; exact hk))
  have hrd : relData E (cleanVars E t vars) r = r := by
    unfold relData; rw [hload, runCustoms_names E hb]
  have hfresh : s ∉ keys r := by
    rw [hkr]; exact cleanVars_fresh E t vars hs
  rw [hrd, relGet, get?_none_iff.mpr hfresh]

theorem mem_foldl_addKey {x : Name} {names ks : List Name} :
    x ∈ names.foldl addKey ks ↔ x ∈ ks ∨ x ∈ names := by
  induction names generalizing ks with
  | nil => simp
  | cons a as ih =>
    simp only [List.foldl_cons, ih, List.mem_cons]
    unfold addKey
    by_cases ha : a ∈ ks
    · simp only [ha, if_true]
      constructor
      · rintro (h | h); exact Or.inl h; exact Or.inr (Or.inr h)
      · rintro (h | h | h); exact Or.inl h; exact Or.inl (h ▸ ha); exact Or.inr h
    · simp only [ha, if_false, List.mem_append, List.mem_singleton]
      constructor
      · rintro ((h | h) | h); exact Or.inl h; exact Or.inr (Or.inl h); exact Or.inr (Or.inr h)
      · rintro (h | h | h); exact Or.inl (Or.inl h); exact Or.inl (Or.inr h); exact Or.inr h

theorem mem_scalarKeys_of_get? (E : Env C) {d : Row C} {k : Name} {c : C} (h : get? k d = some c)
    (h3 : E.is3 c = true) : k ∈ scalarKeys E d := by
  induction d with
  | nil => simp [get?] at h
  | cons kv rest ih =>
    rw [get?_cons] at h
    by_cases hk : kv.1 = k
    · simp only [hk, if_true, Option.some.injEq] at h
      simp [scalarKeys, List.filter_cons, h, h3, hk]
    · simp only [hk, if_false] at h
      have := ih h
      simp only [scalarKeys, List.mem_map, List.mem_filter] at this ⊢
      obtain ⟨x, ⟨hx, h3x⟩, hxk⟩ := this
      exact ⟨x, ⟨List.mem_cons_of_mem _ hx, h3x⟩, hxk⟩

theorem estimates_lemma (E : Env C) {t : Table C} {n : Nat} {tk : Name} (hwf : WF t n) (hn : 0 < n)
    (htk : temporalKey t = some tk) {vars ests : List Req} (hp : Processes E t vars ests)
    {e : CReq} {k : Name} (he : e ∈ cleanedEsts E t (cleanVars E t vars) ests) (hk : k ∈ callSk E t vars)
    (hnew1 : estKey k e.key ∉ keys t) (hnew2 : estKey k e.key ∉ (cleanVars E t vars).map CReq.key)
    (huniq : ∀ e' ∈ cleanedEsts E t (cleanVars E t vars) ests, ∀ k' ∈ callSk E t vars,
      estKey k' e'.key = estKey k e.key → e' = e ∧ k' = k) :
    ∃ out col, overTime E t vars ests = .ok out ∧ get? k out = some col ∧
      get? (estKey k e.key) out = some (col.map (estApply E e)) := by
  have hout := overTime_processes E hwf hn htk hp
  have hne := sorted_ne_nil E hwf hn htk
  -- per row
  have hrow : ∀ r ∈ sortP E tk (rowsOf t n), ∃ c, get? k (callF E t vars ests r) = some c ∧
      get? (estKey k e.key) (callF E t vars ests r) = some (estApply E e c) := by
    intro r hr
    have hkr := keys_of_mem_sorted E hwf htk hr
    have hk0 : keys (rowAt t 0) = keys t := keys_of_mem_rowsOf hwf (by
      obtain ⟨m, rfl⟩ : ∃ m, n = m + 1 := ⟨n - 1, by omega⟩
      rw [rowsOf_succ]; simp)
    have hkd : k ∈ keys (stepVars E (cleanVars E t vars) r) := by
      rw [keys_stepVars, hkr, ← hk0, ← keys_stepVars]
      exact scalarKeys_subset E _ hk
    obtain ⟨c, hc⟩ := get?_some_of_mem hkd
    refine ⟨c, ?_, ?_⟩
    · unfold callF stepRow
      rw [get?_applyEstsP_of_mem E _ _ hkd, hc]
    · unfold callF stepRow
      apply get?_applyEstsP_est E _ _ _ e k c he hk hc _ huniq
      rw [keys_stepVars, mem_foldl_addKey, hkr]
      rintro (h | h)
      · exact hnew1 h
      · exact hnew2 h
  obtain ⟨r0, rest, hL⟩ : ∃ r0 rest, sortP E tk (rowsOf t n) = r0 :: rest := by
    cases hs : sortP E tk (rowsOf t n) with
    | nil => exact absurd hs hne
    | cons a b => exact ⟨a, b, rfl⟩
  obtain ⟨c0, hc0, hc0'⟩ := hrow r0 (by rw [hL]; simp)
  have hhead : ((sortP E tk (rowsOf t n)).map (callF E t vars ests)).head? = some (callF E t vars ests r0) := by
    rw [hL]; rfl
  refine ⟨_, colOf k ((sortP E tk (rowsOf t n)).map (callF E t vars ests)), hout, ?_, ?_⟩
  · rw [get?_colsOf hhead, if_pos (mem_keys_of_get? hc0)]
  · rw [get?_colsOf hhead, if_pos (mem_keys_of_get? hc0')]
    congr 1
    simp only [colOf, List.filterMap_map, List.map_filterMap]
    apply filterMap_congr'
    intro r hr
    obtain ⟨c, h1, h2⟩ := hrow r hr
    simp [h1, h2]

/-! ### ordering -/

theorem decorate_spec {tk : Name} {rows : List (Row C)} {p : C × Row C} (hp : p ∈ decorate tk rows) :
    get? tk p.2 = some p.1 ∧ p.2 ∈ rows := by
  simp only [decorate, List.mem_filterMap] at hp
  obtain ⟨r, hr, hpr⟩ := hp
  cases hg : get? tk r with
  | none => simp [hg] at hpr
  | some c =>
    simp only [hg, Option.map_some, Option.some.injEq] at hpr
    subst hpr
    exact ⟨hg, hr⟩

/-- "not later before earlier" on dictionaries, by their temporal cells -/
def RowLe (E : Env C) (tk : Name) (a b : Row C) : Prop :=
  ∀ ca cb, get? tk a = some ca → get? tk b = some cb → E.lt cb ca = false

theorem sortP_pairwise (E : Env C) (hsw : StrictWeak E.lt) (tk : Name) (rows : List (Row C)) :
    (sortP E tk rows).Pairwise (RowLe E tk) := by
  unfold sortP
  have hsw' : StrictWeak (fun a b : C × Row C => E.lt a.1 b.1) :=
    ⟨fun a b => hsw.asymm a.1 b.1, fun a b c => hsw.negTrans a.1 b.1 c.1⟩
  have hs := stableSort_sorted hsw' (decorate tk rows)
  rw [List.pairwise_map]
  refine List.Pairwise.imp_of_mem ?_ hs
  intro p q hp hq hpq ca cb hca hcb
  have h1 := (decorate_spec ((stableSort_perm _ _).subset hp)).1
  have h2 := (decorate_spec ((stableSort_perm _ _).subset hq)).1
  rw [h1] at hca; rw [h2] at hcb
  cases hca; cases hcb
  exact hpq

theorem sortP_stable (E : Env C) {tk : Name} {rows : List (Row C)} (h : ∀ r ∈ rows, tk ∈ keys r)
    {a b : Row C} (hab : [a, b].Sublist rows) (hle : RowLe E tk a b) :
    [a, b].Sublist (sortP E tk rows) := by
  have ha : a ∈ rows := hab.subset (by simp)
  have hb : b ∈ rows := hab.subset (by simp)
  obtain ⟨ca, hca⟩ := get?_some_of_mem (h a ha)
  obtain ⟨cb, hcb⟩ := get?_some_of_mem (h b hb)
  have hdec : [(ca, a), (cb, b)].Sublist (decorate tk rows) := by
    have := hab.filterMap (fun r => (get? tk r).map (fun c => (c, r)))
    simpa [hca, hcb, decorate] using this
  have := stableSort_stable (fun p q : C × Row C => E.lt p.1 q.1) _ _ _ hdec (hle ca cb hca hcb)
  exact this.map (·.2)

theorem sorted_together_lemma (E : Env C) {t : Table C} {n : Nat} {tk : Name} (hwf : WF t n) (hn : 0 < n)
    (htk : temporalKey t = some tk) (hsw : StrictWeak E.lt) {vars ests : List Req}
    (hp : Processes E t vars ests) :
    ∃ out sorted,
      overTime E t vars ests = .ok out ∧
      sorted.Perm (rowsOf t n) ∧ sorted.Pairwise (RowLe E tk) ∧
      (∀ a b, [a, b].Sublist (rowsOf t n) → RowLe E tk a b → [a, b].Sublist sorted) ∧
      out = colsOf (sorted.map (callF E t vars ests)) ∧
      (∀ r ∈ sorted, ∀ k ∈ keys t, get? k (callF E t vars ests r) = get? k r) ∧
      (∀ k col, get? k t = some col → colOf k (rowsOf t n) = col ∧ get? k out = some (colOf k sorted)) := by
  refine ⟨_, sortP E tk (rowsOf t n), overTime_processes E hwf hn htk hp,
    sortP_perm E (tk_mem_rows hwf htk), sortP_pairwise E hsw tk _,
    fun a b hab hle => sortP_stable E (tk_mem_rows hwf htk) hab hle, rfl, ?_, ?_⟩
  · intro r hr k hk
    exact get?_stepRow_input E _ _ (keys_of_mem_sorted E hwf htk hr) hk
  · intro k col hk
    refine ⟨colOf_rowsOf hwf hk, ?_⟩
    have hkt : k ∈ keys t := mem_keys_of_get? hk
    obtain ⟨r0, rest, hL⟩ : ∃ r0 rest, sortP E tk (rowsOf t n) = r0 :: rest := by
      cases hs : sortP E tk (rowsOf t n) with
      | nil => exact absurd hs (sorted_ne_nil E hwf hn htk)
      | cons a b => exact ⟨a, b, rfl⟩
    have hr0 : r0 ∈ sortP E tk (rowsOf t n) := by rw [hL]; simp
    have hhead : ((sortP E tk (rowsOf t n)).map (callF E t vars ests)).head? = some (callF E t vars ests r0) := by
      rw [hL]; rfl
    rw [get?_colsOf hhead, if_pos, colOf_map_congr]
    · intro r hr
      exact get?_stepRow_input E _ _ (keys_of_mem_sorted E hwf htk hr) hkt
    · exact subset_keys_stepRow E _ _ _ r0 (by rw [keys_of_mem_sorted E hwf htk hr0]; exact hkt)

theorem single_row_lemma (E : Env C) {t : Table C} {tk : Name} (hwf : WF t 1)
    (htk : temporalKey t = some tk) {vars ests : List Req} (hp : Processes E t vars ests) :
    overTime E t vars ests = .ok (colsOf [callF E t vars ests (rowAt t 0)]) := by
  rw [overTime_processes E hwf (by omega) htk hp]
  have hrows : rowsOf t 1 = [rowAt t 0] := by simp [rowsOf, List.range_succ_eq_map]
  have htk0 := tk_mem_rows hwf htk (rowAt t 0) (by rw [hrows]; simp)
  obtain ⟨c, hc⟩ := get?_some_of_mem htk0
  simp [hrows, sortP, decorate, hc, stableSort, insertBy]

theorem no_temporal_key_lemma (E : Env C) {t : Table C} (h : temporalKey t = none) (vars ests : List Req) :
    overTime E t vars ests = .error .valueError := by
  simp [overTime, h]

/-! ## 11. successive calls -/

/-! ### 11.1 what a request list can ask for -/

def reqItem : Req → List CReq
  | .name s => [.name s]
  | .dict items => items.map (fun nf => .fn nf.1 nf.2)
  | .other => []

/-- every (name, function) a request list mentions, valid or not -/
def reqItems (rs : List Req) : List CReq := rs.flatMap reqItem

/-- every column name a request list mentions -/
def reqKeys (rs : List Req) : List Name := (reqItems rs).map CReq.key

theorem reqItems_append (a b : List Req) : reqItems (a ++ b) = reqItems a ++ reqItems b :=
  List.flatMap_append

theorem reqKeys_append (a b : List Req) : reqKeys (a ++ b) = reqKeys a ++ reqKeys b := by
  simp [reqKeys, reqItems_append]

theorem cleanVarItem_sublist (E : Env C) (t : Table C) (v : Req) :
    (cleanVarItem E t v).Sublist (reqItem v) := by
  cases v with
  | name s => simp only [cleanVarItem, reqItem]; split <;> simp
  | dict items =>
    simp only [cleanVarItem, reqItem]
    induction items with
    | nil => simp
    | cons nf rest ih =>
      simp only [List.filterMap_cons, List.map_cons]
      split
      · exact List.Sublist.cons _ ih
      · rename_i h
        split at h
        · simp only [Option.some.injEq] at h; subst h; exact List.Sublist.cons_cons _ ih
        · simp at h
  | other => simp [cleanVarItem, reqItem]

theorem cleanVars_sublist (E : Env C) (t : Table C) (vars : List Req) :
    (cleanVars E t vars).Sublist (reqItems vars) := by
  unfold cleanVars reqItems
  induction vars with
  | nil => simp
  | cons v vs ih =>
    simp only [List.flatMap_cons]
    exact List.Sublist.append (cleanVarItem_sublist E t v) ih

theorem cleanVars_append (E : Env C) (t : Table C) (a b : List Req) :
    cleanVars E t (a ++ b) = cleanVars E t a ++ cleanVars E t b := List.flatMap_append

theorem cleanVars_names_nodup (E : Env C) (t : Table C) {vars : List Req} (h : (reqKeys vars).Nodup) :
    ((cleanVars E t vars).map CReq.key).Nodup :=
  List.Nodup.sublist ((cleanVars_sublist E t vars).map CReq.key) h

theorem cleanVarItem_congr (E : Env C) {t t' : Table C} (v : Req)
    (h : ∀ s ∈ (reqItem v).map CReq.key, has s t = has s t') : cleanVarItem E t v = cleanVarItem E t' v := by
  cases v with
  | name s => simp only [cleanVarItem, h s (by simp [reqItem, CReq.key])]
  | dict items =>
    simp only [cleanVarItem]
    apply filterMap_congr'
    intro nf hnf
    rw [h nf.1 (by
      simp only [reqItem, List.map_map, List.mem_map]
      exact ⟨nf, hnf, rfl⟩)]
  | other => rfl

theorem cleanVars_congr (E : Env C) {t t' : Table C} {vars : List Req}
    (h : ∀ s ∈ reqKeys vars, has s t = has s t') : cleanVars E t vars = cleanVars E t' vars := by
  unfold cleanVars
  induction vars with
  | nil => rfl
  | cons v vs ih =>
    simp only [List.flatMap_cons]
    rw [cleanVarItem_congr E v (fun s hs => h s (by simp [reqKeys, reqItems, List.flatMap_cons]; exact Or.inl (by simpa using hs))),
      ih (fun s hs => h s (by
        simp only [reqKeys, reqItems, List.flatMap_cons, List.map_append, List.mem_append]
        exact Or.inr hs))]

/-! ### 11.2 values of a step do not depend on fed-back columns (hypothesis = C01) -/

/-- the value a fresh `AurelCore` holding exactly `r` gives for a requested item -/
def CReq.val (E : Env C) (r : Row C) : CReq → C
  | .name s => E.comp r s
  | .fn _ f => E.cust f r

/-- the entries a call adds for its cleaned variables -/
def varEntries (E : Env C) (r : Row C) (cv : List CReq) : Row C := cv.map (fun v => (v.key, v.val E r))

/-- every entry of `x` is a requested item stored under its own name with the
value computed from the base dictionary `r` -/
def Allowed (E : Env C) (items : List CReq) (r x : Row C) : Prop :=
  ∀ kc ∈ x, ∃ c ∈ items, c.key = kc.1 ∧ kc.2 = c.val E r

/-- **the C01 hypothesis, stated precisely**: handing an `AurelCore` — besides
the step's dictionary `r` — columns that were computed earlier from `r`
itself, under their own names, does not change what it computes for any of
the requested items. -/
def FeedbackOK (E : Env C) (items : List CReq) (r : Row C) : Prop :=
  ∀ x : Row C, Allowed E items r x → ∀ c ∈ items, c.val E (r ++ x) = c.val E r

theorem FeedbackOK.mono {E : Env C} {items items' : List CReq} {r : Row C} (h : FeedbackOK E items r)
    (hsub : ∀ c ∈ items', c ∈ items) : FeedbackOK E items' r := by
  intro x hx c hc
  refine h x ?_ c (hsub c hc)
  intro kc hkc
  obtain ⟨c', hc', h1, h2⟩ := hx kc hkc
  exact ⟨c', hsub c' hc', h1, h2⟩

def custEntries (E : Env C) (r : Row C) (cv : List CReq) : Row C :=
  cv.filterMap (fun v => match v with | .fn n f => some (n, E.cust f r) | .name _ => none)

theorem nodup_map_inj {α γ : Type} {f : α → γ} {l : List α} (h : (l.map f).Nodup) {a b : α}
    (ha : a ∈ l) (hb : b ∈ l) (hab : f a = f b) : a = b := by
  induction l with
  | nil => simp at ha
  | cons x xs ih =>
    simp only [List.map_cons, List.nodup_cons, List.mem_map, not_exists, not_and] at h
    rcases List.mem_cons.mp ha with rfl | ha' <;> rcases List.mem_cons.mp hb with rfl | hb'
    · rfl
    · exact absurd hab.symm (h.1 b hb')
    · exact absurd hab (h.1 a ha')
    · exact ih h.2 ha' hb'

theorem allowed_custEntries (E : Env C) {items : List CReq} (r : Row C) {cv : List CReq}
    (hcv : ∀ v ∈ cv, v ∈ items) : Allowed E items r (custEntries E r cv) := by
  intro kc hkc
  simp only [custEntries, List.mem_filterMap] at hkc
  obtain ⟨v, hv, hvk⟩ := hkc
  cases v with
  | name s => simp at hvk
  | fn n f =>
    simp only [Option.some.injEq] at hvk
    subst hvk
    exact ⟨.fn n f, hcv _ hv, rfl, rfl⟩

theorem Allowed.append {E : Env C} {items : List CReq} {r x y : Row C} (hx : Allowed E items r x)
    (hy : Allowed E items r y) : Allowed E items r (x ++ y) := by
  intro kc hkc
  rcases List.mem_append.mp hkc with h | h
  · exact hx kc h
  · exact hy kc h

theorem runCustoms_nf (E : Env C) {items : List CReq} {r : Row C} (hfb : FeedbackOK E items r)
    (cv : List CReq) (x : Row C) (hx : Allowed E items r x) (hcv : ∀ v ∈ cv, v ∈ items)
    (hnd : (cv.map CReq.key).Nodup) (hfresh : ∀ v ∈ cv, v.key ∉ keys (r ++ x)) :
    runCustoms E cv (r ++ x) = r ++ x ++ custEntries E r cv := by
  unfold runCustoms
  induction cv generalizing x with
  | nil => simp [custEntries]
  | cons v vs ih =>
    simp only [List.map_cons, List.nodup_cons] at hnd
    have hcv' : ∀ v ∈ vs, v ∈ items := fun w hw => hcv w (by simp [hw])
    simp only [List.foldl_cons]
    cases v with
    | name s =>
      have := ih x hx hcv' hnd.2 (fun w hw => hfresh w (by simp [hw]))
      simpa [custEntries] using this
    | fn nm f =>
      have hn : nm ∉ keys (r ++ x) := hfresh (.fn nm f) (by simp)
      have hval : E.cust f (r ++ x) = E.cust f r := hfb x hx (.fn nm f) (hcv _ (by simp))
      simp only [dset_of_not_mem hn, hval]
      have hx' : Allowed E items r (x ++ [(nm, E.cust f r)]) := by
        apply hx.append
        intro kc hkc
        simp only [List.mem_singleton] at hkc
        subst hkc
        exact ⟨.fn nm f, hcv _ (by simp), rfl, rfl⟩
      have := ih (x ++ [(nm, E.cust f r)]) hx' hcv' hnd.2 (by
        intro w hw
        have h1 := hfresh w (by simp [hw])
        have h2 : w.key ≠ nm := fun e => hnd.1 (e ▸ List.mem_map.mpr ⟨w, hw, rfl⟩)
        rw [← List.append_assoc, mem_keys_snoc]
        rintro (h | h)
        · exact h1 h
        · exact h2 h)
      simp only [← List.append_assoc] at this ⊢
      rw [this]
      simp [custEntries, List.append_assoc]

theorem get?_custEntries_fn (E : Env C) (r : Row C) {cv : List CReq} (hnd : (cv.map CReq.key).Nodup)
    {nm : Name} {f : Fid} (h : CReq.fn nm f ∈ cv) : get? nm (custEntries E r cv) = some (E.cust f r) := by
  induction cv with
  | nil => simp at h
  | cons v vs ih =>
    simp only [List.map_cons, List.nodup_cons] at hnd
    rcases List.mem_cons.mp h with rfl | h'
    · simp [custEntries, get?_cons]
    · have hne : v.key ≠ nm := fun e => hnd.1 (e ▸ List.mem_map.mpr ⟨.fn nm f, h', rfl⟩)
      cases v with
      | name s => simpa [custEntries] using ih hnd.2 h'
      | fn n' f' =>
        have : ¬ n' = nm := hne
        simp only [custEntries, List.filterMap_cons, get?_cons, this, if_false]
        exact ih hnd.2 h'

theorem keys_custEntries_subset (E : Env C) (r : Row C) (cv : List CReq) {k : Name}
    (hk : k ∈ keys (custEntries E r cv)) : ∃ f, CReq.fn k f ∈ cv := by
  simp only [keys, custEntries, List.mem_map, List.mem_filterMap] at hk
  obtain ⟨kc, ⟨v, hv, hvk⟩, rfl⟩ := hk
  cases v with
  | name s => simp at hvk
  | fn n f =>
    simp only [Option.some.injEq] at hvk
    subst hvk
    exact ⟨f, hv⟩

/-- the value `rel[v]` of every cleaned variable is its value on the base dictionary -/
theorem relGet_nf (E : Env C) {items : List CReq} {r : Row C} (hfb : FeedbackOK E items r)
    (cv : List CReq) (x : Row C) (hx : Allowed E items r x) (hcv : ∀ v ∈ cv, v ∈ items)
    (hnd : (cv.map CReq.key).Nodup) (hfresh : ∀ v ∈ cv, v.key ∉ keys (r ++ x)) {v : CReq} (hv : v ∈ cv) :
    relGet E (r ++ x ++ custEntries E r cv) v.key = v.val E r := by
  unfold relGet
  cases v with
  | fn nm f =>
    have hn : nm ∉ keys (r ++ x) := hfresh _ hv
    simp only [CReq.key]
    rw [get?_append_right hn, get?_custEntries_fn E r hnd hv]
    rfl
  | name s =>
    have hn : s ∉ keys (r ++ x) := hfresh _ hv
    have hn2 : s ∉ keys (custEntries E r cv) := by
      intro hk
      obtain ⟨f, hf⟩ := keys_custEntries_subset E r cv hk
      have := nodup_map_inj hnd hv hf rfl
      cases this
    simp only [CReq.key]
    rw [get?_append_right hn, get?_none_iff.mpr hn2]
    simp only [List.append_assoc]
    exact hfb (x ++ custEntries E r cv) (hx.append (allowed_custEntries E r hcv)) (.name s) (hcv _ hv)

theorem storeVars_fresh (E : Env C) (cv : List CReq) (rd s : Row C) (hnd : (cv.map CReq.key).Nodup)
    (hfresh : ∀ v ∈ cv, v.key ∉ keys s) :
    storeVars E cv rd s = s ++ cv.map (fun v => (v.key, relGet E rd v.key)) := by
  unfold storeVars
  induction cv generalizing s with
  | nil => simp
  | cons v vs ih =>
    simp only [List.map_cons, List.nodup_cons] at hnd
    simp only [List.foldl_cons, List.map_cons]
    rw [dset_of_not_mem (hfresh v (by simp)), ih _ hnd.2]
    · simp
    · intro w hw
      have h1 := hfresh w (by simp [hw])
      have h2 : w.key ≠ v.key := fun e => hnd.1 (e ▸ List.mem_map.mpr ⟨w, hw, rfl⟩)
      rw [mem_keys_snoc]
      rintro (h | h)
      · exact h1 h
      · exact h2 h

/-- normal form of the variable phase of a step on a dictionary `r ++ x` whose
extra entries were computed from `r` -/
theorem stepVars_nf (E : Env C) {items : List CReq} {r : Row C} (hfb : FeedbackOK E items r)
    (cv : List CReq) (x : Row C) (hx : Allowed E items r x) (hcv : ∀ v ∈ cv, v ∈ items)
    (hnd : (cv.map CReq.key).Nodup) (hfresh : ∀ v ∈ cv, v.key ∉ keys (r ++ x)) :
    stepVars E cv (r ++ x) = r ++ x ++ varEntries E r cv := by
  cases hcv0 : cv with
  | nil => simp [stepVars, varEntries]
  | cons v0 vs =>
    rw [← hcv0]
    have hne : cv.isEmpty = false := by rw [hcv0]; rfl
    unfold stepVars
    simp only [hne, Bool.false_eq_true, if_false]
    have hload : loadRel cv (r ++ x) = r ++ x :=
      loadRel_of_fresh (fun k hk hmem => by
        obtain ⟨v, hv, rfl⟩ := List.mem_map.mp hmem
        exact hfresh v hv hk)
    rw [hload, runCustoms_nf E hfb cv x hx hcv hnd hfresh, storeVars_fresh E cv _ _ hnd hfresh]
    congr 1
    unfold varEntries
    apply List.map_congr_left
    intro v hv
    rw [relGet_nf E hfb cv x hx hcv hnd hfresh hv]

theorem allowed_varEntries (E : Env C) {items : List CReq} (r : Row C) {cv : List CReq}
    (hcv : ∀ v ∈ cv, v ∈ items) : Allowed E items r (varEntries E r cv) := by
  intro kc hkc
  simp only [varEntries, List.mem_map] at hkc
  obtain ⟨v, hv, rfl⟩ := hkc
  exact ⟨v, hcv v hv, rfl, rfl⟩

theorem keys_varEntries (E : Env C) (r : Row C) (cv : List CReq) :
    keys (varEntries E r cv) = cv.map CReq.key := by
  simp [keys, varEntries, List.map_map, Function.comp_def]

/-! ### 11.3 scalar keys -/

theorem scalarKeys_append (E : Env C) (a b : Row C) :
    scalarKeys E (a ++ b) = scalarKeys E a ++ scalarKeys E b := by
  simp [scalarKeys]

theorem scalarKeys_estOneP (E : Env C) {e : CReq} (hr : ∀ c, E.is3 (estApply E e c) = false) (d : Row C)
    (key : Name) : scalarKeys E (estOneP E e d key) = scalarKeys E d := by
  unfold estOneP
  split
  · rfl
  · split
    · rw [scalarKeys_append]; simp [scalarKeys, hr]
    · rfl

theorem scalarKeys_foldl_estOneP (E : Env C) {e : CReq} (hr : ∀ c, E.is3 (estApply E e c) = false)
    (sk : List Name) (d : Row C) : scalarKeys E (sk.foldl (estOneP E e) d) = scalarKeys E d := by
  induction sk generalizing d with
  | nil => rfl
  | cons k ks ih => simp only [List.foldl_cons, ih, scalarKeys_estOneP E hr]

theorem scalarKeys_applyEstsP (E : Env C) {ce : List CReq}
    (hr : ∀ e ∈ ce, ∀ c, E.is3 (estApply E e c) = false) (sk : List Name) (d : Row C) :
    scalarKeys E (applyEstsP E ce sk d) = scalarKeys E d := by
  unfold applyEstsP
  induction ce generalizing d with
  | nil => rfl
  | cons e es ih =>
    simp only [List.foldl_cons]
    rw [ih (fun e' he' => hr e' (by simp [he'])), scalarKeys_foldl_estOneP E (hr e (by simp))]

/-- every cell of one column has the same array rank -/
def UniformRank (E : Env C) (t : Table C) : Prop :=
  ∀ kc ∈ t, ∀ c ∈ kc.2, ∀ c' ∈ kc.2, E.is3 c = E.is3 c'

theorem scalarKeys_cons (E : Env C) (kv : Name × C) (d : Row C) :
    scalarKeys E (kv :: d) = (if E.is3 kv.2 then [kv.1] else []) ++ scalarKeys E d := by
  by_cases h : E.is3 kv.2 = true <;> simp [scalarKeys, List.filter_cons, h]

theorem scalarKeys_rowAt_uniform (E : Env C) {t : Table C} (hu : UniformRank E t) {i j : Nat}
    (hi : ∀ kc ∈ t, i < kc.2.length) (hj : ∀ kc ∈ t, j < kc.2.length) :
    scalarKeys E (rowAt t i) = scalarKeys E (rowAt t j) := by
  induction t with
  | nil => rfl
  | cons kc rest ih =>
    have hi0 := hi kc (by simp)
    have hj0 := hj kc (by simp)
    rw [rowAt_cons kc rest i hi0, rowAt_cons kc rest j hj0, scalarKeys_cons, scalarKeys_cons,
      ih (fun x hx => hu x (by simp [hx])) (fun x hx => hi x (by simp [hx])) (fun x hx => hj x (by simp [hx]))]
    have : E.is3 kc.2[i] = E.is3 kc.2[j] :=
      hu kc (by simp) _ (List.getElem_mem hi0) _ (List.getElem_mem hj0)
    simp only [this]

theorem scalarKeys_rows_uniform (E : Env C) {t : Table C} {n : Nat} (hwf : WF t n) (hu : UniformRank E t)
    {r r' : Row C} (hr : r ∈ rowsOf t n) (hr' : r' ∈ rowsOf t n) : scalarKeys E r = scalarKeys E r' := by
  simp only [rowsOf, List.mem_map, List.mem_range] at hr hr'
  obtain ⟨i, hi, rfl⟩ := hr
  obtain ⟨j, hj, rfl⟩ := hr'
  exact scalarKeys_rowAt_uniform E hu (fun kc hkc => by rw [hwf.rect kc hkc]; exact hi)
    (fun kc hkc => by rw [hwf.rect kc hkc]; exact hj)

theorem scalarKeys_varEntries_uniform (E : Env C) {cv : List CReq} {r r' : Row C}
    (h : ∀ v ∈ cv, E.is3 (v.val E r) = E.is3 (v.val E r')) :
    scalarKeys E (varEntries E r cv) = scalarKeys E (varEntries E r' cv) := by
  induction cv with
  | nil => rfl
  | cons v vs ih =>
    simp only [varEntries, List.map_cons] at ih ⊢
    rw [scalarKeys_cons, scalarKeys_cons, ih (fun w hw => h w (by simp [hw])), h v (by simp)]

/-! ### 11.4 algebra of the estimate phase -/

theorem applyEstsP_append (E : Env C) (a b : List CReq) (sk : List Name) (d : Row C) :
    applyEstsP E (a ++ b) sk d = applyEstsP E b sk (applyEstsP E a sk d) := by
  simp [applyEstsP, List.foldl_append]

theorem foldl_estOneP_noop (E : Env C) (e : CReq) (sk : List Name) (d : Row C)
    (h : ∀ s ∈ sk, estKey s e.key ∈ keys d) : sk.foldl (estOneP E e) d = d := by
  induction sk with
  | nil => rfl
  | cons s ss ih =>
    simp only [List.foldl_cons]
    have : estOneP E e d s = d := by
      unfold estOneP
      rw [has_iff.mpr (h s (by simp))]; rfl
    rw [this]
    exact ih (fun x hx => h x (by simp [hx]))

theorem subset_keys_applyEstsP (E : Env C) (ce : List CReq) (sk : List Name) (d : Row C) :
    keys d ⊆ keys (applyEstsP E ce sk d) := by
  rw [keys_applyEstsP]; exact subset_applyEstsK _ _ _

/-- estimators all of whose columns exist already can be dropped from the list -/
theorem applyEstsP_filter (E : Env C) (T : Table C) (sk : List Name) (L : Name → Bool) (es : List CReq)
    (hL : ∀ e ∈ es, L e.key = false → ∀ k ∈ sk, estKey k e.key ∈ keys T) (d : Row C)
    (hsub : keys T ⊆ keys d) :
    applyEstsP E (es.filter (fun e => L e.key)) sk d = applyEstsP E es sk d := by
  induction es generalizing d with
  | nil => rfl
  | cons e rest ih =>
    have hL' : ∀ e ∈ rest, L e.key = false → ∀ k ∈ sk, estKey k e.key ∈ keys T :=
      fun x hx => hL x (by simp [hx])
    rw [List.filter_cons]
    cases hLe : L e.key with
    | true =>
      simp only [if_true]
      rw [show e :: rest = [e] ++ rest from rfl, show e :: List.filter (fun e => L e.key) rest
        = [e] ++ List.filter (fun e => L e.key) rest from rfl, applyEstsP_append, applyEstsP_append]
      exact ih hL' _ (List.Subset.trans hsub (subset_keys_applyEstsP E _ _ _))
    | false =>
      simp only [Bool.false_eq_true, if_false]
      rw [show e :: rest = [e] ++ rest from rfl, applyEstsP_append]
      have : applyEstsP E [e] sk d = d := by
        simp only [applyEstsP, List.foldl_cons, List.foldl_nil]
        exact foldl_estOneP_noop E e sk d (fun s hs => hsub (hL e (by simp) hLe s hs))
      rw [this]
      exact ih hL' d hsub

theorem cleanEstItem_filter (E : Env C) (L : Name → Bool) (item : Req) :
    cleanEstItem E L item = (cleanEstItem E (fun _ => true) item).filter (fun e => L e.key) := by
  cases item with
  | name s =>
    simp only [cleanEstItem, Bool.true_and]
    by_cases h1 : E.isEstFn s = true <;> cases h2 : L s <;> simp [h1, h2, CReq.key]
  | dict items =>
    simp only [cleanEstItem, Bool.true_and]
    induction items with
    | nil => rfl
    | cons nf rest ih =>
      simp only [List.filterMap_cons]
      rw [ih]
      cases h1 : E.validEst nf.2 <;> cases h2 : L nf.1 <;> simp [h2, CReq.key, List.filter_cons]
  | other => rfl

theorem flatMap_cleanEstItem_filter (E : Env C) (L : Name → Bool) (ests : List Req) :
    ests.flatMap (cleanEstItem E L)
      = (ests.flatMap (cleanEstItem E (fun _ => true))).filter (fun e => L e.key) := by
  induction ests with
  | nil => rfl
  | cons item rest ih =>
    simp only [List.flatMap_cons, List.filter_append, ← ih, ← cleanEstItem_filter]

/-- every valid estimator of the request, whether some scalar lacks it or not -/
def allEsts (E : Env C) (ests : List Req) : List CReq := ests.flatMap (cleanEstItem E (fun _ => true))

/-- the branch of the cleaning that drops estimators whose columns all exist
(lines 186-235) has the same effect on the rows as keeping them -/
theorem applyEstsP_lacks (E : Env C) (T : Table C) (sk : List Name) (ests : List Req) (d : Row C)
    (hsub : keys T ⊆ keys d) :
    applyEstsP E (ests.flatMap (cleanEstItem E (lacksIn T sk))) sk d = applyEstsP E (allEsts E ests) sk d := by
  rw [flatMap_cleanEstItem_filter, allEsts]
  apply applyEstsP_filter E T sk _ _ _ d hsub
  intro e _ hL k hk
  simp only [lacksIn, List.any_eq_false, Bool.not_eq_true, Bool.not_eq_eq_eq_not, Bool.not_false] at hL
  exact has_iff.mp (by simpa using hL k hk)

/-! ### 11.5 the table returned by a processing call -/

theorem addKey_nodup {ks : List Name} (h : ks.Nodup) (k : Name) : (addKey ks k).Nodup := by
  unfold addKey
  split
  · exact h
  · rename_i hk
    exact List.nodup_append.mpr ⟨h, by simp, by simp; exact fun a ha e => hk (e ▸ ha)⟩

theorem foldl_addKey_nodup {ks : List Name} (h : ks.Nodup) (names : List Name) :
    (names.foldl addKey ks).Nodup := by
  induction names generalizing ks with
  | nil => exact h
  | cons n ns ih => exact ih (addKey_nodup h n)

theorem estOneK_nodup {ks : List Name} (h : ks.Nodup) (e key : Name) : (estOneK e ks key).Nodup := by
  unfold estOneK
  split
  · exact h
  · rename_i hk
    split
    · exact List.nodup_append.mpr ⟨h, by simp, by simp; exact fun a ha e' => hk (e' ▸ ha)⟩
    · exact h

theorem applyEstsK_nodup {ks : List Name} (h : ks.Nodup) (ests sk : List Name) :
    (applyEstsK ests sk ks).Nodup := by
  unfold applyEstsK
  induction ests generalizing ks with
  | nil => exact h
  | cons e es ih =>
    simp only [List.foldl_cons]
    apply ih
    clear ih
    induction sk generalizing ks with
    | nil => exact h
    | cons k kk ih2 => exact ih2 (estOneK_nodup h e k)

theorem keys_stepRow_nodup (E : Env C) (cv ce : List CReq) (sk : List Name) {r : Row C}
    (h : (keys r).Nodup) : (keys (stepRow E cv ce sk r)).Nodup := by
  rw [keys_stepRow]
  exact applyEstsK_nodup (foldl_addKey_nodup h _) _ _

theorem mem_estOneK {x e key : Name} {ks : List Name} (h : x ∈ estOneK e ks key) :
    x ∈ ks ∨ x = estKey key e := by
  unfold estOneK at h
  split at h
  · exact Or.inl h
  · split at h
    · simpa using h
    · exact Or.inl h

theorem mem_applyEstsK {x : Name} {ests sk ks : List Name} (h : x ∈ applyEstsK ests sk ks) :
    x ∈ ks ∨ ∃ k e, x = estKey k e := by
  unfold applyEstsK at h
  induction ests generalizing ks with
  | nil => exact Or.inl h
  | cons e es ih =>
    simp only [List.foldl_cons] at h
    rcases ih h with h1 | h1
    · clear ih h
      induction sk generalizing ks with
      | nil => exact Or.inl h1
      | cons k kk ih2 =>
        simp only [List.foldl_cons] at h1
        rcases ih2 h1 with h2 | h2
        · rcases mem_estOneK h2 with h3 | h3
          · exact Or.inl h3
          · exact Or.inr ⟨k, e, h3⟩
        · exact Or.inr h2
    · exact Or.inr h1

theorem estKey_toList (k e : Name) : (estKey k e).toList = k.toList ++ '_' :: e.toList := by
  simp [estKey, String.toList_append]

/-- `key + '_' + est` is never one of the four temporal names -/
theorem estKey_not_temporal (k e : Name) : estKey k e ∉ temporalNames := by
  intro h
  have hmem : '_' ∈ (estKey k e).toList := by rw [estKey_toList]; simp
  simp only [temporalNames, List.mem_cons, List.mem_nil_iff, or_false] at h
  rcases h with h | h | h | h <;> (rw [h] at hmem; revert hmem; decide)

theorem row_reconstruct {d : Row C} (h : (keys d).Nodup) :
    (keys d).filterMap (fun k => (get? k d).map (fun c => (k, c))) = d := by
  induction d with
  | nil => rfl
  | cons kv rest ih =>
    simp only [keys, List.map_cons, List.nodup_cons] at h
    simp only [keys, List.map_cons, List.filterMap_cons, get?_cons, if_true, Option.map_some]
    congr 1
    refine (filterMap_congr' ?_).trans (ih h.2)
    intro k hk
    have hne : ¬ kv.1 = k := fun e => h.1 (e ▸ hk)
    simp only [hne, if_false]

theorem getElem?_colOf {L : List (Row C)} {k : Name} (h : ∀ r ∈ L, k ∈ keys r) (i : Nat) :
    (colOf k L)[i]? = (L[i]?).bind (get? k) := by
  induction L generalizing i with
  | nil => simp [colOf]
  | cons r rest ih =>
    obtain ⟨c, hc⟩ := get?_some_of_mem (h r (by simp))
    have hrest := ih (fun x hx => h x (by simp [hx]))
    simp only [colOf, List.filterMap_cons, hc] at hrest ⊢
    cases i with
    | zero => simp [hc]
    | succ j => simpa using hrest j

theorem length_colOf {L : List (Row C)} {k : Name} (h : ∀ r ∈ L, k ∈ keys r) :
    (colOf k L).length = L.length := by
  induction L with
  | nil => rfl
  | cons r rest ih =>
    obtain ⟨c, hc⟩ := get?_some_of_mem (h r (by simp))
    have := ih (fun x hx => h x (by simp [hx]))
    simp only [colOf, List.filterMap_cons, hc, List.length_cons] at this ⊢
    rw [this]

/-- a non-empty list of dictionaries with one common duplicate-free key list -/
structure UniformRows (L : List (Row C)) (K : List Name) : Prop where
  ne : L ≠ []
  keys_eq : ∀ r ∈ L, keys r = K
  nodup : K.Nodup

theorem keys_colsOf_uniform {L : List (Row C)} {K : List Name} (hu : UniformRows L K) :
    keys (colsOf L) = K := by
  cases hL : L with
  | nil => exact absurd hL hu.ne
  | cons r0 rest =>
    rw [keys_colsOf (r0 := r0) (by simp)]
    exact hu.keys_eq r0 (by rw [hL]; simp)

theorem wf_colsOf {L : List (Row C)} {K : List Name} (hu : UniformRows L K) : WF (colsOf L) L.length := by
  constructor
  · rw [keys_colsOf_uniform hu]; exact hu.nodup
  · intro kc hkc
    cases hL : L with
    | nil => exact absurd hL hu.ne
    | cons r0 rest =>
      rw [hL] at hkc
      simp only [colsOf, List.mem_map] at hkc
      obtain ⟨k, hk, rfl⟩ := hkc
      rw [← hL]
      apply length_colOf
      intro r hr
      rw [hu.keys_eq r hr, ← hu.keys_eq r0 (by rw [hL]; simp)]
      exact hk

theorem rowAt_colsOf {L : List (Row C)} {K : List Name} (hu : UniformRows L K) {i : Nat} (hi : i < L.length) :
    rowAt (colsOf L) i = L[i] := by
  obtain ⟨r0, rest, rfl⟩ : ∃ r0 rest, L = r0 :: rest := by
    cases L with
    | nil => exact absurd rfl hu.ne
    | cons a b => exact ⟨a, b, rfl⟩
  have hK0 : keys r0 = K := hu.keys_eq r0 (by simp)
  have hd : keys ((r0 :: rest)[i]) = K := hu.keys_eq _ (List.getElem_mem hi)
  have hnd : (keys ((r0 :: rest)[i])).Nodup := by rw [hd]; exact hu.nodup
  simp only [rowAt, colsOf, List.filterMap_map, Function.comp_def]
  rw [hK0, ← hd]
  refine (filterMap_congr' ?_).trans (row_reconstruct hnd)
  intro k hk
  rw [getElem?_colOf (fun r hr => by rw [hu.keys_eq r hr, ← hd]; exact hk)]
  simp [List.getElem?_eq_getElem hi]

theorem rowsOf_colsOf {L : List (Row C)} {K : List Name} (hu : UniformRows L K) :
    rowsOf (colsOf L) L.length = L := by
  apply List.ext_getElem
  · simp [rowsOf]
  · intro i h1 h2
    simp only [rowsOf, List.getElem_map, List.getElem_range]
    exact rowAt_colsOf hu h2

/-! ### 11.6 sorting twice -/

theorem decorate_map_snd_of_spec {tk : Name} {ds : List (C × Row C)}
    (h : ∀ p ∈ ds, get? tk p.2 = some p.1) : decorate tk (ds.map (·.2)) = ds := by
  induction ds with
  | nil => rfl
  | cons p ps ih =>
    have := ih (fun q hq => h q (by simp [hq]))
    simp only [decorate, List.map_cons, List.filterMap_cons, h p (by simp), Option.map_some] at this ⊢
    rw [this]

theorem sortP_idem (E : Env C) (hsw : StrictWeak E.lt) (tk : Name) (rows : List (Row C)) :
    sortP E tk (sortP E tk rows) = sortP E tk rows := by
  have hsw' : StrictWeak (fun a b : C × Row C => E.lt a.1 b.1) :=
    ⟨fun a b => hsw.asymm a.1 b.1, fun a b c => hsw.negTrans a.1 b.1 c.1⟩
  unfold sortP
  rw [decorate_map_snd_of_spec (fun p hp => (decorate_spec ((stableSort_perm _ _).subset hp)).1),
    stableSort_of_sorted _ _ (stableSort_sorted hsw' _)]

/-! ### 11.7 structure of the table a processing call returns -/

theorem length_rowsOf (t : Table C) (n : Nat) : (rowsOf t n).length = n := by simp [rowsOf]

theorem length_sorted (E : Env C) {t : Table C} {n : Nat} {tk : Name} (hwf : WF t n)
    (htk : temporalKey t = some tk) : (sortP E tk (rowsOf t n)).length = n := by
  rw [(sortP_perm E (tk_mem_rows hwf htk)).length_eq, length_rowsOf]

theorem wf_rows_nodup {t : Table C} {n : Nat} (hwf : WF t n) {r : Row C} (hr : r ∈ rowsOf t n) :
    (keys r).Nodup := by rw [keys_of_mem_rowsOf hwf hr]; exact hwf.nodup

/-- key list of every processed row of a call -/
def callKeys (E : Env C) (t : Table C) (vars ests : List Req) : List Name :=
  applyEstsK ((cleanedEsts E t (cleanVars E t vars) ests).map CReq.key) (callSk E t vars)
    (((cleanVars E t vars).map CReq.key).foldl addKey (keys t))

theorem keys_callF (E : Env C) {t : Table C} (vars ests : List Req) {r : Row C} (hr : keys r = keys t) :
    keys (callF E t vars ests r) = callKeys E t vars ests := by
  unfold callF callKeys
  rw [keys_stepRow, hr]

theorem uniform_call (E : Env C) {t : Table C} {n : Nat} {tk : Name} (hwf : WF t n) (hn : 0 < n)
    (htk : temporalKey t = some tk) (vars ests : List Req) :
    UniformRows ((sortP E tk (rowsOf t n)).map (callF E t vars ests)) (callKeys E t vars ests) := by
  constructor
  · intro h
    exact sorted_ne_nil E hwf hn htk (List.map_eq_nil_iff.mp h)
  · intro d hd
    obtain ⟨r, hr, rfl⟩ := List.mem_map.mp hd
    exact keys_callF E vars ests (keys_of_mem_sorted E hwf htk hr)
  · unfold callKeys
    exact applyEstsK_nodup (foldl_addKey_nodup hwf.nodup _) _ _

theorem mem_callKeys {E : Env C} {t : Table C} {vars ests : List Req} {x : Name}
    (h : x ∈ callKeys E t vars ests) :
    x ∈ keys t ∨ x ∈ (cleanVars E t vars).map CReq.key ∨ ∃ k e, x = estKey k e := by
  rcases mem_applyEstsK h with h1 | h1
  · rcases mem_foldl_addKey.mp h1 with h2 | h2
    · exact Or.inl h2
    · exact Or.inr (Or.inl h2)
  · exact Or.inr (Or.inr h1)

theorem subset_callKeys (E : Env C) (t : Table C) (vars ests : List Req) : keys t ⊆ callKeys E t vars ests :=
  List.Subset.trans (subset_foldl_addKey _ _) (subset_applyEstsK _ _ _)

/-- the table returned by a processing call: well formed, same temporal key,
its rows are the sorted processed rows, which are already sorted -/
theorem call_result (E : Env C) {t : Table C} {n : Nat} {tk : Name} (hwf : WF t n) (hn : 0 < n)
    (htk : temporalKey t = some tk) (hsw : StrictWeak E.lt) (vars ests : List Req)
    (hnt : ∀ x ∈ (cleanVars E t vars).map CReq.key, x ∉ temporalNames) :
    let L := (sortP E tk (rowsOf t n)).map (callF E t vars ests)
    WF (colsOf L) n ∧ temporalKey (colsOf L) = some tk ∧ rowsOf (colsOf L) n = L ∧
      sortP E tk L = L ∧ keys (colsOf L) = callKeys E t vars ests := by
  intro L
  have hu := uniform_call E hwf hn htk vars ests
  have hlen : L.length = n := by simp [L, length_sorted E hwf htk]
  have hkeys := keys_colsOf_uniform hu
  refine ⟨hlen ▸ wf_colsOf hu, ?_, hlen ▸ rowsOf_colsOf hu, ?_, hkeys⟩
  · rw [← htk]
    apply temporalKey_congr
    intro x hx
    rw [Bool.eq_iff_iff, has_iff, has_iff, hkeys]
    constructor
    · intro h
      rcases mem_callKeys h with h1 | h1 | ⟨k, e, h1⟩
      · exact h1
      · exact absurd hx (hnt x h1)
      · exact absurd (h1 ▸ hx) (estKey_not_temporal k e)
    · exact fun h => subset_callKeys E t vars ests h
  · show sortP E tk ((sortP E tk (rowsOf t n)).map (callF E t vars ests)) = _
    rw [sortP_map, sortP_idem E hsw]
    intro r hr
    exact get?_stepRow_input E _ _ (keys_of_mem_sorted E hwf htk hr) (temporalKey_mem htk).1

theorem overTime_congr (E : Env C) {t : Table C} {n : Nat} {tk : Name} (hwf : WF t n) (hn : 0 < n)
    (htk : temporalKey t = some tk) {vars vars' ests ests' : List Req}
    (h1 : cleanVars E t vars = cleanVars E t vars')
    (h2 : cleanedEsts E t (cleanVars E t vars) ests = cleanedEsts E t (cleanVars E t vars') ests') :
    overTime E t vars ests = overTime E t vars' ests' := by
  rw [overTime_nf2 E hwf hn htk, overTime_nf2 E hwf hn htk, h2, h1]

theorem cleanedEsts_append (E : Env C) (t : Table C) (cv : List CReq) (a b : List Req) :
    cleanedEsts E t cv (a ++ b) = cleanedEsts E t cv a ++ cleanedEsts E t cv b := by
  simp [cleanedEsts, List.flatMap_append]

theorem stepRow_nil (E : Env C) (sk : List Name) (d : Row C) : stepRow E [] [] sk d = d := by
  simp [stepRow, applyEstsP, stepVars]

theorem stepVars_nf0 (E : Env C) {items : List CReq} {r : Row C} (hfb : FeedbackOK E items r)
    (cv : List CReq) (hcv : ∀ v ∈ cv, v ∈ items) (hnd : (cv.map CReq.key).Nodup)
    (hfresh : ∀ v ∈ cv, v.key ∉ keys r) : stepVars E cv r = r ++ varEntries E r cv := by
  have := stepVars_nf E hfb cv [] (fun _ h => by simp at h) hcv hnd (by simpa using hfresh)
  simpa using this

theorem cleanedEsts_subset_allEsts (E : Env C) (t : Table C) (cv : List CReq) (ests : List Req) {e : CReq}
    (he : e ∈ cleanedEsts E t cv ests) : e ∈ allEsts E ests := by
  unfold cleanedEsts at he
  rw [flatMap_cleanEstItem_filter] at he
  exact (List.mem_filter.mp he).1

theorem allEsts_append (E : Env C) (a b : List Req) : allEsts E (a ++ b) = allEsts E a ++ allEsts E b := by
  simp [allEsts, List.flatMap_append]

/-! ### 11.8 two successive calls equal one call -/

/-- hypotheses of the split theorem, for the total request `(vars, ests)` on the table `t` -/
structure SplitHyp (E : Env C) (t : Table C) (n : Nat) (tk : Name) (vars ests : List Req) : Prop where
  /-- a Python dict of `n ≥ 1`-element lists with a temporal key -/
  wf : WF t n
  pos : 0 < n
  tk : temporalKey t = some tk
  /-- `<` on the temporal cells is a strict weak order -/
  sw : StrictWeak E.lt
  /-- the requested variable names are pairwise distinct ... -/
  nodup : (reqKeys vars).Nodup
  /-- ... and none of them is `it`, `iteration`, `t`, `time` -/
  notemp : ∀ x ∈ reqKeys vars, x ∉ temporalNames
  /-- C01: columns computed earlier and fed back do not change later values
  (only the items that are actually computed: valid and not yet in `t`) -/
  fb : ∀ r ∈ rowsOf t n, FeedbackOK E (cleanVars E t vars) r
  /-- whether a column holds 3-D arrays does not depend on the row -/
  rank_t : UniformRank E t
  rank_v : ∀ r ∈ rowsOf t n, ∀ r' ∈ rowsOf t n, ∀ c ∈ cleanVars E t vars,
    E.is3 (c.val E r) = E.is3 (c.val E r')
  /-- every valid requested estimator returns a scalar, not a 3-D array -/
  rank_e : ∀ e ∈ allEsts E ests, ∀ c, E.is3 (estApply E e c) = false

/-- the dictionary after the variable phase, in normal form -/
theorem stepVars_row (E : Env C) {t : Table C} {n : Nat} {tk : Name} {vars ests : List Req}
    (H : SplitHyp E t n tk vars ests) {r : Row C} (hr : r ∈ rowsOf t n) :
    stepVars E (cleanVars E t vars) r = r ++ varEntries E r (cleanVars E t vars) := by
  apply stepVars_nf0 E (H.fb r hr) _ (fun v hv => hv)
    (cleanVars_names_nodup E t H.nodup)
  intro v hv
  rw [keys_of_mem_rowsOf H.wf hr]
  exact cleanVars_fresh E t vars hv

theorem scalarKeys_stepVars_uniform (E : Env C) {t : Table C} {n : Nat} {tk : Name} {vars ests : List Req}
    (H : SplitHyp E t n tk vars ests) {r r' : Row C} (hr : r ∈ rowsOf t n) (hr' : r' ∈ rowsOf t n) :
    scalarKeys E (stepVars E (cleanVars E t vars) r) = scalarKeys E (stepVars E (cleanVars E t vars) r') := by
  rw [stepVars_row E H hr, stepVars_row E H hr', scalarKeys_append, scalarKeys_append,
    scalarKeys_rows_uniform E H.wf H.rank_t hr hr',
    scalarKeys_varEntries_uniform E (fun v hv => H.rank_v r hr r' hr' v hv)]

theorem SplitHyp.mono {E : Env C} {t : Table C} {n : Nat} {tk : Name} {vars ests vars' ests' : List Req}
    (H : SplitHyp E t n tk vars ests) (hv : (reqItems vars').Sublist (reqItems vars))
    (hcl : ∀ c ∈ cleanVars E t vars', c ∈ cleanVars E t vars)
    (he : ∀ e ∈ allEsts E ests', e ∈ allEsts E ests) : SplitHyp E t n tk vars' ests' where
  wf := H.wf
  pos := H.pos
  tk := H.tk
  sw := H.sw
  nodup := List.Nodup.sublist (hv.map CReq.key) H.nodup
  notemp := fun x hx => H.notemp x ((hv.map CReq.key).subset hx)
  fb := fun r hr => (H.fb r hr).mono hcl
  rank_t := H.rank_t
  rank_v := fun r hr r' hr' c hc => H.rank_v r hr r' hr' c (hcl c hc)
  rank_e := fun e he' => H.rank_e e (he e he')

theorem rowAt_zero_mem (t : Table C) {n : Nat} (hn : 0 < n) : rowAt t 0 ∈ rowsOf t n := by
  obtain ⟨m, rfl⟩ : ∃ m, n = m + 1 := ⟨n - 1, by omega⟩
  rw [rowsOf_succ]; simp

theorem varEntries_append (E : Env C) (r : Row C) (a b : List CReq) :
    varEntries E r (a ++ b) = varEntries E r a ++ varEntries E r b := by
  simp [varEntries]

theorem cleanedEsts_of_ne (E : Env C) (t : Table C) {cv : List CReq} (h : cv ≠ []) (ests : List Req) :
    cleanedEsts E t cv ests = allEsts E ests := by
  cases cv with
  | nil => exact absurd rfl h
  | cons a b => rfl

theorem cleanedEsts_nil (E : Env C) (t : Table C) (ests : List Req) :
    cleanedEsts E t [] ests = ests.flatMap (cleanEstItem E (lacksIn t (scalarKeys E (rowAt t 0)))) := rfl

/-- the estimate phase with the cleaned list = with every valid estimator -/
theorem applyEstsP_cleaned (E : Env C) (T : Table C) (cv : List CReq) (ests : List Req) (d0 d : Row C)
    (hd0 : cv = [] → d0 = rowAt T 0) (hsub : keys T ⊆ keys d) :
    applyEstsP E (cleanedEsts E T cv ests) (scalarKeys E (stepVars E cv d0)) d
      = applyEstsP E (allEsts E ests) (scalarKeys E (stepVars E cv d0)) d := by
  cases cv with
  | cons a b => rfl
  | nil =>
    rw [cleanedEsts_nil, hd0 rfl]
    have : stepVars E [] (rowAt T 0) = rowAt T 0 := by simp [stepVars]
    rw [this]
    exact applyEstsP_lacks E T _ ests d hsub

/-- sub-case `e1 = []` of the key claim -/
theorem kc_vars (E : Env C) {t T1 : Table C} {n : Nat} {tk : Name} {v1 v2 e2 : List Req}
    (H : SplitHyp E t n tk (v1 ++ v2) e2) (hne : cleanVars E t v1 ≠ [])
    (hkeys1 : keys T1 = callKeys E t v1 []) {S0 r : Row C} (hrow0 : rowAt T1 0 = callF E t v1 [] S0)
    (hS0 : S0 ∈ rowsOf t n) (hr : r ∈ rowsOf t n) :
    stepRow E (cleanVars E T1 v2) (cleanedEsts E T1 (cleanVars E T1 v2) e2)
        (scalarKeys E (stepVars E (cleanVars E T1 v2) (rowAt T1 0))) (callF E t v1 [] r)
      = callF E t (v1 ++ v2) e2 r := by
  have hwf := H.wf
  have H1 : SplitHyp E t n tk v1 [] := H.mono (by rw [reqItems_append]; exact List.sublist_append_left _ _)
    (fun c hc => by rw [cleanVars_append]; exact List.mem_append_left _ hc)
    (fun e he => by simp [allEsts] at he)
  have hce1 : cleanedEsts E t (cleanVars E t v1) [] = [] := rfl
  have hF1 : ∀ r' ∈ rowsOf t n, callF E t v1 [] r' = r' ++ varEntries E r' (cleanVars E t v1) := by
    intro r' hr'
    unfold callF stepRow
    rw [hce1, stepVars_row E H1 hr']; rfl
  have hK1 : callKeys E t v1 [] = ((cleanVars E t v1).map CReq.key).foldl addKey (keys t) := by
    unfold callKeys; rw [hce1]; rfl
  have hdisj : ∀ s ∈ reqKeys v2, s ∉ (cleanVars E t v1).map CReq.key := by
    intro s hs h1
    have hnd := H.nodup
    rw [reqKeys_append, List.nodup_append] at hnd
    exact hnd.2.2 s (((cleanVars_sublist E t v1).map CReq.key).subset h1) s hs rfl
  have hcv2 : cleanVars E T1 v2 = cleanVars E t v2 := by
    apply cleanVars_congr
    intro s hs
    rw [Bool.eq_iff_iff, has_iff, has_iff, hkeys1, hK1, mem_foldl_addKey]
    constructor
    · rintro (h | h)
      · exact h
      · exact absurd h (hdisj s hs)
    · exact Or.inl
  have hcv : cleanVars E t (v1 ++ v2) = cleanVars E t v1 ++ cleanVars E t v2 := cleanVars_append E t v1 v2
  have hitems2 : ∀ v ∈ cleanVars E t v2, v ∈ cleanVars E t (v1 ++ v2) := by
    intro v hv
    rw [hcv]
    exact List.mem_append_right _ hv
  have hitems1 : ∀ v ∈ cleanVars E t v1, v ∈ cleanVars E t (v1 ++ v2) := by
    intro v hv
    rw [hcv]
    exact List.mem_append_left _ hv
  have hnd2 : ((cleanVars E t v2).map CReq.key).Nodup := by
    have := cleanVars_names_nodup E t H.nodup
    rw [hcv, List.map_append, List.nodup_append] at this
    exact this.2.1
  -- the variable phase of the second call on a row of T1
  have hD : ∀ r' ∈ rowsOf t n, stepVars E (cleanVars E t v2) (callF E t v1 [] r')
      = stepVars E (cleanVars E t (v1 ++ v2)) r' := by
    intro r' hr'
    rw [hF1 r' hr', stepVars_row E H hr', hcv, varEntries_append, ← List.append_assoc]
    apply stepVars_nf E (H.fb r' hr') _ _ (allowed_varEntries E r' hitems1) hitems2 hnd2
    intro v hv
    rw [keys_append, keys_varEntries, List.mem_append, keys_of_mem_rowsOf hwf hr']
    rintro (h | h)
    · exact cleanVars_fresh E t v2 hv h
    · exact hdisj v.key (((cleanVars_sublist E t v2).map CReq.key).subset (List.mem_map.mpr ⟨v, hv, rfl⟩)) h
  have hr0 := rowAt_zero_mem t H.pos
  have hsk : scalarKeys E (stepVars E (cleanVars E t v2) (rowAt T1 0)) = callSk E t (v1 ++ v2) := by
    rw [hrow0, hD S0 hS0]
    exact scalarKeys_stepVars_uniform E H hS0 hr0
  have hcvne : cleanVars E t (v1 ++ v2) ≠ [] := by
    rw [hcv]; intro h; exact hne (List.append_eq_nil_iff.mp h).1
  have hsub : keys T1 ⊆ keys (stepVars E (cleanVars E t v2) (callF E t v1 [] r)) := by
    rw [hkeys1, keys_stepVars, keys_callF E v1 [] (keys_of_mem_rowsOf hwf hr)]
    exact subset_foldl_addKey _ _
  rw [hcv2]
  unfold stepRow
  rw [applyEstsP_cleaned E T1 (cleanVars E t v2) e2 (rowAt T1 0) _ (fun _ => rfl) hsub, hsk, hD r hr]
  unfold callF stepRow
  rw [cleanedEsts_of_ne E t hcvne]

/-- sub-case `v2 = []` of the key claim -/
theorem kc_ests (E : Env C) {t T1 : Table C} {n : Nat} {tk : Name} {v1 e1 e2 : List Req}
    (H : SplitHyp E t n tk v1 (e1 ++ e2))
    (hkeys1 : keys T1 = callKeys E t v1 e1) {S0 r : Row C} (hrow0 : rowAt T1 0 = callF E t v1 e1 S0)
    (hS0 : S0 ∈ rowsOf t n) (hr : r ∈ rowsOf t n) :
    stepRow E (cleanVars E T1 []) (cleanedEsts E T1 (cleanVars E T1 []) e2)
        (scalarKeys E (stepVars E (cleanVars E T1 []) (rowAt T1 0))) (callF E t v1 e1 r)
      = callF E t v1 (e1 ++ e2) r := by
  have hwf := H.wf
  have hr0 := rowAt_zero_mem t H.pos
  have hcvT : cleanVars E T1 ([] : List Req) = [] := rfl
  have hsv : ∀ d : Row C, stepVars E [] d = d := fun d => by simp [stepVars]
  have hsubT : keys T1 ⊆ keys (callF E t v1 e1 r) := by
    rw [hkeys1, keys_callF E v1 e1 (keys_of_mem_rowsOf hwf hr)]; exact fun _ h => h
  have hsubt : keys t ⊆ keys (callF E t v1 e1 r) := by
    rw [keys_callF E v1 e1 (keys_of_mem_rowsOf hwf hr)]; exact subset_callKeys E t v1 e1
  have hrank1 : ∀ e ∈ cleanedEsts E t (cleanVars E t v1) e1, ∀ c, E.is3 (estApply E e c) = false := by
    intro e he
    apply H.rank_e
    rw [allEsts_append]
    exact List.mem_append_left _ (cleanedEsts_subset_allEsts E t _ e1 he)
  -- scalar keys of the second call = scalar keys of the first
  have hsk : scalarKeys E (rowAt T1 0) = callSk E t v1 := by
    rw [hrow0]
    unfold callF stepRow
    rw [scalarKeys_applyEstsP E hrank1]
    exact scalarKeys_stepVars_uniform E H hS0 hr0
  rw [hcvT]
  unfold stepRow
  rw [hsv, hsv]
  have h1 := applyEstsP_cleaned E T1 [] e2 (rowAt T1 0) (callF E t v1 e1 r) (fun _ => rfl) hsubT
  rw [hsv] at h1
  rw [h1, hsk]
  -- the single call
  have h2 : callF E t v1 (e1 ++ e2) r
      = applyEstsP E (cleanedEsts E t (cleanVars E t v1) e2) (callSk E t v1) (callF E t v1 e1 r) := by
    unfold callF stepRow
    rw [cleanedEsts_append, applyEstsP_append]
  rw [h2]
  have h3 := applyEstsP_cleaned E t (cleanVars E t v1) e2 (rowAt t 0) (callF E t v1 e1 r) (fun _ => rfl) hsubt
  exact h3.symm

theorem two_calls (E : Env C) {t : Table C} {n : Nat} {tk : Name} {v1 v2 e1 e2 : List Req}
    (H : SplitHyp E t n tk (v1 ++ v2) (e1 ++ e2)) (hsplit : e1 = [] ∨ v2 = []) :
    andThen (overTime E t v1 e1) (fun T1 => overTime E T1 v2 e2) = overTime E t (v1 ++ v2) (e1 ++ e2) := by
  have hwf := H.wf
  have hn := H.pos
  have htk := H.tk
  have hcv : cleanVars E t (v1 ++ v2) = cleanVars E t v1 ++ cleanVars E t v2 := cleanVars_append E t v1 v2
  by_cases hp1 : Processes E t v1 e1
  · -- the first call processes
    rw [overTime_processes E hwf hn htk hp1, andThen_ok]
    have hnt1 : ∀ x ∈ (cleanVars E t v1).map CReq.key, x ∉ temporalNames := by
      intro x hx
      apply H.notemp x
      rw [reqKeys_append]
      exact List.mem_append_left _ (((cleanVars_sublist E t v1).map CReq.key).subset hx)
    obtain ⟨hwf1, htk1, hrows1, hsort1, hkeys1⟩ := call_result E hwf hn htk H.sw v1 e1 hnt1
    obtain ⟨S0, Srest, hS⟩ : ∃ S0 Srest, sortP E tk (rowsOf t n) = S0 :: Srest := by
      cases hs : sortP E tk (rowsOf t n) with
      | nil => exact absurd hs (sorted_ne_nil E hwf hn htk)
      | cons a b => exact ⟨a, b, rfl⟩
    have hSmem : ∀ r ∈ sortP E tk (rowsOf t n), r ∈ rowsOf t n :=
      fun r hr => (sortP_perm E (tk_mem_rows hwf htk)).subset hr
    have hS0 : S0 ∈ rowsOf t n := hSmem S0 (by rw [hS]; simp)
    generalize hT1 : colsOf ((sortP E tk (rowsOf t n)).map (callF E t v1 e1)) = T1 at *
    have hrow0 : rowAt T1 0 = callF E t v1 e1 S0 := by
      have h0 : rowsOf T1 n = callF E t v1 e1 S0 :: Srest.map (callF E t v1 e1) := by
        rw [hrows1, hS]; rfl
      obtain ⟨m, rfl⟩ : ∃ m, n = m + 1 := ⟨n - 1, by omega⟩
      rw [rowsOf_succ] at h0
      exact (List.cons.inj h0).1
    -- the combined call processes
    have hp : Processes E t (v1 ++ v2) (e1 ++ e2) := by
      unfold Processes at hp1 ⊢
      rw [hcv]
      rcases hsplit with rfl | rfl
      · have hce1 : cleanedEsts E t (cleanVars E t v1) [] = [] := rfl
        rw [hce1] at hp1
        cases hc1 : cleanVars E t v1 with
        | nil => rw [hc1] at hp1; simp at hp1
        | cons a b => simp
      · have : cleanVars E t ([] : List Req) = [] := rfl
        rw [this, List.append_nil, cleanedEsts_append]
        cases hc1 : cleanVars E t v1 with
        | cons a b => simp
        | nil =>
          rw [hc1] at hp1
          cases hce : cleanedEsts E t [] e1 with
          | nil => rw [hce] at hp1; simp at hp1
          | cons a b => simp
    -- key claim: per row, the second step after the first equals the single step
    have hKC : ∀ r ∈ sortP E tk (rowsOf t n),
        stepRow E (cleanVars E T1 v2) (cleanedEsts E T1 (cleanVars E T1 v2) e2)
          (scalarKeys E (stepVars E (cleanVars E T1 v2) (rowAt T1 0))) (callF E t v1 e1 r)
        = callF E t (v1 ++ v2) (e1 ++ e2) r := by
      intro r hrS
      have hr := hSmem r hrS
      rcases hsplit with rfl | rfl
      · have hne : cleanVars E t v1 ≠ [] := by
          intro h
          unfold Processes at hp1
          rw [h] at hp1
          have hce1 : cleanedEsts E t [] ([] : List Req) = [] := rfl
          rw [hce1] at hp1
          simp at hp1
        exact kc_vars E H hne hkeys1 hrow0 hS0 hr
      · have H' : SplitHyp E t n tk v1 (e1 ++ e2) := by simpa using H
        have := kc_ests E H' hkeys1 hrow0 hS0 hr
        simpa using this
    rw [overTime_processes E hwf hn htk hp, overTime_nf2 E hwf1 hn htk1, hrows1, hsort1, List.map_map]
    have hmap : (sortP E tk (rowsOf t n)).map
        (stepRow E (cleanVars E T1 v2) (cleanedEsts E T1 (cleanVars E T1 v2) e2)
          (scalarKeys E (stepVars E (cleanVars E T1 v2) (rowAt T1 0))) ∘ callF E t v1 e1)
        = (sortP E tk (rowsOf t n)).map (callF E t (v1 ++ v2) (e1 ++ e2)) :=
      List.map_congr_left (fun r hr => hKC r hr)
    split
    · -- the second call has nothing new: its row function is the identity
      rename_i hnn
      simp only [Bool.and_eq_true, List.isEmpty_iff] at hnn
      rw [hnn.2, hnn.1] at hmap
      rw [← hmap, ← hT1]
      congr 2
    · rw [hmap]
  · -- the first call has nothing new and returns `t`
    rw [overTime_nothing_new E hwf hn htk hp1, andThen_ok]
    simp only [Processes, Bool.not_eq_false, Bool.and_eq_true, List.isEmpty_iff] at hp1
    apply overTime_congr E hwf hn htk
    · rw [hcv, hp1.1, List.nil_append]
    · rw [hcv, hp1.1, List.nil_append, cleanedEsts_append]
      rcases hsplit with rfl | rfl
      · rfl
      · have : cleanVars E t ([] : List Req) = [] := rfl
        rw [this]
        have h2 := hp1.2
        rw [hp1.1] at h2
        rw [h2, List.nil_append]

/-! ### 11.9 any number of successive calls -/

/-- successive calls form a consecutive split of `vars ++ estimates`: once a
call has passed an estimate, no later call passes a variable -/
def Consecutive (calls : List (List Req × List Req)) : Prop :=
  calls.Pairwise (fun a b => a.2 = [] ∨ b.1 = [])

theorem andThen_assoc {α γ δ : Type} (x : Except Err α) (f : α → Except Err γ) (g : γ → Except Err δ) :
    andThen (andThen x f) g = andThen x (fun a => andThen (f a) g) := by
  cases x <;> rfl

theorem andThen_pure {α : Type} (x : Except Err α) : andThen x (fun a => .ok a) = x := by
  cases x <;> rfl

theorem runCalls_cons (E : Env C) (t : Table C) (c : List Req × List Req) (rest : List (List Req × List Req)) :
    runCalls E t (c :: rest) = andThen (overTime E t c.1 c.2) (fun T => runCalls E T rest) := by
  simp only [runCalls, foldlE]
  cases overTime E t c.1 c.2 <;> rfl

theorem reqItems_sublist_append_left (a b : List Req) : (reqItems a).Sublist (reqItems (a ++ b)) := by
  rw [reqItems_append]; exact List.sublist_append_left _ _

theorem split_aux (E : Env C) {t : Table C} {n : Nat} {tk : Name} (calls : List (List Req × List Req))
    (v0 e0 : List Req) (hc : Consecutive calls) (h0 : ∀ c ∈ calls, e0 = [] ∨ c.1 = [])
    (H : SplitHyp E t n tk (v0 ++ calls.flatMap (·.1)) (e0 ++ calls.flatMap (·.2))) :
    andThen (overTime E t v0 e0) (fun T => runCalls E T calls)
      = overTime E t (v0 ++ calls.flatMap (·.1)) (e0 ++ calls.flatMap (·.2)) := by
  induction calls generalizing v0 e0 with
  | nil =>
    simp only [runCalls, foldlE, List.flatMap_nil, List.append_nil]
    exact andThen_pure _
  | cons c rest ih =>
    have hc' := List.pairwise_cons.mp hc
    simp only [List.flatMap_cons] at H ⊢
    have H2 : SplitHyp E t n tk (v0 ++ c.1) (e0 ++ c.2) := by
      apply H.mono
      · rw [← List.append_assoc]; exact reqItems_sublist_append_left _ _
      · intro c hc
        rw [← List.append_assoc, cleanVars_append]
        exact List.mem_append_left _ hc
      · intro e he
        rw [← List.append_assoc, allEsts_append]
        exact List.mem_append_left _ he
    have h2 := two_calls E H2 (h0 c (by simp))
    have hfun : (fun T => runCalls E T (c :: rest))
        = (fun T => andThen (overTime E T c.1 c.2) (fun T' => runCalls E T' rest)) := by
      funext T; exact runCalls_cons E T c rest
    rw [hfun, ← andThen_assoc, h2, ← List.append_assoc, ← List.append_assoc]
    apply ih (v0 ++ c.1) (e0 ++ c.2) hc'.2
    · intro c' hc''
      rcases h0 c' (by simp [hc'']) with h | h
      · rcases hc'.1 c' hc'' with h' | h'
        · left; rw [h, h']; rfl
        · right; exact h'
      · right; exact h
    · simpa [List.append_assoc] using H

/-- **T4**: every consecutive split of `vars ++ estimates` into successive calls
returns exactly the table of the single call — same columns, same column
order, same rows -/
theorem split_invariance_lemma (E : Env C) {t : Table C} {n : Nat} {tk : Name}
    (calls : List (List Req × List Req)) (hc : Consecutive calls)
    (H : SplitHyp E t n tk (calls.flatMap (·.1)) (calls.flatMap (·.2))) :
    runCalls E t calls = overTime E t (calls.flatMap (·.1)) (calls.flatMap (·.2)) := by
  have h := split_aux E calls [] [] hc (fun _ _ => Or.inl rfl) (by simpa using H)
  have h0 : overTime E t [] [] = .ok t :=
    overTime_nothing_new E H.wf H.pos H.tk (by simp [Processes, cleanVars, cleanedEsts])
  rw [h0, andThen_ok] at h
  simpa using h

/-- a split of the request *sequence* `vars ++ estimates` into consecutive
segments; each segment is one call -/
def segCalls (segs : List (List (Req ⊕ Req))) : List (List Req × List Req) :=
  segs.map (fun s => (s.filterMap Sum.getLeft?, s.filterMap Sum.getRight?))

theorem filterMap_getLeft_seq (vars ests : List Req) :
    (vars.map Sum.inl ++ ests.map Sum.inr : List (Req ⊕ Req)).filterMap Sum.getLeft? = vars := by
  simp [List.filterMap_append, List.filterMap_map, Function.comp_def]

theorem filterMap_getRight_seq (vars ests : List Req) :
    (vars.map Sum.inl ++ ests.map Sum.inr : List (Req ⊕ Req)).filterMap Sum.getRight? = ests := by
  simp [List.filterMap_append, List.filterMap_map, Function.comp_def]

theorem pairwise_of_forall' {α : Type} {R : α → α → Prop} (h : ∀ a b, R a b) (l : List α) : l.Pairwise R := by
  induction l with
  | nil => exact List.Pairwise.nil
  | cons a as ih => exact List.pairwise_cons.mpr ⟨fun b _ => h a b, ih⟩

theorem segCalls_spec (segs : List (List (Req ⊕ Req))) (vars ests : List Req)
    (h : segs.flatten = vars.map Sum.inl ++ ests.map Sum.inr) :
    Consecutive (segCalls segs) ∧ (segCalls segs).flatMap (·.1) = vars ∧ (segCalls segs).flatMap (·.2) = ests := by
  refine ⟨?_, ?_, ?_⟩
  · have hpw : (vars.map Sum.inl ++ ests.map Sum.inr : List (Req ⊕ Req)).Pairwise
        (fun a b => a.isLeft = true ∨ b.isRight = true) := by
      rw [List.pairwise_append]
      refine ⟨?_, ?_, ?_⟩
      · rw [List.pairwise_map]; exact pairwise_of_forall' (fun _ _ => Or.inl rfl) _
      · rw [List.pairwise_map]; exact pairwise_of_forall' (fun _ _ => Or.inr rfl) _
      · intro a ha b _
        obtain ⟨x, _, rfl⟩ := List.mem_map.mp ha
        exact Or.inl rfl
    rw [← h, List.pairwise_flatten] at hpw
    unfold Consecutive segCalls
    rw [List.pairwise_map]
    refine List.Pairwise.imp ?_ hpw.2
    intro s1 s2 h12
    by_cases hr : s1.filterMap Sum.getRight? = []
    · exact Or.inl hr
    · right
      obtain ⟨y, hy⟩ := List.exists_mem_of_ne_nil _ hr
      obtain ⟨x, hx, hxy⟩ := List.mem_filterMap.mp hy
      have hxr : x.isRight = true := by cases x <;> simp_all
      apply List.filterMap_eq_nil_iff.mpr
      intro z hz
      rcases h12 x hx z hz with h' | h'
      · cases x <;> simp_all
      · cases z <;> simp_all
  · have := congrArg (List.filterMap Sum.getLeft?) h
    rw [filterMap_getLeft_seq, List.filterMap_flatten] at this
    rw [← this]
    simp [segCalls, List.flatMap_def, List.map_map, Function.comp_def]
  · have := congrArg (List.filterMap Sum.getRight?) h
    rw [filterMap_getRight_seq, List.filterMap_flatten] at this
    rw [← this]
    simp [segCalls, List.flatMap_def, List.map_map, Function.comp_def]

/-! ## 12. non-interference between rows -/

theorem no_leakage_lemma (E : Env C) {t t' : Table C} {n n' : Nat} {tk : Name}
    (hwf : WF t n) (hn : 0 < n) (htk : temporalKey t = some tk)
    (hwf' : WF t' n') (hn' : 0 < n') (htk' : temporalKey t' = some tk) (hkeys : keys t = keys t')
    {vars ests : List Req} (hp : Processes E t vars ests) (hp' : Processes E t' vars ests) :
    ∃ out out', overTime E t vars ests = .ok out ∧ overTime E t' vars ests = .ok out' ∧
      ∀ v ∈ cleanVars E t vars, ∀ i : Nat,
        (sortP E tk (rowsOf t n))[i]? = (sortP E tk (rowsOf t' n'))[i]? →
        (get? v.key out).bind (fun col => col[i]?) = (get? v.key out').bind (fun col => col[i]?) := by
  obtain ⟨out, hout, hc⟩ := per_step_lemma E hwf hn htk hp
  obtain ⟨out', hout', hc'⟩ := per_step_lemma E hwf' hn' htk' hp'
  have hcv : cleanVars E t vars = cleanVars E t' vars :=
    cleanVars_congr E (fun s _ => by rw [Bool.eq_iff_iff, has_iff, has_iff, hkeys])
  refine ⟨out, out', hout, hout', ?_⟩
  intro v hv i hi
  rw [hc v hv, hc' v (hcv ▸ hv), ← hcv]
  simp only [Option.bind_some, List.getElem?_map, hi]

/-! ## 13. custom variables are frozen inputs of the step -/

/-- the values of the custom variables of one step, in request order: each
function sees the step's dictionary plus the custom values before it.  No cache
setting (`clear_cache_every_nbr_calc`, memory threshold) occurs: the values
are *inputs* of everything computed later in the step. -/
def custVals (E : Env C) : Row C → List CReq → Row C
  | _, [] => []
  | base, .name _ :: vs => custVals E base vs
  | base, .fn n f :: vs => (n, E.cust f base) :: custVals E (base ++ [(n, E.cust f base)]) vs

theorem runCustoms_eq (E : Env C) (cv : List CReq) (base : Row C) (hnd : (cv.map CReq.key).Nodup)
    (hfresh : ∀ v ∈ cv, v.key ∉ keys base) : runCustoms E cv base = base ++ custVals E base cv := by
  unfold runCustoms
  induction cv generalizing base with
  | nil => simp [custVals]
  | cons v vs ih =>
    simp only [List.map_cons, List.nodup_cons] at hnd
    simp only [List.foldl_cons]
    cases v with
    | name s => exact ih base hnd.2 (fun w hw => hfresh w (by simp [hw]))
    | fn nm f =>
      have hn : nm ∉ keys base := hfresh (.fn nm f) (by simp)
      simp only [dset_of_not_mem hn, custVals]
      rw [ih _ hnd.2]
      · simp
      · intro w hw
        have h1 := hfresh w (by simp [hw])
        have h2 : w.key ≠ nm := fun e => hnd.1 (e ▸ List.mem_map.mpr ⟨w, hw, rfl⟩)
        rw [mem_keys_snoc]
        rintro (h | h)
        · exact h1 h
        · exact h2 h

theorem keys_custVals_subset (E : Env C) (base : Row C) (cv : List CReq) {k : Name}
    (hk : k ∈ keys (custVals E base cv)) : ∃ f, CReq.fn k f ∈ cv := by
  induction cv generalizing base with
  | nil => simp [custVals, keys] at hk
  | cons v vs ih =>
    cases v with
    | name s =>
      obtain ⟨f, hf⟩ := ih base (by simpa [custVals] using hk)
      exact ⟨f, by simp [hf]⟩
    | fn nm f0 =>
      simp only [custVals, keys, List.map_cons, List.mem_cons] at hk
      rcases hk with rfl | hk
      · exact ⟨f0, by simp⟩
      · obtain ⟨f, hf⟩ := ih _ hk
        exact ⟨f, by simp [hf]⟩

theorem relData_eq (E : Env C) {t : Table C} {vars : List Req} {r : Row C} (hr : keys r = keys t)
    (hnd : ((cleanVars E t vars).map CReq.key).Nodup) :
    relData E (cleanVars E t vars) r = r ++ custVals E r (cleanVars E t vars) := by
  unfold relData
  rw [loadRel_of_fresh (fun k hk => not_mem_names_of_mem_keys E (by rw [← hr]; exact hk))]
  exact runCustoms_eq E _ r hnd (fun v hv => by rw [hr]; exact cleanVars_fresh E t vars hv)

/-- every requested variable of a row is read from an `AurelCore` whose data are
the row's inputs followed by the custom values; a built-in name is `comp` of
exactly that dictionary -/
theorem per_step_frozen_customs_lemma (E : Env C) {t : Table C} {n : Nat} {tk : Name} (hwf : WF t n)
    (hn : 0 < n) (htk : temporalKey t = some tk) {vars ests : List Req} (hp : Processes E t vars ests)
    (hnd : ((cleanVars E t vars).map CReq.key).Nodup) :
    ∃ out, overTime E t vars ests = .ok out ∧
      (∀ v ∈ cleanVars E t vars,
        get? v.key out = some ((sortP E tk (rowsOf t n)).map
          (fun r => relGet E (r ++ custVals E r (cleanVars E t vars)) v.key))) ∧
      (∀ s, CReq.name s ∈ cleanVars E t vars →
        get? s out = some ((sortP E tk (rowsOf t n)).map
          (fun r => E.comp (r ++ custVals E r (cleanVars E t vars)) s))) := by
  obtain ⟨out, hout, hcells⟩ := per_step_lemma E hwf hn htk hp
  have hgen : ∀ v ∈ cleanVars E t vars,
      get? v.key out = some ((sortP E tk (rowsOf t n)).map
        (fun r => relGet E (r ++ custVals E r (cleanVars E t vars)) v.key)) := by
    intro v hv
    rw [hcells v hv]
    congr 1
    apply List.map_congr_left
    intro r hr
    rw [relData_eq E (keys_of_mem_sorted E hwf htk hr) hnd]
  refine ⟨out, hout, hgen, ?_⟩
  intro s hs
  have := hgen (.name s) hs
  simp only [CReq.key] at this
  rw [this]
  congr 1
  apply List.map_congr_left
  intro r hr
  have hkr := keys_of_mem_sorted E hwf htk hr
  have h1 : s ∉ keys r := by rw [hkr]; exact cleanVars_fresh E t vars hs
  have h2 : s ∉ keys (custVals E r (cleanVars E t vars)) := by
    intro hk
    obtain ⟨f, hf⟩ := keys_custVals_subset E r _ hk
    have := nodup_map_inj hnd hs hf rfl
    cases this
  rw [relGet, get?_append_right h1, get?_none_iff.mpr h2]

end AurelVerif.Table
