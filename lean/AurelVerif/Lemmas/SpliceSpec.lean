/-
Lemmas/SpliceSpec.lean — Mathlib-free proofs that the three splicing modes
of Model/Splice.lean compute the intended rows (Spec/FD.lean).
-/
import AurelVerif.Lemmas.SpliceAux

namespace AurelVerif.SpliceLemmas
open AurelVerif.Splice AurelVerif.StencilLemmas

/-! ### one-sided mode -/

theorem range_split3 (a b c : Nat) :
    List.range (a + b + c) = List.range' 0 a ++ List.range' a b ++ List.range' (a + b) c := by
  rw [List.range_eq_range']
  have h1 := @List.range'_append_1 0 a b
  rw [Nat.zero_add] at h1
  rw [h1]
  have h2 := @List.range'_append_1 0 (a + b) c
  rw [Nat.zero_add] at h2
  rw [h2]

theorem fdMap_range'' {α : Type} (st : Stencil) (f : List α) (a b : Int) (a' n : Nat)
    (ha : a = (a' : Int)) (hb : b = a + n) :
    fdMap st f a b = (List.range' a' n).mapM (fun (j : Nat) => applySt st f (j : Int)) := by
  subst ha
  exact fdMap_range' st f a' n b hb

theorem pickOnesided_reads {α : Type} (s : Scheme) (p : Nat) (hs : shapesOK s p = true)
    (f : List α) (N : Nat) (hf : f.length = N) (hN : 3 * s.maskLen ≤ N) (i : Nat) (hi : i < N) :
    ∀ kc ∈ pickOnesided s N i, 0 ≤ (i : Int) + kc.1 ∧ (i : Int) + kc.1 < f.length := by
  obtain ⟨hp, hfwd, hbwd, hcen⟩ := shapesOK_iff s p hs
  intro kc hkc
  unfold pickOnesided at hkc
  by_cases h1 : i < s.maskLen
  · rw [if_pos h1] at hkc
    have := hfwd kc hkc
    omega
  · rw [if_neg h1] at hkc
    by_cases h2 : i < N - s.maskLen
    · rw [if_pos h2] at hkc
      have := hcen kc hkc
      omega
    · rw [if_neg h2] at hkc
      have := hbwd kc hkc
      omega

theorem onesided_spec_aux {α : Type} (s : Scheme) (p : Nat) (hs : shapesOK s p = true)
    (f : List α) (N : Nat) (hf : f.length = N) (hN : 3 * s.maskLen ≤ N) :
    d3Onesided s f N = (List.range N).mapM (fun i => directRow (pickOnesided s N i) f i)
    ∧ ∀ i < N, (directRow (pickOnesided s N i) f i).isSome := by
  have hreads := pickOnesided_reads s p hs f N hf hN
  refine ⟨?_, fun i hi => directRow_isSome _ f i (hreads i hi)⟩
  have hsplit : List.range N = List.range' 0 s.maskLen ++ List.range' s.maskLen (N - 2 * s.maskLen)
      ++ List.range' (N - s.maskLen) s.maskLen := by
    have h3 := range_split3 s.maskLen (N - 2 * s.maskLen) s.maskLen
    rw [show s.maskLen + (N - 2 * s.maskLen) + s.maskLen = N by omega,
      show s.maskLen + (N - 2 * s.maskLen) = N - s.maskLen by omega] at h3
    exact h3
  have c1 : fdMap s.fwd f 0 (s.maskLen : Int)
      = (List.range' 0 s.maskLen).mapM (fun i => directRow (pickOnesided s N i) f i) := by
    rw [fdMap_range'' s.fwd f 0 s.maskLen 0 s.maskLen (by simp) (by simp)]
    apply mapM_congr_opt
    intro i hi
    rw [List.mem_range'_1] at hi
    have hpick : pickOnesided s N i = s.fwd := by
      unfold pickOnesided; rw [if_pos (by omega)]
    have := hreads i (by omega)
    rw [hpick] at this ⊢
    exact applySt_eq_directRow _ f i (fun kc hkc => (this kc hkc).1)
  have c2 : fdMap s.cen f (s.maskLen : Int) ((N : Int) - (s.maskLen : Int))
      = (List.range' s.maskLen (N - 2 * s.maskLen)).mapM
          (fun i => directRow (pickOnesided s N i) f i) := by
    rw [fdMap_range'' s.cen f s.maskLen _ s.maskLen (N - 2 * s.maskLen) rfl (by omega)]
    apply mapM_congr_opt
    intro i hi
    rw [List.mem_range'_1] at hi
    have hpick : pickOnesided s N i = s.cen := by
      unfold pickOnesided; rw [if_neg (by omega), if_pos (by omega)]
    have := hreads i (by omega)
    rw [hpick] at this ⊢
    exact applySt_eq_directRow _ f i (fun kc hkc => (this kc hkc).1)
  have c3 : fdMap s.bwd f ((N : Int) - (s.maskLen : Int)) (N : Int)
      = (List.range' (N - s.maskLen) s.maskLen).mapM
          (fun i => directRow (pickOnesided s N i) f i) := by
    rw [fdMap_range'' s.bwd f _ _ (N - s.maskLen) s.maskLen (by omega) (by omega)]
    apply mapM_congr_opt
    intro i hi
    rw [List.mem_range'_1] at hi
    have hpick : pickOnesided s N i = s.bwd := by
      unfold pickOnesided; rw [if_neg (by omega), if_neg (by omega)]
    have := hreads i (by omega)
    rw [hpick] at this ⊢
    exact applySt_eq_directRow _ f i (fun kc hkc => (this kc hkc).1)
  unfold d3Onesided
  simp only []
  rw [c1, c2, c3, hsplit, mapM_append_opt, mapM_append_opt]
  cases (List.range' 0 s.maskLen).mapM (fun i => directRow (pickOnesided s N i) f i) <;>
  cases (List.range' s.maskLen (N - 2 * s.maskLen)).mapM
      (fun i => directRow (pickOnesided s N i) f i) <;>
  cases (List.range' (N - s.maskLen) s.maskLen).mapM
      (fun i => directRow (pickOnesided s N i) f i) <;> rfl

/-! ### periodic mode -/

theorem emod_wrap (N : Nat) (x : Int) :
    (x < 0 → -(N : Int) ≤ x → x % (N : Int) = x + N) ∧
    (0 ≤ x → x < N → x % (N : Int) = x) ∧
    ((N : Int) ≤ x → x < 2 * (N : Int) → x % (N : Int) = x - N) := by
  refine ⟨fun h1 h2 => ?_, fun h1 h2 => Int.emod_eq_of_lt h1 h2, fun h1 h2 => ?_⟩
  · rw [← Int.add_emod_right]
    exact Int.emod_eq_of_lt (by omega) (by omega)
  · rw [← Int.sub_emod_right]
    exact Int.emod_eq_of_lt (by omega) (by omega)

theorem periodic_flong_get {α : Type} (f : List α) (m N : Nat) (hf : f.length = N)
    (hm1 : 1 ≤ m) (hm : m ≤ N) (x : Int) (h1 : -(m : Int) ≤ x) (h2 : x < (N : Int) + m) :
    pyGet (pySliceFrom f (-(m : Int)) ++ f ++ pySliceTo f (m : Int)) ((m : Int) + x)
      = f[(x % (N : Int)).toNat]? := by
  rw [pyGet_nonneg _ _ (by omega)]
  unfold pySliceFrom pySliceTo
  rw [hf, clampBound_neg N m hm1 hm, clampBound_of_eq N m m rfl hm]
  have hA : (List.drop (N - m) f).length = m := by rw [List.length_drop, hf]; omega
  obtain ⟨w1, w2, w3⟩ := emod_wrap N x
  rw [getElem?_append3, hA, hf]
  by_cases c1 : x < 0
  · rw [if_pos (by omega), List.getElem?_drop, w1 c1 (by omega)]
    congr 1; omega
  · by_cases c2 : x < N
    · rw [if_neg (by omega), if_pos (by omega), w2 (by omega) c2]
      congr 1; omega
    · rw [if_neg (by omega), if_neg (by omega), List.getElem?_take, if_pos (by omega),
        w3 (by omega) (by omega)]
      congr 1; omega

theorem periodic_spec_aux {α : Type} (s : Scheme) (p : Nat) (hs : shapesOK s p = true)
    (f : List α) (N : Nat) (hf : f.length = N) (hm : 1 ≤ s.maskLen) (hN : s.maskLen ≤ N) :
    d3Periodic s f N = (List.range N).mapM (fun i => wrapRow s.cen f N i)
    ∧ ∀ i < N, (wrapRow s.cen f N i).isSome := by
  obtain ⟨hp, hfwd, hbwd, hcen⟩ := shapesOK_iff s p hs
  constructor
  · unfold d3Periodic
    simp only []
    rw [fdMap_nat s.cen _ (s.maskLen : Int) _ N (by omega)]
    apply mapM_congr_opt
    intro i hi
    rw [List.mem_range] at hi
    unfold applySt wrapRow
    apply mapM_congr_opt
    intro kc hkc
    have := hcen kc hkc
    rw [Int.add_assoc, periodic_flong_get f s.maskLen N hf hm hN _ (by omega) (by omega)]
  · intro i hi
    unfold wrapRow
    apply mapM_isSome_opt
    intro kc hkc
    have hNpos : (0 : Int) < (N : Int) := by omega
    have h1 := Int.emod_nonneg ((i : Int) + kc.1) (by omega : (N : Int) ≠ 0)
    have h2 := Int.emod_lt_of_pos ((i : Int) + kc.1) hNpos
    have : (((i : Int) + kc.1) % (N : Int)).toNat < f.length := by omega
    simp [List.getElem?_eq_getElem this]

/-! ### symmetric mode -/

theorem refl_range (N m : Nat) (hN : m + 1 ≤ N) (x : Int) (h1 : -(m : Int) ≤ x)
    (h2 : x < (N : Int) + m) : 0 ≤ refl N x ∧ refl N x < N := by
  unfold refl
  by_cases c1 : x < 0
  · rw [if_pos c1]; omega
  · rw [if_neg c1]
    by_cases c2 : (N : Int) - 1 < x
    · rw [if_pos c2]; omega
    · rw [if_neg c2]; omega

theorem symmetric_flong_get {α : Type} (f : List α) (m N : Nat) (hf : f.length = N)
    (hN : m + 1 ≤ N) (x : Int) (h1 : -(m : Int) ≤ x) (h2 : x < (N : Int) + m) :
    pyGet ((pySlice f 1 (1 + (m : Int))).reverse ++ f
        ++ (pySlice f ((N : Int) - 1 - (m : Int)) ((N : Int) - 1)).reverse) ((m : Int) + x)
      = f[(refl N x).toNat]? := by
  rw [pyGet_nonneg _ _ (by omega)]
  unfold pySlice
  simp only []
  rw [hf, clampBound_of_eq N 1 1 rfl (by omega), clampBound_of_eq N (1 + m) (1 + (m : Int)) (by omega) (by omega),
    clampBound_of_eq N (N - 1 - m) ((N : Int) - 1 - (m : Int)) (by omega) (by omega),
    clampBound_of_eq N (N - 1) ((N : Int) - 1) (by omega) (by omega),
    show 1 + m - 1 = m by omega, show N - 1 - (N - 1 - m) = m by omega]
  have hA0 : (List.take m (List.drop 1 f)).length = m := by
    rw [List.length_take, List.length_drop, hf]; omega
  have hC0 : (List.take m (List.drop (N - 1 - m) f)).length = m := by
    rw [List.length_take, List.length_drop, hf]; omega
  have hA : (List.take m (List.drop 1 f)).reverse.length = m := by
    rw [List.length_reverse, hA0]
  rw [getElem?_append3, hA, hf]
  unfold refl
  by_cases c1 : x < 0
  · rw [if_pos (by omega), if_pos c1, List.getElem?_reverse (by omega), hA0,
      List.getElem?_take, if_pos (by omega), List.getElem?_drop]
    congr 1; omega
  · rw [if_neg c1]
    by_cases c2 : (N : Int) - 1 < x
    · rw [if_neg (by omega), if_neg (by omega), if_pos c2, List.getElem?_reverse (by omega), hC0,
        List.getElem?_take, if_pos (by omega), List.getElem?_drop]
      congr 1; omega
    · rw [if_neg (by omega), if_pos (by omega), if_neg c2]
      congr 1; omega

theorem symmetric_spec_aux {α : Type} (s : Scheme) (p : Nat) (hs : shapesOK s p = true)
    (f : List α) (N : Nat) (hf : f.length = N) (_hm : 1 ≤ s.maskLen) (hN : s.maskLen + 1 ≤ N) :
    d3Symmetric s f N = (List.range N).mapM (fun i => reflRow s.cen f N i)
    ∧ ∀ i < N, (reflRow s.cen f N i).isSome := by
  obtain ⟨hp, hfwd, hbwd, hcen⟩ := shapesOK_iff s p hs
  constructor
  · unfold d3Symmetric
    simp only []
    rw [fdMap_nat s.cen _ (s.maskLen : Int) _ N (by omega)]
    apply mapM_congr_opt
    intro i hi
    rw [List.mem_range] at hi
    unfold applySt reflRow
    apply mapM_congr_opt
    intro kc hkc
    have := hcen kc hkc
    simp only []
    rw [if_pos (refl_range N s.maskLen hN _ (by omega) (by omega)).1, Int.add_assoc,
      symmetric_flong_get f s.maskLen N hf hN _ (by omega) (by omega)]
  · intro i hi
    unfold reflRow
    apply mapM_isSome_opt
    intro kc hkc
    have := hcen kc hkc
    have hr := refl_range N s.maskLen hN ((i : Int) + kc.1) (by omega) (by omega)
    simp only []
    rw [if_pos hr.1]
    have : (refl N ((i : Int) + kc.1)).toNat < f.length := by omega
    simp [List.getElem?_eq_getElem this]

/-! ### naturality in the sample type -/

theorem pyGet_map {α β : Type} (g : α → β) (f : List α) (i : Int) :
    pyGet (f.map g) i = (pyGet f i).map g := by
  unfold pyGet
  rw [List.length_map]
  cases pyIdx f.length i <;> simp

theorem applySt_map {α β : Type} (g : α → β) (st : Stencil) (f : List α) (i : Int) :
    applySt st (f.map g) i = (applySt st f i).map (List.map (fun ca => (ca.1, g ca.2))) := by
  unfold applySt
  apply mapM_natural_opt
  intro kc _
  rw [pyGet_map]
  cases pyGet f (i + kc.1) <;> rfl

theorem fdMap_map {α β : Type} (g : α → β) (st : Stencil) (f : List α) (a b : Int) :
    fdMap st (f.map g) a b
      = (fdMap st f a b).map (List.map (List.map (fun ca => (ca.1, g ca.2)))) := by
  unfold fdMap
  apply mapM_natural_opt
  intro i _
  exact applySt_map g st f i

theorem pySlice_map {α β : Type} (g : α → β) (f : List α) (a b : Int) :
    pySlice (f.map g) a b = (pySlice f a b).map g := by
  simp [pySlice, List.map_take, List.map_drop]

theorem pySliceFrom_map {α β : Type} (g : α → β) (f : List α) (a : Int) :
    pySliceFrom (f.map g) a = (pySliceFrom f a).map g := by
  simp [pySliceFrom, List.map_drop]

theorem pySliceTo_map {α β : Type} (g : α → β) (f : List α) (a : Int) :
    pySliceTo (f.map g) a = (pySliceTo f a).map g := by
  simp [pySliceTo, List.map_take]

theorem d3_natural_aux {α β : Type} (g : α → β) (b : Boundary) (s : Scheme) (f : List α) (N : Nat) :
    d3 b s (f.map g) N = (d3 b s f N).map
      (fun rows => rows.map (fun row => row.map (fun ca => (ca.1, g ca.2)))) := by
  cases b with
  | none =>
    show d3Onesided s (f.map g) N = (d3Onesided s f N).map _
    unfold d3Onesided
    simp only [fdMap_map]
    cases fdMap s.fwd f 0 (s.maskLen : Int) <;>
    cases fdMap s.cen f (s.maskLen : Int) ((N : Int) - (s.maskLen : Int)) <;>
    cases fdMap s.bwd f ((N : Int) - (s.maskLen : Int)) (N : Int) <;> simp
  | periodic =>
    show d3Periodic s (f.map g) N = (d3Periodic s f N).map _
    unfold d3Periodic
    simp only [pySliceFrom_map, pySliceTo_map, ← List.map_append, fdMap_map]
  | symmetric =>
    show d3Symmetric s (f.map g) N = (d3Symmetric s f N).map _
    unfold d3Symmetric
    simp only [pySlice_map, ← List.map_reverse, ← List.map_append, fdMap_map]

/-! ### transposition -/

theorem transpose12_of_head? {β : Type} (f : List (List β)) (r : List β) (h : f.head? = some r) :
    transpose12 f = (List.range r.length).map (fun j => f.filterMap (fun row => row[j]?)) := by
  cases f with
  | nil => simp at h
  | cons a t =>
    simp at h; subst h; rfl

theorem col_length {β : Type} (f : List (List β)) (j : Nat) (h : ∀ r ∈ f, j < r.length) :
    (f.filterMap (fun row => row[j]?)).length = f.length := by
  induction f with
  | nil => rfl
  | cons a t ih =>
    have ha : j < a.length := h a (List.mem_cons_self ..)
    rw [List.filterMap_cons, List.getElem?_eq_getElem ha]
    simp [ih (fun r hr => h r (List.mem_cons_of_mem _ hr))]

theorem col_getElem? {β : Type} (f : List (List β)) (j : Nat) (h : ∀ r ∈ f, j < r.length) (i : Nat) :
    (f.filterMap (fun row => row[j]?))[i]? = (f[i]?).bind (fun row => row[j]?) := by
  induction f generalizing i with
  | nil => simp
  | cons a t ih =>
    have ha : j < a.length := h a (List.mem_cons_self ..)
    rw [List.filterMap_cons, List.getElem?_eq_getElem ha]
    cases i with
    | zero => simp [List.getElem?_eq_getElem ha]
    | succ i =>
      simp only [List.getElem?_cons_succ]
      exact ih (fun r hr => h r (List.mem_cons_of_mem _ hr)) i

theorem filterMap_congr_mem {α β : Type} (l : List α) (f g : α → Option β)
    (h : ∀ x ∈ l, f x = g x) : l.filterMap f = l.filterMap g := by
  induction l with
  | nil => rfl
  | cons a t ih =>
    rw [List.filterMap_cons, List.filterMap_cons, h a (List.mem_cons_self ..),
      ih (fun x hx => h x (List.mem_cons_of_mem _ hx))]

theorem filterMap_getElem?_range {β : Type} (l : List β) :
    (List.range l.length).filterMap (fun j => l[j]?) = l := by
  induction l with
  | nil => rfl
  | cons a t ih =>
    rw [List.length_cons, List.range_succ_eq_map, List.filterMap_cons]
    simp only [List.getElem?_cons_zero, List.filterMap_map]
    congr 1

theorem transpose12_involutive_aux {β : Type} (f : List (List β)) (n : Nat)
    (hrect : ∀ r ∈ f, r.length = n) (hne : f ≠ []) (hn : 0 < n) :
    transpose12 (transpose12 f) = f := by
  obtain ⟨r, t, rfl⟩ := List.exists_cons_of_ne_nil hne
  have hr : r.length = n := hrect r (List.mem_cons_self ..)
  have hcol : ∀ j < n, ∀ row ∈ (r :: t), j < row.length := by
    intro j hj row hrow; rw [hrect row hrow]; exact hj
  have hT : transpose12 (r :: t)
      = (List.range n).map (fun j => (r :: t).filterMap (fun row => row[j]?)) := by
    rw [transpose12_of_head? (r :: t) r rfl, hr]
  obtain ⟨n', rfl⟩ : ∃ n', n = n' + 1 := ⟨n - 1, by omega⟩
  have hhead : (transpose12 (r :: t)).head?
      = some ((r :: t).filterMap (fun row => row[0]?)) := by
    rw [hT, List.range_succ_eq_map]; rfl
  rw [transpose12_of_head? _ _ hhead, col_length _ 0 (hcol 0 hn), hT]
  apply List.ext_getElem
  · simp
  · intro i h1 h2
    rw [List.getElem_map, List.getElem_range, List.filterMap_map]
    have hi : i < (r :: t).length := h2
    have hrow : ((r :: t)[i]).length = n' + 1 := hrect _ (List.getElem_mem hi)
    have : (List.range (n' + 1)).filterMap
          ((fun (row : List β) => row[i]?) ∘ fun j => (r :: t).filterMap (fun row => row[j]?))
        = (List.range ((r :: t)[i]).length).filterMap (fun j => ((r :: t)[i])[j]?) := by
      rw [hrow]
      apply filterMap_congr_mem
      intro j hj
      rw [List.mem_range] at hj
      simp only [Function.comp]
      rw [col_getElem? _ j (hcol j hj) i, List.getElem?_eq_getElem hi]
      rfl
    rw [this, filterMap_getElem?_range]

end AurelVerif.SpliceLemmas
