/-
Lemmas/C11AcceptConv.lean — C11, converse of the structure theorem: EVERY
ordered origin-annotated decomposition is accepted by `join_chunks`, whatever
the recorded origins are (gaps, overlaps, shifted strips): the blocks are
packed side by side in origin order.  (Generalises `join_general`, which is the
gap-free case.)
-/
import AurelVerif.Lemmas.C11AcceptCons
namespace AurelVerif.AcceptLemmas
open AurelVerif.Chunks AurelVerif.ChunksLemmas AurelVerif.ChunkLayout
set_option linter.unusedSimpArgs false
set_option linter.unusedVariables false

theorem cutsP_payload {τ γ : Type} (f : τ → γ) (o : Nat) (L : List (Nat × τ)) :
    (cutsP o L).map (fun c => f c.2.2) = L.map (fun s => f s.2) := by
  induction L generalizing o with
  | nil => rfl
  | cons s rest ih => obtain ⟨l, t⟩ := s; simp [cutsP, ih]

/-- joining, in any order, consecutive pieces filed under ANY strictly increasing keys -/
theorem joinSorted_pieces_keys {β τ : Type} (cat : β → β → Option β) (pre : Nat → β) (sl : Nat → Nat → β) (n : Nat)
    (h0 : ∀ l, sl 0 l = pre l)
    (hcat : ∀ o l, 0 < o → 0 < l → o + l ≤ n → cat (pre o) (sl o l) = some (pre (o + l)))
    (key : τ → Nat) (L : List (Nat × τ)) (hne : L ≠ []) (hpos : ∀ p ∈ L, 0 < p.1)
    (hsum : (L.map Prod.fst).sum = n) (hkeys : (L.map fun s => key s.2).Pairwise (· < ·))
    (g' : Dict Nat β) (hp : g'.Perm ((cutsP 0 L).map fun c => (key c.2.2, sl c.1 c.2.1))) :
    joinSorted cat g' = some (pre n) := by
  have hs : (((cutsP 0 L).map fun c => (key c.2.2, sl c.1 c.2.1)).map Prod.fst).Pairwise (· < ·) := by
    rw [List.map_map]
    have : (Prod.fst ∘ fun c : Nat × Nat × τ => (key c.2.2, sl c.1 c.2.1)) = fun c => key c.2.2 := rfl
    rw [this, cutsP_payload key 0 L]
    exact hkeys
  rw [joinSorted_perm cat hp hs, List.map_map]
  have : (Prod.snd ∘ fun c : Nat × Nat × τ => (key c.2.2, sl c.1 c.2.1)) = fun c => sl c.1 c.2.1 := rfl
  rw [this, cutsP_map' (fun o l => sl o l) 0 L]
  exact foldCat_pieces cat pre sl n h0 hcat (L.map Prod.fst)
    (by intro e; exact hne (List.map_eq_nil_iff.mp e))
    (by intro l hl; obtain ⟨p, hp', rfl⟩ := List.mem_map.mp hl; exact hpos p hp') hsum

abbrev ZCo := Nat × Nat × Nat × OY
abbrev YCo := Nat × Nat × Nat × OX

def stripIdxO (O : OZ) : List (ZCo × YCo) :=
  (cutsP 0 O).flatMap fun zc => (cutsP 0 zc.2.2.2).map fun yc => (zc, yc)

def slabO {α : Type} (A : Arr3 α) (zc : ZCo) : Arr3 α := slice0 zc.1 zc.2.1 A
def stripO {α : Type} (A : Arr3 α) (zc : ZCo) (yc : YCo) : Arr3 α := slice1 yc.1 yc.2.1 (slabO A zc)

theorem ochunks_eq_flat {α : Type} (A : Arr3 α) (O : OZ) :
    ochunks A O = flat ((stripIdxO O).map fun i =>
      ((i.2.2.2.1, i.1.2.2.1),
       (cutsP 0 i.2.2.2.2).map fun xc => (xc.2.2, slice2 xc.1 xc.2.1 (stripO A i.1 i.2)))) := by
  simp [ochunks, flat, stripIdxO, stripO, slabO, List.flatMap_map, List.map_flatMap, List.flatMap_assoc,
    Function.comp_def]

theorem stripsO_eq_flat {α : Type} (A : Arr3 α) (O : OZ) :
    ((stripIdxO O).map fun i => ((i.2.2.2.1, i.1.2.2.1), stripO A i.1 i.2))
      = flat ((cutsP 0 O).map fun zc =>
          (zc.2.2.1, (cutsP 0 zc.2.2.2).map fun yc => (yc.2.2.1, stripO A zc yc))) := by
  simp [flat, stripIdxO, List.flatMap_map, List.map_flatMap, Function.comp_def]

/-- what `O.lens.Valid` and `O.Ordered` say about the slabs -/
theorem validO_zc {O : OZ} {nz ny nx : Nat} (hV : O.lens.Valid nz ny nx) (hO : O.Ordered) (hy : 0 < ny) :
    ∀ zc ∈ cutsP 0 O, 0 < zc.2.1 ∧ zc.1 + zc.2.1 ≤ nz ∧ zc.2.2.2 ≠ []
      ∧ (∀ t ∈ zc.2.2.2, 0 < t.1) ∧ (zc.2.2.2.map Prod.fst).sum = ny
      ∧ (zc.2.2.2.map fun t => t.2.1).Pairwise (· < ·) := by
  intro zc hzc
  have hm := cutsP_mem 0 O zc hzc
  have hlens : (zc.2.1, zc.2.2.2.map fun t => (t.1, t.2.2.map Prod.fst)) ∈ O.lens := by
    unfold OZ.lens
    exact List.mem_map.mpr ⟨(zc.2.1, zc.2.2), hm.1, rfl⟩
  obtain ⟨hpos, hys, hysum⟩ := hV.1 _ hlens
  have hsumz : (O.lens.map Prod.fst).sum = nz := hV.2
  have e : O.lens.map Prod.fst = O.map Prod.fst := by simp [OZ.lens, List.map_map, Function.comp_def]
  rw [e] at hsumz
  simp only [List.map_map, Function.comp_def] at hysum
  have hne : zc.2.2.2 ≠ [] := by
    intro e'; rw [e'] at hysum; simp at hysum; omega
  refine ⟨hpos, by have := hm.2; omega, hne, ?_, hysum, (hO.2 _ hm.1).1⟩
  intro t ht
  exact (hys (t.1, t.2.2.map Prod.fst) (List.mem_map.mpr ⟨t, ht, rfl⟩)).1

theorem validO_yc {O : OZ} {nz ny nx : Nat} (hV : O.lens.Valid nz ny nx) (hO : O.Ordered) (hy : 0 < ny)
    (hx : 0 < nx) :
    ∀ zc ∈ cutsP 0 O, ∀ yc ∈ cutsP 0 zc.2.2.2, 0 < yc.2.1 ∧ yc.1 + yc.2.1 ≤ ny ∧ yc.2.2.2 ≠ []
      ∧ (∀ p ∈ yc.2.2.2, 0 < p.1) ∧ (yc.2.2.2.map Prod.fst).sum = nx
      ∧ (yc.2.2.2.map Prod.snd).Pairwise (· < ·) := by
  intro zc hzc yc hyc
  have hm := cutsP_mem 0 O zc hzc
  have hlens : (zc.2.1, zc.2.2.2.map fun t => (t.1, t.2.2.map Prod.fst)) ∈ O.lens := by
    unfold OZ.lens
    exact List.mem_map.mpr ⟨(zc.2.1, zc.2.2), hm.1, rfl⟩
  obtain ⟨_, hys, _⟩ := hV.1 _ hlens
  obtain ⟨_, _, _, _, hysum, _⟩ := validO_zc hV hO hy zc hzc
  have hm2 := cutsP_mem 0 zc.2.2.2 yc hyc
  obtain ⟨hpos, hxs, hxsum⟩ := hys (yc.2.1, yc.2.2.2.map Prod.fst)
    (List.mem_map.mpr ⟨(yc.2.1, yc.2.2), hm2.1, rfl⟩)
  have hne : yc.2.2.2 ≠ [] := by
    intro e'; rw [e'] at hxsum; simp at hxsum; omega
  refine ⟨hpos, by have := hm2.2; omega, hne, ?_, hxsum, ((hO.2 _ hm.1).2 _ hm2.1)⟩
  intro p hp
  exact hxs p.1 (List.mem_map.mpr ⟨p, hp, rfl⟩)

theorem cutsP_keys_nodup {τ : Type} (key : τ → Nat) (L : List (Nat × τ))
    (h : (L.map fun s => key s.2).Pairwise (· < ·)) : ((cutsP 0 L).map fun c => key c.2.2).Nodup := by
  rw [cutsP_payload key 0 L]
  exact h.imp (fun h => Nat.ne_of_lt h)

theorem stripO_keys_nodup {O : OZ} {nz ny nx : Nat} (hV : O.lens.Valid nz ny nx) (hO : O.Ordered) (hy : 0 < ny) :
    ((stripIdxO O).map fun i => (i.2.2.2.1, i.1.2.2.1)).Nodup := by
  have h1 : (stripIdxO O).map (fun i => (i.2.2.2.1, i.1.2.2.1))
      = (cutsP 0 O).flatMap fun zc => (cutsP 0 zc.2.2.2).map fun yc => (yc.2.2.1, zc.2.2.1) := by
    simp [stripIdxO, List.map_flatMap, Function.comp_def]
  rw [h1, List.nodup_flatMap]
  constructor
  · intro zc hzc
    obtain ⟨_, _, _, _, _, hk⟩ := validO_zc hV hO hy zc hzc
    have := cutsP_keys_nodup (fun p : Nat × OX => p.1) zc.2.2.2 hk
    have h2 : ((cutsP 0 zc.2.2.2).map fun yc => (yc.2.2.1, zc.2.2.1))
        = ((cutsP 0 zc.2.2.2).map fun yc => yc.2.2.1).map (fun k => (k, zc.2.2.1)) := by simp
    rw [h2]
    exact List.Nodup.map (fun a c h => by simpa using h) this
  · have hk : ((cutsP 0 O).map fun zc => zc.2.2.1).Pairwise (· < ·) := by
      rw [cutsP_payload (fun p : Nat × OY => p.1) 0 O]; exact hO.1
    rw [List.pairwise_map] at hk
    refine hk.imp ?_
    intro a c hac x hxa hxc
    obtain ⟨_, _, rfl⟩ := List.mem_map.mp hxa
    obtain ⟨_, _, h⟩ := List.mem_map.mp hxc
    simp only [Prod.mk.injEq] at h
    omega

/-- **every ordered origin-annotated decomposition is accepted**, whatever its
recorded origins: the blocks are packed side by side in origin order -/
theorem join_general_O {α : Type} (A : Arr3 α) (nz ny nx : Nat) (hA : Rect A nz ny nx)
    (hz : 0 < nz) (hy : 0 < ny) (hx : 0 < nx) (O : OZ) (hV : O.lens.Valid nz ny nx) (hO : O.Ordered)
    (l : Dict (Nat × Nat × Nat) (Arr3 α)) (hl : l.Perm (ochunks A O)) :
    joinGeneral l = some A := by
  obtain ⟨hAlen, hArect⟩ := hA
  have hzc := validO_zc hV hO hy
  have hyc := validO_yc hV hO hy hx
  have hslab : ∀ zc : ZCo, ∀ p ∈ slabO A zc, p.length = ny ∧ ∀ r ∈ p, r.length = nx :=
    fun zc p hp => hArect p (mem_of_mem_slice hp)
  have hstrip : ∀ (zc : ZCo) (yc : YCo), ∀ p ∈ stripO A zc yc, ∀ r ∈ p, r.length = nx := by
    intro zc yc p hp r hr
    obtain ⟨q, hq, rfl⟩ := List.mem_map.mp hp
    exact (hslab zc q hq).2 r (mem_of_mem_slice hr)
  unfold joinGeneral
  -- pass 1: along x
  obtain ⟨R1, hR1, hP1⟩ := pass_spec cat2 (stripIdxO O)
    (fun i => (i.2.2.2.1, i.1.2.2.1))
    (fun i => (cutsP 0 i.2.2.2.2).map fun xc => (xc.2.2, slice2 xc.1 xc.2.1 (stripO A i.1 i.2)))
    (fun i => stripO A i.1 i.2)
    (stripO_keys_nodup hV hO hy)
    (by
      intro i hi
      obtain ⟨zc, hzcm, hi⟩ := List.mem_flatMap.mp hi
      obtain ⟨yc, hycm, rfl⟩ := List.mem_map.mp hi
      obtain ⟨_, _, hne, _⟩ := hyc zc hzcm yc hycm
      simpa using cutsP_ne_nil 0 _ hne)
    (by
      intro i hi
      obtain ⟨zc, hzcm, hi⟩ := List.mem_flatMap.mp hi
      obtain ⟨yc, hycm, rfl⟩ := List.mem_map.mp hi
      obtain ⟨_, _, _, _, _, hk⟩ := hyc zc hzcm yc hycm
      rw [List.map_map]
      exact cutsP_keys_nodup (fun k : Nat => k) yc.2.2.2 hk)
    (by
      intro i hi g' hg'
      obtain ⟨zc, hzcm, hi⟩ := List.mem_flatMap.mp hi
      obtain ⟨yc, hycm, rfl⟩ := List.mem_map.mp hi
      obtain ⟨_, _, hne, hp, hs, hk⟩ := hyc zc hzcm yc hycm
      have := joinSorted_pieces_keys cat2 (fun o => (stripO A zc yc).map fun p => p.map (List.take o))
        (fun o l => slice2 o l (stripO A zc yc)) nx
        (by intro l; simp [slice2, slice0_zero])
        (fun o l _ _ _ => cat2_take_slice (stripO A zc yc) o l)
        (fun k : Nat => k) yc.2.2.2 hne hp hs hk g' hg'
      rw [this]
      congr 1
      calc (stripO A zc yc).map (fun p => p.map (List.take nx))
          = (stripO A zc yc).map id := by
            apply List.map_congr_left
            intro p hp'
            calc p.map (List.take nx) = p.map id := by
                  apply List.map_congr_left
                  intro r hr
                  exact List.take_of_length_le (by rw [hstrip zc yc p hp' r hr]; exact Nat.le_refl _)
              _ = p := List.map_id p
        _ = stripO A zc yc := List.map_id _)
    l (by rw [← ochunks_eq_flat]; exact hl)
  simp only [hR1]
  -- pass 2: along y
  obtain ⟨R2, hR2, hP2⟩ := pass_spec cat1 (cutsP 0 O)
    (fun zc => zc.2.2.1)
    (fun zc => (cutsP 0 zc.2.2.2).map fun yc => (yc.2.2.1, stripO A zc yc))
    (fun zc => slabO A zc)
    (cutsP_keys_nodup (fun p : Nat × OY => p.1) O hO.1)
    (by
      intro zc h
      obtain ⟨_, _, hne, _⟩ := hzc zc h
      simpa using cutsP_ne_nil 0 _ hne)
    (by
      intro zc h
      obtain ⟨_, _, _, _, _, hk⟩ := hzc zc h
      rw [List.map_map]
      exact cutsP_keys_nodup (fun p : Nat × OX => p.1) zc.2.2.2 hk)
    (by
      intro zc h g' hg'
      obtain ⟨_, _, hne, hp, hs, hk⟩ := hzc zc h
      have := joinSorted_pieces_keys cat1 (fun o => (slabO A zc).map (List.take o))
        (fun o l => slice1 o l (slabO A zc)) ny
        (by intro l; simp [slice1, slice0_zero])
        (fun o l ho hl hol => cat1_take_slice (slabO A zc) ny nx (hslab zc) o l ho hl hol)
        (fun p : Nat × OX => p.1) zc.2.2.2 hne hp hs hk g' hg'
      rw [this]
      congr 1
      calc (slabO A zc).map (List.take ny) = (slabO A zc).map id := by
            apply List.map_congr_left
            intro p hp'
            exact List.take_of_length_le (by rw [(hslab zc p hp').1]; exact Nat.le_refl _)
        _ = slabO A zc := List.map_id _)
    R1 (by rw [← stripsO_eq_flat]; exact hP1)
  simp only [hR2]
  -- pass 3: along z
  have hOne : O ≠ [] := by
    intro e
    have := hV.2
    rw [e] at this
    simp [OZ.lens] at this
    omega
  have hsumz : (O.map Prod.fst).sum = nz := by
    have := hV.2
    simpa [OZ.lens, List.map_map, Function.comp_def] using this
  have hposz : ∀ s ∈ O, 0 < s.1 := by
    intro s hs
    exact (hV.1 (s.1, s.2.2.map fun t => (t.1, t.2.2.map Prod.fst)) (List.mem_map.mpr ⟨s, hs, rfl⟩)).1
  have := joinSorted_pieces_keys cat0 (fun o => A.take o) (fun o l => slice0 o l A) nz
    (by intro l; simp [slice0, slice0_zero])
    (fun o l ho hl hol => cat0_take_slice A nz ny nx hAlen hArect hy o l ho hl hol)
    (fun p : Nat × OY => p.1) O hOne hposz hsumz hO.1 R2 hP2
  rw [this]
  congr 1
  exact List.take_of_length_le (by rw [hAlen]; exact Nat.le_refl _)

end AurelVerif.AcceptLemmas
