/-
Lemmas/C20JacobiPoly.lean — the closed-form sum of `maths.sYlm` for orders
`m ≥ |s|` as a polynomial in u = (1+X)/2, v = (1−X)/2 (natural parameters
n = l − m, a0 = m − s, b0 = m + s; r = a0 + j, j = 0..n):

  cf n a0 b0 j = C(n+a0, a0+j) · C(n+b0, j) · (−1)^(n+j)        (the code's coefficient)
  Qp n a0 b0   = Σ_j cf_j · u^j · v^(n−j)                        (a Jacobi polynomial)

* `rodrigues`      D^n (u^(n+a0) v^(n+b0)) = n!·(1/2)^n·(−1)^n · u^a0 v^b0 · Qp n a0 b0
* `Qp_natDegree`   deg Qp ≤ n
* `Qp_coeff`       [X^n] Qp = (1/2)^n · C(2n+a0+b0, n)           (Vandermonde)
* `integ_prod_low` ∫ u^a0 v^b0 Qp_n Qp_n' = 0                    (n' < n)
* `integ_prod_diag` ∫ u^a0 v^b0 Qp_n² = C(2n+a0+b0, n)·2·(n+a0)!·(n+b0)!/(2n+a0+b0+1)!

`integ` is the algebraic integral over [−1, 1] of Lemmas/C20JacobiInteg.lean.
-/
import Mathlib.Data.Nat.Choose.Vandermonde
import Mathlib.Algebra.Polynomial.BigOperators
import AurelVerif.Lemmas.C20JacobiInteg

namespace AurelVerif.HarmJacobi
open Polynomial

noncomputable section

/-- the code's coefficient `binom(l−s, r)·binom(l+s, r+s−m)·(−1)^(l−r−s)` in the
parameters `n = l − m`, `a0 = m − s`, `b0 = m + s`, `r = a0 + j`
(`(−1)^(n−j) = (−1)^(n+j)`). -/
def cf (n a0 b0 j : ℕ) : ℤ :=
  ((n + a0).choose (a0 + j) : ℤ) * ((n + b0).choose j : ℤ) * (-1) ^ (n + j)

/-- `Σ_j cf_j u^j v^(n−j)` -/
def Qp (n a0 b0 : ℕ) : ℚ[X] :=
  ∑ j ∈ Finset.range (n + 1), C ((cf n a0 b0 j : ℤ) : ℚ) * u ^ j * v ^ (n - j)

/-! ### iterated derivatives of powers of a linear polynomial -/

theorem iterate_derivative_lin_pow (w : ℚ[X]) (d : ℚ) (hw : derivative w = C d) (A k : ℕ) :
    derivative^[k] (w ^ A) = C ((A.descFactorial k : ℚ) * d ^ k) * w ^ (A - k) := by
  induction k with
  | zero => simp
  | succ k ih =>
    rw [Function.iterate_succ_apply', ih, derivative_C_mul, derivative_pow, hw,
      Nat.descFactorial_succ, Nat.sub_add_eq]
    simp only [map_mul, map_pow, map_natCast, Nat.cast_mul]
    ring

/-! ### Rodrigues formula -/

theorem rodrigues_nat (k i a0 b0 : ℕ) :
    (k + i).choose k * ((k + i + a0).descFactorial i * (k + i + b0).descFactorial k)
      = (k + i).factorial * ((k + i + a0).choose (a0 + k) * (k + i + b0).choose k) := by
  have h1 : (k + i).choose k * k.factorial * i.factorial = (k + i).factorial := by
    have := Nat.choose_mul_factorial_mul_factorial (n := k + i) (k := k) (by omega)
    rwa [Nat.add_sub_cancel_left] at this
  have h2 : (k + i + a0).choose i = (k + i + a0).choose (a0 + k) :=
    Nat.choose_symm_of_eq_add (by omega)
  rw [Nat.descFactorial_eq_factorial_mul_choose, Nat.descFactorial_eq_factorial_mul_choose, h2,
    ← h1]
  ring

theorem rodrigues_term (k i a0 b0 : ℕ) :
    (k + i).choose k • (derivative^[i] (u ^ (k + i + a0)) * derivative^[k] (v ^ (k + i + b0)))
      = C (((k + i).factorial : ℚ) * (1 / 2) ^ (k + i) * (-1) ^ (k + i))
          * (u ^ a0 * v ^ b0 * (C ((cf (k + i) a0 b0 k : ℤ) : ℚ) * u ^ k * v ^ i)) := by
  rw [iterate_derivative_lin_pow u (1 / 2) derivative_u, iterate_derivative_lin_pow v (-(1 / 2)) derivative_v]
  have e1 : k + i + a0 - i = a0 + k := by omega
  have e2 : k + i + b0 - k = b0 + i := by omega
  rw [e1, e2, nsmul_eq_mul]
  have hN : (((k + i).choose k : ℕ) : ℚ[X])
        * ((((k + i + a0).descFactorial i : ℕ) : ℚ[X]) * (((k + i + b0).descFactorial k : ℕ) : ℚ[X]))
      = (((k + i).factorial : ℕ) : ℚ[X])
        * ((((k + i + a0).choose (a0 + k) : ℕ) : ℚ[X]) * (((k + i + b0).choose k : ℕ) : ℚ[X])) := by
    exact_mod_cast congrArg (Nat.cast (R := ℚ[X])) (rodrigues_nat k i a0 b0)
  have hsq : ((-1 : ℚ[X]) ^ k) * ((-1 : ℚ[X]) ^ k) = 1 := by rw [← mul_pow]; simp
  have hsq' : ((-1 : ℚ[X]) ^ i) * ((-1 : ℚ[X]) ^ i) = 1 := by rw [← mul_pow]; simp
  unfold cf
  simp only [map_mul, map_pow, map_natCast, map_neg, map_one, Int.cast_mul, Int.cast_pow,
    Int.cast_neg, Int.cast_one, Int.cast_natCast, neg_pow (C (1 / 2 : ℚ)) k, pow_add]
  linear_combination (C (1 / 2 : ℚ) ^ i * C (1 / 2 : ℚ) ^ k * (-1) ^ k * u ^ a0 * u ^ k * v ^ b0 * v ^ i) * hN
    + (-(C (1 / 2 : ℚ) ^ i * C (1 / 2 : ℚ) ^ k * u ^ a0 * u ^ k * v ^ i * v ^ b0
        * (((k + i).factorial : ℕ) : ℚ[X])
        * (((k + i + a0).choose (a0 + k) : ℕ) : ℚ[X]) * (((k + i + b0).choose k : ℕ) : ℚ[X]))
        * (-1) ^ k * (-1) ^ k * (-1) ^ k) * hsq'
    + (-(C (1 / 2 : ℚ) ^ i * C (1 / 2 : ℚ) ^ k * u ^ a0 * u ^ k * v ^ i * v ^ b0
        * (((k + i).factorial : ℕ) : ℚ[X])
        * (((k + i + a0).choose (a0 + k) : ℕ) : ℚ[X]) * (((k + i + b0).choose k : ℕ) : ℚ[X]))
        * (-1) ^ k) * hsq

/-- **Rodrigues formula** for the code's sum. -/
theorem rodrigues (n a0 b0 : ℕ) :
    derivative^[n] (u ^ (n + a0) * v ^ (n + b0))
      = C ((n.factorial : ℚ) * (1 / 2) ^ n * (-1) ^ n) * (u ^ a0 * v ^ b0 * Qp n a0 b0) := by
  rw [iterate_derivative_mul]
  unfold Qp
  rw [Finset.mul_sum, Finset.mul_sum]
  apply Finset.sum_congr rfl
  intro k hk
  rw [Finset.mem_range] at hk
  obtain ⟨i, rfl⟩ : ∃ i, n = k + i := ⟨n - k, by omega⟩
  rw [Nat.add_sub_cancel_left]
  exact rodrigues_term k i a0 b0

theorem rodrigues_inv (n a0 b0 : ℕ) :
    u ^ a0 * v ^ b0 * Qp n a0 b0
      = C ((-2) ^ n / (n.factorial : ℚ)) * derivative^[n] (u ^ (n + a0) * v ^ (n + b0)) := by
  rw [rodrigues, ← mul_assoc, ← C_mul]
  have h : (n.factorial : ℚ) ≠ 0 := by positivity
  have : (-2 : ℚ) ^ n / (n.factorial : ℚ) * ((n.factorial : ℚ) * (1 / 2) ^ n * (-1) ^ n) = 1 := by
    have e : (-2 : ℚ) ^ n * ((1 / 2) ^ n * (-1) ^ n) = 1 := by
      rw [← mul_pow, ← mul_pow]; norm_num
    field_simp
    linear_combination e
  rw [this]; simp

/-! ### degree and top coefficient of `Qp` -/

theorem natDegree_u_pow (j : ℕ) : (u ^ j).natDegree ≤ j := by
  simpa using natDegree_pow_le_of_le j natDegree_u_le

theorem natDegree_v_pow (j : ℕ) : (v ^ j).natDegree ≤ j := by
  simpa using natDegree_pow_le_of_le j natDegree_v_le

theorem coeff_u_pow (j : ℕ) : (u ^ j).coeff j = (1 / 2) ^ j := by
  have := coeff_pow_of_natDegree_le (m := j) natDegree_u_le
  rwa [mul_one, coeff_u_one] at this

theorem coeff_v_pow (j : ℕ) : (v ^ j).coeff j = (-(1 / 2)) ^ j := by
  have := coeff_pow_of_natDegree_le (m := j) natDegree_v_le
  rwa [mul_one, coeff_v_one] at this

theorem natDegree_mono_le (c : ℚ) (j i : ℕ) : (C c * u ^ j * v ^ i).natDegree ≤ j + i := by
  rw [mul_assoc]
  exact (natDegree_C_mul_le _ _).trans (natDegree_mul_le_of_le (natDegree_u_pow j) (natDegree_v_pow i))

theorem coeff_mono (c : ℚ) (j i : ℕ) :
    (C c * u ^ j * v ^ i).coeff (j + i) = c * (1 / 2) ^ j * (-(1 / 2)) ^ i := by
  rw [mul_assoc, coeff_C_mul,
    coeff_mul_add_eq_of_natDegree_le (natDegree_u_pow j) (natDegree_v_pow i), coeff_u_pow,
    coeff_v_pow]
  ring

theorem Qp_natDegree (n a0 b0 : ℕ) : (Qp n a0 b0).natDegree ≤ n := by
  unfold Qp
  apply natDegree_sum_le_of_forall_le
  intro j hj
  rw [Finset.mem_range] at hj
  have := natDegree_mono_le ((cf n a0 b0 j : ℤ) : ℚ) j (n - j)
  omega

/-- Vandermonde in the form needed here. -/
theorem vandermonde_shift (n a0 b0 : ℕ) :
    ∑ j ∈ Finset.range (n + 1), (n + a0).choose (a0 + j) * (n + b0).choose j
      = (2 * n + a0 + b0).choose n := by
  have h := Nat.add_choose_eq (n + b0) (n + a0) n
  rw [Finset.Nat.sum_antidiagonal_eq_sum_range_succ (fun i j => (n + b0).choose i * (n + a0).choose j) n]
    at h
  rw [show 2 * n + a0 + b0 = n + b0 + (n + a0) by omega, h]
  apply Finset.sum_congr rfl
  intro j hj
  rw [Finset.mem_range] at hj
  have : (n + a0).choose (n - j) = (n + a0).choose (a0 + j) :=
    Nat.choose_symm_of_eq_add (by omega)
  rw [this, mul_comm]

theorem Qp_coeff (n a0 b0 : ℕ) :
    (Qp n a0 b0).coeff n = (1 / 2) ^ n * ((2 * n + a0 + b0).choose n : ℚ) := by
  unfold Qp
  rw [finsetSum_coeff, ← vandermonde_shift, Nat.cast_sum, Finset.mul_sum]
  apply Finset.sum_congr rfl
  intro j hj
  rw [Finset.mem_range] at hj
  obtain ⟨i, rfl⟩ : ∃ i, n = j + i := ⟨n - j, by omega⟩
  rw [Nat.add_sub_cancel_left, coeff_mono]
  unfold cf
  have hsq : ((-1 : ℚ) ^ j) * ((-1 : ℚ) ^ j) = 1 := by rw [← mul_pow]; simp
  have hsq' : ((-1 : ℚ) ^ i) * ((-1 : ℚ) ^ i) = 1 := by rw [← mul_pow]; simp
  push_cast
  rw [neg_pow (1 / 2 : ℚ) i, pow_add, pow_add, pow_add]
  linear_combination
    (((j + i + a0).choose (a0 + j) : ℚ) * ((j + i + b0).choose j : ℚ) * (1 / 2) ^ j * (1 / 2) ^ i)
      * ((-1) ^ i * (-1) ^ i * hsq + hsq')

/-! ### the integrals of the products -/

theorem integ_prod_low (n n' a0 b0 : ℕ) (h : n' < n) :
    integ (u ^ a0 * v ^ b0 * Qp n a0 b0 * Qp n' a0 b0) = 0 := by
  rw [rodrigues_inv, mul_assoc, integ_C_mul,
    integ_rodrigues_low (n + a0) (n + b0) n (by omega) (by omega) _
      (lt_of_le_of_lt (Qp_natDegree n' a0 b0) h), mul_zero]

theorem integ_prod_diag (n a0 b0 : ℕ) :
    integ (u ^ a0 * v ^ b0 * Qp n a0 b0 * Qp n a0 b0)
      = ((2 * n + a0 + b0).choose n : ℚ) * (2 * ((n + a0).factorial : ℚ) * ((n + b0).factorial : ℚ)
          / ((2 * n + a0 + b0 + 1).factorial : ℚ)) := by
  rw [rodrigues_inv, mul_assoc, integ_C_mul,
    integ_rodrigues_top (n + a0) (n + b0) n (by omega) (by omega) _ (Qp_natDegree n a0 b0),
    Qp_coeff, integ_beta, show n + a0 + (n + b0) + 1 = 2 * n + a0 + b0 + 1 by omega]
  have h : (n.factorial : ℚ) ≠ 0 := by positivity
  have e : (-2 : ℚ) ^ n * ((-1) ^ n * (1 / 2) ^ n) = 1 := by
    rw [← mul_pow, ← mul_pow]; norm_num
  have key : ∀ Ch Bt : ℚ, (-2 : ℚ) ^ n / (n.factorial : ℚ)
      * ((-1) ^ n * ((n.factorial : ℚ) * ((1 / 2) ^ n * Ch)) * Bt) = Ch * Bt := by
    intro Ch Bt
    rw [div_mul_eq_mul_div, div_eq_iff h]
    linear_combination (Ch * Bt * (n.factorial : ℚ)) * e
  exact key _ _

/-! ### non-vacuity: `n = 1, a0 = 1, b0 = 0`  -/

example : cf 2 1 0 1 = -6 := by decide
example : Qp 1 1 0 = u - 2 * v := by
  unfold Qp
  simp [Finset.sum_range_succ, cf]
  ring

end

end AurelVerif.HarmJacobi
