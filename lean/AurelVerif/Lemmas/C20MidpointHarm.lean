/-
Lemmas/C20MidpointHarm.lean — an explicit O(1/M²) bound, M = Ntheta + 1, of the
θ-MIDPOINT quadrature error of the discrete inner product of two closed-form
sums of `maths.sYlm` on the grid of `Psi4_lm` (the only error of the discrete
Gram matrix: Lemmas/C20Quad.lean, `gridGram_defect`).

With c = cos(θ/2), sn = sin(θ/2) and sin θ = 2·sn·c the integrand is

    g(θ) = Σ_{t,t'} coef·coef'·2·c^(a+a'+1)·sn^(b+b'+1)

* `mono A B θ = c^A·sn^B` has explicit derivatives `mono'`, `mono''` and
  `|mono'' A B θ| ≤ (A+B)²/4`  (`abs_mono''_le`; the constant of Bernstein's inequality
  for a trigonometric polynomial of degree (A+B)/2 bounded by 1).
* every pair of `harmTerms s l m`, `harmTerms s l' m` has A + B = 2(l+l') + 2, hence
  `|g''| ≤ Kθ s l m l' = 2·absGram·(l+l'+1)²`,  absGram = Σ_{t,t'} |coef|·|coef'|
  (`harmProd_C2B`).
* `thetaMid_error_bound`: |thetaMid − thetaInt| ≤ Kθ·π³/(24·(N+1)²)  (Lemmas/C20Midpoint.lean),
  `thetaDefect_bound`, `thetaDefect_tendsto_zero`.
-/
import Mathlib.Analysis.SpecificLimits.Normed
import AurelVerif.Lemmas.C20Quad
import AurelVerif.Lemmas.C20Midpoint

namespace AurelVerif.HarmLemmas
open AurelVerif.Harm AurelVerif.HarmGram
open scoped Real

/-! ### twice differentiable with bounded second derivative: closure properties -/

/-- `g' ` is the derivative of `g`, `g''` the derivative of `g'`, and `|g''| ≤ K` everywhere. -/
structure C2B (g g' g'' : ℝ → ℝ) (K : ℝ) : Prop where
  d1 : ∀ x, HasDerivAt g (g' x) x
  d2 : ∀ x, HasDerivAt g' (g'' x) x
  bd : ∀ x, |g'' x| ≤ K

theorem C2B.weaken {g g' g'' : ℝ → ℝ} {K K' : ℝ} (h : C2B g g' g'' K) (hK : K ≤ K') : C2B g g' g'' K' :=
  ⟨h.d1, h.d2, fun x => le_trans (h.bd x) hK⟩

theorem C2B.const_mul {g g' g'' : ℝ → ℝ} {K : ℝ} (h : C2B g g' g'' K) (k : ℝ) :
    C2B (fun x => k * g x) (fun x => k * g' x) (fun x => k * g'' x) (|k| * K) :=
  ⟨fun x => (h.d1 x).const_mul k, fun x => (h.d2 x).const_mul k,
    fun x => by rw [abs_mul]; exact mul_le_mul_of_nonneg_left (h.bd x) (abs_nonneg k)⟩

theorem C2B.list_sum {α : Type} (L : List α) (f f' f'' : α → ℝ → ℝ) (k : α → ℝ)
    (h : ∀ x ∈ L, C2B (f x) (f' x) (f'' x) (k x)) :
    C2B (fun θ => (L.map fun x => f x θ).sum) (fun θ => (L.map fun x => f' x θ).sum)
      (fun θ => (L.map fun x => f'' x θ).sum) (L.map k).sum := by
  induction L with
  | nil =>
    refine ⟨fun x => ?_, fun x => ?_, fun x => ?_⟩
    · simpa using hasDerivAt_const x (0 : ℝ)
    · simpa using hasDerivAt_const x (0 : ℝ)
    · simp
  | cons a L ih =>
    have ha := h a List.mem_cons_self
    have hL := ih fun y hy => h y (List.mem_cons_of_mem _ hy)
    simp only [List.map_cons, List.sum_cons]
    refine ⟨fun x => (ha.d1 x).add (hL.d1 x), fun x => (ha.d2 x).add (hL.d2 x), fun x => ?_⟩
    exact le_trans (abs_add_le _ _) (add_le_add (ha.bd x) (hL.bd x))

/-! ### the monomials `cos(θ/2)^A · sin(θ/2)^B` -/

noncomputable def mono (A B : ℕ) (θ : ℝ) : ℝ := Real.cos (θ / 2) ^ A * Real.sin (θ / 2) ^ B

/-- first derivative (truncated subtraction in the exponents: the coefficient vanishes there) -/
noncomputable def mono' (A B : ℕ) (θ : ℝ) : ℝ :=
  -((A : ℝ) / 2) * mono (A - 1) (B + 1) θ + ((B : ℝ) / 2) * mono (A + 1) (B - 1) θ

/-- second derivative -/
noncomputable def mono'' (A B : ℕ) (θ : ℝ) : ℝ :=
  -((A : ℝ) / 2) * mono' (A - 1) (B + 1) θ + ((B : ℝ) / 2) * mono' (A + 1) (B - 1) θ

theorem abs_mono_le_one (A B : ℕ) (θ : ℝ) : |mono A B θ| ≤ 1 := by
  unfold mono
  rw [abs_mul, abs_pow, abs_pow]
  exact mul_le_one₀ (pow_le_one₀ (abs_nonneg _) (Real.abs_cos_le_one _)) (pow_nonneg (abs_nonneg _) _)
    (pow_le_one₀ (abs_nonneg _) (Real.abs_sin_le_one _))

theorem hasDerivAt_mono (A B : ℕ) (θ : ℝ) : HasDerivAt (mono A B) (mono' A B θ) θ := by
  have h := ((hasDerivAt_cos_half θ).fun_pow A).fun_mul ((hasDerivAt_sin_half θ).fun_pow B)
  show HasDerivAt (fun t : ℝ => Real.cos (t / 2) ^ A * Real.sin (t / 2) ^ B) _ θ
  refine h.congr_deriv ?_
  unfold mono' mono
  ring

theorem hasDerivAt_mono' (A B : ℕ) (θ : ℝ) : HasDerivAt (mono' A B) (mono'' A B θ) θ := by
  have h := ((hasDerivAt_mono (A - 1) (B + 1) θ).const_mul (-((A : ℝ) / 2))).add
    ((hasDerivAt_mono (A + 1) (B - 1) θ).const_mul ((B : ℝ) / 2))
  exact h

theorem abs_lin2 (p q x y bx byy : ℝ) (hp : 0 ≤ p) (hq : 0 ≤ q) (hx : |x| ≤ bx) (hy : |y| ≤ byy) :
    |-p * x + q * y| ≤ p * bx + q * byy := by
  refine le_trans (abs_add_le _ _) ?_
  rw [abs_mul, abs_mul, abs_neg, abs_of_nonneg hp, abs_of_nonneg hq]
  exact add_le_add (mul_le_mul_of_nonneg_left hx hp) (mul_le_mul_of_nonneg_left hy hq)

theorem abs_mono'_le (A B : ℕ) (θ : ℝ) : |mono' A B θ| ≤ (A : ℝ) / 2 + (B : ℝ) / 2 := by
  unfold mono'
  have h := abs_lin2 ((A : ℝ) / 2) ((B : ℝ) / 2) _ _ 1 1 (by positivity) (by positivity)
    (abs_mono_le_one (A - 1) (B + 1) θ) (abs_mono_le_one (A + 1) (B - 1) θ)
  simpa using h

theorem cast_mul_pred (A : ℕ) : (A : ℝ) * ((A - 1 : ℕ) : ℝ) = (A : ℝ) * ((A : ℝ) - 1) := by
  cases A with
  | zero => simp
  | succ n => simp

/-- `|d²/dθ² (cos(θ/2)^A sin(θ/2)^B)| ≤ (A+B)²/4`. -/
theorem abs_mono''_le (A B : ℕ) (θ : ℝ) : |mono'' A B θ| ≤ ((A : ℝ) + (B : ℝ)) ^ 2 / 4 := by
  unfold mono''
  have h := abs_lin2 ((A : ℝ) / 2) ((B : ℝ) / 2) _ _ _ _ (by positivity) (by positivity)
    (abs_mono'_le (A - 1) (B + 1) θ) (abs_mono'_le (A + 1) (B - 1) θ)
  refine le_trans h (le_of_eq ?_)
  have e1 := cast_mul_pred A
  have e2 := cast_mul_pred B
  push_cast
  linear_combination (1 / 4 : ℝ) * e1 + (1 / 4 : ℝ) * e2

theorem mono_C2B (A B : ℕ) : C2B (mono A B) (mono' A B) (mono'' A B) (((A : ℝ) + (B : ℝ)) ^ 2 / 4) :=
  ⟨hasDerivAt_mono A B, hasDerivAt_mono' A B, abs_mono''_le A B⟩

/-! ### the product of two term lists times `sin θ` -/

/-- one pair of summands times `sin θ = 2 sin(θ/2) cos(θ/2)` -/
noncomputable def pairFn (t t' : Term) (θ : ℝ) : ℝ :=
  ((t.coef : ℝ) * (t'.coef : ℝ) * 2) * mono (t.a.toNat + t'.a.toNat + 1) (t.b.toNat + t'.b.toNat + 1) θ
noncomputable def pairFn' (t t' : Term) (θ : ℝ) : ℝ :=
  ((t.coef : ℝ) * (t'.coef : ℝ) * 2) * mono' (t.a.toNat + t'.a.toNat + 1) (t.b.toNat + t'.b.toNat + 1) θ
noncomputable def pairFn'' (t t' : Term) (θ : ℝ) : ℝ :=
  ((t.coef : ℝ) * (t'.coef : ℝ) * 2) * mono'' (t.a.toNat + t'.a.toNat + 1) (t.b.toNat + t'.b.toNat + 1) θ

theorem pairFn_eq (t t' : Term) (θ : ℝ) : termFn t θ * termFn t' θ * Real.sin θ = pairFn t t' θ := by
  unfold termFn pairFn mono
  rw [sin_eq_half θ, pow_succ, pow_succ, pow_add, pow_add]
  ring

/-- the integrand of `thetaInt` / summand of `thetaMid` for two term lists -/
noncomputable def prodFn (ts ts' : List Term) (θ : ℝ) : ℝ :=
  evalK ts (Real.cos (θ / 2)) (Real.sin (θ / 2)) * evalK ts' (Real.cos (θ / 2)) (Real.sin (θ / 2)) * Real.sin θ
noncomputable def prodFn' (ts ts' : List Term) (θ : ℝ) : ℝ :=
  (ts.map fun t => (ts'.map fun t' => pairFn' t t' θ).sum).sum
noncomputable def prodFn'' (ts ts' : List Term) (θ : ℝ) : ℝ :=
  (ts.map fun t => (ts'.map fun t' => pairFn'' t t' θ).sum).sum

theorem prodFn_eq (ts ts' : List Term) (θ : ℝ) :
    prodFn ts ts' θ = (ts.map fun t => (ts'.map fun t' => pairFn t t' θ).sum).sum := by
  unfold prodFn
  rw [evalK_eq_termFn, evalK_eq_termFn, ← List.sum_map_mul_right, ← List.sum_map_mul_right]
  congr 1
  apply List.map_congr_left
  intro t _
  rw [← List.sum_map_mul_left, ← List.sum_map_mul_right]
  congr 1
  apply List.map_congr_left
  intro t' _
  exact pairFn_eq t t' θ

/-- `Σ_{t,t'} |coef|·|coef'|` (computable) -/
def absGram (ts ts' : List Term) : ℕ :=
  (ts.map fun t => (ts'.map fun t' => t.coef.natAbs * t'.coef.natAbs).sum).sum

theorem sum_map_natscaled {α : Type} (L : List α) (h : α → ℕ) (C : ℝ) :
    (L.map fun x => ((h x : ℕ) : ℝ) * C).sum = (((L.map h).sum : ℕ) : ℝ) * C := by
  induction L with
  | nil => simp
  | cons x L ih =>
    simp only [List.map_cons, List.sum_cons, ih]
    push_cast
    ring

/-- one pair, total degree `2n` of the two terms (`PairsEven n`): `|pairFn''| ≤ |coef||coef'|·2(n+1)²`. -/
theorem pairFn_C2B (t t' : Term) (n : ℕ)
    (h : 0 ≤ t.a ∧ 0 ≤ t.b ∧ 0 ≤ t'.a ∧ 0 ≤ t'.b
      ∧ (t.a + t'.a) % 2 = 0 ∧ (t.b + t'.b) % 2 = 0 ∧ (t.a + t'.a) / 2 + (t.b + t'.b) / 2 = (n : Int)) :
    C2B (pairFn t t') (pairFn' t t') (pairFn'' t t')
      (((t.coef.natAbs * t'.coef.natAbs : ℕ) : ℝ) * (2 * ((n : ℝ) + 1) ^ 2)) := by
  have hdeg : t.a.toNat + t'.a.toNat + 1 + (t.b.toNat + t'.b.toNat + 1) = 2 * n + 2 := by omega
  have hdegR : (((t.a.toNat + t'.a.toNat + 1 : ℕ) : ℝ) + ((t.b.toNat + t'.b.toNat + 1 : ℕ) : ℝ)) = 2 * (n : ℝ) + 2 := by
    have : ((t.a.toNat + t'.a.toNat + 1 + (t.b.toNat + t'.b.toNat + 1) : ℕ) : ℝ) = ((2 * n + 2 : ℕ) : ℝ) := by
      rw [hdeg]
    push_cast at this ⊢
    linarith
  have h0 := (mono_C2B (t.a.toNat + t'.a.toNat + 1) (t.b.toNat + t'.b.toNat + 1)).const_mul
    ((t.coef : ℝ) * (t'.coef : ℝ) * 2)
  refine C2B.weaken (K := |(t.coef : ℝ) * (t'.coef : ℝ) * 2|
      * ((((t.a.toNat + t'.a.toNat + 1 : ℕ) : ℝ) + ((t.b.toNat + t'.b.toNat + 1 : ℕ) : ℝ)) ^ 2 / 4)) h0 ?_
  rw [hdegR, abs_mul, abs_mul, abs_of_pos (two_pos : (0 : ℝ) < 2)]
  have ec : ∀ c : ℤ, |((c : ℤ) : ℝ)| = ((c.natAbs : ℕ) : ℝ) := by
    intro c; rw [Nat.cast_natAbs, Int.cast_abs]
  rw [ec, ec]
  apply le_of_eq
  push_cast
  ring

/-- two term lists all of whose pairs have total degree `2n`: the product times `sin θ`
is twice differentiable with `|g''| ≤ 2·absGram·(n+1)²`. -/
theorem prodFn_C2B (ts ts' : List Term) (n : ℕ) (h : PairsEven n ts ts') :
    C2B (prodFn ts ts') (prodFn' ts ts') (prodFn'' ts ts')
      (((2 * absGram ts ts' * (n + 1) ^ 2 : ℕ) : ℝ)) := by
  have inner : ∀ t ∈ ts, C2B (fun θ => (ts'.map fun t' => pairFn t t' θ).sum)
      (fun θ => (ts'.map fun t' => pairFn' t t' θ).sum) (fun θ => (ts'.map fun t' => pairFn'' t t' θ).sum)
      ((((ts'.map fun t' => t.coef.natAbs * t'.coef.natAbs).sum : ℕ) : ℝ) * (2 * ((n : ℝ) + 1) ^ 2)) := by
    intro t ht
    have := C2B.list_sum ts' (pairFn t) (pairFn' t) (pairFn'' t)
      (fun t' => ((t.coef.natAbs * t'.coef.natAbs : ℕ) : ℝ) * (2 * ((n : ℝ) + 1) ^ 2))
      (fun t' ht' => pairFn_C2B t t' n (h t ht t' ht'))
    rwa [sum_map_natscaled ts' (fun t' => t.coef.natAbs * t'.coef.natAbs)] at this
  have outer := C2B.list_sum ts (fun t θ => (ts'.map fun t' => pairFn t t' θ).sum)
    (fun t θ => (ts'.map fun t' => pairFn' t t' θ).sum) (fun t θ => (ts'.map fun t' => pairFn'' t t' θ).sum)
    (fun t => (((ts'.map fun t' => t.coef.natAbs * t'.coef.natAbs).sum : ℕ) : ℝ) * (2 * ((n : ℝ) + 1) ^ 2))
    inner
  rw [sum_map_natscaled ts (fun t => (ts'.map fun t' => t.coef.natAbs * t'.coef.natAbs).sum)] at outer
  have e : (prodFn ts ts') = fun θ => (ts.map fun t => (ts'.map fun t' => pairFn t t' θ).sum).sum :=
    funext (prodFn_eq ts ts')
  rw [e]
  refine C2B.weaken outer (le_of_eq ?_)
  unfold absGram
  push_cast
  ring

/-! ### the harmonics -/

/-- the bound of the second θ-derivative of the integrand of the pair `(s,l,m)`, `(s,l',m)`:
`2 · Σ_{r,r'} |coef_r|·|coef_r'| · (l + l' + 1)²` (computable). -/
def Kθ (s l m l' : Int) : ℕ :=
  2 * absGram (harmTerms s l m) (harmTerms s l' m) * ((l + l').toNat + 1) ^ 2

/-- the integrand `(Σ_r …)_{s l m}(θ) · (Σ_r …)_{s l' m}(θ) · sin θ` -/
noncomputable def harmProd (s l m l' : Int) : ℝ → ℝ := prodFn (harmTerms s l m) (harmTerms s l' m)

/-- for ALL integers `s, l, m, l'`: the integrand is twice differentiable on ℝ, with the
explicit derivatives `prodFn'`, `prodFn''`, and `|g''| ≤ Kθ s l m l'` everywhere. -/
theorem harmProd_C2B (s l m l' : Int) :
    C2B (harmProd s l m l') (prodFn' (harmTerms s l m) (harmTerms s l' m))
      (prodFn'' (harmTerms s l m) (harmTerms s l' m)) ((Kθ s l m l' : ℕ) : ℝ) :=
  prodFn_C2B _ _ _ (harmTerms_pairs s l m l')

theorem thetaInt_eq_harmProd (s l m l' : Int) : thetaInt s l m l' = ∫ θ in (0 : ℝ)..π, harmProd s l m l' θ := rfl

theorem thetaMid_eq_harmProd (s : Int) (N : Nat) (l m l' : Int) :
    thetaMid s N l m l'
      = ∑ j ∈ Finset.range (N + 1),
          harmProd s l m l' (0 + ((j : ℝ) + 1 / 2) * (π / ((N + 1 : ℕ) : ℝ))) * (π / ((N + 1 : ℕ) : ℝ)) := by
  unfold thetaMid harmProd prodFn
  apply Finset.sum_congr rfl
  intro j _
  have hdt : (((dTheta N : ℚ) : ℝ) * π) = π / ((N + 1 : ℕ) : ℝ) := by
    rw [dTheta_eq]; push_cast; ring
  have hpt : thetaPt N j = 0 + ((j : ℝ) + 1 / 2) * (π / ((N + 1 : ℕ) : ℝ)) := by
    rw [thetaPt_eq]; ring
  rw [hdt, hpt]
  ring

/-- **the θ-midpoint error is O(1/M²)**, `M = Ntheta + 1`, for ALL integers `s, l, m, l'`
and every resolution. -/
theorem thetaMid_error_bound (s : Int) (N : Nat) (l m l' : Int) :
    |thetaMid s N l m l' - thetaInt s l m l'|
      ≤ ((Kθ s l m l' : ℕ) : ℝ) * π ^ 3 / (24 * ((N + 1 : ℕ) : ℝ) ^ 2) := by
  have hC := harmProd_C2B s l m l'
  have hM : (0 : ℝ) < ((N + 1 : ℕ) : ℝ) := by positivity
  have hM' : ((N + 1 : ℕ) : ℝ) ≠ 0 := ne_of_gt hM
  have key := midpoint_rule_error (harmProd s l m l') _ _ ((Kθ s l m l' : ℕ) : ℝ) hC.d1 hC.d2 hC.bd
    0 (π / ((N + 1 : ℕ) : ℝ)) (div_pos Real.pi_pos hM) (N + 1)
  have eb : (0 : ℝ) + ((N + 1 : ℕ) : ℝ) * (π / ((N + 1 : ℕ) : ℝ)) = π := by field_simp; ring
  rw [eb] at key
  rw [thetaMid_eq_harmProd, thetaInt_eq_harmProd]
  refine le_trans key (le_of_eq ?_)
  field_simp

/-- the same with the normalisations of the two harmonics. -/
theorem thetaDefect_bound (s : Int) (N : Nat) (l m l' : Int) :
    |thetaDefect s N l m l'|
      ≤ Real.sqrt (((normRadicand s l m : ℚ) : ℝ) / π) * Real.sqrt (((normRadicand s l' m : ℚ) : ℝ) / π)
        * (2 * π) * (((Kθ s l m l' : ℕ) : ℝ) * π ^ 3 / (24 * ((N + 1 : ℕ) : ℝ) ^ 2)) := by
  unfold thetaDefect
  have h0 : 0 ≤ Real.sqrt (((normRadicand s l m : ℚ) : ℝ) / π) * Real.sqrt (((normRadicand s l' m : ℚ) : ℝ) / π)
      * (2 * π) :=
    mul_nonneg (mul_nonneg (Real.sqrt_nonneg _) (Real.sqrt_nonneg _)) (by positivity)
  rw [abs_mul, abs_of_nonneg h0]
  exact mul_le_mul_of_nonneg_left (thetaMid_error_bound s N l m l') h0

/-- the θ-midpoint defect of every pair tends to `0` as the resolution grows. -/
theorem thetaDefect_tendsto_zero (s l m l' : Int) :
    Filter.Tendsto (fun N : ℕ => thetaDefect s N l m l') Filter.atTop (nhds 0) := by
  set C : ℝ := Real.sqrt (((normRadicand s l m : ℚ) : ℝ) / π) * Real.sqrt (((normRadicand s l' m : ℚ) : ℝ) / π)
    * (2 * π) * (((Kθ s l m l' : ℕ) : ℝ) * π ^ 3 / 24) with hCdef
  have hlim : Filter.Tendsto (fun N : ℕ => C / ((N + 1 : ℕ) : ℝ) ^ 2) Filter.atTop (nhds 0) :=
    (tendsto_const_div_pow C 2 two_ne_zero).comp
      (tendsto_natCast_atTop_atTop.comp (Filter.tendsto_add_atTop_nat 1))
  refine squeeze_zero_norm (fun N => ?_) hlim
  rw [Real.norm_eq_abs]
  refine le_trans (thetaDefect_bound s N l m l') (le_of_eq ?_)
  have hM : ((N + 1 : ℕ) : ℝ) ≠ 0 := by positivity
  rw [hCdef]
  field_simp

/-- consequence for the discrete Gram matrix of `sYlm_coefficients` on the grid of `Psi4_lm`
(`|s| ≤ 2`, `l, l' ≤ 12`, `|m − m'| ≤ Nφ`; Lemmas/C20Quad.lean `gridGram_defect`): it differs from
the identity (on admissible modes) by at most the explicit O(1/(Nθ+1)²) bound. -/
theorem gridGram_near_identity (s : Int) (N : Nat) (l m l' m' : Int) (hs : |s| ≤ 2)
    (hlL : l ≤ (tableL : Int)) (hl'L : l' ≤ (tableL : Int)) (hd : |m' - m| ≤ ((nPhi N : Nat) : Int)) :
    ‖gridGram s N l m l' m' - (if l = l' ∧ m = m' ∧ |s| ≤ l ∧ |m| ≤ l then 1 else 0)‖
      ≤ Real.sqrt (((normRadicand s l m : ℚ) : ℝ) / π) * Real.sqrt (((normRadicand s l' m : ℚ) : ℝ) / π)
        * (2 * π) * (((Kθ s l m l' : ℕ) : ℝ) * π ^ 3 / (24 * ((N + 1 : ℕ) : ℝ) ^ 2)) := by
  rw [gridGram_defect s N l m l' m' hs hlL hl'L hd, add_sub_cancel_left]
  by_cases hmm : m = m'
  · rw [if_pos hmm, Complex.norm_real, Real.norm_eq_abs]
    exact thetaDefect_bound s N l m l'
  · rw [if_neg hmm, norm_zero]
    exact le_trans (abs_nonneg _) (thetaDefect_bound s N l m l')

/-! ### non-vacuity: the constants are concrete numbers -/

example : Kθ (-2) 2 2 2 = 50 := by decide +kernel
example : Kθ (-2) 2 2 3 = 432 := by decide +kernel
example : Kθ 0 0 0 0 = 2 := by decide +kernel

/-- e.g. `(s,l,m,l') = (−2,2,2,2)`: `|thetaMid − thetaInt| ≤ 50 π³/(24 (N+1)²)`. -/
example (N : Nat) :
    |thetaMid (-2) N 2 2 2 - thetaInt (-2) 2 2 2| ≤ 50 * π ^ 3 / (24 * ((N + 1 : ℕ) : ℝ) ^ 2) := by
  have h := thetaMid_error_bound (-2) N 2 2 2
  have e : Kθ (-2) 2 2 2 = 50 := by decide +kernel
  rw [e] at h
  exact_mod_cast h

end AurelVerif.HarmLemmas
