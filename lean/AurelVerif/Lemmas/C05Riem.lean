/-
Lemmas/C05Riem.lean — property C05, T12: algebraic symmetries of the spatial Riemann and Ricci
tensors AS BUILT BY THE CODE (`s_Riemann_uddd3`, `s_Riemann_down3`, both alternatives of
`s_Ricci_down3`).

Layer A (exact, every operator `e.D`):
  * first Bianchi identity of `s_Riemann_uddd3` (needs only a connection symmetric in its lower indices),
    and of `s_Riemann_down3`;
  * antisymmetry of `s_Riemann_down3` in its LAST pair.
Layer B (consistency; hypotheses `CurvRules e`, derived from `Deriv e.D` + commuting derivatives):
  * `s_Riemann_down3` equals the second-derivative form [LL] (92.1) of the Riemann tensor of γ
    (`Spec.Covd.riemannDown2`) — the formula the numerical oracle of tools/props/C05.py uses;
  * hence antisymmetry in the FIRST pair, pair exchange `R_abcd = R_cdab`;
  * symmetry of `s_Ricci_down3` (both alternatives).
`CurvRules` lists exactly the three instances used: the product rule on `γ_ia Γ^a_bd`, linearity on the
Christoffel symbol of the first kind, commutation of second derivatives of γ.  The finite-difference
operators satisfy the first only up to truncation error (the other two hold exactly for them: C07).
-/
import AurelVerif.Lemmas.C05Curv
import AurelVerif.Lemmas.C05Raise2
import AurelVerif.Spec.CovdB

set_option linter.unusedSimpArgs false
set_option linter.unusedVariables false
set_option linter.unusedSectionVars false

namespace AurelVerif.C05L
open AurelVerif.Gen.Core AurelVerif.Tensor AurelVerif.CoreTac AurelVerif.C08 AurelVerif.Spec.Covd

variable {K : Type} [Field K]

/-! ### Layer A -/

/-- **first Bianchi identity** `R^a_{bcd} + R^a_{cdb} + R^a_{dbc} = 0` for the code's formula: exact for
every operator `e.D`, for every cached connection that is symmetric in its lower indices. -/
theorem s_Riemann_uddd3_bianchi1 (e : Env K) (hG : SymLow e.s_Gamma_udd3) (a b c d : Fin 3) :
    s_Riemann_uddd3 e a b c d + s_Riemann_uddd3 e a c d b + s_Riemann_uddd3 e a d b c = 0 := by
  simp only [s_Riemann_uddd3_exact, Fin.sum_univ_three, hG a d c, hG a d b, hG a c b,
    hG 0 d c, hG 0 d b, hG 0 c b, hG 1 d c, hG 1 d b, hG 1 c b, hG 2 d c, hG 2 d b, hG 2 c b]
  ring

/-- antisymmetry of `s_Riemann_down3` in its last pair (exact), when the cached `s_Riemann_uddd3` is the
code's own. -/
theorem s_Riemann_down3_antisymm_last (e : Env K) (hR : e.s_Riemann_uddd3 = s_Riemann_uddd3 e)
    (a b c d : Fin 3) : s_Riemann_down3 e a b c d = -s_Riemann_down3 e a b d c := by
  simp only [s_Riemann_down3_spec, hR, Fin.sum_univ_three]
  rw [s_Riemann_uddd3_antisymm e 0 b c d, s_Riemann_uddd3_antisymm e 1 b c d, s_Riemann_uddd3_antisymm e 2 b c d]
  ring

/-- first Bianchi identity of `s_Riemann_down3` (exact). -/
theorem s_Riemann_down3_bianchi1 (e : Env K) (hG : SymLow e.s_Gamma_udd3)
    (hR : e.s_Riemann_uddd3 = s_Riemann_uddd3 e) (a b c d : Fin 3) :
    s_Riemann_down3 e a b c d + s_Riemann_down3 e a c d b + s_Riemann_down3 e a d b c = 0 := by
  have b0 := s_Riemann_uddd3_bianchi1 e hG 0 b c d
  have b1 := s_Riemann_uddd3_bianchi1 e hG 1 b c d
  have b2 := s_Riemann_uddd3_bianchi1 e hG 2 b c d
  simp only [s_Riemann_down3_spec, hR, Fin.sum_univ_three]
  linear_combination e.gammadown3 0 a * b0 + e.gammadown3 1 a * b1 + e.gammadown3 2 a * b2

/-! ### Layer B: hypotheses -/

/-- the three properties of the operator used for the symmetries of the Riemann tensor. -/
structure CurvRules (e : Env K) : Prop where
  /-- product rule on `γ_{ia} Γ^a_{bd}`. -/
  prodG : ∀ c i b d, e.D c (∑ a, e.gammadown3 i a * e.s_Gamma_udd3 a b d)
      = ∑ a, (e.D c (e.gammadown3 i a) * e.s_Gamma_udd3 a b d + e.gammadown3 i a * e.D c (e.s_Gamma_udd3 a b d))
  /-- linearity on `Γ_{ibd} = ½(∂_bγ_id + ∂_dγ_ib − ∂_iγ_bd)`. -/
  linC : ∀ c i b d, e.D c (christoffel1 e.D e.gammadown3 i b d)
      = (1 / 2) * (e.D c (e.D b (e.gammadown3 i d)) + e.D c (e.D d (e.gammadown3 i b))
          - e.D c (e.D i (e.gammadown3 b d)))
  /-- second derivatives of γ commute. -/
  comm : ∀ c k i j, e.D c (e.D k (e.gammadown3 i j)) = e.D k (e.D c (e.gammadown3 i j))

/-- partial derivatives commute. -/
def DComm (D : Fin 3 → K → K) : Prop := ∀ i j x, D i (D j x) = D j (D i x)

theorem Deriv.sub {D : Fin 3 → K → K} (hD : Deriv D) (i : Fin 3) (x y : K) : D i (x - y) = D i x - D i y := by
  have := hD.add i (x - y) y; rw [sub_add_cancel] at this; rw [this]; ring

theorem Deriv.half {D : Fin 3 → K → K} (hD : Deriv D) (h2 : (2 : K) ≠ 0) (i : Fin 3) : D i (1 / 2) = 0 := by
  have h1 : D i ((1 / 2) + (1 / 2)) = D i 1 := by congr 1; field_simp; norm_num
  rw [hD.add, hD.one] at h1
  have : (2 : K) * D i (1 / 2) = 0 := by linear_combination h1
  exact (mul_eq_zero.mp this).resolve_left h2

theorem Deriv.half_mul {D : Fin 3 → K → K} (hD : Deriv D) (h2 : (2 : K) ≠ 0) (i : Fin 3) (x : K) :
    D i ((1 / 2) * x) = (1 / 2) * D i x := by
  rw [hD.mul, hD.half h2]; ring

/-- `CurvRules` holds for every derivation with commuting partial derivatives. -/
theorem curvRules_of_deriv (e : Env K) (hD : Deriv e.D) (hc : DComm e.D) (h2 : (2 : K) ≠ 0) : CurvRules e := by
  refine ⟨fun c i b d => ?_, fun c i b d => ?_, fun c k i j => hc c k _⟩
  · simp only [Fin.sum_univ_three, hD.add, hD.mul]
  · simp only [christoffel1, hD.half_mul h2, hD.add, hD.sub]

/-! ### Layer B: index algebra (abstract) -/

section algebra
variable (D : Fin 3 → K → K) (γ : Fin 3 → Fin 3 → K) (Γ : Fin 3 → Fin 3 → Fin 3 → K)

/-- step A (no symmetry used): move the derivative from Γ^a_{bd} to Γ_{ibd}. -/
theorem riem_stepA
    (F1 : ∀ c i b d, D c (christoffel1 D γ i b d)
      = ∑ a, (D c (γ i a) * Γ a b d + γ i a * D c (Γ a b d)))
    (F3 : ∀ c i a, D c (γ i a) = christoffel1 D γ i c a + christoffel1 D γ a c i)
    (F4 : ∀ j k l, christoffel1 D γ j k l = ∑ m, γ j m * Γ m k l) (i b c d : Fin 3) :
    ∑ a, γ i a * (D c (Γ a b d) - D d (Γ a b c))
      = D c (christoffel1 D γ i b d) - D d (christoffel1 D γ i b c)
        - ∑ a, (∑ m, (γ i m * Γ m c a + γ a m * Γ m c i)) * Γ a b d
        + ∑ a, (∑ m, (γ i m * Γ m d a + γ a m * Γ m d i)) * Γ a b c := by
  have F1' : ∀ c i b d, D c (christoffel1 D γ i b d)
      = (D c (γ i 0) * Γ 0 b d + γ i 0 * D c (Γ 0 b d)) + (D c (γ i 1) * Γ 1 b d + γ i 1 * D c (Γ 1 b d))
        + (D c (γ i 2) * Γ 2 b d + γ i 2 * D c (Γ 2 b d)) := by
    intro c i b d; rw [F1]; exact Fin.sum_univ_three _
  have F4' : ∀ j k l, christoffel1 D γ j k l = γ j 0 * Γ 0 k l + γ j 1 * Γ 1 k l + γ j 2 * Γ 2 k l := by
    intro j k l; rw [F4]; exact Fin.sum_univ_three _
  simp only [Fin.sum_univ_three]
  linear_combination (-1 : K) * F1' c i b d + F1' d i b c
    - Γ 0 b d * (F3 c i 0 + F4' i c 0 + F4' 0 c i) - Γ 1 b d * (F3 c i 1 + F4' i c 1 + F4' 1 c i)
    - Γ 2 b d * (F3 c i 2 + F4' i c 2 + F4' 2 c i)
    + Γ 0 b c * (F3 d i 0 + F4' i d 0 + F4' 0 d i) + Γ 1 b c * (F3 d i 1 + F4' i d 1 + F4' 1 d i)
    + Γ 2 b c * (F3 d i 2 + F4' i d 2 + F4' 2 d i)

set_option maxHeartbeats 1000000 in
/-- step B (symmetry of γ and of Γ in its lower indices): the ΓΓ terms recombine. -/
theorem riem_stepB (hs : Sym γ) (hG : SymLow Γ) : ∀ (i b c d : Fin 3) (X : K),
    (∑ a, γ i a * (D c (Γ a b d) - D d (Γ a b c))
      = X - ∑ a, (∑ m, (γ i m * Γ m c a + γ a m * Γ m c i)) * Γ a b d
          + ∑ a, (∑ m, (γ i m * Γ m d a + γ a m * Γ m d i)) * Γ a b c) →
    ∑ a, γ a i * (D c (Γ a b d) - D d (Γ a b c) + ∑ p, Γ a p c * Γ p b d - ∑ p, Γ a p d * Γ p b c)
      = X + ∑ e, ∑ f, γ e f * (Γ e b c * Γ f i d - Γ e b d * Γ f i c) := by
  have h01 := hs 1 0; have h02 := hs 2 0; have h12 := hs 2 1
  have g1 := fun a => hG a 1 0; have g2 := fun a => hG a 2 0; have g3 := fun a => hG a 2 1
  cases3 <;> cases3 <;> cases3 <;> cases3 <;>
    (intro X E
     simp only [Fin.sum_univ_three, h01, h02, h12, g1, g2, g3] at E ⊢
     linear_combination E)

end algebra

/-! ### Layer B: the code's Riemann tensor -/

/-- `Γ_{jkl} = γ_{jm} Γ^m_{kl}` for the code's connection. -/
theorem lower_Gamma' (e : Env K) (h : MetricOK e) (j k l : Fin 3) :
    christoffel1 e.D e.gammadown3 j k l = ∑ m, e.gammadown3 j m * e.s_Gamma_udd3 m k l := by
  rw [← lower_Gamma e h j k l]
  exact Finset.sum_congr rfl (fun m _ => by rw [h.hs j m]; ring)

/-- `∂_c γ_{ia} = Γ_{ica} + Γ_{aci}` (pure algebra, γ symmetric, 2 ≠ 0). -/
theorem dgamma_christoffel (D : Fin 3 → K → K) (γ : Fin 3 → Fin 3 → K) (hs : Sym γ) (h2 : (2 : K) ≠ 0)
    (c i a : Fin 3) : D c (γ i a) = christoffel1 D γ i c a + christoffel1 D γ a c i := by
  simp only [christoffel1, hs a i, hs c i, hs c a]
  field_simp
  ring

/-- **the code's `s_Riemann_down3` is the second-derivative form [LL] (92.1) of the Riemann tensor**
of γ (Layer B). -/
theorem s_Riemann_down3_second (e : Env K) (h : MetricOK e) (h2 : (2 : K) ≠ 0)
    (hR : e.s_Riemann_uddd3 = s_Riemann_uddd3 e) (hc : CurvRules e) (i b c d : Fin 3) :
    s_Riemann_down3 e i b c d = riemannDown2 e.D e.gammadown3 e.s_Gamma_udd3 i b c d := by
  have F4 := lower_Gamma' e h
  have F3 := dgamma_christoffel e.D e.gammadown3 h.hs h2
  have F1 : ∀ c i b d, e.D c (christoffel1 e.D e.gammadown3 i b d)
      = ∑ a, (e.D c (e.gammadown3 i a) * e.s_Gamma_udd3 a b d
          + e.gammadown3 i a * e.D c (e.s_Gamma_udd3 a b d)) := by
    intro c i b d; rw [F4 i b d]; exact hc.prodG c i b d
  have A := riem_stepA e.D e.gammadown3 e.s_Gamma_udd3 F1 F3 F4 i b c d
  have B := riem_stepB e.D e.gammadown3 e.s_Gamma_udd3 h.hs (h.symG e) i b c d
    (e.D c (christoffel1 e.D e.gammadown3 i b d) - e.D d (christoffel1 e.D e.gammadown3 i b c)) A
  rw [s_Riemann_down3_spec, hR]
  simp only [s_Riemann_uddd3_exact]
  rw [B, hc.linC c i b d, hc.linC d i b c]
  simp only [riemannDown2]
  linear_combination (1 / 2 : K) * (hc.comm c b i d) + (1 / 2 : K) * (hc.comm c d i b)
    - (1 / 2 : K) * (hc.comm c i b d) - (1 / 2 : K) * (hc.comm d b i c) + (1 / 2 : K) * (hc.comm d i b c)

/-! ### symmetries of the second-derivative form -/

section sym2
variable (D : Fin 3 → K → K) (g : Fin 3 → Fin 3 → K) (Γ : Fin 3 → Fin 3 → Fin 3 → K)

theorem riemannDown2_antisymm_first (hs : Sym g) (a b c d : Fin 3) :
    riemannDown2 D g Γ a b c d = -riemannDown2 D g Γ b a c d := by
  have h01 := hs 1 0; have h02 := hs 2 0; have h12 := hs 2 1
  simp only [riemannDown2, Fin.sum_univ_three, h01, h02, h12]
  ring

theorem riemannDown2_antisymm_last (a b c d : Fin 3) :
    riemannDown2 D g Γ a b c d = -riemannDown2 D g Γ a b d c := by
  simp only [riemannDown2, Fin.sum_univ_three]
  ring

theorem riemannDown2_pair_exchange (hs : Sym g) (hG : SymLow Γ)
    (hcomm : ∀ c k i j, D c (D k (g i j)) = D k (D c (g i j))) (a b c d : Fin 3) :
    riemannDown2 D g Γ a b c d = riemannDown2 D g Γ c d a b := by
  have h01 := hs 1 0; have h02 := hs 2 0; have h12 := hs 2 1
  have e1 := fun x => hG x d a; have e2 := fun x => hG x c b
  have e3 := fun x => hG x d b; have e4 := fun x => hG x c a
  simp only [riemannDown2]
  rw [hs c b, hs d a, hs d b, hs c a]
  simp only [Fin.sum_univ_three, h01, h02, h12, e1, e2, e3, e4]
  linear_combination (1 / 2 : K) * hcomm b c a d + (1 / 2 : K) * hcomm a d b c
    - (1 / 2 : K) * hcomm a c b d - (1 / 2 : K) * hcomm b d a c

end sym2

/-- **antisymmetry in the first pair** `R_abcd = −R_bacd` of the code's `s_Riemann_down3` (Layer B). -/
theorem s_Riemann_down3_antisymm_first (e : Env K) (h : MetricOK e) (h2 : (2 : K) ≠ 0)
    (hR : e.s_Riemann_uddd3 = s_Riemann_uddd3 e) (hc : CurvRules e) (a b c d : Fin 3) :
    s_Riemann_down3 e a b c d = -s_Riemann_down3 e b a c d := by
  rw [s_Riemann_down3_second e h h2 hR hc, s_Riemann_down3_second e h h2 hR hc]
  exact riemannDown2_antisymm_first e.D e.gammadown3 e.s_Gamma_udd3 h.hs a b c d

/-- **pair exchange** `R_abcd = R_cdab` of the code's `s_Riemann_down3` (Layer B). -/
theorem s_Riemann_down3_pair_exchange (e : Env K) (h : MetricOK e) (h2 : (2 : K) ≠ 0)
    (hR : e.s_Riemann_uddd3 = s_Riemann_uddd3 e) (hc : CurvRules e) (a b c d : Fin 3) :
    s_Riemann_down3 e a b c d = s_Riemann_down3 e c d a b := by
  rw [s_Riemann_down3_second e h h2 hR hc, s_Riemann_down3_second e h h2 hR hc]
  exact riemannDown2_pair_exchange e.D e.gammadown3 e.s_Gamma_udd3 h.hs (h.symG e) hc.comm a b c d

/-! ### Ricci -/

/-- `γ^{ac} R_{abcd}` is symmetric in `b, d` for any `R` with the pair-exchange symmetry. -/
theorem ricci_symm_of_exchange (gu : Fin 3 → Fin 3 → K) (hsu : Sym gu) (R : Fin 3 → Fin 3 → Fin 3 → Fin 3 → K)
    (hx : ∀ a b c d, R a b c d = R c d a b) (b d : Fin 3) :
    ∑ a, ∑ c, R a b c d * gu a c = ∑ a, ∑ c, R a d c b * gu a c := by
  rw [Finset.sum_comm]
  exact Finset.sum_congr rfl (fun c _ => Finset.sum_congr rfl (fun a _ => by rw [hx a b c d, hsu a c]))

/-- **symmetry of `s_Ricci_down3`**, alternative used when `s_Riemann_down3` is cached (Layer B). -/
theorem s_Ricci_down3_alt_symm (e : Env K) (h : MetricOK e) (h2 : (2 : K) ≠ 0)
    (hR : e.s_Riemann_uddd3 = s_Riemann_uddd3 e) (hRd : e.s_Riemann_down3 = s_Riemann_down3 e)
    (hc : CurvRules e) (b d : Fin 3) :
    s_Ricci_down3__s_Riemann_down3 e b d = s_Ricci_down3__s_Riemann_down3 e d b := by
  rw [s_Ricci_down3_alt_raw, s_Ricci_down3_alt_raw, hRd]
  exact ricci_symm_of_exchange e.gammaup3 h.hsu (s_Riemann_down3 e)
    (s_Riemann_down3_pair_exchange e h h2 hR hc) b d

/-- the form of γ⁻¹γ = 1 used by `contract_delta`. -/
theorem MetricOK.hinv' (e : Env K) (h : MetricOK e) (a c : Fin 3) :
    ∑ i, e.gammaup3 i c * e.gammadown3 a i = delta a c := by
  rw [show (delta a c : K) = delta c a by unfold delta; simp only [eq_comm], ← h.hr' e c a]
  exact Finset.sum_congr rfl (fun m _ => by ring)

/-- the default alternative of `s_Ricci_down3` is `γ^{ic} R_{ibcd}` with the code's `s_Riemann_down3`
(uses γ⁻¹γ = 1 only). -/
theorem s_Ricci_down3_dflt_via_down (e : Env K) (h : MetricOK e) (hR : e.s_Riemann_uddd3 = s_Riemann_uddd3 e)
    (b d : Fin 3) :
    s_Ricci_down3__dflt e b d = ∑ i, ∑ c, s_Riemann_down3 e i b c d * e.gammaup3 i c := by
  rw [s_Ricci_down3_dflt_spec]
  simp only [ricci, s_Riemann_down3_spec, hR]
  exact (contract_delta e.gammaup3 e.gammadown3 (h.hinv' e) (fun a c => s_Riemann_uddd3 e a b c d)).symm

/-- **symmetry of `s_Ricci_down3`**, default alternative (Layer B). -/
theorem s_Ricci_down3_dflt_symm (e : Env K) (h : MetricOK e) (h2 : (2 : K) ≠ 0)
    (hR : e.s_Riemann_uddd3 = s_Riemann_uddd3 e) (hc : CurvRules e) (b d : Fin 3) :
    s_Ricci_down3__dflt e b d = s_Ricci_down3__dflt e d b := by
  rw [s_Ricci_down3_dflt_via_down e h hR, s_Ricci_down3_dflt_via_down e h hR]
  exact ricci_symm_of_exchange e.gammaup3 h.hsu (s_Riemann_down3 e)
    (s_Riemann_down3_pair_exchange e h h2 hR hc) b d

end AurelVerif.C05L
