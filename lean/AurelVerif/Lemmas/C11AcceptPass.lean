/-
Lemmas/C11AcceptPass.lean — C11, second half of the analysis of an accepted
chunk dictionary:

E. sorting a group by key; a pass of `join_chunks` that did not raise.
F. per-group facts for the three axes; re-indexing lemmas for `cutsP`.
(the assembly is in Lemmas/C11AcceptMain.lean)
-/
import AurelVerif.Lemmas.C11Accept
namespace AurelVerif.AcceptLemmas
open AurelVerif.Chunks AurelVerif.ChunksLemmas AurelVerif.ChunkLayout
set_option linter.unusedSimpArgs false
set_option linter.unusedVariables false

/-! ### E. sorting a group by its keys -/

def insertKV {β : Type} (kv : Nat × β) : Dict Nat β → Dict Nat β
  | [] => [kv]
  | y :: ys => if kv.1 ≤ y.1 then kv :: y :: ys else y :: insertKV kv ys

/-- the group in the order of `np.sort(list(group.keys()))` -/
def sortDict {β : Type} : Dict Nat β → Dict Nat β
  | [] => []
  | x :: xs => insertKV x (sortDict xs)

theorem insertKV_perm {β : Type} (kv : Nat × β) (l : Dict Nat β) : (insertKV kv l).Perm (kv :: l) := by
  induction l with
  | nil => simp [insertKV]
  | cons y ys ih =>
    simp only [insertKV]
    split
    · exact List.Perm.refl _
    · exact (List.Perm.cons y ih).trans (List.Perm.swap kv y ys)

theorem sortDict_perm {β : Type} (l : Dict Nat β) : (sortDict l).Perm l := by
  induction l with
  | nil => simp [sortDict]
  | cons x xs ih => exact (insertKV_perm x _).trans (List.Perm.cons x ih)

theorem insertKV_sorted {β : Type} (kv : Nat × β) (l : Dict Nat β) (h : (l.map Prod.fst).Pairwise (· ≤ ·)) :
    ((insertKV kv l).map Prod.fst).Pairwise (· ≤ ·) := by
  induction l with
  | nil => simp [insertKV]
  | cons y ys ih =>
    simp only [insertKV]
    simp only [List.map_cons] at h
    have hy := List.pairwise_cons.mp h
    split
    · rename_i hxy
      simp only [List.map_cons]
      refine List.pairwise_cons.mpr ⟨?_, h⟩
      intro a ha
      rcases List.mem_cons.mp ha with rfl | ha
      · exact hxy
      · exact Nat.le_trans hxy (hy.1 a ha)
    · rename_i hxy
      simp only [List.map_cons]
      refine List.pairwise_cons.mpr ⟨?_, ih hy.2⟩
      intro a ha
      have := ((insertKV_perm kv ys).map Prod.fst).mem_iff.mp ha
      simp only [List.map_cons] at this
      rcases List.mem_cons.mp this with rfl | ha
      · omega
      · exact hy.1 a ha

theorem sortDict_sorted {β : Type} (l : Dict Nat β) : ((sortDict l).map Prod.fst).Pairwise (· ≤ ·) := by
  induction l with
  | nil => simp [sortDict]
  | cons x xs ih => exact insertKV_sorted x _ ih

theorem sortDict_strict {β : Type} (l : Dict Nat β) (hn : (l.map Prod.fst).Nodup) :
    ((sortDict l).map Prod.fst).Pairwise (· < ·) := by
  have h1 := sortDict_sorted l
  have h2 : ((sortDict l).map Prod.fst).Nodup := (((sortDict_perm l).map Prod.fst).nodup_iff).mpr hn
  exact (h1.and h2).imp (fun h => Nat.lt_of_le_of_ne h.1 h.2)

theorem mem_sortDict {β : Type} (l : Dict Nat β) (x : Nat × β) : x ∈ sortDict l ↔ x ∈ l :=
  (sortDict_perm l).mem_iff

/-- a group with distinct keys that was joined without an error: the pieces
were appended in key order -/
theorem joinSorted_inv {β : Type} (cat : β → β → Option β) (g : Dict Nat β) (w : β)
    (hn : (g.map Prod.fst).Nodup) (h : joinSorted cat g = some w) :
    foldCat cat ((sortDict g).map Prod.snd) = some w := by
  rw [← joinSorted_perm cat (sortDict_perm g).symm (sortDict_strict g hn)]
  exact h

/-! ### a pass that did not raise -/

theorem mapOpt_inv {γ δ : Type} (f : γ → Option δ) (h : γ → δ) :
    ∀ (l : List γ) (ys : List δ), (∀ x ∈ l, ∀ y, f x = some y → y = h x) → mapOpt f l = some ys →
      ys = l.map h ∧ ∀ x ∈ l, f x = some (h x)
  | [], ys, _, hm => by simp [mapOpt] at hm; subst hm; simp
  | x :: xs, ys, hh, hm => by
    simp only [mapOpt] at hm
    cases hx : f x with
    | none => simp [hx] at hm
    | some y =>
      simp only [hx] at hm
      cases hr : mapOpt f xs with
      | none => simp [hr] at hm
      | some ys' =>
        simp only [hr, Option.some.injEq] at hm
        obtain ⟨e, hall⟩ := mapOpt_inv f h xs ys' (fun x' hx' => hh x' (List.mem_cons_of_mem _ hx')) hr
        have hy : y = h x := hh x (List.mem_cons_self ..) y hx
        subst hm
        refine ⟨by simp [e, hy], ?_⟩
        intro x' hx'
        rcases List.mem_cons.mp hx' with rfl | hx'
        · rw [hx, hy]
        · exact hall x' hx'

/-- `pass cat items = some R`: every group was joined, `R` lists the joined
groups in the order in which the groups were created -/
theorem pass_inv {κ β : Type} [DecidableEq κ] [Inhabited β] (cat : β → β → Option β) (items : Dict (Nat × κ) β)
    (R : Dict κ β) (h : pass cat items = some R) :
    ∃ W : κ × Dict Nat β → β, (∀ kg ∈ groupAll items, joinSorted cat kg.2 = some (W kg))
      ∧ R = (groupAll items).map fun kg => (kg.1, W kg) := by
  refine ⟨fun kg => (joinSorted cat kg.2).getD default, ?_⟩
  unfold pass at h
  obtain ⟨e, hall⟩ := mapOpt_inv _ (fun kg : κ × Dict Nat β => (kg.1, (joinSorted cat kg.2).getD default))
    (groupAll items) R (by
      intro x _ y hy
      cases hj : joinSorted cat x.2 with
      | none => simp [hj] at hy
      | some w => simp [hj] at hy; simp [← hy]) h
  refine ⟨?_, e⟩
  intro kg hkg
  have := hall kg hkg
  cases hj : joinSorted cat kg.2 with
  | none => simp [hj] at this
  | some w => simp [hj]

theorem get?_mem {κ β : Type} [DecidableEq κ] {d : Dict κ β} {k : κ} {v : β} (h : d.get? k = some v) :
    (k, v) ∈ d := by
  induction d with
  | nil => simp [Dict.get?] at h
  | cons kv rest ih =>
    obtain ⟨k', v'⟩ := kv
    simp only [Dict.get?] at h
    split at h
    · rename_i e; cases h; subst e; exact List.mem_cons_self ..
    · exact List.mem_cons_of_mem _ (ih h)

/-- the keys inside every group are distinct when the full keys are -/
theorem flat_inner_nodup {κ β : Type} (G : Dict κ (Dict Nat β)) (h : ((flat G).map Prod.fst).Nodup) :
    ∀ kg ∈ G, (kg.2.map Prod.fst).Nodup := by
  intro kg hkg
  have h1 : (flat G).map Prod.fst = G.flatMap fun kg => kg.2.map fun ov => (ov.1, kg.1) := by
    simp [flat, List.map_flatMap, Function.comp_def]
  rw [h1, List.nodup_flatMap] at h
  have h2 := h.1 kg hkg
  have h3 : (kg.2.map fun ov => (ov.1, kg.1)) = (kg.2.map Prod.fst).map (fun o => (o, kg.1)) := by simp
  rw [h3] at h2
  exact List.Nodup.of_map _ h2

/-! ### F. per-group facts -/

theorem group_facts2 {α : Type} (g : Dict Nat (Arr3 α)) (w : Arr3 α) (hn : (g.map Prod.fst).Nodup)
    (hok : ∀ ov ∈ g, RectPos ov.2) (h : joinSorted cat2 g = some w) :
    ∃ sz sy, 0 < sz ∧ 0 < sy ∧ 0 < ((sortDict g).map fun ov => dim2 ov.2).sum
      ∧ Rect w sz sy ((sortDict g).map fun ov => dim2 ov.2).sum
      ∧ (∀ ov ∈ sortDict g, 0 < dim2 ov.2)
      ∧ (cuts 0 ((sortDict g).map fun ov => dim2 ov.2)).map (fun c => slice2 c.1 c.2 w)
          = (sortDict g).map Prod.snd := by
  have hf := joinSorted_inv cat2 g w hn h
  obtain ⟨sz, sy, hz, hy, hs, hr, hall, hsl⟩ := foldCat_cat2_inv ((sortDict g).map Prod.snd) w (by
    intro b hb
    obtain ⟨ov, hov, rfl⟩ := List.mem_map.mp hb
    exact hok ov ((mem_sortDict g ov).mp hov)) hf
  rw [List.map_map] at hs hr hsl
  refine ⟨sz, sy, hz, hy, hs, hr, ?_, hsl⟩
  intro ov hov
  exact (hall ov.2 (List.mem_map.mpr ⟨ov, hov, rfl⟩)).2

theorem group_facts1 {α : Type} (g : Dict Nat (Arr3 α)) (w : Arr3 α) (hn : (g.map Prod.fst).Nodup)
    (hok : ∀ ov ∈ g, RectPos ov.2) (h : joinSorted cat1 g = some w) :
    ∃ sz sx, 0 < sz ∧ 0 < sx ∧ 0 < ((sortDict g).map fun ov => dim1 ov.2).sum
      ∧ Rect w sz ((sortDict g).map fun ov => dim1 ov.2).sum sx
      ∧ (∀ ov ∈ sortDict g, 0 < dim1 ov.2 ∧ Rect ov.2 sz (dim1 ov.2) sx)
      ∧ (cuts 0 ((sortDict g).map fun ov => dim1 ov.2)).map (fun c => slice1 c.1 c.2 w)
          = (sortDict g).map Prod.snd := by
  have hf := joinSorted_inv cat1 g w hn h
  obtain ⟨sz, sx, hz, hx, hs, hr, hall, hsl⟩ := foldCat_cat1_inv ((sortDict g).map Prod.snd) w (by
    intro b hb
    obtain ⟨ov, hov, rfl⟩ := List.mem_map.mp hb
    exact hok ov ((mem_sortDict g ov).mp hov)) hf
  rw [List.map_map] at hs hr hsl
  refine ⟨sz, sx, hz, hx, hs, hr, ?_, hsl⟩
  intro ov hov
  have := hall ov.2 (List.mem_map.mpr ⟨ov, hov, rfl⟩)
  exact ⟨this.2, this.1⟩

theorem group_facts0 {α : Type} (g : Dict Nat (Arr3 α)) (w : Arr3 α) (hn : (g.map Prod.fst).Nodup)
    (hok : ∀ ov ∈ g, RectPos ov.2) (h : joinSorted cat0 g = some w) :
    ∃ sy sx, 0 < sy ∧ 0 < sx ∧ 0 < ((sortDict g).map fun ov => ov.2.length).sum
      ∧ Rect w ((sortDict g).map fun ov => ov.2.length).sum sy sx
      ∧ (∀ ov ∈ sortDict g, 0 < ov.2.length ∧ Rect ov.2 ov.2.length sy sx)
      ∧ (cuts 0 ((sortDict g).map fun ov => ov.2.length)).map (fun c => slice0 c.1 c.2 w)
          = (sortDict g).map Prod.snd := by
  have hf := joinSorted_inv cat0 g w hn h
  obtain ⟨sy, sx, hy, hx, hs, hr, hall, hsl⟩ := foldCat_cat0_inv ((sortDict g).map Prod.snd) w (by
    intro b hb
    obtain ⟨ov, hov, rfl⟩ := List.mem_map.mp hb
    exact hok ov ((mem_sortDict g ov).mp hov)) hf
  rw [List.map_map] at hs hr hsl
  refine ⟨sy, sx, hy, hx, hs, hr, ?_, hsl⟩
  intro ov hov
  have := hall ov.2 (List.mem_map.mpr ⟨ov, hov, rfl⟩)
  exact ⟨this.2, this.1⟩

/-! ### re-indexing `cutsP` -/

theorem cutsP_map_flatMap {ι τ γ β : Type} (len : ι → Nat) (pay : ι → τ) (sl : Nat → Nat → β) (val : ι → β)
    (F : β → τ → List γ) :
    ∀ (L : List ι) (o : Nat), (cuts o (L.map len)).map (fun c => sl c.1 c.2) = L.map val →
      (cutsP o (L.map fun x => (len x, pay x))).flatMap (fun c => F (sl c.1 c.2.1) c.2.2)
        = L.flatMap (fun x => F (val x) (pay x))
  | [], _, _ => rfl
  | x :: xs, o, h => by
    simp only [List.map_cons, cuts, List.cons.injEq] at h
    simp only [List.map_cons, cutsP, List.flatMap_cons, h.1]
    rw [cutsP_map_flatMap len pay sl val F xs (o + len x) h.2]

theorem cutsP_map_map {ι τ γ β : Type} (len : ι → Nat) (pay : ι → τ) (sl : Nat → Nat → β) (val : ι → β)
    (F : β → τ → γ) :
    ∀ (L : List ι) (o : Nat), (cuts o (L.map len)).map (fun c => sl c.1 c.2) = L.map val →
      (cutsP o (L.map fun x => (len x, pay x))).map (fun c => F (sl c.1 c.2.1) c.2.2)
        = L.map (fun x => F (val x) (pay x))
  | [], _, _ => rfl
  | x :: xs, o, h => by
    simp only [List.map_cons, cuts, List.cons.injEq] at h
    simp only [List.map_cons, cutsP, h.1]
    rw [cutsP_map_map len pay sl val F xs (o + len x) h.2]

end AurelVerif.AcceptLemmas
