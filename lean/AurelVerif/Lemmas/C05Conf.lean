/-
Lemmas/C05Conf.lean — property C05, T12 (BSSNOK part, Layer B): the conformal decomposition of the
Ricci tensor AS BUILT BY THE CODE,

    s_Ricci_down3 (default alternative, from Γ)  =  Ricci tensor of the connection Γ̃  +  s_Ricci_down3_phi ,

where Γ̃ = `s_Gamma_udd3_bssnok` is the code's conformal connection (Alcubierre (2.8.14)),
`Ricci(Γ̃)_bd = R̃^a_{bad}` with `R̃^a_{bcd} = ∂_cΓ̃^a_{db} − ∂_dΓ̃^a_{cb} + Γ̃Γ̃ − Γ̃Γ̃` (Spec.Covd.riemann/ricci)
and `s_Ricci_down3_phi` is the code's `R^φ_ij` (Alcubierre (2.8.18)).  This is the conformal-transformation
formula of the Ricci tensor ([W] (D.8) with Ω = e^{2φ}, n = 3), i.e. [A] (2.8.16) with `R̃_ij` read as the
Ricci tensor of the conformal connection.

Structure.  Part 1 is index algebra: with `C^k_ij = 2(δ^k_i φ_j + δ^k_j φ_i − γ_ij γ^{kl} φ_l)`, `Γ̃ = Γ − C`,
`∇γ = 0`, `∇γ⁻¹ = 0`, γ⁻¹γ = 1:
   `∂_aC^a_bd − ∂_dC^a_ba + (Γ̃C + CΓ̃ + CC)_bd − (…)_bd = R^φ_bd`   (`conf_algebra`, by a linear-combination
certificate over the relations γγ⁻¹ = 1).  Part 2 ties it to the generated definitions.
Hypotheses on the operator (`ConfRules`): the Leibniz expansion of `∂_c Γ̃^k_ij` and commuting second
derivatives of φ — derived from `Deriv e.D` (+ `DComm`) below; plus `ProdRuleInv` (for ∇γ⁻¹ = 0).
NOT covered here: that the code's `s_Ricci_down3_bssnok` ((2.8.17), written with `Γ̃^i = −∂_jγ̃^{ij}`)
equals `Ricci(Γ̃)` — needs det γ̃ = 1 and the chain rule for the opaque `rpowF`/`logF`.
-/
import AurelVerif.Lemmas.C05Riem
import AurelVerif.Lemmas.C05Div

set_option linter.unusedSimpArgs false
set_option linter.unusedVariables false
set_option linter.unusedSectionVars false
set_option linter.unusedTactic false
set_option linter.unreachableTactic false

namespace AurelVerif.C05L
open AurelVerif.Gen.Core AurelVerif.Tensor AurelVerif.CoreTac AurelVerif.C08 AurelVerif.Spec.Covd

variable {K : Type} [Field K]

/-! ### Part 1: index algebra -/

section conf
variable (γ γup : Fin 3 → Fin 3 → K) (Γ : Fin 3 → Fin 3 → Fin 3 → K) (φ1 : Fin 3 → K) (φ2 : Fin 3 → Fin 3 → K)

/-- `φ^k = γ^{kl} φ_l`. -/
def uVec (k : Fin 3) : K := ∑ l, γup k l * φ1 l

/-- `C^k_ij = Γ^k_ij − Γ̃^k_ij = 2(δ^k_i φ_j + δ^k_j φ_i − γ_ij φ^k)`  ([A] (2.8.14)). -/
def Cten (k i j : Fin 3) : K := 2 * (delta k i * φ1 j + delta k j * φ1 i - γ i j * uVec γup φ1 k)

/-- `∂_c C^k_ij` by the product rule, with `∂_cγ_ij = Γ^m_ci γ_mj + Γ^m_cj γ_im` and
`∂_cγ^{kl} = −Γ^k_cm γ^{ml} − Γ^l_cm γ^{km}` substituted (`φ2 c l = ∂_c∂_lφ`). -/
def dCten (c k i j : Fin 3) : K :=
  2 * (delta k i * φ2 c j + delta k j * φ2 c i
    - ((∑ m, Γ m c i * γ m j + ∑ m, Γ m c j * γ i m) * uVec γup φ1 k
        + γ i j * ∑ l, ((-∑ m, Γ k c m * γup m l - ∑ m, Γ l c m * γup k m) * φ1 l + γup k l * φ2 c l)))

/-- `R^φ_bd` ([A] (2.8.18)) written with the physical metric (`γ̃_ij γ̃^{kl} = γ_ij γ^{kl}`) and the connection
`Gt`. -/
def RphiPhys (Gt : Fin 3 → Fin 3 → Fin 3 → K) (b d : Fin 3) : K :=
  -2 * (φ2 b d - ∑ k, Gt k b d * φ1 k)
  - 2 * γ b d * (∑ k, ∑ l, γup k l * (φ2 k l - ∑ m, Gt m k l * φ1 m))
  + 4 * (φ1 b * φ1 d) - 4 * γ b d * (∑ k, ∑ l, γup k l * (φ1 k * φ1 l))

/-- difference of the Ricci tensors of `Γ = Γ̃ + C` and `Γ̃` (code index order), with `∂C` given by `dC`. -/
def ricciDiff (C Gt : Fin 3 → Fin 3 → Fin 3 → K) (dC : Fin 3 → Fin 3 → Fin 3 → Fin 3 → K) (b d : Fin 3) : K :=
  ∑ a, (dC a a b d - dC d a b a)
  + ∑ a, ∑ p, (Gt a p a * C p b d + C a p a * Gt p b d + C a p a * C p b d
      - Gt a p d * C p b a - C a p d * Gt p b a - C a p d * C p b a)

theorem lower_uVec (hinv : ∀ b l, ∑ a, γ b a * γup a l = delta b l) :
    ∀ p, ∑ a, γ p a * uVec γup φ1 a = φ1 p := by
  intro p
  have h0 := hinv p 0; have h1 := hinv p 1; have h2 := hinv p 2
  revert h0 h1 h2; revert p
  cases3 <;>
    (intro h0 h1 h2
     simp only [uVec, delta, Fin.sum_univ_three, Fin.isValue, Fin.reduceEq, ↓reduceIte, if_true, if_false] at h0 h1 h2 ⊢
     linear_combination φ1 0 * h0 + φ1 1 * h1 + φ1 2 * h2)

theorem trace_inv (hsu : Sym γup) (hinv : ∀ b l, ∑ a, γ b a * γup a l = delta b l) :
    ∑ k, ∑ l, γup k l * γ k l = 3 := by
  have h0 := hinv 0 0; have h1 := hinv 1 1; have h2 := hinv 2 2
  have u01 := hsu 1 0; have u02 := hsu 2 0; have u12 := hsu 2 1
  simp only [delta, Fin.sum_univ_three, Fin.isValue, Fin.reduceEq, ↓reduceIte, if_true, if_false, u01, u02, u12]
    at h0 h1 h2 ⊢
  linear_combination h0 + h1 + h2

set_option maxHeartbeats 1000000 in
/-- **conformal transformation of the Ricci tensor, index algebra**:
`Ric(Γ̃ + C) − Ric(Γ̃) = R^φ` for `C` of the form (2.8.14). -/
theorem conf_algebra (hs : Sym γ) (hsu : Sym γup) (hG : SymLow Γ) (hφ : Sym φ2)
    (hinv : ∀ b l, ∑ a, γ b a * γup a l = delta b l) (b d : Fin 3) :
    ricciDiff (Cten γ γup φ1) (fun k i j => Γ k i j - Cten γ γup φ1 k i j) (dCten γ γup Γ φ1 φ2) b d
      = RphiPhys γ γup φ1 φ2 (fun k i j => Γ k i j - Cten γ γup φ1 k i j) b d := by
  have hU := lower_uVec γ γup φ1 hinv
  have hT := trace_inv γ γup hsu hinv
  -- the certificate: every use of γγ⁻¹ = 1, each multiplied by its cofactor
  have ZI : ∀ l, (φ2 d l - ∑ m, Γ m d l * φ1 m) * (∑ a, γ b a * γup a l - delta b l) = 0 :=
    fun l => by rw [hinv b l, sub_self, mul_zero]
  have ZE : ∀ p, Cten γ γup φ1 p b d * (∑ a, γ p a * uVec γup φ1 a - φ1 p) = 0 :=
    fun p => by rw [hU p, sub_self, mul_zero]
  have ZEE : (∑ a, γ b a * uVec γup φ1 a - φ1 b) * (∑ a, γ d a * uVec γup φ1 a - φ1 d) = 0 := by
    rw [hU b, sub_self, zero_mul]
  have ZT : γ b d * (∑ m, uVec γup φ1 m * φ1 m) * (∑ k, ∑ l, γup k l * γ k l - 3) = 0 := by
    rw [hT, sub_self, mul_zero]
  have ZI0 := ZI 0; have ZI1 := ZI 1; have ZI2 := ZI 2
  have ZE0 := ZE 0; have ZE1 := ZE 1; have ZE2 := ZE 2
  clear ZI ZE hU hT hinv
  have h01 := hs 1 0; have h02 := hs 2 0; have h12 := hs 2 1
  have u01 := hsu 1 0; have u02 := hsu 2 0; have u12 := hsu 2 1
  have p01 := hφ 1 0; have p02 := hφ 2 0; have p12 := hφ 2 1
  have g1 := fun a => hG a 1 0; have g2 := fun a => hG a 2 0; have g3 := fun a => hG a 2 1
  revert ZI0 ZI1 ZI2 ZE0 ZE1 ZE2 ZEE ZT
  revert b d
  cases3 <;> cases3 <;>
    (intro ZEE ZT ZI0 ZI1 ZI2 ZE0 ZE1 ZE2
     simp only [ricciDiff, RphiPhys, Cten, dCten, uVec, delta, Fin.sum_univ_three, Fin.isValue, Fin.reduceEq,
       ↓reduceIte, if_true, if_false, h01, h02, h12, u01, u02, u12, p01, p02, p12, g1, g2, g3]
       at ZI0 ZI1 ZI2 ZE0 ZE1 ZE2 ZEE ZT ⊢
     linear_combination 2 * ZI0 + 2 * ZI1 + 2 * ZI2 + 2 * ZE0 + 2 * ZE1 + 2 * ZE2 + 4 * ZEE - 4 * ZT)

end conf

/-! ### Part 2: the code -/

/-- `delta k i * x` is the `if` of Spec/Covd.lean. -/
theorem ite_delta (k i : Fin 3) (x : K) : (if k = i then x else 0) = delta k i * x := by
  unfold delta; split_ifs <;> ring

/-- (2.8.14) as `Γ̃ = Γ − C`. -/
theorem gammaBssnok_eq (D : Fin 3 → K → K) (Γ : Fin 3 → Fin 3 → Fin 3 → K) (γ γup : Fin 3 → Fin 3 → K) (φ : K)
    (k i j : Fin 3) :
    gammaBssnok D Γ γ γup φ k i j = Γ k i j - Cten γ γup (fun i => D i φ) k i j := by
  simp only [gammaBssnok, Cten, uVec, ite_delta]

/-- the Riemann tensor of a connection symmetric in its lower indices, in the index order the code uses. -/
theorem riemann_code_order (D : Fin 3 → K → K) (Γ : Fin 3 → Fin 3 → Fin 3 → K) (hG : SymLow Γ) (a b c d : Fin 3) :
    riemann D Γ a b c d = D c (Γ a b d) - D d (Γ a b c) + ∑ p, Γ a p c * Γ p b d - ∑ p, Γ a p d * Γ p b c := by
  unfold riemann
  rw [hG a d b, hG a c b]
  congr 1
  · congr 1
    exact Finset.sum_congr rfl (fun p _ => by rw [hG a c p, hG p d b])
  · exact Finset.sum_congr rfl (fun p _ => by rw [hG a d p, hG p c b])

/-- what the theorem needs of the operator: Leibniz expansion of `∂_c Γ̃^k_ij` for the code's
`Γ̃ = Γ − 2(δφ + δφ − γ γ⁻¹ φ)` and commuting second derivatives of φ. -/
structure ConfRules (e : Env K) : Prop where
  comm : ∀ i j, e.D i (e.D j e.phi_bssnok) = e.D j (e.D i e.phi_bssnok)
  dGt : ∀ c k i j, e.D c (e.s_Gamma_udd3_bssnok k i j)
      = e.D c (e.s_Gamma_udd3 k i j)
        - 2 * (delta k i * e.D c (e.D j e.phi_bssnok) + delta k j * e.D c (e.D i e.phi_bssnok)
            - (e.D c (e.gammadown3 i j) * uVec e.gammaup3 (fun l => e.D l e.phi_bssnok) k
                + e.gammadown3 i j * ∑ l, (e.D c (e.gammaup3 k l) * e.D l e.phi_bssnok
                    + e.gammaup3 k l * e.D c (e.D l e.phi_bssnok))))

/-- `ConfRules` for a derivation with commuting partial derivatives, when `s_Gamma_udd3_bssnok` is the code's. -/
theorem confRules_of_deriv (e : Env K) (hD : Deriv e.D) (hc : DComm e.D)
    (hB : e.s_Gamma_udd3_bssnok = s_Gamma_udd3_bssnok e) : ConfRules e := by
  refine ⟨fun i j => hc i j _, ?_⟩
  intro c k i j
  rw [hB, s_Gamma_udd3_bssnok_spec]
  revert k i j
  cases3 <;> cases3 <;> cases3 <;>
    (simp only [gammaBssnok, uVec, delta, Fin.sum_univ_three, Fin.isValue, Fin.reduceEq, ↓reduceIte, if_true, if_false,
       hD.add, hD.sub', hD.mul, hD.two, hD.zero, add_zero, zero_add, mul_zero, zero_mul, one_mul]
     try ring)

/-- the conformal weights cancel in `γ̃_ij γ̃^{kl}` ([A] below (2.8.14)): a purely algebraic hypothesis, true for the
code's `gammadown3_bssnok`, `gammaup3_bssnok` when ψ ≠ 0 (`conf_weights_of_code`). -/
def ConfWeights (e : Env K) : Prop :=
  ∀ i j k l, e.gammadown3_bssnok i j * e.gammaup3_bssnok k l = e.gammadown3 i j * e.gammaup3 k l

theorem conf_weights_of_code (e : Env K) (hpsi : e.psi_bssnok ≠ 0) (hgd : e.gammadown3_bssnok = gammadown3_bssnok e)
    (hgu : e.gammaup3_bssnok = gammaup3_bssnok e) : ConfWeights e := by
  intro i j k l
  rw [hgd, hgu, (bssnok_weights e i j).1, (bssnok_weights e k l).2.1]
  have : e.psi_bssnok ^ 4 ≠ 0 := pow_ne_zero 4 hpsi
  field_simp

/-- the code's `R^φ_ij` in physical variables. -/
theorem s_Ricci_down3_phi_phys (e : Env K) (hW : ConfWeights e) (b d : Fin 3) :
    s_Ricci_down3_phi e b d
      = RphiPhys e.gammadown3 e.gammaup3 (fun i => e.D i e.phi_bssnok) (fun i j => e.D i (e.D j e.phi_bssnok))
          e.s_Gamma_udd3_bssnok b d := by
  rw [s_Ricci_down3_phi_spec]
  have w := hW b d
  simp only [ricciPhi, ddphi, RphiPhys, Fin.sum_univ_three]
  linear_combination
    (-2 * (e.D 0 (e.D 0 e.phi_bssnok) - (e.s_Gamma_udd3_bssnok 0 0 0 * e.D 0 e.phi_bssnok + e.s_Gamma_udd3_bssnok 1 0 0 * e.D 1 e.phi_bssnok + e.s_Gamma_udd3_bssnok 2 0 0 * e.D 2 e.phi_bssnok)) - 4 * (e.D 0 e.phi_bssnok * e.D 0 e.phi_bssnok)) * w 0 0
    + (-2 * (e.D 0 (e.D 1 e.phi_bssnok) - (e.s_Gamma_udd3_bssnok 0 0 1 * e.D 0 e.phi_bssnok + e.s_Gamma_udd3_bssnok 1 0 1 * e.D 1 e.phi_bssnok + e.s_Gamma_udd3_bssnok 2 0 1 * e.D 2 e.phi_bssnok)) - 4 * (e.D 0 e.phi_bssnok * e.D 1 e.phi_bssnok)) * w 0 1
    + (-2 * (e.D 0 (e.D 2 e.phi_bssnok) - (e.s_Gamma_udd3_bssnok 0 0 2 * e.D 0 e.phi_bssnok + e.s_Gamma_udd3_bssnok 1 0 2 * e.D 1 e.phi_bssnok + e.s_Gamma_udd3_bssnok 2 0 2 * e.D 2 e.phi_bssnok)) - 4 * (e.D 0 e.phi_bssnok * e.D 2 e.phi_bssnok)) * w 0 2
    + (-2 * (e.D 1 (e.D 0 e.phi_bssnok) - (e.s_Gamma_udd3_bssnok 0 1 0 * e.D 0 e.phi_bssnok + e.s_Gamma_udd3_bssnok 1 1 0 * e.D 1 e.phi_bssnok + e.s_Gamma_udd3_bssnok 2 1 0 * e.D 2 e.phi_bssnok)) - 4 * (e.D 1 e.phi_bssnok * e.D 0 e.phi_bssnok)) * w 1 0
    + (-2 * (e.D 1 (e.D 1 e.phi_bssnok) - (e.s_Gamma_udd3_bssnok 0 1 1 * e.D 0 e.phi_bssnok + e.s_Gamma_udd3_bssnok 1 1 1 * e.D 1 e.phi_bssnok + e.s_Gamma_udd3_bssnok 2 1 1 * e.D 2 e.phi_bssnok)) - 4 * (e.D 1 e.phi_bssnok * e.D 1 e.phi_bssnok)) * w 1 1
    + (-2 * (e.D 1 (e.D 2 e.phi_bssnok) - (e.s_Gamma_udd3_bssnok 0 1 2 * e.D 0 e.phi_bssnok + e.s_Gamma_udd3_bssnok 1 1 2 * e.D 1 e.phi_bssnok + e.s_Gamma_udd3_bssnok 2 1 2 * e.D 2 e.phi_bssnok)) - 4 * (e.D 1 e.phi_bssnok * e.D 2 e.phi_bssnok)) * w 1 2
    + (-2 * (e.D 2 (e.D 0 e.phi_bssnok) - (e.s_Gamma_udd3_bssnok 0 2 0 * e.D 0 e.phi_bssnok + e.s_Gamma_udd3_bssnok 1 2 0 * e.D 1 e.phi_bssnok + e.s_Gamma_udd3_bssnok 2 2 0 * e.D 2 e.phi_bssnok)) - 4 * (e.D 2 e.phi_bssnok * e.D 0 e.phi_bssnok)) * w 2 0
    + (-2 * (e.D 2 (e.D 1 e.phi_bssnok) - (e.s_Gamma_udd3_bssnok 0 2 1 * e.D 0 e.phi_bssnok + e.s_Gamma_udd3_bssnok 1 2 1 * e.D 1 e.phi_bssnok + e.s_Gamma_udd3_bssnok 2 2 1 * e.D 2 e.phi_bssnok)) - 4 * (e.D 2 e.phi_bssnok * e.D 1 e.phi_bssnok)) * w 2 1
    + (-2 * (e.D 2 (e.D 2 e.phi_bssnok) - (e.s_Gamma_udd3_bssnok 0 2 2 * e.D 0 e.phi_bssnok + e.s_Gamma_udd3_bssnok 1 2 2 * e.D 1 e.phi_bssnok + e.s_Gamma_udd3_bssnok 2 2 2 * e.D 2 e.phi_bssnok)) - 4 * (e.D 2 e.phi_bssnok * e.D 2 e.phi_bssnok)) * w 2 2

/-- the form of γγ⁻¹ = 1 used by `conf_algebra`. -/
theorem MetricOK.hinvC (e : Env K) (h : MetricOK e) (b l : Fin 3) :
    ∑ a, e.gammadown3 b a * e.gammaup3 a l = delta b l := by
  rw [show (delta b l : K) = delta l b by unfold delta; simp only [eq_comm]]
  exact h.hr' e l b

/-- **T12 (BSSNOK): `R_ij = Ricci(Γ̃)_ij + R^φ_ij`** for the code's default `s_Ricci_down3`, the code's conformal
connection `s_Gamma_udd3_bssnok` and the code's `s_Ricci_down3_phi`.  Layer B. -/
theorem ricci_conformal_split (e : Env K) (h : MetricOK e) (h2 : (2 : K) ≠ 0) (hp : ProdRuleInv e)
    (hB : e.s_Gamma_udd3_bssnok = s_Gamma_udd3_bssnok e) (hW : ConfWeights e) (hr : ConfRules e) (b d : Fin 3) :
    s_Ricci_down3__dflt e b d
      = ricci (riemann e.D e.s_Gamma_udd3_bssnok) b d + s_Ricci_down3_phi e b d := by
  -- abbreviations
  have hGt : ∀ k i j, e.s_Gamma_udd3_bssnok k i j
      = e.s_Gamma_udd3 k i j - Cten e.gammadown3 e.gammaup3 (fun i => e.D i e.phi_bssnok) k i j := by
    intro k i j; rw [hB, s_Gamma_udd3_bssnok_spec, gammaBssnok_eq]
  have hGtf : e.s_Gamma_udd3_bssnok
      = fun k i j => e.s_Gamma_udd3 k i j - Cten e.gammadown3 e.gammaup3 (fun i => e.D i e.phi_bssnok) k i j := by
    funext k i j; exact hGt k i j
  have hsymC : ∀ k i j, Cten e.gammadown3 e.gammaup3 (fun i => e.D i e.phi_bssnok) k i j
      = Cten e.gammadown3 e.gammaup3 (fun i => e.D i e.phi_bssnok) k j i := by
    intro k i j; simp only [Cten, h.hs i j]; ring
  have hGtsym : SymLow e.s_Gamma_udd3_bssnok := by
    intro k i j; rw [hGt, hGt, hsymC k i j, (h.symG e) k i j]
  -- derivatives of Γ̃ with ∇γ = 0, ∇γ⁻¹ = 0
  have cdd := compatDD_of_metricOK e h h2
  have cuu := compatUU_of_metricOK e h h2 hp
  have dg : ∀ c i j, e.D c (e.gammadown3 i j)
      = ∑ m, e.s_Gamma_udd3 m c i * e.gammadown3 m j + ∑ m, e.s_Gamma_udd3 m c j * e.gammadown3 i m := by
    intro c i j; have := cdd c i j; simp only [covdDD, pd2] at this; linear_combination this
  have dgu : ∀ c k l, e.D c (e.gammaup3 k l)
      = -∑ m, e.s_Gamma_udd3 k c m * e.gammaup3 m l - ∑ m, e.s_Gamma_udd3 l c m * e.gammaup3 k m := by
    intro c k l; have := cuu c k l; simp only [covdUU, pd2] at this; linear_combination this
  have dGt : ∀ c k i j, e.D c (e.s_Gamma_udd3_bssnok k i j)
      = e.D c (e.s_Gamma_udd3 k i j)
        - dCten e.gammadown3 e.gammaup3 e.s_Gamma_udd3 (fun i => e.D i e.phi_bssnok)
            (fun i j => e.D i (e.D j e.phi_bssnok)) c k i j := by
    intro c k i j
    rw [hr.dGt c k i j]
    simp only [dCten, dg, dgu]
  -- the algebra
  have key := conf_algebra e.gammadown3 e.gammaup3 e.s_Gamma_udd3 (fun i => e.D i e.phi_bssnok)
    (fun i j => e.D i (e.D j e.phi_bssnok)) h.hs h.hsu (h.symG e) (fun i j => hr.comm i j) (h.hinvC e) b d
  rw [s_Ricci_down3_phi_phys e hW, s_Ricci_down3_dflt_spec]
  simp only [ricci, riemann_code_order e.D e.s_Gamma_udd3_bssnok hGtsym, s_Riemann_uddd3_exact, dGt]
  rw [hGtf]
  simp only [ricciDiff] at key
  simp only [Fin.sum_univ_three] at key ⊢
  linear_combination key

end AurelVerif.C05L
