/-
Lemmas/C15Flag.lean — every place where `self.simplify` changes what
`AurelCoreSymbolic` executes.

The translator maps `self.simplify ↦ simplify : Bool`, `sp.simplify ↦ S`; the
flag occurs in the generated lines Gamma_down, Gamma_udd, Riemann_down (both
branches), Riemann_uddd, Ricci_down (both branches; the direct branch twice:
per summand and on the sum) and in `__getitem__` (`post`).  RicciS and
Einstein_down do not mention it.

  * `*_flag`: for ARBITRARY arguments (not only textbook inputs) the line with
    `simplify = true` equals the line with `simplify = false`, under the only
    assumption made about sympy's `simplify`: it is value-preserving,
    `∀ x, S x = x` (as elements of the field of expressions).
  * `*_unsimplified`: with `simplify = false` NOTHING is assumed about `S`: the
    line does not call it (the lines are literally the same term for every
    `S`), so every C15 theorem holds for `simplify = False` unconditionally.
    In particular the factor `1/2` of `Gamma_udd` is applied on that path
    (`gamma_udd_unsimplified`; regression 7535a87: it was inside the
    `if self.simplify` arm).
-/
import AurelVerif.Lemmas.C15CoreAll

set_option linter.unusedSectionVars false

namespace AurelVerif.SymFlag
open AurelVerif.SymFill AurelVerif.SymFillLemmas AurelVerif.SymTensorLemmas AurelVerif.SymCore
open AurelVerif.SymCoreAll AurelVerif.Spec.SymTensors AurelVerif.Gen
open scoped BigOperators

variable {K : Type} [Field K] {n : ℕ} {D : Fin n → K → K} {S : K → K}

/-! ### `simplify = True` vs `False`, arbitrary arguments -/

theorem gamma_down_flag (hS : ∀ x, S x = x) (g : Fin n → Fin n → K) (Γ : Fin n → Fin n → Fin n → K)
    (i j k : Fin n) :
    SymFormulas.Gamma_down D true S g Γ i j k = SymFormulas.Gamma_down D false S g Γ i j k := by
  simp [SymFormulas.Gamma_down, hS]

theorem gamma_udd_flag (hS : ∀ x, S x = x) (gup g : Fin n → Fin n → K) (i j k : Fin n) :
    SymFormulas.Gamma_udd D true S gup g i j k = SymFormulas.Gamma_udd D false S gup g i j k := by
  simp [SymFormulas.Gamma_udd, hS]

theorem riemann_down_cached_flag (hS : ∀ x, S x = x) (g : Fin n → Fin n → K)
    (R : Fin n → Fin n → Fin n → Fin n → K) (h i j k : Fin n) :
    SymFormulas.Riemann_down_cached D true S g R h i j k
      = SymFormulas.Riemann_down_cached D false S g R h i j k := by
  simp [SymFormulas.Riemann_down_cached, hS]

theorem riemann_down_direct_flag (hS : ∀ x, S x = x) (Γd Γu : Fin n → Fin n → Fin n → K)
    (i j k h : Fin n) :
    SymFormulas.Riemann_down_direct D true S Γd Γu i j k h
      = SymFormulas.Riemann_down_direct D false S Γd Γu i j k h := by
  simp only [SymFormulas.Riemann_down_direct, hS, if_true, Bool.false_eq_true, if_false]
  ring

theorem riemann_uddd_flag (hS : ∀ x, S x = x) (Γ : Fin n → Fin n → Fin n → K) (i j k h : Fin n) :
    SymFormulas.Riemann_uddd D true S Γ i j k h = SymFormulas.Riemann_uddd D false S Γ i j k h := by
  rw [riemann_uddd_line hS, riemann_uddd_line hS]

theorem ricci_down_cached_flag (hS : ∀ x, S x = x) (R : Fin n → Fin n → Fin n → Fin n → K)
    (i j : Fin n) :
    SymFormulas.Ricci_down_cached D true S R i j = SymFormulas.Ricci_down_cached D false S R i j := by
  rw [ricci_down_cached_line hS, ricci_down_cached_line hS]

theorem ricci_down_direct_flag (hS : ∀ x, S x = x) (Γ : Fin n → Fin n → Fin n → K) (i j : Fin n) :
    SymFormulas.Ricci_down_direct D true S Γ i j = SymFormulas.Ricci_down_direct D false S Γ i j := by
  rw [ricci_down_direct_line hS, ricci_down_direct_line hS]

theorem ricciS_flag (gup Ric : Fin n → Fin n → K) :
    SymFormulas.RicciS D true S gup Ric = SymFormulas.RicciS D false S gup Ric := rfl

theorem einstein_down_flag (Ric g : Fin n → Fin n → K) (Rs : K) (i j : Fin n) :
    SymFormulas.Einstein_down D true S Ric g Rs i j = SymFormulas.Einstein_down D false S Ric g Rs i j :=
  rfl

theorem post_flag (hS : ∀ x, S x = x) (x : K) : post true S x = post false S x := by
  rw [post_id hS, post_id hS]

/-! ### `simplify = False` never calls `sp.simplify` -/

theorem gamma_udd_unsimplified (S : K → K) (gup g : Fin n → Fin n → K) (i j k : Fin n) :
    SymFormulas.Gamma_udd D false S gup g i j k
      = (1 / 2) * ∑ m, gup i m * (D j (g m k) + D k (g m j) - D m (g j k)) := by
  simp [SymFormulas.Gamma_udd]

theorem stored_unsimplified (S : K → K) (g gup : Fin n → Fin n → K) (cached : Bool) :
    storedGammaUdd n D false S g gup = storedGammaUdd n D false id g gup
    ∧ storedGammaDown n D false S g gup = storedGammaDown n D false id g gup
    ∧ storedRiemannUddd n D false S g gup = storedRiemannUddd n D false id g gup
    ∧ storedRiemannDown n D false S g gup cached = storedRiemannDown n D false id g gup cached
    ∧ storedRicci n D false S g gup cached = storedRicci n D false id g gup cached
    ∧ storedRicciS n D false S g gup cached = storedRicciS n D false id g gup cached
    ∧ storedEinstein n D false S g gup cached = storedEinstein n D false id g gup cached :=
  ⟨rfl, rfl, rfl, rfl, rfl, rfl, rfl⟩

end AurelVerif.SymFlag
