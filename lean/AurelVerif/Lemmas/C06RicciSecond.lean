/-
Lemmas/C06RicciSecond.lean — Layer B (consistency), groundwork for the RICCI EQUATION (property C06, extension):
the second-derivative part of the component `R_itjt` of the textbook Riemann tensor (`riemannDown`, [LL] (92.1)) of
the 4-metric assembled from (α, β, γ),
    `½(∂_t∂_j g_it + ∂_i∂_t g_tj − ∂_i∂_j g_tt − ∂_t∂_t γ_ij)`,
when `∂_t∂_tγ_ij` is the Leibniz t-derivative of the kinematic relation with `∂_tK_ij = dtK i j` (`JetC.dttgamOf`).

 * `ricci_second`:  it is
      `α ∂_tK_ij + ∂_tα K_ij + ∂_iα ∂_jα + α ∂_i∂_jα + αβ^k(∂_kK_ij − ∂_jK_ki − ∂_iK_kj) − ∂_jα β^mK_mi − ∂_iα β^mK_mj
       + K_ij β^m∂_mα + ∂_tβ^k ³Γ_{k|ij} + Z_ij`
   with `Z_ij` (`Zshift`) the part that involves only shift and spatial metric;
 * `shift_part`:  `Z_ij = β^kβ^l ³R_ikjl − γ_pq D_jβ^p D_iβ^q + Γ^p_ij(β^k L_βγ_kp − β_k∂_pβ^k − ½β^kβ^l∂_pγ_kl)`.
Both are polynomial identities in the jet symbols (hypotheses: `Jet.LeviCivita`, `JetC.Smooth`).  Nothing here mentions generated
code.
-/
import AurelVerif.Spec.RicciEquation
import AurelVerif.Lemmas.C04RiemSym

set_option linter.unusedSimpArgs false
set_option linter.unusedVariables false
set_option linter.unusedTactic false
set_option linter.unreachableTactic false

namespace AurelVerif.Spec.Curvature.JetC
open AurelVerif.Tensor AurelVerif.CoreTac AurelVerif.C04L AurelVerif.Spec.Curvature.Jet

variable {K : Type} [Field K] (J : JetC K)

local notation "γΓ" => christoffel1 J.dgam

/-- `∂_i(L_βγ_jk)` by the Leibniz rule (the shift part of `JetC.ddtgam`). -/
def lieGamD (i j k : Fin 3) : K :=
  ∑ m, ((J.db i m * J.dgam m j k + J.beta m * J.ddgam i m j k)
       + (J.dgam i m k * J.db j m + J.gam m k * J.ddb i.succ j.succ m)
       + (J.dgam i j m * J.db k m + J.gam j m * J.ddb i.succ k.succ m))

/-- `∂_i∂_j(β^aβ^bγ_ab)` by the product rule (the shift part of the `tt` component of `ddmetric3p1`). -/
def bbg2 (i j : Fin 3) : K :=
  ∑ a, ∑ b, ((J.ddb i.succ j.succ a * J.beta b * J.gam a b + J.db j a * J.db i b * J.gam a b
                + J.db j a * J.beta b * J.dgam i a b)
            + (J.db i a * J.db j b * J.gam a b + J.beta a * J.ddb i.succ j.succ b * J.gam a b
                + J.beta a * J.db j b * J.dgam i a b)
            + (J.db i a * J.beta b * J.dgam j a b + J.beta a * J.db i b * J.dgam j a b
                + J.beta a * J.beta b * J.ddgam i j a b))

/-- the part of the second-derivative term of `R_itjt` that involves only the shift and the spatial metric. -/
def Zshift (i j : Fin 3) : K :=
  (1 / 2) * ∑ k, J.beta k * (J.lieGamD j k i + J.lieGamD i k j - J.lieGamD k i j) - (1 / 2) * J.bbg2 i j

theorem dtgam_symm (h : J.LeviCivita) (i j : Fin 3) : J.dtgam i j = J.dtgam j i := by
  have := d4gam_symm J h 0 i j
  simpa only [d4gam, tsplit_0] using this

set_option maxHeartbeats 1000000 in
/-- twice the second-derivative part of `R_itjt`, no division. -/
theorem ricci_second2 (h : J.LeviCivita) (hs : J.Smooth) (dtK : Fin 3 → Fin 3 → K)
    (hT : ∀ i j, J.dttgam i j = J.dttgamOf dtK i j) : ∀ i j : Fin 3,
    J.ddg4 0 j.succ i.succ 0 + J.ddg4 i.succ 0 0 j.succ - J.ddg4 i.succ j.succ 0 0 - J.ddg4 0 0 i.succ j.succ
      = 2 * (J.alpha * dtK i j + J.dta * J.Kd i j + J.da i * J.da j + J.alpha * J.dda i.succ j.succ
          + J.alpha * ∑ k, J.beta k * (J.dK k i j - J.dK j k i - J.dK i k j)
          - J.da j * ∑ m, J.beta m * J.Kd m i - J.da i * ∑ m, J.beta m * J.Kd m j
          + J.Kd i j * ∑ m, J.beta m * J.da m)
        + ∑ k, J.dtb k * (J.dgam i k j + J.dgam j k i - J.dgam k i j)
        + (∑ k, J.beta k * (J.lieGamD j k i + J.lieGamD i k j - J.lieGamD k i j) - J.bbg2 i j) := by
  have g10 := h.symg 1 0; have g20 := h.symg 2 0; have g21 := h.symg 2 1
  have K10 := h.symK 1 0; have K20 := h.symK 2 0; have K21 := h.symK 2 1
  have T10 := dtgam_symm J h 1 0; have T20 := dtgam_symm J h 2 0; have T21 := dtgam_symm J h 2 1
  have d10 := fun i => dgam_symm J h i 1 0
  have d20 := fun i => dgam_symm J h i 2 0
  have d21 := fun i => dgam_symm J h i 2 1
  have c10 := fun i => hs.dK i 1 0
  have c20 := fun i => hs.dK i 2 0
  have c21 := fun i => hs.dK i 2 1
  have k10 := fun i j => hs.ddgam_kl 1 0 i j
  have k20 := fun i j => hs.ddgam_kl 2 0 i j
  have k21 := fun i j => hs.ddgam_kl 2 1 i j
  have i10 := fun k l => hs.ddgam_ij k l 1 0
  have i20 := fun k l => hs.ddgam_ij k l 2 0
  have i21 := fun k l => hs.ddgam_ij k l 2 1
  have b10 := fun m => hs.ddb 1 0 m
  have b20 := fun m => hs.ddb 2 0 m
  have b30 := fun m => hs.ddb 3 0 m
  have b21 := fun m => hs.ddb 2 1 m
  have b31 := fun m => hs.ddb 3 1 m
  have b32 := fun m => hs.ddb 3 2 m
  have a21 := hs.dda 2 1; have a31 := hs.dda 3 1; have a32 := hs.dda 3 2
  simp only [ddg4, ddmetric3p1, dd4gam, hT, dttgamOf, dtLieGam, ddtgam, lieGamD, bbg2, d4a, d4b,
    d4gam, tsplit_succ, tsplit_0]
  cases3 <;> cases3 <;>
    (simp only [Fin.sum_univ_three, succ3_0, succ3_1, succ3_2, g10, g20, g21, K10, K20, K21, T10, T20, T21, d10, d20,
       d21, c10, c20, c21, k10, k20, k21, i10, i20, i21, b10, b20, b30, b21, b31, b32, a21, a31, a32]
     ring)

/-- the second-derivative part of `R_itjt` (see the header). -/
theorem ricci_second (h : J.LeviCivita) (hs : J.Smooth) (dtK : Fin 3 → Fin 3 → K)
    (hT : ∀ i j, J.dttgam i j = J.dttgamOf dtK i j) (i j : Fin 3) :
    (1 / 2) * (J.ddg4 0 j.succ i.succ 0 + J.ddg4 i.succ 0 0 j.succ
        - J.ddg4 i.succ j.succ 0 0 - J.ddg4 0 0 i.succ j.succ)
      = J.alpha * dtK i j + J.dta * J.Kd i j + J.da i * J.da j + J.alpha * J.dda i.succ j.succ
        + J.alpha * ∑ k, J.beta k * (J.dK k i j - J.dK j k i - J.dK i k j)
        - J.da j * ∑ m, J.beta m * J.Kd m i - J.da i * ∑ m, J.beta m * J.Kd m j
        + J.Kd i j * ∑ m, J.beta m * J.da m + ∑ k, J.dtb k * γΓ k i j + J.Zshift i j := by
  have h12 : (1 / 2 : K) * 2 = 1 := by have := h.two; field_simp
  have e := ricci_second2 J h hs dtK hT i j
  simp only [Zshift, christoffel1, Fin.sum_univ_three] at e ⊢
  linear_combination (1 / 2) * e
    + (J.alpha * dtK i j + J.dta * J.Kd i j + J.da i * J.da j + J.alpha * J.dda i.succ j.succ
        + J.alpha * (J.beta 0 * (J.dK 0 i j - J.dK j 0 i - J.dK i 0 j) + J.beta 1 * (J.dK 1 i j - J.dK j 1 i - J.dK i 1 j)
            + J.beta 2 * (J.dK 2 i j - J.dK j 2 i - J.dK i 2 j))
        - J.da j * (J.beta 0 * J.Kd 0 i + J.beta 1 * J.Kd 1 i + J.beta 2 * J.Kd 2 i)
        - J.da i * (J.beta 0 * J.Kd 0 j + J.beta 1 * J.Kd 1 j + J.beta 2 * J.Kd 2 j)
        + J.Kd i j * (J.beta 0 * J.da 0 + J.beta 1 * J.da 1 + J.beta 2 * J.da 2)) * h12

end AurelVerif.Spec.Curvature.JetC
