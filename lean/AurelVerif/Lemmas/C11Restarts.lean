/-
Lemmas/C11Restarts.lean — proofs about Model/Restarts.lean (C11, restart
selection and flattening of `read_ET_data`, with and without checkpoints).

A. the restart choice.   B. `np.argmin(abs(arr - iit))`.
C. appending one row to aligned columns.   D. the two loops of the flattening.
E. `readETData` around an ideal per-restart reader.
-/
import Mathlib.Data.List.Nodup
import AurelVerif.Lemmas.Chunks
import AurelVerif.Model.Restarts
namespace AurelVerif.RestartsLemmas
open AurelVerif.Chunks AurelVerif.ChunksLemmas AurelVerif.Restarts
set_option linter.unusedSimpArgs false
set_option linter.unusedVariables false

/-! ### A. the restart choice -/

theorem pick_latest_lemma (usechk : Bool) (cats : List Cat) (iit r : Nat) (h : pick usechk cats iit = some r) :
    ∃ pre c post, cats = pre ++ c :: post ∧ c.num = r ∧ inRestart usechk c iit = true
      ∧ ∀ d ∈ post, inRestart usechk d iit = false := by
  unfold pick at h
  obtain ⟨a, ha, rfl⟩ := Option.map_eq_some_iff.mp h
  obtain ⟨hp, as, bs, hsplit, hbefore⟩ := List.find?_eq_some_iff_append.mp ha
  refine ⟨bs.reverse, a, as.reverse, ?_, rfl, hp, ?_⟩
  · have := congrArg List.reverse hsplit
    simpa using this
  · intro c hc
    have := hbefore c (List.mem_reverse.mp hc)
    simpa using this

theorem pick_none_lemma (usechk : Bool) (cats : List Cat) (iit : Nat) :
    pick usechk cats iit = none ↔ ∀ c ∈ cats, inRestart usechk c iit = false := by
  unfold pick
  rw [Option.map_eq_none_iff, List.find?_eq_none]
  constructor
  · intro h c hc
    have := h c (List.mem_reverse.mpr hc)
    simpa using this
  · intro h c hc
    have := h c (List.mem_reverse.mp hc)
    simp [this]

/-- with restarts catalogued in increasing order the chosen one has the LARGEST
number among the restarts that contain the iteration -/
theorem pick_max_lemma (usechk : Bool) (cats : List Cat) (hs : (cats.map (·.num)).Pairwise (· < ·))
    (iit r : Nat) (h : pick usechk cats iit = some r) :
    ∀ c ∈ cats, inRestart usechk c iit = true → c.num ≤ r := by
  obtain ⟨pre, a, post, hsplit, har, _, hpost⟩ := pick_latest_lemma usechk cats iit r h
  intro c hc hin
  rw [hsplit] at hc hs
  rcases List.mem_append.mp hc with hc | hc
  · rw [List.map_append, List.pairwise_append] at hs
    have := hs.2.2 c.num (List.mem_map.mpr ⟨c, hc, rfl⟩) a.num (by simp)
    omega
  · rcases List.mem_cons.mp hc with rfl | hc
    · omega
    · have := hpost c hc
      rw [this] at hin; cases hin

/-! ### B. argmin -/

theorem absDiff_eq_zero (x iit : Nat) : absDiff x iit = 0 ↔ x = iit := by
  unfold absDiff; split <;> omega

theorem idxOf_map_absDiff (arr : List Nat) (iit : Nat) :
    (arr.map fun x => absDiff x iit).idxOf 0 = arr.idxOf iit := by
  induction arr with
  | nil => rfl
  | cons x xs ih =>
    simp only [List.map_cons, List.idxOf_cons, ih]
    by_cases hx : x = iit
    · have h1 : (absDiff x iit == 0) = true := by simpa using (absDiff_eq_zero x iit).mpr hx
      have h2 : (x == iit) = true := by simpa using hx
      rw [h1, h2]
    · have : absDiff x iit ≠ 0 := fun e => hx ((absDiff_eq_zero x iit).mp e)
      have h1 : (absDiff x iit == 0) = false := by simpa using this
      have h2 : (x == iit) = false := by simpa using hx
      rw [h1, h2]

theorem argminAbs_mem (arr : List Nat) (iit : Nat) (h : iit ∈ arr) :
    argminAbs arr iit = some (arr.idxOf iit) := by
  unfold argminAbs
  have h0 : (0 : Nat) ∈ arr.map fun x => absDiff x iit :=
    List.mem_map.mpr ⟨iit, h, (absDiff_eq_zero iit iit).mpr rfl⟩
  have : (arr.map fun x => absDiff x iit).min? = some 0 := by
    rw [List.min?_eq_some_iff]
    exact ⟨h0, fun b _ => Nat.zero_le b⟩
  simp only [this, idxOf_map_absDiff]

/-! ### C. aligned columns -/

/-- a dictionary with the keys `keys` whose value under `k` is `f k` -/
def aligned {β : Type} (keys : List String) (f : String → List β) : Dict String (List β) :=
  keys.map fun k => (k, f k)

theorem get?_aligned {β : Type} (keys : List String) (f : String → List β) (k : String) (hk : k ∈ keys) :
    (aligned keys f).get? k = some (f k) := by
  induction keys with
  | nil => cases hk
  | cons k' rest ih =>
    simp only [aligned, List.map_cons, Dict.get?]
    by_cases e : k' = k
    · simp [e]
    · simp only [e, if_false]
      rcases List.mem_cons.mp hk with h | h
      · exact absurd h.symm e
      · exact ih h

theorem get?_aligned_none {β : Type} (keys : List String) (f : String → List β) (k : String) (hk : k ∉ keys) :
    (aligned keys f).get? k = none := by
  induction keys with
  | nil => rfl
  | cons k' rest ih =>
    simp only [List.mem_cons, not_or] at hk
    have : ¬ k' = k := fun e => hk.1 e.symm
    simp only [aligned, List.map_cons, Dict.get?, this, if_false]
    exact ih hk.2

/-- the table a reader returns for the iterations `l` of restart `r`:
`data['it'] = l`, the columns `keys`, one entry `cell r k it` per iteration -/
def ideal {β : Type} (keys : List String) (cell : Nat → String → Nat → β) (r : Nat) (l : List Nat) : Table β :=
  ⟨l, aligned keys fun k => l.map (cell r k)⟩

/-- one row appended to every column: the restart's value, `None` when the restart lacks the column -/
theorem appendRow_ideal {β : Type} (K : List String) (f : String → List (Option β)) (keys : List String)
    (cell : Nat → String → Nat → β) (r : Nat) (l : List Nat) (iit : Nat) (hm : iit ∈ l) :
    appendRow (aligned K f) (ideal keys cell r l) (l.idxOf iit)
      = some (aligned K fun k => f k ++ [if k ∈ keys then some (cell r k iit) else none]) := by
  unfold appendRow aligned
  rw [mapOpt_eq_map (appendCell (ideal keys cell r l) (l.idxOf iit))
    (fun kl => (kl.1, kl.2 ++ [if kl.1 ∈ keys then some (cell r kl.1 iit) else none]))]
  · simp [List.map_map, Function.comp_def]
  · intro kl _
    unfold appendCell ideal
    by_cases hk : kl.1 ∈ keys
    · simp only [get?_aligned keys _ kl.1 hk, List.getElem?_map, List.getElem?_idxOf hm, Option.map_some, hk, if_true]
    · simp only [get?_aligned_none keys _ kl.1 hk, hk, if_false]

/-! ### D. the flattening -/

/-- the union of the columns of the restarts `rs`, in first-seen order -/
def unionKeysOf (keysOf : Nat → List String) (rs : List Nat) : List String :=
  rs.foldl (fun ks r => (keysOf r).foldl addKey ks) []

theorem unionKeys_ideal {β : Type} (keysOf : Nat → List String) (cell : Nat → String → Nat → β)
    (todo : List (Nat × List Nat)) :
    unionKeys (todo.map fun rl => (rl.1, ideal (keysOf rl.1) cell rl.1 rl.2)) = unionKeysOf keysOf (todo.map Prod.fst) := by
  unfold unionKeys unionKeysOf
  rw [List.foldl_map, List.foldl_map]
  congr 1
  funext ks rl
  simp [ideal, aligned, List.map_map, Function.comp_def]

/-- the restarts of `todo` that hold `iit` -/
def hits (todo : List (Nat × List Nat)) (iit : Nat) : List Nat :=
  todo.filterMap fun rl => if iit ∈ rl.2 then some rl.1 else none

/-- the cell of the result: the restart's value, or `None` -/
def cellOpt {β : Type} (keysOf : Nat → List String) (cell : Nat → String → Nat → β) (r : Nat) (k : String) (it : Nat) :
    Option β :=
  if k ∈ keysOf r then some (cell r k it) else none

theorem inner_fold {β : Type} (K : List String) (keysOf : Nat → List String) (cell : Nat → String → Nat → β)
    (iit : Nat) :
    ∀ (todo : List (Nat × List Nat)) (I : List Nat) (f : String → List (Option β)),
      (todo.map fun rl => (rl.1, ideal (keysOf rl.1) cell rl.1 rl.2)).foldlM (rowStep iit) (I, aligned K f)
      = some (I ++ (hits todo iit).map (fun _ => iit),
              aligned K fun k => f k ++ (hits todo iit).map fun r => cellOpt keysOf cell r k iit) := by
  intro todo
  induction todo with
  | nil => intro I f; simp [hits, aligned]
  | cons rl rest ih =>
    intro I f
    simp only [List.map_cons, List.foldlM_cons, rowStep]
    by_cases hm : iit ∈ rl.2
    · have hm' : iit ∈ (ideal (keysOf rl.1) cell rl.1 rl.2).its := hm
      simp only [hm', if_true]
      have h1 : (ideal (keysOf rl.1) cell rl.1 rl.2).its = rl.2 := rfl
      simp only [h1, argminAbs_mem rl.2 iit hm, List.getElem?_idxOf hm]
      rw [appendRow_ideal K f (keysOf rl.1) cell rl.1 rl.2 iit hm]
      simp only [Option.bind_eq_bind, Option.bind_some]
      rw [ih (I ++ [iit]) (fun k => f k ++ [if k ∈ keysOf rl.1 then some (cell rl.1 k iit) else none])]
      simp [hits, hm, cellOpt, List.append_assoc]
    · have hm' : ¬ iit ∈ (ideal (keysOf rl.1) cell rl.1 rl.2).its := hm
      simp only [hm', if_false, Option.bind_eq_bind, Option.bind_some]
      rw [ih I f]
      simp [hits, hm]

/-- rows produced by the two loops -/
def rowsLoop (todo : List (Nat × List Nat)) (oldIt : List Nat) : List (Nat × Nat) :=
  oldIt.flatMap fun iit => (hits todo iit).map fun r => (iit, r)

theorem outer_fold {β : Type} (K : List String) (keysOf : Nat → List String) (cell : Nat → String → Nat → β)
    (todo : List (Nat × List Nat)) :
    ∀ (oldIt : List Nat) (I : List Nat) (f : String → List (Option β)),
      oldIt.foldlM (fun (acc : List Nat × Dict String (List (Option β))) iit =>
        (todo.map fun rl => (rl.1, ideal (keysOf rl.1) cell rl.1 rl.2)).foldlM (rowStep iit) acc) (I, aligned K f)
      = some (I ++ (rowsLoop todo oldIt).map Prod.fst,
              aligned K fun k => f k ++ (rowsLoop todo oldIt).map fun p => cellOpt keysOf cell p.2 k p.1) := by
  intro oldIt
  induction oldIt with
  | nil => intro I f; simp [rowsLoop, aligned]
  | cons iit rest ih =>
    intro I f
    simp only [List.foldlM_cons]
    rw [inner_fold K keysOf cell iit todo I f]
    simp only [Option.bind_eq_bind, Option.bind_some]
    rw [ih]
    simp [rowsLoop, List.append_assoc, List.map_flatMap, Function.comp_def]

theorem flattenTables_ideal {β : Type} (keysOf : Nat → List String) (cell : Nat → String → Nat → β)
    (todo : List (Nat × List Nat)) (oldIt : List Nat) :
    flattenTables (todo.map fun rl => (rl.1, ideal (keysOf rl.1) cell rl.1 rl.2)) oldIt
      = some ((rowsLoop todo oldIt).map Prod.fst,
              aligned (unionKeysOf keysOf (todo.map Prod.fst)) fun k =>
                (rowsLoop todo oldIt).map fun p => cellOpt keysOf cell p.2 k p.1) := by
  unfold flattenTables
  rw [unionKeys_ideal]
  have := outer_fold (unionKeysOf keysOf (todo.map Prod.fst)) keysOf cell todo oldIt [] (fun _ => [])
  simp only [List.nil_append] at this
  exact this

/-! ### union of keys -/

theorem foldl_addKey_sub (K pre : List String) (h : ∀ k ∈ K, k ∈ pre) : K.foldl addKey pre = pre := by
  induction K with
  | nil => rfl
  | cons k rest ih =>
    have hk := h k (List.mem_cons_self ..)
    have : addKey pre k = pre := by simp [addKey, hk]
    simp only [List.foldl_cons, this]
    exact ih (fun k' hk' => h k' (List.mem_cons_of_mem _ hk'))

theorem foldl_addKey_fresh (K : List String) (hn : K.Nodup) :
    ∀ pre : List String, (∀ k ∈ K, k ∉ pre) → K.foldl addKey pre = pre ++ K := by
  induction K with
  | nil => intro pre _; simp
  | cons k rest ih =>
    intro pre h
    simp only [List.nodup_cons] at hn
    have hk := h k (List.mem_cons_self ..)
    have : addKey pre k = pre ++ [k] := by simp [addKey, hk]
    simp only [List.foldl_cons, this]
    rw [ih hn.2 (pre ++ [k])]
    · simp
    · intro k' hk' hm
      rcases List.mem_append.mp hm with hm | hm
      · exact h k' (List.mem_cons_of_mem _ hk') hm
      · simp only [List.mem_singleton] at hm
        exact hn.1 (hm ▸ hk')

/-- every restart delivers the same columns `K`: the union is `K` (or nothing when no restart is read) -/
theorem unionKeysOf_const (K : List String) (hn : K.Nodup) (rs : List Nat) :
    unionKeysOf (fun _ => K) rs = if rs = [] then [] else K := by
  unfold unionKeysOf
  cases rs with
  | nil => rfl
  | cons r rest =>
    simp only [List.foldl_cons, reduceCtorEq, if_false]
    rw [foldl_addKey_fresh K hn [] (by simp), List.nil_append]
    induction rest with
    | nil => rfl
    | cons r' rest' ih =>
      simp only [List.foldl_cons]
      rw [foldl_addKey_sub K K (fun _ h => h)]
      exact ih

/-! ### E. `readETData` around an ideal reader -/

theorem nodup_eraseDups : ∀ (l : List Nat), l.eraseDups.Nodup
  | [] => by simp
  | a :: as => by
    rw [List.eraseDups_cons]
    have : (as.filter fun b => !b == a).length < as.length + 1 := Nat.lt_succ_of_le (List.length_filter_le _ _)
    refine List.nodup_cons.mpr ⟨?_, nodup_eraseDups _⟩
    rw [List.mem_eraseDups]; simp
termination_by l => l.length

theorem eraseDups_of_nodup : ∀ (l : List Nat), l.Nodup → l.eraseDups = l
  | [], _ => by simp
  | a :: as, h => by
    rw [List.eraseDups_cons]
    have hn := List.nodup_cons.mp h
    have hf : (as.filter fun b => !b == a) = as := by
      rw [List.filter_eq_self]
      intro b hb
      have : b ≠ a := fun e => hn.1 (e ▸ hb)
      simp [this]
    rw [hf, eraseDups_of_nodup as hn.2]

theorem strict_of_sorted_nodup {l : List Nat} (h1 : l.Pairwise (· ≤ ·)) (h2 : l.Nodup) : l.Pairwise (· < ·) :=
  (h1.and h2).imp (fun h => Nat.lt_of_le_of_ne h.1 h.2)

theorem sortedSet_strict (its : List Nat) : (sortedSet its).Pairwise (· < ·) := by
  unfold sortedSet
  exact strict_of_sorted_nodup (sortNat_sorted _) (((sortNat_perm _).nodup_iff).mpr (nodup_eraseDups its))

/-- `sorted(set(l))` of a strictly increasing list is the list -/
theorem sortedSet_of_strict (l : List Nat) (h : l.Pairwise (· < ·)) : sortedSet l = l := by
  unfold sortedSet
  rw [eraseDups_of_nodup l (h.imp (fun h => Nat.ne_of_lt h))]
  exact sortNat_eq_of_perm (List.Perm.refl l) h

theorem hits_filter (todo : List (Nat × List Nat)) (iit : Nat) :
    hits (todo.filter fun rl => !rl.2.isEmpty) iit = hits todo iit := by
  unfold hits
  rw [List.filterMap_filter]
  apply List.filterMap_congr
  intro rl _
  cases h : rl.2 with
  | nil => simp
  | cons a b => simp

theorem mem_sortNat' (l : List Nat) (x : Nat) : x ∈ sortNat l ↔ x ∈ l := (sortNat_perm l).mem_iff

theorem filterMap_num_unique (cats : List Cat) (hnd : (cats.map (·.num)).Nodup) (it : Nat) (a : Cat)
    (ha : a ∈ cats) :
    cats.filterMap (fun c => if some a.num = some c.num then some c.num else none) = [a.num] := by
  induction cats with
  | nil => cases ha
  | cons c rest ih =>
    simp only [List.map_cons, List.nodup_cons] at hnd
    rcases List.mem_cons.mp ha with rfl | ha
    · simp only [List.filterMap_cons, if_true]
      congr 1
      rw [List.filterMap_eq_nil_iff]
      intro x hx
      have : a.num ≠ x.num := fun e => hnd.1 (e ▸ List.mem_map.mpr ⟨x, hx, rfl⟩)
      simp [this]
    · have hne : a.num ≠ c.num := fun e => hnd.1 (e ▸ List.mem_map.mpr ⟨a, ha, rfl⟩)
      simp only [List.filterMap_cons, Option.some.injEq, hne, if_false]
      simpa using ih hnd.2 ha

/-- the restarts whose 'it to do' holds `it` = the chosen restart -/
theorem hits_itToDo (usechk : Bool) (cats : List Cat) (hnd : (cats.map (·.num)).Nodup) (s : List Nat) (it : Nat)
    (hit : it ∈ s) : hits (Restarts.itToDo usechk cats s) it = (pick usechk cats it).toList := by
  unfold hits Restarts.itToDo
  rw [List.filterMap_map]
  have hmem : ∀ c : Cat, (it ∈ sortNat (List.filter (fun iit => pick usechk cats iit == some c.num) s.reverse))
      ↔ pick usechk cats it = some c.num := by
    intro c
    rw [mem_sortNat', List.mem_filter]
    simp [hit]
  cases hp : pick usechk cats it with
  | none =>
    simp only [Option.toList_none, List.filterMap_eq_nil_iff]
    intro c _
    have hn : ¬ (it ∈ sortNat (List.filter (fun iit => pick usechk cats iit == some c.num) s.reverse)) := by
      rw [hmem c, hp]; simp
    simp only [Function.comp]
    rw [if_neg hn]
  | some r =>
    obtain ⟨pre, a, post, hsplit, har, _⟩ := pick_latest_lemma usechk cats it r hp
    have ha : a ∈ cats := by rw [hsplit]; simp
    subst har
    have := filterMap_num_unique cats hnd it a ha
    simp only [Option.toList_some]
    rw [← this]
    apply List.filterMap_congr
    intro c _
    simp only [Function.comp, hmem c, hp]

theorem rowsLoop_itToDo (usechk : Bool) (cats : List Cat) (hnd : (cats.map (·.num)).Nodup) (s : List Nat) :
    rowsLoop ((Restarts.itToDo usechk cats s).filter fun rl => !rl.2.isEmpty) s
      = s.filterMap fun it => (pick usechk cats it).map fun r => (it, r) := by
  unfold rowsLoop
  rw [List.filterMap_eq_flatMap_toList]
  apply List.flatMap_congr
  intro it hit
  rw [hits_filter, hits_itToDo usechk cats hnd s it hit]
  cases pick usechk cats it <;> simp

theorem mapOpt_reader {β : Type} (keysOf : Nat → List String) (cell : Nat → String → Nat → β)
    (reader : Nat → List Nat → Option (Table β)) (todo : List (Nat × List Nat))
    (hr : ∀ rl ∈ todo, reader rl.1 rl.2 = some (ideal (keysOf rl.1) cell rl.1 rl.2)) :
    mapOpt (fun rl => (reader rl.1 rl.2).map fun T => (rl.1, T)) todo
      = some (todo.map fun rl => (rl.1, ideal (keysOf rl.1) cell rl.1 rl.2)) :=
  mapOpt_eq_map _ _ _ (fun rl h => by simp [hr rl h])

/-- the restarts that are actually read (non-empty 'it to do'), in catalogue order -/
def activeRestarts (usechk : Bool) (cats : List Cat) (its : List Nat) : List Nat :=
  ((Restarts.itToDo usechk cats (sortedSet its)).filter fun rl => !rl.2.isEmpty).map Prod.fst

theorem mem_activeRestarts (usechk : Bool) (cats : List Cat) (its : List Nat) (r : Nat) :
    r ∈ activeRestarts usechk cats its ↔ ∃ it, (it, r) ∈ rowsOf usechk cats its := by
  unfold activeRestarts rowsOf
  constructor
  · intro h
    obtain ⟨rl, hrl, rfl⟩ := List.mem_map.mp h
    obtain ⟨hrl1, hrl2⟩ := List.mem_filter.mp hrl
    obtain ⟨c, _, rfl⟩ := List.mem_map.mp hrl1
    simp only at hrl2
    cases hl : sortNat (List.filter (fun iit => pick usechk cats iit == some c.num) (sortedSet its).reverse) with
    | nil => rw [hl] at hrl2; simp at hrl2
    | cons it rest =>
      have hit : it ∈ sortNat (List.filter (fun iit => pick usechk cats iit == some c.num) (sortedSet its).reverse) := by
        rw [hl]; exact List.mem_cons_self ..
      rw [mem_sortNat', List.mem_filter, List.mem_reverse] at hit
      refine ⟨it, List.mem_filterMap.mpr ⟨it, hit.1, ?_⟩⟩
      have := hit.2
      simp only [beq_iff_eq] at this
      simp [this]
  · rintro ⟨it, h⟩
    obtain ⟨it', hit', e⟩ := List.mem_filterMap.mp h
    cases hp : pick usechk cats it' with
    | none => simp [hp] at e
    | some r' =>
      simp only [hp, Option.map_some, Option.some.injEq, Prod.mk.injEq] at e
      obtain ⟨rfl, rfl⟩ := e
      obtain ⟨pre, c, post, hsplit, hcr, _⟩ := pick_latest_lemma usechk cats it' r' hp
      have hc : c ∈ cats := by rw [hsplit]; simp
      refine List.mem_map.mpr ⟨(c.num, sortNat (List.filter (fun iit => pick usechk cats iit == some c.num)
        (sortedSet its).reverse)), ?_, hcr⟩
      refine List.mem_filter.mpr ⟨List.mem_map.mpr ⟨c, hc, rfl⟩, ?_⟩
      have hmem : it' ∈ sortNat (List.filter (fun iit => pick usechk cats iit == some c.num) (sortedSet its).reverse) := by
        rw [mem_sortNat', List.mem_filter, List.mem_reverse]
        exact ⟨hit', by simp [hp, hcr]⟩
      cases hl : sortNat (List.filter (fun iit => pick usechk cats iit == some c.num) (sortedSet its).reverse) with
      | nil => rw [hl] at hmem; cases hmem
      | cons a b => simp

/-- `restart = -1`: one row per requested iteration that some restart holds, in
increasing order; the columns are the union of the columns of the restarts that
are read; every column has exactly one entry per row: the chosen restart's value
at that iteration, or `None` when that restart does not have the column -/
theorem readETData_auto {β : Type} (usechk : Bool) (cats : List Cat) (hnd : (cats.map (·.num)).Nodup)
    (keysOf : Nat → List String) (cell : Nat → String → Nat → β)
    (reader : Nat → List Nat → Option (Table β))
    (hr : ∀ r l, l ≠ [] → l.Pairwise (· < ·) → (∀ it ∈ l, pick usechk cats it = some r) →
      reader r l = some (ideal (keysOf r) cell r l))
    (its : List Nat) :
    readETData usechk cats none its reader
      = some ((rowsOf usechk cats its).map Prod.fst,
              aligned (unionKeysOf keysOf (activeRestarts usechk cats its)) fun k =>
                (rowsOf usechk cats its).map fun p => cellOpt keysOf cell p.2 k p.1) := by
  unfold readETData
  have hmo := mapOpt_reader keysOf cell reader
    ((Restarts.itToDo usechk cats (sortedSet its)).filter fun rl => !rl.2.isEmpty) (by
      intro rl hrl
      obtain ⟨hrl1, hrl2⟩ := List.mem_filter.mp hrl
      obtain ⟨c, _, rfl⟩ := List.mem_map.mp hrl1
      apply hr
      · intro e; simp only at e hrl2; rw [e] at hrl2; simp at hrl2
      · refine strict_of_sorted_nodup (sortNat_sorted _) (((sortNat_perm _).nodup_iff).mpr ?_)
        exact List.Nodup.filter _ (List.nodup_reverse.mpr ((sortedSet_strict its).imp (fun h => Nat.ne_of_lt h)))
      · intro it hit
        rw [mem_sortNat', List.mem_filter] at hit
        simpa using hit.2)
  simp only [hmo]
  rw [flattenTables_ideal keysOf cell, rowsLoop_itToDo usechk cats hnd (sortedSet its)]
  rfl

theorem find_num {cats : List Cat} (hnd : (cats.map (·.num)).Nodup) {c : Cat} (hc : c ∈ cats) :
    cats.find? (fun d => d.num == c.num) = some c := by
  induction cats with
  | nil => cases hc
  | cons d rest ih =>
    simp only [List.map_cons, List.nodup_cons] at hnd
    rcases List.mem_cons.mp hc with rfl | hc
    · simp
    · have : d.num ≠ c.num := fun e => hnd.1 (e ▸ List.mem_map.mpr ⟨c, hc, rfl⟩)
      have hb : (d.num == c.num) = false := by simp [this]
      rw [List.find?_cons, hb]
      exact ih hnd.2 hc

theorem flatMap_if {γ δ : Type} (p : γ → Bool) (f : γ → δ) (s : List γ) :
    s.flatMap (fun x => if p x = true then [f x] else []) = (s.filter p).map f := by
  induction s with
  | nil => rfl
  | cons x xs ih =>
    simp only [List.flatMap_cons, List.filter_cons, ih]
    cases p x <;> simp

theorem rowsLoop_single (r : Nat) (p : Nat → Bool) (s : List Nat) :
    rowsLoop [(r, s.filter p)] s = (s.filter p).map fun it => (it, r) := by
  unfold rowsLoop hits
  rw [← flatMap_if p (fun it => (it, r)) s]
  apply List.flatMap_congr
  intro x hx
  cases hp : p x <;> simp [List.mem_filter, hx, hp]

/-- explicit `restart = r`: only that restart is consulted (nothing to read: the empty dictionary) -/
theorem readETData_explicit {β : Type} (usechk : Bool) (cats : List Cat) (hnd : (cats.map (·.num)).Nodup)
    (c : Cat) (hc : c ∈ cats)
    (keys : List String) (hk : keys.Nodup) (cell : Nat → String → Nat → β)
    (reader : Nat → List Nat → Option (Table β))
    (hr : ∀ l, l ≠ [] → l.Pairwise (· < ·) → (∀ it ∈ l, inRestart usechk c it = true) →
      reader c.num l = some (ideal keys cell c.num l))
    (its : List Nat) :
    readETData usechk cats (some c.num) its reader
      = if (sortedSet its).filter (fun it => inRestart usechk c it) = [] then some ([], [])
        else some ((sortedSet its).filter (fun it => inRestart usechk c it),
                   aligned keys fun k =>
                     ((sortedSet its).filter fun it => inRestart usechk c it).map fun it => some (cell c.num k it)) := by
  unfold readETData
  simp only [find_num hnd hc, itToDoExplicit]
  have hstrict := sortedSet_strict its
  generalize sortedSet its = s at hstrict
  by_cases he : s.filter (fun it => inRestart usechk c it) = []
  · have h0 := flattenTables_ideal (β := β) (fun _ => keys) cell [] s
    simp only [List.map_nil] at h0
    simp [he, mapOpt, h0, rowsLoop, hits, unionKeysOf, aligned]
  · have hmo := mapOpt_reader (fun _ => keys) cell reader [(c.num, s.filter fun it => inRestart usechk c it)] (by
      intro rl hrl
      rw [List.mem_singleton] at hrl
      subst hrl
      exact hr _ he (hstrict.filter _) (fun it hit => (List.mem_filter.mp hit).2))
    have hf : ([(c.num, s.filter fun it => inRestart usechk c it)].filter fun rl => !rl.2.isEmpty)
        = [(c.num, s.filter fun it => inRestart usechk c it)] := by
      simp [List.filter_cons, List.isEmpty_iff, he]
    rw [hf, hmo]
    simp only
    rw [flattenTables_ideal (fun _ => keys) cell]
    have hrows := rowsLoop_single c.num (fun it => inRestart usechk c it) s
    have hu := unionKeysOf_const keys hk [c.num]
    simp only [List.map_cons, List.map_nil, reduceCtorEq, if_false] at hu ⊢
    rw [hu, hrows]
    simp only [he, if_false, List.map_map, Function.comp_def, Option.some.injEq, Prod.mk.injEq, List.map_id', true_and]
    unfold aligned
    apply List.map_congr_left
    intro k hkm
    simp [cellOpt, hkm]

end AurelVerif.RestartsLemmas
