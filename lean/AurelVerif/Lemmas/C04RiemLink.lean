/-
Lemmas/C04RiemLink.lean — the 2-jet of the assembled 4-metric as a `Jet4.Jet2` (the vocabulary of property C17), and:
`JetC.riem4` (the fully covariant formula used in the Gauss / Codazzi / Mainardi theorems) is the first-principles
Riemann tensor `R^x_{bcd} = ∂_cΓ^x_{db} − ∂_dΓ^x_{cb} + ΓΓ − ΓΓ` of that jet with the first index lowered.
-/
import AurelVerif.Lemmas.C04RiemSym
import AurelVerif.Lemmas.C04RiemLower

set_option linter.unusedSimpArgs false
set_option linter.unusedVariables false

namespace AurelVerif.Spec.Curvature.JetC
open AurelVerif.Tensor AurelVerif.CoreTac AurelVerif.C04L AurelVerif.Spec.Curvature.Jet AurelVerif.Spec.Jet4

variable {K : Type} [Field K] (J : JetC K)

/-- the 2-jet of the assembled metric in the vocabulary of Spec/Jet4.lean. -/
def toJet2 : Jet2 K := { g := J.g4, gi := J.gup3p1, dg := J.dg4, ddg := J.ddg4 }

theorem g4_symm (h : J.LeviCivita) : ∀ a b : Fin 4, J.g4 a b = J.g4 b a := by
  refine fin4_ts (fin4_ts rfl fun j => ?_) fun i => fin4_ts ?_ fun j => ?_ <;>
    simp only [Jet.g4, metric3p1, tsplit_0, tsplit_succ]
  exact h.symg i j

theorem toJet2_inverse (h : J.LeviCivita) : J.toJet2.IsInverse := by
  let U : Matrix (Fin 4) (Fin 4) K := Matrix.of J.gup3p1
  let M : Matrix (Fin 4) (Fin 4) K := Matrix.of J.g4
  have hU : U * M = 1 := by
    ext x y; rw [Matrix.mul_apply, Matrix.one_apply]; exact gup3p1_mul_g4 J.toJet h x y
  have hM : M * U = 1 := mul_eq_one_comm.mp hU
  intro a b
  have := congrFun (congrFun hM a) b
  rw [Matrix.mul_apply, Matrix.one_apply] at this
  exact this

theorem toJet2_symm (h : J.LeviCivita) (hs : J.Smooth) : J.toJet2.IsSymm :=
  ⟨g4_symm J h, gup3p1_symm J.toJet h, fun c a b => dg4_symm J h c a b, fun c d a b => ddg4_ab J h hs c d a b,
    fun c d a b => ddg4_cd J h hs c d a b⟩

/-- `g_{ax} R^x_{bcd} = R_abcd`: the tensor of the Gauss–Codazzi–Mainardi theorems is the lowered first-principles one. -/
theorem riem4_is_lowered (h : J.LeviCivita) (hs : J.Smooth) (a b c d : Fin 4) :
    ∑ x, J.g4 a x * J.toJet2.Riem x b c d = J.riem4 J.gup3p1 a b c d :=
  Jet2.lower_Riem J.toJet2 (toJet2_inverse J h) (toJet2_symm J h hs) h.two a b c d

end AurelVerif.Spec.Curvature.JetC
