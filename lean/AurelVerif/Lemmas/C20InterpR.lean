/-
Lemmas/C20InterpR.lean — Model/Interp.lean (scipy's linear `RegularGridInterpolator`
as `numerical.interpolate(method='linear')` calls it) LIFTED TO THE REALS, and the
classical interpolation error bound for it.

Why a real copy: the executable model is over `Rat`; a smooth field (a harmonic
times a radial profile) takes irrational values at the nodes and the points of the
extraction sphere `R·(sin θ cos φ, sin θ sin φ, cos θ)` are irrational.  The
definitions below are the definitions of Model/Interp.lean word for word with `Rat`
replaced by `ℝ` (same interval search, same order of the 8 summands), and

  * `interp3_cast`   on rational grids, nodal values and targets the real copy
                     returns EXACTLY the (cast of the) value of the executable model
                     `Interp.interp3` — which is tied to scipy by `corr_interp`
                     (tools/props/C20.py); likewise `findIntervalFrom_cast`.

The lemmas `Asc … axis_data`, `interp3_of_pairs` are the ones of Lemmas/C20Interp.lean
with `ℚ` replaced by `ℝ` (same proofs).  New:

  * `interp3_error`  for a target inside the grid and nodal values `f(node)` of a
                     field whose axis-parallel slices are `C2On` on the box of the grid
                     (bounded pure second partials `Mx, My, Mz`), with cell widths at most
                     `hx, hy, hz`:  `|interp3 … − f(x,y,z)| ≤ (hx²Mx + hy²My + hz²Mz)/8`.
-/
import Mathlib.Data.Rat.Cast.Order
import Mathlib.Data.Real.Basic
import AurelVerif.Lemmas.C20Interp
import AurelVerif.Lemmas.C20LinErr

namespace AurelVerif.InterpR

/-! ### Model/Interp.lean over ℝ (word for word) -/

/-- `grid[i]` (C array access; the index is always valid on the modelled grids). -/
noncomputable def nth (g : List ℝ) (i : Nat) : ℝ := g.getD i 0
/-- the `while low < high:` loop of `find_interval_ascending`.  `fuel` bounds
the number of iterations (`high - low` strictly decreases). -/
noncomputable def bsearch (g : List ℝ) (x : ℝ) : Nat → Nat → Nat → Nat
  | 0, low, _ => low
  | fuel + 1, low, high =>
    if low < high then
      let mid := (high + low) / 2
      if x < nth g mid then
        -- mid < high
        bsearch g x fuel low mid
      else if nth g (mid + 1) ≤ x then
        bsearch g x fuel (mid + 1) high
      else
        -- x[mid] <= xval < x[mid+1]
        mid
    else low
noncomputable def findIntervalFrom (prev : Nat) (g : List ℝ) (x : ℝ) : Nat :=
  let nx := g.length
  let a := nth g 0
  let b := nth g (nx - 1)
  let interval := if prev ≥ nx then 0 else prev
  if ¬ (a ≤ x ∧ x ≤ b) then
    if x < a then 0
    else nx - 2            -- `xval > b`; (the nan branch does not exist over `ℝ`)
  else if x = b then nx - 2
  else
    let low := if x ≥ nth g interval then interval else 0
    let high := if x ≥ nth g interval then nx - 2 else interval
    let high := if x < nth g (low + 1) then low else high
    bsearch g x nx low high
/-- the interval of the first target point (`prev_interval = 0`); by
`InterpLemmas.findIntervalFrom_eq` also that of every later point. -/
noncomputable def findInterval (g : List ℝ) (x : ℝ) : Nat := findIntervalFrom 0 g x
/-- `norm_distance = (x - grid[i]) / (grid[i+1] - grid[i])` -/
noncomputable def normDist (g : List ℝ) (i : Nat) (x : ℝ) : ℝ :=
  (x - nth g i) / (nth g (i + 1) - nth g i)

/-- one axis of `zip(zipped1, zipped2)`: `((i, 1 - y), (i + 1, y))` -/
noncomputable def axisPair (g : List ℝ) (x : ℝ) : (Nat × ℝ) × (Nat × ℝ) :=
  let i := findInterval g x
  let y := normDist g i x
  ((i, 1 - y), (i + 1, y))
/-- `itertools.product(px, py, pz)` of three pairs (last axis fastest). -/
noncomputable def hypercube3 (px py pz : (Nat × ℝ) × (Nat × ℝ)) : List ((Nat × ℝ) × (Nat × ℝ) × (Nat × ℝ)) :=
  [px.1, px.2].flatMap fun a => [py.1, py.2].flatMap fun b => [pz.1, pz.2].map fun c => (a, b, c)

/-- `weight = 1; for w in weights: weight = weight * w` -/
noncomputable def weight3 (h : (Nat × ℝ) × (Nat × ℝ) × (Nat × ℝ)) : ℝ := ((1 * h.1.2) * h.2.1.2) * h.2.2.2
/-- 3-D `_evaluate_linear` after `find_indices`:
`value = 0; for h in hypercube: value = value + values[edge_indices] * weight`. -/
noncomputable def interp3 (gx gy gz : List ℝ) (val : Nat → Nat → Nat → ℝ) (x y z : ℝ) : ℝ :=
  (hypercube3 (axisPair gx x) (axisPair gy y) (axisPair gz z)).foldl
    (fun value h => value + val h.1.1 h.2.1.1 h.2.2.1 * weight3 h) 0

end AurelVerif.InterpR

namespace AurelVerif.InterpR
open AurelVerif.LinErr

/-! ### the lemmas of Lemmas/C20Interp.lean over ℝ (same proofs) -/

/-- index form of "strictly ascending" -/
def Asc (g : List ℝ) : Prop := ∀ i j, i < j → j < g.length → nth g i < nth g j

theorem nth_eq_getElem (g : List ℝ) (i : Nat) (h : i < g.length) : nth g i = g[i] := by
  simp [nth, List.getD_eq_getElem?_getD, h]

theorem asc_of_pairwise {g : List ℝ} (h : g.Pairwise (· < ·)) : Asc g := by
  intro i j hij hj
  have hi : i < g.length := lt_trans hij hj
  rw [nth_eq_getElem g i hi, nth_eq_getElem g j hj]
  exact List.pairwise_iff_getElem.mp h i j hi hj hij

theorem Asc.le {g : List ℝ} (h : Asc g) {i j : Nat} (hij : i ≤ j) (hj : j < g.length) :
    nth g i ≤ nth g j := by
  rcases Nat.lt_or_eq_of_le hij with h1 | h1
  · exact le_of_lt (h i j h1 hj)
  · rw [h1]

/-- `g[i] ≤ x < g[j]` forces `i < j` -/
theorem Asc.idx_lt {g : List ℝ} (h : Asc g) {i j : Nat} {x : ℝ} (hi : i < g.length)
    (h1 : nth g i ≤ x) (h2 : x < nth g j) : i < j := by
  by_contra hc
  have := h.le (Nat.le_of_not_lt hc) hi
  linarith

/-- `x` lies in the half-open cell `r`: `g[r] ≤ x < g[r+1]` -/
def InCell (g : List ℝ) (x : ℝ) (r : Nat) : Prop :=
  r + 1 < g.length ∧ nth g r ≤ x ∧ x < nth g (r + 1)

theorem InCell.unique {g : List ℝ} (h : Asc g) {x : ℝ} {r r' : Nat}
    (h1 : InCell g x r) (h2 : InCell g x r') : r = r' := by
  obtain ⟨a1, a2, a3⟩ := h1
  obtain ⟨b1, b2, b3⟩ := h2
  have c1 := h.idx_lt (by omega) a2 b3
  have c2 := h.idx_lt (by omega) b2 a3
  omega

theorem InCell.exists {g : List ℝ} {x : ℝ} (k : Nat) (hk : k < g.length)
    (h0 : nth g 0 ≤ x) (h1 : x < nth g k) : ∃ r, r < k ∧ InCell g x r := by
  induction k with
  | zero => exact absurd h0 (not_le.mpr h1)
  | succ k ih =>
    by_cases hc : x < nth g k
    · obtain ⟨r, hr, hcell⟩ := ih (by omega) hc
      exact ⟨r, by omega, hcell⟩
    · exact ⟨k, by omega, hk, not_lt.mp hc, h1⟩

/-! ### the binary search -/

theorem bsearch_spec {g : List ℝ} (h : Asc g) {x : ℝ} {r : Nat} (hr : InCell g x r) :
    ∀ (fuel low high : Nat), low ≤ r → r ≤ high → high < g.length → high - low ≤ fuel →
      bsearch g x fuel low high = r := by
  intro fuel
  induction fuel with
  | zero =>
    intro low high h1 h2 _ h4
    simp only [bsearch]; omega
  | succ fuel ih =>
    intro low high h1 h2 h3 h4
    simp only [bsearch]
    by_cases hlh : low < high
    · rw [if_pos hlh]
      have hmid1 : low ≤ (high + low) / 2 := by omega
      have hmid2 : (high + low) / 2 < high := by omega
      by_cases hc1 : x < nth g ((high + low) / 2)
      · rw [if_pos hc1]
        have := h.idx_lt (by have := hr.1; omega) hr.2.1 hc1
        exact ih low _ h1 (by omega) (by omega) (by omega)
      · rw [if_neg hc1]
        by_cases hc2 : nth g ((high + low) / 2 + 1) ≤ x
        · rw [if_pos hc2]
          have := h.idx_lt (by omega) hc2 hr.2.2
          exact ih _ high (by omega) h2 h3 (by omega)
        · rw [if_neg hc2]
          exact InCell.unique h ⟨by omega, not_lt.mp hc1, not_le.mp hc2⟩ hr
    · rw [if_neg hlh]; omega

/-! ### `find_interval_ascending` -/

theorem findIntervalFrom_below {g : List ℝ} (prev : Nat) {x : ℝ}
    (hx : x < nth g 0) : findIntervalFrom prev g x = 0 := by
  unfold findIntervalFrom
  simp only []
  rw [if_pos (by intro hc; linarith [hc.1]), if_pos hx]

theorem findIntervalFrom_above {g : List ℝ} (h : Asc g) (hn : 2 ≤ g.length) (prev : Nat) {x : ℝ}
    (hx : nth g (g.length - 1) < x) : findIntervalFrom prev g x = g.length - 2 := by
  have hab : nth g 0 ≤ nth g (g.length - 1) := h.le (Nat.zero_le _) (by omega)
  unfold findIntervalFrom
  simp only []
  rw [if_pos (by intro hc; linarith [hc.2]), if_neg (by linarith)]

theorem findIntervalFrom_last {g : List ℝ} (h : Asc g) (hn : 2 ≤ g.length) (prev : Nat) :
    findIntervalFrom prev g (nth g (g.length - 1)) = g.length - 2 := by
  have hab : nth g 0 ≤ nth g (g.length - 1) := h.le (Nat.zero_le _) (by omega)
  unfold findIntervalFrom
  simp only []
  rw [if_neg (by intro hc; exact hc ⟨hab, le_refl _⟩)]
  simp

theorem findIntervalFrom_cell {g : List ℝ} (h : Asc g) (prev : Nat) {x : ℝ} {r : Nat}
    (hr : InCell g x r) : findIntervalFrom prev g x = r := by
  obtain ⟨r1, r2, r3⟩ := hr
  have ha : nth g 0 ≤ x := le_trans (h.le (Nat.zero_le _) (by omega)) r2
  have hb : x < nth g (g.length - 1) := lt_of_lt_of_le r3 (h.le (by omega) (by omega))
  unfold findIntervalFrom
  simp only []
  rw [if_neg (by intro hc; exact hc ⟨ha, le_of_lt hb⟩), if_neg (ne_of_lt hb)]
  apply bsearch_spec h ⟨r1, r2, r3⟩
  all_goals
    by_cases hp : prev ≥ g.length
    · simp only [if_pos hp]
      by_cases hc : x ≥ nth g 0
      · simp only [if_pos hc]
        by_cases hd : x < nth g (0 + 1)
        · try simp only [if_pos hd]
          have := InCell.unique h ⟨by omega, ha, hd⟩ ⟨r1, r2, r3⟩
          omega
        · (try simp only [if_neg hd]); omega
      · exact absurd ha hc
    · simp only [if_neg hp]
      by_cases hc : x ≥ nth g prev
      · simp only [if_pos hc]
        have hpr := h.idx_lt (by omega) hc r3
        by_cases hd : x < nth g (prev + 1)
        · try simp only [if_pos hd]
          have := InCell.unique h ⟨by omega, hc, hd⟩ ⟨r1, r2, r3⟩
          omega
        · (try simp only [if_neg hd]); omega
      · simp only [if_neg hc]
        have hpr := h.idx_lt (by omega) r2 (not_le.mp hc)
        by_cases hd : x < nth g (0 + 1)
        · try simp only [if_pos hd]
          have := InCell.unique h ⟨by omega, ha, hd⟩ ⟨r1, r2, r3⟩
          omega
        · (try simp only [if_neg hd]); omega

/-- the starting hint `prev_interval` of the search (scipy passes the interval
found for the previous point, also across axes) does not change the result. -/
theorem findIntervalFrom_eq {g : List ℝ} (hg : g.Pairwise (· < ·)) (hn : 2 ≤ g.length)
    (prev : Nat) (x : ℝ) : findIntervalFrom prev g x = findInterval g x := by
  have h := asc_of_pairwise hg
  unfold findInterval
  rcases lt_or_ge x (nth g 0) with h0 | h0
  · rw [findIntervalFrom_below prev h0, findIntervalFrom_below 0 h0]
  · rcases lt_trichotomy x (nth g (g.length - 1)) with h1 | h1 | h1
    · obtain ⟨r, _, hr⟩ := InCell.exists (g.length - 1) (by omega) h0 h1
      rw [findIntervalFrom_cell h prev hr, findIntervalFrom_cell h 0 hr]
    · rw [h1, findIntervalFrom_last h hn, findIntervalFrom_last h hn]
    · rw [findIntervalFrom_above h hn prev h1, findIntervalFrom_above h hn 0 h1]

/-- half-open cell: for `g[0] ≤ x < g[last]` the index is THE `i` with `g[i] ≤ x < g[i+1]`. -/
theorem findInterval_cell {g : List ℝ} (hg : g.Pairwise (· < ·)) {x : ℝ}
    (h0 : nth g 0 ≤ x) (h1 : x < nth g (g.length - 1)) :
    InCell g x (findInterval g x) ∧ ∀ r, InCell g x r → r = findInterval g x := by
  have h := asc_of_pairwise hg
  have hn : g.length - 1 < g.length := by
    rcases Nat.eq_zero_or_pos g.length with hz | hz
    · exfalso; rw [hz] at h1; exact absurd h0 (not_le.mpr h1)
    · omega
  obtain ⟨r, _, hr⟩ := InCell.exists (g.length - 1) hn h0 h1
  have e : findInterval g x = r := findIntervalFrom_cell h 0 hr
  rw [e]
  exact ⟨hr, fun r' hr' => InCell.unique h hr' hr⟩

/-- below the first node: cell 0 (linear extrapolation of the first cell) -/
theorem findInterval_below {g : List ℝ} {x : ℝ} (hx : x < nth g 0) : findInterval g x = 0 :=
  findIntervalFrom_below 0 hx

/-- above the last node: the last cell `n - 2` -/
theorem findInterval_above {g : List ℝ} (hg : g.Pairwise (· < ·)) (hn : 2 ≤ g.length) {x : ℝ}
    (hx : nth g (g.length - 1) < x) : findInterval g x = g.length - 2 :=
  findIntervalFrom_above (asc_of_pairwise hg) hn 0 hx

/-- exactly at the last node: the last cell `n - 2` (interval closed from the right) -/
theorem findInterval_last {g : List ℝ} (hg : g.Pairwise (· < ·)) (hn : 2 ≤ g.length) :
    findInterval g (nth g (g.length - 1)) = g.length - 2 :=
  findIntervalFrom_last (asc_of_pairwise hg) hn 0

/-- (a) the index is a valid cell, and a target inside the grid lies in that cell. -/
theorem findInterval_spec (g : List ℝ) (x : ℝ) (hg : g.Pairwise (· < ·)) (hn : 2 ≤ g.length) :
    findInterval g x + 1 < g.length ∧
      (nth g 0 ≤ x → x ≤ nth g (g.length - 1) →
        nth g (findInterval g x) ≤ x ∧ x ≤ nth g (findInterval g x + 1)) := by
  have h := asc_of_pairwise hg
  rcases lt_or_ge x (nth g 0) with h0 | h0
  · rw [findInterval_below h0]
    exact ⟨by omega, fun h0' => absurd h0' (not_le.mpr h0)⟩
  · rcases lt_trichotomy x (nth g (g.length - 1)) with h1 | h1 | h1
    · obtain ⟨⟨c1, c2, c3⟩, _⟩ := findInterval_cell hg h0 h1
      exact ⟨c1, fun _ _ => ⟨c2, le_of_lt c3⟩⟩
    · rw [h1, findInterval_last hg hn]
      refine ⟨by omega, fun _ _ => ⟨h.le (by omega) (by omega), ?_⟩⟩
      have e : g.length - 2 + 1 = g.length - 1 := by omega
      rw [e]
    · rw [findInterval_above hg hn h1]
      exact ⟨by omega, fun _ h1' => absurd h1' (not_le.mpr h1)⟩

/-- (a) with `g[i]` notation -/
theorem findInterval_spec_getElem (g : List ℝ) (x : ℝ) (hg : g.Pairwise (· < ·)) (hn : 2 ≤ g.length) :
    ∃ hi : findInterval g x + 1 < g.length,
      (g[0] ≤ x → x ≤ g[g.length - 1] → g[findInterval g x] ≤ x ∧ x ≤ g[findInterval g x + 1]) := by
  obtain ⟨hi, hs⟩ := findInterval_spec g x hg hn
  refine ⟨hi, ?_⟩
  rw [← nth_eq_getElem g 0 (by omega), ← nth_eq_getElem g (g.length - 1) (by omega),
    ← nth_eq_getElem g (findInterval g x) (by omega), ← nth_eq_getElem g (findInterval g x + 1) hi]
  exact hs
/-! ### one axis: index, norm_distance and the pair `((i, 1 - y), (i + 1, y))` -/

/-- everything the interpolation proofs need about one axis -/
theorem axis_data {g : List ℝ} (hg : g.Pairwise (· < ·)) (hn : 2 ≤ g.length) (x : ℝ) :
    ∃ (i : Nat) (t : ℝ), axisPair g x = ((i, 1 - t), (i + 1, t)) ∧ i + 1 < g.length ∧
      x = nth g i + t * (nth g (i + 1) - nth g i) ∧
      (nth g 0 ≤ x → x ≤ nth g (g.length - 1) → 0 ≤ t ∧ t ≤ 1) ∧
      (∀ i0, i0 < g.length → x = nth g i0 → (i = i0 ∧ t = 0) ∨ (i + 1 = i0 ∧ t = 1)) := by
  have h := asc_of_pairwise hg
  obtain ⟨hi, hs⟩ := findInterval_spec g x hg hn
  have hd : 0 < nth g (findInterval g x + 1) - nth g (findInterval g x) := by
    have := h _ _ (Nat.lt_succ_self (findInterval g x)) hi
    linarith
  refine ⟨findInterval g x, normDist g (findInterval g x) x, rfl, hi, ?_, ?_, ?_⟩
  · unfold normDist
    field_simp
    ring
  · intro h0 h1
    obtain ⟨s1, s2⟩ := hs h0 h1
    unfold normDist
    constructor
    · exact div_nonneg (by linarith) (le_of_lt hd)
    · rw [div_le_iff₀ hd]; linarith
  · intro i0 hi0 hx
    rcases Nat.lt_or_ge (i0 + 1) g.length with hlt | hge
    · -- interior or first node: the cell starting at `i0`
      have hcell : InCell g x i0 := ⟨hlt, by rw [hx], by rw [hx]; exact h _ _ (Nat.lt_succ_self i0) hlt⟩
      have e : findInterval g x = i0 := findIntervalFrom_cell h 0 hcell
      left
      refine ⟨e, ?_⟩
      rw [e]; unfold normDist; rw [hx]; simp
    · -- the last node
      have e0 : i0 = g.length - 1 := by omega
      have e : findInterval g x = g.length - 2 := by rw [hx, e0]; exact findInterval_last hg hn
      right
      refine ⟨by omega, ?_⟩
      have e1 : g.length - 2 + 1 = i0 := by omega
      rw [e] at hd ⊢
      unfold normDist
      rw [e1] at hd ⊢
      rw [hx]
      exact div_self (ne_of_gt hd)
theorem interp3_of_pairs {gx gy gz : List ℝ} {val : Nat → Nat → Nat → ℝ} {x y z : ℝ}
    {i j k : Nat} {tx ty tz : ℝ}
    (hx : axisPair gx x = ((i, 1 - tx), (i + 1, tx)))
    (hy : axisPair gy y = ((j, 1 - ty), (j + 1, ty)))
    (hz : axisPair gz z = ((k, 1 - tz), (k + 1, tz))) :
    interp3 gx gy gz val x y z =
      0 + val i j k * (1 * (1 - tx) * (1 - ty) * (1 - tz))
        + val i j (k + 1) * (1 * (1 - tx) * (1 - ty) * tz)
        + val i (j + 1) k * (1 * (1 - tx) * ty * (1 - tz))
        + val i (j + 1) (k + 1) * (1 * (1 - tx) * ty * tz)
        + val (i + 1) j k * (1 * tx * (1 - ty) * (1 - tz))
        + val (i + 1) j (k + 1) * (1 * tx * (1 - ty) * tz)
        + val (i + 1) (j + 1) k * (1 * tx * ty * (1 - tz))
        + val (i + 1) (j + 1) (k + 1) * (1 * tx * ty * tz) := by
  simp only [interp3, hx, hy, hz, hypercube3, weight3, List.flatMap_cons, List.flatMap_nil,
    List.map_cons, List.map_nil, List.append_nil, List.cons_append, List.nil_append,
    List.foldl_cons, List.foldl_nil]

/-! ### agreement with the executable model on rational data -/

/-- the cast `ℚ → ℝ` of a grid -/
noncomputable def castGrid (g : List ℚ) : List ℝ := g.map fun q : ℚ => (q : ℝ)

theorem nth_castGrid (g : List ℚ) (i : Nat) : nth (castGrid g) i = ((Interp.nth g i : ℚ) : ℝ) := by
  unfold nth Interp.nth castGrid
  rw [List.getD_eq_getElem?_getD, List.getD_eq_getElem?_getD, List.getElem?_map]
  cases g[i]? <;> simp

theorem length_castGrid (g : List ℚ) : (castGrid g).length = g.length := by
  unfold castGrid; simp

theorem bsearch_cast (g : List ℚ) (x : ℚ) :
    ∀ fuel low high, bsearch (castGrid g) (x : ℝ) fuel low high = Interp.bsearch g x fuel low high := by
  intro fuel
  induction fuel with
  | zero => intro low high; rfl
  | succ fuel ih =>
    intro low high
    simp only [bsearch, Interp.bsearch, nth_castGrid, Rat.cast_lt, Rat.cast_le, ih]

/-- the interval search of the real copy on cast data is the interval search of the model -/
theorem findIntervalFrom_cast (prev : Nat) (g : List ℚ) (x : ℚ) :
    findIntervalFrom prev (castGrid g) (x : ℝ) = Interp.findIntervalFrom prev g x := by
  simp only [findIntervalFrom, Interp.findIntervalFrom, nth_castGrid, length_castGrid, Rat.cast_lt,
    Rat.cast_le, Rat.cast_inj, ge_iff_le, bsearch_cast]

theorem findInterval_cast (g : List ℚ) (x : ℚ) :
    findInterval (castGrid g) (x : ℝ) = Interp.findInterval g x := findIntervalFrom_cast 0 g x

theorem normDist_cast (g : List ℚ) (i : Nat) (x : ℚ) :
    normDist (castGrid g) i (x : ℝ) = ((Interp.normDist g i x : ℚ) : ℝ) := by
  simp only [normDist, Interp.normDist, nth_castGrid]
  push_cast
  rfl

/-- **the real copy IS the model on rational data**: for rational grids, nodal values
and targets, `InterpR.interp3` returns exactly the value of the executable
`Interp.interp3` (the function compared with scipy by `corr_interp`). -/
theorem interp3_cast (gx gy gz : List ℚ) (val : Nat → Nat → Nat → ℚ) (x y z : ℚ) :
    interp3 (castGrid gx) (castGrid gy) (castGrid gz) (fun i j k => ((val i j k : ℚ) : ℝ)) x y z
      = ((Interp.interp3 gx gy gz val x y z : ℚ) : ℝ) := by
  have hx : axisPair (castGrid gx) (x : ℝ) = ((Interp.findInterval gx x, 1 - ((Interp.normDist gx (Interp.findInterval gx x) x : ℚ) : ℝ)),
      (Interp.findInterval gx x + 1, ((Interp.normDist gx (Interp.findInterval gx x) x : ℚ) : ℝ))) := by
    simp only [axisPair, findInterval_cast, normDist_cast]
  have hy : axisPair (castGrid gy) (y : ℝ) = ((Interp.findInterval gy y, 1 - ((Interp.normDist gy (Interp.findInterval gy y) y : ℚ) : ℝ)),
      (Interp.findInterval gy y + 1, ((Interp.normDist gy (Interp.findInterval gy y) y : ℚ) : ℝ))) := by
    simp only [axisPair, findInterval_cast, normDist_cast]
  have hz : axisPair (castGrid gz) (z : ℝ) = ((Interp.findInterval gz z, 1 - ((Interp.normDist gz (Interp.findInterval gz z) z : ℚ) : ℝ)),
      (Interp.findInterval gz z + 1, ((Interp.normDist gz (Interp.findInterval gz z) z : ℚ) : ℝ))) := by
    simp only [axisPair, findInterval_cast, normDist_cast]
  have hx' : Interp.axisPair gx x = ((Interp.findInterval gx x, 1 - Interp.normDist gx (Interp.findInterval gx x) x),
      (Interp.findInterval gx x + 1, Interp.normDist gx (Interp.findInterval gx x) x)) := rfl
  have hy' : Interp.axisPair gy y = ((Interp.findInterval gy y, 1 - Interp.normDist gy (Interp.findInterval gy y) y),
      (Interp.findInterval gy y + 1, Interp.normDist gy (Interp.findInterval gy y) y)) := rfl
  have hz' : Interp.axisPair gz z = ((Interp.findInterval gz z, 1 - Interp.normDist gz (Interp.findInterval gz z) z),
      (Interp.findInterval gz z + 1, Interp.normDist gz (Interp.findInterval gz z) z)) := rfl
  rw [interp3_of_pairs hx hy hz, InterpLemmas.interp3_of_pairs hx' hy' hz']
  push_cast
  rfl

/-! ### the interpolation error inside the grid -/

/-- the value of the real copy is the trilinear interpolant `LinErr.triCell` of the cell found -/
theorem interp3_eq_triCell {gx gy gz : List ℝ} (f : ℝ → ℝ → ℝ → ℝ) {x y z : ℝ}
    {i j k : Nat} {tx ty tz : ℝ}
    (hx : axisPair gx x = ((i, 1 - tx), (i + 1, tx)))
    (hy : axisPair gy y = ((j, 1 - ty), (j + 1, ty)))
    (hz : axisPair gz z = ((k, 1 - tz), (k + 1, tz))) :
    interp3 gx gy gz (fun i j k => f (nth gx i) (nth gy j) (nth gz k)) x y z
      = triCell f (nth gx i) (nth gx (i + 1)) (nth gy j) (nth gy (j + 1)) (nth gz k) (nth gz (k + 1)) tx ty tz := by
  rw [interp3_of_pairs hx hy hz]
  rfl

/-- **interpolation error of the linear `RegularGridInterpolator` (real copy of the
model)**: strictly ascending axes with ≥ 2 nodes and cell widths at most `hx, hy, hz`;
nodal values `f(node)` of a field whose slices parallel to the axes are `C2On` on the box
of the grid with bounds `Mx, My, Mz` (pure second partials).  Then at EVERY target
inside the grid (faces, edges, nodes included)
`|interpolant − f| ≤ (hx²·Mx + hy²·My + hz²·Mz)/8`. -/
theorem interp3_error (gx gy gz : List ℝ)
    (hgx : gx.Pairwise (· < ·)) (hgy : gy.Pairwise (· < ·)) (hgz : gz.Pairwise (· < ·))
    (hnx : 2 ≤ gx.length) (hny : 2 ≤ gy.length) (hnz : 2 ≤ gz.length)
    (f : ℝ → ℝ → ℝ → ℝ) {hx hy hz Mx My Mz : ℝ}
    (hwx : ∀ i, i + 1 < gx.length → nth gx (i + 1) - nth gx i ≤ hx)
    (hwy : ∀ j, j + 1 < gy.length → nth gy (j + 1) - nth gy j ≤ hy)
    (hwz : ∀ k, k + 1 < gz.length → nth gz (k + 1) - nth gz k ≤ hz)
    (HX : ∀ y ∈ Set.Icc (nth gy 0) (nth gy (gy.length - 1)), ∀ z ∈ Set.Icc (nth gz 0) (nth gz (gz.length - 1)),
      C2On (fun x => f x y z) (nth gx 0) (nth gx (gx.length - 1)) Mx)
    (HY : ∀ x ∈ Set.Icc (nth gx 0) (nth gx (gx.length - 1)), ∀ z ∈ Set.Icc (nth gz 0) (nth gz (gz.length - 1)),
      C2On (fun y => f x y z) (nth gy 0) (nth gy (gy.length - 1)) My)
    (HZ : ∀ x ∈ Set.Icc (nth gx 0) (nth gx (gx.length - 1)), ∀ y ∈ Set.Icc (nth gy 0) (nth gy (gy.length - 1)),
      C2On (fun z => f x y z) (nth gz 0) (nth gz (gz.length - 1)) Mz)
    (x y z : ℝ)
    (hx0 : nth gx 0 ≤ x) (hx1 : x ≤ nth gx (gx.length - 1))
    (hy0 : nth gy 0 ≤ y) (hy1 : y ≤ nth gy (gy.length - 1))
    (hz0 : nth gz 0 ≤ z) (hz1 : z ≤ nth gz (gz.length - 1)) :
    |interp3 gx gy gz (fun i j k => f (nth gx i) (nth gy j) (nth gz k)) x y z - f x y z|
      ≤ (hx ^ 2 * Mx + hy ^ 2 * My + hz ^ 2 * Mz) / 8 := by
  have ax := asc_of_pairwise hgx
  have ay := asc_of_pairwise hgy
  have az := asc_of_pairwise hgz
  obtain ⟨i, tx, hpx, hi, ex, htx, _⟩ := axis_data hgx hnx x
  obtain ⟨j, ty, hpy, hj, ey, hty, _⟩ := axis_data hgy hny y
  obtain ⟨k, tz, hpz, hk, ez, htz, _⟩ := axis_data hgz hnz z
  obtain ⟨tx0, tx1⟩ := htx hx0 hx1
  obtain ⟨ty0, ty1⟩ := hty hy0 hy1
  obtain ⟨tz0, tz1⟩ := htz hz0 hz1
  rw [interp3_eq_triCell f hpx hpy hpz]
  -- the cell and its position in the box of the grid
  have cx : nth gx i < nth gx (i + 1) := ax _ _ (Nat.lt_succ_self i) hi
  have cy : nth gy j < nth gy (j + 1) := ay _ _ (Nat.lt_succ_self j) hj
  have cz : nth gz k < nth gz (k + 1) := az _ _ (Nat.lt_succ_self k) hk
  have bx0 : nth gx 0 ≤ nth gx i := ax.le (Nat.zero_le _) (by omega)
  have bx1 : nth gx (i + 1) ≤ nth gx (gx.length - 1) := ax.le (by omega) (by omega)
  have by0 : nth gy 0 ≤ nth gy j := ay.le (Nat.zero_le _) (by omega)
  have by1 : nth gy (j + 1) ≤ nth gy (gy.length - 1) := ay.le (by omega) (by omega)
  have bz0 : nth gz 0 ≤ nth gz k := az.le (Nat.zero_le _) (by omega)
  have bz1 : nth gz (k + 1) ≤ nth gz (gz.length - 1) := az.le (by omega) (by omega)
  have key := trilinear_cell_error f cx cy cz
    (fun y' hy' z' hz' => (HX y' ⟨le_trans by0 hy'.1, le_trans hy'.2 by1⟩ z' ⟨le_trans bz0 hz'.1, le_trans hz'.2 bz1⟩).mono bx0 bx1)
    (fun x' hx' z' hz' => (HY x' ⟨le_trans bx0 hx'.1, le_trans hx'.2 bx1⟩ z' ⟨le_trans bz0 hz'.1, le_trans hz'.2 bz1⟩).mono by0 by1)
    (fun x' hx' y' hy' => (HZ x' ⟨le_trans bx0 hx'.1, le_trans hx'.2 bx1⟩ y' ⟨le_trans by0 hy'.1, le_trans hy'.2 by1⟩).mono bz0 bz1)
    tx ty tz tx0 tx1 ty0 ty1 tz0 tz1
  rw [← ex, ← ey, ← ez] at key
  refine le_trans key ?_
  -- widths and non-negativity of the bounds
  have hMx : 0 ≤ Mx := ((HX (nth gy j) ⟨by0, le_trans (le_of_lt cy) by1⟩ (nth gz k) ⟨bz0, le_trans (le_of_lt cz) bz1⟩).mono bx0 bx1).nonneg cx
  have hMy : 0 ≤ My := ((HY (nth gx i) ⟨bx0, le_trans (le_of_lt cx) bx1⟩ (nth gz k) ⟨bz0, le_trans (le_of_lt cz) bz1⟩).mono by0 by1).nonneg cy
  have hMz : 0 ≤ Mz := ((HZ (nth gx i) ⟨bx0, le_trans (le_of_lt cx) bx1⟩ (nth gy j) ⟨by0, le_trans (le_of_lt cy) by1⟩).mono bz0 bz1).nonneg cz
  have sx : (nth gx (i + 1) - nth gx i) ^ 2 ≤ hx ^ 2 := pow_le_pow_left₀ (by linarith) (hwx i hi) 2
  have sy : (nth gy (j + 1) - nth gy j) ^ 2 ≤ hy ^ 2 := pow_le_pow_left₀ (by linarith) (hwy j hj) 2
  have sz : (nth gz (k + 1) - nth gz k) ^ 2 ≤ hz ^ 2 := pow_le_pow_left₀ (by linarith) (hwz k hk) 2
  have px := mul_le_mul_of_nonneg_right sx hMx
  have py := mul_le_mul_of_nonneg_right sy hMy
  have pz := mul_le_mul_of_nonneg_right sz hMz
  linarith

/-- **local version**: regularity is asked only on the closed cells that contain the
target (the cell the search selects is one of them); the bound uses the widths of that
cell.  Fields that are singular elsewhere in the grid (e.g. spin-weighted harmonics on the
polar axis) are covered at all targets whose cells avoid the singularity. -/
theorem interp3_error_local (gx gy gz : List ℝ)
    (hgx : gx.Pairwise (· < ·)) (hgy : gy.Pairwise (· < ·)) (hgz : gz.Pairwise (· < ·))
    (hnx : 2 ≤ gx.length) (hny : 2 ≤ gy.length) (hnz : 2 ≤ gz.length)
    (f : ℝ → ℝ → ℝ → ℝ) {Mx My Mz : ℝ} (x y z : ℝ)
    (hx0 : nth gx 0 ≤ x) (hx1 : x ≤ nth gx (gx.length - 1))
    (hy0 : nth gy 0 ≤ y) (hy1 : y ≤ nth gy (gy.length - 1))
    (hz0 : nth gz 0 ≤ z) (hz1 : z ≤ nth gz (gz.length - 1))
    (H : ∀ i j k, i + 1 < gx.length → j + 1 < gy.length → k + 1 < gz.length →
      nth gx i ≤ x → x ≤ nth gx (i + 1) → nth gy j ≤ y → y ≤ nth gy (j + 1) →
      nth gz k ≤ z → z ≤ nth gz (k + 1) →
      (∀ y' ∈ Set.Icc (nth gy j) (nth gy (j + 1)), ∀ z' ∈ Set.Icc (nth gz k) (nth gz (k + 1)),
          C2On (fun x' => f x' y' z') (nth gx i) (nth gx (i + 1)) Mx)
      ∧ (∀ x' ∈ Set.Icc (nth gx i) (nth gx (i + 1)), ∀ z' ∈ Set.Icc (nth gz k) (nth gz (k + 1)),
          C2On (fun y' => f x' y' z') (nth gy j) (nth gy (j + 1)) My)
      ∧ (∀ x' ∈ Set.Icc (nth gx i) (nth gx (i + 1)), ∀ y' ∈ Set.Icc (nth gy j) (nth gy (j + 1)),
          C2On (fun z' => f x' y' z') (nth gz k) (nth gz (k + 1)) Mz)) :
    ∃ i j k, (i + 1 < gx.length ∧ j + 1 < gy.length ∧ k + 1 < gz.length)
      ∧ (nth gx i ≤ x ∧ x ≤ nth gx (i + 1) ∧ nth gy j ≤ y ∧ y ≤ nth gy (j + 1) ∧ nth gz k ≤ z ∧ z ≤ nth gz (k + 1))
      ∧ |interp3 gx gy gz (fun i j k => f (nth gx i) (nth gy j) (nth gz k)) x y z - f x y z|
          ≤ ((nth gx (i + 1) - nth gx i) ^ 2 * Mx + (nth gy (j + 1) - nth gy j) ^ 2 * My
              + (nth gz (k + 1) - nth gz k) ^ 2 * Mz) / 8 := by
  have ax := asc_of_pairwise hgx
  have ay := asc_of_pairwise hgy
  have az := asc_of_pairwise hgz
  obtain ⟨i, tx, hpx, hi, ex, htx, _⟩ := axis_data hgx hnx x
  obtain ⟨j, ty, hpy, hj, ey, hty, _⟩ := axis_data hgy hny y
  obtain ⟨k, tz, hpz, hk, ez, htz, _⟩ := axis_data hgz hnz z
  obtain ⟨tx0, tx1⟩ := htx hx0 hx1
  obtain ⟨ty0, ty1⟩ := hty hy0 hy1
  obtain ⟨tz0, tz1⟩ := htz hz0 hz1
  have cx : nth gx i < nth gx (i + 1) := ax _ _ (Nat.lt_succ_self i) hi
  have cy : nth gy j < nth gy (j + 1) := ay _ _ (Nat.lt_succ_self j) hj
  have cz : nth gz k < nth gz (k + 1) := az _ _ (Nat.lt_succ_self k) hk
  have inx : nth gx i ≤ x ∧ x ≤ nth gx (i + 1) := by
    rw [ex]; constructor <;> nlinarith
  have iny : nth gy j ≤ y ∧ y ≤ nth gy (j + 1) := by
    rw [ey]; constructor <;> nlinarith
  have inz : nth gz k ≤ z ∧ z ≤ nth gz (k + 1) := by
    rw [ez]; constructor <;> nlinarith
  obtain ⟨HX, HY, HZ⟩ := H i j k hi hj hk inx.1 inx.2 iny.1 iny.2 inz.1 inz.2
  refine ⟨i, j, k, ⟨hi, hj, hk⟩, ⟨inx.1, inx.2, iny.1, iny.2, inz.1, inz.2⟩, ?_⟩
  rw [interp3_eq_triCell f hpx hpy hpz]
  have key := trilinear_cell_error f cx cy cz HX HY HZ tx ty tz tx0 tx1 ty0 ty1 tz0 tz1
  rw [← ex, ← ey, ← ez] at key
  exact key

/-! ### non-vacuity -/

/-- the real copy on the (cast) non-uniform 3 × 2 × 4 example grid of Lemmas/C20Interp.lean
returns the model's value `281/48` at the interior target `(3/4, 0, 13/4)`. -/
example : interp3 (castGrid InterpLemmas.Example.gx) (castGrid InterpLemmas.Example.gy) (castGrid InterpLemmas.Example.gz)
    (fun i j k => ((InterpLemmas.Example.v i j k : ℚ) : ℝ)) ((3 / 4 : ℚ) : ℝ) ((0 : ℚ) : ℝ) ((13 / 4 : ℚ) : ℝ)
      = ((281 / 48 : ℚ) : ℝ) := by
  rw [interp3_cast]
  congr 1
  decide +kernel

end AurelVerif.InterpR
