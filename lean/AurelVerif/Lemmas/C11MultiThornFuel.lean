/-
Lemmas/C11MultiThornFuel.lean — C11: the fuel of the multi-thorn loops is never exhausted.

`ckVars` / `gvVars` (Model/MultiThorn.lean) model `for vi, v in enumerate(var)` over a list that
GROWS while it is iterated (`var[vi] = mult_vars[0]; var += mult_vars[1:]`, reading.py) by an index
loop with fuel; they return `none` both when the Python code raises and when the fuel runs out.
Here the two reasons are kept apart (`ckVarsF` / `gvVarsF`: outer `none` = fuel exhausted,
`some none` = the code raised) and it is proven that with the fuel `fuelFor st rel` the fuel is
NEVER exhausted, under two hypotheses on the dataset names (`NamesOK`) that hold for every real
HDF5 file written by Cactus:

  H1  no variable name is a `THORN::var` name (Cactus variable names contain no "::");
  H2  dataset names are distinct (an HDF5 group has no two members with the same name).

The hypotheses are NEEDED: without H1 the real code loops forever.  Datasets `A::T1::V1` (thorn `A`,
variable `T1::V1`) and `T1::V1` (thorn `T1`, variable `V1`), request `T1::V1`: both datasets answer
(`variable == v` resp. `combined variable name == v`), the entry is rewritten to `A::T1::V1` and
`T1::V1` is appended again; every later visit of `T1::V1` does the same, the list grows for ever.

Proof: `L0` = length of the list at the start, `R` = number of relevant datasets.  Every entry at an
index `≥ L0` is a `THORN::var` name of a relevant dataset (`Inv`); visiting such an entry never
grows the list (H1: all candidates have that very `THORN::var` name; H2: two of them cannot agree on
(it, tl, rl, c), so `is_rest_same` is False and the code raises); visiting one of the first `L0`
entries grows the list by at most `R` (the candidate lists of distinct components are disjoint).  So
the list never has more than `L0 + L0 * R` entries and the loop makes at most that many + 1 steps.
-/
import AurelVerif.Lemmas.C11MultiThorn
namespace AurelVerif.MultiThornFuel
open AurelVerif.Chunks AurelVerif.Checkpoint AurelVerif.MultiThorn AurelVerif.MultiThornLemmas
set_option linter.unusedSimpArgs false
set_option linter.unusedVariables false

/-- H1: no variable name is a `THORN::var` name (Cactus variable names contain no "::");
    H2: dataset names are distinct (an HDF5 group has no two members with the same name) -/
def NamesOK {α : Type} (rel : List (DSet α)) : Prop :=
  (∀ d ∈ rel, ∀ e ∈ rel, d.var ≠ combined e) ∧
  rel.Pairwise (fun d e => ¬ (combined d = combined e ∧ d.it = e.it ∧ d.tl = e.tl ∧ d.rl = e.rl ∧ d.c = e.c))

/-! ### the instrumented loops -/

/-- `ckVars` with the two reasons for `none` kept apart: `none` = fuel exhausted, `some none` = the code raised -/
def ckVarsF {α : Type} (rel : List (DSet α)) (nochunks : Bool) (crange : List (Option Nat)) :
    Nat → Nat → St α → Option (Option (St α))
  | 0, _, _ => none
  | fuel + 1, vi, st =>
    match st.var[vi]? with
    | none => some (some st)
    | some v =>
      match ckChunks (rel.filter fun d => matchesVar d v) nochunks vi crange v st with
      | none => some none
      | some (_, st') => ckVarsF rel nochunks crange fuel (vi + 1) st'

/-- `gvVars` with the two reasons for `none` kept apart: `none` = fuel exhausted, `some none` = the code raised -/
def gvVarsF {α : Type} (pool : List (DSet α)) : Nat → Nat → St α → Option (Option (St α))
  | 0, _, _ => none
  | fuel + 1, vi, st =>
    match st.var[vi]? with
    | none => some (some st)
    | some v =>
      match pickKey (pool.filter fun d => matchesVar d v) pool vi v st with
      | none => some none
      | some (_, st') => gvVarsF pool fuel (vi + 1) st'

/-- a fuel-exhausted run and a raising run both give `none` -/
theorem ckVars_eq_join {α : Type} (rel : List (DSet α)) (nochunks : Bool) (crange : List (Option Nat)) :
    ∀ (fuel vi : Nat) (st : St α),
      ckVars rel nochunks crange fuel vi st = (ckVarsF rel nochunks crange fuel vi st).join := by
  intro fuel
  induction fuel with
  | zero => intro vi st; rfl
  | succ fuel ih =>
    intro vi st
    simp only [ckVars, ckVarsF]
    cases st.var[vi]? with
    | none => rfl
    | some v =>
      simp only
      cases ckChunks (rel.filter fun d => matchesVar d v) nochunks vi crange v st with
      | none => rfl
      | some p => exact ih _ _

theorem gvVars_eq_join {α : Type} (pool : List (DSet α)) :
    ∀ (fuel vi : Nat) (st : St α), gvVars pool fuel vi st = (gvVarsF pool fuel vi st).join := by
  intro fuel
  induction fuel with
  | zero => intro vi st; rfl
  | succ fuel ih =>
    intro vi st
    simp only [gvVars, gvVarsF]
    cases st.var[vi]? with
    | none => rfl
    | some v =>
      simp only
      cases pickKey (pool.filter fun d => matchesVar d v) pool vi v st with
      | none => rfl
      | some p => exact ih _ _

/-- more fuel never changes a run that ended -/
theorem ckVarsF_mono {α : Type} (rel : List (DSet α)) (nochunks : Bool) (crange : List (Option Nat)) (k : Nat) :
    ∀ (fuel vi : Nat) (st : St α) (r : Option (St α)),
      ckVarsF rel nochunks crange fuel vi st = some r → ckVarsF rel nochunks crange (fuel + k) vi st = some r := by
  intro fuel
  induction fuel with
  | zero => intro vi st r h; simp [ckVarsF] at h
  | succ fuel ih =>
    intro vi st r h
    rw [Nat.add_right_comm]
    simp only [ckVarsF] at h ⊢
    cases hv : st.var[vi]? with
    | none => rw [hv] at h; exact h
    | some v =>
      rw [hv] at h
      simp only at h ⊢
      cases hck : ckChunks (rel.filter fun d => matchesVar d v) nochunks vi crange v st with
      | none => rw [hck] at h; exact h
      | some p => rw [hck] at h; exact ih _ _ _ h

theorem gvVarsF_mono {α : Type} (pool : List (DSet α)) (k : Nat) :
    ∀ (fuel vi : Nat) (st : St α) (r : Option (St α)),
      gvVarsF pool fuel vi st = some r → gvVarsF pool (fuel + k) vi st = some r := by
  intro fuel
  induction fuel with
  | zero => intro vi st r h; simp [gvVarsF] at h
  | succ fuel ih =>
    intro vi st r h
    rw [Nat.add_right_comm]
    simp only [gvVarsF] at h ⊢
    cases hv : st.var[vi]? with
    | none => rw [hv] at h; exact h
    | some v =>
      rw [hv] at h
      simp only at h ⊢
      cases hck : pickKey (pool.filter fun d => matchesVar d v) pool vi v st with
      | none => rw [hck] at h; exact h
      | some p => rw [hck] at h; exact ih _ _ _ h

/-! ### one `pickKey` -/

/-- what `pickKey` does to the variable list: nothing, or the rewrite -/
theorem pickKey_var {α : Type} (key pool : List (DSet α)) (vi : Nat) (v v' : String) (st st' : St α)
    (h : pickKey key pool vi v st = some (v', st')) :
    st'.var = st.var ∨
      ∃ d0 d1 rest, key = d0 :: d1 :: rest ∧ restSame (d0 :: d1 :: rest) = true ∧
        st'.var = setAt st.var vi (combined d0) ++ (d1 :: rest).map combined := by
  match key, h with
  | [], h => simp [pickKey] at h
  | [d], h =>
    simp only [pickKey, Option.some.injEq, Prod.mk.injEq] at h
    left; rw [← h.2]; rfl
  | d0 :: d1 :: rest, h =>
    right
    refine ⟨d0, d1, rest, rfl, ?_⟩
    simp only [pickKey] at h
    split at h
    · rename_i hs
      refine ⟨hs, ?_⟩
      split at h
      · simp only [Option.some.injEq, Prod.mk.injEq] at h
        rw [← h.2]; rfl
      · exact absurd h (by simp)
    · exact absurd h (by simp)

/-- a name that is the `THORN::var` name of a relevant dataset -/
def Good {α : Type} (rel : List (DSet α)) (w : String) : Prop := ∃ e ∈ rel, w = combined e

theorem pickKey_len {α : Type} (key pool : List (DSet α)) (vi : Nat) (v v' : String) (st st' : St α)
    (h : pickKey key pool vi v st = some (v', st')) : st'.var.length ≤ st.var.length + key.length := by
  rcases pickKey_var key pool vi v v' st st' h with h1 | ⟨d0, d1, rest, hk, _, h1⟩
  · rw [h1]; omega
  · rw [h1, hk]; simp [setAt] <;> omega

/-- every entry of the new list is new and good, or the old entry at that index -/
theorem pickKey_old {α : Type} (rel key pool : List (DSet α)) (hsub : ∀ d ∈ key, d ∈ rel) (vi : Nat) (v v' : String)
    (st st' : St α) (h : pickKey key pool vi v st = some (v', st')) :
    ∀ (i : Nat) (w : String), st'.var[i]? = some w → Good rel w ∨ st.var[i]? = some w := by
  intro i w hw
  rcases pickKey_var key pool vi v v' st st' h with h1 | ⟨d0, d1, rest, hk, _, h1⟩
  · right; rw [← h1]; exact hw
  · rw [h1, setAt, List.getElem?_append] at hw
    split at hw
    · rw [List.getElem?_set] at hw
      split at hw
      · split at hw
        · left
          refine ⟨d0, hsub d0 (by rw [hk]; simp), ?_⟩
          simpa using hw.symm
        · exact absurd hw (by simp)
      · right; exact hw
    · left
      have hm := List.mem_of_getElem? hw
      rcases List.mem_map.mp hm with ⟨e, he, hew⟩
      exact ⟨e, hsub e (by rw [hk]; exact List.mem_cons_of_mem _ he), hew.symm⟩

/-- candidates that all carry the same `THORN::var` name and are pairwise distinct datasets: no rewrite -/
theorem pickKey_same {α : Type} (key pool : List (DSet α)) (w : String)
    (hp : key.Pairwise (fun d e => ¬ (combined d = combined e ∧ d.it = e.it ∧ d.tl = e.tl ∧ d.rl = e.rl ∧ d.c = e.c)))
    (hw : ∀ d ∈ key, combined d = w) (vi : Nat) (v v' : String) (st st' : St α)
    (h : pickKey key pool vi v st = some (v', st')) : st'.var = st.var := by
  rcases pickKey_var key pool vi v v' st st' h with h1 | ⟨d0, d1, rest, hk, hs, _⟩
  · exact h1
  · exfalso
    subst hk
    have h01 := (List.pairwise_cons.mp hp).1 d1 (by simp)
    apply h01
    have e0 := hw d0 (by simp)
    have e1 := hw d1 (by simp)
    simp [restSame] at hs
    obtain ⟨⟨⟨⟨ha, hb⟩, hc⟩, hd⟩, _⟩ := hs
    exact ⟨e0.trans e1.symm, ha.symm, hb.symm, hc.symm, hd.symm⟩

/-! ### the chunk loop of one variable -/

theorem ckChunks_cons_some {α : Type} (varkeys : List (DSet α)) (nochunks : Bool) (vi : Nat) (c : Option Nat)
    (cs : List (Option Nat)) (v v' : String) (st st' : St α)
    (h : ckChunks varkeys nochunks vi (c :: cs) v st = some (v', st')) :
    ∃ v1 st1, pickKey (if nochunks then varkeys else varkeys.filter fun d => d.c == c) varkeys vi v st = some (v1, st1) ∧
      ckChunks varkeys nochunks vi cs v1 st1 = some (v', st') := by
  simp only [ckChunks] at h
  split at h
  · exact absurd h (by simp)
  · rename_i v1 st1 hp
    exact ⟨v1, st1, hp, h⟩

theorem ckChunks_old {α : Type} (rel varkeys : List (DSet α)) (hsub : ∀ d ∈ varkeys, d ∈ rel) (nochunks : Bool) (vi : Nat) :
    ∀ (cs : List (Option Nat)) (v v' : String) (st st' : St α),
      ckChunks varkeys nochunks vi cs v st = some (v', st') →
      ∀ (i : Nat) (w : String), st'.var[i]? = some w → Good rel w ∨ st.var[i]? = some w := by
  intro cs
  induction cs with
  | nil =>
    intro v v' st st' h i w hw
    simp only [ckChunks, Option.some.injEq, Prod.mk.injEq] at h
    right; rw [h.2]; exact hw
  | cons c cs ih =>
    intro v v' st st' h i w hw
    obtain ⟨v1, st1, hp, hr⟩ := ckChunks_cons_some varkeys nochunks vi c cs v v' st st' h
    rcases ih v1 v' st1 st' hr i w hw with hg | h1
    · exact Or.inl hg
    · refine pickKey_old rel _ varkeys ?_ vi v v1 st st1 hp i w h1
      intro d hd
      apply hsub
      split at hd
      · exact hd
      · exact (List.mem_filter.mp hd).1

theorem ckChunks_same {α : Type} (varkeys : List (DSet α)) (w : String)
    (hp : varkeys.Pairwise (fun d e => ¬ (combined d = combined e ∧ d.it = e.it ∧ d.tl = e.tl ∧ d.rl = e.rl ∧ d.c = e.c)))
    (hw : ∀ d ∈ varkeys, combined d = w) (nochunks : Bool) (vi : Nat) :
    ∀ (cs : List (Option Nat)) (v v' : String) (st st' : St α),
      ckChunks varkeys nochunks vi cs v st = some (v', st') → st'.var = st.var := by
  intro cs
  induction cs with
  | nil =>
    intro v v' st st' h
    simp only [ckChunks, Option.some.injEq, Prod.mk.injEq] at h
    rw [h.2]
  | cons c cs ih =>
    intro v v' st st' h
    obtain ⟨v1, st1, hpk, hr⟩ := ckChunks_cons_some varkeys nochunks vi c cs v v' st st' h
    rw [ih v1 v' st1 st' hr]
    refine pickKey_same _ varkeys w ?_ ?_ vi v v1 st st1 hpk
    · split
      · exact hp
      · exact hp.filter _
    · intro d hd
      apply hw
      split at hd
      · exact hd
      · exact (List.mem_filter.mp hd).1

/-- the candidate lists of distinct components are disjoint -/
theorem countP_c_add {α : Type} (c : Option Nat) (cs : List (Option Nat)) (hc : c ∉ cs) (l : List (DSet α)) :
    l.countP (fun d => d.c == c) + l.countP (fun d => cs.contains d.c)
      ≤ l.countP (fun d => (c :: cs).contains d.c) := by
  induction l with
  | nil => simp
  | cons d l ih =>
    simp only [List.contains_cons] at ih
    cases h1 : (d.c == c) <;> cases h2 : cs.contains d.c
    · simp only [List.countP_cons, List.contains_cons, h1, h2, Bool.or_false, Bool.or_true, Bool.true_or,
        Bool.false_or, if_true, Bool.false_eq_true, if_false]
      omega
    · simp only [List.countP_cons, List.contains_cons, h1, h2, Bool.or_false, Bool.or_true, Bool.true_or,
        Bool.false_or, if_true, Bool.false_eq_true, if_false]
      omega
    · simp only [List.countP_cons, List.contains_cons, h1, h2, Bool.or_false, Bool.or_true, Bool.true_or,
        Bool.false_or, if_true, Bool.false_eq_true, if_false]
      omega
    · exfalso
      have e1 : d.c = c := by simpa using h1
      rw [e1] at h2
      exact hc (by simpa using h2)

theorem ckChunks_len_chunks {α : Type} (varkeys : List (DSet α)) (vi : Nat) :
    ∀ (cs : List (Option Nat)), cs.Nodup → ∀ (v v' : String) (st st' : St α),
      ckChunks varkeys false vi cs v st = some (v', st') →
      st'.var.length ≤ st.var.length + varkeys.countP (fun d => cs.contains d.c) := by
  intro cs
  induction cs with
  | nil =>
    intro _ v v' st st' h
    simp only [ckChunks, Option.some.injEq, Prod.mk.injEq] at h
    rw [h.2]; omega
  | cons c cs ih =>
    intro hnd v v' st st' h
    obtain ⟨v1, st1, hpk, hr⟩ := ckChunks_cons_some varkeys false vi c cs v v' st st' h
    have hnd' := List.nodup_cons.mp hnd
    have h1 := ih hnd'.2 v1 v' st1 st' hr
    have h2 := pickKey_len _ varkeys vi v v1 st st1 hpk
    simp only [Bool.false_eq_true, if_false] at h2
    rw [← List.countP_eq_length_filter] at h2
    have h3 := countP_c_add c cs hnd'.1 varkeys
    omega

/-- one variable: the list grows by at most the number of candidates -/
theorem ckChunks_len {α : Type} (varkeys : List (DSet α)) (nochunks : Bool) (vi : Nat) (cs : List (Option Nat))
    (hnd : cs.Nodup) (hno : nochunks = true → cs.length ≤ 1) (v v' : String) (st st' : St α)
    (h : ckChunks varkeys nochunks vi cs v st = some (v', st')) :
    st'.var.length ≤ st.var.length + varkeys.length := by
  cases nochunks with
  | false =>
    have h1 := ckChunks_len_chunks varkeys vi cs hnd v v' st st' h
    have h2 : varkeys.countP (fun d => cs.contains d.c) ≤ varkeys.length := List.countP_le_length
    omega
  | true =>
    have hl := hno rfl
    match cs, hl, h with
    | [], _, h =>
      simp only [ckChunks, Option.some.injEq, Prod.mk.injEq] at h
      rw [h.2]; omega
    | [c], _, h =>
      rw [ckChunks_one] at h
      have := pickKey_len _ varkeys vi v v' st st' h
      simpa using this
    | _ :: _ :: _, hl, _ => simp at hl

/-! ### the invariant and the names -/

/-- every entry at an index `≥ L0` is the `THORN::var` name of a relevant dataset -/
def Inv {α : Type} (rel : List (DSet α)) (L0 : Nat) (st : St α) : Prop :=
  ∀ (i : Nat) (w : String), st.var[i]? = some w → L0 ≤ i → Good rel w

/-- H1: a `THORN::var` name is only answered by datasets with that `THORN::var` name -/
theorem matches_good {α : Type} (rel : List (DSet α)) (hn : NamesOK rel) (w : String) (hg : Good rel w) :
    ∀ d ∈ rel.filter (fun d => matchesVar d w), combined d = w := by
  intro d hd
  obtain ⟨hd1, hd2⟩ := List.mem_filter.mp hd
  obtain ⟨e, he, hwe⟩ := hg
  simp only [matchesVar, Bool.or_eq_true, beq_iff_eq] at hd2
  rcases hd2 with h | h
  · exact absurd (h.trans hwe) (hn.1 d hd1 e he)
  · exact h

theorem fuel_arith (L0 R : Nat) : L0 + (L0 - 0) * R ≤ ((L0 + R + 1) * (R + 1) - 1) + 0 := by
  have : (L0 + R + 1) * (R + 1) = L0 * R + L0 + (R * R + R) + (R + 1) := by
    simp only [Nat.add_mul, Nat.mul_add, Nat.mul_one, Nat.one_mul]; omega
  rw [this, Nat.sub_zero]
  omega

theorem step_arith (L0 R vi a a' fuel : Nat) (hlt : vi < L0) (ha : a' ≤ a + R)
    (h : a + (L0 - vi) * R ≤ fuel + 1 + vi) : a' + (L0 - (vi + 1)) * R ≤ fuel + (vi + 1) := by
  have : (L0 - vi) * R = (L0 - (vi + 1)) * R + R := by
    have : L0 - vi = (L0 - (vi + 1)) + 1 := by omega
    rw [this, Nat.add_mul, Nat.one_mul]
  omega

theorem step_arith' (L0 R vi a fuel : Nat) (hge : L0 ≤ vi)
    (h : a + (L0 - vi) * R ≤ fuel + 1 + vi) : a + (L0 - (vi + 1)) * R ≤ fuel + (vi + 1) := by
  have h1 : L0 - vi = 0 := by omega
  have h2 : L0 - (vi + 1) = 0 := by omega
  rw [h1] at h; rw [h2]
  omega

/-! ### `read_ET_checkpoints` -/

theorem ckVarsF_aux {α : Type} (rel : List (DSet α)) (nochunks : Bool) (crange : List (Option Nat))
    (hn : NamesOK rel) (hcr : crange.Nodup) (hno : nochunks = true → crange.length ≤ 1) (L0 : Nat) :
    ∀ (fuel vi : Nat) (st : St α), Inv rel L0 st →
      st.var.length + (L0 - vi) * rel.length ≤ fuel + vi →
      ckVarsF rel nochunks crange (fuel + 1) vi st ≠ none := by
  intro fuel
  induction fuel with
  | zero =>
    intro vi st _ hb
    have : st.var[vi]? = none := List.getElem?_eq_none (by omega)
    simp [ckVarsF, this]
  | succ fuel ih =>
    intro vi st hinv hb
    rw [ckVarsF]
    cases hv : st.var[vi]? with
    | none => simp
    | some v =>
      simp only
      cases hck : ckChunks (rel.filter fun d => matchesVar d v) nochunks vi crange v st with
      | none => simp
      | some p =>
        obtain ⟨v', st'⟩ := p
        simp only
        have hsub : ∀ d ∈ rel.filter (fun d => matchesVar d v), d ∈ rel := fun d hd => (List.mem_filter.mp hd).1
        have hold := ckChunks_old rel _ hsub nochunks vi crange v v' st st' hck
        apply ih
        · intro i w hw hi
          rcases hold i w hw with hg | h1
          · exact hg
          · exact hinv i w h1 hi
        · by_cases hlt : vi < L0
          · have hlen := ckChunks_len _ nochunks vi crange hcr hno v v' st st' hck
            have hle : (rel.filter fun d => matchesVar d v).length ≤ rel.length := List.length_filter_le _ _
            exact step_arith L0 rel.length vi st.var.length st'.var.length fuel hlt (by omega) hb
          · have hg : Good rel v := hinv vi v hv (by omega)
            have hsame := ckChunks_same (rel.filter fun d => matchesVar d v) v (hn.2.filter _)
              (matches_good rel hn v hg) nochunks vi crange v v' st st' hck
            rw [hsame]
            exact step_arith' L0 rel.length vi st.var.length fuel (by omega) hb

/-- **the fuel of `read_ET_checkpoints`' variable loop is never exhausted** -/
theorem ckVars_fuel_sufficient {α : Type} (rel : List (DSet α)) (nochunks : Bool) (crange : List (Option Nat))
    (hn : NamesOK rel) (hcr : crange.Nodup) (hno : nochunks = true → crange.length ≤ 1) (st : St α) :
    ckVarsF rel nochunks crange (fuelFor st rel) 0 st ≠ none := by
  have hpos : fuelFor st rel = (fuelFor st rel - 1) + 1 := by
    unfold fuelFor
    have : 1 ≤ (st.var.length + rel.length + 1) * (rel.length + 1) := Nat.mul_pos (by omega) (by omega)
    omega
  rw [hpos]
  apply ckVarsF_aux rel nochunks crange hn hcr hno st.var.length
  · intro i w hw hi
    have : st.var[i]? = none := List.getElem?_eq_none hi
    rw [this] at hw; exact absurd hw (by simp)
  · exact fuel_arith st.var.length rel.length

/-! ### `read_ET_group_or_var` -/

theorem gvVarsF_aux {α : Type} (pool : List (DSet α)) (hn : NamesOK pool) (L0 : Nat) :
    ∀ (fuel vi : Nat) (st : St α), Inv pool L0 st →
      st.var.length + (L0 - vi) * pool.length ≤ fuel + vi →
      gvVarsF pool (fuel + 1) vi st ≠ none := by
  intro fuel
  induction fuel with
  | zero =>
    intro vi st _ hb
    have : st.var[vi]? = none := List.getElem?_eq_none (by omega)
    simp [gvVarsF, this]
  | succ fuel ih =>
    intro vi st hinv hb
    rw [gvVarsF]
    cases hv : st.var[vi]? with
    | none => simp
    | some v =>
      simp only
      cases hck : pickKey (pool.filter fun d => matchesVar d v) pool vi v st with
      | none => simp
      | some p =>
        obtain ⟨v', st'⟩ := p
        simp only
        have hsub : ∀ d ∈ pool.filter (fun d => matchesVar d v), d ∈ pool := fun d hd => (List.mem_filter.mp hd).1
        have hold := pickKey_old pool _ pool hsub vi v v' st st' hck
        apply ih
        · intro i w hw hi
          rcases hold i w hw with hg | h1
          · exact hg
          · exact hinv i w h1 hi
        · by_cases hlt : vi < L0
          · have hlen := pickKey_len _ pool vi v v' st st' hck
            have hle : (pool.filter fun d => matchesVar d v).length ≤ pool.length := List.length_filter_le _ _
            exact step_arith L0 pool.length vi st.var.length st'.var.length fuel hlt (by omega) hb
          · have hg : Good pool v := hinv vi v hv (by omega)
            have hsame := pickKey_same (pool.filter fun d => matchesVar d v) pool v (hn.2.filter _)
              (matches_good pool hn v hg) vi v v' st st' hck
            rw [hsame]
            exact step_arith' L0 pool.length vi st.var.length fuel (by omega) hb

/-- **the fuel of `read_ET_group_or_var`'s variable loop is never exhausted** -/
theorem gvVars_fuel_sufficient {α : Type} (pool : List (DSet α)) (hn : NamesOK pool) (st : St α) :
    gvVarsF pool (fuelFor st pool) 0 st ≠ none := by
  have hpos : fuelFor st pool = (fuelFor st pool - 1) + 1 := by
    unfold fuelFor
    have : 1 ≤ (st.var.length + pool.length + 1) * (pool.length + 1) := Nat.mul_pos (by omega) (by omega)
    omega
  rw [hpos]
  apply gvVarsF_aux pool hn st.var.length
  · intro i w hw hi
    have : st.var[i]? = none := List.getElem?_eq_none hi
    rw [this] at hw; exact absurd hw (by simp)
  · exact fuel_arith st.var.length pool.length

/-! ### consequences -/

/-- with `fuelFor`, `none` from `ckVars` means: the code raised -/
theorem ckVars_none_iff_raises {α : Type} (rel : List (DSet α)) (nochunks : Bool) (crange : List (Option Nat))
    (hn : NamesOK rel) (hcr : crange.Nodup) (hno : nochunks = true → crange.length ≤ 1) (st : St α) :
    ckVars rel nochunks crange (fuelFor st rel) 0 st = none ↔
      ckVarsF rel nochunks crange (fuelFor st rel) 0 st = some none := by
  rw [ckVars_eq_join]
  have h := ckVars_fuel_sufficient rel nochunks crange hn hcr hno st
  cases hr : ckVarsF rel nochunks crange (fuelFor st rel) 0 st with
  | none => exact absurd hr h
  | some r => cases r <;> simp [Option.join]

theorem gvVars_none_iff_raises {α : Type} (pool : List (DSet α)) (hn : NamesOK pool) (st : St α) :
    gvVars pool (fuelFor st pool) 0 st = none ↔ gvVarsF pool (fuelFor st pool) 0 st = some none := by
  rw [gvVars_eq_join]
  have h := gvVars_fuel_sufficient pool hn st
  cases hr : gvVarsF pool (fuelFor st pool) 0 st with
  | none => exact absurd hr h
  | some r => cases r <;> simp [Option.join]

/-- more fuel never changes the result -/
theorem ckVars_more_fuel {α : Type} (rel : List (DSet α)) (nochunks : Bool) (crange : List (Option Nat))
    (hn : NamesOK rel) (hcr : crange.Nodup) (hno : nochunks = true → crange.length ≤ 1) (st : St α) (k : Nat) :
    ckVars rel nochunks crange (fuelFor st rel + k) 0 st = ckVars rel nochunks crange (fuelFor st rel) 0 st := by
  rw [ckVars_eq_join, ckVars_eq_join]
  have h := ckVars_fuel_sufficient rel nochunks crange hn hcr hno st
  cases hr : ckVarsF rel nochunks crange (fuelFor st rel) 0 st with
  | none => exact absurd hr h
  | some r => rw [ckVarsF_mono rel nochunks crange k _ _ _ _ hr]

theorem gvVars_more_fuel {α : Type} (pool : List (DSet α)) (hn : NamesOK pool) (st : St α) (k : Nat) :
    gvVars pool (fuelFor st pool + k) 0 st = gvVars pool (fuelFor st pool) 0 st := by
  rw [gvVars_eq_join, gvVars_eq_join]
  have h := gvVars_fuel_sufficient pool hn st
  cases hr : gvVarsF pool (fuelFor st pool) 0 st with
  | none => exact absurd hr h
  | some r => rw [gvVarsF_mono pool k _ _ _ _ hr]

/-! ### one checkpoint file -/

/-- the chunk range of a file has no repetition, and one entry when there are no chunks -/
theorem chunkRange_shape {α : Type} (cmax : CMax) (f : CFile α) (rel : List (DSet α)) (nochunks : Bool)
    (crange : List (Option Nat)) (h : chunkRange cmax f rel = some (nochunks, crange)) :
    crange.Nodup ∧ (nochunks = true → crange.length ≤ 1) := by
  cases cmax with
  | num n =>
    simp only [chunkRange, Option.some.injEq, Prod.mk.injEq] at h
    rw [← h.1, ← h.2]; simp
  | inFile =>
    cases rel with
    | nil => simp [chunkRange] at h
    | cons d0 ds =>
      simp only [chunkRange] at h
      split at h
      · cases hm : mapOpt (fun d : DSet α => d.c) (d0 :: ds) with
        | none => rw [hm] at h; simp at h
        | some cs =>
          rw [hm] at h
          simp only [Option.map_some, Option.some.injEq, Prod.mk.injEq] at h
          rw [← h.1, ← h.2]
          refine ⟨?_, by simp⟩
          rw [List.Nodup, List.pairwise_map]
          exact List.Pairwise.imp (fun hab => by simpa using hab) List.nodup_range
      · simp only [Option.some.injEq, Prod.mk.injEq] at h
        rw [← h.1, ← h.2]; simp

/-- **`ckFile`: the fuel is never exhausted** -/
theorem ckFile_fuel_sufficient {α : Type} (cmax : CMax) (f : CFile α) (iit rl : Nat) (st : St α)
    (hn : NamesOK (relevant f iit rl)) (nochunks : Bool) (crange : List (Option Nat))
    (h : chunkRange cmax f (relevant f iit rl) = some (nochunks, crange)) :
    ckVarsF (relevant f iit rl) nochunks crange (fuelFor st (relevant f iit rl)) 0 st ≠ none := by
  obtain ⟨h1, h2⟩ := chunkRange_shape cmax f _ nochunks crange h
  exact ckVars_fuel_sufficient _ nochunks crange hn h1 h2 st

/-- `ckFile` returns `none` only when the Python code raises -/
theorem ckFile_none_iff_raises {α : Type} (cmax : CMax) (f : CFile α) (iit rl : Nat) (st : St α)
    (hn : NamesOK (relevant f iit rl)) :
    ckFile cmax iit rl st f = none ↔
      (chunkRange cmax f (relevant f iit rl) = none ∨
        ∃ nochunks crange, chunkRange cmax f (relevant f iit rl) = some (nochunks, crange) ∧
          ckVarsF (relevant f iit rl) nochunks crange (fuelFor st (relevant f iit rl)) 0 st = some none) := by
  cases hc : chunkRange cmax f (relevant f iit rl) with
  | none => simp [ckFile, hc]
  | some p =>
    obtain ⟨nochunks, crange⟩ := p
    obtain ⟨h1, h2⟩ := chunkRange_shape cmax f _ nochunks crange hc
    simp only [ckFile, hc]
    rw [ckVars_none_iff_raises _ nochunks crange hn h1 h2 st]
    constructor
    · intro h; exact Or.inr ⟨nochunks, crange, rfl, h⟩
    · intro h
      rcases h with h | ⟨n, c, he, h⟩
      · exact absurd h (by simp)
      · simp only [Option.some.injEq, Prod.mk.injEq] at he
        rw [he.1, he.2]; exact h

/-! ### non-vacuity -/

/-- `ML_ADMCONSTRAINTS::H` and `ML_BSSN::H` in one file -/
def dA : DSet Nat := ⟨"ML_ADMCONSTRAINTS", "H", 0, 0, some 0, none, (0, 0, 0), (0, 0, 0), 0, [[[1]]]⟩
def dB : DSet Nat := ⟨"ML_BSSN", "H", 0, 0, some 0, none, (0, 0, 0), (0, 0, 0), 0, [[[2]]]⟩

example : NamesOK [dA, dB] := by
  simp [NamesOK, combined, dA, dB]

/-- the rewrite: `H` becomes `ML_ADMCONSTRAINTS::H`, `ML_BSSN::H` is appended and visited; the run ends -/
example : (ckVarsF [dA, dB] true [some 0] (fuelFor ⟨["H"], [], none⟩ [dA, dB]) 0 ⟨["H"], [], none⟩).map (·.map (·.var))
    = some (some ["ML_ADMCONSTRAINTS::H", "ML_BSSN::H"]) := by decide

/-- too little fuel: outer `none` -/
example : (ckVarsF [dA, dB] true [some 0] 2 0 ⟨["H"], [], none⟩).map (·.map (·.var)) = none := by decide

/-- the code raises (no dataset of component 0): `some none` -/
example : (ckVarsF [dA, dB] false [some 0] 9 0 ⟨["H"], [], none⟩).map (·.map (·.var)) = some none := by decide

example : (gvVarsF [dA, dB] (fuelFor ⟨["H"], [], none⟩ [dA, dB]) 0 ⟨["H"], [], none⟩).map (·.map (·.var))
    = some (some ["ML_ADMCONSTRAINTS::H", "ML_BSSN::H"]) := by decide

/-! ### H1 is needed

thorn `A` with a variable called `T1::V1`, thorn `T1` with a variable `V1`; request `T1::V1`: every visit of
`T1::V1` rewrites it to `A::T1::V1` and appends `T1::V1` again — the Python loop never ends, the model runs
out of fuel (whatever the fuel). -/

def dX : DSet Nat := ⟨"A", "T1::V1", 0, 0, some 0, none, (0, 0, 0), (0, 0, 0), 0, [[[1]]]⟩
def dY : DSet Nat := ⟨"T1", "V1", 0, 0, some 0, none, (0, 0, 0), (0, 0, 0), 0, [[[2]]]⟩

example : ¬ NamesOK [dX, dY] := by
  simp [NamesOK, combined, dX, dY]

example : (ckVarsF [dX, dY] true [some 0] (fuelFor ⟨["T1::V1"], [], none⟩ [dX, dY]) 0 ⟨["T1::V1"], [], none⟩).isNone
    = true := by decide

example : (ckVarsF [dX, dY] true [some 0] 40 0 ⟨["T1::V1"], [], none⟩).isNone = true := by decide

end AurelVerif.MultiThornFuel
