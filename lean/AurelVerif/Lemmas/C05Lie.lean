/-
Lemmas/C05Lie.lean — proofs for property C05, part 2: Lie derivative along the
shift for all nine index patterns with and without density weight (T5),
Levi-Civita symbols / tensors and the curl (T4b).
Layer A: exact, every field `K`, every operator `e.D`.
-/
import AurelVerif.Lemmas.C05Covd

set_option linter.unusedSimpArgs false
set_option linter.unusedVariables false
set_option linter.unusedSectionVars false

namespace AurelVerif.C05L
open AurelVerif.Gen.Core AurelVerif.Tensor AurelVerif.CoreTac AurelVerif.C08 AurelVerif.Spec.Covd

variable {K : Type} [Field K]

/-- `∂_c β^a` as the code computes it: `dβ c a = D c (β^a)`. -/
def dbeta (e : Env K) (c a : Fin 3) : K := e.D c (e.betaup3 a)

/-! literal-index unfolding of the 4-D embedding of the shift (Spec) -/
theorem β4_0 (β : Fin 3 → K) : β4 β 0 = 0 := rfl
theorem β4_1 (β : Fin 3 → K) : β4 β 1 = β 0 := rfl
theorem β4_2 (β : Fin 3 → K) : β4 β 2 = β 1 := rfl
theorem β4_3 (β : Fin 3 → K) : β4 β 3 = β 2 := rfl
theorem pd4s_0 (D : Fin 3 → K → K) (f : Fin 4 → K) (a : Fin 4) : pd4s D f 0 a = 0 := rfl
theorem pd4s_1 (D : Fin 3 → K → K) (f : Fin 4 → K) (a : Fin 4) : pd4s D f 1 a = D 0 (f a) := rfl
theorem pd4s_2 (D : Fin 3 → K → K) (f : Fin 4 → K) (a : Fin 4) : pd4s D f 2 a = D 1 (f a) := rfl
theorem pd4s_3 (D : Fin 3 → K → K) (f : Fin 4 → K) (a : Fin 4) : pd4s D f 3 a = D 2 (f a) := rfl
theorem dβ4_x0 (D : Fin 3 → K → K) (β dtβ : Fin 3 → K) (μ : Fin 4) : dβ4 D β dtβ μ 0 = 0 := rfl
theorem dβ4_01 (D : Fin 3 → K → K) (β dtβ : Fin 3 → K) : dβ4 D β dtβ 0 1 = dtβ 0 := rfl
theorem dβ4_02 (D : Fin 3 → K → K) (β dtβ : Fin 3 → K) : dβ4 D β dtβ 0 2 = dtβ 1 := rfl
theorem dβ4_03 (D : Fin 3 → K → K) (β dtβ : Fin 3 → K) : dβ4 D β dtβ 0 3 = dtβ 2 := rfl
theorem dβ4_11 (D : Fin 3 → K → K) (β dtβ : Fin 3 → K) : dβ4 D β dtβ 1 1 = D 0 (β 0) := rfl
theorem dβ4_12 (D : Fin 3 → K → K) (β dtβ : Fin 3 → K) : dβ4 D β dtβ 1 2 = D 0 (β 1) := rfl
theorem dβ4_13 (D : Fin 3 → K → K) (β dtβ : Fin 3 → K) : dβ4 D β dtβ 1 3 = D 0 (β 2) := rfl
theorem dβ4_21 (D : Fin 3 → K → K) (β dtβ : Fin 3 → K) : dβ4 D β dtβ 2 1 = D 1 (β 0) := rfl
theorem dβ4_22 (D : Fin 3 → K → K) (β dtβ : Fin 3 → K) : dβ4 D β dtβ 2 2 = D 1 (β 1) := rfl
theorem dβ4_23 (D : Fin 3 → K → K) (β dtβ : Fin 3 → K) : dβ4 D β dtβ 2 3 = D 1 (β 2) := rfl
theorem dβ4_31 (D : Fin 3 → K → K) (β dtβ : Fin 3 → K) : dβ4 D β dtβ 3 1 = D 2 (β 0) := rfl
theorem dβ4_32 (D : Fin 3 → K → K) (β dtβ : Fin 3 → K) : dβ4 D β dtβ 3 2 = D 2 (β 1) := rfl
theorem dβ4_33 (D : Fin 3 → K → K) (β dtβ : Fin 3 → K) : dβ4 D β dtβ 3 3 = D 2 (β 2) := rfl

/-- unfold the Spec of the Lie derivative and of the embedded shift at literal indices. -/
macro "lie_unfold" : tactic =>
  `(tactic| simp only [core_unfold, lie0, lieU, lieD, lieUU, lieDD, lieUD, lieDU, divβ, dbeta, pd1, pd2,
      β4_0, β4_1, β4_2, β4_3, pd4s_0, pd4s_1, pd4s_2, pd4s_3, dβ4_x0, dβ4_01, dβ4_02, dβ4_03,
      dβ4_11, dβ4_12, dβ4_13, dβ4_21, dβ4_22, dβ4_23, dβ4_31, dβ4_32, dβ4_33,
      Fin.sum_univ_three, Fin.sum_univ_four])

/-! ### T5 Lie derivative along the shift -/

theorem Lie_beta_scalar_spec (e : Env K) (f : K) :
    Lie_beta_scalar e f = lie0 e.betaup3 (fun k => e.D k f) := by lie_unfold

theorem Lie_beta_w_scalar_spec (e : Env K) (f w : K) :
    Lie_beta_w_scalar e f w = lie0 e.betaup3 (fun k => e.D k f) + w * divβ (dbeta e) * f := by lie_unfold

theorem Lie_beta_s_u_spec (e : Env K) (f : Fin 3 → K) (a : Fin 3) :
    Lie_beta_s_u e f a = lieU e.betaup3 (dbeta e) (pd1 e.D f) f a := by
  revert a; cases3 <;> (lie_unfold; try ring)

theorem Lie_beta_w_s_u_spec (e : Env K) (f : Fin 3 → K) (w : K) (a : Fin 3) :
    Lie_beta_w_s_u e f w a = lieU e.betaup3 (dbeta e) (pd1 e.D f) f a + w * divβ (dbeta e) * f a := by
  revert a; cases3 <;> (lie_unfold; try ring)

theorem Lie_beta_s_d_spec (e : Env K) (f : Fin 3 → K) (a : Fin 3) :
    Lie_beta_s_d e f a = lieD e.betaup3 (dbeta e) (pd1 e.D f) f a := by
  revert a; cases3 <;> (lie_unfold; try ring)

theorem Lie_beta_w_s_d_spec (e : Env K) (f : Fin 3 → K) (w : K) (a : Fin 3) :
    Lie_beta_w_s_d e f w a = lieD e.betaup3 (dbeta e) (pd1 e.D f) f a + w * divβ (dbeta e) * f a := by
  revert a; cases3 <;> (lie_unfold; try ring)

/-- `'st_u'`: the 4-D formula `β^ν∂_νf^μ − f^ν∂_νβ^μ` with `β^μ = (0, β^i)`, `∂_tβ^i = dtbetaup3`. -/
theorem Lie_beta_st_u_spec (e : Env K) (f : Fin 4 → K) (a : Fin 4) :
    Lie_beta_st_u e f a
      = lieU (β4 e.betaup3) (dβ4 e.D e.betaup3 e.dtbetaup3) (pd4s e.D f) f a := by
  revert a; cases4 <;> (lie_unfold; try ring)

theorem Lie_beta_w_st_u_spec (e : Env K) (f : Fin 4 → K) (w : K) (a : Fin 4) :
    Lie_beta_w_st_u e f w a
      = lieU (β4 e.betaup3) (dβ4 e.D e.betaup3 e.dtbetaup3) (pd4s e.D f) f a
        + w * divβ (dβ4 e.D e.betaup3 e.dtbetaup3) * f a := by
  revert a; cases4 <;> (lie_unfold; try ring)

/-- `'st_d'`: `β^ν∂_νf_μ + f_ν∂_μβ^ν`. -/
theorem Lie_beta_st_d_spec (e : Env K) (f : Fin 4 → K) (a : Fin 4) :
    Lie_beta_st_d e f a
      = lieD (β4 e.betaup3) (dβ4 e.D e.betaup3 e.dtbetaup3) (pd4s e.D f) f a := by
  revert a; cases4 <;> (lie_unfold; try ring)

theorem Lie_beta_w_st_d_spec (e : Env K) (f : Fin 4 → K) (w : K) (a : Fin 4) :
    Lie_beta_w_st_d e f w a
      = lieD (β4 e.betaup3) (dβ4 e.D e.betaup3 e.dtbetaup3) (pd4s e.D f) f a
        + w * divβ (dβ4 e.D e.betaup3 e.dtbetaup3) * f a := by
  revert a; cases4 <;> (lie_unfold; try ring)

theorem Lie_beta_s_uu_spec (e : Env K) (f : Fin 3 → Fin 3 → K) (a b : Fin 3) :
    Lie_beta_s_uu e f a b = lieUU e.betaup3 (dbeta e) (pd2 e.D f) f a b := by
  revert a b; cases3 <;> cases3 <;> (lie_unfold; try ring)

theorem Lie_beta_w_s_uu_spec (e : Env K) (f : Fin 3 → Fin 3 → K) (w : K) (a b : Fin 3) :
    Lie_beta_w_s_uu e f w a b
      = lieUU e.betaup3 (dbeta e) (pd2 e.D f) f a b + w * divβ (dbeta e) * f a b := by
  revert a b; cases3 <;> cases3 <;> (lie_unfold; try ring)

theorem Lie_beta_s_ud_spec (e : Env K) (f : Fin 3 → Fin 3 → K) (a b : Fin 3) :
    Lie_beta_s_ud e f a b = lieUD e.betaup3 (dbeta e) (pd2 e.D f) f a b := by
  revert a b; cases3 <;> cases3 <;> (lie_unfold; try ring)

theorem Lie_beta_w_s_ud_spec (e : Env K) (f : Fin 3 → Fin 3 → K) (w : K) (a b : Fin 3) :
    Lie_beta_w_s_ud e f w a b
      = lieUD e.betaup3 (dbeta e) (pd2 e.D f) f a b + w * divβ (dbeta e) * f a b := by
  revert a b; cases3 <;> cases3 <;> (lie_unfold; try ring)

theorem Lie_beta_s_du_spec (e : Env K) (f : Fin 3 → Fin 3 → K) (a b : Fin 3) :
    Lie_beta_s_du e f a b = lieDU e.betaup3 (dbeta e) (pd2 e.D f) f a b := by
  revert a b; cases3 <;> cases3 <;> (lie_unfold; try ring)

theorem Lie_beta_w_s_du_spec (e : Env K) (f : Fin 3 → Fin 3 → K) (w : K) (a b : Fin 3) :
    Lie_beta_w_s_du e f w a b
      = lieDU e.betaup3 (dbeta e) (pd2 e.D f) f a b + w * divβ (dbeta e) * f a b := by
  revert a b; cases3 <;> cases3 <;> (lie_unfold; try ring)

theorem Lie_beta_s_dd_spec (e : Env K) (f : Fin 3 → Fin 3 → K) (a b : Fin 3) :
    Lie_beta_s_dd e f a b = lieDD e.betaup3 (dbeta e) (pd2 e.D f) f a b := by
  revert a b; cases3 <;> cases3 <;> (lie_unfold; try ring)

theorem Lie_beta_w_s_dd_spec (e : Env K) (f : Fin 3 → Fin 3 → K) (w : K) (a b : Fin 3) :
    Lie_beta_w_s_dd e f w a b
      = lieDD e.betaup3 (dbeta e) (pd2 e.D f) f a b + w * divβ (dbeta e) * f a b := by
  revert a b; cases3 <;> cases3 <;> (lie_unfold; try ring)

/-! ### T4b Levi-Civita -/

/-- 3-D symbol: totally antisymmetric, zero on repeated indices, `ε_{123} = 1` (all 27 entries). -/
theorem levicivita_symbol_down3_spec (e : Env K) :
    TotAntisymm3 (levicivita_symbol_down3 e) ∧ levicivita_symbol_down3 e 0 1 2 = 1
    ∧ (∀ a c, levicivita_symbol_down3 e a a c = 0 ∧ levicivita_symbol_down3 e a c a = 0
        ∧ levicivita_symbol_down3 e c a a = 0) := by
  refine ⟨?_, by simp only [core_unfold], ?_⟩
  · cases3 <;> cases3 <;> cases3 <;> (simp only [core_unfold, neg_neg, neg_zero]; exact ⟨trivial, trivial⟩)
  · cases3 <;> cases3 <;> (simp only [core_unfold]; exact ⟨trivial, trivial, trivial⟩)

/-- 4-D symbol: totally antisymmetric, zero on repeated adjacent indices, `ε_{0123} = 1` (all 256 entries). -/
theorem levicivita_symbol_down4_spec (e : Env K) :
    TotAntisymm4 (levicivita_symbol_down4 e) ∧ levicivita_symbol_down4 e 0 1 2 3 = 1
    ∧ (∀ a c d, levicivita_symbol_down4 e a a c d = 0 ∧ levicivita_symbol_down4 e c a a d = 0
        ∧ levicivita_symbol_down4 e c d a a = 0) := by
  refine ⟨?_, by simp only [core_unfold], ?_⟩
  · cases4 <;> cases4 <;> cases4 <;> cases4 <;>
      (simp only [core_unfold, neg_neg, neg_zero]; exact ⟨trivial, trivial, trivial⟩)
  · cases4 <;> cases4 <;> cases4 <;> (simp only [core_unfold]; exact ⟨trivial, trivial, trivial⟩)

/-- the Levi-Civita tensors are symbol × √(det γ), symbol × √(−det g). -/
theorem levicivita_down_spec (e : Env K) :
    (∀ a b c, levicivita_down3 e a b c = levicivita_symbol_down3 e a b c * e.sqrtF e.gammadet)
    ∧ (∀ a b c d, levicivita_down4 e a b c d = levicivita_symbol_down4 e a b c d * e.sqrtF (-e.gdet)) := by
  constructor
  · cases3 <;> cases3 <;> cases3 <;> (simp only [core_unfold, zero_mul, one_mul])
  · cases4 <;> cases4 <;> cases4 <;> cases4 <;> (simp only [core_unfold, zero_mul, one_mul])

/-! ### T4b curl -/

/-- spatial Levi-Civita with two indices up, as the code builds it from the 4-D tensor:
`ε^{ab}{}_c = g^{aμ} g^{bν} n^λ ε_{λμνc}` (spatial components `a+1, b+1, c+1`). -/
def LCuud3 (e : Env K) (a b c : Fin 3) : K :=
  ∑ μ : Fin 4, ∑ ν : Fin 4, ∑ l : Fin 4,
    e.gup4 a.succ μ * e.gup4 b.succ ν * e.nup4 l * levicivita_down4 e l μ ν c.succ

/-- un-symmetrised curl `X_{ab} = ε^{cd}{}_a D_c f_{bd}`. -/
def curlRaw (e : Env K) (f : Fin 3 → Fin 3 → K) (a b : Fin 3) : K :=
  ∑ c, ∑ d, LCuud3 e c d a * s_covd_dd e f c b d

end AurelVerif.C05L
