/-
Lemmas/C14FullRow.lean — row-level lemmas for the second split theorem of C14
(successive `over_time` calls that pass estimates in EVERY call, e.g. the full
estimates list each time; requested items that READ custom variables requested
before them).  Core Lean only.

In such a sequence the fresh `AurelCore` of a later call is handed, besides the
step's inputs `r`, variable columns AND estimate columns `k_e` computed by
earlier calls.  The feedback hypothesis (`FeedbackDep`) ranges over dictionaries
`r ++ x` whose extra entries are of these two kinds (`AllowedE`), and the
reference value of an item is its value in the SINGLE call (`oneVal`), in which
a custom variable sees the custom variables requested before it and a built-in
sees all custom variables.
-/
import AurelVerif.Lemmas.Table

namespace AurelVerif.Table
variable {C : Type}

/-! ## 1. the value of an item in the single call; the two kinds of computed entries -/

/-- the value of the requested item `c` in the SINGLE call on the step `r`: `rel[c]` of the
`AurelCore` holding the step's inputs followed by the custom values (`custVals`) -/
def oneVal (E : Env C) (items : List CReq) (r : Row C) (c : CReq) : C :=
  relGet E (r ++ custVals E r items) c.key

/-- the entries the single call adds for the items `cv` -/
def oneEntries (E : Env C) (items : List CReq) (r : Row C) (cv : List CReq) : Row C :=
  cv.map (fun v => (v.key, oneVal E items r v))

def CReq.isFn : CReq → Bool
  | .fn _ _ => true
  | .name _ => false

/-- a requested item stored under its own name with its single-call value -/
def VarEntry (E : Env C) (items : List CReq) (r : Row C) (kc : Name × C) : Prop :=
  ∃ c ∈ items, c.key = kc.1 ∧ kc.2 = oneVal E items r c

/-- an estimate `s_e` of a scalar key `s ∈ SK` of the dictionary `d`, stored under `s + '_' + e` -/
def EstEntry (E : Env C) (aests : List CReq) (SK : List Name) (d : Row C) (kc : Name × C) : Prop :=
  ∃ e ∈ aests, ∃ s ∈ SK, ∃ c0, kc.1 = estKey s e.key ∧ get? s d = some c0 ∧ kc.2 = estApply E e c0

/-- every entry of `x` was computed from the step's own dictionary: a requested
variable (with its single-call value) or an estimate of a scalar column of `r ++ x` -/
def AllowedE (E : Env C) (items aests : List CReq) (SK : List Name) (r x : Row C) : Prop :=
  ∀ kc ∈ x, VarEntry E items r kc ∨ EstEntry E aests SK (r ++ x) kc

/-- **the feedback hypothesis (C01) for sequences of calls, items that read custom variables
included**: hand an `AurelCore` — besides the step's dictionary `r` — any variable columns
and estimate columns computed earlier from `r` itself (`x`); if they include every CUSTOM
variable requested BEFORE the item `c`, then `c` evaluates to its single-call value.
(An item may thus read the custom variables requested before it, and nothing else among
the computed columns; a built-in column handed back does not change anything.) -/
def FeedbackDep (E : Env C) (items aests : List CReq) (SK : List Name) (r : Row C) : Prop :=
  ∀ pre c post, items = pre ++ c :: post → ∀ x : Row C, AllowedE E items aests SK r x →
    (∀ c' ∈ pre, c'.isFn = true → get? c'.key (r ++ x) = some (oneVal E items r c')) →
    c.val E (r ++ x) = oneVal E items r c

theorem EstEntry.mono {E : Env C} {aests : List CReq} {SK : List Name} {d : Row C} {kc : Name × C}
    (h : EstEntry E aests SK d kc) (y : Row C) : EstEntry E aests SK (d ++ y) kc := by
  obtain ⟨e, he, s, hs, c0, h1, h2, h3⟩ := h
  exact ⟨e, he, s, hs, c0, h1, by rw [get?_append_left (mem_keys_of_get? h2)]; exact h2, h3⟩

theorem AllowedE.nil (E : Env C) (items aests : List CReq) (SK : List Name) (r : Row C) :
    AllowedE E items aests SK r [] := fun _ h => by simp at h

/-- extension by further computed entries -/
theorem AllowedE.append {E : Env C} {items aests : List CReq} {SK : List Name} {r x y : Row C}
    (hx : AllowedE E items aests SK r x)
    (hy : ∀ kc ∈ y, VarEntry E items r kc ∨ EstEntry E aests SK (r ++ (x ++ y)) kc) :
    AllowedE E items aests SK r (x ++ y) := by
  intro kc hkc
  rcases List.mem_append.mp hkc with h | h
  · rcases hx kc h with h1 | h1
    · exact Or.inl h1
    · right
      have := h1.mono y
      rwa [List.append_assoc] at this
  · exact hy kc h

theorem AllowedE.append_var {E : Env C} {items aests : List CReq} {SK : List Name} {r x y : Row C}
    (hx : AllowedE E items aests SK r x) (hy : ∀ kc ∈ y, VarEntry E items r kc) :
    AllowedE E items aests SK r (x ++ y) :=
  hx.append (fun kc hkc => Or.inl (hy kc hkc))

/-- the custom values of the items `cv`, single-call values -/
def custOne (E : Env C) (items : List CReq) (r : Row C) (cv : List CReq) : Row C :=
  cv.filterMap (fun v => match v with | .fn n f => some (n, oneVal E items r (.fn n f)) | .name _ => none)

theorem varEntry_custOne (E : Env C) {items : List CReq} (r : Row C) {cv : List CReq}
    (hcv : ∀ v ∈ cv, v ∈ items) : ∀ kc ∈ custOne E items r cv, VarEntry E items r kc := by
  intro kc hkc
  simp only [custOne, List.mem_filterMap] at hkc
  obtain ⟨v, hv, hvk⟩ := hkc
  cases v with
  | name s => simp at hvk
  | fn n f =>
    simp only [Option.some.injEq] at hvk
    subst hvk
    exact ⟨.fn n f, hcv _ hv, rfl, rfl⟩

theorem varEntry_oneEntries (E : Env C) {items : List CReq} (r : Row C) {cv : List CReq}
    (hcv : ∀ v ∈ cv, v ∈ items) : ∀ kc ∈ oneEntries E items r cv, VarEntry E items r kc := by
  intro kc hkc
  simp only [oneEntries, List.mem_map] at hkc
  obtain ⟨v, hv, rfl⟩ := hkc
  exact ⟨v, hcv v hv, rfl, rfl⟩

theorem keys_oneEntries (E : Env C) (items : List CReq) (r : Row C) (cv : List CReq) :
    keys (oneEntries E items r cv) = cv.map CReq.key := by
  simp [keys, oneEntries, List.map_map, Function.comp_def]

theorem get?_custOne_fn (E : Env C) (items : List CReq) (r : Row C) {cv : List CReq} (hnd : (cv.map CReq.key).Nodup)
    {nm : Name} {f : Fid} (h : CReq.fn nm f ∈ cv) :
    get? nm (custOne E items r cv) = some (oneVal E items r (.fn nm f)) := by
  induction cv with
  | nil => simp at h
  | cons v vs ih =>
    simp only [List.map_cons, List.nodup_cons] at hnd
    rcases List.mem_cons.mp h with rfl | h'
    · simp [custOne, get?_cons]
    · have hne : v.key ≠ nm := fun e => hnd.1 (e ▸ List.mem_map.mpr ⟨.fn nm f, h', rfl⟩)
      cases v with
      | name s => simpa [custOne] using ih hnd.2 h'
      | fn n' f' =>
        have : ¬ n' = nm := hne
        simp only [custOne, List.filterMap_cons, get?_cons, this, if_false]
        exact ih hnd.2 h'

theorem keys_custOne_subset (E : Env C) (items : List CReq) (r : Row C) (cv : List CReq) {k : Name}
    (hk : k ∈ keys (custOne E items r cv)) : ∃ f, CReq.fn k f ∈ cv := by
  simp only [keys, custOne, List.mem_map, List.mem_filterMap] at hk
  obtain ⟨kc, ⟨v, hv, hvk⟩, rfl⟩ := hk
  cases v with
  | name s => simp at hvk
  | fn n f =>
    simp only [Option.some.injEq] at hvk
    subst hvk
    exact ⟨f, hv⟩

/-! ## 2. the variable phase of the single call (no feedback involved) -/

/-- the single call on a fresh step: the dictionary after the variable phase is the step's
inputs followed by the single-call values -/
theorem stepVars_one (E : Env C) (items : List CReq) (r : Row C) (hnd : (items.map CReq.key).Nodup)
    (hfresh : ∀ v ∈ items, v.key ∉ keys r) : stepVars E items r = r ++ oneEntries E items r items := by
  cases hi : items with
  | nil => simp [stepVars, oneEntries]
  | cons v0 vs =>
    rw [← hi]
    have hne : items.isEmpty = false := by rw [hi]; rfl
    unfold stepVars
    simp only [hne, Bool.false_eq_true, if_false]
    have hload : loadRel items r = r :=
      loadRel_of_fresh (fun k hk hmem => by
        obtain ⟨v, hv, rfl⟩ := List.mem_map.mp hmem
        exact hfresh v hv hk)
    rw [hload, runCustoms_eq E items r hnd hfresh, storeVars_fresh E items _ _ hnd hfresh]
    rfl

/-! ## 3. the variable phase of a later call, on `r ++ x` -/

/-- the custom functions of the segment `cv` of the request (`items = pre0 ++ cv ++ post0`) on a
dictionary that holds every custom variable requested before the segment -/
theorem runCustoms_nfD (E : Env C) {items aests : List CReq} {SK : List Name} {r : Row C}
    (hfb : FeedbackDep E items aests SK r) (cv : List CReq) (pre0 post0 : List CReq)
    (hitems : items = pre0 ++ cv ++ post0) (x : Row C) (hx : AllowedE E items aests SK r x)
    (hpre : ∀ c' ∈ pre0, c'.isFn = true → get? c'.key (r ++ x) = some (oneVal E items r c'))
    (hnd : (cv.map CReq.key).Nodup) (hfresh : ∀ v ∈ cv, v.key ∉ keys (r ++ x)) :
    runCustoms E cv (r ++ x) = r ++ x ++ custOne E items r cv := by
  unfold runCustoms
  induction cv generalizing x pre0 with
  | nil => simp [custOne]
  | cons v vs ih =>
    simp only [List.map_cons, List.nodup_cons] at hnd
    have hitems' : items = (pre0 ++ [v]) ++ vs ++ post0 := by rw [hitems]; simp
    simp only [List.foldl_cons]
    cases v with
    | name s =>
      have := ih (pre0 ++ [.name s]) hitems' x hx (by
        intro c' hc' hfn
        rcases List.mem_append.mp hc' with h | h
        · exact hpre c' h hfn
        · simp only [List.mem_singleton] at h; subst h; simp [CReq.isFn] at hfn)
        hnd.2 (fun w hw => hfresh w (by simp [hw]))
      simpa [custOne] using this
    | fn nm f =>
      have hn : nm ∉ keys (r ++ x) := hfresh (.fn nm f) (by simp)
      have hval : E.cust f (r ++ x) = oneVal E items r (.fn nm f) :=
        hfb pre0 (.fn nm f) (vs ++ post0) (by rw [hitems]; simp) x hx hpre
      simp only [dset_of_not_mem hn, hval]
      have hmem : CReq.fn nm f ∈ items := by rw [hitems]; simp
      have hx' : AllowedE E items aests SK r (x ++ [(nm, oneVal E items r (.fn nm f))]) := by
        apply hx.append_var
        intro kc hkc
        simp only [List.mem_singleton] at hkc
        subst hkc
        exact ⟨.fn nm f, hmem, rfl, rfl⟩
      have := ih (pre0 ++ [.fn nm f]) hitems' (x ++ [(nm, oneVal E items r (.fn nm f))]) hx' (by
        intro c' hc' hfn
        rcases List.mem_append.mp hc' with h | h
        · have h1 := hpre c' h hfn
          rw [← List.append_assoc, get?_append_left (mem_keys_of_get? h1)]
          exact h1
        · simp only [List.mem_singleton] at h
          subst h
          simp only [CReq.key]
          rw [← List.append_assoc, get?_append_right hn]
          simp [get?]) hnd.2 (by
        intro w hw
        have h1 := hfresh w (by simp [hw])
        have h2 : w.key ≠ nm := fun e => hnd.1 (e ▸ List.mem_map.mpr ⟨w, hw, rfl⟩)
        rw [← List.append_assoc, mem_keys_snoc]
        rintro (h | h)
        · exact h1 h
        · exact h2 h)
      simp only [← List.append_assoc] at this ⊢
      rw [this]
      simp [custOne, List.append_assoc]

theorem relGet_nfD (E : Env C) {items aests : List CReq} {SK : List Name} {r : Row C}
    (hfb : FeedbackDep E items aests SK r) (cv : List CReq) (pre0 post0 : List CReq)
    (hitems : items = pre0 ++ cv ++ post0) (x : Row C) (hx : AllowedE E items aests SK r x)
    (hpre : ∀ c' ∈ pre0, c'.isFn = true → get? c'.key (r ++ x) = some (oneVal E items r c'))
    (hnd : (cv.map CReq.key).Nodup) (hfresh : ∀ v ∈ cv, v.key ∉ keys (r ++ x)) {v : CReq} (hv : v ∈ cv) :
    relGet E (r ++ x ++ custOne E items r cv) v.key = oneVal E items r v := by
  have hcv : ∀ w ∈ cv, w ∈ items := fun w hw => by rw [hitems]; simp [hw]
  unfold relGet
  cases v with
  | fn nm f =>
    have hn : nm ∉ keys (r ++ x) := hfresh _ hv
    simp only [CReq.key]
    rw [get?_append_right hn, get?_custOne_fn E items r hnd hv]
  | name s =>
    have hn : s ∉ keys (r ++ x) := hfresh _ hv
    have hn2 : s ∉ keys (custOne E items r cv) := by
      intro hk
      obtain ⟨f, hf⟩ := keys_custOne_subset E items r cv hk
      have := nodup_map_inj hnd hv hf rfl
      cases this
    simp only [CReq.key]
    rw [get?_append_right hn, get?_none_iff.mpr hn2]
    obtain ⟨a, b, hab⟩ := List.append_of_mem hv
    have hit : items = (pre0 ++ a) ++ CReq.name s :: (b ++ post0) := by rw [hitems, hab]; simp
    have := hfb (pre0 ++ a) (.name s) (b ++ post0) hit (x ++ custOne E items r cv)
      (hx.append_var (varEntry_custOne E r hcv)) (by
        intro c' hc' hfn
        rcases List.mem_append.mp hc' with h | h
        · have h1 := hpre c' h hfn
          rw [← List.append_assoc, get?_append_left (mem_keys_of_get? h1)]
          exact h1
        · cases c' with
          | name _ => simp [CReq.isFn] at hfn
          | fn n' f' =>
            have hmem : CReq.fn n' f' ∈ cv := by rw [hab]; simp [h]
            have hn' : n' ∉ keys (r ++ x) := hfresh _ hmem
            simp only [CReq.key]
            rw [← List.append_assoc, get?_append_right hn']
            exact get?_custOne_fn E items r hnd hmem)
    simp only [List.append_assoc]
    exact this

/-- normal form of the variable phase of a later call: the segment `cv` of the request on a
dictionary `r ++ x` that holds every custom variable requested before the segment -/
theorem stepVars_nfD (E : Env C) {items aests : List CReq} {SK : List Name} {r : Row C}
    (hfb : FeedbackDep E items aests SK r) (cv : List CReq) (pre0 post0 : List CReq)
    (hitems : items = pre0 ++ cv ++ post0) (x : Row C) (hx : AllowedE E items aests SK r x)
    (hpre : ∀ c' ∈ pre0, c'.isFn = true → get? c'.key (r ++ x) = some (oneVal E items r c'))
    (hnd : (cv.map CReq.key).Nodup) (hfresh : ∀ v ∈ cv, v.key ∉ keys (r ++ x)) :
    stepVars E cv (r ++ x) = r ++ x ++ oneEntries E items r cv := by
  cases hcv0 : cv with
  | nil => simp [stepVars, oneEntries]
  | cons v0 vs =>
    rw [← hcv0]
    have hne : cv.isEmpty = false := by rw [hcv0]; rfl
    unfold stepVars
    simp only [hne, Bool.false_eq_true, if_false]
    have hload : loadRel cv (r ++ x) = r ++ x :=
      loadRel_of_fresh (fun k hk hmem => by
        obtain ⟨v, hv, rfl⟩ := List.mem_map.mp hmem
        exact hfresh v hv hk)
    rw [hload, runCustoms_nfD E hfb cv pre0 post0 hitems x hx hpre hnd hfresh, storeVars_fresh E cv _ _ hnd hfresh]
    congr 1
    unfold oneEntries
    apply List.map_congr_left
    intro v hv
    rw [relGet_nfD E hfb cv pre0 post0 hitems x hx hpre hnd hfresh hv]

/-! ## 4. the estimate phase of a step -/

theorem mem_estOneK_iff {x e key : Name} {ks : List Name} :
    x ∈ estOneK e ks key ↔ x ∈ ks ∨ (key ∈ ks ∧ x = estKey key e) := by
  unfold estOneK
  by_cases h1 : estKey key e ∈ ks
  · simp only [h1, if_true]
    constructor
    · exact Or.inl
    · rintro (h | ⟨_, rfl⟩)
      · exact h
      · exact h1
  · simp only [h1, if_false]
    by_cases h2 : key ∈ ks
    · simp [h2]
    · simp [h2]

theorem mem_foldl_estOneK_iff {x e : Name} {sk ks : List Name} (hsub : ∀ s ∈ sk, s ∈ ks) :
    x ∈ sk.foldl (estOneK e) ks ↔ x ∈ ks ∨ ∃ s ∈ sk, x = estKey s e := by
  induction sk generalizing ks with
  | nil => simp
  | cons k rest ih =>
    simp only [List.foldl_cons]
    have hk : k ∈ ks := hsub k (by simp)
    rw [ih (fun s hs => subset_estOneK e ks k (hsub s (by simp [hs]))), mem_estOneK_iff]
    constructor
    · rintro ((h | ⟨_, rfl⟩) | ⟨s, hs, rfl⟩)
      · exact Or.inl h
      · exact Or.inr ⟨k, by simp, rfl⟩
      · exact Or.inr ⟨s, by simp [hs], rfl⟩
    · rintro (h | ⟨s, hs, rfl⟩)
      · exact Or.inl (Or.inl h)
      · rcases List.mem_cons.mp hs with rfl | hs
        · exact Or.inl (Or.inr ⟨hk, rfl⟩)
        · exact Or.inr ⟨s, hs, rfl⟩

/-- exactly which keys the estimate phase adds (`sk ⊆ ks`: the scalar keys are keys of the row) -/
theorem mem_applyEstsK_iff {x : Name} {ests sk ks : List Name} (hsub : ∀ s ∈ sk, s ∈ ks) :
    x ∈ applyEstsK ests sk ks ↔ x ∈ ks ∨ ∃ e ∈ ests, ∃ s ∈ sk, x = estKey s e := by
  unfold applyEstsK
  induction ests generalizing ks with
  | nil => simp
  | cons e es ih =>
    simp only [List.foldl_cons]
    rw [ih (fun s hs => subset_foldl_estOneK e sk ks (hsub s hs)), mem_foldl_estOneK_iff hsub]
    constructor
    · rintro ((h | ⟨s, hs, rfl⟩) | ⟨e', he', s, hs, rfl⟩)
      · exact Or.inl h
      · exact Or.inr ⟨e, by simp, s, hs, rfl⟩
      · exact Or.inr ⟨e', by simp [he'], s, hs, rfl⟩
    · rintro (h | ⟨e', he', s, hs, rfl⟩)
      · exact Or.inl (Or.inl h)
      · rcases List.mem_cons.mp he' with rfl | he'
        · exact Or.inl (Or.inr ⟨s, hs, rfl⟩)
        · exact Or.inr ⟨e', he', s, hs, rfl⟩

/-- a dictionary made of the step's inputs followed by entries computed from them -/
def GoodRow (E : Env C) (items aests : List CReq) (SK : List Name) (r d : Row C) : Prop :=
  ∃ x, d = r ++ x ∧ AllowedE E items aests SK r x

theorem goodRow_estOneP {E : Env C} {items aests : List CReq} {SK : List Name} {r d : Row C}
    (hd : GoodRow E items aests SK r d) {e : CReq} (he : e ∈ aests) {key : Name} (hk : key ∈ SK) :
    GoodRow E items aests SK r (estOneP E e d key) := by
  unfold estOneP
  split
  · exact hd
  · cases hg : get? key d with
    | none => exact hd
    | some c =>
      obtain ⟨x, rfl, hx⟩ := hd
      refine ⟨x ++ [(estKey key e.key, estApply E e c)], by simp, ?_⟩
      apply hx.append
      intro kc hkc
      simp only [List.mem_singleton] at hkc
      subst hkc
      right
      refine ⟨e, he, key, hk, c, rfl, ?_, rfl⟩
      rw [← List.append_assoc, get?_append_left (mem_keys_of_get? hg)]
      exact hg

theorem goodRow_foldl_estOneP {E : Env C} {items aests : List CReq} {SK : List Name} {r : Row C}
    {e : CReq} (he : e ∈ aests) (sk : List Name) (hsk : ∀ s ∈ sk, s ∈ SK) {d : Row C}
    (hd : GoodRow E items aests SK r d) : GoodRow E items aests SK r (sk.foldl (estOneP E e) d) := by
  induction sk generalizing d with
  | nil => exact hd
  | cons k ks ih =>
    simp only [List.foldl_cons]
    exact ih (fun s hs => hsk s (by simp [hs])) (goodRow_estOneP hd he (hsk k (by simp)))

theorem goodRow_applyEstsP {E : Env C} {items aests : List CReq} {SK : List Name} {r : Row C}
    (ce : List CReq) (hce : ∀ e ∈ ce, e ∈ aests) (sk : List Name) (hsk : ∀ s ∈ sk, s ∈ SK) {d : Row C}
    (hd : GoodRow E items aests SK r d) : GoodRow E items aests SK r (applyEstsP E ce sk d) := by
  unfold applyEstsP
  induction ce generalizing d with
  | nil => exact hd
  | cons e es ih =>
    simp only [List.foldl_cons]
    exact ih (fun e' he' => hce e' (by simp [he'])) (goodRow_foldl_estOneP (hce e (by simp)) sk hsk hd)

/-! ## 5. look-ups -/

theorem mem_of_get? {β : Type} {k : Name} {d : List (Name × β)} {c : β} (h : get? k d = some c) : (k, c) ∈ d := by
  induction d with
  | nil => simp [get?] at h
  | cons kv rest ih =>
    rw [get?_cons] at h
    by_cases hk : kv.1 = k
    · simp only [hk, if_true, Option.some.injEq] at h
      subst h; subst hk; simp
    · simp only [hk, if_false] at h
      exact List.mem_cons_of_mem _ (ih h)

theorem mem_scalarKeys_iff (E : Env C) {d : Row C} {s : Name} :
    s ∈ scalarKeys E d ↔ ∃ c, (s, c) ∈ d ∧ E.is3 c = true := by
  simp only [scalarKeys, List.mem_map, List.mem_filter]
  constructor
  · rintro ⟨kv, ⟨hm, h3⟩, rfl⟩
    exact ⟨kv.2, hm, h3⟩
  · rintro ⟨c, hm, h3⟩
    exact ⟨(s, c), ⟨hm, h3⟩, rfl⟩

theorem mem_keys_of_mem {β : Type} {k : Name} {c : β} {d : List (Name × β)} (h : (k, c) ∈ d) : k ∈ keys d :=
  List.mem_map.mpr ⟨(k, c), h, rfl⟩

end AurelVerif.Table
