/-
Lemmas/C17JetFLRW.lean — written by tools/py2lean/c17_jetgen.py (developer tool, not run by ./check);
ordinary Lean source from then on.  Flat FLRW metric `−dt² + A(t) δ_ij dx^i dx^j` with `A1 = ∂_t A`, `A2 = ∂_t² A`.

`jet` is a 2-jet of a metric in the sense of Spec/Jet4.lean whose entries are rational functions of
the field variables `A A1 A2`.  Each `…T` table below is PROVEN equal to the textbook definition of
Spec/Jet4.lean (Christoffel symbols, derivative of the inverse metric, derivative of the
Christoffel symbols, Ricci tensor, Ricci scalar, Einstein tensor); the tables
themselves carry no authority.
-/
import AurelVerif.Lemmas.C17JetTac

set_option linter.unusedVariables false
set_option linter.unusedTactic false
set_option linter.unreachableTactic false
set_option linter.unusedSimpArgs false
set_option linter.style.longLine false
set_option linter.unusedSectionVars false

namespace AurelVerif.C17Jet.FLRW
open AurelVerif.Spec.Jet4 AurelVerif.Spec.Curvature AurelVerif.C17JetTac
variable {K : Type} [Field K] [CharZero K]

set_option maxHeartbeats 1000000 in
/-- the 2-jet: `g`, `gi = g⁻¹`, `dg c a b = ∂_c g_ab`, `ddg c d a b = ∂_c ∂_d g_ab`. -/
def jet (A A1 A2 : K) : Jet2 K where
  g := ![![(-1:K), (0:K), (0:K), (0:K)], ![(0:K), A, (0:K), (0:K)], ![(0:K), (0:K), A, (0:K)], ![(0:K), (0:K), (0:K), A]]
  gi := ![![(-1:K), (0:K), (0:K), (0:K)], ![(0:K), (1 / A), (0:K), (0:K)], ![(0:K), (0:K), (1 / A), (0:K)], ![(0:K), (0:K), (0:K), (1 / A)]]
  dg := ![![![(0:K), (0:K), (0:K), (0:K)], ![(0:K), A1, (0:K), (0:K)], ![(0:K), (0:K), A1, (0:K)], ![(0:K), (0:K), (0:K), A1]], ![![(0:K), (0:K), (0:K), (0:K)], ![(0:K), (0:K), (0:K), (0:K)], ![(0:K), (0:K), (0:K), (0:K)], ![(0:K), (0:K), (0:K), (0:K)]], ![![(0:K), (0:K), (0:K), (0:K)], ![(0:K), (0:K), (0:K), (0:K)], ![(0:K), (0:K), (0:K), (0:K)], ![(0:K), (0:K), (0:K), (0:K)]], ![![(0:K), (0:K), (0:K), (0:K)], ![(0:K), (0:K), (0:K), (0:K)], ![(0:K), (0:K), (0:K), (0:K)], ![(0:K), (0:K), (0:K), (0:K)]]]
  ddg := ![![![![(0:K), (0:K), (0:K), (0:K)], ![(0:K), A2, (0:K), (0:K)], ![(0:K), (0:K), A2, (0:K)], ![(0:K), (0:K), (0:K), A2]], ![![(0:K), (0:K), (0:K), (0:K)], ![(0:K), (0:K), (0:K), (0:K)], ![(0:K), (0:K), (0:K), (0:K)], ![(0:K), (0:K), (0:K), (0:K)]], ![![(0:K), (0:K), (0:K), (0:K)], ![(0:K), (0:K), (0:K), (0:K)], ![(0:K), (0:K), (0:K), (0:K)], ![(0:K), (0:K), (0:K), (0:K)]], ![![(0:K), (0:K), (0:K), (0:K)], ![(0:K), (0:K), (0:K), (0:K)], ![(0:K), (0:K), (0:K), (0:K)], ![(0:K), (0:K), (0:K), (0:K)]]], ![![![(0:K), (0:K), (0:K), (0:K)], ![(0:K), (0:K), (0:K), (0:K)], ![(0:K), (0:K), (0:K), (0:K)], ![(0:K), (0:K), (0:K), (0:K)]], ![![(0:K), (0:K), (0:K), (0:K)], ![(0:K), (0:K), (0:K), (0:K)], ![(0:K), (0:K), (0:K), (0:K)], ![(0:K), (0:K), (0:K), (0:K)]], ![![(0:K), (0:K), (0:K), (0:K)], ![(0:K), (0:K), (0:K), (0:K)], ![(0:K), (0:K), (0:K), (0:K)], ![(0:K), (0:K), (0:K), (0:K)]], ![![(0:K), (0:K), (0:K), (0:K)], ![(0:K), (0:K), (0:K), (0:K)], ![(0:K), (0:K), (0:K), (0:K)], ![(0:K), (0:K), (0:K), (0:K)]]], ![![![(0:K), (0:K), (0:K), (0:K)], ![(0:K), (0:K), (0:K), (0:K)], ![(0:K), (0:K), (0:K), (0:K)], ![(0:K), (0:K), (0:K), (0:K)]], ![![(0:K), (0:K), (0:K), (0:K)], ![(0:K), (0:K), (0:K), (0:K)], ![(0:K), (0:K), (0:K), (0:K)], ![(0:K), (0:K), (0:K), (0:K)]], ![![(0:K), (0:K), (0:K), (0:K)], ![(0:K), (0:K), (0:K), (0:K)], ![(0:K), (0:K), (0:K), (0:K)], ![(0:K), (0:K), (0:K), (0:K)]], ![![(0:K), (0:K), (0:K), (0:K)], ![(0:K), (0:K), (0:K), (0:K)], ![(0:K), (0:K), (0:K), (0:K)], ![(0:K), (0:K), (0:K), (0:K)]]], ![![![(0:K), (0:K), (0:K), (0:K)], ![(0:K), (0:K), (0:K), (0:K)], ![(0:K), (0:K), (0:K), (0:K)], ![(0:K), (0:K), (0:K), (0:K)]], ![![(0:K), (0:K), (0:K), (0:K)], ![(0:K), (0:K), (0:K), (0:K)], ![(0:K), (0:K), (0:K), (0:K)], ![(0:K), (0:K), (0:K), (0:K)]], ![![(0:K), (0:K), (0:K), (0:K)], ![(0:K), (0:K), (0:K), (0:K)], ![(0:K), (0:K), (0:K), (0:K)], ![(0:K), (0:K), (0:K), (0:K)]], ![![(0:K), (0:K), (0:K), (0:K)], ![(0:K), (0:K), (0:K), (0:K)], ![(0:K), (0:K), (0:K), (0:K)], ![(0:K), (0:K), (0:K), (0:K)]]]]

theorem jet_inverse (A A1 A2 : K) (h0 : A ≠ 0) : (jet A A1 A2).IsInverse := by
  have h0n := h0; (try ring_nf at h0n); 
  refine forall4 ?_ ?_ ?_ ?_ <;> refine forall4 ?_ ?_ ?_ ?_ <;>
    (simp only [jet, Fin.sum_univ_four, Fin.isValue, Fin.reduceEq, if_true, if_false, reduceIte, Matrix.cons_val_zero, Matrix.cons_val_one, Matrix.cons_val]; jet_close)

set_option maxHeartbeats 1000000 in
theorem jet_symm (A A1 A2 : K) : (jet A A1 A2).IsSymm := by
  refine ⟨?_, ?_, ?_, ?_, ?_⟩
  · refine forall4 ?_ ?_ ?_ ?_ <;> refine forall4 ?_ ?_ ?_ ?_ <;> rfl
  · refine forall4 ?_ ?_ ?_ ?_ <;> refine forall4 ?_ ?_ ?_ ?_ <;> rfl
  · refine forall4 ?_ ?_ ?_ ?_ <;> refine forall4 ?_ ?_ ?_ ?_ <;> refine forall4 ?_ ?_ ?_ ?_ <;> rfl
  · refine forall4 ?_ ?_ ?_ ?_ <;> refine forall4 ?_ ?_ ?_ ?_ <;> refine forall4 ?_ ?_ ?_ ?_ <;> refine forall4 ?_ ?_ ?_ ?_ <;> rfl
  · refine forall4 ?_ ?_ ?_ ?_ <;> refine forall4 ?_ ?_ ?_ ?_ <;> refine forall4 ?_ ?_ ?_ ?_ <;> refine forall4 ?_ ?_ ?_ ?_ <;> rfl

set_option maxHeartbeats 1000000 in
/-- `Γ^a_{bc}` -/
def GamT (A A1 A2 : K) : Fin 4 → Fin 4 → Fin 4 → K :=
  ![![![(0:K), (0:K), (0:K), (0:K)], ![(0:K), (A1 / (2:K)), (0:K), (0:K)], ![(0:K), (0:K), (A1 / (2:K)), (0:K)], ![(0:K), (0:K), (0:K), (A1 / (2:K))]], ![![(0:K), (A1 / ((2:K) * A)), (0:K), (0:K)], ![(A1 / ((2:K) * A)), (0:K), (0:K), (0:K)], ![(0:K), (0:K), (0:K), (0:K)], ![(0:K), (0:K), (0:K), (0:K)]], ![![(0:K), (0:K), (A1 / ((2:K) * A)), (0:K)], ![(0:K), (0:K), (0:K), (0:K)], ![(A1 / ((2:K) * A)), (0:K), (0:K), (0:K)], ![(0:K), (0:K), (0:K), (0:K)]], ![![(0:K), (0:K), (0:K), (A1 / ((2:K) * A))], ![(0:K), (0:K), (0:K), (0:K)], ![(0:K), (0:K), (0:K), (0:K)], ![(A1 / ((2:K) * A)), (0:K), (0:K), (0:K)]]]
set_option maxHeartbeats 1000000 in
theorem Gam_eq (A A1 A2 : K) (h0 : A ≠ 0) : (jet A A1 A2).Gam = GamT A A1 A2 := by
  have h0n := h0; (try ring_nf at h0n); 
  refine funext4 ?_ ?_ ?_ ?_ <;> refine funext4 ?_ ?_ ?_ ?_ <;> refine funext4 ?_ ?_ ?_ ?_ <;>
    (simp only [Jet2.Gam, christoffel, christoffel1]; simp only [GamT, jet, Fin.sum_univ_four, Matrix.cons_val_zero, Matrix.cons_val_one, Matrix.cons_val]; jet_close)

set_option maxHeartbeats 1000000 in
/-- `∂_e g^{ab}` -/
def dgiT (A A1 A2 : K) : Fin 4 → Fin 4 → Fin 4 → K :=
  ![![![(0:K), (0:K), (0:K), (0:K)], ![(0:K), (-(A1 / A ^ (2:ℕ))), (0:K), (0:K)], ![(0:K), (0:K), (-(A1 / A ^ (2:ℕ))), (0:K)], ![(0:K), (0:K), (0:K), (-(A1 / A ^ (2:ℕ)))]], ![![(0:K), (0:K), (0:K), (0:K)], ![(0:K), (0:K), (0:K), (0:K)], ![(0:K), (0:K), (0:K), (0:K)], ![(0:K), (0:K), (0:K), (0:K)]], ![![(0:K), (0:K), (0:K), (0:K)], ![(0:K), (0:K), (0:K), (0:K)], ![(0:K), (0:K), (0:K), (0:K)], ![(0:K), (0:K), (0:K), (0:K)]], ![![(0:K), (0:K), (0:K), (0:K)], ![(0:K), (0:K), (0:K), (0:K)], ![(0:K), (0:K), (0:K), (0:K)], ![(0:K), (0:K), (0:K), (0:K)]]]
set_option maxHeartbeats 1000000 in
theorem dgi_eq (A A1 A2 : K) (h0 : A ≠ 0) : (jet A A1 A2).dgi = dgiT A A1 A2 := by
  have h0n := h0; (try ring_nf at h0n); 
  refine funext4 ?_ ?_ ?_ ?_ <;> refine funext4 ?_ ?_ ?_ ?_ <;> refine funext4 ?_ ?_ ?_ ?_ <;>
    (simp only [Jet2.dgi]; simp only [dgiT, jet, Fin.sum_univ_four, Matrix.cons_val_zero, Matrix.cons_val_one, Matrix.cons_val]; jet_close)

set_option maxHeartbeats 1000000 in
/-- `∂_e Γ^a_{bc}` -/
def dGamT (A A1 A2 : K) : Fin 4 → Fin 4 → Fin 4 → Fin 4 → K :=
  ![![![![(0:K), (0:K), (0:K), (0:K)], ![(0:K), (A2 / (2:K)), (0:K), (0:K)], ![(0:K), (0:K), (A2 / (2:K)), (0:K)], ![(0:K), (0:K), (0:K), (A2 / (2:K))]], ![![(0:K), (((A * A2) - A1 ^ (2:ℕ)) / ((2:K) * A ^ (2:ℕ))), (0:K), (0:K)], ![(((A * A2) - A1 ^ (2:ℕ)) / ((2:K) * A ^ (2:ℕ))), (0:K), (0:K), (0:K)], ![(0:K), (0:K), (0:K), (0:K)], ![(0:K), (0:K), (0:K), (0:K)]], ![![(0:K), (0:K), (((A * A2) - A1 ^ (2:ℕ)) / ((2:K) * A ^ (2:ℕ))), (0:K)], ![(0:K), (0:K), (0:K), (0:K)], ![(((A * A2) - A1 ^ (2:ℕ)) / ((2:K) * A ^ (2:ℕ))), (0:K), (0:K), (0:K)], ![(0:K), (0:K), (0:K), (0:K)]], ![![(0:K), (0:K), (0:K), (((A * A2) - A1 ^ (2:ℕ)) / ((2:K) * A ^ (2:ℕ)))], ![(0:K), (0:K), (0:K), (0:K)], ![(0:K), (0:K), (0:K), (0:K)], ![(((A * A2) - A1 ^ (2:ℕ)) / ((2:K) * A ^ (2:ℕ))), (0:K), (0:K), (0:K)]]], ![![![(0:K), (0:K), (0:K), (0:K)], ![(0:K), (0:K), (0:K), (0:K)], ![(0:K), (0:K), (0:K), (0:K)], ![(0:K), (0:K), (0:K), (0:K)]], ![![(0:K), (0:K), (0:K), (0:K)], ![(0:K), (0:K), (0:K), (0:K)], ![(0:K), (0:K), (0:K), (0:K)], ![(0:K), (0:K), (0:K), (0:K)]], ![![(0:K), (0:K), (0:K), (0:K)], ![(0:K), (0:K), (0:K), (0:K)], ![(0:K), (0:K), (0:K), (0:K)], ![(0:K), (0:K), (0:K), (0:K)]], ![![(0:K), (0:K), (0:K), (0:K)], ![(0:K), (0:K), (0:K), (0:K)], ![(0:K), (0:K), (0:K), (0:K)], ![(0:K), (0:K), (0:K), (0:K)]]], ![![![(0:K), (0:K), (0:K), (0:K)], ![(0:K), (0:K), (0:K), (0:K)], ![(0:K), (0:K), (0:K), (0:K)], ![(0:K), (0:K), (0:K), (0:K)]], ![![(0:K), (0:K), (0:K), (0:K)], ![(0:K), (0:K), (0:K), (0:K)], ![(0:K), (0:K), (0:K), (0:K)], ![(0:K), (0:K), (0:K), (0:K)]], ![![(0:K), (0:K), (0:K), (0:K)], ![(0:K), (0:K), (0:K), (0:K)], ![(0:K), (0:K), (0:K), (0:K)], ![(0:K), (0:K), (0:K), (0:K)]], ![![(0:K), (0:K), (0:K), (0:K)], ![(0:K), (0:K), (0:K), (0:K)], ![(0:K), (0:K), (0:K), (0:K)], ![(0:K), (0:K), (0:K), (0:K)]]], ![![![(0:K), (0:K), (0:K), (0:K)], ![(0:K), (0:K), (0:K), (0:K)], ![(0:K), (0:K), (0:K), (0:K)], ![(0:K), (0:K), (0:K), (0:K)]], ![![(0:K), (0:K), (0:K), (0:K)], ![(0:K), (0:K), (0:K), (0:K)], ![(0:K), (0:K), (0:K), (0:K)], ![(0:K), (0:K), (0:K), (0:K)]], ![![(0:K), (0:K), (0:K), (0:K)], ![(0:K), (0:K), (0:K), (0:K)], ![(0:K), (0:K), (0:K), (0:K)], ![(0:K), (0:K), (0:K), (0:K)]], ![![(0:K), (0:K), (0:K), (0:K)], ![(0:K), (0:K), (0:K), (0:K)], ![(0:K), (0:K), (0:K), (0:K)], ![(0:K), (0:K), (0:K), (0:K)]]]]
set_option maxHeartbeats 1000000 in
theorem dGam_eq_0 (A A1 A2 : K) (h0 : A ≠ 0) : (jet A A1 A2).dGam 0 = dGamT A A1 A2 0 := by
  have h0n := h0; (try ring_nf at h0n); 
  refine funext4 ?_ ?_ ?_ ?_ <;> refine funext4 ?_ ?_ ?_ ?_ <;> refine funext4 ?_ ?_ ?_ ?_ <;>
    (simp only [Jet2.dGam, Jet2.Gl, Jet2.dGl, christoffel1, dgi_eq A A1 A2 h0]; simp only [dgiT, dGamT, jet, Fin.sum_univ_four, Matrix.cons_val_zero, Matrix.cons_val_one, Matrix.cons_val]; jet_close)
set_option maxHeartbeats 1000000 in
theorem dGam_eq_1 (A A1 A2 : K) (h0 : A ≠ 0) : (jet A A1 A2).dGam 1 = dGamT A A1 A2 1 := by
  have h0n := h0; (try ring_nf at h0n); 
  refine funext4 ?_ ?_ ?_ ?_ <;> refine funext4 ?_ ?_ ?_ ?_ <;> refine funext4 ?_ ?_ ?_ ?_ <;>
    (simp only [Jet2.dGam, Jet2.Gl, Jet2.dGl, christoffel1, dgi_eq A A1 A2 h0]; simp only [dgiT, dGamT, jet, Fin.sum_univ_four, Matrix.cons_val_zero, Matrix.cons_val_one, Matrix.cons_val]; jet_close)
set_option maxHeartbeats 1000000 in
theorem dGam_eq_2 (A A1 A2 : K) (h0 : A ≠ 0) : (jet A A1 A2).dGam 2 = dGamT A A1 A2 2 := by
  have h0n := h0; (try ring_nf at h0n); 
  refine funext4 ?_ ?_ ?_ ?_ <;> refine funext4 ?_ ?_ ?_ ?_ <;> refine funext4 ?_ ?_ ?_ ?_ <;>
    (simp only [Jet2.dGam, Jet2.Gl, Jet2.dGl, christoffel1, dgi_eq A A1 A2 h0]; simp only [dgiT, dGamT, jet, Fin.sum_univ_four, Matrix.cons_val_zero, Matrix.cons_val_one, Matrix.cons_val]; jet_close)
set_option maxHeartbeats 1000000 in
theorem dGam_eq_3 (A A1 A2 : K) (h0 : A ≠ 0) : (jet A A1 A2).dGam 3 = dGamT A A1 A2 3 := by
  have h0n := h0; (try ring_nf at h0n); 
  refine funext4 ?_ ?_ ?_ ?_ <;> refine funext4 ?_ ?_ ?_ ?_ <;> refine funext4 ?_ ?_ ?_ ?_ <;>
    (simp only [Jet2.dGam, Jet2.Gl, Jet2.dGl, christoffel1, dgi_eq A A1 A2 h0]; simp only [dgiT, dGamT, jet, Fin.sum_univ_four, Matrix.cons_val_zero, Matrix.cons_val_one, Matrix.cons_val]; jet_close)
theorem dGam_eq (A A1 A2 : K) (h0 : A ≠ 0) : (jet A A1 A2).dGam = dGamT A A1 A2 :=
  funext4 (dGam_eq_0 A A1 A2 h0) (dGam_eq_1 A A1 A2 h0) (dGam_eq_2 A A1 A2 h0) (dGam_eq_3 A A1 A2 h0)

set_option maxHeartbeats 1000000 in
/-- `R_ab` -/
def RicT (A A1 A2 : K) : Fin 4 → Fin 4 → K :=
  ![![(-(((3:K) * (((2:K) * A * A2) - A1 ^ (2:ℕ))) / ((4:K) * A ^ (2:ℕ)))), (0:K), (0:K), (0:K)], ![(0:K), ((((2:K) * A * A2) + A1 ^ (2:ℕ)) / ((4:K) * A)), (0:K), (0:K)], ![(0:K), (0:K), ((((2:K) * A * A2) + A1 ^ (2:ℕ)) / ((4:K) * A)), (0:K)], ![(0:K), (0:K), (0:K), ((((2:K) * A * A2) + A1 ^ (2:ℕ)) / ((4:K) * A))]]
set_option maxHeartbeats 1000000 in
theorem Ric_eq (A A1 A2 : K) (h0 : A ≠ 0) : (jet A A1 A2).Ric = RicT A A1 A2 := by
  have h0n := h0; (try ring_nf at h0n); 
  refine funext4 ?_ ?_ ?_ ?_ <;> refine funext4 ?_ ?_ ?_ ?_ <;>
    (simp only [Jet2.Ric, ricci, Jet2.Riem, Gam_eq A A1 A2 h0, dGam_eq A A1 A2 h0]; simp only [GamT, dGamT, RicT, jet, Fin.sum_univ_four, Matrix.cons_val_zero, Matrix.cons_val_one, Matrix.cons_val]; jet_close)

set_option maxHeartbeats 1000000 in
/-- `R` -/
def RicST (A A1 A2 : K) : K :=
  (((3:K) * A2) / A)
set_option maxHeartbeats 1000000 in
theorem RicS_eq (A A1 A2 : K) (h0 : A ≠ 0) : (jet A A1 A2).RicS = RicST A A1 A2 := by
  have h0n := h0; (try ring_nf at h0n); 
    (simp only [Jet2.RicS, trace, Ric_eq A A1 A2 h0]; simp only [RicT, RicST, jet, Fin.sum_univ_four, Matrix.cons_val_zero, Matrix.cons_val_one, Matrix.cons_val]; jet_close)

set_option maxHeartbeats 1000000 in
/-- `G_ab = R_ab − ½ R g_ab` -/
def EinsteinT (A A1 A2 : K) : Fin 4 → Fin 4 → K :=
  ![![(((3:K) * A1 ^ (2:ℕ)) / ((4:K) * A ^ (2:ℕ))), (0:K), (0:K), (0:K)], ![(0:K), (((-((4:K) * A * A2)) + A1 ^ (2:ℕ)) / ((4:K) * A)), (0:K), (0:K)], ![(0:K), (0:K), (((-((4:K) * A * A2)) + A1 ^ (2:ℕ)) / ((4:K) * A)), (0:K)], ![(0:K), (0:K), (0:K), (((-((4:K) * A * A2)) + A1 ^ (2:ℕ)) / ((4:K) * A))]]
set_option maxHeartbeats 1000000 in
theorem Einstein_eq (A A1 A2 : K) (h0 : A ≠ 0) : (jet A A1 A2).Einstein = EinsteinT A A1 A2 := by
  have h0n := h0; (try ring_nf at h0n); 
  refine funext4 ?_ ?_ ?_ ?_ <;> refine funext4 ?_ ?_ ?_ ?_ <;>
    (simp only [Jet2.Einstein, einstein, Ric_eq A A1 A2 h0, RicS_eq A A1 A2 h0]; simp only [RicT, RicST, EinsteinT, jet, Fin.sum_univ_four, Matrix.cons_val_zero, Matrix.cons_val_one, Matrix.cons_val]; jet_close)

end AurelVerif.C17Jet.FLRW
