/-
Lemmas/Cache.lean — lemmas about Model/Cache.lean (dict operations, the
invariant, clean-up).  Core Lean only.
-/
import AurelVerif.Model.Cache

set_option linter.unusedSectionVars false

namespace AurelVerif.Cache
open Dict

variable {κ ν α : Type} [DecidableEq κ]

/-! ### dict -/
namespace Dict

@[simp] theorem keys_nil : keys ([] : Dict κ α) = [] := rfl
@[simp] theorem keys_cons (x : κ × α) (d : Dict κ α) : keys (x :: d) = x.1 :: keys d := rfl

theorem get?_eq_none_iff {d : Dict κ α} {k : κ} : get? d k = none ↔ k ∉ keys d := by
  induction d with
  | nil => simp [get?]
  | cons x d ih =>
    obtain ⟨k', v⟩ := x
    by_cases h : k' = k
    · simp [get?, h]
    · have h' : ¬ k = k' := fun e => h e.symm
      simp [get?, h, h', ih]

theorem get?_isSome_iff {d : Dict κ α} {k : κ} : (get? d k).isSome = true ↔ k ∈ keys d := by
  cases h : get? d k with
  | none => simp [get?_eq_none_iff.mp h]
  | some v =>
    simp
    exact Decidable.byContradiction fun hn => by rw [get?_eq_none_iff.mpr hn] at h; cases h

theorem contains_iff {d : Dict κ α} {k : κ} : contains d k = true ↔ k ∈ keys d := get?_isSome_iff

theorem contains_false_iff {d : Dict κ α} {k : κ} : contains d k = false ↔ k ∉ keys d := by
  rw [← contains_iff]; cases contains d k <;> simp

theorem mem_keys_of_get? {d : Dict κ α} {k : κ} {v : α} (h : get? d k = some v) : k ∈ keys d :=
  get?_isSome_iff.mp (by simp [h])

theorem mem_of_get? {d : Dict κ α} {k : κ} {v : α} (h : get? d k = some v) : (k, v) ∈ d := by
  induction d with
  | nil => simp [get?] at h
  | cons x d ih =>
    obtain ⟨k', v'⟩ := x
    by_cases hk : k' = k
    · simp [get?, hk] at h; simp [hk, h]
    · simp [get?, hk] at h; exact List.mem_cons_of_mem _ (ih h)

theorem mem_keys_of_mem {d : Dict κ α} {k : κ} {v : α} (h : (k, v) ∈ d) : k ∈ keys d :=
  List.mem_map.mpr ⟨(k, v), h, rfl⟩

theorem get?_of_mem_nodup {d : Dict κ α} {k : κ} {v : α} (nd : (keys d).Nodup) (h : (k, v) ∈ d) :
    get? d k = some v := by
  induction d with
  | nil => simp at h
  | cons x d ih =>
    obtain ⟨k', v'⟩ := x
    simp only [keys_cons, List.nodup_cons] at nd
    rcases List.mem_cons.mp h with h | h
    · cases h; simp [get?]
    · have : k' ≠ k := fun e => nd.1 (e ▸ mem_keys_of_mem h)
      simp [get?, this, ih nd.2 h]

theorem get?_set (d : Dict κ α) (k k' : κ) (v : α) :
    get? (set d k v) k' = if k = k' then some v else get? d k' := by
  induction d with
  | nil => simp [set, get?]
  | cons x d ih =>
    obtain ⟨k₀, v₀⟩ := x
    by_cases h : k₀ = k
    · subst h; by_cases h' : k₀ = k' <;> simp [set, get?, h']
    · by_cases h' : k₀ = k'
      · subst h'; simp [set, get?, h]; exact fun e => absurd e.symm h
      · simp [set, get?, h, h', ih]

theorem get?_set_self (d : Dict κ α) (k : κ) (v : α) : get? (set d k v) k = some v := by
  simp [get?_set]

theorem get?_set_ne (d : Dict κ α) {k k' : κ} (v : α) (h : k ≠ k') : get? (set d k v) k' = get? d k' := by
  simp [get?_set, h]

theorem keys_set (d : Dict κ α) (k : κ) (v : α) :
    keys (set d k v) = if k ∈ keys d then keys d else keys d ++ [k] := by
  induction d with
  | nil => simp [set]
  | cons x d ih =>
    obtain ⟨k₀, v₀⟩ := x
    by_cases h : k₀ = k
    · subst h; simp [set]
    · have h' : ¬ k = k₀ := fun e => h e.symm
      simp only [set, h, ↓reduceIte, keys_cons, List.mem_cons, h', false_or, ih]
      split <;> simp

theorem mem_keys_set {d : Dict κ α} {k k' : κ} {v : α} : k' ∈ keys (set d k v) ↔ k' ∈ keys d ∨ k' = k := by
  rw [keys_set]; split
  · constructor
    · exact Or.inl
    · rintro (h | h); exact h; subst h; assumption
  · simp

theorem nodup_keys_set {d : Dict κ α} (k : κ) (v : α) (nd : (keys d).Nodup) : (keys (set d k v)).Nodup := by
  rw [keys_set]; split
  · exact nd
  · rename_i h
    exact List.nodup_append.mpr ⟨nd, by simp, by intro a ha b hb; simp at hb; subst hb; exact fun e => h (e ▸ ha)⟩

theorem mem_set_of_mem_ne {d : Dict κ α} {k k' : κ} {v v' : α} (h : (k', v') ∈ d) (hne : k' ≠ k) :
    (k', v') ∈ set d k v := by
  induction d with
  | nil => simp at h
  | cons x d ih =>
    obtain ⟨k₀, v₀⟩ := x
    by_cases h0 : k₀ = k
    · subst h0
      rcases List.mem_cons.mp h with h | h
      · cases h; exact absurd rfl hne
      · simp [set, h]
    · simp only [set, h0, ↓reduceIte]
      rcases List.mem_cons.mp h with h | h
      · cases h; simp
      · exact List.mem_cons_of_mem _ (ih h)


theorem keys_erase (d : Dict κ α) (k : κ) : keys (erase d k) = (keys d).filter (fun k' => k' ≠ k) := by
  induction d with
  | nil => rfl
  | cons x d ih =>
    obtain ⟨k₀, v₀⟩ := x
    by_cases h : k₀ = k
    · subst h; simpa [erase, List.filter] using ih
    · have : keys (erase d k) = List.filter (fun k' => decide (k' ≠ k)) (keys d) := ih
      simp [erase, List.filter, h] at this ⊢; exact this

theorem mem_keys_erase {d : Dict κ α} {k k' : κ} : k' ∈ keys (erase d k) ↔ k' ∈ keys d ∧ k' ≠ k := by
  rw [keys_erase]; simp

theorem nodup_keys_erase {d : Dict κ α} (k : κ) (nd : (keys d).Nodup) : (keys (erase d k)).Nodup := by
  rw [keys_erase]; exact nd.filter _

theorem mem_erase {d : Dict κ α} {k : κ} {x : κ × α} : x ∈ erase d k ↔ x ∈ d ∧ x.1 ≠ k := by
  simp [erase]

theorem get?_erase (d : Dict κ α) (k k' : κ) : get? (erase d k) k' = if k' = k then none else get? d k' := by
  induction d with
  | nil => simp [erase, get?]
  | cons x d ih =>
    obtain ⟨k₀, v₀⟩ := x
    have ih' : get? (List.filter (fun kv => decide (kv.1 ≠ k)) d) k' = if k' = k then none else get? d k' := ih
    by_cases h : k₀ = k
    · subst h
      by_cases h' : k' = k₀
      · simp [erase, List.filter, h'] at ih' ⊢; exact ih'
      · have : ¬ k₀ = k' := fun e => h' e.symm
        simp [erase, List.filter, get?, h', this] at ih' ⊢; exact ih'
    · by_cases h' : k₀ = k'
      · subst h'; simp [erase, List.filter, get?, h]
      · simp [erase, List.filter, get?, h, h'] at ih' ⊢; exact ih'

theorem length_erase_le (d : Dict κ α) (k : κ) : (erase d k).length ≤ d.length := List.length_filter_le _ _

theorem length_erase_lt {d : Dict κ α} {k : κ} (h : k ∈ keys d) : (erase d k).length < d.length := by
  induction d with
  | nil => simp at h
  | cons x d ih =>
    obtain ⟨k₀, v₀⟩ := x
    by_cases h0 : k₀ = k
    · subst h0
      have := length_erase_le d k₀
      have e : erase ((k₀, v₀) :: d) k₀ = erase d k₀ := by simp [erase, List.filter]
      rw [e]; simp only [List.length_cons]; omega
    · have hk : k ∈ keys d := by
        rcases List.mem_cons.mp h with e | e
        · exact absurd e.symm h0
        · exact e
      have := ih hk
      have e : erase ((k₀, v₀) :: d) k = (k₀, v₀) :: erase d k := by simp [erase, List.filter, h0]
      rw [e]; simp only [List.length_cons]; omega

@[simp] theorem eraseAll_nil (d : Dict κ α) : eraseAll d [] = d := rfl
@[simp] theorem eraseAll_cons (d : Dict κ α) (k : κ) (ks : List κ) : eraseAll d (k :: ks) = eraseAll (erase d k) ks := rfl

theorem eraseAll_append (d : Dict κ α) (ks ks' : List κ) : eraseAll d (ks ++ ks') = eraseAll (eraseAll d ks) ks' := by
  simp [eraseAll, List.foldl_append]

theorem get?_eraseAll (d : Dict κ α) (ks : List κ) (k' : κ) :
    get? (eraseAll d ks) k' = if k' ∈ ks then none else get? d k' := by
  induction ks generalizing d with
  | nil => simp
  | cons k ks ih =>
    rw [eraseAll_cons, ih, get?_erase]
    by_cases h : k' = k
    · subst h; simp
    · by_cases h' : k' ∈ ks <;> simp [h, h']

theorem mem_keys_eraseAll {d : Dict κ α} {ks : List κ} {k' : κ} : k' ∈ keys (eraseAll d ks) ↔ k' ∈ keys d ∧ k' ∉ ks := by
  rw [← get?_isSome_iff, get?_eraseAll, ← get?_isSome_iff]
  by_cases h : k' ∈ ks <;> simp [h]

theorem nodup_keys_eraseAll {d : Dict κ α} (ks : List κ) (nd : (keys d).Nodup) : (keys (eraseAll d ks)).Nodup := by
  induction ks generalizing d with
  | nil => exact nd
  | cons k ks ih => exact ih (nodup_keys_erase k nd)

theorem mem_eraseAll {d : Dict κ α} {ks : List κ} {x : κ × α} : x ∈ eraseAll d ks ↔ x ∈ d ∧ x.1 ∉ ks := by
  induction ks generalizing d with
  | nil => simp
  | cons k ks ih =>
    rw [eraseAll_cons, ih, mem_erase]; simp only [List.mem_cons, not_or]
    constructor
    · rintro ⟨⟨a, b⟩, c⟩; exact ⟨a, b, c⟩
    · rintro ⟨a, b, c⟩; exact ⟨⟨a, b⟩, c⟩

end Dict

/-! ### invariant -/

/-- The bookkeeping invariant: the age table only describes cached entries,
and both association lists are dictionaries (no duplicate keys). -/
structure Inv (s : State κ ν) : Prop where
  sub : ∀ k, k ∈ keys s.last → k ∈ keys s.data
  ndData : (keys s.data).Nodup
  ndLast : (keys s.last).Nodup

/-- the fields `cleanup_cache` never writes -/
def SameSettings (s s' : State κ ν) : Prop :=
  s'.count = s.count ∧ s'.imp = s.imp ∧ s'.period = s.period ∧ s'.thr = s.thr

theorem SameSettings.refl (s : State κ ν) : SameSettings s s := ⟨rfl, rfl, rfl, rfl⟩
theorem SameSettings.trans {s s' s'' : State κ ν} (a : SameSettings s s') (b : SameSettings s' s'') :
    SameSettings s s'' :=
  ⟨b.1.trans a.1, b.2.1.trans a.2.1, b.2.2.1.trans a.2.2.1, b.2.2.2.trans a.2.2.2⟩

/-- what an entry must satisfy to be evicted: positive importance and a
`last_accessed` stamp more than one calculation old -/
def Evictable (s : State κ ν) (k : κ) : Prop :=
  0 < impOf s k ∧ ∃ t, (k, t) ∈ s.last ∧ 1 < age s t

theorem impOf_congr {s s' : State κ ν} (h : s'.imp = s.imp) (k : κ) : impOf s' k = impOf s k := by
  simp [impOf, h]

theorem age_congr {s s' : State κ ν} (h : s'.count = s.count) (t : Nat) : age s' t = age s t := by
  simp [age, h]

/-! ### strain -/

theorem imp_pos_of_strain_pos {z : Sizes κ ν} (hz : z.RndOK) {s : State κ ν} {k : κ} {t : Nat} {v : ν}
    (ha : 1 < age s t) (h : 0 < strainOf z s k t v) : 0 < impOf s k := by
  apply Decidable.byContradiction
  intro hn
  have hi : impOf s k ≤ 0 := Rat.not_lt.mp hn
  have h1 : (0 : Rat) ≤ ((age s t : Int) : Rat) := Rat.intCast_nonneg.mpr (by omega)
  have h2 : (0 : Rat) ≤ ((z.sz1 v : Nat) : Rat) := Rat.natCast_nonneg
  have h3 := Rat.mul_nonneg (Rat.mul_nonneg h1 h2) (show 0 ≤ -impOf s k by grind)
  have h4 : ((age s t : Int) : Rat) * ((z.sz1 v : Nat) : Rat) * impOf s k ≤ 0 := by
    rw [Rat.mul_neg] at h3; grind
  have := hz.2 _ h4
  unfold strainOf at h
  grind

/-! ### deletions -/

theorem delPair_spec {s s' : State κ ν} {k : κ} (h : delPair s k = .ok s') :
    s'.data = erase s.data k ∧ s'.last = erase s.last k ∧ SameSettings s s' ∧ k ∈ keys s.data ∧ k ∈ keys s.last := by
  unfold delPair at h
  split at h
  · cases h
  · split at h
    · cases h
    · rename_i h1 h2
      cases h
      refine ⟨rfl, rfl, SameSettings.refl _, ?_, ?_⟩
      · exact contains_iff.mp (by cases hc : contains s.data k <;> simp_all)
      · exact contains_iff.mp (by cases hc : contains s.last k <;> simp_all)

theorem delPair_ok {s : State κ ν} {k : κ} (hd : k ∈ keys s.data) (hl : k ∈ keys s.last) :
    delPair s k = .ok { s with data := erase s.data k, last := erase s.last k } := by
  unfold delPair
  rw [contains_iff.mpr hd, contains_iff.mpr hl]; simp

theorem Inv.delPair {s s' : State κ ν} {k : κ} (hi : Inv s) (h : delPair s k = .ok s') : Inv s' := by
  obtain ⟨hd, hl, _, _, _⟩ := delPair_spec h
  refine ⟨?_, ?_, ?_⟩
  · intro k' hk'
    rw [hl] at hk'; rw [hd]
    have := mem_keys_erase.mp hk'
    exact mem_keys_erase.mpr ⟨hi.sub _ this.1, this.2⟩
  · rw [hd]; exact nodup_keys_erase _ hi.ndData
  · rw [hl]; exact nodup_keys_erase _ hi.ndLast

theorem Evictable.of_delPair {s s' : State κ ν} {k k' : κ} (h : delPair s k = .ok s') (he : Evictable s' k') :
    Evictable s k' := by
  obtain ⟨_, hl, hs, _, _⟩ := delPair_spec h
  obtain ⟨hp, t, ht, ha⟩ := he
  refine ⟨by rw [← impOf_congr hs.2.1]; exact hp, t, ?_, by rw [← age_congr hs.1]; exact ha⟩
  rw [hl] at ht; exact (mem_erase.mp ht).1

theorem delAll_spec {s s' : State κ ν} {ks : List κ} (h : delAll s ks = .ok s') :
    s'.data = eraseAll s.data ks ∧ s'.last = eraseAll s.last ks ∧ SameSettings s s'
      ∧ s'.last.length + ks.length ≤ s.last.length := by
  induction ks generalizing s with
  | nil => simp [delAll] at h; cases h; exact ⟨rfl, rfl, SameSettings.refl _, by simp⟩
  | cons k ks ih =>
    unfold delAll at h
    cases h1 : delPair s k with
    | error e => simp [h1] at h
    | ok s1 =>
      simp only [h1] at h
      obtain ⟨a, b, c, d⟩ := ih h
      obtain ⟨a1, b1, c1, _, e1⟩ := delPair_spec h1
      refine ⟨by rw [a, a1]; rfl, by rw [b, b1]; rfl, c1.trans c, ?_⟩
      have := length_erase_lt e1
      rw [b1] at d; simp only [List.length_cons]; omega

theorem delAll_ok {s : State κ ν} {ks : List κ} (nd : ks.Nodup)
    (hk : ∀ k ∈ ks, k ∈ keys s.data ∧ k ∈ keys s.last) : ∃ s', delAll s ks = .ok s' := by
  induction ks generalizing s with
  | nil => exact ⟨s, rfl⟩
  | cons k ks ih =>
    have ⟨hd, hl⟩ := hk k (by simp)
    unfold delAll
    rw [delPair_ok hd hl]
    simp only [List.nodup_cons] at nd
    apply ih nd.2
    intro k' hk'
    have hne : k' ≠ k := fun e => nd.1 (e ▸ hk')
    have ⟨a, b⟩ := hk k' (List.mem_cons_of_mem _ hk')
    exact ⟨mem_keys_erase.mpr ⟨a, hne⟩, mem_keys_erase.mpr ⟨b, hne⟩⟩

theorem Inv.delAll {s s' : State κ ν} {ks : List κ} (hi : Inv s) (h : delAll s ks = .ok s') : Inv s' := by
  induction ks generalizing s with
  | nil => simp [Cache.delAll] at h; cases h; exact hi
  | cons k ks ih =>
    unfold Cache.delAll at h
    cases h1 : Cache.delPair s k with
    | error e => simp [h1] at h
    | ok s1 => simp only [h1] at h; exact ih (hi.delPair h1) h

/-! ### first pass -/

theorem lookup_ok_iff {d : Dict κ α} {k : κ} {v : α} : lookup d k = .ok v ↔ get? d k = some v := by
  unfold lookup; cases get? d k <;> simp

theorem lookup_of_mem {d : Dict κ α} {k : κ} (h : k ∈ keys d) : ∃ v, lookup d k = .ok v ∧ get? d k = some v := by
  cases hg : get? d k with
  | none => exact absurd h (get?_eq_none_iff.mp hg)
  | some v => exact ⟨v, by simp [lookup, hg], rfl⟩

theorem pass1_spec {z : Sizes κ ν} {s : State κ ν} {tol : Nat} {l : List (κ × Nat)} {ks : List κ}
    (h : pass1 z s tol l = .ok ks) :
    ks.Sublist (keys l) ∧
    ∀ k ∈ ks, ∃ t v, (k, t) ∈ l ∧ get? s.data k = some v ∧ 1 < age s t ∧ (tol : Rat) < strainOf z s k t v := by
  induction l generalizing ks with
  | nil => simp [pass1] at h; subst h; simp
  | cons x l ih =>
    obtain ⟨k, t⟩ := x
    unfold pass1 at h
    cases h1 : strain1 z s k t with
    | error e => simp [h1] at h
    | ok st =>
      simp only [h1] at h
      cases h2 : pass1 z s tol l with
      | error e => simp [h2] at h
      | ok ks' =>
        simp only [h2] at h
        obtain ⟨sub, hks⟩ := ih h2
        have hks' : ∀ k' ∈ ks', ∃ t' v, (k', t') ∈ (k, t) :: l ∧ get? s.data k' = some v ∧ 1 < age s t'
            ∧ (tol : Rat) < strainOf z s k' t' v := by
          intro k' hk'
          obtain ⟨t', v', a, b⟩ := hks k' hk'
          exact ⟨t', v', List.mem_cons_of_mem _ a, b⟩
        by_cases hst : (tol : Rat) < st
        · have : ks = k :: ks' := by
            have := h; simp only [GT.gt, hst, ↓reduceIte] at this; cases this; rfl
          subst this
          refine ⟨by simpa using sub.cons_cons k, ?_⟩
          intro k' hk'
          rcases List.mem_cons.mp hk' with e | e
          · subst e
            unfold strain1 at h1
            cases hl : lookup s.data k' with
            | error e => simp [hl] at h1
            | ok v =>
              simp only [hl] at h1
              by_cases ha : age s t > 1
              · simp only [ha, ↓reduceIte] at h1; cases h1
                exact ⟨t, v, by simp, lookup_ok_iff.mp hl, ha, hst⟩
              · simp only [ha, ↓reduceIte] at h1; cases h1
                exact absurd hst (Rat.not_lt.mpr Rat.natCast_nonneg)
          · exact hks' k' e
        · have : ks = ks' := by
            have := h; simp only [GT.gt, hst, ↓reduceIte] at this; cases this; rfl
          subst this
          exact ⟨by simpa using sub.cons k, hks'⟩

theorem pass1_ok {z : Sizes κ ν} {s : State κ ν} {tol : Nat} {l : List (κ × Nat)}
    (h : ∀ x ∈ l, x.1 ∈ keys s.data) : ∃ ks, pass1 z s tol l = .ok ks := by
  induction l with
  | nil => exact ⟨[], rfl⟩
  | cons x l ih =>
    obtain ⟨k, t⟩ := x
    obtain ⟨ks, hks⟩ := ih (fun x hx => h x (List.mem_cons_of_mem _ hx))
    obtain ⟨v, hv, _⟩ := lookup_of_mem (h (k, t) (by simp))
    unfold pass1
    have : ∃ st, strain1 z s k t = .ok st := by
      unfold strain1; simp only [hv]; split <;> exact ⟨_, rfl⟩
    obtain ⟨st, hst⟩ := this
    simp only [hst, hks]
    exact ⟨_, rfl⟩

/-! ### the scan inside the while loop -/

/-- invariant of the `(maxstrain, key_to_remove)` accumulator -/
def ScanAcc (z : Sizes κ ν) (s : State κ ν) (acc : Rat × Option κ) : Prop :=
  0 ≤ acc.1 ∧ (acc.1 ≠ 0 → ∃ k t v, acc.2 = some k ∧ (k, t) ∈ s.last ∧ 1 < age s t
    ∧ get? s.data k = some v ∧ strainOf z s k t v = acc.1)

theorem scanAcc_init (z : Sizes κ ν) (s : State κ ν) : ScanAcc z s (0, none) :=
  ⟨Rat.le_refl, fun h => absurd rfl h⟩

theorem scan_spec {z : Sizes κ ν} {s : State κ ν} {l : List (κ × Nat)} {acc r : Rat × Option κ}
    (hl : ∀ x ∈ l, x ∈ s.last) (hacc : ScanAcc z s acc) (h : scan z s l acc = .ok r) : ScanAcc z s r := by
  induction l generalizing acc with
  | nil => simp [scan] at h; subst h; exact hacc
  | cons x l ih =>
    obtain ⟨k, t⟩ := x
    obtain ⟨m, b⟩ := acc
    have hl' : ∀ x ∈ l, x ∈ s.last := fun x hx => hl x (List.mem_cons_of_mem _ hx)
    unfold scan at h
    by_cases ha : age s t > 1
    · simp only [ha, ↓reduceIte] at h
      cases hv : lookup s.data k with
      | error e => simp [hv] at h
      | ok v =>
        simp only [hv] at h
        by_cases hst : strainOf z s k t v > m
        · simp only [hst, ↓reduceIte] at h
          refine ih hl' ?_ h
          have hm : 0 ≤ m := hacc.1
          refine ⟨by show (0:Rat) ≤ strainOf z s k t v; grind, fun _ => ?_⟩
          exact ⟨k, t, v, rfl, hl _ (by simp), ha, lookup_ok_iff.mp hv, rfl⟩
        · simp only [hst, ↓reduceIte] at h
          exact ih hl' hacc h
    · simp only [ha, ↓reduceIte] at h
      exact ih hl' hacc h

theorem scan_ok {z : Sizes κ ν} {s : State κ ν} {l : List (κ × Nat)} (acc : Rat × Option κ)
    (h : ∀ x ∈ l, x.1 ∈ keys s.data) : ∃ r, scan z s l acc = .ok r := by
  induction l generalizing acc with
  | nil => exact ⟨acc, rfl⟩
  | cons x l ih =>
    obtain ⟨k, t⟩ := x
    obtain ⟨m, b⟩ := acc
    have h' : ∀ x ∈ l, x.1 ∈ keys s.data := fun x hx => h x (List.mem_cons_of_mem _ hx)
    obtain ⟨v, hv, _⟩ := lookup_of_mem (h (k, t) (by simp))
    unfold scan
    by_cases ha : age s t > 1
    · simp only [ha, ↓reduceIte, hv]
      split
      · exact ih _ h'
      · exact ih _ h'
    · simp only [ha, ↓reduceIte]
      exact ih _ h'

theorem scan_ne_fuel {z : Sizes κ ν} {s : State κ ν} (l : List (κ × Nat)) (acc : Rat × Option κ) :
    scan z s l acc ≠ .error .fuel := by
  induction l generalizing acc with
  | nil => simp [scan]
  | cons x l ihl =>
    obtain ⟨k, t⟩ := x
    obtain ⟨m, b⟩ := acc
    unfold scan
    by_cases ha : age s t > 1
    · simp only [ha, ↓reduceIte]
      cases hg : get? s.data k with
      | none => simp [lookup, hg]
      | some v =>
        simp only [lookup, hg]
        split <;> exact ihl _
    · simp only [ha, ↓reduceIte]; exact ihl _

/-! ### the while loop -/

theorem loop_unfold (z : Sizes κ ν) (fuel : Nat) (s : State κ ν) (total : Nat) (ev : List κ) :
    loop z fuel s total ev =
      if (total : Rat) < s.thr then .ok (s, ev)
      else
        match scan z s s.last (0, none) with
        | .error e => .error e
        | .ok (m, b) =>
          if m = 0 then .ok (s, ev)
          else
            match b with
            | none => .error .typeError
            | some k =>
              match fuel with
              | 0 => .error .fuel
              | f + 1 =>
                match delPair s k with
                | .error e => .error e
                | .ok s' => loop z f s' (total2 z s'.data) (ev ++ [k]) := by
  conv => lhs; unfold loop
  rfl

theorem loop_spec {z : Sizes κ ν} (hz : z.RndOK) (fuel : Nat) : ∀ (s : State κ ν) (total : Nat) (ev : List κ)
    (s' : State κ ν) (ev' : List κ), loop z fuel s total ev = .ok (s', ev') →
    ∃ ks, ev' = ev ++ ks ∧ s'.data = eraseAll s.data ks ∧ s'.last = eraseAll s.last ks ∧ SameSettings s s'
      ∧ (∀ k ∈ ks, Evictable s k) ∧ s'.last.length + ks.length ≤ s.last.length ∧ ks.length ≤ fuel := by
  induction fuel with
  | zero =>
    intro s total ev s' ev' h
    rw [loop_unfold] at h
    split at h
    · cases h; exact ⟨[], by simp, rfl, rfl, SameSettings.refl _, by simp, by simp, by simp⟩
    · split at h
      · cases h
      · split at h
        · cases h; exact ⟨[], by simp, rfl, rfl, SameSettings.refl _, by simp, by simp, by simp⟩
        · split at h <;> cases h
  | succ f ih =>
    intro s total ev s' ev' h
    rw [loop_unfold] at h
    split at h
    · cases h; exact ⟨[], by simp, rfl, rfl, SameSettings.refl _, by simp, by simp, by simp⟩
    · split at h
      · cases h
      · rename_i m b hscan
        split at h
        · cases h; exact ⟨[], by simp, rfl, rfl, SameSettings.refl _, by simp, by simp, by simp⟩
        · rename_i hm
          split at h
          · cases h
          · rename_i k
            simp only at h
            cases hd : delPair s k with
            | error e => simp [hd] at h
            | ok s1 =>
              simp only [hd] at h
              obtain ⟨ks, e1, e2, e3, e4, e5, e6, e7⟩ := ih _ _ _ _ _ h
              obtain ⟨d1, d2, d3, _, d5⟩ := delPair_spec hd
              have hacc := scan_spec (fun x hx => hx) (scanAcc_init z s) hscan
              obtain ⟨k', t, v, hb, hmem, hage, hget, hstr⟩ := hacc.2 hm
              simp only [Option.some.injEq] at hb
              subst hb
              have hpos : 0 < strainOf z s k t v := by
                have := hacc.1; rw [hstr]
                rcases Rat.le_iff_lt_or_eq.mp this with h | h
                · exact h
                · exact absurd h.symm hm
              refine ⟨k :: ks, by simp [e1], by rw [e2, d1]; rfl, by rw [e3, d2]; rfl, d3.trans e4, ?_, ?_, ?_⟩
              · intro k'' hk''
                rcases List.mem_cons.mp hk'' with e | e
                · subst e; exact ⟨imp_pos_of_strain_pos hz hage hpos, t, hmem, hage⟩
                · exact Evictable.of_delPair hd (e5 _ e)
              · have := length_erase_lt d5
                rw [d2] at e6; simp only [List.length_cons]; omega
              · simp only [List.length_cons]; omega

theorem loop_no_fuel {z : Sizes κ ν} (fuel : Nat) : ∀ (s : State κ ν) (total : Nat) (ev : List κ),
    s.last.length ≤ fuel → loop z fuel s total ev ≠ .error .fuel := by
  induction fuel with
  | zero =>
    intro s total ev hlen h
    have hnil : s.last = [] := List.eq_nil_of_length_eq_zero (by omega)
    rw [loop_unfold, hnil] at h
    simp [scan] at h
  | succ f ih =>
    intro s total ev hlen h
    rw [loop_unfold] at h
    split at h
    · cases h
    · split at h
      · rename_i e hscan
        cases h
        exact scan_ne_fuel _ _ hscan
      · rename_i m b hscan
        split at h
        · cases h
        · rename_i hm
          split at h
          · cases h
          · rename_i k
            simp only at h
            cases hd : delPair s k with
            | error e =>
              simp only [hd] at h; cases h
              unfold delPair at hd; split at hd
              · cases hd
              · split at hd <;> cases hd
            | ok s1 =>
              simp only [hd] at h
              obtain ⟨_, d2, _, _, d5⟩ := delPair_spec hd
              have := length_erase_lt d5
              exact ih s1 _ _ (by rw [d2]; omega) h

theorem loop_ok {z : Sizes κ ν} (fuel : Nat) : ∀ (s : State κ ν) (total : Nat) (ev : List κ),
    Inv s → s.last.length ≤ fuel → ∃ r, loop z fuel s total ev = .ok r := by
  induction fuel with
  | zero =>
    intro s total ev _ hlen
    have hnil : s.last = [] := List.eq_nil_of_length_eq_zero (by omega)
    rw [loop_unfold, hnil]
    simp only [scan]
    split <;> exact ⟨_, rfl⟩
  | succ f ih =>
    intro s total ev hi hlen
    rw [loop_unfold]
    split
    · exact ⟨_, rfl⟩
    · obtain ⟨⟨m, b⟩, hscan⟩ := scan_ok (z := z) (s := s) (0, none)
        (fun x hx => hi.sub _ (mem_keys_of_mem (v := x.2) hx))
      simp only [hscan]
      split
      · exact ⟨_, rfl⟩
      · rename_i hm
        have hacc := scan_spec (fun x hx => hx) (scanAcc_init z s) hscan
        obtain ⟨k, t, v, hb, hmem, _, hget, _⟩ := hacc.2 hm
        cases hb
        simp only
        have hl : k ∈ keys s.last := mem_keys_of_mem hmem
        rw [delPair_ok (hi.sub _ hl) hl]
        simp only
        apply ih
        · exact hi.delPair (delPair_ok (hi.sub _ hl) hl)
        · have := length_erase_lt hl
          show (erase s.last k).length ≤ f; omega

/-! ### cleanup_cache as a whole -/

theorem pass1_ne_fuel {z : Sizes κ ν} {s : State κ ν} {tol : Nat} (l : List (κ × Nat)) :
    pass1 z s tol l ≠ .error .fuel := by
  induction l with
  | nil => simp [pass1]
  | cons x l ih =>
    obtain ⟨k, t⟩ := x
    unfold pass1
    cases h1 : strain1 z s k t with
    | error e =>
      simp only
      unfold strain1 lookup at h1
      cases hg : get? s.data k with
      | none => simp [hg] at h1; subst h1; simp
      | some v => simp only [hg] at h1; split at h1 <;> cases h1
    | ok st =>
      simp only
      cases h2 : pass1 z s tol l with
      | error e => simp only; intro h; cases h; exact ih h2
      | ok ks => simp

theorem delAll_ne_fuel {s : State κ ν} (ks : List κ) : delAll s ks ≠ .error .fuel := by
  induction ks generalizing s with
  | nil => simp [delAll]
  | cons k ks ih =>
    unfold delAll
    cases hd : delPair s k with
    | error e =>
      simp only; intro h; cases h
      unfold delPair at hd; split at hd
      · cases hd
      · split at hd <;> cases hd
    | ok s1 => simp only; exact ih

theorem Evictable.of_delAll {s s' : State κ ν} {ks : List κ} {k : κ} (h : delAll s ks = .ok s')
    (he : Evictable s' k) : Evictable s k := by
  obtain ⟨_, hl, hs, _⟩ := delAll_spec h
  obtain ⟨hp, t, ht, ha⟩ := he
  refine ⟨by rw [← impOf_congr hs.2.1]; exact hp, t, ?_, by rw [← age_congr hs.1]; exact ha⟩
  rw [hl] at ht; exact (mem_eraseAll.mp ht).1

/-- Everything `cleanup_cache` does, in one statement. -/
theorem cleanup_spec {z : Sizes κ ν} (hz : z.RndOK) {s s' : State κ ν} {ev : List κ}
    (h : cleanup z s = .ok (s', ev)) :
    s'.data = eraseAll s.data ev ∧ s'.last = eraseAll s.last ev ∧ SameSettings s s'
      ∧ (∀ k ∈ ev, Evictable s k) ∧ s'.last.length + ev.length ≤ s.last.length := by
  unfold cleanup at h
  split at h
  · cases h
  · simp only at h
    split at h
    · cases h1 : pass1 z s (s.period * z.scalar) s.last with
      | error e => simp [h1] at h
      | ok ks =>
        simp only [h1] at h
        cases h2 : delAll s ks with
        | error e => simp [h2] at h
        | ok s1 =>
          simp only [h2] at h
          cases h3 : loop z s1.last.length s1 (total1 z s1.data) [] with
          | error e => simp [h3] at h
          | ok r =>
            obtain ⟨s2, ev2⟩ := r
            simp only [h3, Except.ok.injEq, Prod.mk.injEq] at h
            obtain ⟨rfl, rfl⟩ := h
            obtain ⟨a1, a2, a3, a4⟩ := delAll_spec h2
            obtain ⟨ks2, b1, b2, b3, b4, b5, b6, _⟩ := loop_spec hz _ _ _ _ _ _ h3
            simp only [List.nil_append] at b1; subst b1
            obtain ⟨_, hks⟩ := pass1_spec h1
            refine ⟨by rw [b2, a1, eraseAll_append], by rw [b3, a2, eraseAll_append], a3.trans b4, ?_, ?_⟩
            · intro k hk
              rcases List.mem_append.mp hk with hk | hk
              · obtain ⟨t, v, m1, _, m3, m4⟩ := hks k hk
                have : (0 : Rat) < strainOf z s k t v := by
                  have : (0 : Rat) ≤ ((s.period * z.scalar : Nat) : Rat) := Rat.natCast_nonneg
                  grind
                exact ⟨imp_pos_of_strain_pos hz m3 this, t, m1, m3⟩
              · exact Evictable.of_delAll h2 (b5 k hk)
            · simp only [List.length_append]; omega
    · cases h; exact ⟨rfl, rfl, SameSettings.refl _, by simp, by simp⟩

theorem cleanup_no_fuel (z : Sizes κ ν) (s : State κ ν) : cleanup z s ≠ .error .fuel := by
  unfold cleanup
  split
  · simp
  · simp only
    split
    · cases h1 : pass1 z s (s.period * z.scalar) s.last with
      | error e => simp only; intro h; cases h; exact pass1_ne_fuel _ h1
      | ok ks =>
        simp only
        cases h2 : delAll s ks with
        | error e => simp only; intro h; cases h; exact delAll_ne_fuel _ h2
        | ok s1 =>
          simp only
          cases h3 : loop z s1.last.length s1 (total1 z s1.data) [] with
          | error e => simp only; intro h; cases h; exact loop_no_fuel _ _ _ _ (Nat.le_refl _) h3
          | ok r => simp
    · simp

theorem cleanup_ok {z : Sizes κ ν} {s : State κ ν} (hi : Inv s) (hp : 1 ≤ s.period) :
    ∃ r, cleanup z s = .ok r := by
  unfold cleanup
  have : ¬ s.period = 0 := by omega
  simp only [this, ↓reduceIte]
  split
  · obtain ⟨ks, h1⟩ := pass1_ok (z := z) (s := s) (tol := s.period * z.scalar) (l := s.last)
      (fun x hx => hi.sub _ (mem_keys_of_mem (v := x.2) hx))
    simp only [h1]
    obtain ⟨sub, hks⟩ := pass1_spec h1
    have nd : ks.Nodup := List.Nodup.sublist sub hi.ndLast
    obtain ⟨s1, h2⟩ := delAll_ok (s := s) nd (fun k hk => by
      have := sub.subset hk
      exact ⟨hi.sub _ this, this⟩)
    simp only [h2]
    obtain ⟨r, h3⟩ := loop_ok (z := z) s1.last.length s1 (total1 z s1.data) [] (hi.delAll h2) (Nat.le_refl _)
    simp only [h3]
    exact ⟨_, rfl⟩
  · exact ⟨_, rfl⟩

theorem Inv.eraseAll {s s' : State κ ν} {ev : List κ} (hi : Inv s) (hd : s'.data = eraseAll s.data ev)
    (hl : s'.last = eraseAll s.last ev) : Inv s' := by
  refine ⟨?_, ?_, ?_⟩
  · intro k hk
    rw [hl] at hk; rw [hd]
    have := mem_keys_eraseAll.mp hk
    exact mem_keys_eraseAll.mpr ⟨hi.sub _ this.1, this.2⟩
  · rw [hd]; exact nodup_keys_eraseAll _ hi.ndData
  · rw [hl]; exact nodup_keys_eraseAll _ hi.ndLast

theorem Inv.cleanup {z : Sizes κ ν} (hz : z.RndOK) {s s' : State κ ν} {ev : List κ} (hi : Inv s)
    (h : cleanup z s = .ok (s', ev)) : Inv s' := by
  obtain ⟨a, b, _⟩ := cleanup_spec hz h
  exact hi.eraseAll a b

/-! ### the other operations -/

theorem Inv.hit {s : State κ ν} {k : κ} (hi : Inv s) (hk : k ∈ keys s.data) : Inv (hit s k) := by
  refine ⟨?_, hi.ndData, nodup_keys_set _ _ hi.ndLast⟩
  intro k' hk'
  rcases mem_keys_set.mp hk' with h | h
  · exact hi.sub _ h
  · subst h; exact hk

theorem Inv.assign {s : State κ ν} (k : κ) (v : ν) (hi : Inv s) : Inv (assign s k v) :=
  ⟨fun _ hk' => mem_keys_set.mpr (Or.inl (hi.sub _ hk')), nodup_keys_set _ _ hi.ndData, hi.ndLast⟩

theorem Inv.freeze {s : State κ ν} (hi : Inv s) : Inv (freeze s) := ⟨hi.sub, hi.ndData, hi.ndLast⟩

theorem Inv.assignFrozen {s : State κ ν} (k : κ) (v : ν) (hi : Inv s) : Inv (assignFrozen s k v) :=
  ⟨fun _ hk' => mem_keys_set.mpr (Or.inl (hi.sub _ hk')), nodup_keys_set _ _ hi.ndData, hi.ndLast⟩

theorem Inv.setImp {s : State κ ν} (k : κ) (q : Rat) (hi : Inv s) : Inv (setImp s k q) :=
  ⟨hi.sub, hi.ndData, hi.ndLast⟩

theorem Inv.assignAll {s : State κ ν} (kvs : List (κ × ν)) (hi : Inv s) :
    Inv (kvs.foldl (fun s kv => Cache.assign s kv.1 kv.2) s) := by
  induction kvs generalizing s with
  | nil => exact hi
  | cons x kvs ih => exact ih (hi.assign _ _)

theorem Inv.loadData {s : State κ ν} (kvs : List (κ × ν)) (hi : Inv s) : Inv (loadData s kvs) :=
  (hi.assignAll kvs).freeze

/-- the state on which `store` runs `cleanup_cache` -/
def stored (s : State κ ν) (k : κ) (v : ν) : State κ ν :=
  { s with data := set s.data k v, count := s.count + 1, last := set s.last k (s.count + 1) }

theorem Inv.stored {s : State κ ν} (k : κ) (v : ν) (hi : Inv s) : Inv (stored s k v) := by
  refine ⟨?_, nodup_keys_set _ _ hi.ndData, nodup_keys_set _ _ hi.ndLast⟩
  intro k' hk'
  rcases mem_keys_set.mp hk' with h | h
  · exact mem_keys_set.mpr (Or.inl (hi.sub _ h))
  · exact mem_keys_set.mpr (Or.inr h)

theorem store_eq (z : Sizes κ ν) (s : State κ ν) (k : κ) (v : ν) :
    store z s k v =
      match cleanup z (stored s k v) with
      | .error e => .error e
      | .ok (s3, ev) =>
        match lookup s3.data k with
        | .error e => .error e
        | .ok r => .ok (s3, ev, r) := rfl

/-- the entry just stored is never evicted by its own clean-up (its age is 0) -/
theorem not_evictable_stored {s : State κ ν} (k : κ) (v : ν) (hi : Inv s) : ¬ Evictable (stored s k v) k := by
  rintro ⟨_, t, ht, ha⟩
  have := get?_of_mem_nodup (hi.stored k v).ndLast ht
  have e : get? (stored s k v).last k = some (s.count + 1) := get?_set_self _ _ _
  rw [e] at this; cases this
  simp [age, stored] at ha

theorem store_spec {z : Sizes κ ν} {s s' : State κ ν} {k : κ} {v r : ν} {ev : List κ}
    (h : store z s k v = .ok (s', ev, r)) :
    cleanup z (stored s k v) = .ok (s', ev) ∧ get? s'.data k = some r := by
  rw [store_eq] at h
  cases hc : cleanup z (stored s k v) with
  | error e => simp [hc] at h
  | ok p =>
    obtain ⟨s3, ev3⟩ := p
    simp only [hc] at h
    cases hl : lookup s3.data k with
    | error e => simp [hl] at h
    | ok r' =>
      simp only [hl, Except.ok.injEq, Prod.mk.injEq] at h
      obtain ⟨rfl, rfl, rfl⟩ := h
      exact ⟨rfl, lookup_ok_iff.mp hl⟩

theorem Inv.store {z : Sizes κ ν} (hz : z.RndOK) {s s' : State κ ν} {k : κ} {v r : ν} {ev : List κ}
    (hi : Inv s) (h : store z s k v = .ok (s', ev, r)) : Inv s' :=
  (hi.stored k v).cleanup hz (store_spec h).1

theorem store_ok {z : Sizes κ ν} (hz : z.RndOK) {s : State κ ν} (k : κ) (v : ν) (hi : Inv s) (hp : 1 ≤ s.period) :
    ∃ s' ev, store z s k v = .ok (s', ev, v) := by
  obtain ⟨⟨s3, ev⟩, hc⟩ := cleanup_ok (z := z) (hi.stored k v) (show 1 ≤ (stored s k v).period from hp)
  obtain ⟨a, _, _, d, _⟩ := cleanup_spec hz hc
  have hk : k ∉ ev := fun hk => not_evictable_stored k v hi (d k hk)
  have : get? s3.data k = some v := by
    rw [a, get?_eraseAll]; simp only [hk, ↓reduceIte]
    exact get?_set_self _ _ _
  refine ⟨s3, ev, ?_⟩
  rw [store_eq, hc]; simp only [lookup, this]

/-! ### the driver's rounding function satisfies `RndOK` -/

theorem rndPos_nonneg (q : Rat) : 0 ≤ rndPos q := by
  unfold rndPos
  exact Rat.mul_nonneg Rat.natCast_nonneg (Rat.zpow_nonneg (by decide))

theorem rnd64_ok : rnd64 0 = 0 ∧ ∀ x : Rat, x ≤ 0 → rnd64 x ≤ 0 := by
  refine ⟨by simp [rnd64], ?_⟩
  intro x hx
  unfold rnd64
  split
  · exact Rat.le_refl
  · split
    · have := rndPos_nonneg (-x); grind
    · grind

/-! ### frozen entries -/

/-- `k` is cached with value `v` and cannot be evicted (importance 0; the
statement only needs ≤ 0). -/
def Frozen (s : State κ ν) (k : κ) (v : ν) : Prop := get? s.data k = some v ∧ impOf s k ≤ 0

theorem Frozen.not_evictable {s : State κ ν} {k : κ} {v : ν} (hf : Frozen s k v) : ¬ Evictable s k := by
  rintro ⟨hp, _⟩; have := hf.2; grind

theorem Frozen.cleanup {z : Sizes κ ν} (hz : z.RndOK) {s s' : State κ ν} {ev : List κ} {k : κ} {v : ν}
    (hf : Frozen s k v) (h : cleanup z s = .ok (s', ev)) : Frozen s' k v ∧ k ∉ ev := by
  obtain ⟨a, _, c, d, _⟩ := cleanup_spec hz h
  have hk : k ∉ ev := fun hk => hf.not_evictable (d k hk)
  refine ⟨⟨?_, by rw [impOf_congr c.2.1]; exact hf.2⟩, hk⟩
  rw [a, get?_eraseAll]; simp only [hk, ↓reduceIte]; exact hf.1

theorem Frozen.hit {s : State κ ν} {k : κ} {v : ν} (k' : κ) (hf : Frozen s k v) : Frozen (hit s k') k v := hf

theorem Frozen.stored {s : State κ ν} {k k' : κ} {v v' : ν} (hne : k' ≠ k) (hf : Frozen s k v) :
    Frozen (stored s k' v') k v :=
  ⟨by show get? (set s.data k' v') k = some v; rw [get?_set_ne _ _ hne]; exact hf.1, hf.2⟩

theorem Frozen.store {z : Sizes κ ν} (hz : z.RndOK) {s s' : State κ ν} {k k' : κ} {v v' r : ν} {ev : List κ}
    (hne : k' ≠ k) (hf : Frozen s k v) (h : store z s k' v' = .ok (s', ev, r)) : Frozen s' k v :=
  ((hf.stored hne).cleanup hz (store_spec h).1).1

theorem get?_foldl_set0 (ks : List κ) (m : Dict κ Rat) (k : κ) :
    get? (ks.foldl (fun m k => set m k 0) m) k = if k ∈ ks then some 0 else get? m k := by
  induction ks generalizing m with
  | nil => simp
  | cons k0 ks ih =>
    simp only [List.foldl_cons, ih, get?_set, List.mem_cons]
    by_cases h1 : k ∈ ks
    · simp [h1]
    · by_cases h2 : k0 = k
      · subst h2; simp [h1]
      · have : ¬ k = k0 := fun e => h2 e.symm
        simp [h1, h2, this]

theorem impOf_freeze (s : State κ ν) (k : κ) : impOf (freeze s) k = if k ∈ keys s.data then 0 else impOf s k := by
  unfold impOf freeze
  simp only [get?_foldl_set0]
  split <;> rfl

theorem Frozen.freeze {s : State κ ν} {k : κ} {v : ν} (hf : Frozen s k v) : Frozen (freeze s) k v := by
  refine ⟨hf.1, ?_⟩
  rw [impOf_freeze]
  simp only [mem_keys_of_get? hf.1, ↓reduceIte]; exact Rat.le_refl

theorem assignAll_other (kvs : List (κ × ν)) (s : State κ ν) :
    (kvs.foldl (fun s kv => assign s kv.1 kv.2) s).last = s.last
    ∧ (kvs.foldl (fun s kv => assign s kv.1 kv.2) s).count = s.count
    ∧ (kvs.foldl (fun s kv => assign s kv.1 kv.2) s).imp = s.imp
    ∧ (kvs.foldl (fun s kv => assign s kv.1 kv.2) s).period = s.period
    ∧ (kvs.foldl (fun s kv => assign s kv.1 kv.2) s).thr = s.thr := by
  induction kvs generalizing s with
  | nil => simp
  | cons x kvs ih => simp only [List.foldl_cons]; exact ih (assign s x.1 x.2)

theorem assignAll_get? (kvs : List (κ × ν)) (s : State κ ν) (k : κ) (hk : k ∉ keys kvs) :
    get? (kvs.foldl (fun s kv => assign s kv.1 kv.2) s).data k = get? s.data k := by
  induction kvs generalizing s with
  | nil => simp
  | cons x kvs ih =>
    simp only [keys_cons, List.mem_cons, not_or] at hk
    simp only [List.foldl_cons]
    rw [ih _ hk.2]
    exact get?_set_ne _ _ (fun e => hk.1 e.symm)

/-- user operations that do not themselves overwrite `k` or give it a
positive importance -/
def UserOp.Keeps (k : κ) : UserOp κ ν → Prop
  | .load kvs => k ∉ keys kvs
  | .assign k' _ => k' ≠ k
  | .assignFrozen k' _ => k' ≠ k
  | .setImp k' q => k' ≠ k ∨ q ≤ 0
  | _ => True

theorem Frozen.applyOp {z : Sizes κ ν} (hz : z.RndOK) {s s' : State κ ν} {k : κ} {v : ν} {o : UserOp κ ν}
    (hk : o.Keeps k) (hf : Frozen s k v) (h : applyOp z s o = .ok s') : Frozen s' k v := by
  cases o with
  | freeze => simp [Cache.applyOp] at h; subst h; exact hf.freeze
  | load kvs =>
    simp [Cache.applyOp] at h; subst h
    have hk' : k ∉ keys kvs := hk
    refine Frozen.freeze ⟨by rw [assignAll_get? kvs s k hk']; exact hf.1, ?_⟩
    rw [impOf_congr (assignAll_other kvs s).2.2.1]; exact hf.2
  | assign k' v' =>
    simp [Cache.applyOp] at h; subst h
    have hk' : k' ≠ k := hk
    exact ⟨by show get? (set s.data k' v') k = some v; rw [get?_set_ne _ _ hk']; exact hf.1, hf.2⟩
  | assignFrozen k' v' =>
    simp [Cache.applyOp] at h; subst h
    have hk' : k' ≠ k := hk
    refine ⟨by show get? (set s.data k' v') k = some v; rw [get?_set_ne _ _ hk']; exact hf.1, ?_⟩
    show ((get? (set s.imp k' 0) k).getD 1) ≤ 0
    rw [get?_set_ne _ _ hk']; exact hf.2
  | setImp k' q =>
    simp [Cache.applyOp] at h; subst h
    refine ⟨hf.1, ?_⟩
    show ((get? (set s.imp k' q) k).getD 1) ≤ 0
    by_cases e : k' = k
    · subst e
      rcases (hk : k' ≠ k' ∨ q ≤ 0) with h | h
      · exact absurd rfl h
      · rw [get?_set_self]; exact h
    · rw [get?_set_ne _ _ e]; exact hf.2
  | setPeriod n => simp [Cache.applyOp] at h; subst h; exact hf
  | setThr q => simp [Cache.applyOp] at h; subst h; exact hf
  | cleanup =>
    simp only [Cache.applyOp] at h
    cases hc : Cache.cleanup z s with
    | error e => simp [hc] at h
    | ok r =>
      obtain ⟨s1, ev⟩ := r
      simp only [hc, Except.ok.injEq] at h; subst h
      exact (hf.cleanup hz hc).1

/-! ### histories -/

def Prog.AllOps (C : UserOp κ ν → Prop) : Prog κ ν → Prop
  | .done => True
  | .get _ body _ rest => body.AllOps C ∧ rest.AllOps C
  | .op o rest => C o ∧ rest.AllOps C

theorem lastOr_mem (s : State κ ν) (tr : List (State κ ν)) : lastOr s tr = s ∨ lastOr s tr ∈ tr := by
  unfold lastOr
  cases h : tr.getLast? with
  | none => exact Or.inl rfl
  | some x => exact Or.inr (List.mem_of_getLast? h)

/-- A predicate preserved by hits, by stores (knowing that the key was absent
when the request started and that the predicate held then) and by the allowed
user operations holds after every step of every history. -/
theorem run_stable {z : Sizes κ ν} {P : State κ ν → Prop} {C : UserOp κ ν → Prop}
    (hHit : ∀ s k, P s → k ∈ keys s.data → P (hit s k))
    (hStore : ∀ s0 s k v s1 ev r, P s0 → get? s0.data k = none → P s → store z s k v = .ok (s1, ev, r) → P s1)
    (hOp : ∀ s o s1, P s → C o → applyOp z s o = .ok s1 → P s1) :
    ∀ (p : Prog κ ν) (s : State κ ν) (tr : List (State κ ν)), p.AllOps C → P s → run z s p = .ok tr →
      ∀ s' ∈ tr, P s' := by
  intro p
  induction p with
  | done => intro s tr _ _ h; simp [run] at h; subst h; simp
  | get k body v rest ihb ihr =>
    intro s tr hc hp h
    unfold run at h
    cases hg : get? s.data k with
    | some w =>
      simp only [hg] at h
      cases hr : run z (hit s k) rest with
      | error e => simp [hr] at h
      | ok tr' =>
        simp only [hr, Except.ok.injEq] at h; subst h
        have hps := hHit s k hp (mem_keys_of_get? hg)
        intro s' hs'
        rcases List.mem_cons.mp hs' with e | e
        · subst e; exact hps
        · exact ihr _ _ hc.2 hps hr s' e
    | none =>
      simp only [hg] at h
      cases hb : run z s body with
      | error e => simp [hb] at h
      | ok tb =>
        simp only [hb] at h
        have hpb := ihb _ _ hc.1 hp hb
        have hpl : P (lastOr s tb) := by
          rcases lastOr_mem s tb with e | e
          · rw [e]; exact hp
          · exact hpb _ e
        cases hst : store z (lastOr s tb) k v with
        | error e => simp [hst] at h
        | ok r =>
          obtain ⟨s1, ev, r⟩ := r
          simp only [hst] at h
          have hp1 := hStore s _ k v s1 ev r hp hg hpl hst
          cases hr : run z s1 rest with
          | error e => simp [hr] at h
          | ok tr' =>
            simp only [hr, Except.ok.injEq] at h; subst h
            intro s' hs'
            rcases List.mem_append.mp hs' with e | e
            · exact hpb _ e
            · rcases List.mem_cons.mp e with e | e
              · subst e; exact hp1
              · exact ihr _ _ hc.2 hp1 hr s' e
  | op o rest ih =>
    intro s tr hc hp h
    unfold run at h
    cases ho : applyOp z s o with
    | error e => simp [ho] at h
    | ok s1 =>
      simp only [ho] at h
      have hp1 := hOp s o s1 hp hc.1 ho
      cases hr : run z s1 rest with
      | error e => simp [hr] at h
      | ok tr' =>
        simp only [hr, Except.ok.injEq] at h; subst h
        intro s' hs'
        rcases List.mem_cons.mp hs' with e | e
        · subst e; exact hp1
        · exact ih _ _ hc.2 hp1 hr s' e

/-- user operations that keep `clear_cache_every_nbr_calc ≥ 1` -/
def UserOp.PeriodOK : UserOp κ ν → Prop
  | .setPeriod n => 1 ≤ n
  | _ => True

theorem applyOp_safe {z : Sizes κ ν} (hz : z.RndOK) {s s1 : State κ ν} {o : UserOp κ ν}
    (hp : Inv s ∧ 1 ≤ s.period) (ho : o.PeriodOK) (h : applyOp z s o = .ok s1) : Inv s1 ∧ 1 ≤ s1.period := by
  cases o with
  | freeze => simp [applyOp] at h; subst h; exact ⟨hp.1.freeze, hp.2⟩
  | load kvs =>
    simp [applyOp] at h; subst h
    exact ⟨hp.1.loadData kvs, by show (kvs.foldl _ s).period ≥ 1; rw [(assignAll_other kvs s).2.2.2.1]; exact hp.2⟩
  | assign k v => simp [applyOp] at h; subst h; exact ⟨hp.1.assign k v, hp.2⟩
  | assignFrozen k v => simp [applyOp] at h; subst h; exact ⟨hp.1.assignFrozen k v, hp.2⟩
  | setImp k q => simp [applyOp] at h; subst h; exact ⟨hp.1.setImp k q, hp.2⟩
  | setPeriod n => simp [applyOp] at h; subst h; exact ⟨⟨hp.1.sub, hp.1.ndData, hp.1.ndLast⟩, ho⟩
  | setThr q => simp [applyOp] at h; subst h; exact ⟨⟨hp.1.sub, hp.1.ndData, hp.1.ndLast⟩, hp.2⟩
  | cleanup =>
    simp only [applyOp] at h
    cases hc : cleanup z s with
    | error e => simp [hc] at h
    | ok r =>
      obtain ⟨s2, ev⟩ := r
      simp only [hc, Except.ok.injEq] at h; subst h
      exact ⟨hp.1.cleanup hz hc, by rw [(cleanup_spec hz hc).2.2.1.2.2.1]; exact hp.2⟩

theorem applyOp_ok {z : Sizes κ ν} {s : State κ ν} (o : UserOp κ ν) (hp : Inv s ∧ 1 ≤ s.period) :
    ∃ s1, applyOp z s o = .ok s1 := by
  cases o with
  | cleanup =>
    obtain ⟨r, hr⟩ := cleanup_ok (z := z) hp.1 hp.2
    exact ⟨r.1, by simp [applyOp, hr]⟩
  | _ => exact ⟨_, rfl⟩

theorem store_safe {z : Sizes κ ν} (hz : z.RndOK) {s s1 : State κ ν} {k : κ} {v r : ν} {ev : List κ}
    (hp : Inv s ∧ 1 ≤ s.period) (h : store z s k v = .ok (s1, ev, r)) : Inv s1 ∧ 1 ≤ s1.period :=
  ⟨hp.1.store hz h, by rw [(cleanup_spec hz (store_spec h).1).2.2.1.2.2.1]; exact hp.2⟩

/-- no history raises: neither KeyError nor ZeroDivisionError nor the model's
fuel error -/
theorem run_ok {z : Sizes κ ν} (hz : z.RndOK) : ∀ (p : Prog κ ν) (s : State κ ν), p.AllOps UserOp.PeriodOK →
    Inv s → 1 ≤ s.period → ∃ tr, run z s p = .ok tr := by
  have stab := run_stable (z := z) (P := fun s => Inv s ∧ 1 ≤ s.period) (C := UserOp.PeriodOK)
    (fun s k hp hk => ⟨hp.1.hit hk, hp.2⟩)
    (fun _ s k v s1 ev r _ _ hp h => store_safe hz hp h)
    (fun s o s1 hp ho h => applyOp_safe hz hp ho h)
  intro p
  induction p with
  | done => intro s _ _ _; exact ⟨[], rfl⟩
  | get k body v rest ihb ihr =>
    intro s hc hi hp
    unfold run
    cases hg : get? s.data k with
    | some w =>
      simp only
      obtain ⟨tr, htr⟩ := ihr (hit s k) hc.2 (hi.hit (mem_keys_of_get? hg)) hp
      simp only [htr]; exact ⟨_, rfl⟩
    | none =>
      simp only
      obtain ⟨tb, htb⟩ := ihb s hc.1 hi hp
      simp only [htb]
      have hpl : Inv (lastOr s tb) ∧ 1 ≤ (lastOr s tb).period := by
        rcases lastOr_mem s tb with e | e
        · rw [e]; exact ⟨hi, hp⟩
        · exact stab body s tb hc.1 ⟨hi, hp⟩ htb _ e
      obtain ⟨s1, ev, hst⟩ := store_ok hz k v hpl.1 hpl.2
      simp only [hst]
      have h1 := store_safe hz hpl hst
      obtain ⟨tr, htr⟩ := ihr s1 hc.2 h1.1 h1.2
      simp only [htr]; exact ⟨_, rfl⟩
  | op o rest ih =>
    intro s hc hi hp
    unfold run
    obtain ⟨s1, h1⟩ := applyOp_ok (z := z) o ⟨hi, hp⟩
    simp only [h1]
    have := applyOp_safe hz ⟨hi, hp⟩ hc.1 h1
    obtain ⟨tr, htr⟩ := ih s1 hc.2 this.1 this.2
    simp only [htr]; exact ⟨_, rfl⟩

theorem Inv.applyOp {z : Sizes κ ν} (hz : z.RndOK) {s s1 : State κ ν} {o : UserOp κ ν}
    (hi : Inv s) (h : applyOp z s o = .ok s1) : Inv s1 := by
  cases o with
  | freeze => simp [Cache.applyOp] at h; subst h; exact hi.freeze
  | load kvs => simp [Cache.applyOp] at h; subst h; exact hi.loadData kvs
  | assign k v => simp [Cache.applyOp] at h; subst h; exact hi.assign k v
  | assignFrozen k v => simp [Cache.applyOp] at h; subst h; exact hi.assignFrozen k v
  | setImp k q => simp [Cache.applyOp] at h; subst h; exact hi.setImp k q
  | setPeriod n => simp [Cache.applyOp] at h; subst h; exact ⟨hi.sub, hi.ndData, hi.ndLast⟩
  | setThr q => simp [Cache.applyOp] at h; subst h; exact ⟨hi.sub, hi.ndData, hi.ndLast⟩
  | cleanup =>
    simp only [Cache.applyOp] at h
    cases hc : Cache.cleanup z s with
    | error e => simp [hc] at h
    | ok r =>
      obtain ⟨s2, ev⟩ := r
      simp only [hc, Except.ok.injEq] at h; subst h
      exact hi.cleanup hz hc

theorem allOps_true (p : Prog κ ν) : p.AllOps (fun _ => True) := by
  induction p with
  | done => trivial
  | get _ _ _ _ a b => exact ⟨a, b⟩
  | op _ _ a => exact ⟨trivial, a⟩

theorem eraseAll_sublist (d : Dict κ α) (ks : List κ) : (eraseAll d ks).Sublist d := by
  induction ks generalizing d with
  | nil => exact List.Sublist.refl _
  | cons k ks ih => exact (ih (erase d k)).trans List.filter_sublist

end AurelVerif.Cache
