/-
Lemmas/C06Deriv.lean — Layer B (consistency) lemmas of property C06, free of any
generated definition: pure index algebra over a field.

"Derivatives" enter as VALUES (jets): `dtG i j` stands for `∂_tγ_ij`, `dG s i j`
for `∂_sγ_ij`, `dtU`, `dU` for the derivatives of the inverse metric.  What the
product rule (Leibniz + additivity, `∂δ^i_j = 0`) gives for a defining relation
is taken as a hypothesis in exactly the differentiated form, e.g.
`γ^ik γ_kj = δ^i_j  ⟹  (∂γ^ik) γ_kj + γ^ik ∂γ_kj = 0`.
`deriv_of_inverse` shows that an operator on values that is additive and obeys
the product rule produces these hypotheses.
-/
import AurelVerif.Props.C08
import AurelVerif.Spec.ADM
import Mathlib.Data.Matrix.Basic
import Mathlib.Tactic.NoncommRing
import Mathlib.Tactic.Abel

set_option linter.unusedSimpArgs false
set_option linter.unusedVariables false

namespace AurelVerif.C06Deriv
open AurelVerif.Tensor AurelVerif.CoreTac AurelVerif.C08 AurelVerif.Spec.Covd AurelVerif.Spec

variable {K : Type} [Field K]

/-! ### contraction with the inverse on both indices -/

/-- `γ_ac γ_bd (γ^{a'a} γ^{b'b} T_{a'b'}) = T_cd` when `γ^{ij}γ_jk = δ^i_k`. -/
theorem sandwich3 (U G T : Fin 3 → Fin 3 → K)
    (hinv : ∀ i k : Fin 3, ∑ j, U i j * G j k = delta i k) (c d : Fin 3) :
    ∑ a, ∑ b, G a c * G b d * (∑ a', ∑ b', U a' a * U b' b * T a' b') = T c d := by
  have key : ∑ a, ∑ b, G a c * G b d * (∑ a', ∑ b', U a' a * U b' b * T a' b')
      = ∑ a', ∑ b', (∑ a, U a' a * G a c) * (∑ b, U b' b * G b d) * T a' b' := by
    simp only [Fin.sum_univ_three]; ring
  rw [key]
  simp only [hinv, delta]
  simp [Finset.sum_ite_eq']

/-! ### derivative of the inverse matrix -/

/-- `U G = 1`, `G U = 1`, `U' G + U G' = 0`  ⟹  `U' = −U G' U`. -/
theorem inv_deriv {n : Nat} (G U G' U' : Matrix (Fin n) (Fin n) K) (hGU : G * U = 1)
    (hd : U' * G + U * G' = 0) : U' = -(U * G' * U) := by
  calc U' = U' * (G * U) := by rw [hGU, Matrix.mul_one]
    _ = (U' * G) * U := by rw [Matrix.mul_assoc]
    _ = (-(U * G')) * U := by rw [eq_neg_of_add_eq_zero_left hd]
    _ = -(U * G' * U) := by rw [Matrix.neg_mul]

/-- **∂_t of the inverse metric.**  If `U = γ⁻¹` (both-sided, symmetric), `dtU`, `dU s` are linked to `dtG`, `dG s`
by the differentiated inverse relation, `K^ab = γ^ia γ^jb K_ij`, and `∂_tγ_ij = −2αK_ij + L_βγ_ij`, then
`∂_tγ^ij = L_βγ^ij + 2αK^ij`. -/
theorem dt_inverse_metric (G U dtG dtU : Fin 3 → Fin 3 → K) (dG dU : Fin 3 → Fin 3 → Fin 3 → K)
    (β : Fin 3 → K) (dβ : Fin 3 → Fin 3 → K) (α : K) (Kd Ku : Fin 3 → Fin 3 → K)
    (hUG : ∀ i k : Fin 3, ∑ j, U i j * G j k = delta i k)
    (hGU : ∀ i k : Fin 3, ∑ j, G i j * U j k = delta i k)
    (hsymU : Sym U)
    (hK : ∀ a b, Ku a b = ∑ i, ∑ j, U i a * U j b * Kd i j)
    (hdt : ∀ i j : Fin 3, ∑ k, (dtU i k * G k j + U i k * dtG k j) = 0)
    (hds : ∀ s i j : Fin 3, ∑ k, (dU s i k * G k j + U i k * dG s k j) = 0)
    (hkin : ∀ i j : Fin 3, dtG i j = -2 * α * Kd i j + lieDD β dβ dG G i j)
    (i j : Fin 3) : dtU i j = ADM.dtGammaUp β dβ dU U α Ku i j := by
  -- matrices
  let MG : Matrix (Fin 3) (Fin 3) K := Matrix.of G
  let MU : Matrix (Fin 3) (Fin 3) K := Matrix.of U
  let B : Matrix (Fin 3) (Fin 3) K := Matrix.of dβ
  let MK : Matrix (Fin 3) (Fin 3) K := Matrix.of Kd
  have mUG : MU * MG = 1 := by
    ext a b; simp only [MU, MG, Matrix.mul_apply, Matrix.of_apply, Matrix.one_apply, hUG a b, delta]
  have mGU : MG * MU = 1 := by
    ext a b; simp only [MU, MG, Matrix.mul_apply, Matrix.of_apply, Matrix.one_apply, hGU a b, delta]
  have et : Matrix.of dtU = -(MU * Matrix.of dtG * MU) := by
    refine inv_deriv MG MU (Matrix.of dtG) (Matrix.of dtU) mGU ?_
    ext a b
    simp only [MU, MG, Matrix.add_apply, Matrix.mul_apply, Matrix.of_apply, Matrix.zero_apply]
    rw [← Finset.sum_add_distrib]; exact hdt a b
  have es : ∀ s, Matrix.of (dU s) = -(MU * Matrix.of (dG s) * MU) := by
    intro s
    refine inv_deriv MG MU (Matrix.of (dG s)) (Matrix.of (dU s)) mGU ?_
    ext a b
    simp only [MU, MG, Matrix.add_apply, Matrix.mul_apply, Matrix.of_apply, Matrix.zero_apply]
    rw [← Finset.sum_add_distrib]; exact hds s a b
  have ek : Matrix.of dtG = (-2 * α) • MK + (β 0 • Matrix.of (dG 0) + β 1 • Matrix.of (dG 1) + β 2 • Matrix.of (dG 2))
      + B * MG + MG * B.transpose := by
    ext a b
    simp only [MG, B, MK, Matrix.add_apply, Matrix.smul_apply, Matrix.mul_apply, Matrix.transpose_apply,
      Matrix.of_apply, smul_eq_mul, hkin a b, lieDD, Fin.sum_univ_three]
    ring
  have c1 : ∀ X : Matrix (Fin 3) (Fin 3) K, MU * (MG * X) = X := fun X => by
    rw [← Matrix.mul_assoc, mUG, Matrix.one_mul]
  have main : Matrix.of dtU = (β 0 • Matrix.of (dU 0) + β 1 • Matrix.of (dU 1) + β 2 • Matrix.of (dU 2))
      - B.transpose * MU - MU * B + (2 * α) • (MU * MK * MU) := by
    rw [et, ek, es 0, es 1, es 2]
    simp only [Matrix.mul_add, Matrix.add_mul, Matrix.mul_assoc, mGU, Matrix.mul_one, c1, Matrix.mul_smul,
      Matrix.smul_mul, Matrix.mul_neg, Matrix.neg_mul, smul_neg, neg_smul, neg_add_rev, neg_neg]
    have h2 : (-2 * α) • (MU * (MK * MU)) = -((2 * α) • (MU * (MK * MU))) := by
      rw [neg_mul, neg_smul]
    rw [h2]
    abel
  have hij := congrFun (congrFun main i) j
  simp only [MU, MG, B, MK, Matrix.add_apply, Matrix.sub_apply, Matrix.smul_apply, Matrix.mul_apply,
    Matrix.transpose_apply, Matrix.of_apply, smul_eq_mul, Fin.sum_univ_three] at hij
  have s0 := hsymU 0 i; have s1 := hsymU 1 i; have s2 := hsymU 2 i
  simp only [ADM.dtGammaUp, lieUU, hK, Fin.sum_univ_three, s0, s1, s2]
  rw [hij]
  ring

/-! ### determinant, cofactors, Jacobi's formula -/

/-- 3x3 determinant (first-row expansion). -/
def det3 (G : Fin 3 → Fin 3 → K) : K :=
  G 0 0 * (G 1 1 * G 2 2 - G 1 2 * G 2 1) - G 0 1 * (G 1 0 * G 2 2 - G 1 2 * G 2 0)
  + G 0 2 * (G 1 0 * G 2 1 - G 1 1 * G 2 0)

/-- cofactor `C_ij = ∂ det / ∂ G_ij`. -/
def cof3 (G : Fin 3 → Fin 3 → K) : Fin 3 → Fin 3 → K :=
  vec3 (vec3 (G 1 1 * G 2 2 - G 1 2 * G 2 1) (-(G 1 0 * G 2 2 - G 1 2 * G 2 0)) (G 1 0 * G 2 1 - G 1 1 * G 2 0))
       (vec3 (-(G 0 1 * G 2 2 - G 0 2 * G 2 1)) (G 0 0 * G 2 2 - G 0 2 * G 2 0) (-(G 0 0 * G 2 1 - G 0 1 * G 2 0)))
       (vec3 (G 0 1 * G 1 2 - G 0 2 * G 1 1) (-(G 0 0 * G 1 2 - G 0 2 * G 1 0)) (G 0 0 * G 1 1 - G 0 1 * G 1 0))

/-- the derivative of the determinant polynomial by the product rule: `∂ det = Σ_ij C_ij ∂G_ij`. -/
def ddet3 (G dG : Fin 3 → Fin 3 → K) : K := ∑ i, ∑ j, cof3 G i j * dG i j

/-- an operator on values that is additive and obeys the product rule. -/
structure Deriv (d : K → K) : Prop where
  add : ∀ a b, d (a + b) = d a + d b
  mul : ∀ a b, d (a * b) = d a * b + a * d b

theorem Deriv.neg {d : K → K} (h : Deriv d) (a : K) : d (-a) = -d a := by
  have h0 : d 0 = 0 := by have := h.add 0 0; simp only [add_zero] at this; linear_combination -this
  have := h.add a (-a); rw [add_neg_cancel, h0] at this; linear_combination -this

theorem Deriv.sub {d : K → K} (h : Deriv d) (a b : K) : d (a - b) = d a - d b := by
  rw [sub_eq_add_neg, h.add, h.neg]; ring

theorem Deriv.zero {d : K → K} (h : Deriv d) : d 0 = 0 := by
  have := h.add 0 0; simp only [add_zero] at this; linear_combination -this

theorem Deriv.one {d : K → K} (h : Deriv d) : d 1 = 0 := by
  have := h.mul 1 1; simp only [mul_one, one_mul] at this; linear_combination -this

/-- numerals are constants. -/
theorem Deriv.natCast {d : K → K} (h : Deriv d) (n : ℕ) : d (n : K) = 0 := by
  induction n with
  | zero => simpa using h.zero
  | succ n ih => rw [Nat.cast_succ, h.add, ih, h.one, add_zero]

/-- the inverse of a non-zero constant is a constant. -/
theorem Deriv.inv_const {d : K → K} (h : Deriv d) (c : K) (hc : c ≠ 0) (hd : d c = 0) : d c⁻¹ = 0 := by
  have := h.mul c c⁻¹
  rw [mul_inv_cancel₀ hc, h.one, hd, zero_mul, zero_add] at this
  exact (mul_eq_zero.mp this.symm).resolve_left hc

/-- `d (c x) = c d x` for the constant `c = 1/12`. -/
theorem Deriv.twelfth {d : K → K} (h : Deriv d) (h12 : (12 : K) ≠ 0) (x : K) : d ((1 / 12) * x) = (1 / 12) * d x := by
  have hn : d (12 : K) = 0 := by simpa using h.natCast 12
  rw [h.mul, one_div, h.inv_const 12 h12 hn, zero_mul, zero_add]

/-- **Jacobi / Leibniz for the determinant polynomial**: for a derivation `d` on values,
`d (det G) = Σ_ij C_ij d(G_ij)` — `ddet3` is what the product rule gives. -/
theorem Deriv.det3 {d : K → K} (h : Deriv d) (G : Fin 3 → Fin 3 → K) :
    d (det3 G) = ddet3 G (fun i j => d (G i j)) := by
  simp only [C06Deriv.det3, ddet3, cof3, Fin.sum_univ_three, h.add, h.sub, h.mul, core_unfold]
  ring

/-- for a derivation on values the differentiated inverse relation holds (`d 1 = 0`, `d 0 = 0`). -/
theorem deriv_of_inverse {d : K → K} (h : Deriv d) (U G : Fin 3 → Fin 3 → K)
    (hUG : ∀ i k : Fin 3, ∑ j, U i j * G j k = delta i k) (i j : Fin 3) :
    ∑ k, (d (U i k) * G k j + U i k * d (G k j)) = 0 := by
  have h0 : d 0 = 0 := by have := h.add 0 0; simp only [add_zero] at this; linear_combination -this
  have h1 : d 1 = 0 := by have := h.mul 1 1; simp only [mul_one, one_mul] at this; linear_combination -this
  have hδ : d (delta i j) = 0 := by unfold delta; split_ifs <;> assumption
  have := congrArg d (hUG i j)
  rw [hδ] at this
  simp only [Fin.sum_univ_three, h.add, h.mul] at this ⊢
  linear_combination this

/-- **∂_t of φ = (1/12) ln det γ** (Jacobi's formula as a field identity for the closed-form cofactors):
with `U_ab det = C_ab`, `K = U_ab K_ab`, `∂_sφ = ∂_s det/(12 det)` and the kinematic relation,
`∂_t det/(12 det) = −αK/6 + β^s∂_sφ + (1/6)∂_sβ^s`. -/
theorem dt_logdet (G U dtG : Fin 3 → Fin 3 → K) (dG : Fin 3 → Fin 3 → Fin 3 → K) (β : Fin 3 → K)
    (dβ : Fin 3 → Fin 3 → K) (α : K) (Kd : Fin 3 → Fin 3 → K) (Ktr : K) (dφ : Fin 3 → K)
    (hdet : det3 G ≠ 0) (h12 : (12 : K) ≠ 0)
    (hUc : ∀ a b, U a b * det3 G = cof3 G a b)
    (hK : Ktr = ∑ a, ∑ b, U a b * Kd a b)
    (hdφ : ∀ s, dφ s = ddet3 G (dG s) / (12 * det3 G))
    (hkin : ∀ i j : Fin 3, dtG i j = -2 * α * Kd i j + lieDD β dβ dG G i j) :
    ddet3 G dtG / (12 * det3 G) = ADM.dtPhi β dφ dβ α Ktr := by
  have hU : ∀ a b, U a b = cof3 G a b / det3 G := fun a b => by rw [← hUc a b, mul_div_assoc, div_self hdet, mul_one]
  have h2 : (2 : K) ≠ 0 := fun h => h12 (by rw [show (12 : K) = 2 * 6 by norm_num, h, zero_mul])
  have h3 : (3 : K) ≠ 0 := fun h => h12 (by rw [show (12 : K) = 3 * 4 by norm_num, h, zero_mul])
  have h6 : (6 : K) ≠ 0 := fun h => h12 (by rw [show (12 : K) = 6 * 2 by norm_num, h, zero_mul])
  simp only [ADM.dtPhi, lie0, divβ, hdφ, ddet3, hkin, lieDD, hK, hU, Fin.sum_univ_three, cof3, core_unfold]
  field_simp
  unfold det3
  ring

/-- `A_ij A^ij = K_ij K^ij − K²/3` for `A_ij = K_ij − γ_ij K/3` (uses `γ^ij γ_jk = δ`, both symmetric). -/
theorem A2_closed (G U Kd : Fin 3 → Fin 3 → K) (T : K) (h3 : (3 : K) ≠ 0) (hsymG : Sym G) (hsymU : Sym U)
    (hUG : ∀ i k : Fin 3, ∑ j, U i j * G j k = delta i k) (hT : T = ∑ i, ∑ j, U i j * Kd i j) :
    ∑ i, ∑ j, (Kd i j - (1 / 3) * G i j * T) * (∑ a, ∑ b, U i a * U j b * (Kd a b - (1 / 3) * G a b * T))
      = (∑ i, ∑ j, Kd i j * (∑ a, ∑ b, U a i * U b j * Kd a b)) - (1 / 3) * T ^ 2 := by
  have u01 := hsymU 1 0; have u02 := hsymU 2 0; have u12 := hsymU 2 1
  have g01 := hsymG 1 0; have g02 := hsymG 2 0; have g12 := hsymG 2 1
  have h00 := hUG 0 0; have h01 := hUG 0 1; have h02 := hUG 0 2
  have h10 := hUG 1 0; have h11 := hUG 1 1; have h12 := hUG 1 2
  have h20 := hUG 2 0; have h21 := hUG 2 1; have h22 := hUG 2 2
  simp only [delta, Fin.sum_univ_three, u01, u02, u12, g01, g02, g12] at h00 h01 h02 h10 h11 h12 h20 h21 h22
  norm_num [Fin.ext_iff] at h00 h01 h02 h10 h11 h12 h20 h21 h22
  simp only [Fin.sum_univ_three, u01, u02, u12, g01, g02, g12] at hT ⊢
  have h33 : (3 : K) * (1 / 3) = 1 := by field_simp
  linear_combination (exp := 1)
      (-((1 / 3) * 2) * T * (Kd 0 0 * U 0 0 + Kd 1 0 * U 0 1 + Kd 2 0 * U 0 2) + (1 / 3) * (1 / 3) * T ^ 2 * (G 0 0 * U 0 0 + G 0 1 * U 0 1 + G 0 2 * U 0 2) + (1 / 3) * (1 / 3) * T ^ 2) * h00
      + (-((1 / 3) * 2) * T * (Kd 0 0 * U 0 1 + Kd 1 0 * U 1 1 + Kd 2 0 * U 1 2) + (1 / 3) * (1 / 3) * T ^ 2 * (G 0 0 * U 0 1 + G 0 1 * U 1 1 + G 0 2 * U 1 2)) * h01
      + (-((1 / 3) * 2) * T * (Kd 0 0 * U 0 2 + Kd 1 0 * U 1 2 + Kd 2 0 * U 2 2) + (1 / 3) * (1 / 3) * T ^ 2 * (G 0 0 * U 0 2 + G 0 1 * U 1 2 + G 0 2 * U 2 2)) * h02
      + (-((1 / 3) * 2) * T * (Kd 0 1 * U 0 0 + Kd 1 1 * U 0 1 + Kd 2 1 * U 0 2) + (1 / 3) * (1 / 3) * T ^ 2 * (G 0 1 * U 0 0 + G 1 1 * U 0 1 + G 1 2 * U 0 2)) * h10
      + (-((1 / 3) * 2) * T * (Kd 0 1 * U 0 1 + Kd 1 1 * U 1 1 + Kd 2 1 * U 1 2) + (1 / 3) * (1 / 3) * T ^ 2 * (G 0 1 * U 0 1 + G 1 1 * U 1 1 + G 1 2 * U 1 2) + (1 / 3) * (1 / 3) * T ^ 2) * h11
      + (-((1 / 3) * 2) * T * (Kd 0 1 * U 0 2 + Kd 1 1 * U 1 2 + Kd 2 1 * U 2 2) + (1 / 3) * (1 / 3) * T ^ 2 * (G 0 1 * U 0 2 + G 1 1 * U 1 2 + G 1 2 * U 2 2)) * h12
      + (-((1 / 3) * 2) * T * (Kd 0 2 * U 0 0 + Kd 1 2 * U 0 1 + Kd 2 2 * U 0 2) + (1 / 3) * (1 / 3) * T ^ 2 * (G 0 2 * U 0 0 + G 1 2 * U 0 1 + G 2 2 * U 0 2)) * h20
      + (-((1 / 3) * 2) * T * (Kd 0 2 * U 0 1 + Kd 1 2 * U 1 1 + Kd 2 2 * U 1 2) + (1 / 3) * (1 / 3) * T ^ 2 * (G 0 2 * U 0 1 + G 1 2 * U 1 1 + G 2 2 * U 1 2)) * h21
      + (-((1 / 3) * 2) * T * (Kd 0 2 * U 0 2 + Kd 1 2 * U 1 2 + Kd 2 2 * U 2 2) + (1 / 3) * (1 / 3) * T ^ 2 * (G 0 2 * U 0 2 + G 1 2 * U 1 2 + G 2 2 * U 2 2) + (1 / 3) * (1 / 3) * T ^ 2) * h22
      + ((1 / 3) * 2 * T) * hT + ((1 / 3) * T ^ 2) * h33

/-- **∂_t of K = γ^ij K_ij.**  With `∂_tγ^ij = L_βγ^ij + 2αK^ij`, the ADM evolution equation for `K_ij`, the product
rule for `∂_sK`, and the HAMILTONIAN CONSTRAINT `R + K² − K_ijK^ij − 2κρ − 2Λ = 0`, the BSSNOK right-hand side of
`∂_tK` (with `Ã_ijÃ^ij = K_ijK^ij − K²/3`) is `∂_t(γ^ij K_ij) = (∂_tγ^ij)K_ij + γ^ij ∂_tK_ij`. -/
theorem dt_trace_K (G U Kd Ku dtU dtKd DDα Ric Sd : Fin 3 → Fin 3 → K) (dU dKd : Fin 3 → Fin 3 → Fin 3 → K)
    (β : Fin 3 → K) (dβ : Fin 3 → Fin 3 → K) (dKtr : Fin 3 → K) (α Ktr A2 κ ρ S Λ R : K) (h2 : (2 : K) ≠ 0)
    (hsymU : Sym U) (hsymK : Sym Kd)
    (hUG : ∀ i k : Fin 3, ∑ j, U i j * G j k = delta i k)
    (hKu : ∀ a b, Ku a b = ∑ i, ∑ j, U i a * U j b * Kd i j)
    (hKtr : Ktr = ∑ i, ∑ j, U i j * Kd i j) (hS : S = ∑ i, ∑ j, U i j * Sd i j) (hR : R = ∑ i, ∑ j, U i j * Ric i j)
    (hA2 : A2 = (∑ i, ∑ j, Kd i j * Ku i j) - (1 / 3) * Ktr ^ 2)
    (hdK : ∀ s, dKtr s = ∑ i, ∑ j, (dU s i j * Kd i j + U i j * dKd s i j))
    (hdtU : ∀ i j, dtU i j = ADM.dtGammaUp β dβ dU U α Ku i j)
    (hadm : ∀ i j, dtKd i j = ADM.dtKdown β dβ dKd Kd G U DDα Ric Sd α Ktr κ ρ S Λ i j)
    (hham : ADM.hamiltonian R Ktr Kd Ku κ ρ Λ = 0) :
    ∑ i, ∑ j, (dtU i j * Kd i j + U i j * dtKd i j) = ADM.dtK β dKtr U DDα α A2 Ktr κ ρ S Λ := by
  have u01 := hsymU 1 0; have u02 := hsymU 2 0; have u12 := hsymU 2 1
  have k01 := hsymK 1 0; have k02 := hsymK 2 0; have k12 := hsymK 2 1
  have h3 : ∑ i : Fin 3, ∑ j : Fin 3, U i j * G j i = 3 := by
    simp only [hUG, delta]; simp
  have h22 : (2 : K) * (1 / 2) = 1 := by field_simp
  -- name the contractions that appear in the constraint
  subst hA2; subst hR; subst hS; subst hKtr
  simp only [ADM.hamiltonian] at hham
  simp only [ADM.dtK, ADM.dtKdown, ADM.dtGammaUp, lie0, lieUU, lieDD, hdtU, hadm, hdK] at hham ⊢
  simp only [hKu, Fin.sum_univ_three, u01, u02, u12, k01, k02, k12] at hham h3 ⊢
  linear_combination α * hham
    + ((1 / 2) * κ * α * ((U 0 0 * Sd 0 0 + U 0 1 * Sd 0 1 + U 0 2 * Sd 0 2 + (U 0 1 * Sd 1 0 + U 1 1 * Sd 1 1 + U 1 2 * Sd 1 2)
        + (U 0 2 * Sd 2 0 + U 1 2 * Sd 2 1 + U 2 2 * Sd 2 2)) - ρ) - α * Λ) * h3
    + κ * α * ((U 0 0 * Sd 0 0 + U 0 1 * Sd 0 1 + U 0 2 * Sd 0 2 + (U 0 1 * Sd 1 0 + U 1 1 * Sd 1 1 + U 1 2 * Sd 1 2)
        + (U 0 2 * Sd 2 0 + U 1 2 * Sd 2 1 + U 2 2 * Sd 2 2)) - 2 * ρ) * h22

/-- **∂_t of the conformal metric γ̃_ij = p γ_ij** (`p = ψ⁻⁴`, `∂p = −4p∂φ`), `Ã_ij = p (K_ij − γ_ij K/3)`:
the BSSNOK right-hand side `−2αÃ_ij + L_βγ̃_ij − (2/3)γ̃_ij∂_kβ^k` equals `p ∂_tγ_ij + (∂_t p) γ_ij`. -/
theorem dt_conformal_metric (G Gt At Kd dtG : Fin 3 → Fin 3 → K) (dG dGt : Fin 3 → Fin 3 → Fin 3 → K)
    (β : Fin 3 → K) (dβ : Fin 3 → Fin 3 → K) (dφ : Fin 3 → K) (α Ktr dtφ p : K) (h2 : (2 : K) ≠ 0) (h3 : (3 : K) ≠ 0)
    (hgt : ∀ i j, Gt i j = p * G i j)
    (hAt : ∀ a b, At a b = p * (Kd a b - (1 / 3) * G a b * Ktr))
    (hds : ∀ s a b, dGt s a b = p * dG s a b + (-4 * p * dφ s) * G a b)
    (hφ : dtφ = ADM.dtPhi β dφ dβ α Ktr)
    (hkin : ∀ i j : Fin 3, dtG i j = -2 * α * Kd i j + lieDD β dβ dG G i j)
    (i j : Fin 3) :
    ADM.dtGammaTildeDown β dβ dGt Gt α At i j = p * dtG i j + (-4 * p * dtφ) * G i j := by
  have h6 : (6 : K) ≠ 0 := by rw [show (6 : K) = 2 * 3 by norm_num]; exact mul_ne_zero h2 h3
  simp only [ADM.dtGammaTildeDown, ADM.dtPhi, lieDD, lie0, divβ, hgt, hAt, hds, hφ, hkin, Fin.sum_univ_three]
  field_simp
  ring

/-! ### non-vacuity of the jet hypotheses: a non-trivial instance over ℚ

`γ = diag(1,4,1)`-like data with time and space dependence encoded in the jets. -/
example : ∃ (G U dtG dtU : Fin 3 → Fin 3 → ℚ), (∀ i k : Fin 3, ∑ j, U i j * G j k = delta i k)
    ∧ (∀ i j : Fin 3, ∑ k, (dtU i k * G k j + U i k * dtG k j) = 0) ∧ dtU 0 0 ≠ 0 := by
  refine ⟨vec3 (vec3 2 0 0) (vec3 0 1 0) (vec3 0 0 1), vec3 (vec3 (1 / 2) 0 0) (vec3 0 1 0) (vec3 0 0 1),
    vec3 (vec3 4 0 0) (vec3 0 0 0) (vec3 0 0 0), vec3 (vec3 (-1) 0 0) (vec3 0 0 0) (vec3 0 0 0), ?_, ?_, ?_⟩
  · cases3 <;> cases3 <;> (simp only [Fin.sum_univ_three, delta, core_unfold]; norm_num [Fin.ext_iff])
  · cases3 <;> cases3 <;> (simp only [Fin.sum_univ_three, core_unfold]; norm_num)
  · simp only [core_unfold]; norm_num

end AurelVerif.C06Deriv
