/-
Lemmas/C04RiemannVacuum.lean — `st_Riemann_down4`, the two `vacuum = True` alternatives: every one of the
256 components of the generated tensor equals
`populate (Gauss) (Codazzi) (Mainardi)` of `Spec/Curvature.lean`.

Proof per alternative: (struct) all 256 entries are those of `populate` applied to the
tensor's own three blocks (by `rfl` on the generated table); (ssss) 81, (ssst) 27, (stst) 9
block entries equal the Spec formulas (by `ring`).
-/
import AurelVerif.Lemmas.C04Blocks
import AurelVerif.Gen.CoreBig_st_Riemann_down4

set_option linter.unusedSimpArgs false
set_option linter.unusedVariables false
set_option linter.unreachableTactic false
set_option linter.unusedTactic false
set_option linter.style.nameCheck false

namespace AurelVerif.C04L
open AurelVerif.Gen.Core AurelVerif.Tensor AurelVerif.CoreTac AurelVerif.C08 AurelVerif.Spec.Curvature

variable {K : Type} [Field K]

/-! ### alternative `betaup3_vacuum` (a shift key supplied, vacuum = True) -/

set_option maxHeartbeats 1000000 in
theorem bv_struct (e : Env K) : ∀ a b c d, st_Riemann_down4__betaup3_vacuum e a b c d =
    populate (fun i j k l => st_Riemann_down4__betaup3_vacuum e i.succ j.succ k.succ l.succ)
      (fun i j k => st_Riemann_down4__betaup3_vacuum e i.succ j.succ k.succ 0)
      (fun i j => st_Riemann_down4__betaup3_vacuum e i.succ 0 j.succ 0) a b c d := by
  cases4 <;> cases4 <;> cases4 <;> cases4 <;> rfl

set_option maxHeartbeats 1000000 in
theorem bv_ssss (e : Env K) : ∀ i j k l : Fin 3,
    st_Riemann_down4__betaup3_vacuum e i.succ j.succ k.succ l.succ = RssssE e i j k l := by
  cases3 <;> cases3 <;> cases3 <;> cases3 <;>
    (first | rfl | (simp only [core_unfold, RssssE, gauss]; ring))

set_option maxHeartbeats 1000000 in
theorem bv_ssst (e : Env K) : ∀ i j k : Fin 3,
    st_Riemann_down4__betaup3_vacuum e i.succ j.succ k.succ 0 = RssstE e i j k := by
  cases3 <;> cases3 <;> cases3 <;>
    (simp only [core_unfold, RssstE, codazzi, covdDD, RssssE, gauss, Fin.sum_univ_three]; ring)

set_option maxHeartbeats 1000000 in
theorem bv_stst (e : Env K) : ∀ i j : Fin 3,
    st_Riemann_down4__betaup3_vacuum e i.succ 0 j.succ 0 = RststE e (s_to_st__betaup3 e e.Kdown3) (fun _ _ => 0) i j := by
  cases3 <;> cases3 <;>
    (simp only [core_unfold, RststE, mainardi, KK4, RssstE, codazzi, covdDD, RssssE, gauss,
       Fin.sum_univ_three, Fin.sum_univ_four]; ring)

/-- **T5** `st_Riemann_down4` (a shift key supplied, vacuum = True) is `populate(Gauss, Codazzi, Mainardi)`, all 256 components. -/
theorem st_Riemann_down4__betaup3_vacuum_spec (e : Env K) (a b c d : Fin 4) :
    st_Riemann_down4__betaup3_vacuum e a b c d
      = populate (RssssE e) (RssstE e) (RststE e (s_to_st__betaup3 e e.Kdown3) (fun _ _ => 0)) a b c d := by
  rw [bv_struct e a b c d]
  have h1 : (fun i j k l => st_Riemann_down4__betaup3_vacuum e i.succ j.succ k.succ l.succ) = RssssE e := by
    funext i j k l; exact bv_ssss e i j k l
  have h2 : (fun i j k => st_Riemann_down4__betaup3_vacuum e i.succ j.succ k.succ 0) = RssstE e := by
    funext i j k; exact bv_ssst e i j k
  have h3 : (fun i j => st_Riemann_down4__betaup3_vacuum e i.succ 0 j.succ 0)
      = RststE e (s_to_st__betaup3 e e.Kdown3) (fun _ _ => 0) := by
    funext i j; exact bv_stst e i j
  rw [h1, h2, h3]

/-! ### alternative `dflt_vacuum` (no shift key (zero-shift shortcut of s_to_st), vacuum = True) -/

set_option maxHeartbeats 1000000 in
theorem dv_struct (e : Env K) : ∀ a b c d, st_Riemann_down4__dflt_vacuum e a b c d =
    populate (fun i j k l => st_Riemann_down4__dflt_vacuum e i.succ j.succ k.succ l.succ)
      (fun i j k => st_Riemann_down4__dflt_vacuum e i.succ j.succ k.succ 0)
      (fun i j => st_Riemann_down4__dflt_vacuum e i.succ 0 j.succ 0) a b c d := by
  cases4 <;> cases4 <;> cases4 <;> cases4 <;> rfl

set_option maxHeartbeats 1000000 in
theorem dv_ssss (e : Env K) : ∀ i j k l : Fin 3,
    st_Riemann_down4__dflt_vacuum e i.succ j.succ k.succ l.succ = RssssE e i j k l := by
  cases3 <;> cases3 <;> cases3 <;> cases3 <;>
    (first | rfl | (simp only [core_unfold, RssssE, gauss]; ring))

set_option maxHeartbeats 1000000 in
theorem dv_ssst (e : Env K) : ∀ i j k : Fin 3,
    st_Riemann_down4__dflt_vacuum e i.succ j.succ k.succ 0 = RssstE e i j k := by
  cases3 <;> cases3 <;> cases3 <;>
    (simp only [core_unfold, RssstE, codazzi, covdDD, RssssE, gauss, Fin.sum_univ_three]; ring)

set_option maxHeartbeats 1000000 in
theorem dv_stst (e : Env K) : ∀ i j : Fin 3,
    st_Riemann_down4__dflt_vacuum e i.succ 0 j.succ 0 = RststE e (s_to_st__dflt e e.Kdown3) (fun _ _ => 0) i j := by
  cases3 <;> cases3 <;>
    (simp only [core_unfold, RststE, mainardi, KK4, RssstE, codazzi, covdDD, RssssE, gauss,
       Fin.sum_univ_three, Fin.sum_univ_four]; ring)

/-- **T5** `st_Riemann_down4` (no shift key (zero-shift shortcut of s_to_st), vacuum = True) is `populate(Gauss, Codazzi, Mainardi)`, all 256 components. -/
theorem st_Riemann_down4__dflt_vacuum_spec (e : Env K) (a b c d : Fin 4) :
    st_Riemann_down4__dflt_vacuum e a b c d
      = populate (RssssE e) (RssstE e) (RststE e (s_to_st__dflt e e.Kdown3) (fun _ _ => 0)) a b c d := by
  rw [dv_struct e a b c d]
  have h1 : (fun i j k l => st_Riemann_down4__dflt_vacuum e i.succ j.succ k.succ l.succ) = RssssE e := by
    funext i j k l; exact dv_ssss e i j k l
  have h2 : (fun i j k => st_Riemann_down4__dflt_vacuum e i.succ j.succ k.succ 0) = RssstE e := by
    funext i j k; exact dv_ssst e i j k
  have h3 : (fun i j => st_Riemann_down4__dflt_vacuum e i.succ 0 j.succ 0)
      = RststE e (s_to_st__dflt e e.Kdown3) (fun _ _ => 0) := by
    funext i j; exact dv_stst e i j
  rw [h1, h2, h3]

end AurelVerif.C04L
