/-
Lemmas/C17EinHT.lean — Harvey_Tsoubelis is a vacuum solution: the Einstein tensor of the module's own
`gdown4` vanishes identically for `t > 0` (all ten components, and `Tdown4 = 0`), the 2-jet being
proven to consist of the first and second partial derivatives of the module's metric.
-/
import AurelVerif.Lemmas.C17JetHT
import AurelVerif.Lemmas.Solutions
import AurelVerif.Spec.MetricJet
import AurelVerif.Lemmas.C17DerivTac

set_option linter.unusedVariables false
set_option linter.unusedTactic false
set_option linter.unreachableTactic false
set_option linter.unusedSimpArgs false

namespace AurelVerif.C17Ein
open AurelVerif.Gen.Solutions AurelVerif.SolutionsLemmas AurelVerif.Spec.Jet4 AurelVerif.Spec.Curvature
open AurelVerif.C17JetTac AurelVerif.C17Jet AurelVerif.C17DerivTac

/-! ## Harvey_Tsoubelis -/

/-- the jet: the family of Lemmas/C17JetHT.lean at `E = exp x`, `B = x + log t`. -/
noncomputable def Harvey_Tsoubelis_jet (t x y z : ℝ) : Jet2 ℝ := HT.jet t (Real.exp x) (x + Real.log t)

/-- the module's metric is `−dt² + t² dx² + t eˣ (dy² + 2B dy dz + (B²+1) dz²)`, `B = x + log t`. -/
theorem Harvey_Tsoubelis_gdown4_closed (t x y z : ℝ) : Harvey_Tsoubelis.gdown4_num t x y z =
    ![![-1, 0, 0, 0], ![0, t ^ 2, 0, 0], ![0, 0, Real.exp x * t, (x + Real.log t) * Real.exp x * t],
      ![0, 0, (x + Real.log t) * Real.exp x * t, Real.exp x * t * ((x + Real.log t) ^ 2 + 1)]] := by
  refine funext4 ?_ ?_ ?_ ?_ <;> refine funext4 ?_ ?_ ?_ ?_ <;>
    (simp [Harvey_Tsoubelis.gdown4_num, Harvey_Tsoubelis.gdown4_num_00, Harvey_Tsoubelis.gdown4_num_01, Harvey_Tsoubelis.gdown4_num_02, Harvey_Tsoubelis.gdown4_num_03, Harvey_Tsoubelis.gdown4_num_10, Harvey_Tsoubelis.gdown4_num_11, Harvey_Tsoubelis.gdown4_num_12, Harvey_Tsoubelis.gdown4_num_13, Harvey_Tsoubelis.gdown4_num_20, Harvey_Tsoubelis.gdown4_num_21, Harvey_Tsoubelis.gdown4_num_22, Harvey_Tsoubelis.gdown4_num_23, Harvey_Tsoubelis.gdown4_num_30, Harvey_Tsoubelis.gdown4_num_31, Harvey_Tsoubelis.gdown4_num_32, Harvey_Tsoubelis.gdown4_num_33, Harvey_Tsoubelis.gammadown3_num, Harvey_Tsoubelis.gammadown3_num_00, Harvey_Tsoubelis.gammadown3_num_01, Harvey_Tsoubelis.gammadown3_num_02, Harvey_Tsoubelis.gammadown3_num_10, Harvey_Tsoubelis.gammadown3_num_11, Harvey_Tsoubelis.gammadown3_num_12, Harvey_Tsoubelis.gammadown3_num_20, Harvey_Tsoubelis.gammadown3_num_21, Harvey_Tsoubelis.gammadown3_num_22] <;> ring)

theorem Harvey_Tsoubelis_isJetField : IsJetField (fun t _ _ _ => 0 < t) Harvey_Tsoubelis.gdown4_num Harvey_Tsoubelis_jet where
  g_eq := by
    intro t x y z hD
    rw [Harvey_Tsoubelis_gdown4_closed]; rfl
  inverse := by
    intro t x y z hD
    have htn : t ≠ 0 := ne_of_gt hD
    exact HT.jet_inverse _ _ _ htn (Real.exp_pos x).ne'
  d1 := by
    intro t x y z hD
    have htn : t ≠ 0 := ne_of_gt hD

    refine forall4 ?_ ?_ ?_ ?_ <;> refine forall4 ?_ ?_ ?_ ?_ <;> refine forall4 ?_ ?_ ?_ ?_ <;>
      first
      | exact hasDerivAt_const _ _
      | (simp only [hasPartialAt_zero, hasPartialAt_one, hasPartialAt_two, hasPartialAt_three, Harvey_Tsoubelis_gdown4_closed, Harvey_Tsoubelis_jet, HT.jet, Matrix.cons_val_zero, Matrix.cons_val_one, Matrix.cons_val]
         first | exact hasDerivAt_const _ _ | hasderiv_auto)
  d2 := by
    intro t x y z hD
    have htn : t ≠ 0 := ne_of_gt hD

    refine forall4 ?_ ?_ ?_ ?_ <;> refine forall4 ?_ ?_ ?_ ?_ <;> refine forall4 ?_ ?_ ?_ ?_ <;> refine forall4 ?_ ?_ ?_ ?_ <;>
      first
      | exact hasDerivAt_const _ _
      | (simp only [hasPartialAt_zero, hasPartialAt_one, hasPartialAt_two, hasPartialAt_three, Harvey_Tsoubelis_jet, HT.jet, Matrix.cons_val_zero, Matrix.cons_val_one, Matrix.cons_val]
         first | exact hasDerivAt_const _ _ | hasderiv_auto)

/-- Harvey_Tsoubelis: all ten vacuum Einstein equations `G_ab = κ·T_ab = 0` (any `κ`). -/
theorem Harvey_Tsoubelis_einstein (kappa t x y z : ℝ) (ht : 0 < t) :
    (Harvey_Tsoubelis_jet t x y z).SolvesEinstein 0 kappa (Harvey_Tsoubelis.Tdown4 t x y z) := by
  unfold Jet2.SolvesEinstein Harvey_Tsoubelis_jet
  rw [HT.Einstein_eq _ _ _ ht.ne' (Real.exp_pos x).ne']
  refine forall4 ?_ ?_ ?_ ?_ <;> refine forall4 ?_ ?_ ?_ ?_ <;>
    (simp only [HT.EinsteinT, HT.jet, Harvey_Tsoubelis.Tdown4, Harvey_Tsoubelis.Tdown4_00, Harvey_Tsoubelis.Tdown4_01, Harvey_Tsoubelis.Tdown4_02, Harvey_Tsoubelis.Tdown4_03, Harvey_Tsoubelis.Tdown4_10, Harvey_Tsoubelis.Tdown4_11, Harvey_Tsoubelis.Tdown4_12, Harvey_Tsoubelis.Tdown4_13, Harvey_Tsoubelis.Tdown4_20, Harvey_Tsoubelis.Tdown4_21, Harvey_Tsoubelis.Tdown4_22, Harvey_Tsoubelis.Tdown4_23, Harvey_Tsoubelis.Tdown4_30, Harvey_Tsoubelis.Tdown4_31, Harvey_Tsoubelis.Tdown4_32, Harvey_Tsoubelis.Tdown4_33, Matrix.cons_val_zero, Matrix.cons_val_one, Matrix.cons_val]; ring1)

/-- the Ricci tensor itself vanishes. -/
theorem Harvey_Tsoubelis_ricci_flat (t x y z : ℝ) (ht : 0 < t) :
    (Harvey_Tsoubelis_jet t x y z).Ric = fun _ _ => 0 := by
  unfold Harvey_Tsoubelis_jet
  rw [HT.Ric_eq _ _ _ ht.ne' (Real.exp_pos x).ne']
  refine funext4 ?_ ?_ ?_ ?_ <;> refine funext4 ?_ ?_ ?_ ?_ <;> (simp only [HT.RicT, Matrix.cons_val_zero, Matrix.cons_val_one, Matrix.cons_val])
end AurelVerif.C17Ein
