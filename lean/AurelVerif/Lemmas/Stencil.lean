/-
Lemmas/Stencil.lean — moment conditions ⇒ exactness on polynomials.
-/
import Mathlib.Algebra.Polynomial.Taylor
import Mathlib.Algebra.Polynomial.Derivative
import Mathlib.Data.Rat.Cast.CharZero
import Mathlib.Tactic.Ring
import Mathlib.Tactic.FieldSimp
import AurelVerif.Spec.FD

namespace AurelVerif.StencilLemmas
open AurelVerif.Splice Polynomial

/-- value of a stencil on a sample function `g : offset ↦ value`. -/
def evalSt {K : Type} [Field K] (st : Stencil) (g : Int → K) : K :=
  (st.map fun kc => ((kc.2 : ℚ) : K) * g kc.1).sum

/-- value of a formal linear combination of field elements. -/
def evalLin {K : Type} [Field K] (row : Lin K) : K :=
  (row.map fun ca => ((ca.1 : ℚ) : K) * ca.2).sum

theorem exact_of_moments {K : Type} [Field K] [CharZero K]
    (st : Stencil) (p : Nat) (hm : momentsOK st p = true)
    (q : Polynomial K) (hq : q.natDegree ≤ p) (x h : K) (hh : h ≠ 0) :
    evalSt st (fun k => q.eval (x + (k : K) * h)) * h⁻¹ = q.derivative.eval x := by
  sorry

end AurelVerif.StencilLemmas
