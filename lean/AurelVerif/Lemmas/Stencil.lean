/-
Lemmas/Stencil.lean — moment conditions ⇒ exactness on polynomials.
-/
import Mathlib.Algebra.Polynomial.Taylor
import Mathlib.Algebra.Polynomial.Derivative
import Mathlib.Data.Rat.Cast.CharZero
import Mathlib.Tactic.Ring
import Mathlib.Tactic.FieldSimp
import AurelVerif.Spec.FD

namespace AurelVerif.StencilLemmas
open AurelVerif.Splice Polynomial

/-- value of a stencil on a sample function `g : offset ↦ value`. -/
def evalSt {K : Type} [Field K] (st : Stencil) (g : Int → K) : K :=
  (st.map fun kc => ((kc.2 : ℚ) : K) * g kc.1).sum

/-- value of a formal linear combination of field elements. -/
def evalLin {K : Type} [Field K] (row : Lin K) : K :=
  (row.map fun ca => ((ca.1 : ℚ) : K) * ca.2).sum

theorem evalSt_nil {K : Type} [Field K] (g : Int → K) : evalSt [] g = 0 := rfl

theorem evalSt_cons {K : Type} [Field K] (kc : Int × Rat) (st : Stencil) (g : Int → K) :
    evalSt (kc :: st) g = ((kc.2 : ℚ) : K) * g kc.1 + evalSt st g := by
  simp [evalSt]

theorem moment_nil (j : Nat) : moment [] j = 0 := rfl

theorem moment_cons (kc : Int × Rat) (st : Stencil) (j : Nat) :
    moment (kc :: st) j = kc.2 * ((kc.1 : Int) : Rat) ^ j + moment st j := by
  simp [moment]

theorem evalSt_poly {K : Type} [Field K] [CharZero K] (st : Stencil) (n : Nat) (a : Nat → K) (h : K) :
    evalSt st (fun k => ∑ j ∈ Finset.range n, a j * ((k : K) * h) ^ j)
      = ∑ j ∈ Finset.range n, a j * h ^ j * ((moment st j : ℚ) : K) := by
  induction st with
  | nil => simp [evalSt_nil, moment_nil]
  | cons kc st ih =>
    rw [evalSt_cons, ih, Finset.mul_sum, ← Finset.sum_add_distrib]
    apply Finset.sum_congr rfl
    intro j _
    rw [moment_cons]
    push_cast
    ring

theorem moments_of_ok (st : Stencil) (p : Nat) (hm : momentsOK st p = true) (j : Nat) (hj : j < p + 1) :
    moment st j = if j = 1 then 1 else 0 := by
  unfold momentsOK at hm
  rw [List.all_eq_true] at hm
  have := hm j (List.mem_range.mpr hj)
  simpa using this

theorem exact_of_moments {K : Type} [Field K] [CharZero K]
    (st : Stencil) (p : Nat) (hm : momentsOK st p = true)
    (q : Polynomial K) (hq : q.natDegree ≤ p) (x h : K) (hh : h ≠ 0) :
    evalSt st (fun k => q.eval (x + (k : K) * h)) * h⁻¹ = q.derivative.eval x := by
  have hdeg : (taylor x q).natDegree < p + 1 := by
    rw [natDegree_taylor]; omega
  have hexp : ∀ k : Int, q.eval (x + (k : K) * h)
      = ∑ j ∈ Finset.range (p + 1), (taylor x q).coeff j * ((k : K) * h) ^ j := by
    intro k
    have h1 : q.eval (x + (k : K) * h) = (taylor x q).eval ((k : K) * h) := by
      rw [taylor_eval, add_comm]
    rw [h1, eval_eq_sum_range' hdeg]
  have hfun : (fun k : Int => q.eval (x + (k : K) * h))
      = fun k : Int => ∑ j ∈ Finset.range (p + 1), (taylor x q).coeff j * ((k : K) * h) ^ j :=
    funext hexp
  rw [hfun, evalSt_poly]
  have hterm : ∀ j ∈ Finset.range (p + 1),
      (taylor x q).coeff j * h ^ j * ((moment st j : ℚ) : K)
        = if j = 1 then (taylor x q).coeff 1 * h else 0 := by
    intro j hj
    rw [moments_of_ok st p hm j (Finset.mem_range.mp hj)]
    split_ifs with h1
    · subst h1; simp
    · simp
  rw [Finset.sum_congr rfl hterm]
  by_cases hp : 1 < p + 1
  · rw [Finset.sum_ite_eq' (Finset.range (p + 1)) 1, if_pos (Finset.mem_range.mpr hp)]
    rw [taylor_coeff_one]
    field_simp
  · have hp0 : p = 0 := by omega
    subst hp0
    have : q.natDegree = 0 := by omega
    have hd : derivative q = 0 := derivative_of_natDegree_zero this
    simp [hd]

end AurelVerif.StencilLemmas
