/-
Lemmas/C17HypDisc.lean — the Szekeres module's `integrated_part` with `hyp2f1 :=` Mathlib's Gauss
hypergeometric function `₂F₁` is an antiderivative of `part_to_integrate` on `τ > 0`, `sinh² τ < 1`
(the disc of convergence of the hypergeometric series).
-/
import AurelVerif.Lemmas.C17PowSeries
import AurelVerif.Lemmas.Solutions
import Mathlib.Analysis.SpecialFunctions.OrdinaryHypergeometric
import Mathlib.Analysis.Analytic.Binomial
import Mathlib.Analysis.SpecialFunctions.Pow.Deriv
import Mathlib.Analysis.SpecialFunctions.Trigonometric.DerivHyp

namespace AurelVerif.C17Hyp
open AurelVerif.Gen.Solutions AurelVerif.SolutionsLemmas

/-- Mathlib's real Gauss hypergeometric function as a 4-argument function (argument order of
`scipy.special.hyp2f1`). -/
noncomputable def gaussHyp (a b c x : ℝ) : ℝ := ordinaryHypergeometric a b c x

/-- rising factorial `(a)_n`. -/
noncomputable abbrev poch (a : ℝ) (n : ℕ) : ℝ := (ascPochhammer ℝ n).eval a

/-- the coefficients of `₂F₁(5/6, 3/2; 11/6; ·)`. -/
noncomputable def cF (n : ℕ) : ℝ :=
  ((n.factorial : ℝ)⁻¹) * poch (5/6) n * poch (3/2) n * (poch (11/6) n)⁻¹

/-- the coefficients of `(1 - x)^(-3/2)`. -/
noncomputable def dF (n : ℕ) : ℝ := poch (3/2) n / (n.factorial : ℝ)

theorem gaussHyp_eq_tsum (x : ℝ) : gaussHyp (5/6) (3/2) (11/6) x = ∑' n, cF n * x ^ n := by
  unfold gaussHyp
  rw [ordinaryHypergeometric_eq_tsum]
  simp only [smul_eq_mul, cF, poch]

theorem poch_succ (a : ℝ) (n : ℕ) : poch a (n + 1) = poch a n * (a + n) :=
  ascPochhammer_succ_eval n a

theorem poch_pos {a : ℝ} (ha : 0 < a) (n : ℕ) : 0 < poch a n := ascPochhammer_pos n a ha

theorem poch_key (n : ℕ) : ((n:ℝ) + 5/6) * poch (5/6) n = 5/6 * poch (11/6) n := by
  induction n with
  | zero => simp [poch]
  | succ n ih =>
    rw [poch_succ, poch_succ]
    push_cast
    have : ((n:ℝ) + 1 + 5/6) * (poch (5/6) n * (5/6 + n))
        = ((n:ℝ) + 1 + 5/6) * (((n:ℝ) + 5/6) * poch (5/6) n) := by ring
    rw [this, ih]
    ring

theorem cF_key (n : ℕ) : ((n:ℝ) + 5/6) * cF n = 5/6 * dF n := by
  have h11 : poch (11/6) n ≠ 0 := (poch_pos (by norm_num) n).ne'
  have hf : (n.factorial : ℝ) ≠ 0 := by exact_mod_cast n.factorial_ne_zero
  unfold cF dF
  have := poch_key n
  field_simp
  linear_combination (6 * poch (3/2) n) * this

theorem dF_pos (n : ℕ) : 0 < dF n := by
  unfold dF
  have hf : (0:ℝ) < (n.factorial : ℝ) := by exact_mod_cast n.factorial_pos
  exact div_pos (poch_pos (by norm_num) n) hf

theorem dF_succ (n : ℕ) : dF (n + 1) = dF n * ((3/2 + (n:ℝ)) / ((n:ℝ) + 1)) := by
  unfold dF
  have hf : (n.factorial : ℝ) ≠ 0 := by exact_mod_cast n.factorial_ne_zero
  have hn : ((n:ℝ) + 1) ≠ 0 := by positivity
  rw [poch_succ, Nat.factorial_succ]
  push_cast
  field_simp

theorem dF_le (n : ℕ) : dF n ≤ (n:ℝ) + 1 := by
  induction n with
  | zero => simp [dF, poch]
  | succ n ih =>
    rw [dF_succ]
    push_cast
    have hn : (0:ℝ) < (n:ℝ) + 1 := by positivity
    have h1 : (3/2 + (n:ℝ)) / ((n:ℝ) + 1) ≤ ((n:ℝ) + 2) / ((n:ℝ) + 1) := by
      apply div_le_div_of_nonneg_right _ hn.le
      linarith
    calc dF n * ((3/2 + (n:ℝ)) / ((n:ℝ) + 1))
        ≤ ((n:ℝ) + 1) * (((n:ℝ) + 2) / ((n:ℝ) + 1)) :=
          mul_le_mul ih h1 (by positivity) hn.le
      _ = (n:ℝ) + 1 + 1 := by field_simp; ring

theorem cF_bound (n : ℕ) : |cF n| ≤ 1 * ((n:ℝ) + 1) ^ 1 := by
  have hn : (0:ℝ) < (n:ℝ) + 5/6 := by positivity
  have hc : cF n = (5/6) / ((n:ℝ) + 5/6) * dF n := by
    have := cF_key n
    field_simp
    linear_combination 6 * this
  have hd := dF_pos n
  have h1 : (5/6) / ((n:ℝ) + 5/6) ≤ 1 := by
    rw [div_le_one hn]
    have : (0:ℝ) ≤ n := Nat.cast_nonneg n
    linarith
  have h0 : 0 ≤ (5/6) / ((n:ℝ) + 5/6) := by positivity
  rw [hc, abs_of_nonneg (mul_nonneg h0 hd.le), one_mul, pow_one]
  calc (5/6) / ((n:ℝ) + 5/6) * dF n ≤ 1 * dF n := mul_le_mul_of_nonneg_right h1 hd.le
    _ = dF n := one_mul _
    _ ≤ (n:ℝ) + 1 := dF_le n

theorem choose_eq_dF (n : ℕ) : Ring.choose ((3/2 : ℝ) + n - 1) n = dF n := by
  rw [← Ring.multichoose_eq]
  have hf : (n.factorial : ℝ) ≠ 0 := by exact_mod_cast n.factorial_ne_zero
  unfold dF poch
  rw [eq_div_iff hf, ← Polynomial.ascPochhammer_smeval_eq_eval,
    ← Ring.factorial_nsmul_multichoose_eq_ascPochhammer, nsmul_eq_mul, mul_comm]

theorem dF_hasSum {x : ℝ} (hx : |x| < 1) :
    HasSum (fun n => dF n * x ^ n) (1 / (1 - x) ^ ((3:ℝ)/2)) := by
  have h := Real.one_div_one_sub_rpow_hasFPowerSeriesOnBall_zero ((3:ℝ)/2)
  have hx' : x ∈ Metric.eball (0:ℝ) 1 := by
    rw [mem_eball_zero_iff, ← ofReal_norm, Real.norm_eq_abs]
    exact ENNReal.ofReal_lt_one.2 hx
  have := h.hasSum hx'
  simp only [FormalMultilinearSeries.ofScalars_apply_eq, smul_eq_mul, zero_add] at this
  simpa only [choose_eq_dF] using this

/-- explicit form: the derivative is the term-wise differentiated series, and Euler's operator
`x d/dx + 5/6` maps `₂F₁(5/6, 3/2; 11/6; ·)` to `(5/6) (1 - x)^(-3/2)`. -/
theorem gaussHyp_ode (x : ℝ) (hx : |x| < 1) :
    ∃ F' : ℝ, HasDerivAt (gaussHyp (5/6) (3/2) (11/6)) F' x ∧
      x * F' + 5/6 * gaussHyp (5/6) (3/2) (11/6) x = 5/6 * (1 / (1 - x) ^ ((3:ℝ)/2)) := by
  obtain ⟨hS1, hS2, hD⟩ := powerSeries_hasDerivAt cF 1 1 cF_bound hx
  refine ⟨∑' n : ℕ, ((n:ℝ) + 1) * cF (n + 1) * x ^ n, ?_, ?_⟩
  · have : gaussHyp (5/6) (3/2) (11/6) = fun y => ∑' n, cF n * y ^ n :=
      funext gaussHyp_eq_tsum
    rw [this]
    exact hD
  · rw [gaussHyp_eq_tsum]
    have h1 : HasSum (fun n : ℕ => (n:ℝ) * cF n * x ^ n)
        (x * ∑' n : ℕ, ((n:ℝ) + 1) * cF (n + 1) * x ^ n) := by
      have := (hS2.hasSum.mul_left x)
      have h' : HasSum (fun n : ℕ => ((n + 1 : ℕ) : ℝ) * cF (n + 1) * x ^ (n + 1))
          (x * ∑' n : ℕ, ((n:ℝ) + 1) * cF (n + 1) * x ^ n) := by
        refine this.congr_fun ?_
        intro n
        push_cast
        ring
      have h'' := (hasSum_nat_add_iff (f := fun n : ℕ => (n:ℝ) * cF n * x ^ n) 1).1 h'
      simpa using h''
    have h2 : HasSum (fun n : ℕ => (n:ℝ) * cF n * x ^ n + 5/6 * (cF n * x ^ n))
        (x * (∑' n : ℕ, ((n:ℝ) + 1) * cF (n + 1) * x ^ n) + 5/6 * ∑' n, cF n * x ^ n) :=
      h1.add (hS1.hasSum.mul_left (5/6))
    have h3 : HasSum (fun n : ℕ => (n:ℝ) * cF n * x ^ n + 5/6 * (cF n * x ^ n))
        (5/6 * (1 / (1 - x) ^ ((3:ℝ)/2))) := by
      refine ((dF_hasSum hx).mul_left (5/6)).congr_fun ?_
      intro n
      have := cF_key n
      linear_combination (x ^ n) * this
    exact h2.unique h3

theorem gaussHyp_zero (a b c : ℝ) : gaussHyp a b c 0 = 1 := by
  unfold gaussHyp
  exact ordinaryHypergeometric_zero a b c

theorem gaussHyp_continuousAt (x : ℝ) (hx : |x| < 1) :
    ContinuousAt (gaussHyp (5/6) (3/2) (11/6)) x := by
  obtain ⟨F', hF, _⟩ := gaussHyp_ode x hx
  exact hF.continuousAt

theorem Szekeres_IP_gaussHyp_eq :
    Szekeres_IP gaussHyp = fun τ : ℝ =>
      (3:ℝ) / 5 * (gaussHyp (5/6) (3/2) (11/6) (-(Real.sinh τ ^ 2)) * Real.sinh τ ^ ((5:ℝ) / 3)) := by
  funext τ
  unfold Szekeres_IP
  have hc : 0 < Real.cosh τ := Real.cosh_pos τ
  rw [Real.sqrt_sq hc.le]
  field_simp

/-- MAIN: with `hyp2f1 :=` Mathlib's `₂F₁`, the module's `integrated_part` is an antiderivative of its
`part_to_integrate` at every `τ > 0` with `sinh² τ < 1`. -/
theorem Szekeres_hIP_gaussHyp_disc (τ : ℝ) (hτ : 0 < τ) (hdisc : Real.sinh τ ^ 2 < 1) :
    HasDerivAt (Szekeres_IP gaussHyp) (Szekeres_PTI τ) τ := by
  rw [Szekeres_IP_gaussHyp_eq]
  set u : ℝ := Real.sinh τ with hu
  have hu0 : 0 < u := Real.sinh_pos_iff.2 hτ
  have hch : 0 < Real.cosh τ := Real.cosh_pos τ
  have hx : |-(u ^ 2)| < 1 := by
    rw [abs_neg, abs_of_nonneg (sq_nonneg u)]; exact hdisc
  obtain ⟨F', hF, hode⟩ := gaussHyp_ode (-(u ^ 2)) hx
  -- inner map τ ↦ -(sinh τ)^2
  have hin : HasDerivAt (fun s : ℝ => -(Real.sinh s ^ 2)) (-((2:ℕ) * u ^ (2 - 1) * Real.cosh τ)) τ :=
    ((Real.hasDerivAt_sinh τ).pow 2).neg
  have hcomp : HasDerivAt (fun s : ℝ => gaussHyp (5/6) (3/2) (11/6) (-(Real.sinh s ^ 2)))
      (F' * -((2:ℕ) * u ^ (2 - 1) * Real.cosh τ)) τ :=
    HasDerivAt.comp τ hF hin
  have hpow : HasDerivAt (fun s : ℝ => Real.sinh s ^ ((5:ℝ) / 3))
      (Real.cosh τ * ((5:ℝ) / 3) * u ^ ((5:ℝ) / 3 - 1)) τ :=
    (Real.hasDerivAt_sinh τ).rpow_const (Or.inl hu0.ne')
  have hall := ((hcomp.mul hpow).const_mul ((3:ℝ) / 5))
  refine hall.congr_deriv ?_
  -- algebra
  have h53 : u ^ ((5:ℝ) / 3) = u ^ ((2:ℝ) / 3) * u := by
    have : (5:ℝ) / 3 = 2 / 3 + 1 := by norm_num
    rw [this, Real.rpow_add hu0, Real.rpow_one]
  have h23 : u ^ ((5:ℝ) / 3 - 1) = u ^ ((2:ℝ) / 3) := by norm_num
  have hcs : 1 - -(u ^ 2) = Real.cosh τ ^ 2 := by
    rw [Real.cosh_sq τ]; ring
  have h32 : (Real.cosh τ ^ 2) ^ ((3:ℝ) / 2) = Real.cosh τ ^ 3 := by
    rw [← Real.rpow_natCast, ← Real.rpow_mul hch.le, ← Real.rpow_natCast]
    norm_num
  rw [hcs, h32] at hode
  unfold Szekeres_PTI
  rw [h53, h23, ← hu]
  have hc3 : Real.cosh τ ^ 3 ≠ 0 := (pow_pos hch 3).ne'
  have hF0 : gaussHyp (5/6) (3/2) (11/6) (-(u ^ 2))
      = 1 / Real.cosh τ ^ 3 - 6/5 * (-(u ^ 2) * F') := by
    linear_combination (6/5) * hode
  rw [hF0]
  field_simp
  ring

end AurelVerif.C17Hyp
