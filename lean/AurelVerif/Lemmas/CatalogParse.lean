/-
Lemmas/CatalogParse.lean — T2: `read_iterations` parses back what the line
printer of `iterations()` writes.  Core Lean only.
-/
import AurelVerif.Lemmas.Catalog

set_option linter.unusedSimpArgs false
set_option linter.unusedVariables false

namespace AurelVerif.CatalogLemmas
open AurelVerif.Catalog

@[simp] theorem ebind_ok {ε α β : Type} (a : α) (f : α → Except ε β) : (Except.ok a >>= f) = f a := rfl
@[simp] theorem emap_ok {ε α β : Type} (f : α → β) (a : α) : f <$> (Except.ok a : Except ε α) = Except.ok (f a) := rfl
@[simp] theorem epure_ok {ε α : Type} (a : α) : (pure a : Except ε α) = Except.ok a := rfl

theorem nd (c : Char) (h : isDig c = false) (n : Nat) : (c ∈ toDec n) = False := by
  simp [not_mem_of_isDig_false h n]

@[simp] theorem nd_r (n : Nat) : ('r' ∈ toDec n) = False := nd 'r' (by decide) n
@[simp] theorem nd_D (n : Nat) : ('D' ∈ toDec n) = False := nd 'D' (by decide) n
@[simp] theorem nd_s (n : Nat) : ('s' ∈ toDec n) = False := nd 's' (by decide) n
@[simp] theorem nd_g (n : Nat) : ('g' ∈ toDec n) = False := nd 'g' (by decide) n
@[simp] theorem nd_gt (n : Nat) : ('>' ∈ toDec n) = False := nd '>' (by decide) n
@[simp] theorem nd_lp (n : Nat) : ('(' ∈ toDec n) = False := nd '(' (by decide) n
@[simp] theorem nd_rp (n : Nat) : (')' ∈ toDec n) = False := nd ')' (by decide) n
@[simp] theorem nd_comma (n : Nat) : (',' ∈ toDec n) = False := nd ',' (by decide) n
@[simp] theorem nd_q (n : Nat) : ('\'' ∈ toDec n) = False := nd '\'' (by decide) n
@[simp] theorem nd_lb (n : Nat) : ('[' ∈ toDec n) = False := nd '[' (by decide) n
@[simp] theorem nd_rb (n : Nat) : (']' ∈ toDec n) = False := nd ']' (by decide) n
@[simp] theorem nd_sp (n : Nat) : (' ' ∈ toDec n) = False := nd ' ' (by decide) n
@[simp] theorem nd_eq (n : Nat) : ('=' ∈ toDec n) = False := nd '=' (by decide) n
@[simp] theorem nd_dash (n : Nat) : ('-' ∈ toDec n) = False := nd '-' (by decide) n
@[simp] theorem nd_nl (n : Nat) : ('\n' ∈ toDec n) = False := nd '\n' (by decide) n
@[simp] theorem nd_cr (n : Nat) : ('\r' ∈ toDec n) = False := nd '\r' (by decide) n
@[simp] theorem nd_l (n : Nat) : ('l' ∈ toDec n) = False := nd 'l' (by decide) n
@[simp] theorem nd_us (n : Nat) : ('_' ∈ toDec n) = False := nd '_' (by decide) n
@[simp] theorem nd_v (n : Nat) : ('v' ∈ toDec n) = False := nd 'v' (by decide) n
@[simp] theorem nd_b (n : Nat) : ('b' ∈ toDec n) = False := nd 'b' (by decide) n
@[simp] theorem nd_C (n : Nat) : ('C' ∈ toDec n) = False := nd 'C' (by decide) n
@[simp] theorem nd_k (n : Nat) : ('k' ∈ toDec n) = False := nd 'k' (by decide) n

/-- `m.split(m ++ b) = ['', b]` when some character of `m` does not occur in `b` -/
theorem split_lit_prefix {m b : Str} {c : Char} (hc : c ∈ m) (hb : c ∉ b) : split m (m ++ b) = [[], b] := by
  cases m with
  | nil => simp at hc
  | cons x m' =>
    have := split_first (c := x) (sep' := m') (a := []) b (by simp)
    simp only [List.nil_append] at this
    rw [this, split_none hc hb]

/-- `(a ++ m ++ b).split(m) = [a, b]` -/
theorem split_mid {m' a b : Str} {x c : Char} (ha : x ∉ a) (hc : c ∈ x :: m') (hb : c ∉ b) :
    split (x :: m') (a ++ (x :: m') ++ b) = [a, b] := by
  rw [split_first b ha, split_none hc hb]

theorem stepLine_restart (st : Cat × Option Int) (n : Nat) :
    stepLine st (printLine (.restart n)) = .ok (applyLine st (.restart n)) := by
  have h1 : mRestart.isPrefixOf (mRestart ++ toDec n) = true := isPrefixOf_append_self _ _
  have hA : sReading.isPrefixOf (mRestart ++ toDec n) = false := by simp [sReading, mRestart, List.isPrefixOf]
  have hB : sNoData.isPrefixOf (mRestart ++ toDec n) = false := by simp [sNoData, mRestart, List.isPrefixOf]
  have h2 : split mRestart (mRestart ++ toDec n) = [[], toDec n] :=
    split_lit_prefix (c := 'r') (by decide) (not_mem_of_isDig_false (by decide) n)
  simp [stepLine, printLine, hA, hB, h1, h2, idx, pyIntE_toDec, applyLine]

theorem split1_first {c : Char} {a : Str} (b : Str) (h : c ∉ a) :
    split [c] (a ++ c :: b) = a :: split [c] b := by
  have := split_first' (c := c) (sep' := []) b h
  simpa using this

theorem split1_none {c : Char} {s : Str} (h : c ∉ s) : split [c] s = [s] :=
  split_none (c := c) (by simp) h

theorem setEntry_some {st : Cat × Option Int} {r : Int} (h : st.2 = some r) (k : Str) (v : Val) :
    setEntry st k v = .ok (dset st.1 r (dset ((dget st.1 r).getD []) k v), st.2) := by
  simp [setEntry, h]

theorem stepLine_its (st : Cat × Option Int) (r : Int) (hst : st.2 = some r) (a b : Nat) :
    stepLine st (printLine (.its a b)) = .ok (applyLine st (.its a b)) := by
  have hline : printLine (.its a b) =
      ['i', 't'] ++ ' ' :: (['='] ++ ' ' :: (toDec a ++ ' ' :: (['-', '>'] ++ ' ' :: toDec b))) := by
    simp [printLine, sItEq]
  have hsp : ∀ n, ' ' ∉ toDec n := fun n => not_mem_of_isDig_false (by decide) n
  have hA : sReading.isPrefixOf (printLine (.its a b)) = false := by simp [hline, sReading, sItEq, List.isPrefixOf]
  have hB : sNoData.isPrefixOf (printLine (.its a b)) = false := by simp [hline, sNoData, sItEq, List.isPrefixOf]
  have h0 : mRestart.isPrefixOf (printLine (.its a b)) = false := by simp [hline, mRestart, sItEq, List.isPrefixOf]
  have h1 : isInfix mVars (printLine (.its a b)) = false :=
    isInfix_false_of_char (c := 'D') (by decide) (by simp [hline])
  have h2 : isInfix mArrow (printLine (.its a b)) = true := by
    have : printLine (.its a b) = (sItEq ++ toDec a ++ [' ']) ++ mArrow ++ (' ' :: toDec b) := by
      simp [printLine, mArrow]
    rw [this]; exact isInfix_mid _ _ _
  have h3 : split [' '] (printLine (.its a b)) = [['i', 't'], ['='], toDec a, ['-', '>'], toDec b] := by
    rw [hline, split1_first _ (by decide), split1_first _ (by decide), split1_first _ (hsp a),
      split1_first _ (by decide), split1_none (hsp b)]
  simp [stepLine, hA, hB, h0, h1, h2, h3, idx, pyIntE_toDec, setEntry_some hst, applyLine, hst]

theorem split2_first {c d : Char} {a : Str} (b : Str) (h : c ∉ a) :
    split [c, d] (a ++ c :: d :: b) = a :: split [c, d] b := by
  have := split_first' (c := c) (sep' := [d]) b h
  simpa using this

theorem stepLine_arange (st : Cat × Option Int) (r : Int) (hst : st.2 = some r) (rl a b d : Nat) :
    stepLine st (printLine (.arange rl a b d)) = .ok (applyLine st (.arange rl a b d)) := by
  -- the text after 'rl = '
  let rest : Str := toDec rl ++ ' ' :: ([ 'a', 't', ' ', 'i', 't', ' ', '=', ' ', 'n', 'p', '.', 'a', 'r', 'a', 'n', 'g', 'e', '('] ++
      (toDec a ++ ',' :: ' ' :: (toDec b ++ ',' :: ' ' :: (toDec d ++ [')']))))
  have hline : printLine (.arange rl a b d) = mRl ++ rest := by
    simp [printLine, mRl, sAtIt, sNpArange, rest]
  have hA : sReading.isPrefixOf (printLine (.arange rl a b d)) = false := by simp [hline, sReading, mRl, List.isPrefixOf]
  have hB : sNoData.isPrefixOf (printLine (.arange rl a b d)) = false := by simp [hline, sNoData, mRl, List.isPrefixOf]
  have h0 : mRestart.isPrefixOf (printLine (.arange rl a b d)) = false := by simp [hline, mRestart, mRl, List.isPrefixOf]
  have h1 : isInfix mVars (printLine (.arange rl a b d)) = false :=
    isInfix_false_of_char (c := 'D') (by decide) (by simp [hline, mRl, rest])
  have h2 : isInfix mArrow (printLine (.arange rl a b d)) = false :=
    isInfix_false_of_char (c := '>') (by decide) (by simp [hline, mRl, rest])
  have h3 : isInfix mRl (printLine (.arange rl a b d)) = true := by
    rw [hline]; exact isInfix_of_prefix (isPrefixOf_append_self _ _)
  have h4 : isInfix mArange (printLine (.arange rl a b d)) = true := by
    have : printLine (.arange rl a b d) = (mRl ++ toDec rl ++ sAtIt ++ ['n', 'p', '.']) ++ mArange ++
        ('(' :: (toDec a ++ [',', ' '] ++ toDec b ++ [',', ' '] ++ toDec d ++ [')'])) := by
      simp [printLine, sNpArange, mArange]
    rw [this]; exact isInfix_mid _ _ _
  have h5 : split mRl (printLine (.arange rl a b d)) = [[], rest] := by
    rw [hline]; exact split_lit_prefix (c := 'l') (by decide) (by simp [rest])
  have h6 : (split [' '] rest)[0]? = some (toDec rl) := by
    simp only [rest]
    rw [split1_first _ (by simp)]; rfl
  have hl7 : printLine (.arange rl a b d) =
      (mRl ++ toDec rl ++ sAtIt ++ ['n', 'p', '.', 'a', 'r', 'a', 'n', 'g', 'e']) ++ '(' ::
        (toDec a ++ ',' :: (' ' :: (toDec b ++ ',' :: ' ' :: (toDec d ++ [')'])))) := by
    simp [printLine, sNpArange]
  have h7 : split ['('] (printLine (.arange rl a b d)) =
      [mRl ++ toDec rl ++ sAtIt ++ ['n', 'p', '.', 'a', 'r', 'a', 'n', 'g', 'e'],
       toDec a ++ ',' :: (' ' :: (toDec b ++ ',' :: ' ' :: (toDec d ++ [')'])))] := by
    rw [hl7, split1_first _ (by simp [mRl, sAtIt]), split1_none (by simp)]
  have h8 : (split [','] (toDec a ++ ',' :: (' ' :: (toDec b ++ ',' :: ' ' :: (toDec d ++ [')'])))))[0]? =
      some (toDec a) := by
    rw [split1_first _ (by simp)]; rfl
  have hl9 : printLine (.arange rl a b d) =
      (mRl ++ toDec rl ++ sAtIt ++ sNpArange ++ toDec a) ++ ',' :: ' ' :: (toDec b ++ ',' :: ' ' :: (toDec d ++ [')'])) := by
    simp [printLine]
  have h9 : split [',', ' '] (printLine (.arange rl a b d)) =
      [mRl ++ toDec rl ++ sAtIt ++ sNpArange ++ toDec a, toDec b, toDec d ++ [')']] := by
    rw [hl9, split2_first _ (by simp [mRl, sAtIt, sNpArange]), split2_first _ (by simp),
      split_none (c := ',') (by simp) (by simp)]
  have h10 : (split [')'] (toDec d ++ [')']))[0]? = some (toDec d) := by
    rw [split1_first _ (by simp)]; rfl
  simp only [stepLine, hA, hB, Bool.or_self, h0, h1, h2, h3, h4, h5, h7, h9, idx, if_true, Bool.false_eq_true, if_false,
    List.getElem?_cons_zero, List.getElem?_cons_succ, ebind_ok, h6, h8, h10, pyIntE_toDec,
    setEntry_some hst, applyLine, hst]

theorem stepLine_single (st : Cat × Option Int) (r : Int) (hst : st.2 = some r) (rl x : Nat) :
    stepLine st (printLine (.single rl x)) = .ok (applyLine st (.single rl x)) := by
  let rest : Str := toDec rl ++ ' ' :: (['a', 't', ' ', 'i', 't', ' ', '=', ' '] ++ '[' :: (toDec x ++ [']']))
  have hline : printLine (.single rl x) = mRl ++ rest := by
    simp [printLine, mRl, sAtIt, rest]
  have hA : sReading.isPrefixOf (printLine (.single rl x)) = false := by simp [hline, sReading, mRl, List.isPrefixOf]
  have hB : sNoData.isPrefixOf (printLine (.single rl x)) = false := by simp [hline, sNoData, mRl, List.isPrefixOf]
  have h0 : mRestart.isPrefixOf (printLine (.single rl x)) = false := by simp [hline, mRestart, mRl, List.isPrefixOf]
  have h1 : isInfix mVars (printLine (.single rl x)) = false :=
    isInfix_false_of_char (c := 'D') (by decide) (by simp [hline, mRl, rest])
  have h2 : isInfix mArrow (printLine (.single rl x)) = false :=
    isInfix_false_of_char (c := '>') (by decide) (by simp [hline, mRl, rest])
  have h3 : isInfix mRl (printLine (.single rl x)) = true := by
    rw [hline]; exact isInfix_of_prefix (isPrefixOf_append_self _ _)
  have h4 : isInfix mArange (printLine (.single rl x)) = false :=
    isInfix_false_of_char (c := 'g') (by decide) (by simp [hline, mRl, rest])
  have h5 : split mRl (printLine (.single rl x)) = [[], rest] := by
    rw [hline]; exact split_lit_prefix (c := 'l') (by decide) (by simp [rest])
  have h6 : (split [' '] rest)[0]? = some (toDec rl) := by
    simp only [rest]
    rw [split1_first _ (by simp)]; rfl
  have hl7 : printLine (.single rl x) = (mRl ++ toDec rl ++ sAtIt) ++ '[' :: (toDec x ++ [']']) := by
    simp [printLine]
  have h7 : split ['['] (printLine (.single rl x)) = [mRl ++ toDec rl ++ sAtIt, toDec x ++ [']']] := by
    rw [hl7, split1_first _ (by simp [mRl, sAtIt]), split1_none (by simp)]
  have h8 : (split [']'] (toDec x ++ [']']))[0]? = some (toDec x) := by
    rw [split1_first _ (by simp)]; rfl
  simp only [stepLine, hA, hB, Bool.or_self, h0, h1, h2, h3, h4, h5, h7, idx, if_true, Bool.false_eq_true, if_false,
    List.getElem?_cons_zero, List.getElem?_cons_succ, ebind_ok, h6, h8, pyIntE_toDec,
    setEntry_some hst, applyLine, hst]

/-! ### the checkpoint line -/

theorem joinSep_cons_cons (sep x y : Str) (r : List Str) :
    joinSep sep (x :: y :: r) = x ++ sep ++ joinSep sep (y :: r) := rfl

theorem filter_id {p : Char → Bool} : ∀ {s : Str}, (∀ c ∈ s, p c = true) → s.filter p = s := by
  intro s h
  exact List.filter_eq_self.mpr h

theorem comma_notin_join (l : List Nat) : ∀ c ∈ joinSep [',', ' '] (l.map toDec), c = ',' ∨ c = ' ' ∨ isDig c = true := by
  induction l with
  | nil => simp [joinSep]
  | cons x xs ih =>
    cases xs with
    | nil => intro c hc; simp [joinSep] at hc; exact Or.inr (Or.inr (toDec_digits x c hc))
    | cons y r =>
      intro c hc
      simp only [List.map_cons, joinSep_cons_cons, List.mem_append, List.mem_cons, List.mem_nil_iff, or_false] at hc
      rcases hc with (hc | hc | hc) | hc
      · exact Or.inr (Or.inr (toDec_digits x c hc))
      · exact Or.inl hc
      · exact Or.inr (Or.inl hc)
      · exact ih c (by simpa using hc)

theorem strip_sp_digits (n : Nat) : strip (' ' :: toDec n) = toDec n := by
  have hd := toDec_digits n
  have h1 : (' ' :: toDec n).dropWhile isWs = toDec n := by
    have : isWs ' ' = true := by decide
    simp only [List.dropWhile, this]
    exact dropWhile_head_false (fun c hc => isWs_of_isDig (hd c (List.mem_of_mem_head? hc)))
  have h2 := strip_digits hd
  unfold strip at h2 ⊢
  rw [h1]
  rw [dropWhile_head_false (fun c hc => isWs_of_isDig (hd c (List.mem_of_mem_head? hc)))] at h2
  exact h2

theorem mem_dropWhile_of_not {p : Char → Bool} {c : Char} (hc : p c = false) :
    ∀ {s : Str}, c ∈ s → c ∈ s.dropWhile p := by
  intro s
  induction s with
  | nil => simp
  | cons a s ih =>
    intro h
    simp only [List.dropWhile]
    split
    · rename_i hp
      rcases List.mem_cons.mp h with h | h
      · subst h; simp [hc] at hp
      · exact ih h
    · exact h

theorem strip_ne_nil {s : Str} {c : Char} (hm : c ∈ s) (hc : isWs c = false) : strip s ≠ [] := by
  have h1 := mem_dropWhile_of_not hc hm
  have h2 : c ∈ (s.dropWhile isWs).reverse := by simpa using h1
  have h3 := mem_dropWhile_of_not hc h2
  intro h
  unfold strip at h
  have : c ∈ ((s.dropWhile isWs).reverse.dropWhile isWs).reverse := by simpa using h3
  rw [h] at this
  simp at this

/-- pieces of `', '.join(map(str, x :: xs))` split at commas, after a prefix without commas -/
theorem split_comma_join (pre : Str) (hpre : ',' ∉ pre) (x : Nat) (xs : List Nat) :
    split [','] (pre ++ joinSep [',', ' '] ((x :: xs).map toDec)) =
      (pre ++ toDec x) :: xs.map (fun y => ' ' :: toDec y) := by
  induction xs generalizing pre x with
  | nil =>
    simp only [List.map_cons, List.map_nil, joinSep]
    exact split1_none (by simp [hpre])
  | cons y r ih =>
    have : pre ++ joinSep [',', ' '] ((x :: y :: r).map toDec) =
        (pre ++ toDec x) ++ ',' :: ([' '] ++ joinSep [',', ' '] ((y :: r).map toDec)) := by
      simp [joinSep_cons_cons, List.append_assoc]
    rw [this, split1_first _ (by simp [hpre]), ih [' '] (by decide) y]
    simp

theorem mapM_strip_ints (xs : List Nat) :
    (xs.map (fun y => ' ' :: toDec y)).mapM (fun t => pyIntE (strip t)) =
      (.ok (natsToInts xs) : Except Err (List Int)) := by
  induction xs with
  | nil => rfl
  | cons y r ih =>
    simp [List.mapM_cons, strip_sp_digits, pyIntE_toDec, ih, natsToInts]

theorem stepLine_chk (st : Cat × Option Int) (r : Int) (hst : st.2 = some r) (l : List Nat) :
    stepLine st (printLine (.chk l)) = .ok (applyLine st (.chk l)) := by
  have hj := comma_notin_join l
  have hline : printLine (.chk l) = mChkColon ++ pyNatList l := rfl
  have hmem : ∀ c, c ∈ pyNatList l → c = '[' ∨ c = ']' ∨ c = ',' ∨ c = ' ' ∨ isDig c = true := by
    intro c hc
    simp only [pyNatList, List.mem_append, List.mem_cons, List.mem_nil_iff, or_false] at hc
    rcases hc with (hc | hc) | hc
    · exact Or.inl hc
    · rcases hj c hc with h | h | h
      · exact Or.inr (Or.inr (Or.inl h))
      · exact Or.inr (Or.inr (Or.inr (Or.inl h)))
      · exact Or.inr (Or.inr (Or.inr (Or.inr h)))
    · exact Or.inr (Or.inl hc)
  have hnot : ∀ c, c ∉ mChkColon → c ≠ '[' → c ≠ ']' → c ≠ ',' → c ≠ ' ' → isDig c = false →
      c ∉ printLine (.chk l) := by
    intro c h1 h2 h3 h4 h5 h6 hc
    rw [hline] at hc
    rcases List.mem_append.mp hc with hc | hc
    · exact h1 hc
    · rcases hmem c hc with h | h | h | h | h
      · exact h2 h
      · exact h3 h
      · exact h4 h
      · exact h5 h
      · simp [h6] at h
  have hA : sReading.isPrefixOf (printLine (.chk l)) = false := by simp [hline, sReading, mChkColon, mChk, List.isPrefixOf]
  have hB : sNoData.isPrefixOf (printLine (.chk l)) = false := by simp [hline, sNoData, mChkColon, mChk, List.isPrefixOf]
  have h0 : mRestart.isPrefixOf (printLine (.chk l)) = false := by simp [hline, mRestart, mChkColon, mChk, List.isPrefixOf]
  have h1 : isInfix mVars (printLine (.chk l)) = false :=
    isInfix_false_of_char (c := 'D') (by decide) (hnot _ (by decide) (by decide) (by decide) (by decide) (by decide) (by decide))
  have h2 : isInfix mArrow (printLine (.chk l)) = false :=
    isInfix_false_of_char (c := '>') (by decide) (hnot _ (by decide) (by decide) (by decide) (by decide) (by decide) (by decide))
  have h3 : isInfix mRl (printLine (.chk l)) = false :=
    isInfix_false_of_char (c := '=') (by decide) (hnot _ (by decide) (by decide) (by decide) (by decide) (by decide) (by decide))
  have h4 : isInfix mChk (printLine (.chk l)) = true := by
    have : printLine (.chk l) = mChk ++ ([':', ' '] ++ pyNatList l) := by simp [hline, mChkColon]
    rw [this]; exact isInfix_of_prefix (isPrefixOf_append_self _ _)
  have h5 : split mChkColon (printLine (.chk l)) = [[], pyNatList l] := by
    rw [hline]
    refine split_lit_prefix (c := 'C') (by decide) ?_
    intro hc
    rcases hmem _ hc with h | h | h | h | h <;> revert h <;> decide
  have hfil : (pyNatList l).filter (fun ch => ch != '[' && ch != ']') = joinSep [',', ' '] (l.map toDec) := by
    simp only [pyNatList, List.filter_append]
    have : (joinSep [',', ' '] (l.map toDec)).filter (fun ch => ch != '[' && ch != ']') =
        joinSep [',', ' '] (l.map toDec) := by
      apply filter_id
      intro c hc
      rcases hj c hc with h | h | h
      · subst h; decide
      · subst h; decide
      · have h1 : c ≠ '[' := by intro h'; subst h'; revert h; decide
        have h2 : c ≠ ']' := by intro h'; subst h'; revert h; decide
        simp [h1, h2]
    rw [this]; simp
  simp only [stepLine, hA, hB, Bool.or_self, h0, h1, h2, h3, h4, h5, idx, if_true, Bool.false_eq_true, if_false,
    List.getElem?_cons_zero, List.getElem?_cons_succ, ebind_ok, hfil]
  cases l with
  | nil =>
    simp [joinSep, strip, setEntry_some hst, applyLine, hst, natsToInts]
  | cons x xs =>
    have hne : (strip (joinSep [',', ' '] ((x :: xs).map toDec)) == []) = false := by
      obtain ⟨d, ds, hd⟩ : ∃ d ds, toDec x = d :: ds := by
        cases h : toDec x with
        | nil => exact absurd h (toDec_ne_nil x)
        | cons d ds => exact ⟨d, ds, rfl⟩
      have hdig : isDig d = true := toDec_digits x d (by simp [hd])
      have hmem : d ∈ joinSep [',', ' '] ((x :: xs).map toDec) := by
        cases xs with
        | nil => simp [joinSep, hd]
        | cons y r => simp [joinSep_cons_cons, hd]
      have := strip_ne_nil hmem (isWs_of_isDig hdig)
      cases hs : strip (joinSep [',', ' '] ((x :: xs).map toDec)) with
      | nil => exact absurd hs this
      | cons a b => rfl
    have hsp := split_comma_join [] (by simp) x xs
    simp only [List.nil_append, List.map_cons] at hsp hne
    simp only [hne, Bool.false_eq_true, if_false, hsp, List.mapM_cons, strip_digits (toDec_digits x),
      pyIntE_toDec, ebind_ok, mapM_strip_ints, epure_ok, setEntry_some hst, applyLine, hst, natsToInts,
      List.map_cons]

/-! ### the variables line -/

/-- variable names for which T2 is proven: printable ASCII without space,
quote, backslash, comma -/
def nameOK (n : Str) : Bool :=
  n.all fun c => 33 ≤ c.toNat && c.toNat < 127 && c != '\'' && c != '\\' && c != ','

def qq (n : Str) : Str := '\'' :: (n ++ ['\''])

theorem nameOK_char {n : Str} (h : nameOK n = true) {c : Char} (hc : c ∈ n) :
    33 ≤ c.toNat ∧ c.toNat < 127 ∧ c ≠ '\'' ∧ c ≠ '\\' ∧ c ≠ ',' := by
  have := List.all_eq_true.mp h c hc
  simp only [Bool.and_eq_true, decide_eq_true_eq, bne_iff_ne, ne_eq] at this
  exact ⟨this.1.1.1.1, this.1.1.1.2, this.1.1.2, this.1.2, this.2⟩

theorem pyRepr_ok {n : Str} (h : nameOK n = true) : pyRepr n = qq n := by
  have hq : n.contains '\'' = false := by
    cases hc : n.contains '\'' with
    | false => rfl
    | true =>
      have : '\'' ∈ n := by simpa using hc
      exact absurd rfl (nameOK_char h this).2.2.1
  unfold pyRepr
  simp only [hq, Bool.false_and, Bool.false_eq_true, if_false]
  have : ∀ m : Str, (∀ c ∈ m, c ∈ n) → (m.map fun c =>
      if (c == '\'' || c == '\\') = true then ['\\', c]
      else if (c == '\n') = true then ['\\', 'n'] else if (c == '\r') = true then ['\\', 'r']
      else if (c == '\t') = true then ['\\', 't']
      else if (decide (c.toNat < 32) || c.toNat == 127 || (decide (128 ≤ c.toNat) && decide (c.toNat ≤ 160)) || c.toNat == 173) = true
        then ['\\', 'x'] ++ hex2 c.toNat
      else [c]).flatten = m := by
    intro m
    induction m with
    | nil => intro _; rfl
    | cons a m ih =>
      intro hm
      obtain ⟨h1, h2, h3, h4, h5⟩ := nameOK_char h (hm a (List.mem_cons_self ..))
      have ih' := ih (fun c hc => hm c (List.mem_cons_of_mem _ hc))
      have e1 : (a == '\'' || a == '\\') = false := by simp [h3, h4]
      have e2 : (a == '\n') = false := by
        have : a ≠ '\n' := by intro hh; subst hh; revert h1; decide
        simpa using this
      have e3 : (a == '\r') = false := by
        have : a ≠ '\r' := by intro hh; subst hh; revert h1; decide
        simpa using this
      have e4 : (a == '\t') = false := by
        have : a ≠ '\t' := by intro hh; subst hh; revert h1; decide
        simpa using this
      have e5 : (decide (a.toNat < 32) || a.toNat == 127 || (decide (128 ≤ a.toNat) && decide (a.toNat ≤ 160)) || a.toNat == 173) = false := by
        simp only [Bool.or_eq_false_iff, Bool.and_eq_false_iff, decide_eq_false_iff_not, beq_eq_false_iff_ne]
        omega
      simp only [List.map_cons, List.flatten_cons, e1, e2, e3, e4, e5, Bool.false_eq_true, if_false, ih']
      rfl
  have := this n (fun c hc => hc)
  simp only [qq]
  simpa using this

def hasPair (x y : Char) : Str → Bool
  | a :: b :: r => (a == x && b == y) || hasPair x y (b :: r)
  | _ => false

theorem hasPair_of_isPrefixOf {x y : Char} : ∀ {m s : Str}, hasPair x y m = true → m.isPrefixOf s = true →
    hasPair x y s = true := by
  intro m
  induction m with
  | nil => intro s h; simp [hasPair] at h
  | cons a m ih =>
    intro s h hp
    cases m with
    | nil => simp [hasPair] at h
    | cons b m' =>
      cases s with
      | nil => simp [List.isPrefixOf] at hp
      | cons a' s' =>
        cases s' with
        | nil => simp [List.isPrefixOf] at hp
        | cons b' s'' =>
          simp only [List.isPrefixOf_cons_cons, Bool.and_eq_true, beq_iff_eq] at hp
          obtain ⟨ha, hb, hrest⟩ := hp
          subst ha; subst hb
          simp only [hasPair, Bool.or_eq_true] at h ⊢
          rcases h with h | h
          · exact Or.inl h
          · exact Or.inr (ih h (by simp [List.isPrefixOf_cons_cons, hrest]))

theorem hasPair_tail {x y a : Char} {s : Str} (h : hasPair x y s = true) : hasPair x y (a :: s) = true := by
  cases s with
  | nil => simp [hasPair] at h
  | cons b r => simp [hasPair, h]

theorem hasPair_of_isInfix {x y : Char} {m : Str} (hm : hasPair x y m = true) :
    ∀ {s : Str}, isInfix m s = true → hasPair x y s = true := by
  intro s
  induction s with
  | nil => intro h; cases m <;> simp [isInfix, hasPair] at h hm
  | cons a s ih =>
    intro h
    simp only [isInfix, Bool.or_eq_true] at h
    rcases h with h | h
    · exact hasPair_of_isPrefixOf hm h
    · exact hasPair_tail (ih h)

theorem isInfix_false_of_pair {x y : Char} {m s : Str} (hm : hasPair x y m = true)
    (hs : hasPair x y s = false) : isInfix m s = false := by
  cases h : isInfix m s with
  | false => rfl
  | true => rw [hasPair_of_isInfix hm h] at hs; exact absurd hs (by simp)

theorem hasPair_notin {x y : Char} : ∀ {s : Str}, x ∉ s → hasPair x y s = false := by
  intro s
  induction s with
  | nil => intro _; rfl
  | cons a s ih =>
    intro h
    simp only [List.mem_cons, not_or] at h
    cases s with
    | nil => rfl
    | cons b r =>
      have : (a == x) = false := by simpa using fun e => h.1 e.symm
      simp [hasPair, this, ih h.2]

theorem hasPair_append_notin {x y : Char} {b : Str} : ∀ {a : Str}, x ∉ a →
    hasPair x y (a ++ b) = hasPair x y b := by
  intro a
  induction a with
  | nil => intro _; rfl
  | cons c a ih =>
    intro h
    simp only [List.mem_cons, not_or] at h
    have hc : (c == x) = false := by simpa using fun e => h.1 e.symm
    cases hab : a ++ b with
    | nil =>
      have hb : b = [] := by cases a <;> simp_all
      have ha : a = [] := by cases a <;> simp_all
      simp [hb, ha, hasPair]
    | cons d r =>
      have := ih h.2
      rw [hab] at this
      simp [hab, hasPair, hc, this]

theorem no_space_of_nameOK {n : Str} (h : nameOK n = true) : ' ' ∉ n := by
  intro hc; have := (nameOK_char h hc).1; revert this; decide

theorem joinSep_qq_head (m : Str) (r : List Str) :
    ∃ rest, joinSep [',', ' '] ((m :: r).map qq) = '\'' :: rest := by
  cases r with
  | nil => exact ⟨m ++ ['\''], by simp [joinSep, qq]⟩
  | cons y r' => exact ⟨_, by simp [joinSep_cons_cons, qq]; rfl⟩

/-- in `pre ++ ', '.join(reprs) ++ t` every space is followed by a quote -/
theorem hasPair_body (y : Char) (hy : y ≠ '\'') (t : Str) (ht : ' ' ∉ t) :
    ∀ (l : List Str) (pre : Str), ' ' ∉ pre → (∀ n ∈ l, nameOK n = true) →
      hasPair ' ' y (pre ++ (joinSep [',', ' '] (l.map qq) ++ t)) = false := by
  intro l
  induction l with
  | nil => intro pre hpre _; exact hasPair_notin (by simp [joinSep, hpre, ht])
  | cons n l ih =>
    intro pre hpre hl
    have hn := no_space_of_nameOK (hl n (List.mem_cons_self ..))
    cases l with
    | nil => exact hasPair_notin (by simp [joinSep, qq, hpre, ht, hn])
    | cons m r =>
      obtain ⟨rest, hrest⟩ := joinSep_qq_head m r
      have ih' := ih [] (by simp) (fun k hk => hl k (List.mem_cons_of_mem _ hk))
      have : pre ++ (joinSep [',', ' '] ((n :: m :: r).map qq) ++ t) =
          (pre ++ qq n ++ [',']) ++ (' ' :: (joinSep [',', ' '] ((m :: r).map qq) ++ t)) := by
        simp [joinSep_cons_cons, List.append_assoc]
      rw [this, hasPair_append_notin (by simp [qq, hpre, hn])]
      simp only [List.nil_append] at ih'
      rw [hrest] at ih' ⊢
      have hy' : ('\'' == y) = false := by simpa using fun e => hy e.symm
      simp only [List.cons_append] at ih'
      simp [hasPair, hy', ih']

/-- no occurrence of `m` in `s` ⇒ `s.split(m) = [s]` -/
theorem split_none' {m : Str} (hm : m ≠ []) : ∀ {s : Str}, isInfix m s = false → split m s = [s] := by
  intro s
  induction s with
  | nil => intro _; rfl
  | cons a s ih =>
    intro h
    simp only [isInfix, Bool.or_eq_false_iff] at h
    have := ih h.2
    simp only [split] at this ⊢
    simp [splitGo, h.1, this, consHead]

def piecesT (t : Str) : List Str → List Str
  | [] => []
  | [x] => [qq x ++ t]
  | x :: y :: r => qq x :: piecesT t (y :: r)

theorem comma_notin_qq {n : Str} (h : nameOK n = true) : ',' ∉ qq n := by
  intro hc
  simp only [qq, List.mem_cons, List.mem_append, List.mem_nil_iff, or_false] at hc
  rcases hc with hc | hc | hc
  · revert hc; decide
  · exact (nameOK_char h hc).2.2.2.2 rfl
  · revert hc; decide

theorem split_comma_sp_qq (t : Str) (ht : ',' ∉ t) : ∀ (l : List Str), l ≠ [] → (∀ n ∈ l, nameOK n = true) →
    split [',', ' '] (joinSep [',', ' '] (l.map qq) ++ t) = piecesT t l := by
  intro l
  induction l with
  | nil => intro h; exact absurd rfl h
  | cons n l ih =>
    intro _ hl
    have hn := comma_notin_qq (hl n (List.mem_cons_self ..))
    cases l with
    | nil =>
      simp only [List.map_cons, List.map_nil, joinSep, piecesT]
      exact split_none (c := ',') (by simp) (by simp [hn, ht])
    | cons m r =>
      have : joinSep [',', ' '] ((n :: m :: r).map qq) ++ t =
          qq n ++ ',' :: ' ' :: (joinSep [',', ' '] ((m :: r).map qq) ++ t) := by
        simp [joinSep_cons_cons, List.append_assoc]
      rw [this, split2_first _ hn, ih (by simp) (fun k hk => hl k (List.mem_cons_of_mem _ hk))]
      rfl

theorem split_quote_piece {n : Str} (h : nameOK n = true) (t : Str) (ht : '\'' ∉ t) :
    split ['\''] (qq n ++ t) = [[], n, t] := by
  have hq : '\'' ∉ n := fun hc => (nameOK_char h hc).2.2.1 rfl
  have : qq n ++ t = [] ++ '\'' :: (n ++ '\'' :: t) := by simp [qq]
  rw [this, split1_first _ (by simp), split1_first _ hq, split1_none ht]

theorem mapM_pieces (t : Str) (ht : '\'' ∉ t) : ∀ (l : List Str), (∀ n ∈ l, nameOK n = true) →
    (piecesT t l).mapM (fun v => idx (split ['\''] v) 1) = (.ok l : Except Err (List Str)) := by
  intro l
  induction l with
  | nil => intro _; rfl
  | cons n l ih =>
    intro hl
    have hn := hl n (List.mem_cons_self ..)
    cases l with
    | nil =>
      simp [piecesT, List.mapM_cons, split_quote_piece hn t ht, idx]
    | cons m r =>
      have ih' := ih (fun k hk => hl k (List.mem_cons_of_mem _ hk))
      have h0 := split_quote_piece hn [] (by simp)
      simp only [List.append_nil] at h0
      show (qq n :: piecesT t (m :: r)).mapM (fun v => idx (split ['\''] v) 1) = _
      rw [List.mapM_cons, h0, ih']
      rfl

theorem hasPair_cons_ne {x y a : Char} {s : Str} (h : a ≠ x) : hasPair x y (a :: s) = hasPair x y s := by
  cases s with
  | nil => simp [hasPair]
  | cons b r => simp [hasPair, h]

theorem hasPair_cons_eq_ne {x y b : Char} {s : Str} (h : b ≠ y) :
    hasPair x y (x :: b :: s) = hasPair x y (b :: s) := by
  simp [hasPair, h]

theorem idx_one {α : Type} (a b : α) (r : List α) : idx (a :: b :: r) 1 = .ok b := rfl

/-- the part of the line after `3D variables available: [` -/
theorem pyStrList_ok {l : List Str} (hl : ∀ n ∈ l, nameOK n = true) :
    pyStrList l = '[' :: (joinSep [',', ' '] (l.map qq) ++ [']']) := by
  have : l.map pyRepr = l.map qq := List.map_congr_left (fun n hn => pyRepr_ok (hl n hn))
  simp [pyStrList, this]

theorem stepLine_vars (st : Cat × Option Int) (r : Int) (hst : st.2 = some r) (l : List Str)
    (hne : l ≠ []) (hl : ∀ n ∈ l, nameOK n = true) :
    stepLine st (printLine (.vars l)) = .ok (applyLine st (.vars l)) := by
  let body : Str := joinSep [',', ' '] (l.map qq) ++ [']']
  have hline : printLine (.vars l) = mVarsOpen ++ body := by
    simp [printLine, pyStrList_ok hl, mVarsOpen, body]
  have hpb : ∀ y, y ≠ '\'' → hasPair ' ' y ('[' :: body) = false := by
    intro y hy
    have := hasPair_body y hy [']'] (by decide) l ['['] (by decide) hl
    simpa [body] using this
  have hpb' : ∀ y, y ≠ '\'' → hasPair ' ' y body = false := by
    intro y hy
    have := hasPair_body y hy [']'] (by decide) l [] (by simp) hl
    simpa [body] using this
  have hA : sReading.isPrefixOf (printLine (.vars l)) = false := by simp [hline, sReading, mVarsOpen, mVars, List.isPrefixOf]
  have hB : sNoData.isPrefixOf (printLine (.vars l)) = false := by simp [hline, sNoData, mVarsOpen, mVars, List.isPrefixOf]
  have h0 : mRestart.isPrefixOf (printLine (.vars l)) = false := by simp [hline, mRestart, mVarsOpen, mVars, List.isPrefixOf]
  have h1 : isInfix mVars (printLine (.vars l)) = true := by
    have : printLine (.vars l) = mVars ++ ([':', ' ', '['] ++ body) := by simp [hline, mVarsOpen]
    rw [this]; exact isInfix_of_prefix (isPrefixOf_append_self _ _)
  have h2 : split mVarsOpen (printLine (.vars l)) = [[], body] := by
    rw [hline]
    have hb : isInfix mVarsOpen body = false :=
      isInfix_false_of_pair (x := ' ') (y := 'v') (by decide) (hpb' 'v' (by decide))
    have := split_first (c := '3') (sep' := mVarsOpen.tail) (a := []) body (by simp)
    have e : ('3' :: mVarsOpen.tail) = mVarsOpen := by decide
    rw [e] at this
    simp only [List.nil_append] at this
    rw [this, split_none' (by decide) hb]
  have h3 : split [',', ' '] body = piecesT [']'] l := split_comma_sp_qq [']'] (by decide) l hne hl
  have h4 := mapM_pieces [']'] (by decide) l hl
  simp only [stepLine, hA, hB, Bool.or_self, h0, h1, h2, idx_one, h3, h4, if_true, Bool.false_eq_true, if_false,
    ebind_ok, setEntry_some hst, applyLine, hst]

/-! ### assembling T2 -/

/-- hypotheses of T2 on one line: variable names are plain (`nameOK`); the two
lines carrying a path contain no line break (nothing else is assumed about
the path: the parser skips these lines by their fixed beginning) -/
def LineOK : Line → Prop
  | .vars l => l ≠ [] ∧ ∀ n ∈ l, nameOK n = true
  | .noData p => '\n' ∉ p ∧ '\r' ∉ p
  | .reading p => '\n' ∉ p ∧ '\r' ∉ p
  | _ => True

def setsEntry : Line → Bool
  | .restart _ => false
  | .noData _ => false
  | .reading _ => false
  | _ => true

theorem stepLine_path (st : Cat × Option Int) (s : Str)
    (h : sReading.isPrefixOf s = true ∨ sNoData.isPrefixOf s = true) : stepLine st s = .ok st := by
  rcases h with h | h <;> simp [stepLine, h]

theorem stepLine_ok (st : Cat × Option Int) (l : Line) (hl : LineOK l)
    (hst : setsEntry l = true → st.2.isSome = true) :
    stepLine st (printLine l) = .ok (applyLine st l) := by
  cases l with
  | restart n => exact stepLine_restart st n
  | noData p => exact stepLine_path st (sNoData ++ p) (Or.inr (isPrefixOf_append_self _ _))
  | reading p => exact stepLine_path st (sReading ++ p) (Or.inl (isPrefixOf_append_self _ _))
  | vars l =>
    obtain ⟨r, hr⟩ := Option.isSome_iff_exists.mp (hst rfl)
    exact stepLine_vars st r hr l hl.1 hl.2
  | its a b =>
    obtain ⟨r, hr⟩ := Option.isSome_iff_exists.mp (hst rfl)
    exact stepLine_its st r hr a b
  | arange rl a b d =>
    obtain ⟨r, hr⟩ := Option.isSome_iff_exists.mp (hst rfl)
    exact stepLine_arange st r hr rl a b d
  | single rl x =>
    obtain ⟨r, hr⟩ := Option.isSome_iff_exists.mp (hst rfl)
    exact stepLine_single st r hr rl x
  | chk l =>
    obtain ⟨r, hr⟩ := Option.isSome_iff_exists.mp (hst rfl)
    exact stepLine_chk st r hr l

theorem applyLine_isSome (st : Cat × Option Int) (l : Line) (h : st.2.isSome = true) :
    (applyLine st l).2.isSome = true := by
  obtain ⟨r, hr⟩ := Option.isSome_iff_exists.mp h
  cases l <;> simp [applyLine, hr]

theorem foldlE_stepLine (ls : List Line) (hok : ∀ l ∈ ls, LineOK l) :
    ∀ st : Cat × Option Int, st.2.isSome = true →
      foldlE stepLine st (ls.map printLine) = .ok (ls.foldl applyLine st) := by
  induction ls with
  | nil => intro st _; rfl
  | cons l ls ih =>
    intro st hst
    simp only [List.map_cons, foldlE, List.foldl_cons]
    rw [stepLine_ok st l (hok l (List.mem_cons_self ..)) (fun _ => hst)]
    exact ih (fun k hk => hok k (List.mem_cons_of_mem _ hk)) _ (applyLine_isSome st l hst)

theorem foldlE_append_single {σ α : Type} (f : σ → α → Except Err σ) (s : σ) (l : List α) (x : α) (s' : σ)
    (h : foldlE f s l = .ok s') : foldlE f s (l ++ [x]) = f s' x := by
  induction l generalizing s with
  | nil =>
    simp only [foldlE] at h
    injection h with h; subst h
    simp only [List.nil_append, foldlE]
    cases f s x <;> rfl
  | cons a l ih =>
    simp only [List.cons_append, foldlE] at h ⊢
    cases hfa : f s a with
    | error e => rw [hfa] at h; simp at h
    | ok s1 => rw [hfa] at h; simp only at h ⊢; exact ih s1 h

/-- a printed line contains no line break -/
theorem line_no_break (l : Line) (hl : LineOK l) : '\n' ∉ printLine l ∧ '\r' ∉ printLine l := by
  cases l with
  | restart n => constructor <;> simp [printLine, mRestart]
  | its a b => constructor <;> simp [printLine, sItEq]
  | arange rl a b d => constructor <;> simp [printLine, mRl, sAtIt, sNpArange]
  | single rl x => constructor <;> simp [printLine, mRl, sAtIt]
  | noData p => constructor <;> simp [printLine, sNoData, hl.1, hl.2]
  | reading p => constructor <;> simp [printLine, sReading, hl.1, hl.2]
  | chk l =>
    have hj := comma_notin_join l
    have : ∀ c, c ∈ printLine (.chk l) → c ∈ mChkColon ∨ c = '[' ∨ c = ']' ∨ c = ',' ∨ c = ' ' ∨ isDig c = true := by
      intro c hc
      simp only [printLine, pyNatList, List.mem_append, List.mem_cons, List.mem_nil_iff, or_false] at hc
      rcases hc with hc | (hc | hc) | hc
      · exact Or.inl hc
      · exact Or.inr (Or.inl hc)
      · rcases hj c hc with h | h | h
        · exact Or.inr (Or.inr (Or.inr (Or.inl h)))
        · exact Or.inr (Or.inr (Or.inr (Or.inr (Or.inl h))))
        · exact Or.inr (Or.inr (Or.inr (Or.inr (Or.inr h))))
      · exact Or.inr (Or.inr (Or.inl hc))
    constructor <;> (intro hc; rcases this _ hc with h | h | h | h | h | h <;> revert h <;> decide)
  | vars l =>
    have hbody : ∀ c, c ∈ joinSep [',', ' '] (l.map qq) → c = ',' ∨ c = ' ' ∨ c = '\'' ∨ ∃ n ∈ l, c ∈ n := by
      have : ∀ l : List Str, ∀ c, c ∈ joinSep [',', ' '] (l.map qq) →
          c = ',' ∨ c = ' ' ∨ c = '\'' ∨ ∃ n ∈ l, c ∈ n := by
        intro l
        induction l with
        | nil => simp [joinSep]
        | cons n l ih =>
          intro c hc
          cases l with
          | nil =>
            simp only [List.map_cons, List.map_nil, joinSep, qq, List.mem_cons, List.mem_append,
              List.mem_nil_iff, or_false] at hc
            rcases hc with hc | hc | hc
            · exact Or.inr (Or.inr (Or.inl hc))
            · exact Or.inr (Or.inr (Or.inr ⟨n, by simp, hc⟩))
            · exact Or.inr (Or.inr (Or.inl hc))
          | cons m r =>
            simp only [List.map_cons, joinSep_cons_cons, qq, List.mem_cons, List.mem_append,
              List.mem_nil_iff, or_false] at hc
            rcases hc with ((hc | hc | hc) | hc | hc) | hc
            · exact Or.inr (Or.inr (Or.inl hc))
            · exact Or.inr (Or.inr (Or.inr ⟨n, by simp, hc⟩))
            · exact Or.inr (Or.inr (Or.inl hc))
            · exact Or.inl hc
            · exact Or.inr (Or.inl hc)
            · rcases ih c (by simpa [qq] using hc) with h | h | h | ⟨k, hk, hck⟩
              · exact Or.inl h
              · exact Or.inr (Or.inl h)
              · exact Or.inr (Or.inr (Or.inl h))
              · exact Or.inr (Or.inr (Or.inr ⟨k, List.mem_cons_of_mem _ hk, hck⟩))
      exact this l
    have hline : printLine (.vars l) = mVarsOpen ++ (joinSep [',', ' '] (l.map qq) ++ [']']) := by
      simp [printLine, pyStrList_ok hl.2, mVarsOpen]
    have key : ∀ c, c ∈ printLine (.vars l) → 32 ≤ c.toNat := by
      intro c hc
      rw [hline] at hc
      simp only [List.mem_append, List.mem_cons, List.mem_nil_iff, or_false] at hc
      rcases hc with hc | hc | hc
      · revert c; decide
      · rcases hbody c hc with h | h | h | ⟨n, hn, hcn⟩
        · subst h; decide
        · subst h; decide
        · subst h; decide
        · have := (nameOK_char (hl.2 n hn) hcn).1; omega
      · subst hc; decide
    constructor <;> (intro hc; have := key _ hc; revert this; decide)

theorem split_lines (ls : List Line) (hok : ∀ l ∈ ls, LineOK l) :
    split ['\n'] (printLines ls) = ls.map printLine ++ [[]] := by
  induction ls with
  | nil => rfl
  | cons l ls ih =>
    have h1 := (line_no_break l (hok l (List.mem_cons_self ..))).1
    have : printLines (l :: ls) = printLine l ++ '\n' :: printLines ls := by
      simp [printLines]
    rw [this, split1_first _ h1, ih (fun k hk => hok k (List.mem_cons_of_mem _ hk))]
    rfl

theorem universalNl_id : ∀ {s : Str}, '\r' ∉ s → universalNl s = s := by
  intro s
  induction s with
  | nil => intro _; rfl
  | cons a s ih =>
    intro h
    simp only [List.mem_cons, not_or] at h
    have ha : a ≠ '\r' := fun e => h.1 e.symm
    have := ih h.2
    unfold universalNl
    split <;> simp_all

theorem printLines_no_cr (ls : List Line) (hok : ∀ l ∈ ls, LineOK l) : '\r' ∉ printLines ls := by
  induction ls with
  | nil => simp [printLines]
  | cons l ls ih =>
    have h1 := (line_no_break l (hok l (List.mem_cons_self ..))).2
    have h2 := ih (fun k hk => hok k (List.mem_cons_of_mem _ hk))
    have : printLines (l :: ls) = printLine l ++ '\n' :: printLines ls := by simp [printLines]
    rw [this]
    simp [h1, h2]

theorem stepLine_empty (st : Cat × Option Int) : stepLine st [] = .ok st := by
  have e1 : sReading.isPrefixOf ([] : Str) = false := by decide
  have e2 : sNoData.isPrefixOf ([] : Str) = false := by decide
  have e3 : mRestart.isPrefixOf ([] : Str) = false := by decide
  have e4 : isInfix mVars [] = false := by decide
  have e5 : isInfix mArrow [] = false := by decide
  have e6 : isInfix mRl [] = false := by decide
  have e7 : isInfix mChk [] = false := by decide
  simp [stepLine, e1, e2, e3, e4, e5, e6, e7]

/-- **T2** -/
theorem print_parse_roundtrip_lemma (ls : List Line) (hok : ∀ l ∈ ls, LineOK l)
    (hstart : ls = [] ∨ ∃ n rest, ls = .restart n :: rest) :
    readIterationsText (universalNl (printLines ls)) = .ok (catOf ls) := by
  rw [universalNl_id (printLines_no_cr ls hok)]
  rcases hstart with h | ⟨n, rest, h⟩
  · subst h; rfl
  · subst h
    have hne : (printLines (.restart n :: rest) == []) = false := by
      have : printLines (.restart n :: rest) = ' ' :: ((mRestart.tail ++ toDec n) ++ '\n' :: printLines rest) := by
        simp [printLines, printLine, mRestart]
      rw [this]; rfl
    unfold readIterationsText
    simp only [hne, Bool.false_eq_true, if_false]
    rw [split_lines _ hok]
    have hfirst : stepLine ([], none) (printLine (.restart n)) = .ok (applyLine ([], none) (.restart n)) :=
      stepLine_restart _ n
    have hrest := foldlE_stepLine rest (fun k hk => hok k (List.mem_cons_of_mem _ hk))
      (applyLine ([], none) (.restart n)) rfl
    have hall : foldlE stepLine ([], none) ((Line.restart n :: rest).map printLine) =
        .ok ((Line.restart n :: rest).foldl applyLine ([], none)) := by
      simp only [List.map_cons, foldlE, hfirst, List.foldl_cons]
      exact hrest
    rw [foldlE_append_single _ _ _ _ _ hall, stepLine_empty]
    rfl

end AurelVerif.CatalogLemmas
