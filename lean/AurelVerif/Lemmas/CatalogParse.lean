/-
Lemmas/CatalogParse.lean — T2: `read_iterations` parses back what the line
printer of `iterations()` writes.  Core Lean only.
-/
import AurelVerif.Lemmas.Catalog

set_option linter.unusedSimpArgs false
set_option linter.unusedVariables false

namespace AurelVerif.CatalogLemmas
open AurelVerif.Catalog

@[simp] theorem ebind_ok {ε α β : Type} (a : α) (f : α → Except ε β) : (Except.ok a >>= f) = f a := rfl
@[simp] theorem emap_ok {ε α β : Type} (f : α → β) (a : α) : f <$> (Except.ok a : Except ε α) = Except.ok (f a) := rfl
@[simp] theorem epure_ok {ε α : Type} (a : α) : (pure a : Except ε α) = Except.ok a := rfl

theorem nd (c : Char) (h : isDig c = false) (n : Nat) : (c ∈ toDec n) = False := by
  simp [not_mem_of_isDig_false h n]

@[simp] theorem nd_r (n : Nat) : ('r' ∈ toDec n) = False := nd 'r' (by decide) n
@[simp] theorem nd_D (n : Nat) : ('D' ∈ toDec n) = False := nd 'D' (by decide) n
@[simp] theorem nd_s (n : Nat) : ('s' ∈ toDec n) = False := nd 's' (by decide) n
@[simp] theorem nd_g (n : Nat) : ('g' ∈ toDec n) = False := nd 'g' (by decide) n
@[simp] theorem nd_gt (n : Nat) : ('>' ∈ toDec n) = False := nd '>' (by decide) n
@[simp] theorem nd_lp (n : Nat) : ('(' ∈ toDec n) = False := nd '(' (by decide) n
@[simp] theorem nd_rp (n : Nat) : (')' ∈ toDec n) = False := nd ')' (by decide) n
@[simp] theorem nd_comma (n : Nat) : (',' ∈ toDec n) = False := nd ',' (by decide) n
@[simp] theorem nd_q (n : Nat) : ('\'' ∈ toDec n) = False := nd '\'' (by decide) n
@[simp] theorem nd_lb (n : Nat) : ('[' ∈ toDec n) = False := nd '[' (by decide) n
@[simp] theorem nd_rb (n : Nat) : (']' ∈ toDec n) = False := nd ']' (by decide) n
@[simp] theorem nd_sp (n : Nat) : (' ' ∈ toDec n) = False := nd ' ' (by decide) n
@[simp] theorem nd_eq (n : Nat) : ('=' ∈ toDec n) = False := nd '=' (by decide) n
@[simp] theorem nd_dash (n : Nat) : ('-' ∈ toDec n) = False := nd '-' (by decide) n
@[simp] theorem nd_nl (n : Nat) : ('\n' ∈ toDec n) = False := nd '\n' (by decide) n
@[simp] theorem nd_cr (n : Nat) : ('\r' ∈ toDec n) = False := nd '\r' (by decide) n
@[simp] theorem nd_l (n : Nat) : ('l' ∈ toDec n) = False := nd 'l' (by decide) n
@[simp] theorem nd_us (n : Nat) : ('_' ∈ toDec n) = False := nd '_' (by decide) n
@[simp] theorem nd_v (n : Nat) : ('v' ∈ toDec n) = False := nd 'v' (by decide) n
@[simp] theorem nd_b (n : Nat) : ('b' ∈ toDec n) = False := nd 'b' (by decide) n
@[simp] theorem nd_C (n : Nat) : ('C' ∈ toDec n) = False := nd 'C' (by decide) n
@[simp] theorem nd_k (n : Nat) : ('k' ∈ toDec n) = False := nd 'k' (by decide) n

/-- `m.split(m ++ b) = ['', b]` when some character of `m` does not occur in `b` -/
theorem split_lit_prefix {m b : Str} {c : Char} (hc : c ∈ m) (hb : c ∉ b) : split m (m ++ b) = [[], b] := by
  cases m with
  | nil => simp at hc
  | cons x m' =>
    have := split_first (c := x) (sep' := m') (a := []) b (by simp)
    simp only [List.nil_append] at this
    rw [this, split_none hc hb]

/-- `(a ++ m ++ b).split(m) = [a, b]` -/
theorem split_mid {m' a b : Str} {x c : Char} (ha : x ∉ a) (hc : c ∈ x :: m') (hb : c ∉ b) :
    split (x :: m') (a ++ (x :: m') ++ b) = [a, b] := by
  rw [split_first b ha, split_none hc hb]

theorem stepLine_restart (st : Cat × Option Int) (n : Nat) :
    stepLine st (printLine (.restart n)) = .ok (applyLine st (.restart n)) := by
  have h1 : isInfix mRestart (mRestart ++ toDec n) = true := isInfix_of_prefix (isPrefixOf_append_self _ _)
  have h2 : split mRestart (mRestart ++ toDec n) = [[], toDec n] :=
    split_lit_prefix (c := 'r') (by decide) (not_mem_of_isDig_false (by decide) n)
  simp [stepLine, printLine, h1, h2, idx, pyIntE_toDec, applyLine]

theorem split1_first {c : Char} {a : Str} (b : Str) (h : c ∉ a) :
    split [c] (a ++ c :: b) = a :: split [c] b := by
  have := split_first' (c := c) (sep' := []) b h
  simpa using this

theorem split1_none {c : Char} {s : Str} (h : c ∉ s) : split [c] s = [s] :=
  split_none (c := c) (by simp) h

theorem setEntry_some {st : Cat × Option Int} {r : Int} (h : st.2 = some r) (k : Str) (v : Val) :
    setEntry st k v = .ok (dset st.1 r (dset ((dget st.1 r).getD []) k v), st.2) := by
  simp [setEntry, h]

theorem stepLine_its (st : Cat × Option Int) (r : Int) (hst : st.2 = some r) (a b : Nat) :
    stepLine st (printLine (.its a b)) = .ok (applyLine st (.its a b)) := by
  have hline : printLine (.its a b) =
      ['i', 't'] ++ ' ' :: (['='] ++ ' ' :: (toDec a ++ ' ' :: (['-', '>'] ++ ' ' :: toDec b))) := by
    simp [printLine, sItEq]
  have hsp : ∀ n, ' ' ∉ toDec n := fun n => not_mem_of_isDig_false (by decide) n
  have h0 : isInfix mRestart (printLine (.its a b)) = false :=
    isInfix_false_of_char (c := 'r') (by decide) (by simp [hline])
  have h1 : isInfix mVars (printLine (.its a b)) = false :=
    isInfix_false_of_char (c := 'D') (by decide) (by simp [hline])
  have h2 : isInfix mArrow (printLine (.its a b)) = true := by
    have : printLine (.its a b) = (sItEq ++ toDec a ++ [' ']) ++ mArrow ++ (' ' :: toDec b) := by
      simp [printLine, mArrow]
    rw [this]; exact isInfix_mid _ _ _
  have h3 : split [' '] (printLine (.its a b)) = [['i', 't'], ['='], toDec a, ['-', '>'], toDec b] := by
    rw [hline, split1_first _ (by decide), split1_first _ (by decide), split1_first _ (hsp a),
      split1_first _ (by decide), split1_none (hsp b)]
  simp [stepLine, h0, h1, h2, h3, idx, pyIntE_toDec, setEntry_some hst, applyLine, hst]

theorem split2_first {c d : Char} {a : Str} (b : Str) (h : c ∉ a) :
    split [c, d] (a ++ c :: d :: b) = a :: split [c, d] b := by
  have := split_first' (c := c) (sep' := [d]) b h
  simpa using this

theorem stepLine_arange (st : Cat × Option Int) (r : Int) (hst : st.2 = some r) (rl a b d : Nat) :
    stepLine st (printLine (.arange rl a b d)) = .ok (applyLine st (.arange rl a b d)) := by
  -- the text after 'rl = '
  let rest : Str := toDec rl ++ ' ' :: ([ 'a', 't', ' ', 'i', 't', ' ', '=', ' ', 'n', 'p', '.', 'a', 'r', 'a', 'n', 'g', 'e', '('] ++
      (toDec a ++ ',' :: ' ' :: (toDec b ++ ',' :: ' ' :: (toDec d ++ [')']))))
  have hline : printLine (.arange rl a b d) = mRl ++ rest := by
    simp [printLine, mRl, sAtIt, sNpArange, rest]
  have h0 : isInfix mRestart (printLine (.arange rl a b d)) = false :=
    isInfix_false_of_char (c := 's') (by decide) (by simp [hline, mRl, rest])
  have h1 : isInfix mVars (printLine (.arange rl a b d)) = false :=
    isInfix_false_of_char (c := 'D') (by decide) (by simp [hline, mRl, rest])
  have h2 : isInfix mArrow (printLine (.arange rl a b d)) = false :=
    isInfix_false_of_char (c := '>') (by decide) (by simp [hline, mRl, rest])
  have h3 : isInfix mRl (printLine (.arange rl a b d)) = true := by
    rw [hline]; exact isInfix_of_prefix (isPrefixOf_append_self _ _)
  have h4 : isInfix mArange (printLine (.arange rl a b d)) = true := by
    have : printLine (.arange rl a b d) = (mRl ++ toDec rl ++ sAtIt ++ ['n', 'p', '.']) ++ mArange ++
        ('(' :: (toDec a ++ [',', ' '] ++ toDec b ++ [',', ' '] ++ toDec d ++ [')'])) := by
      simp [printLine, sNpArange, mArange]
    rw [this]; exact isInfix_mid _ _ _
  have h5 : split mRl (printLine (.arange rl a b d)) = [[], rest] := by
    rw [hline]; exact split_lit_prefix (c := 'l') (by decide) (by simp [rest])
  have h6 : (split [' '] rest)[0]? = some (toDec rl) := by
    simp only [rest]
    rw [split1_first _ (by simp)]; rfl
  have hl7 : printLine (.arange rl a b d) =
      (mRl ++ toDec rl ++ sAtIt ++ ['n', 'p', '.', 'a', 'r', 'a', 'n', 'g', 'e']) ++ '(' ::
        (toDec a ++ ',' :: (' ' :: (toDec b ++ ',' :: ' ' :: (toDec d ++ [')'])))) := by
    simp [printLine, sNpArange]
  have h7 : split ['('] (printLine (.arange rl a b d)) =
      [mRl ++ toDec rl ++ sAtIt ++ ['n', 'p', '.', 'a', 'r', 'a', 'n', 'g', 'e'],
       toDec a ++ ',' :: (' ' :: (toDec b ++ ',' :: ' ' :: (toDec d ++ [')'])))] := by
    rw [hl7, split1_first _ (by simp [mRl, sAtIt]), split1_none (by simp)]
  have h8 : (split [','] (toDec a ++ ',' :: (' ' :: (toDec b ++ ',' :: ' ' :: (toDec d ++ [')'])))))[0]? =
      some (toDec a) := by
    rw [split1_first _ (by simp)]; rfl
  have hl9 : printLine (.arange rl a b d) =
      (mRl ++ toDec rl ++ sAtIt ++ sNpArange ++ toDec a) ++ ',' :: ' ' :: (toDec b ++ ',' :: ' ' :: (toDec d ++ [')'])) := by
    simp [printLine]
  have h9 : split [',', ' '] (printLine (.arange rl a b d)) =
      [mRl ++ toDec rl ++ sAtIt ++ sNpArange ++ toDec a, toDec b, toDec d ++ [')']] := by
    rw [hl9, split2_first _ (by simp [mRl, sAtIt, sNpArange]), split2_first _ (by simp),
      split_none (c := ',') (by simp) (by simp)]
  have h10 : (split [')'] (toDec d ++ [')']))[0]? = some (toDec d) := by
    rw [split1_first _ (by simp)]; rfl
  simp only [stepLine, h0, h1, h2, h3, h4, h5, h7, h9, idx, if_true, Bool.false_eq_true, if_false,
    List.getElem?_cons_zero, List.getElem?_cons_succ, ebind_ok, h6, h8, h10, pyIntE_toDec,
    setEntry_some hst, applyLine, hst]

theorem stepLine_single (st : Cat × Option Int) (r : Int) (hst : st.2 = some r) (rl x : Nat) :
    stepLine st (printLine (.single rl x)) = .ok (applyLine st (.single rl x)) := by
  let rest : Str := toDec rl ++ ' ' :: (['a', 't', ' ', 'i', 't', ' ', '=', ' '] ++ '[' :: (toDec x ++ [']']))
  have hline : printLine (.single rl x) = mRl ++ rest := by
    simp [printLine, mRl, sAtIt, rest]
  have h0 : isInfix mRestart (printLine (.single rl x)) = false :=
    isInfix_false_of_char (c := 's') (by decide) (by simp [hline, mRl, rest])
  have h1 : isInfix mVars (printLine (.single rl x)) = false :=
    isInfix_false_of_char (c := 'D') (by decide) (by simp [hline, mRl, rest])
  have h2 : isInfix mArrow (printLine (.single rl x)) = false :=
    isInfix_false_of_char (c := '>') (by decide) (by simp [hline, mRl, rest])
  have h3 : isInfix mRl (printLine (.single rl x)) = true := by
    rw [hline]; exact isInfix_of_prefix (isPrefixOf_append_self _ _)
  have h4 : isInfix mArange (printLine (.single rl x)) = false :=
    isInfix_false_of_char (c := 'g') (by decide) (by simp [hline, mRl, rest])
  have h5 : split mRl (printLine (.single rl x)) = [[], rest] := by
    rw [hline]; exact split_lit_prefix (c := 'l') (by decide) (by simp [rest])
  have h6 : (split [' '] rest)[0]? = some (toDec rl) := by
    simp only [rest]
    rw [split1_first _ (by simp)]; rfl
  have hl7 : printLine (.single rl x) = (mRl ++ toDec rl ++ sAtIt) ++ '[' :: (toDec x ++ [']']) := by
    simp [printLine]
  have h7 : split ['['] (printLine (.single rl x)) = [mRl ++ toDec rl ++ sAtIt, toDec x ++ [']']] := by
    rw [hl7, split1_first _ (by simp [mRl, sAtIt]), split1_none (by simp)]
  have h8 : (split [']'] (toDec x ++ [']']))[0]? = some (toDec x) := by
    rw [split1_first _ (by simp)]; rfl
  simp only [stepLine, h0, h1, h2, h3, h4, h5, h7, idx, if_true, Bool.false_eq_true, if_false,
    List.getElem?_cons_zero, List.getElem?_cons_succ, ebind_ok, h6, h8, pyIntE_toDec,
    setEntry_some hst, applyLine, hst]

/-! ### the checkpoint line -/

theorem joinSep_cons_cons (sep x y : Str) (r : List Str) :
    joinSep sep (x :: y :: r) = x ++ sep ++ joinSep sep (y :: r) := rfl

theorem filter_id {p : Char → Bool} : ∀ {s : Str}, (∀ c ∈ s, p c = true) → s.filter p = s := by
  intro s h
  exact List.filter_eq_self.mpr h

theorem comma_notin_join (l : List Nat) : ∀ c ∈ joinSep [',', ' '] (l.map toDec), c = ',' ∨ c = ' ' ∨ isDig c = true := by
  induction l with
  | nil => simp [joinSep]
  | cons x xs ih =>
    cases xs with
    | nil => intro c hc; simp [joinSep] at hc; exact Or.inr (Or.inr (toDec_digits x c hc))
    | cons y r =>
      intro c hc
      simp only [List.map_cons, joinSep_cons_cons, List.mem_append, List.mem_cons, List.mem_nil_iff, or_false] at hc
      rcases hc with (hc | hc | hc) | hc
      · exact Or.inr (Or.inr (toDec_digits x c hc))
      · exact Or.inl hc
      · exact Or.inr (Or.inl hc)
      · exact ih c (by simpa using hc)

theorem strip_sp_digits (n : Nat) : strip (' ' :: toDec n) = toDec n := by
  have hd := toDec_digits n
  have h1 : (' ' :: toDec n).dropWhile isWs = toDec n := by
    have : isWs ' ' = true := by decide
    simp only [List.dropWhile, this]
    exact dropWhile_head_false (fun c hc => isWs_of_isDig (hd c (List.mem_of_mem_head? hc)))
  have h2 := strip_digits hd
  unfold strip at h2 ⊢
  rw [h1]
  rw [dropWhile_head_false (fun c hc => isWs_of_isDig (hd c (List.mem_of_mem_head? hc)))] at h2
  exact h2

theorem mem_dropWhile_of_not {p : Char → Bool} {c : Char} (hc : p c = false) :
    ∀ {s : Str}, c ∈ s → c ∈ s.dropWhile p := by
  intro s
  induction s with
  | nil => simp
  | cons a s ih =>
    intro h
    simp only [List.dropWhile]
    split
    · rename_i hp
      rcases List.mem_cons.mp h with h | h
      · subst h; simp [hc] at hp
      · exact ih h
    · exact h

theorem strip_ne_nil {s : Str} {c : Char} (hm : c ∈ s) (hc : isWs c = false) : strip s ≠ [] := by
  have h1 := mem_dropWhile_of_not hc hm
  have h2 : c ∈ (s.dropWhile isWs).reverse := by simpa using h1
  have h3 := mem_dropWhile_of_not hc h2
  intro h
  unfold strip at h
  have : c ∈ ((s.dropWhile isWs).reverse.dropWhile isWs).reverse := by simpa using h3
  rw [h] at this
  simp at this

/-- pieces of `', '.join(map(str, x :: xs))` split at commas, after a prefix without commas -/
theorem split_comma_join (pre : Str) (hpre : ',' ∉ pre) (x : Nat) (xs : List Nat) :
    split [','] (pre ++ joinSep [',', ' '] ((x :: xs).map toDec)) =
      (pre ++ toDec x) :: xs.map (fun y => ' ' :: toDec y) := by
  induction xs generalizing pre x with
  | nil =>
    simp only [List.map_cons, List.map_nil, joinSep]
    exact split1_none (by simp [hpre])
  | cons y r ih =>
    have : pre ++ joinSep [',', ' '] ((x :: y :: r).map toDec) =
        (pre ++ toDec x) ++ ',' :: ([' '] ++ joinSep [',', ' '] ((y :: r).map toDec)) := by
      simp [joinSep_cons_cons, List.append_assoc]
    rw [this, split1_first _ (by simp [hpre]), ih [' '] (by decide) y]
    simp

theorem mapM_strip_ints (xs : List Nat) :
    (xs.map (fun y => ' ' :: toDec y)).mapM (fun t => pyIntE (strip t)) =
      (.ok (natsToInts xs) : Except Err (List Int)) := by
  induction xs with
  | nil => rfl
  | cons y r ih =>
    simp [List.mapM_cons, strip_sp_digits, pyIntE_toDec, ih, natsToInts]

theorem stepLine_chk (st : Cat × Option Int) (r : Int) (hst : st.2 = some r) (l : List Nat) :
    stepLine st (printLine (.chk l)) = .ok (applyLine st (.chk l)) := by
  have hj := comma_notin_join l
  have hline : printLine (.chk l) = mChkColon ++ pyNatList l := rfl
  have hmem : ∀ c, c ∈ pyNatList l → c = '[' ∨ c = ']' ∨ c = ',' ∨ c = ' ' ∨ isDig c = true := by
    intro c hc
    simp only [pyNatList, List.mem_append, List.mem_cons, List.mem_nil_iff, or_false] at hc
    rcases hc with (hc | hc) | hc
    · exact Or.inl hc
    · rcases hj c hc with h | h | h
      · exact Or.inr (Or.inr (Or.inl h))
      · exact Or.inr (Or.inr (Or.inr (Or.inl h)))
      · exact Or.inr (Or.inr (Or.inr (Or.inr h)))
    · exact Or.inr (Or.inl hc)
  have hnot : ∀ c, c ∉ mChkColon → c ≠ '[' → c ≠ ']' → c ≠ ',' → c ≠ ' ' → isDig c = false →
      c ∉ printLine (.chk l) := by
    intro c h1 h2 h3 h4 h5 h6 hc
    rw [hline] at hc
    rcases List.mem_append.mp hc with hc | hc
    · exact h1 hc
    · rcases hmem c hc with h | h | h | h | h
      · exact h2 h
      · exact h3 h
      · exact h4 h
      · exact h5 h
      · simp [h6] at h
  have h0 : isInfix mRestart (printLine (.chk l)) = false :=
    isInfix_false_of_char (c := '=') (by decide) (hnot _ (by decide) (by decide) (by decide) (by decide) (by decide) (by decide))
  have h1 : isInfix mVars (printLine (.chk l)) = false :=
    isInfix_false_of_char (c := 'D') (by decide) (hnot _ (by decide) (by decide) (by decide) (by decide) (by decide) (by decide))
  have h2 : isInfix mArrow (printLine (.chk l)) = false :=
    isInfix_false_of_char (c := '>') (by decide) (hnot _ (by decide) (by decide) (by decide) (by decide) (by decide) (by decide))
  have h3 : isInfix mRl (printLine (.chk l)) = false :=
    isInfix_false_of_char (c := '=') (by decide) (hnot _ (by decide) (by decide) (by decide) (by decide) (by decide) (by decide))
  have h4 : isInfix mChk (printLine (.chk l)) = true := by
    have : printLine (.chk l) = mChk ++ ([':', ' '] ++ pyNatList l) := by simp [hline, mChkColon]
    rw [this]; exact isInfix_of_prefix (isPrefixOf_append_self _ _)
  have h5 : split mChkColon (printLine (.chk l)) = [[], pyNatList l] := by
    rw [hline]
    refine split_lit_prefix (c := 'C') (by decide) ?_
    intro hc
    rcases hmem _ hc with h | h | h | h | h <;> revert h <;> decide
  have hfil : (pyNatList l).filter (fun ch => ch != '[' && ch != ']') = joinSep [',', ' '] (l.map toDec) := by
    simp only [pyNatList, List.filter_append]
    have : (joinSep [',', ' '] (l.map toDec)).filter (fun ch => ch != '[' && ch != ']') =
        joinSep [',', ' '] (l.map toDec) := by
      apply filter_id
      intro c hc
      rcases hj c hc with h | h | h
      · subst h; decide
      · subst h; decide
      · have h1 : c ≠ '[' := by intro h'; subst h'; revert h; decide
        have h2 : c ≠ ']' := by intro h'; subst h'; revert h; decide
        simp [h1, h2]
    rw [this]; simp
  simp only [stepLine, h0, h1, h2, h3, h4, h5, idx, if_true, Bool.false_eq_true, if_false,
    List.getElem?_cons_zero, List.getElem?_cons_succ, ebind_ok, hfil]
  cases l with
  | nil =>
    simp [joinSep, strip, setEntry_some hst, applyLine, hst, natsToInts]
  | cons x xs =>
    have hne : (strip (joinSep [',', ' '] ((x :: xs).map toDec)) == []) = false := by
      obtain ⟨d, ds, hd⟩ : ∃ d ds, toDec x = d :: ds := by
        cases h : toDec x with
        | nil => exact absurd h (toDec_ne_nil x)
        | cons d ds => exact ⟨d, ds, rfl⟩
      have hdig : isDig d = true := toDec_digits x d (by simp [hd])
      have hmem : d ∈ joinSep [',', ' '] ((x :: xs).map toDec) := by
        cases xs with
        | nil => simp [joinSep, hd]
        | cons y r => simp [joinSep_cons_cons, hd]
      have := strip_ne_nil hmem (isWs_of_isDig hdig)
      cases hs : strip (joinSep [',', ' '] ((x :: xs).map toDec)) with
      | nil => exact absurd hs this
      | cons a b => rfl
    have hsp := split_comma_join [] (by simp) x xs
    simp only [List.nil_append, List.map_cons] at hsp hne
    simp only [hne, Bool.false_eq_true, if_false, hsp, List.mapM_cons, strip_digits (toDec_digits x),
      pyIntE_toDec, ebind_ok, mapM_strip_ints, epure_ok, setEntry_some hst, applyLine, hst, natsToInts,
      List.map_cons]

end AurelVerif.CatalogLemmas
