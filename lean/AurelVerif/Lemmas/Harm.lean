/-
Lemmas/Harm.lean — combinatorics of the closed-form sum of `maths.sYlm`
(range, completeness, factorial helper, (s,m) → (−s,−m) symmetry) and the
decision logic of the bounds check of `numerical.interpolate`.
Model: Model/Harm.lean.
-/
import Mathlib.Tactic.Ring
import Mathlib.Tactic.Linarith
import Mathlib.Tactic.FieldSimp
import Mathlib.Data.Nat.Choose.Basic
import Mathlib.Data.Rat.Cast.CharZero
import Mathlib.Algebra.Order.Field.Rat
import AurelVerif.Model.Harm

namespace AurelVerif.HarmLemmas
open AurelVerif.Harm

/-! ### helpers agree with the standard functions -/

theorem fact_eq_factorial (n : Nat) : fact n = n.factorial := by
  induction n with
  | zero => rfl
  | succ n ih => simp [fact, Nat.factorial_succ, ih]

theorem choose_eq_choose (n k : Nat) : choose n k = n.choose k := by
  induction n generalizing k with
  | zero => cases k <;> simp [choose]
  | succ n ih => cases k <;> simp [choose, Nat.choose_succ_succ, ih]

theorem choose_eq_zero {n k : Nat} (h : n < k) : choose n k = 0 := by
  rw [choose_eq_choose]; exact Nat.choose_eq_zero_of_lt h

/-- the helper `factorial(n)` is `n!` on every non-negative argument
(`0! = 1! = 1` is the `n <= 1` branch). -/
theorem pyFactorial_nonneg (n : Int) (h : 0 ≤ n) : pyFactorial n = n.toNat.factorial := by
  unfold pyFactorial
  split
  · have : n.toNat = 0 ∨ n.toNat = 1 := by omega
    rcases this with e | e <;> simp [e]
  · exact fact_eq_factorial _

theorem binomZ_nonneg (n k : Nat) : binomZ (n : Int) (k : Int) = (n.choose k : Nat) := by
  unfold binomZ
  have : ¬ ((n : Int) < 0 ∨ (k : Int) < 0) := by omega
  simp [this, choose_eq_choose]

/-! ### range of the sum -/

theorem mem_pyRange (a b r : Int) : r ∈ pyRange a b ↔ a ≤ r ∧ r < b := by
  unfold pyRange
  simp only [List.mem_map, List.mem_range]
  constructor
  · rintro ⟨j, hj, rfl⟩; omega
  · rintro ⟨h1, h2⟩; exact ⟨(r - a).toNat, by omega, by omega⟩

theorem mem_rRange (s l m r : Int) :
    r ∈ rRange s l m ↔ (m - s ≤ r ∧ 0 ≤ r) ∧ (r ≤ l + m ∧ r ≤ l - s) := by
  unfold rRange rLo rHi
  rw [mem_pyRange]
  omega

/-- T1a: inside the code's range every binomial argument is a legal
`0 ≤ k ≤ n`, both exponents and the exponent of `-1` are non-negative.
No hypothesis on `s, l, m`. -/
theorem range_args_ok (s l m r : Int) (hr : r ∈ rRange s l m) :
    (0 ≤ r ∧ r ≤ l - s) ∧ (0 ≤ r + s - m ∧ r + s - m ≤ l + s)
    ∧ 0 ≤ 2 * r + s - m ∧ 0 ≤ 2 * l - 2 * r - s + m ∧ 0 ≤ l - r - s := by
  rw [mem_rRange] at hr
  omega

/-- T1b: outside the code's range one of the two binomial coefficients is
`binom(n, k)` with `n ≥ 0` and (`k < 0` or `k > n`), hence vanishes: the sum over
all integers `r` has no further terms. -/
theorem out_of_range_zero (s l m r : Int) (hs : |s| ≤ l) (hr : r ∉ rRange s l m) :
    (0 ≤ l - s ∧ 0 ≤ l + s) ∧
    (binomZ (l - s) r = 0 ∨ binomZ (l + s) (r + s - m) = 0) := by
  rw [mem_rRange] at hr
  have hs' := abs_le.mp hs
  refine ⟨by omega, ?_⟩
  unfold binomZ
  by_cases h1 : r < 0
  · left; simp [h1]
  by_cases h2 : r + s - m < 0
  · right; simp [h2]
  by_cases h3 : l - s < r
  · left
    have : ¬ (l - s < 0 ∨ r < 0) := by omega
    rw [if_neg this]
    have : (l - s).toNat < r.toNat := by omega
    simp [choose_eq_zero this]
  · right
    have h4 : l + s < r + s - m := by omega
    have : ¬ (l + s < 0 ∨ r + s - m < 0) := by omega
    rw [if_neg this]
    have : (l + s).toNat < (r + s - m).toNat := by omega
    simp [choose_eq_zero this]

theorem term_coef_zero (s l m r : Int) (hs : |s| ≤ l) (hr : r ∉ rRange s l m) :
    (term s l m r).coef = 0 := by
  rcases (out_of_range_zero s l m r hs hr).2 with h | h <;> simp [term, h]

/-- T1c: for `l < |s|` (and for `|m| > l`) the loop is empty. -/
theorem harmTerms_empty (s l m : Int) (h : l < |s| ∨ l < |m|) : harmTerms s l m = [] := by
  unfold harmTerms rRange pyRange rLo rHi
  have : (min (l + m) (l - s) + 1 - max (m - s) 0).toNat = 0 := by
    rcases h with h | h <;> rcases abs_cases s with ⟨e, _⟩ | ⟨e, _⟩ <;>
      rcases abs_cases m with ⟨e', _⟩ | ⟨e', _⟩ <;> omega
  simp [this]

theorem evalTerms_nil (c sn : Rat) : evalTerms [] c sn = 0 := rfl

/-- T1d: the arguments of `factorial` are non-negative for `|s|, |m| ≤ l`, so the
helper returns the true factorials and the radicand is the textbook one. -/
theorem normRadicand_eq (s l m : Int) (hs : |s| ≤ l) (hm : |m| ≤ l) :
    normRadicand s l m =
      ((l + m).toNat.factorial : ℚ) * ((l - m).toNat.factorial : ℚ) * ((2 * l + 1 : ℤ) : ℚ)
        / (((l + s).toNat.factorial : ℚ) * ((l - s).toNat.factorial : ℚ) * 4) := by
  have hs' := abs_le.mp hs
  have hm' := abs_le.mp hm
  unfold normRadicand
  rw [pyFactorial_nonneg (l + m) (by omega), pyFactorial_nonneg (l - m) (by omega),
    pyFactorial_nonneg (l + s) (by omega), pyFactorial_nonneg (l - s) (by omega)]

theorem normRadicand_pos (s l m : Int) (hl : 0 ≤ l) : 0 < normRadicand s l m := by
  unfold normRadicand
  have hp : ∀ n : Int, (0 : ℚ) < ((pyFactorial n : Nat) : ℚ) := by
    intro n
    have : 0 < pyFactorial n := by
      unfold pyFactorial; split
      · exact Nat.one_pos
      · rw [fact_eq_factorial]; exact Nat.factorial_pos _
    exact_mod_cast this
  have h2 : (0 : ℚ) < ((2 * l + 1 : ℤ) : ℚ) := by exact_mod_cast (by omega : (0 : ℤ) < 2 * l + 1)
  have a1 := hp (l + m); have a2 := hp (l - m); have a3 := hp (l + s); have a4 := hp (l - s)
  exact div_pos (mul_pos (mul_pos a1 a2) h2) (mul_pos (mul_pos a3 a4) (by norm_num))

/-! ### evaluation over a field -/

/-- the polynomial of a term list at a point of any field (exponents as
natural numbers; they are non-negative by `range_args_ok`). -/
def evalK {K : Type} [Field K] (ts : List Term) (c sn : K) : K :=
  (ts.map fun t => (t.coef : K) * c ^ t.a.toNat * sn ^ t.b.toNat).sum

theorem harmTerms_exps_nonneg (s l m : Int) : ∀ t ∈ harmTerms s l m, 0 ≤ t.a ∧ 0 ≤ t.b := by
  intro t ht
  unfold harmTerms at ht
  rw [List.mem_map] at ht
  obtain ⟨r, hr, rfl⟩ := ht
  have := range_args_ok s l m r hr
  exact ⟨this.2.2.1, this.2.2.2.1⟩

theorem foldl_add_eq {α : Type} (f : α → ℚ) (ts : List α) (a : ℚ) :
    ts.foldl (fun acc t => acc + f t) a = a + (ts.map f).sum := by
  induction ts generalizing a with
  | nil => simp
  | cons t ts ih => simp [ih, add_assoc]

/-- the model's executable evaluation (`sumY += …` loop, `powZ`) is the
polynomial evaluation `evalK` over ℚ whenever no exponent is negative. -/
theorem evalTerms_eq_evalK (ts : List Term) (h : ∀ t ∈ ts, 0 ≤ t.a ∧ 0 ≤ t.b) (c sn : ℚ) :
    evalTerms ts c sn = evalK ts c sn := by
  unfold evalTerms evalK
  rw [foldl_add_eq, zero_add]
  congr 1
  apply List.map_congr_left
  intro t ht
  obtain ⟨ha, hb⟩ := h t ht
  simp [powZ, ha, hb]

theorem sYlmPoly_eq (s l m : Int) (c sn : ℚ) :
    sYlmPoly s l m c sn = evalK (harmTerms s l m) c sn :=
  evalTerms_eq_evalK _ (harmTerms_exps_nonneg s l m) c sn

/-! ### T4: (s, m) → (−s, −m) -/

theorem negOnePow_add (a b : Int) : negOnePow (a + b) = negOnePow a * negOnePow b := by
  unfold negOnePow
  split <;> split <;> split <;> first | rfl | omega

theorem negOnePow_congr {a b : Int} (h : a % 2 = b % 2) : negOnePow a = negOnePow b := by
  unfold negOnePow; rw [h]

theorem negOnePow_sq (a : Int) : negOnePow a * negOnePow a = 1 := by
  unfold negOnePow; split <;> rfl

/-- multiply every coefficient of a term list by `k` -/
def scaleTerms (k : Int) (ts : List Term) : List Term := ts.map fun t => { t with coef := k * t.coef }

theorem evalK_scale {K : Type} [Field K] (k : Int) (ts : List Term) (c sn : K) :
    evalK (scaleTerms k ts) c sn = (k : K) * evalK ts c sn := by
  unfold evalK scaleTerms
  induction ts with
  | nil => simp
  | cons t ts ih =>
    simp only [List.map_cons, List.sum_cons] at ih ⊢
    rw [ih]; push_cast; ring

/-- T4 on the closed form, for all integers `s, l, m`: the loop for
`(−s, l, −m)` produces, term by term and in the same order, the summands of
`(s, l, m)` multiplied by `(−1)^(s+m)` (re-indexing `r ↦ r + s − m`). -/
theorem harmTerms_neg (s l m : Int) :
    harmTerms (-s) l (-m) = scaleTerms (negOnePow (s + m)) (harmTerms s l m) := by
  unfold harmTerms scaleTerms rRange pyRange
  have hlo : rLo (-s) (-m) = rLo s m + s - m := by unfold rLo; omega
  have hn : (rHi (-s) l (-m) + 1 - rLo (-s) (-m)).toNat = (rHi s l m + 1 - rLo s m).toNat := by
    unfold rLo rHi; omega
  rw [hn, hlo, List.map_map, List.map_map, List.map_map]
  apply List.map_congr_left
  intro j _
  simp only [Function.comp, term]
  have e1 : l - -s = l + s := by omega
  have e2 : l + -s = l - s := by omega
  have e3 : rLo s m + s - m + (j : Int) + -s - -m = rLo s m + (j : Int) := by omega
  have e4 : rLo s m + s - m + (j : Int) = rLo s m + (j : Int) + s - m := by omega
  have e5 : negOnePow (l - (rLo s m + s - m + (j : Int)) - -s)
      = negOnePow (s + m) * negOnePow (l - (rLo s m + (j : Int)) - s) := by
    rw [← negOnePow_add]; apply negOnePow_congr; omega
  rw [e1, e2, e3, e5, e4]
  congr 1
  · ring
  · omega
  · omega

theorem normRadicand_neg (s l m : Int) : normRadicand (-s) l (-m) = normRadicand s l m := by
  unfold normRadicand
  have e1 : l + -m = l - m := by omega
  have e2 : l - -m = l + m := by omega
  have e3 : l + -s = l - s := by omega
  have e4 : l - -s = l + s := by omega
  rw [e1, e2, e3, e4]; ring

theorem evalK_neg {K : Type} [Field K] (s l m : Int) (c sn : K) :
    evalK (harmTerms (-s) l (-m)) c sn = (negOnePow (s + m) : K) * evalK (harmTerms s l m) c sn := by
  rw [harmTerms_neg, evalK_scale]

/-! ### T6: bounds check of `interpolate` -/

theorem foldl_min_spec (xs : List ℚ) (a : ℚ) :
    let r := xs.foldl (fun a y => if y < a then y else a) a
    (r = a ∨ r ∈ xs) ∧ r ≤ a ∧ ∀ y ∈ xs, r ≤ y := by
  induction xs generalizing a with
  | nil => simp
  | cons x xs ih =>
    simp only [List.foldl_cons]
    by_cases hc : x < a
    · obtain ⟨h1, h2, h3⟩ := ih x
      simp only [if_pos hc]
      refine ⟨?_, le_trans h2 (le_of_lt hc), ?_⟩
      · rcases h1 with h | h
        · right; rw [h]; exact List.mem_cons_self
        · right; exact List.mem_cons_of_mem _ h
      · intro y hy
        rcases List.mem_cons.mp hy with rfl | hy
        · exact h2
        · exact h3 y hy
    · obtain ⟨h1, h2, h3⟩ := ih a
      simp only [if_neg hc]
      refine ⟨?_, h2, ?_⟩
      · rcases h1 with h | h
        · left; exact h
        · right; exact List.mem_cons_of_mem _ h
      · intro y hy
        rcases List.mem_cons.mp hy with rfl | hy
        · exact le_trans h2 (not_lt.mp hc)
        · exact h3 y hy

theorem foldl_max_spec (xs : List ℚ) (a : ℚ) :
    let r := xs.foldl (fun a y => if a < y then y else a) a
    (r = a ∨ r ∈ xs) ∧ a ≤ r ∧ ∀ y ∈ xs, y ≤ r := by
  induction xs generalizing a with
  | nil => simp
  | cons x xs ih =>
    simp only [List.foldl_cons]
    by_cases hc : a < x
    · obtain ⟨h1, h2, h3⟩ := ih x
      simp only [if_pos hc]
      refine ⟨?_, le_trans (le_of_lt hc) h2, ?_⟩
      · rcases h1 with h | h
        · right; rw [h]; exact List.mem_cons_self
        · right; exact List.mem_cons_of_mem _ h
      · intro y hy
        rcases List.mem_cons.mp hy with rfl | hy
        · exact h2
        · exact h3 y hy
    · obtain ⟨h1, h2, h3⟩ := ih a
      simp only [if_neg hc]
      refine ⟨?_, h2, ?_⟩
      · rcases h1 with h | h
        · left; exact h
        · right; exact List.mem_cons_of_mem _ h
      · intro y hy
        rcases List.mem_cons.mp hy with rfl | hy
        · exact le_trans (not_lt.mp hc) h2
        · exact h3 y hy

/-- `grid.min()` is the least element of the axis. -/
theorem listMin_spec (g : List ℚ) (lo : ℚ) (h : listMin g = some lo) :
    lo ∈ g ∧ ∀ y ∈ g, lo ≤ y := by
  cases g with
  | nil => simp [listMin] at h
  | cons x xs =>
    simp only [listMin, Option.some.injEq] at h
    obtain ⟨h1, h2, h3⟩ := foldl_min_spec xs x
    rw [h] at h1 h2 h3
    refine ⟨?_, ?_⟩
    · rcases h1 with h | h
      · rw [h]; exact List.mem_cons_self
      · exact List.mem_cons_of_mem _ h
    · intro y hy
      rcases List.mem_cons.mp hy with rfl | hy
      · exact h2
      · exact h3 y hy

theorem listMax_spec (g : List ℚ) (hi : ℚ) (h : listMax g = some hi) :
    hi ∈ g ∧ ∀ y ∈ g, y ≤ hi := by
  cases g with
  | nil => simp [listMax] at h
  | cons x xs =>
    simp only [listMax, Option.some.injEq] at h
    obtain ⟨h1, h2, h3⟩ := foldl_max_spec xs x
    rw [h] at h1 h2 h3
    refine ⟨?_, ?_⟩
    · rcases h1 with h | h
      · rw [h]; exact List.mem_cons_self
      · exact List.mem_cons_of_mem _ h
    · intro y hy
      rcases List.mem_cons.mp hy with rfl | hy
      · exact h2
      · exact h3 y hy

theorem listMin_isSome {g : List ℚ} (h : g ≠ []) : ∃ lo, listMin g = some lo := by
  cases g with
  | nil => exact absurd rfl h
  | cons x xs => exact ⟨_, rfl⟩

theorem listMax_isSome {g : List ℚ} (h : g ≠ []) : ∃ hi, listMax g = some hi := by
  cases g with
  | nil => exact absurd rfl h
  | cons x xs => exact ⟨_, rfl⟩

/-- every target coordinate of the axis lies between two grid coordinates of
that axis, i.e. in `[min grid, max grid]` — stated without `min`/`max`. -/
def Inside (g t : List ℚ) : Prop := ∀ x ∈ t, (∃ a ∈ g, a ≤ x) ∧ (∃ b ∈ g, x ≤ b)

/-- the per-axis test `target_min < grid_min or target_max > grid_max` fails
exactly when the axis is `Inside`. -/
theorem axis_test (g t : List ℚ) (gmin gmax tmin tmax : ℚ)
    (h1 : listMin g = some gmin) (h2 : listMax g = some gmax)
    (h3 : listMin t = some tmin) (h4 : listMax t = some tmax) :
    ¬ (tmin < gmin ∨ gmax < tmax) ↔ Inside g t := by
  obtain ⟨g1, g2⟩ := listMin_spec g gmin h1
  obtain ⟨g3, g4⟩ := listMax_spec g gmax h2
  obtain ⟨t1, t2⟩ := listMin_spec t tmin h3
  obtain ⟨t3, t4⟩ := listMax_spec t tmax h4
  constructor
  · intro h x hx
    have h' : gmin ≤ tmin ∧ tmax ≤ gmax := by
      constructor
      · exact not_lt.mp fun hh => h (Or.inl hh)
      · exact not_lt.mp fun hh => h (Or.inr hh)
    exact ⟨⟨gmin, g1, le_trans h'.1 (t2 x hx)⟩, ⟨gmax, g3, le_trans (t4 x hx) h'.2⟩⟩
  · intro h hh
    rcases hh with hh | hh
    · obtain ⟨⟨a, ha, hax⟩, _⟩ := h tmin t1
      exact absurd (lt_of_le_of_lt (le_trans (g2 a ha) hax) hh) (lt_irrefl _)
    · obtain ⟨_, ⟨b, hb, hxb⟩⟩ := h tmax t3
      exact absurd (lt_of_lt_of_le hh (le_trans hxb (g4 b hb))) (lt_irrefl _)

theorem boundsLoop_ok_iff (i : Nat) (gs ts : List (List ℚ)) (ht : ∀ t ∈ ts, t ≠ []) :
    boundsLoop i gs ts = .ok ↔ List.Forall₂ Inside gs ts := by
  induction gs generalizing i ts with
  | nil =>
    cases ts with
    | nil => simp [boundsLoop]
    | cons t ts => simp [boundsLoop]
  | cons g gs ih =>
    cases ts with
    | nil => simp [boundsLoop]
    | cons t ts =>
      have htne : t ≠ [] := ht t List.mem_cons_self
      have ht' : ∀ t' ∈ ts, t' ≠ [] := fun t' h => ht t' (List.mem_cons_of_mem _ h)
      obtain ⟨tmin, h3⟩ := listMin_isSome htne
      obtain ⟨tmax, h4⟩ := listMax_isSome htne
      rw [List.forall₂_cons]
      cases g with
      | nil =>
        simp only [boundsLoop, listMin]
        constructor
        · intro h; cases h
        · rintro ⟨h, _⟩
          cases t with
          | nil => exact absurd rfl htne
          | cons x xs =>
            obtain ⟨⟨a, ha, _⟩, _⟩ := h x List.mem_cons_self
            cases ha
      | cons y ys =>
        obtain ⟨gmin, h1⟩ := listMin_isSome (List.cons_ne_nil y ys)
        obtain ⟨gmax, h2⟩ := listMax_isSome (List.cons_ne_nil y ys)
        have key := axis_test (y :: ys) t gmin gmax tmin tmax h1 h2 h3 h4
        simp only [boundsLoop, h1, h2, h3, h4]
        by_cases hc : tmin < gmin ∨ gmax < tmax
        · rw [if_pos hc]
          constructor
          · intro h; cases h
          · rintro ⟨h, _⟩; exact absurd hc (key.mpr h)
        · rw [if_neg hc, ih (i + 1) ts ht']
          exact ⟨fun h => ⟨key.mp hc, h⟩, fun h => h.2⟩

/-- the reported dimension is the first axis that is not `Inside`. -/
theorem boundsLoop_oob (i : Nat) (gs ts : List (List ℚ)) (d : Nat)
    (h : boundsLoop i gs ts = .outOfBounds d) :
    ∃ k g t, d = i + k ∧ gs[k]? = some g ∧ ts[k]? = some t ∧ ¬ Inside g t
      ∧ ∀ j < k, ∀ g' t', gs[j]? = some g' → ts[j]? = some t' → Inside g' t' := by
  induction gs generalizing i ts with
  | nil =>
    cases ts <;> simp [boundsLoop] at h
  | cons g gs ih =>
    cases ts with
    | nil => simp [boundsLoop] at h
    | cons t ts =>
      simp only [boundsLoop] at h
      split at h
      · rename_i gmin gmax tmin tmax h1 h2 h3 h4
        have key := axis_test g t gmin gmax tmin tmax h1 h2 h3 h4
        split at h
        · rename_i hc
          simp only [Check.outOfBounds.injEq] at h
          refine ⟨0, g, t, by omega, rfl, rfl, fun hin => (key.mpr hin) hc, ?_⟩
          intro j hj; omega
        · rename_i hc
          obtain ⟨k, g', t', hd, hg, ht, hnot, hall⟩ := ih (i + 1) ts h
          refine ⟨k + 1, g', t', by omega, by simpa using hg, by simpa using ht, hnot, ?_⟩
          intro j hj g'' t'' hg'' ht''
          cases j with
          | zero =>
            simp only [List.getElem?_cons_zero, Option.some.injEq] at hg'' ht''
            subst hg'' ht''
            exact key.mp hc
          | succ j =>
            simp only [List.getElem?_cons_succ] at hg'' ht''
            exact hall j (by omega) g'' t'' hg'' ht''
      · simp at h

end AurelVerif.HarmLemmas
