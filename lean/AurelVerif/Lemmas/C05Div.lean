/-
Lemmas/C05Div.lean — property C05, T11 (Layer B, consistency): the code's divergence of a vector
is the divergence through the density √γ,

    s_div(v, 'u') = (1/√γ) ∂_i (√γ v^i)          ([LL] (86.9), [W] (3.4.10)),

with `√γ = e.sqrtF e.gammadet` the OPAQUE square root of the cached determinant.  Hypotheses
(`DivRules e v`): √γ ≠ 0, (√γ)² = det γ, the chain rule for the opaque square root
`∂(√γ) = ∂(det γ) / (2√γ)`, Jacobi's formula `∂ det γ = det γ · γ^{ab} ∂γ_ab`, and the product rule on
`√γ v^i`.  Jacobi's formula and the product rule are derived below from `Deriv e.D` for the code's own
`gammadet` and `gammaup3`; the two facts about the opaque `sqrtF` stay hypotheses.
The finite-difference operators satisfy the product / chain rules only up to truncation error.
-/
import AurelVerif.Lemmas.C05Raise2
import AurelVerif.Spec.CovdB

set_option linter.unusedSimpArgs false
set_option linter.unusedVariables false
set_option linter.unusedSectionVars false

namespace AurelVerif.C05L
open AurelVerif.Gen.Core AurelVerif.Tensor AurelVerif.CoreTac AurelVerif.C08 AurelVerif.Spec.Covd

variable {K : Type} [Field K]

/-- `γ^{ab} ∂_i γ_ab`. -/
def trDgamma (e : Env K) (i : Fin 3) : K := ∑ a, ∑ b, e.gammaup3 a b * e.D i (e.gammadown3 a b)

/-- what T11 needs of the operator and of the opaque square root. -/
structure DivRules (e : Env K) (v : Fin 3 → K) : Prop where
  sne : e.sqrtF e.gammadet ≠ 0
  sq : e.sqrtF e.gammadet * e.sqrtF e.gammadet = e.gammadet
  /-- chain rule for the opaque square root. -/
  dsqrt : ∀ i, e.D i (e.sqrtF e.gammadet) = e.D i e.gammadet / (2 * e.sqrtF e.gammadet)
  /-- Jacobi's formula. -/
  jacobi : ∀ i, e.D i e.gammadet = e.gammadet * trDgamma e i
  /-- product rule on `√γ v^i`. -/
  prod : ∀ i, e.D i (e.sqrtF e.gammadet * v i)
      = e.D i (e.sqrtF e.gammadet) * v i + e.sqrtF e.gammadet * e.D i (v i)

/-- contracted Christoffel symbol `Γ^a_{ma} = ½ γ^{ab} ∂_m γ_ab` ([W] (3.4.9)) for the code's table —
exact, every operator. -/
theorem trace_Gamma (e : Env K) (h : MetricOK e) (m : Fin 3) :
    ∑ a, e.s_Gamma_udd3 a m a = (1 / 2) * trDgamma e m := by
  simp only [h.hG, s_Gamma_udd3_spec e h.hs, christoffel2, christoffel1, trDgamma, Fin.sum_univ_three,
    h.hs 1 0, h.hs 2 0, h.hs 2 1, h.hs m 0, h.hs m 1, h.hs m 2, h.hsu 1 0, h.hsu 2 0, h.hsu 2 1]
  ring

/-- **T11** `s_div(v,'u') = (1/√γ) ∂_i(√γ v^i)` (Layer B). -/
theorem s_div_u_density (e : Env K) (h : MetricOK e) (h2 : (2 : K) ≠ 0) (v : Fin 3 → K)
    (hr : DivRules e v) : s_div_u e v = divDensity e.D (e.sqrtF e.gammadet) v := by
  have hds : ∀ i, e.D i (e.sqrtF e.gammadet) = (1 / 2) * e.sqrtF e.gammadet * trDgamma e i := by
    intro i
    rw [hr.dsqrt, hr.jacobi]
    have h12 : (1 / 2 : K) * 2 = 1 := by field_simp
    rw [div_eq_iff (mul_ne_zero h2 hr.sne)]
    linear_combination (trDgamma e i) * hr.sq.symm
      - (e.sqrtF e.gammadet * e.sqrtF e.gammadet * trDgamma e i) * h12
  have hs1 : 1 / e.sqrtF e.gammadet * e.sqrtF e.gammadet = 1 := by
    have := hr.sne; field_simp
  have t0 := trace_Gamma e h 0; have t1 := trace_Gamma e h 1; have t2 := trace_Gamma e h 2
  rw [s_div_u_spec]
  simp only [divU, s_covd_u_exact, divDensity, hr.prod, hds]
  simp only [Fin.sum_univ_three] at t0 t1 t2 ⊢
  linear_combination v 0 * t0 + v 1 * t1 + v 2 * t2
    - ((1 / 2) * trDgamma e 0 * v 0 + e.D 0 (v 0) + ((1 / 2) * trDgamma e 1 * v 1 + e.D 1 (v 1))
        + ((1 / 2) * trDgamma e 2 * v 2 + e.D 2 (v 2))) * hs1

/-! ### the hypotheses that follow from `Deriv` -/

theorem Deriv.neg {D : Fin 3 → K → K} (hD : Deriv D) (i : Fin 3) (x : K) : D i (-x) = -D i x := by
  have := hD.add i (-x) x; rw [neg_add_cancel, hD.zero] at this; linear_combination -this

theorem Deriv.sub' {D : Fin 3 → K → K} (hD : Deriv D) (i : Fin 3) (x y : K) : D i (x - y) = D i x - D i y := by
  rw [sub_eq_add_neg, hD.add, hD.neg]; ring

theorem Deriv.two {D : Fin 3 → K → K} (hD : Deriv D) (i : Fin 3) : D i 2 = 0 := by
  rw [← one_add_one_eq_two, hD.add, hD.one]; ring

/-- **Jacobi's formula** for the code's `gammadet` (closed-form 3x3 determinant reading the upper
triangle) and the code's `gammaup3` (cofactors / determinant), from `Deriv e.D`. -/
theorem jacobi_of_deriv (e : Env K) (hD : Deriv e.D) (hs : Sym e.gammadown3) (hgd : e.gammadet = gammadet e)
    (hu : e.gammaup3 = gammaup3 e) (hd : gammadet e ≠ 0) (i : Fin 3) :
    e.D i e.gammadet = e.gammadet * trDgamma e i := by
  have h01 := hs 1 0; have h02 := hs 2 0; have h12 := hs 2 1
  rw [hgd]
  simp only [trDgamma, hu]
  simp only [core_unfold] at hd
  simp only [core_unfold, Fin.sum_univ_three, h01, h02, h12]
  simp only [hD.add, hD.sub', hD.mul, hD.neg, hD.two]
  simp only [div_mul_eq_mul_div, ← add_div]
  rw [mul_div_assoc', mul_div_cancel_left₀ _ hd]
  ring

/-- `DivRules` from a derivation, the code's determinant and inverse, and the two facts about the opaque
square root. -/
theorem divRules_of_deriv (e : Env K) (hD : Deriv e.D) (hs : Sym e.gammadown3) (hgd : e.gammadet = gammadet e)
    (hu : e.gammaup3 = gammaup3 e) (hd : gammadet e ≠ 0) (v : Fin 3 → K)
    (sne : e.sqrtF e.gammadet ≠ 0) (sq : e.sqrtF e.gammadet * e.sqrtF e.gammadet = e.gammadet)
    (dsqrt : ∀ i, e.D i (e.sqrtF e.gammadet) = e.D i e.gammadet / (2 * e.sqrtF e.gammadet)) :
    DivRules e v :=
  ⟨sne, sq, dsqrt, jacobi_of_deriv e hD hs hgd hu hd, fun i => hD.mul i _ _⟩

end AurelVerif.C05L
