/-
Lemmas/C10Cyclic.lean — first Bianchi (cyclic) identity of the E/B construction.
(i) for a tensor with the Riemann symmetries the cyclic identity `C_a[bcd] = 0` is equivalent to its single
component `C_0123 + C_0231 + C_0312 = 0`; (ii) for the textbook E/B expression with a normal covector that
has only a time component (`n_i = 0`, as the code's `ndown4 = (−α,0,0,0)`) that component is
`−n_0 n^0 √(−g) g^{ab}B_ab + n_0 √(−g) g^{e0} (n^a B_ae)`: it vanishes for `B` tangent to the slice and TRACE-FREE.
-/
import AurelVerif.Gen.CoreHelpers
import AurelVerif.Lemmas.CoreTac
import AurelVerif.Lemmas.C10WeylEB

set_option linter.unusedSimpArgs false
set_option linter.unusedVariables false

namespace AurelVerif.C10
open AurelVerif.Gen.Core AurelVerif.Tensor AurelVerif.CoreTac AurelVerif.Spec.Weyl

variable {K : Type} [Field K]

theorem lc_symbol4_antisymm' (e : Env K) : ∀ a b c d : Fin 4,
    levicivita_symbol_down4 e a b c d = -levicivita_symbol_down4 e a b d c := by
  cases4 <;> cases4 <;> cases4 <;> cases4 <;>
    (simp only [levicivita_symbol_down4, ↓vec4_0, ↓vec4_1, ↓vec4_2, ↓vec4_3, neg_neg, neg_zero])

/-- for a tensor with the Riemann symmetries the cyclic identity is its single component `[0123]`. -/
theorem cyclic_of_0123 (h2 : (2 : K) ≠ 0) (C : Fin 4 → Fin 4 → Fin 4 → Fin 4 → K) (hC : RiemannSym C)
    (h0 : C 0 1 2 3 + C 0 2 3 1 + C 0 3 1 2 = 0) : Cyclic C := by
  have d12 : ∀ i k l, C i i k l = 0 := fun i k l => by
    have h := hC.anti12 i i k l
    have h' : (2 : K) * C i i k l = 0 := by linear_combination h
    exact (mul_eq_zero.mp h').resolve_left h2
  have d34 : ∀ i j k, C i j k k = 0 := fun i j k => by
    have h := hC.anti34 i j k k
    have h' : (2 : K) * C i j k k = 0 := by linear_combination h
    exact (mul_eq_zero.mp h').resolve_left h2
  have a10 : ∀ k l, C 1 0 k l = -C 0 1 k l := fun k l => hC.anti12 1 0 k l
  have b10 : ∀ k l, C k l 1 0 = -C k l 0 1 := fun k l => hC.anti34 k l 1 0
  have a20 : ∀ k l, C 2 0 k l = -C 0 2 k l := fun k l => hC.anti12 2 0 k l
  have b20 : ∀ k l, C k l 2 0 = -C k l 0 2 := fun k l => hC.anti34 k l 2 0
  have a30 : ∀ k l, C 3 0 k l = -C 0 3 k l := fun k l => hC.anti12 3 0 k l
  have b30 : ∀ k l, C k l 3 0 = -C k l 0 3 := fun k l => hC.anti34 k l 3 0
  have a21 : ∀ k l, C 2 1 k l = -C 1 2 k l := fun k l => hC.anti12 2 1 k l
  have b21 : ∀ k l, C k l 2 1 = -C k l 1 2 := fun k l => hC.anti34 k l 2 1
  have a31 : ∀ k l, C 3 1 k l = -C 1 3 k l := fun k l => hC.anti12 3 1 k l
  have b31 : ∀ k l, C k l 3 1 = -C k l 1 3 := fun k l => hC.anti34 k l 3 1
  have a32 : ∀ k l, C 3 2 k l = -C 2 3 k l := fun k l => hC.anti12 3 2 k l
  have b32 : ∀ k l, C k l 3 2 = -C k l 2 3 := fun k l => hC.anti34 k l 3 2
  have p0201 : C 0 2 0 1 = C 0 1 0 2 := hC.pair 0 2 0 1
  have p0301 : C 0 3 0 1 = C 0 1 0 3 := hC.pair 0 3 0 1
  have p0302 : C 0 3 0 2 = C 0 2 0 3 := hC.pair 0 3 0 2
  have p1201 : C 1 2 0 1 = C 0 1 1 2 := hC.pair 1 2 0 1
  have p1202 : C 1 2 0 2 = C 0 2 1 2 := hC.pair 1 2 0 2
  have p1203 : C 1 2 0 3 = C 0 3 1 2 := hC.pair 1 2 0 3
  have p1301 : C 1 3 0 1 = C 0 1 1 3 := hC.pair 1 3 0 1
  have p1302 : C 1 3 0 2 = C 0 2 1 3 := hC.pair 1 3 0 2
  have p1303 : C 1 3 0 3 = C 0 3 1 3 := hC.pair 1 3 0 3
  have p1312 : C 1 3 1 2 = C 1 2 1 3 := hC.pair 1 3 1 2
  have p2301 : C 2 3 0 1 = C 0 1 2 3 := hC.pair 2 3 0 1
  have p2302 : C 2 3 0 2 = C 0 2 2 3 := hC.pair 2 3 0 2
  have p2303 : C 2 3 0 3 = C 0 3 2 3 := hC.pair 2 3 0 3
  have p2312 : C 2 3 1 2 = C 1 2 2 3 := hC.pair 2 3 1 2
  have p2313 : C 2 3 1 3 = C 1 3 2 3 := hC.pair 2 3 1 3
  have h0' : C 0 1 2 3 - C 0 2 1 3 + C 0 3 1 2 = 0 := by rw [← h0, b31 0 2]; ring
  unfold Cyclic
  cases4 <;> cases4 <;> cases4 <;> cases4 <;>
    (try simp only [d12, d34, a10, b10, a20, b20, a30, b30, a21, b21, a31, b31, a32, b32, p0201, p0301, p0302, p1201, p1202, p1203, p1301, p1302, p1303, p1312, p2301, p2302, p2303, p2312, p2313, neg_neg, neg_zero, add_zero, zero_add]
     try (first | ring1 | linear_combination h0' | linear_combination (-1 : K) * h0'))

/-- **the `[0123]` cyclic component of the E/B expression** when the normal covector has only a time
component: the E part cancels identically (symmetric `l`, `E`), the B part is
`−n_0 n^0 s g^{ab}B_ab + n_0 s g^{e0} (n^a B_ae)` (`ε_{abcd} = [abcd]·s`, generated table). -/
theorem weylEB_cyclic0123 (e : Env K) (s : K) (l E B gup : Fin 4 → Fin 4 → K) (nd nu : Fin 4 → K)
    (hl : Symm l) (hE : Symm E) (hB : Symm B) (hgu : Symm gup)
    (hn1 : nd 1 = 0) (hn2 : nd 2 = 0) (hn3 : nd 3 = 0) :
    let C := weylEB l E B nd (epsUdd gup nu (fun a b c d => levicivita_symbol_down4 e a b c d * s))
    C 0 1 2 3 + C 0 2 3 1 + C 0 3 1 2
      = -(nd 0 * nu 0 * s * traceG4 gup B) + nd 0 * s * ∑ e', gup e' 0 * ∑ a, B e' a * nu a := by
  have l10 := hl 1 0; have l20 := hl 2 0; have l30 := hl 3 0; have l21 := hl 2 1; have l31 := hl 3 1; have l32 := hl 3 2
  have e10 := hE 1 0; have e20 := hE 2 0; have e30 := hE 3 0; have e21 := hE 2 1; have e31 := hE 3 1; have e32 := hE 3 2
  have b10 := hB 1 0; have b20 := hB 2 0; have b30 := hB 3 0; have b21 := hB 2 1; have b31 := hB 3 1; have b32 := hB 3 2
  have g10 := hgu 1 0; have g20 := hgu 2 0; have g30 := hgu 3 0; have g21 := hgu 2 1; have g31 := hgu 3 1; have g32 := hgu 3 2
  simp only [weylEB, epsUdd, traceG4, Fin.sum_univ_four, levicivita_symbol_down4, ↓vec4_0, ↓vec4_1, ↓vec4_2, ↓vec4_3,
    hn1, hn2, hn3, l10, l20, l30, l21, l31, l32, e10, e20, e30, e21, e31, e32, b10, b20, b30, b21, b31, b32,
    g10, g20, g30, g21, g31, g32, zero_mul, mul_zero, add_zero, zero_add, one_mul, mul_one, neg_mul, mul_neg, sub_zero]
  ring

/-- **cyclic identity of the E/B expression**: symmetric `l`, `E`, `B`, `g⁻¹`; `n_i = 0`; `B` tangent to the slice and
trace-free; `ε = [abcd]·s`. -/
theorem weylEB_cyclic (h2 : (2 : K) ≠ 0) (e : Env K) (s : K) (l E B gup : Fin 4 → Fin 4 → K) (nd nu : Fin 4 → K)
    (hl : Symm l) (hE : Symm E) (hB : Symm B) (hgu : Symm gup)
    (hn1 : nd 1 = 0) (hn2 : nd 2 = 0) (hn3 : nd 3 = 0) (hBn : Spatial B nu) (hBt : traceG4 gup B = 0) :
    Cyclic (weylEB l E B nd (epsUdd gup nu (fun a b c d => levicivita_symbol_down4 e a b c d * s))) := by
  have hLC : ∀ d c a b, (fun a b c d => levicivita_symbol_down4 e a b c d * s) d c a b
      = -(fun a b c d => levicivita_symbol_down4 e a b c d * s) d c b a := by
    intro d c a b
    have := (lc_symbol4_antisymm' e d c a b)
    simp only; rw [this]; ring
  refine cyclic_of_0123 h2 _ (weylEB_riemannSym l E B nd _ hl hE (epsUdd_antisymm gup nu _ hLC)) ?_
  have := weylEB_cyclic0123 e s l E B gup nd nu hl hE hB hgu hn1 hn2 hn3
  simp only at this
  rw [this, hBt]
  have : ∑ e', gup e' 0 * ∑ a, B e' a * nu a = 0 := by
    simp only [hBn _, mul_zero, Finset.sum_const_zero]
  rw [this]; ring

end AurelVerif.C10
