/-
Lemmas/C04Jet2Deriv.lean — justification of the two product-rule definitions of
Spec/Riemann4Jet.lean for EVERY pair of derivations (additive + Leibniz maps `K → K`):

 * `dderiv_metric3p1`: `ddmetric3p1` is the second derivative of the assembled metric
   (`d₂ (dmetric3p1 … (d₁α) (d₁β) (d₁γ)) = ddmetric3p1 …`);
 * `deriv_kinematic`: `JetC.ddtgam` is the derivative of the kinematic relation in Lie form
   `−2αK_jk + β^m ∂_mγ_jk + γ_mk ∂_jβ^m + γ_jm ∂_kβ^m`.

Exact differentiation is a derivation; the finite-difference operators are only up to truncation
error (Layer B).
-/
import AurelVerif.Spec.Riemann4Jet
import AurelVerif.Lemmas.C04GammaCode

set_option linter.unusedSimpArgs false
set_option linter.unusedVariables false
set_option linter.unusedTactic false
set_option linter.unreachableTactic false

namespace AurelVerif.C04L
open AurelVerif.Tensor AurelVerif.CoreTac AurelVerif.Spec.Curvature

variable {K : Type} [Field K]

theorem Deriv.map_one {d : K → K} (h : Deriv d) : d 1 = 0 := by
  have := h.mul 1 1
  rw [mul_one, mul_one, one_mul] at this
  exact left_eq_add.mp this

theorem Deriv.map_two {d : K → K} (h : Deriv d) : d 2 = 0 := by
  rw [← one_add_one_eq_two, h.add, h.map_one, add_zero]

/-- **`ddmetric3p1` is the second derivative of the assembled metric** for every pair of derivations. -/
theorem dderiv_metric3p1 {d1 d2 : K → K} (h1 : Deriv d1) (h2 : Deriv d2) (alpha : K) (beta : Fin 3 → K)
    (gam : Fin 3 → Fin 3 → K) : ∀ a b : Fin 4,
    d2 (dmetric3p1 alpha beta gam (d1 alpha) (fun i => d1 (beta i)) (fun i j => d1 (gam i j)) a b)
      = ddmetric3p1 alpha beta gam (d1 alpha) (fun i => d1 (beta i)) (fun i j => d1 (gam i j))
          (d2 alpha) (fun i => d2 (beta i)) (fun i j => d2 (gam i j))
          (d2 (d1 alpha)) (fun i => d2 (d1 (beta i))) (fun i j => d2 (d1 (gam i j))) a b := by
  cases4 <;> cases4 <;>
    (simp only [dmetric3p1, ddmetric3p1, tsplit_0, tsplit_1, tsplit_2, tsplit_3, Fin.sum_univ_three, mul_assoc,
       h2.add, h2.mul, h2.neg, h2.map_two, zero_mul, zero_add]
     try ring)

/-- **`JetC.ddtgam` is the derivative of the kinematic relation** (Lie form) for every derivation `d`. -/
theorem deriv_kinematic {d : K → K} (h : Deriv d) (alpha : K) (beta : Fin 3 → K) (gam Kd : Fin 3 → Fin 3 → K)
    (dgam : Fin 3 → Fin 3 → Fin 3 → K) (db : Fin 3 → Fin 3 → K) (j k : Fin 3) :
    d (-(2 * alpha * Kd j k) + ∑ m, (beta m * dgam m j k + gam m k * db j m + gam j m * db k m))
      = -(2 * (d alpha * Kd j k + alpha * d (Kd j k)))
        + ∑ m, ((d (beta m) * dgam m j k + beta m * d (dgam m j k))
               + (d (gam m k) * db j m + gam m k * d (db j m))
               + (d (gam j m) * db k m + gam j m * d (db k m))) := by
  simp only [Fin.sum_univ_three, mul_assoc, h.add, h.mul, h.neg, h.map_two, zero_mul, zero_add]

end AurelVerif.C04L
