/-
Lemmas/C05Curl.lean — property C05, T4b: the curl of a symmetric rank-2 covariant
tensor.  Layer A (exact, every field, every operator).
-/
import AurelVerif.Lemmas.C05Lie

set_option linter.unusedSimpArgs false
set_option linter.unusedVariables false

namespace AurelVerif.C05L
open AurelVerif.Gen.Core AurelVerif.Tensor AurelVerif.CoreTac AurelVerif.C08 AurelVerif.Spec.Covd

variable {K : Type} [Field K]

set_option maxHeartbeats 1000000 in
/-- **s_curl 'dd'** is the symmetrised `ε^{cd}{}_a D_c f_{bd}`, with `ε^{cd}{}_a` the spatial
components of `g^{cμ} g^{dν} n^λ ε_{λμνa}` and `D_c f_{bd}` the code's own `s_covd 'dd'`. -/
theorem s_curl_dd_spec (e : Env K) (f : Fin 3 → Fin 3 → K) (a b : Fin 3) :
    s_curl_dd e f a b = (curlRaw e f a b + curlRaw e f b a) * (1 / 2) := by
  revert a b
  cases3 <;> cases3 <;>
    (simp only [core_unfold, curlRaw, LCuud3, Fin.sum_univ_three, Fin.sum_univ_four, zero_mul, mul_zero,
       add_zero, zero_add]; ring)

end AurelVerif.C05L
