/-
Lemmas/C18Par.lean — the `.par` parser of `parameters()` (Model/ParFile.lean)
inverts the way a parameter file is written.  Core Lean only.
-/
import AurelVerif.Lemmas.CatalogParse
import AurelVerif.Model.ParFile

set_option linter.unusedSimpArgs false
set_option linter.unusedVariables false

namespace AurelVerif.ParLemmas
open AurelVerif.Catalog AurelVerif.CatalogLemmas AurelVerif.ParFile

deriving instance DecidableEq for Except

/-! ## `sep.join(s.split(sep)) = s`, pieces of a split are infixes -/

theorem isInfix_nil' (s : Str) : isInfix [] s = true := by
  cases s <;> simp [isInfix, List.isPrefixOf]

theorem joinSep_consHead (sep : Str) (c : Char) : ∀ (L : List Str), L ≠ [] →
    joinSep sep (consHead c L) = c :: joinSep sep L := by
  intro L hL
  match L with
  | [] => exact absurd rfl hL
  | [q] => rfl
  | q :: r :: rs => simp [consHead, joinSep]

/-- unfolding of `split` on a non-empty string -/
theorem split_cons (sep : Str) (c : Char) (cs : Str) :
    split sep (c :: cs) =
      if sep.isPrefixOf (c :: cs) then [] :: splitGo sep cs (sep.length - 1) else consHead c (split sep cs) := rfl

theorem split_cons_prefix {sep : Str} {c : Char} {cs : Str} (h : sep.isPrefixOf (c :: cs) = true) (hne : sep ≠ []) :
    ∃ b, c :: cs = sep ++ b ∧ split sep (c :: cs) = [] :: split sep b := by
  obtain ⟨b, hb⟩ := List.isPrefixOf_iff_prefix.mp h
  refine ⟨b, hb.symm, ?_⟩
  rw [split_cons, if_pos h]
  match sep, hne, hb with
  | x :: sep', _, hb =>
    simp only [List.cons_append, List.cons.injEq] at hb
    obtain ⟨_, hcs⟩ := hb
    have hl : (x :: sep').length - 1 = sep'.length := by simp
    rw [hl, ← hcs, splitGo_skip]
    rfl

theorem joinSep_split (sep : Str) (hne : sep ≠ []) : ∀ (n : Nat) (s : Str), s.length ≤ n →
    joinSep sep (split sep s) = s := by
  intro n
  induction n with
  | zero =>
    intro s hs
    have : s = [] := List.eq_nil_of_length_eq_zero (by omega)
    subst this; rfl
  | succ n ih =>
    intro s hs
    match s with
    | [] => rfl
    | c :: cs =>
      by_cases h : sep.isPrefixOf (c :: cs) = true
      · obtain ⟨b, hb, hsp⟩ := split_cons_prefix h hne
        rw [hsp]
        have hlen : b.length ≤ n := by
          have : (c :: cs).length = sep.length + b.length := by rw [hb, List.length_append]
          have hpos : 0 < sep.length := List.length_pos_iff.mpr hne
          simp only [List.length_cons] at this hs
          omega
        have hb' := ih b hlen
        match hL : split sep b, splitGo_ne_nil sep b 0 with
        | [], hnil => exact absurd hL hnil
        | y :: r, _ =>
          rw [joinSep_cons_cons, ← hL, hb', hb]
          simp
      · rw [split_cons, if_neg h, joinSep_consHead sep c (split sep cs) (splitGo_ne_nil sep cs 0)]
        have hlen : cs.length ≤ n := by simp only [List.length_cons] at hs; omega
        rw [ih cs hlen]

theorem join_split (sep s : Str) (hne : sep ≠ []) : joinSep sep (split sep s) = s :=
  joinSep_split sep hne s.length s (Nat.le_refl _)

theorem split_pieces (sep : Str) (hne : sep ≠ []) : ∀ (n : Nat) (s : Str), s.length ≤ n →
    (∀ q, (split sep s).head? = some q → q.isPrefixOf s = true) ∧ (∀ p ∈ split sep s, isInfix p s = true) := by
  intro n
  induction n with
  | zero =>
    intro s hs
    have : s = [] := List.eq_nil_of_length_eq_zero (by omega)
    subst this
    refine ⟨?_, ?_⟩
    · intro q hq
      have : q = [] := by simpa [split, splitGo] using hq.symm
      subst this; rfl
    · intro p hp
      have : p = [] := by simpa [split, splitGo] using hp
      subst this; rfl
  | succ n ih =>
    intro s hs
    match s with
    | [] =>
      refine ⟨?_, ?_⟩
      · intro q hq
        have : q = [] := by simpa [split, splitGo] using hq.symm
        subst this; rfl
      · intro p hp
        have : p = [] := by simpa [split, splitGo] using hp
        subst this; rfl
    | c :: cs =>
      by_cases h : sep.isPrefixOf (c :: cs) = true
      · obtain ⟨b, hb, hsp⟩ := split_cons_prefix h hne
        have hlen : b.length ≤ n := by
          have : (c :: cs).length = sep.length + b.length := by rw [hb, List.length_append]
          have hpos : 0 < sep.length := List.length_pos_iff.mpr hne
          simp only [List.length_cons] at this hs
          omega
        rw [hsp]
        refine ⟨?_, ?_⟩
        · intro q hq
          have : q = [] := by simpa using hq.symm
          subst this; simp [List.isPrefixOf]
        · intro p hp
          rcases List.mem_cons.mp hp with hp | hp
          · subst hp; exact isInfix_nil' _
          · rw [hb]; exact isInfix_append_left p sep b ((ih b hlen).2 p hp)
      · have hlen : cs.length ≤ n := by simp only [List.length_cons] at hs; omega
        rw [split_cons, if_neg h]
        obtain ⟨ih1, ih2⟩ := ih cs hlen
        match hL : split sep cs, splitGo_ne_nil sep cs 0 with
        | [], hnil => exact absurd hL hnil
        | q :: qs, _ =>
          rw [hL] at ih1 ih2
          have hq : q.isPrefixOf cs = true := ih1 q rfl
          have hcq : (c :: q).isPrefixOf (c :: cs) = true := by simp [List.isPrefixOf, hq]
          refine ⟨?_, ?_⟩
          · intro q' hq'
            have : q' = c :: q := by simpa [consHead] using hq'.symm
            subst this; exact hcq
          · intro p hp
            simp only [consHead, List.mem_cons] at hp
            rcases hp with hp | hp
            · subst hp; exact isInfix_of_prefix hcq
            · exact isInfix_append_left p [c] cs (ih2 p (List.mem_cons_of_mem _ hp))

theorem mem_split_isInfix {sep s p : Str} (hne : sep ≠ []) (hp : p ∈ split sep s) : isInfix p s = true :=
  (split_pieces sep hne s.length s (Nat.le_refl _)).2 p hp

/-! ## `strip` of a padded text -/

/-- only white-space characters, none of them a line break -/
def PadOK (p : Str) : Prop := ∀ c ∈ p, isWs c = true ∧ c ≠ '\n' ∧ c ≠ '\r'

/-- first and last character (if any) are not white space: `s.strip() == s` -/
def Trimmed (v : Str) : Prop :=
  (∀ c, v.head? = some c → isWs c = false) ∧ (∀ c, v.getLast? = some c → isWs c = false)

theorem strip_pad {l v r : Str} (hl : ∀ c ∈ l, isWs c = true) (hr : ∀ c ∈ r, isWs c = true) (hv : Trimmed v) :
    strip (l ++ v ++ r) = v := by
  unfold strip
  by_cases hne : v = []
  · subst hne
    have hall : ∀ c ∈ l ++ [] ++ r, isWs c = true := by
      intro c hc
      simp only [List.append_nil, List.mem_append] at hc
      rcases hc with hc | hc
      · exact hl c hc
      · exact hr c hc
    rw [(takeWhile_all hall).2]; rfl
  · have h1 : (l ++ v ++ r).dropWhile isWs = v ++ r := by
      rw [List.append_assoc]
      apply dropWhile_run hl
      intro c hc
      have : v.head? = some c := by
        cases v with
        | nil => exact absurd rfl hne
        | cons a v => simpa using hc
      exact hv.1 c this
    rw [h1, List.reverse_append]
    have h2 : (r.reverse ++ v.reverse).dropWhile isWs = v.reverse := by
      apply dropWhile_run
      · intro c hc; exact hr c (List.mem_reverse.mp hc)
      · intro c hc
        rw [List.head?_reverse] at hc
        exact hv.2 c hc
    rw [h2, List.reverse_reverse]

theorem strip_trimmed {v : Str} (hv : Trimmed v) : strip v = v := by
  have := strip_pad (l := []) (r := []) (by simp) (by simp) hv
  simpa using this

/-! ## the number test -/

theorem removeFirst_not_mem {c : Char} : ∀ {s : Str}, c ∉ s → removeFirst c s = s := by
  intro s
  induction s with
  | nil => intro _; rfl
  | cons x xs ih =>
    intro h
    simp only [List.mem_cons, not_or] at h
    have hx : (x == c) = false := by
      simp only [beq_eq_false_iff_ne, ne_eq]
      exact fun e => h.1 e.symm
    simp only [removeFirst, hx, Bool.false_eq_true, if_false, ih h.2]

theorem removeFirst_head (c : Char) (s : Str) : removeFirst c (c :: s) = s := by
  simp [removeFirst]

theorem mem_removeFirst_of_ne {c x : Char} (hxc : x ≠ c) : ∀ {s : Str}, x ∈ s → x ∈ removeFirst c s := by
  intro s
  induction s with
  | nil => intro h; simp at h
  | cons y ys ih =>
    intro h
    simp only [removeFirst]
    by_cases hy : (y == c) = true
    · rw [if_pos hy]
      rcases List.mem_cons.mp h with h | h
      · have : y = c := by simpa using hy
        exact absurd (h.trans this) hxc
      · exact h
    · rw [if_neg hy]
      rcases List.mem_cons.mp h with h | h
      · subst h; exact List.mem_cons_self ..
      · exact List.mem_cons_of_mem _ (ih h)

/-- the text after the four `replace` calls -/
def digitValue (value : Str) : Str :=
  removeFirst 'e' (removeFirst '+' (removeFirst '-' (removeFirst '.' value)))

theorem formatValue_eq (value : Str) : formatValue value =
    if isDigitStr (digitValue value) then
      if value.contains '.' || value.contains 'e' then
        match pyFloat value with
        | some (m, e) => .ok (.float m e)
        | none => .error .valueError
      else
        match pyInt value with
        | some i => .ok (.int i)
        | none => .error .valueError
    else if value.contains '"' then (idx (split ['"'] value) 1).map PVal.str
    else .ok (.str value) := rfl

/-- a character that is neither a digit nor one of `. - + e` survives: not a number -/
theorem not_number {value : Str} {x : Char} (hx : x ∈ value) (hd : isDig x = false)
    (h1 : x ≠ '.') (h2 : x ≠ '-') (h3 : x ≠ '+') (h4 : x ≠ 'e') : isDigitStr (digitValue value) = false := by
  have hm : x ∈ digitValue value :=
    mem_removeFirst_of_ne h4 (mem_removeFirst_of_ne h3 (mem_removeFirst_of_ne h2 (mem_removeFirst_of_ne h1 hx)))
  unfold isDigitStr
  have : (digitValue value).all isDig = false := by
    rw [List.all_eq_false]
    exact ⟨x, hm, by simp [hd]⟩
  simp [this]

theorem digitValue_digits {s : Str} (hd : ∀ c ∈ s, isDig c = true) : digitValue s = s := by
  have hn : ∀ c : Char, isDig c = false → c ∉ s := fun c hc hm => by rw [hd c hm] at hc; cases hc
  unfold digitValue
  rw [removeFirst_not_mem (hn '.' (by decide)), removeFirst_not_mem (hn '-' (by decide)),
    removeFirst_not_mem (hn '+' (by decide)), removeFirst_not_mem (hn 'e' (by decide))]

theorem isDigitStr_toDec (n : Nat) : isDigitStr (toDec n) = true := by
  unfold isDigitStr
  have h1 : (toDec n).isEmpty = false := by
    cases h : toDec n with
    | nil => exact absurd h (toDec_ne_nil n)
    | cons a l => rfl
  have h2 : (toDec n).all isDig = true := by
    rw [List.all_eq_true]; exact toDec_digits n
  simp [h1, h2]

theorem contains_false_of_digits {s : Str} (hd : ∀ c ∈ s, isDig c = true) (c : Char) (hc : isDig c = false) :
    s.contains c = false := by
  cases h : s.contains c with
  | false => rfl
  | true =>
    have hm : c ∈ s := by simpa using h
    rw [hd c hm] at hc; cases hc

theorem trimmed_toDec (n : Nat) : Trimmed (toDec n) :=
  ⟨fun c hc => isWs_of_isDig (toDec_digits n c (List.mem_of_mem_head? hc)),
   fun c hc => isWs_of_isDig (toDec_digits n c (List.mem_of_getLast? hc))⟩

theorem trimmed_intToDec (i : Int) : Trimmed (intToDec i) := by
  unfold intToDec
  split
  · refine ⟨fun c hc => ?_, fun c hc => ?_⟩
    · have : c = '-' := by simpa using hc.symm
      subst this; decide
    · have hne := toDec_ne_nil i.natAbs
      rw [List.getLast?_cons_of_ne_nil hne] at hc
      exact (trimmed_toDec _).2 c hc
  · exact trimmed_toDec _

theorem formatValue_int (i : Int) : formatValue (intToDec i) = .ok (.int i) := by
  rw [formatValue_eq]
  unfold intToDec
  by_cases hneg : i < 0
  · rw [if_pos hneg]
    have hd := toDec_digits i.natAbs
    have hdv : digitValue ('-' :: toDec i.natAbs) = toDec i.natAbs := by
      have hn : ∀ c : Char, isDig c = false → c ∉ toDec i.natAbs :=
        fun c hc hm => by rw [hd c hm] at hc; cases hc
      unfold digitValue
      have e1 : removeFirst '.' ('-' :: toDec i.natAbs) = '-' :: toDec i.natAbs := by
        apply removeFirst_not_mem
        simp only [List.mem_cons, not_or]
        exact ⟨by decide, hn '.' (by decide)⟩
      rw [e1, removeFirst_head, removeFirst_not_mem (hn '+' (by decide)), removeFirst_not_mem (hn 'e' (by decide))]
    have hc1 : ('-' :: toDec i.natAbs).contains '.' = false := by
      have := contains_false_of_digits hd '.' (by decide)
      simp only [List.contains_cons, this, Bool.or_false]; decide
    have hc2 : ('-' :: toDec i.natAbs).contains 'e' = false := by
      have := contains_false_of_digits hd 'e' (by decide)
      simp only [List.contains_cons, this, Bool.or_false]; decide
    have hint : pyInt ('-' :: toDec i.natAbs) = some i := by
      unfold pyInt
      have hs : strip ('-' :: toDec i.natAbs) = '-' :: toDec i.natAbs := by
        have := trimmed_intToDec i
        unfold intToDec at this
        rw [if_pos hneg] at this
        exact strip_trimmed this
      rw [hs]
      simp only [pyNat_digits (toDec_ne_nil _) hd, digitsVal_toDec, Option.map_some]
      have : -(i.natAbs : Int) = i := by omega
      simp [this]
    rw [hdv, isDigitStr_toDec, if_pos rfl, hc1, hc2]
    simp only [Bool.or_self, Bool.false_eq_true, if_false, hint]
  · rw [if_neg hneg]
    have hd := toDec_digits i.natAbs
    have hint : pyInt (toDec i.natAbs) = some i := by
      rw [pyInt_toDec]; congr 1; omega
    rw [digitValue_digits hd, isDigitStr_toDec, if_pos rfl, contains_false_of_digits hd '.' (by decide),
      contains_false_of_digits hd 'e' (by decide)]
    simp only [Bool.or_self, Bool.false_eq_true, if_false, hint]

theorem formatValue_quoted (s : Str) (hq : '"' ∉ s) : formatValue ('"' :: (s ++ ['"'])) = .ok (.str s) := by
  rw [formatValue_eq]
  have hnd : isDigitStr (digitValue ('"' :: (s ++ ['"']))) = false :=
    not_number (x := '"') (List.mem_cons_self ..) (by decide) (by decide) (by decide) (by decide) (by decide)
  have hc : ('"' :: (s ++ ['"'])).contains '"' = true := by simp
  have hsp : split ['"'] ('"' :: (s ++ ['"'])) = [[], s, []] := by
    have e1 := split1_first (c := '"') (a := []) (s ++ ['"']) (by simp)
    have e2 := split1_first (c := '"') (a := s) [] hq
    simp only [List.nil_append] at e1
    rw [e1, e2]; rfl
  rw [hnd, hc, hsp]
  rfl

theorem formatValue_word (w : Str) (hq : '"' ∉ w) (x : Char) (hx : x ∈ w) (hd : isDig x = false)
    (h1 : x ≠ '.') (h2 : x ≠ '-') (h3 : x ≠ '+') (h4 : x ≠ 'e') : formatValue w = .ok (.str w) := by
  rw [formatValue_eq, not_number hx hd h1 h2 h3 h4]
  have hc : w.contains '"' = false := by
    cases h : w.contains '"' with
    | false => rfl
    | true => exact absurd (by simpa using h) hq
  rw [hc]
  rfl

/-! ## one line `thorn::variable = value` -/

/-- the text of a value as it is written in a parameter file -/
inductive ValText : PVal → Str → Prop
  /-- an integer in decimal -/
  | int (i : Int) : ValText (.int i) (intToDec i)
  /-- a quoted string; anything but a double quote inside (also `=`, `::`) -/
  | quoted (s : Str) (hq : '"' ∉ s) : ValText (.str s) ('"' :: (s ++ ['"']))
  /-- a bare word (keyword, boolean): no double quote, not a number -/
  | word (w : Str) (hq : '"' ∉ w) (ht : Trimmed w) (x : Char) (hx : x ∈ w) (hd : isDig x = false)
      (h1 : x ≠ '.') (h2 : x ≠ '-') (h3 : x ≠ '+') (h4 : x ≠ 'e') : ValText (.str w) w

theorem ValText.format {v : PVal} {t : Str} (h : ValText v t) : formatValue t = .ok v := by
  cases h with
  | int i => exact formatValue_int i
  | quoted s hq => exact formatValue_quoted s hq
  | word w hq ht x hx hd h1 h2 h3 h4 => exact formatValue_word _ hq x hx hd h1 h2 h3 h4

theorem ValText.trimmed {v : PVal} {t : Str} (h : ValText v t) : Trimmed t := by
  cases h with
  | int i => exact trimmed_intToDec i
  | quoted s hq =>
    refine ⟨fun c hc => ?_, fun c hc => ?_⟩
    · have : c = '"' := by simpa using hc.symm
      subst this; decide
    · have : c = '"' := by
        have h2 : ('"' :: (s ++ ['"'])).getLast? = some '"' := by
          rw [← List.cons_append, List.getLast?_append]; simp
        rw [h2] at hc; exact (Option.some.inj hc).symm
      subst this; decide
  | word w hq ht x hx hd h1 h2 h3 h4 => exact ht

/-- white space around the five tokens of a line -/
structure Pads where
  p0 : Str
  p1 : Str
  p2 : Str
  p3 : Str
  p4 : Str
  p5 : Str

def Pads.OK (P : Pads) : Prop := PadOK P.p0 ∧ PadOK P.p1 ∧ PadOK P.p2 ∧ PadOK P.p3 ∧ PadOK P.p4 ∧ PadOK P.p5

def noPads : Pads := ⟨[], [], [], [' '], [' '], []⟩

/-- `<p0>thorn<p1>::<p2>variable<p3>=<p4>value<p5>` -/
def lineText (P : Pads) (thorn vname vt : Str) : Str :=
  (P.p0 ++ thorn ++ P.p1) ++ sColon2 ++ ((P.p2 ++ vname ++ P.p3) ++ '=' :: (P.p4 ++ vt ++ P.p5))

theorem padOK_ws {p : Str} (h : PadOK p) : ∀ c ∈ p, isWs c = true := fun c hc => (h c hc).1

theorem not_mem_pad {p : Str} (h : PadOK p) (c : Char) (hc : isWs c = false) : c ∉ p :=
  fun hm => by rw [(h c hm).1] at hc; cases hc

theorem idx_zero' {α : Type} (a : α) (r : List α) : idx (a :: r) 0 = .ok a := rfl

/-- **one line.**  `thorn::variable = value` with any white space around the
tokens is stored under the key the code documents, with the value that was
written; the thorn is recorded. -/
theorem parLine_entry (st : PState) (P : Pads) (hP : P.OK) (thorn vname vt : Str) (v : PVal)
    (ht1 : ':' ∉ thorn) (ht2 : Trimmed thorn) (hv1 : '=' ∉ vname) (hv2 : Trimmed vname) (hval : ValText v vt)
    (hact : isInfix sActive (lineText P thorn vname vt) = false) :
    parLine st (lineText P thorn vname vt) =
      .ok { dict := dset st.dict (parKey thorn vname) v, thorns := st.thorns ++ [thorn] } := by
  obtain ⟨h0, h1, h2, h3, h4, h5⟩ := hP
  let rest : Str := (P.p2 ++ vname ++ P.p3) ++ '=' :: (P.p4 ++ vt ++ P.p5)
  have hline : lineText P thorn vname vt = (P.p0 ++ thorn ++ P.p1) ++ sColon2 ++ rest := rfl
  have hc1 : isInfix sColon2 (lineText P thorn vname vt) = true := by
    rw [hline]; exact isInfix_mid _ _ _
  have hc2 : (lineText P thorn vname vt).contains '=' = true := by
    simp [lineText]
  have hcolon : ':' ∉ P.p0 ++ thorn ++ P.p1 := by
    simp only [List.mem_append, not_or]
    exact ⟨⟨not_mem_pad h0 ':' (by decide), ht1⟩, not_mem_pad h1 ':' (by decide)⟩
  have hparts : split sColon2 (lineText P thorn vname vt) = (P.p0 ++ thorn ++ P.p1) :: split sColon2 rest := by
    rw [hline]; exact split_first (c := ':') (sep' := [':']) rest hcolon
  have hne2 : sColon2 ≠ [] := by decide
  have hjoin : joinSep sColon2 (split sColon2 rest) = rest := join_split sColon2 rest hne2
  have heq : '=' ∉ P.p2 ++ vname ++ P.p3 := by
    simp only [List.mem_append, not_or]
    exact ⟨⟨not_mem_pad h2 '=' (by decide), hv1⟩, not_mem_pad h3 '=' (by decide)⟩
  have hpieces : split ['='] rest = (P.p2 ++ vname ++ P.p3) :: split ['='] (P.p4 ++ vt ++ P.p5) :=
    split1_first (c := '=') _ heq
  have hjoin2 : joinSep ['='] (split ['='] (P.p4 ++ vt ++ P.p5)) = P.p4 ++ vt ++ P.p5 :=
    join_split ['='] _ (by decide)
  have hs1 : strip (P.p0 ++ thorn ++ P.p1) = thorn := strip_pad (padOK_ws h0) (padOK_ws h1) ht2
  have hs2 : strip (P.p2 ++ vname ++ P.p3) = vname := strip_pad (padOK_ws h2) (padOK_ws h3) hv2
  have hs3 : strip (P.p4 ++ vt ++ P.p5) = vt := strip_pad (padOK_ws h4) (padOK_ws h5) hval.trimmed
  have hfv : formatValue vt = .ok v := hval.format
  have hnot : (split sColon2 (lineText P thorn vname vt)).contains sActive = false := by
    cases h : (split sColon2 (lineText P thorn vname vt)).contains sActive with
    | false => rfl
    | true =>
      have hm : sActive ∈ split sColon2 (lineText P thorn vname vt) := by simpa using h
      rw [mem_split_isInfix hne2 hm] at hact
      cases hact
  obtain ⟨q, qs, hq⟩ : ∃ q qs, split sColon2 rest = q :: qs := by
    cases h : split sColon2 rest with
    | nil => exact absurd h (splitGo_ne_nil _ _ _)
    | cons q qs => exact ⟨q, qs, rfl⟩
  obtain ⟨u, us, hu⟩ : ∃ u us, split ['='] (P.p4 ++ vt ++ P.p5) = u :: us := by
    cases h : split ['='] (P.p4 ++ vt ++ P.p5) with
    | nil => exact absurd h (splitGo_ne_nil _ _ _)
    | cons u us => exact ⟨u, us, rfl⟩
  unfold parLine
  rw [hc1, hc2]
  simp only [Bool.and_self, if_true]
  rw [hnot, hparts]
  simp only [List.drop_succ_cons, List.drop_zero, hjoin, hpieces, hjoin2, hs1, hs2, hs3, hfv]
  rw [hq, hu]
  have hs1' : strip (P.p0 ++ (thorn ++ P.p1)) = thorn := by rw [← List.append_assoc]; exact hs1
  have hs2' : strip (P.p2 ++ (vname ++ P.p3)) = vname := by rw [← List.append_assoc]; exact hs2
  simp [idx, hs1', hs2']

/-! ## a whole file -/

/-- what a line of a parameter file is -/
inductive Item
  /-- `thorn::variable = value`, optionally followed by `#comment` -/
  | entry (P : Pads) (thorn vname vt : Str) (v : PVal) (cmt : Option Str)
  /-- an empty or white-space line, optionally with a `#comment` -/
  | note (pad : Str) (cmt : Option Str)

def cmtText : Option Str → Str
  | none => []
  | some c => '#' :: c

def Item.body : Item → Str
  | .entry P thorn vname vt _ _ => lineText P thorn vname vt
  | .note pad _ => pad

def Item.cmt : Item → Option Str
  | .entry _ _ _ _ _ c => c
  | .note _ c => c

def Item.text (it : Item) : Str := it.body ++ cmtText it.cmt

def NoBreak (s : Str) : Prop := '\n' ∉ s ∧ '\r' ∉ s

def Item.OK : Item → Prop
  | .entry P thorn vname vt v cmt =>
    P.OK ∧ ':' ∉ thorn ∧ Trimmed thorn ∧ '=' ∉ vname ∧ Trimmed vname ∧ ValText v vt ∧
    isInfix sActive (lineText P thorn vname vt) = false ∧
    NoBreak thorn ∧ NoBreak vname ∧ NoBreak vt ∧ '#' ∉ thorn ∧ '#' ∉ vname ∧ '#' ∉ vt ∧
    (∀ c, cmt = some c → NoBreak c)
  | .note pad cmt => PadOK pad ∧ (∀ c, cmt = some c → NoBreak c)

/-- effect of an item on the state of the parser -/
def Item.apply (st : PState) : Item → PState
  | .entry _ thorn vname _ v _ => { dict := dset st.dict (parKey thorn vname) v, thorns := st.thorns ++ [thorn] }
  | .note _ _ => st

theorem noBreak_pad {p : Str} (h : PadOK p) : NoBreak p :=
  ⟨fun hm => (h _ hm).2.1 rfl, fun hm => (h _ hm).2.2 rfl⟩

theorem noBreak_append {a b : Str} (ha : NoBreak a) (hb : NoBreak b) : NoBreak (a ++ b) := by
  refine ⟨fun h => ?_, fun h => ?_⟩
  · rcases List.mem_append.mp h with h | h
    · exact ha.1 h
    · exact hb.1 h
  · rcases List.mem_append.mp h with h | h
    · exact ha.2 h
    · exact hb.2 h

theorem noBreak_cons {c : Char} {b : Str} (h1 : c ≠ '\n') (h2 : c ≠ '\r') (hb : NoBreak b) : NoBreak (c :: b) :=
  ⟨fun h => by rcases List.mem_cons.mp h with h | h
               · exact h1 h.symm
               · exact hb.1 h,
   fun h => by rcases List.mem_cons.mp h with h | h
               · exact h2 h.symm
               · exact hb.2 h⟩

theorem noBreak_nil : NoBreak [] := ⟨by simp, by simp⟩

theorem body_noBreak_noHash (it : Item) (h : it.OK) : NoBreak it.body ∧ '#' ∉ it.body := by
  cases it with
  | entry P thorn vname vt v cmt =>
    obtain ⟨hP, _, _, _, _, _, _, b1, b2, b3, n1, n2, n3, _⟩ := h
    obtain ⟨h0, h1, h2, h3, h4, h5⟩ := hP
    refine ⟨?_, ?_⟩
    · show NoBreak (lineText P thorn vname vt)
      unfold lineText sColon2
      exact noBreak_append (noBreak_append (noBreak_append (noBreak_append (noBreak_pad h0) b1) (noBreak_pad h1))
        (noBreak_cons (by decide) (by decide) (noBreak_cons (by decide) (by decide) noBreak_nil)))
        (noBreak_append (noBreak_append (noBreak_append (noBreak_pad h2) b2) (noBreak_pad h3))
          (noBreak_cons (by decide) (by decide) (noBreak_append (noBreak_append (noBreak_pad h4) b3) (noBreak_pad h5))))
    · show '#' ∉ lineText P thorn vname vt
      have hp : ∀ {p : Str}, PadOK p → '#' ∉ p := fun hpd => not_mem_pad hpd '#' (by decide)
      simp only [lineText, sColon2, List.mem_append, List.mem_cons, List.not_mem_nil, not_or, or_false]
      exact ⟨⟨⟨⟨hp h0, n1⟩, hp h1⟩, by decide, by decide⟩, ⟨⟨hp h2, n2⟩, hp h3⟩, by decide, ⟨hp h4, n3⟩, hp h5⟩
  | note pad cmt =>
    exact ⟨noBreak_pad h.1, not_mem_pad h.1 '#' (by decide)⟩

theorem text_noBreak (it : Item) (h : it.OK) : NoBreak it.text := by
  have hb := (body_noBreak_noHash it h).1
  have hc : NoBreak (cmtText it.cmt) := by
    cases hcm : it.cmt with
    | none => exact noBreak_nil
    | some c =>
      have : NoBreak c := by
        cases it with
        | entry P thorn vname vt v cmt => exact h.2.2.2.2.2.2.2.2.2.2.2.2.2 c hcm
        | note pad cmt => exact h.2 c hcm
      exact noBreak_cons (by decide) (by decide) this
  exact noBreak_append hb hc

/-- `li.split('#')[0]` is the body -/
theorem strip_comment (it : Item) (h : it.OK) : idx (split ['#'] it.text) 0 = .ok it.body := by
  have hh := (body_noBreak_noHash it h).2
  unfold Item.text
  cases hc : it.cmt with
  | none => simp only [cmtText, List.append_nil]; rw [split1_none hh]; rfl
  | some c => simp only [cmtText]; rw [split1_first _ hh]; rfl

/-- a white-space line changes nothing -/
theorem parLine_pad (st : PState) (pad : Str) (h : PadOK pad) : parLine st pad = .ok st := by
  have h1 : isInfix sColon2 pad = false :=
    isInfix_false_of_char (c := ':') (by decide) (not_mem_pad h ':' (by decide))
  have h2 : isInfix sActive pad = false :=
    isInfix_false_of_char (c := 'A') (by decide) (not_mem_pad h 'A' (by decide))
  unfold parLine
  simp [h1, h2]

theorem lineText_ne_nil (P : Pads) (thorn vname vt : Str) : lineText P thorn vname vt ≠ [] := by
  unfold lineText sColon2
  intro h
  have := congrArg List.length h
  simp at this

theorem foldlE_items : ∀ (items : List Item), (∀ it ∈ items, it.OK) → ∀ st : PState,
    foldlE parLine st ((items.map Item.body).filter fun li => !li.isEmpty) = .ok (items.foldl Item.apply st) := by
  intro items
  induction items with
  | nil => intro _ st; rfl
  | cons it items ih =>
    intro hok st
    have hit := hok it (List.mem_cons_self ..)
    have hrest : ∀ x ∈ items, x.OK := fun x hx => hok x (List.mem_cons_of_mem _ hx)
    cases it with
    | entry P thorn vname vt v cmt =>
      obtain ⟨hP, a1, a2, a3, a4, a5, a6, _⟩ := hit
      have hne : (lineText P thorn vname vt).isEmpty = false := by
        cases h : lineText P thorn vname vt with
        | nil => exact absurd h (lineText_ne_nil _ _ _ _)
        | cons a l => rfl
      simp only [List.map_cons, Item.body, List.filter_cons, hne, Bool.not_false, if_true, foldlE,
        parLine_entry st P hP thorn vname vt v a1 a2 a3 a4 a5 a6, List.foldl_cons, Item.apply]
      exact ih hrest _
    | note pad cmt =>
      simp only [List.map_cons, Item.body, List.filter_cons, List.foldl_cons, Item.apply]
      by_cases he : pad.isEmpty = true
      · simp only [he, Bool.not_true, Bool.false_eq_true, if_false]
        exact ih hrest st
      · have he' : pad.isEmpty = false := by simpa using he
        simp only [he', Bool.not_false, if_true, foldlE, parLine_pad st pad hit.1]
        exact ih hrest st

theorem split_nl_join : ∀ (ls : List Str), ls ≠ [] → (∀ l ∈ ls, '\n' ∉ l) →
    split ['\n'] (joinSep ['\n'] ls) = ls := by
  intro ls
  induction ls with
  | nil => intro h; exact absurd rfl h
  | cons a ls ih =>
    intro _ hl
    cases ls with
    | nil => simp only [joinSep]; exact split1_none (hl a (List.mem_cons_self ..))
    | cons b r =>
      rw [joinSep_cons_cons]
      have : a ++ ['\n'] ++ joinSep ['\n'] (b :: r) = a ++ '\n' :: joinSep ['\n'] (b :: r) := by simp
      rw [this, split1_first _ (hl a (List.mem_cons_self ..)),
        ih (by simp) (fun l hl' => hl l (List.mem_cons_of_mem _ hl'))]

theorem not_mem_joinSep_nl (c : Char) (hc : c ≠ '\n') : ∀ (ls : List Str), (∀ l ∈ ls, c ∉ l) →
    c ∉ joinSep ['\n'] ls := by
  intro ls
  induction ls with
  | nil => intro _; simp [joinSep]
  | cons a ls ih =>
    intro hl
    cases ls with
    | nil => simpa [joinSep] using hl a (List.mem_cons_self ..)
    | cons b r =>
      rw [joinSep_cons_cons]
      simp only [List.mem_append, List.mem_singleton, not_or]
      exact ⟨⟨hl a (List.mem_cons_self ..), hc⟩, ih (fun l hl' => hl l (List.mem_cons_of_mem _ hl'))⟩

theorem mapM_strip_comment : ∀ (items : List Item), (∀ it ∈ items, it.OK) →
    (items.map Item.text).mapM (fun li => idx (split ['#'] li) 0) = .ok (items.map Item.body) := by
  intro items
  induction items with
  | nil => intro _; rfl
  | cons it items ih =>
    intro hok
    have h1 := strip_comment it (hok it (List.mem_cons_self ..))
    have h2 := ih (fun x hx => hok x (List.mem_cons_of_mem _ hx))
    simp only [List.map_cons, List.mapM_cons, h1, h2]
    rfl

/-- **whole file.**  The text made of the lines of `items` (joined by line
feeds; a final `note [] none` gives the usual trailing newline) is parsed into
the dictionary obtained by storing the entries in order, and the list of their
thorns. -/
theorem parse_items (init : List (Str × PVal)) (items : List Item) (hne : items ≠ []) (hok : ∀ it ∈ items, it.OK) :
    parseParText init (joinSep ['\n'] (items.map Item.text)) =
      .ok (items.foldl Item.apply { dict := init, thorns := [] }) := by
  have hnb : ∀ l ∈ items.map Item.text, NoBreak l := by
    intro l hl
    obtain ⟨it, hit, rfl⟩ := List.mem_map.mp hl
    exact text_noBreak it (hok it hit)
  have hcr : '\r' ∉ joinSep ['\n'] (items.map Item.text) :=
    not_mem_joinSep_nl '\r' (by decide) _ (fun l hl => (hnb l hl).2)
  have hsplit : split ['\n'] (joinSep ['\n'] (items.map Item.text)) = items.map Item.text :=
    split_nl_join _ (by simpa using hne) (fun l hl => (hnb l hl).1)
  unfold parseParText parLines
  rw [universalNl_id hcr, hsplit, mapM_strip_comment items hok]
  simp only [ebind_ok, epure_ok]
  exact foldlE_items items hok _

end AurelVerif.ParLemmas
