/-
Lemmas/C05Bssn.lean — property C05, T12 (BSSNOK part, Layer B): the BSSNOK expression of the conformal Ricci
tensor, Alcubierre (2.8.17) / Baumgarte–Shapiro (11.42) (`Spec.Covd.ricciConformal`, which the code's
`s_Ricci_down3_bssnok` is term by term: `s_Ricci_down3_bssnok_spec`), written with the conformal connection
functions `Γ̃^i = −∂_j γ̃^{ij}`, IS the Ricci tensor `R̃^a_{iaj}` of the Christoffel connection of γ̃ when γ̃ has unit
determinant (entering as `γ̃^{ij} ∂_k γ̃_ij = 0`).

Part 1 (textbook level, any symmetric `g` with inverse `u`): `ricciConformal_is_ricci`.
  Hypotheses on the operator (`BssnRules D g u v`): exactly the five instances of additivity / Leibniz / commutation
  that the proof uses; `bssnRules_of_deriv` derives them from `Deriv D` + `DComm D`.  The index algebra is
  Lemmas/C05BssnAlg.lean (`bssn_algebra`).
Part 2 (the code): `s_Ricci_down3_bssnok_is_ricci`, the conformal metric `γ̃ = ψ⁻⁴γ` / connection of the code
  (`uniMetric_of_code`, `conf_connection_of_code`) and `ricci_bssnok_split`:
  `s_Ricci_down3_bssnok + s_Ricci_down3_phi = s_Ricci_down3` (direct).
-/
import AurelVerif.Lemmas.C05BssnAlg
import AurelVerif.Lemmas.C05Conf

set_option linter.unusedSimpArgs false
set_option linter.unusedVariables false
set_option linter.unusedSectionVars false
set_option linter.unusedTactic false
set_option linter.unreachableTactic false

namespace AurelVerif.C05L
open AurelVerif.Gen.Core AurelVerif.Tensor AurelVerif.CoreTac AurelVerif.C08 AurelVerif.Spec.Covd

variable {K : Type} [Field K]

/-! ### Part 1: textbook level -/

section textbook
variable (D : Fin 3 → K → K) (g u : Fin 3 → Fin 3 → K) (v : Fin 3 → K)

/-- a symmetric metric `g` with symmetric inverse `u` and unit determinant in differential form
`u^{ij} ∂_k g_ij = 0` (Jacobi: `∂_k det g = det g · u^{ij} ∂_k g_ij`). -/
structure UniMetric : Prop where
  hs : Sym g
  hsu : Sym u
  hinv : ∀ i k, ∑ j, u i j * g j k = delta i k
  hdet : ∀ k, ∑ i, ∑ j, u i j * D k (g i j) = 0

/-- the instances of additivity, the product rule and commutation of `D` used by `ricciConformal_is_ricci`. -/
structure BssnRules : Prop where
  /-- second derivatives of the metric commute. -/
  comm : ∀ c k i j, D c (D k (g i j)) = D k (D c (g i j))
  /-- product rule + linearity on `Γ^k_ij = u^{kl}·½(∂_i g_lj + ∂_j g_li − ∂_l g_ij)`. -/
  dGam : ∀ c k i j, D c (christoffel2 D u g k i j)
      = ∑ l, (D c (u k l) * christoffel1 D g l i j
          + u k l * ((1 / 2) * (D c (D i (g l j)) + D c (D j (g l i)) - D c (D l (g i j)))))
  /-- product rule on `u^{ai} g_ij = δ^a_j`. -/
  dInv : ∀ c a j, ∑ i, (D c (u a i) * g i j + u a i * D c (g i j)) = 0
  /-- additivity on the contracted connection `Γ^a_{ab}` where it vanishes (and `∂0 = 0`). -/
  dTr : ∀ d b, (∑ a, christoffel2 D u g a a b = 0) → ∑ a, D d (christoffel2 D u g a a b) = 0
  /-- product rule on both sides of `g_ki Γ̃^k = u^{lk} ∂_l g_ki`. -/
  dGv : ∀ j i, (∑ k, g k i * v k = ∑ l, ∑ k, u l k * D l (g k i)) →
      ∑ k, (D j (g k i) * v k + g k i * D j (v k))
        = ∑ l, ∑ k, (D j (u l k) * D l (g k i) + u l k * D j (D l (g k i)))

theorem bssnRules_of_deriv (hD : Deriv D) (hc : DComm D) (h2 : (2 : K) ≠ 0)
    (hinv : ∀ i k, ∑ j, u i j * g j k = delta i k) : BssnRules D g u v := by
  refine ⟨fun c k i j => hc c k _, fun c k i j => ?_, fun c a j => ?_, fun d b h0 => ?_, fun j i h0 => ?_⟩
  · simp only [christoffel2, christoffel1, Fin.sum_univ_three, hD.add, hD.mul, hD.half h2, hD.sub]
    ring
  · have h1 : D c (∑ i, u a i * g i j) = 0 := by
      rw [hinv a j]; unfold delta; split_ifs
      · exact hD.one c
      · exact hD.zero c
    simp only [Fin.sum_univ_three, hD.add, hD.mul] at h1 ⊢
    linear_combination h1
  · have h1 : D d (∑ a, christoffel2 D u g a a b) = 0 := by rw [h0]; exact hD.zero d
    simp only [Fin.sum_univ_three, hD.add] at h1 ⊢
    exact h1
  · have h1 := congrArg (D j) h0
    simp only [Fin.sum_univ_three, hD.add, hD.mul] at h1 ⊢
    linear_combination h1

variable {D g u v}

/-- `g_ij u^{jb} = δ_i^b`. -/
theorem UniMetric.hr (hm : UniMetric D g u) (i b : Fin 3) : ∑ j, g i j * u j b = delta i b := by
  rw [show (delta i b : K) = delta b i by unfold delta; simp only [eq_comm], ← hm.hinv b i]
  exact Finset.sum_congr rfl (fun j _ => by rw [hm.hs i j, hm.hsu j b]; ring)

/-- `g_mb u^{mj} = δ^j_b`. -/
theorem UniMetric.hr2 (hm : UniMetric D g u) (j b : Fin 3) : ∑ m, g m b * u m j = delta j b := by
  rw [← hm.hinv j b]
  exact Finset.sum_congr rfl (fun m _ => by rw [hm.hsu m j]; ring)

/-- `Γ̃_{ijk} = g_il Γ^l_jk` is the Christoffel symbol of the first kind. -/
theorem lowerG_christoffel (hm : UniMetric D g u) (i j k : Fin 3) :
    lowerG g (christoffel2 D u g) i j k = christoffel1 D g i j k := by
  have := contract_inv u g hm.hr2 (fun m => christoffel1 D g m j k) i
  rw [← this]
  simp only [lowerG, christoffel2]
  exact Finset.sum_congr rfl (fun l _ => by rw [hm.hs i l]; ring)

/-- the contracted connection vanishes: `Γ^a_{ab} = ½ u^{al} ∂_b g_al = 0`. -/
theorem trace_christoffel_zero (hm : UniMetric D g u) (b : Fin 3) : ∑ a, christoffel2 D u g a a b = 0 := by
  have h := hm.hdet b
  have u01 := hm.hsu 1 0; have u02 := hm.hsu 2 0; have u12 := hm.hsu 2 1
  simp only [christoffel2, christoffel1, Fin.sum_univ_three, u01, u02, u12] at h ⊢
  linear_combination (1 / 2 : K) * h

/-- `∂_a u^{al} = −Γ̃^l` for `Γ̃^l = −∂_j u^{lj}` and symmetric `u`. -/
theorem div_inverse (hm : UniMetric D g u) (hv : ∀ i, v i = gammaVec D u i) (l : Fin 3) :
    ∑ a, D a (u a l) = -v l := by
  rw [hv l, gammaVec, neg_neg]
  exact Finset.sum_congr rfl (fun a _ => by rw [hm.hsu a l])

/-- `∂_c u^{kl} = −u^{ki} ∂_c g_ij u^{jl}` from the product rule on `u g = 1`. -/
theorem d_inverse (hm : UniMetric D g u) (hr : BssnRules D g u v) (c k l : Fin 3) :
    D c (u k l) = dutab u (fun k i j => D k (g i j)) c k l := by
  refine solve_inv g u hm.hr (fun i => D c (u k i)) (fun j => ∑ i, u k i * D c (g i j)) (fun j => ?_) l
  have := hr.dInv c k j
  simp only [Fin.sum_univ_three] at this ⊢
  linear_combination this

/-- `g_ki Γ̃^k = u^{lk} ∂_l g_ki`. -/
theorem lower_gammaVec (hm : UniMetric D g u) (hv : ∀ i, v i = gammaVec D u i) (hr : BssnRules D g u v)
    (i : Fin 3) : ∑ k, g k i * v k = ∑ l, ∑ k, u l k * D l (g k i) := by
  have d0 := hr.dInv 0 0 i; have d1 := hr.dInv 1 1 i; have d2 := hr.dInv 2 2 i
  have v0 := div_inverse hm hv 0; have v1 := div_inverse hm hv 1; have v2 := div_inverse hm hv 2
  simp only [Fin.sum_univ_three] at d0 d1 d2 v0 v1 v2 ⊢
  linear_combination -d0 - d1 - d2 + g 0 i * v0 + g 1 i * v1 + g 2 i * v2

/-- `g_ki ∂_jΓ̃^k` by the product rule. -/
theorem lower_dgammaVec (hm : UniMetric D g u) (hv : ∀ i, v i = gammaVec D u i) (hr : BssnRules D g u v)
    (i j : Fin 3) :
    ∑ k, g k i * D j (v k) = Xtab u (fun k i j => D k (g i j)) (fun l k i j => D l (D k (g i j))) v i j := by
  have h := hr.dGv j i (lower_gammaVec hm hv hr i)
  simp only [d_inverse hm hr] at h
  simp only [Xtab, Fin.sum_univ_three] at h ⊢
  linear_combination h

/-- (2.8.17) in the form of Lemmas/C05BssnAlg.lean. -/
theorem ricciConformal_tab (h2 : (2 : K) ≠ 0) (hm : UniMetric D g u) (hv : ∀ i, v i = gammaVec D u i)
    (hr : BssnRules D g u v) (i j : Fin 3) :
    ricciConformal D g u v (christoffel2 D u g) (lowerG g (christoffel2 D u g)) i j
      = bssnL u (fun k i j => D k (g i j)) (fun l k i j => D l (D k (g i j))) v i j := by
  have hh : ∀ x : K, 2 * ((1 / 2) * x) = x := fun x => by field_simp
  have e1 : ∑ k, (g k i * D j (v k) + g k j * D i (v k))
      = Xtab u (fun k i j => D k (g i j)) (fun l k i j => D l (D k (g i j))) v i j
        + Xtab u (fun k i j => D k (g i j)) (fun l k i j => D l (D k (g i j))) v j i := by
    rw [Finset.sum_add_distrib, lower_dgammaVec hm hv hr i j, lower_dgammaVec hm hv hr j i]
  simp only [ricciConformal, lowerG_christoffel hm, e1, hh]
  rfl

/-- the Ricci tensor of the Christoffel connection in the form of Lemmas/C05BssnAlg.lean. -/
theorem ricci_tab (hm : UniMetric D g u) (hv : ∀ i, v i = gammaVec D u i) (hr : BssnRules D g u v)
    (i j : Fin 3) :
    ricci (riemann D (christoffel2 D u g)) i j
      = bssnR u (fun k i j => D k (g i j)) (fun l k i j => D l (D k (g i j))) v i j := by
  have t0 := trace_christoffel_zero hm 0
  have t1 := trace_christoffel_zero hm 1
  have t2 := trace_christoffel_zero hm 2
  have dt := hr.dTr j i (trace_christoffel_zero hm i)
  have v0 := div_inverse hm hv 0; have v1 := div_inverse hm hv 1; have v2 := div_inverse hm hv 2
  have G0 := hr.dGam 0 0 j i; have G1 := hr.dGam 1 1 j i; have G2 := hr.dGam 2 2 j i
  have c1e : ∀ l i j, c1tab (fun k i j => D k (g i j)) l i j = christoffel1 D g l i j := fun l i j => rfl
  have c2e : ∀ l i j, c2tab u (fun k i j => D k (g i j)) l i j = christoffel2 D u g l i j := fun l i j => rfl
  simp only [ricci, riemann, bssnR, c1e, c2e]
  simp only [Fin.sum_univ_three] at t0 t1 t2 dt v0 v1 v2 G0 G1 G2 ⊢
  linear_combination G0 + G1 + G2 - dt
    + christoffel2 D u g 0 j i * t0 + christoffel2 D u g 1 j i * t1 + christoffel2 D u g 2 j i * t2
    + christoffel1 D g 0 j i * v0 + christoffel1 D g 1 j i * v1 + christoffel1 D g 2 j i * v2

/-- **(2.8.17) is the Ricci tensor of the conformal metric** (textbook level): for a symmetric `g` with inverse
`u`, unit determinant (`u^{ij}∂_k g_ij = 0`), `Γ̃^i = −∂_j u^{ij}` and `Γ` the Christoffel symbols of `g`.  Layer B. -/
theorem ricciConformal_is_ricci (h2 : (2 : K) ≠ 0) (hm : UniMetric D g u) (hv : ∀ i, v i = gammaVec D u i)
    (hr : BssnRules D g u v) (i j : Fin 3) :
    ricciConformal D g u v (christoffel2 D u g) (lowerG g (christoffel2 D u g)) i j
      = ricci (riemann D (christoffel2 D u g)) i j := by
  rw [ricciConformal_tab h2 hm hv hr, ricci_tab hm hv hr]
  refine bssn_algebra u _ _ v h2 hm.hsu (fun k i j => ?_) (fun l k i j => hr.comm l k i j) (fun l k i j => ?_) i j
  · show D k (g i j) = D k (g j i); rw [hm.hs i j]
  · show D l (D k (g i j)) = D l (D k (g j i)); rw [hm.hs i j]

end textbook

/-! ### Part 2: the code -/

/-- chain / product rule for the conformal rescaling `γ̃_ij = ψ⁻⁴γ_ij` with `φ = ln ψ`, `ψ¹² = det γ`
(the code's `rpowF`, `logF` are opaque): `∂_kγ̃_ij = ψ⁻⁴(∂_kγ_ij − 4γ_ij∂_kφ)` and `12 ∂_kφ = γ^{ab}∂_kγ_ab`
(`= ∂_k ln det γ`, Jacobi).  `confChain_of_deriv` derives both from `Deriv e.D`, `ψ¹² = det γ` and
`∂_k(logF ψ) · ψ = ∂_kψ`. -/
structure ConfChain (e : Env K) : Prop where
  dg : ∀ k i j, e.D k (e.gammadown3_bssnok i j)
      = (e.psi_bssnok ^ 4)⁻¹ * (e.D k (e.gammadown3 i j) - 4 * e.D k e.phi_bssnok * e.gammadown3 i j)
  dphi : ∀ k, 12 * e.D k e.phi_bssnok = trDgamma e k

theorem Deriv.pow {D : Fin 3 → K → K} (hD : Deriv D) (i : Fin 3) (x : K) (n : Nat) :
    D i (x ^ (n + 1)) = (n + 1 : K) * x ^ n * D i x := by
  induction n with
  | zero => simp
  | succ n ih => rw [pow_succ, hD.mul, ih]; push_cast; ring

theorem confChain_of_deriv (e : Env K) (hD : Deriv e.D) (hs : Sym e.gammadown3) (hgdet : e.gammadet = gammadet e)
    (hu : e.gammaup3 = gammaup3 e) (hd : gammadet e ≠ 0) (hgd : e.gammadown3_bssnok = gammadown3_bssnok e)
    (hpsi : e.psi_bssnok ^ 12 = e.gammadet) (hlog : ∀ k, e.D k e.phi_bssnok * e.psi_bssnok = e.D k e.psi_bssnok) :
    ConfChain e := by
  have hp : e.psi_bssnok ≠ 0 := by
    intro h0; rw [h0] at hpsi; apply hd; rw [← hgdet, ← hpsi]; simp
  have hp4 : e.psi_bssnok ^ 4 ≠ 0 := pow_ne_zero 4 hp
  have dp : ∀ k, e.D k ((e.psi_bssnok ^ 4)⁻¹) = -4 * (e.psi_bssnok ^ 4)⁻¹ * e.D k e.phi_bssnok := by
    intro k
    have h1 : e.D k ((e.psi_bssnok ^ 4)⁻¹ * e.psi_bssnok ^ 4) = 0 := by
      rw [inv_mul_cancel₀ hp4]; exact hD.one k
    rw [hD.mul, hD.pow k e.psi_bssnok 3, ← hlog k] at h1
    field_simp
    field_simp at h1
    linear_combination h1
  refine ⟨fun k i j => ?_, fun k => ?_⟩
  · rw [hgd, (bssnok_weights e i j).1, hD.mul, dp k]; ring
  · have hj := jacobi_of_deriv e hD hs hgdet hu hd k
    rw [← hpsi, hD.pow k e.psi_bssnok 11, ← hlog k] at hj
    have hd' : e.psi_bssnok ^ 12 ≠ 0 := pow_ne_zero 12 hp
    have : e.psi_bssnok ^ 12 * (12 * e.D k e.phi_bssnok - trDgamma e k) = 0 := by
      push_cast at hj; linear_combination hj
    have := (mul_eq_zero.mp this).resolve_left hd'
    linear_combination this

/-- Christoffel symbol of the first kind of the conformal metric. -/
theorem christoffel1_conf (e : Env K) (h2 : (2 : K) ≠ 0) (hc : ConfChain e) (l i j : Fin 3) :
    christoffel1 e.D e.gammadown3_bssnok l i j
      = (e.psi_bssnok ^ 4)⁻¹ * (christoffel1 e.D e.gammadown3 l i j
          - 2 * (e.D i e.phi_bssnok * e.gammadown3 l j + e.D j e.phi_bssnok * e.gammadown3 l i
              - e.D l e.phi_bssnok * e.gammadown3 i j)) := by
  simp only [christoffel1, hc.dg]
  field_simp
  ring

/-- **the code's conformal metric is a unit-determinant metric** in the sense of `UniMetric`. -/
theorem uniMetric_of_code (e : Env K) (h : MetricOK e) (hpsi : e.psi_bssnok ≠ 0)
    (hgd : e.gammadown3_bssnok = gammadown3_bssnok e) (hgu : e.gammaup3_bssnok = gammaup3_bssnok e)
    (hc : ConfChain e) : UniMetric e.D e.gammadown3_bssnok e.gammaup3_bssnok := by
  have hp4 : e.psi_bssnok ^ 4 ≠ 0 := pow_ne_zero 4 hpsi
  have hqp : e.psi_bssnok ^ 4 * (e.psi_bssnok ^ 4)⁻¹ = 1 := mul_inv_cancel₀ hp4
  have wd : ∀ i j, e.gammadown3_bssnok i j = (e.psi_bssnok ^ 4)⁻¹ * e.gammadown3 i j :=
    fun i j => by rw [hgd]; exact (bssnok_weights e i j).1
  have wu : ∀ i j, e.gammaup3_bssnok i j = e.psi_bssnok ^ 4 * e.gammaup3 i j :=
    fun i j => by rw [hgu]; exact (bssnok_weights e i j).2.1
  refine ⟨fun i j => ?_, fun i j => ?_, fun i k => ?_, fun k => ?_⟩
  · rw [wd, wd, h.hs i j]
  · rw [wu, wu, h.hsu i j]
  · have hi := h.hinv i k
    simp only [wd, wu, Fin.sum_univ_three] at hi ⊢
    linear_combination (e.gammaup3 i 0 * e.gammadown3 0 k + e.gammaup3 i 1 * e.gammadown3 1 k
      + e.gammaup3 i 2 * e.gammadown3 2 k) * hqp + hi
  · obtain ⟨T, hT⟩ : ∃ T, T = trDgamma e k := ⟨_, rfl⟩
    obtain ⟨S, hS⟩ : ∃ S : K, S = ∑ k, ∑ l, e.gammaup3 k l * e.gammadown3 k l := ⟨_, rfl⟩
    have h3 := trace_inv e.gammadown3 e.gammaup3 h.hsu (h.hinvC e)
    rw [← hS] at h3
    have hφ := hc.dphi k
    rw [← hT] at hφ
    simp only [trDgamma, Fin.sum_univ_three] at hT hS
    simp only [hc.dg, wu, Fin.sum_univ_three]
    linear_combination (T - 4 * e.D k e.phi_bssnok * S) * hqp - 4 * e.D k e.phi_bssnok * h3 - hφ
      - e.psi_bssnok ^ 4 * (e.psi_bssnok ^ 4)⁻¹ * hT
      + 4 * e.D k e.phi_bssnok * e.psi_bssnok ^ 4 * (e.psi_bssnok ^ 4)⁻¹ * hS

/-- **the code's conformal connection (2.8.14) is the Christoffel connection of the conformal metric.** -/
theorem conf_connection_of_code (e : Env K) (h : MetricOK e) (h2 : (2 : K) ≠ 0) (hpsi : e.psi_bssnok ≠ 0)
    (hgu : e.gammaup3_bssnok = gammaup3_bssnok e) (hB : e.s_Gamma_udd3_bssnok = s_Gamma_udd3_bssnok e)
    (hc : ConfChain e) (k i j : Fin 3) :
    e.s_Gamma_udd3_bssnok k i j = christoffel2 e.D e.gammaup3_bssnok e.gammadown3_bssnok k i j := by
  have hp4 : e.psi_bssnok ^ 4 ≠ 0 := pow_ne_zero 4 hpsi
  have hqp : e.psi_bssnok ^ 4 * (e.psi_bssnok ^ 4)⁻¹ = 1 := mul_inv_cancel₀ hp4
  have wu : ∀ i j, e.gammaup3_bssnok i j = e.psi_bssnok ^ 4 * e.gammaup3 i j :=
    fun i j => by rw [hgu]; exact (bssnok_weights e i j).2.1
  have hG : ∀ k i j, e.s_Gamma_udd3 k i j = christoffel2 e.D e.gammaup3 e.gammadown3 k i j :=
    fun k i j => by rw [h.hG]; exact s_Gamma_udd3_spec e h.hs k i j
  have i1 := h.hinv k j; have i2 := h.hinv k i
  rw [hB, s_Gamma_udd3_bssnok_spec]
  simp only [gammaBssnok, ite_delta, hG, christoffel2, christoffel1_conf e h2 hc, wu, Fin.sum_univ_three] at i1 i2 ⊢
  linear_combination
    (-(e.gammaup3 k 0 * (christoffel1 e.D e.gammadown3 0 i j
          - 2 * (e.D i e.phi_bssnok * e.gammadown3 0 j + e.D j e.phi_bssnok * e.gammadown3 0 i
              - e.D 0 e.phi_bssnok * e.gammadown3 i j))
      + e.gammaup3 k 1 * (christoffel1 e.D e.gammadown3 1 i j
          - 2 * (e.D i e.phi_bssnok * e.gammadown3 1 j + e.D j e.phi_bssnok * e.gammadown3 1 i
              - e.D 1 e.phi_bssnok * e.gammadown3 i j))
      + e.gammaup3 k 2 * (christoffel1 e.D e.gammadown3 2 i j
          - 2 * (e.D i e.phi_bssnok * e.gammadown3 2 j + e.D j e.phi_bssnok * e.gammadown3 2 i
              - e.D 2 e.phi_bssnok * e.gammadown3 i j)))) * hqp
    + 2 * e.D i e.phi_bssnok * i1 + 2 * e.D j e.phi_bssnok * i2

/-- **the code's `s_Ricci_down3_bssnok` ((2.8.17)) is the Ricci tensor of the conformal connection**, at the level of
the conformal metric: `γ̃` unit-determinant metric, `Γ̃` its Christoffel connection, `Γ̃^i` the code's.  Layer B. -/
theorem s_Ricci_down3_bssnok_is_ricci (e : Env K) (h2 : (2 : K) ≠ 0)
    (hm : UniMetric e.D e.gammadown3_bssnok e.gammaup3_bssnok) (hGv : e.s_Gamma_bssnok = s_Gamma_bssnok e)
    (hΓ : ∀ k i j, e.s_Gamma_udd3_bssnok k i j = christoffel2 e.D e.gammaup3_bssnok e.gammadown3_bssnok k i j)
    (hr : BssnRules e.D e.gammadown3_bssnok e.gammaup3_bssnok e.s_Gamma_bssnok) (i j : Fin 3) :
    s_Ricci_down3_bssnok e i j = ricci (riemann e.D e.s_Gamma_udd3_bssnok) i j := by
  have hΓf : e.s_Gamma_udd3_bssnok = christoffel2 e.D e.gammaup3_bssnok e.gammadown3_bssnok := by
    funext k i j; exact hΓ k i j
  rw [s_Ricci_down3_bssnok_spec e hm.hs, hΓf]
  exact ricciConformal_is_ricci h2 hm (fun i => by rw [hGv]; exact s_Gamma_bssnok_spec e i) hr i j

/-- **both forms of the spatial Ricci tensor agree**: `R̃_ij + R^φ_ij = R_ij` for the code's `s_Ricci_down3_bssnok`,
`s_Ricci_down3_phi` and the default (direct) `s_Ricci_down3`.  Layer B. -/
theorem ricci_bssnok_split (e : Env K) (h : MetricOK e) (h2 : (2 : K) ≠ 0) (hpsi : e.psi_bssnok ≠ 0)
    (hgd : e.gammadown3_bssnok = gammadown3_bssnok e) (hgu : e.gammaup3_bssnok = gammaup3_bssnok e)
    (hB : e.s_Gamma_udd3_bssnok = s_Gamma_udd3_bssnok e) (hGv : e.s_Gamma_bssnok = s_Gamma_bssnok e)
    (hp : ProdRuleInv e) (hcr : ConfRules e) (hc : ConfChain e)
    (hr : BssnRules e.D e.gammadown3_bssnok e.gammaup3_bssnok e.s_Gamma_bssnok) (b d : Fin 3) :
    s_Ricci_down3_bssnok e b d + s_Ricci_down3_phi e b d = s_Ricci_down3__dflt e b d := by
  rw [ricci_conformal_split e h h2 hp hB (conf_weights_of_code e hpsi hgd hgu) hcr b d,
    s_Ricci_down3_bssnok_is_ricci e h2 (uniMetric_of_code e h hpsi hgd hgu hc) hGv
      (conf_connection_of_code e h h2 hpsi hgu hB hc) hr b d]

end AurelVerif.C05L
