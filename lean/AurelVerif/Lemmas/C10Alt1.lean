/-
Lemmas/C10Alt1.lean — alternative 1 of `st_Weyl_down4` (from the cached Riemann tensor):
the generated 256-entry table equals the textbook expression; Ricci tensor and scalar
as the code contracts them.
-/
import AurelVerif.Gen.CoreBig_st_Weyl_down4
import AurelVerif.Gen.CoreBig_st_Riemann_uddd4
import AurelVerif.Gen.CoreKeys
import AurelVerif.Lemmas.CoreTac
import AurelVerif.Spec.Weyl

set_option linter.unusedSimpArgs false
set_option linter.unusedVariables false

namespace AurelVerif.C10
open AurelVerif.Gen.Core AurelVerif.Tensor AurelVerif.CoreTac AurelVerif.Spec.Weyl

variable {K : Type} [Field K]

theorem alt1_matter_spec (e : Env K) : ∀ a b c d : Fin 4,
    st_Weyl_down4__st_Riemann_down4_matter e a b c d
      = weyl e.gdown4 e.st_Riemann_down4 e.st_Ricci_down4 e.st_RicciS a b c d := by
  cases4 <;> cases4 <;> cases4 <;> cases4 <;>
    (simp only [st_Weyl_down4__st_Riemann_down4_matter, ↓vec4_0, ↓vec4_1, ↓vec4_2, ↓vec4_3, weyl]; ring)

theorem alt1_vacuum_spec (e : Env K) : ∀ a b c d : Fin 4,
    st_Weyl_down4__st_Riemann_down4_vacuum e a b c d = e.st_Riemann_down4 a b c d := by
  cases4 <;> cases4 <;> cases4 <;> cases4 <;>
    (simp only [st_Weyl_down4__st_Riemann_down4_vacuum, ↓vec4_0, ↓vec4_1, ↓vec4_2, ↓vec4_3])

/-- `st_Riemann_uddd4`: `R^i{}_{bcd} = R_{abcd} g^{ai}`. -/
theorem riemann_uddd_spec (e : Env K) : ∀ i b c d : Fin 4,
    st_Riemann_uddd4 e i b c d = ∑ a, e.st_Riemann_down4 a b c d * e.gup4 a i := by
  cases4 <;> cases4 <;> cases4 <;> cases4 <;>
    (simp only [st_Riemann_uddd4, ↓vec4_0, ↓vec4_1, ↓vec4_2, ↓vec4_3, Fin.sum_univ_four])

/-- `st_Ricci_down4` (no `Tdown4` supplied): `R_bd = R^a{}_{bad}`. -/
theorem ricci_spec (e : Env K) : ∀ b d : Fin 4,
    st_Ricci_down4__dflt e b d = ∑ a, e.st_Riemann_uddd4 a b a d := by
  cases4 <;> cases4 <;> (simp only [st_Ricci_down4__dflt, ↓vec4_0, ↓vec4_1, ↓vec4_2, ↓vec4_3, Fin.sum_univ_four])

/-- `st_RicciS = g^{jk} R_jk`. -/
theorem ricciS_spec (e : Env K) : st_RicciS e = ∑ j, ∑ k, e.gup4 j k * e.st_Ricci_down4 j k := by
  unfold_core; ring

end AurelVerif.C10
