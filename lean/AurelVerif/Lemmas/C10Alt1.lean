/-
Lemmas/C10Alt1.lean — alternative 1 of `st_Weyl_down4` (from the cached Riemann tensor).
-/
import AurelVerif.Gen.CoreBig_st_Weyl_down4
import AurelVerif.Lemmas.CoreTac
import AurelVerif.Spec.Weyl

set_option linter.unusedSimpArgs false
set_option linter.unusedVariables false

namespace AurelVerif.C10
open AurelVerif.Gen.Core AurelVerif.Tensor AurelVerif.CoreTac AurelVerif.Spec.Weyl

variable {K : Type} [Field K]

theorem alt1_spec_aux (e : Env K) : ∀ a b c d : Fin 4,
    st_Weyl_down4__st_Riemann_down4_matter e a b c d
      = weyl e.gdown4 e.st_Riemann_down4 e.st_Ricci_down4 e.st_RicciS a b c d := by
  cases4 <;> cases4 <;> cases4 <;> cases4 <;>
    (simp only [st_Weyl_down4__st_Riemann_down4_matter, ↓vec4_0, ↓vec4_1, ↓vec4_2, ↓vec4_3, weyl]; ring)

end AurelVerif.C10
