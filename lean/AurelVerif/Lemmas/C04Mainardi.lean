/-
Lemmas/C04Mainardi.lean — the "Mainardi" block `R_itjt` of core.py `st_Riemann_down4`
(`Spec.Curvature.mainardi`) as an ALGEBRAIC consequence of the Gauss and Codazzi blocks.

core.py obtains `R_itjt` not from second time derivatives but from the 4-Ricci tensor:
  `R_itjt = β^k R_jkit + β^k R_ikjt − β^kβ^l R_ikjl + α²(³R_ij − K_ikK^k_j + K K_ij − ⁴R_ij)`.
Here: for ANY 4-index tensor `R4` with the Riemann symmetries whose blocks `R_ijkl`, `R_ijkt` are `A`, `B`,
if `Ric4 i j` is the spatial block of ITS OWN Ricci tensor `g^{ac} R4_{aicj}` taken with the 3+1 inverse
metric, then `R4_itjt` is the expression above (with `γ^{kl}A_kilj` in place of `³R_ij − K_ikK^k_j + K K_ij`,
to which it reduces for the Gauss block, `gauss_contract`).  No derivative is involved; the only
input is `g^tt = −1/α² ≠ 0`.  So the code's `R_itjt` is the textbook component exactly when the supplied
`st_Ricci_down3` is the spatial Ricci tensor of the spacetime metric — the projected Einstein equation
(`ricci_of_einstein`: `G_ab + Λ g_ab = κ T_ab ⇒ R_ab = Λ g_ab + κ(T_ab − ½ T g_ab)`).
-/
import AurelVerif.Lemmas.C04Jet2

set_option linter.unusedSimpArgs false
set_option linter.unusedVariables false
set_option linter.unusedTactic false
set_option linter.unreachableTactic false

namespace AurelVerif.Spec.Curvature.Jet
open AurelVerif.Tensor AurelVerif.CoreTac AurelVerif.C04L

variable {K : Type} [Field K] (J : Jet K)

theorem sum4_split (f : Fin 4 → K) : ∑ a, f a = f 0 + ∑ m : Fin 3, f m.succ := Fin.sum_univ_succ f

/-- the spatial block of the Ricci tensor `g^{ac}R_aicj` (3+1 inverse metric) of a tensor with the Riemann symmetries
in terms of its blocks:
`α² R_ij = −R_itjt + β^k R_jkit + β^k R_ikjt − β^kβ^l R_ikjl + α² γ^{kl} R_kilj`. -/
theorem ricci_spatial (ha : J.alpha ≠ 0) (R4 : Fin 4 → Fin 4 → Fin 4 → Fin 4 → K) (hR : RiemannSym R4)
    (A : Fin 3 → Fin 3 → Fin 3 → Fin 3 → K) (B : Fin 3 → Fin 3 → Fin 3 → K)
    (hA : ∀ i j k l : Fin 3, R4 i.succ j.succ k.succ l.succ = A i j k l)
    (hB : ∀ i j k : Fin 3, R4 i.succ j.succ k.succ 0 = B i j k) (i j : Fin 3) :
    J.alpha ^ 2 * ricciDown J.gup3p1 R4 i.succ j.succ
      = -R4 i.succ 0 j.succ 0 + ∑ k, B j k i * J.beta k + ∑ k, B i k j * J.beta k
        - ∑ k, ∑ l, A i k j l * J.beta k * J.beta l + J.alpha ^ 2 * ∑ k, ∑ l, J.gamup k l * A k i l j := by
  have r1 : R4 0 i.succ 0 j.succ = R4 i.succ 0 j.succ 0 := by
    rw [hR.anti12 0 i.succ 0 j.succ, hR.anti34 i.succ 0 0 j.succ, neg_neg]
  have r2 : ∀ l : Fin 3, R4 0 i.succ l.succ j.succ = B j l i := by
    intro l
    rw [hR.pair 0 i.succ l.succ j.succ, hR.anti34 l.succ j.succ 0 i.succ, hR.anti12 l.succ j.succ i.succ 0, neg_neg, hB]
  have r3 : ∀ k : Fin 3, R4 k.succ i.succ 0 j.succ = B i k j := by
    intro k
    rw [hR.anti34 k.succ i.succ 0 j.succ, hR.anti12 k.succ i.succ j.succ 0, neg_neg, hB]
  have r4 : ∀ k l : Fin 3, A i k j l = A k i l j := by
    intro k l
    rw [← hA, ← hA, hR.anti12 i.succ k.succ j.succ l.succ, hR.anti34 k.succ i.succ j.succ l.succ, neg_neg]
  simp only [ricciDown, sum4_split, r1, r2, r3, hA, gup3p1, tsplit_0, tsplit_succ]
  simp only [r4]
  simp only [Fin.sum_univ_three]
  field_simp
  ring

/-- **Mainardi block, algebraic form.** -/
theorem mainardi_algebraic (ha : J.alpha ≠ 0) (R4 : Fin 4 → Fin 4 → Fin 4 → Fin 4 → K) (hR : RiemannSym R4)
    (A : Fin 3 → Fin 3 → Fin 3 → Fin 3 → K) (B : Fin 3 → Fin 3 → Fin 3 → K)
    (hA : ∀ i j k l : Fin 3, R4 i.succ j.succ k.succ l.succ = A i j k l)
    (hB : ∀ i j k : Fin 3, R4 i.succ j.succ k.succ 0 = B i j k)
    (Ric4 : Fin 3 → Fin 3 → K) (hRic : ∀ i j : Fin 3, Ric4 i j = ricciDown J.gup3p1 R4 i.succ j.succ)
    (i j : Fin 3) :
    R4 i.succ 0 j.succ 0
      = ∑ k, B j k i * J.beta k + ∑ k, B i k j * J.beta k - ∑ k, ∑ l, A i k j l * J.beta k * J.beta l
        + J.alpha ^ 2 * (∑ k, ∑ l, J.gamup k l * A k i l j - Ric4 i j) := by
  rw [hRic i j]
  linear_combination ricci_spatial J ha R4 hR A B hA hB i j

/-- conversely (since `α ≠ 0`): the coded expression equals `R4_itjt` ONLY IF `Ric4 i j` is the spatial Ricci component. -/
theorem mainardi_algebraic_iff (ha : J.alpha ≠ 0) (R4 : Fin 4 → Fin 4 → Fin 4 → Fin 4 → K) (hR : RiemannSym R4)
    (A : Fin 3 → Fin 3 → Fin 3 → Fin 3 → K) (B : Fin 3 → Fin 3 → Fin 3 → K)
    (hA : ∀ i j k l : Fin 3, R4 i.succ j.succ k.succ l.succ = A i j k l)
    (hB : ∀ i j k : Fin 3, R4 i.succ j.succ k.succ 0 = B i j k) (r : K) (i j : Fin 3) :
    R4 i.succ 0 j.succ 0
        = ∑ k, B j k i * J.beta k + ∑ k, B i k j * J.beta k - ∑ k, ∑ l, A i k j l * J.beta k * J.beta l
          + J.alpha ^ 2 * (∑ k, ∑ l, J.gamup k l * A k i l j - r)
      ↔ r = ricciDown J.gup3p1 R4 i.succ j.succ := by
  have rs := ricci_spatial J ha R4 hR A B hA hB i j
  constructor
  · intro h
    have h0 : J.alpha ^ 2 * (r - ricciDown J.gup3p1 R4 i.succ j.succ) = 0 := by linear_combination h - rs
    exact sub_eq_zero.mp ((mul_eq_zero.mp h0).resolve_left (pow_ne_zero 2 ha))
  · intro h
    rw [h]; linear_combination rs

/-- the contraction of the Gauss block: `γ^{kl}(³R_kilj + K_klK_ij − K_kjK_il) = ³R_ij + K K_ij − K_ikK^k_j`. -/
theorem gauss_contract (h : J.LeviCivita) (R3 : Fin 3 → Fin 3 → Fin 3 → Fin 3 → K) : ∀ i j : Fin 3,
    ∑ k, ∑ l, J.gamup k l * gauss R3 J.Kd k i l j
      = ricciDown J.gamup R3 i j - KK3 J.gamup J.Kd i j + J.Kd i j * ∑ k, ∑ l, J.gamup k l * J.Kd k l := by
  have u10 := gamup_symm J h 1 0; have u20 := gamup_symm J h 2 0; have u21 := gamup_symm J h 2 1
  have K10 := h.symK 1 0; have K20 := h.symK 2 0; have K21 := h.symK 2 1
  cases3 <;> cases3 <;>
    (simp only [gauss, ricciDown, KK3, Fin.sum_univ_three, u10, u20, u21, K10, K20, K21]
     ring)

/-- **Mainardi block** in the form of `Spec.Curvature.mainardi` (Shibata 2.56 as coded): for a tensor `R4` with
the Riemann symmetries whose spatial block is the Gauss expression and whose `ijkt` block is `B`. -/
theorem mainardi_block (h : J.LeviCivita) (R4 : Fin 4 → Fin 4 → Fin 4 → Fin 4 → K) (hR : RiemannSym R4)
    (R3 : Fin 3 → Fin 3 → Fin 3 → Fin 3 → K) (B : Fin 3 → Fin 3 → Fin 3 → K)
    (hA : ∀ i j k l : Fin 3, R4 i.succ j.succ k.succ l.succ = gauss R3 J.Kd i j k l)
    (hB : ∀ i j k : Fin 3, R4 i.succ j.succ k.succ 0 = B i j k)
    (Ric4 : Fin 3 → Fin 3 → K) (hRic : ∀ i j : Fin 3, Ric4 i j = ricciDown J.gup3p1 R4 i.succ j.succ)
    (i j : Fin 3) :
    R4 i.succ 0 j.succ 0
      = mainardi J.alpha J.beta (gauss R3 J.Kd) B (ricciDown J.gamup R3) (KK3 J.gamup J.Kd) J.Kd
          (∑ k, ∑ l, J.gamup k l * J.Kd k l) Ric4 i j := by
  rw [mainardi_algebraic J h.ha R4 hR (gauss R3 J.Kd) B hA hB Ric4 hRic i j, gauss_contract J h R3 i j]
  simp only [mainardi]

/-! ### Einstein's equations give the Ricci tensor (trace reversal) -/

/-- `G_ab + Λ g_ab = κ T_ab` with `G_ab = R_ab − ½ R g_ab`, `R = g^{ab}R_ab`, in 4 dimensions
(`g^{ab} g_ab = 4`) gives `R_ab = Λ g_ab + κ (T_ab − ½ (g^{cd}T_cd) g_ab)`. -/
theorem ricci_of_einstein (h2 : (2 : K) ≠ 0) (gup g Ric T : Fin 4 → Fin 4 → K) (Lam kappa : K)
    (htr : trace gup g = 4)
    (hE : ∀ a b, einstein Ric (trace gup Ric) g a b + Lam * g a b = kappa * T a b) (a b : Fin 4) :
    Ric a b = ricciOfMatter Lam kappa g T (trace gup T) a b := by
  have h12 : (1 / 2 : K) * 4 = 2 := by
    rw [one_div, inv_mul_eq_iff_eq_mul₀ h2]; norm_num
  have tmul : ∀ (c : K) (M : Fin 4 → Fin 4 → K), trace gup (fun x y => c * M x y) = c * trace gup M := by
    intro c M
    simp only [trace, Finset.mul_sum]
    exact Finset.sum_congr rfl fun x _ => Finset.sum_congr rfl fun y _ => by ring
  have tadd : ∀ (M N : Fin 4 → Fin 4 → K), trace gup (fun x y => M x y + N x y) = trace gup M + trace gup N := by
    intro M N
    simp only [trace, mul_add, Finset.sum_add_distrib]
  have hfun : (fun x y => kappa * T x y)
      = fun x y => (Ric x y + (-(1 / 2) * trace gup Ric) * g x y) + Lam * g x y := by
    funext x y; rw [← hE x y]; simp only [einstein]; ring
  have hS : kappa * trace gup T
      = (trace gup Ric + (-(1 / 2) * trace gup Ric) * trace gup g) + Lam * trace gup g := by
    rw [← tmul kappa T, hfun, tadd, tadd, tmul, tmul]
  rw [htr] at hS
  have hRS : trace gup Ric = 4 * Lam - kappa * trace gup T := by
    linear_combination hS - trace gup Ric * h12
  have := hE a b
  simp only [einstein, ricciOfMatter, hRS] at this ⊢
  linear_combination this + (Lam * g a b) * h12

end AurelVerif.Spec.Curvature.Jet
