/-
Lemmas/C06AdmCode.lean — Layer B (consistency), property C06 extension: the jet-level Ricci equation / ADM evolution
equation (Lemmas/C06RicciEq.lean) in the vocabulary of the generated code and of Spec/ADM.lean.

`jetCOf e T` (Lemmas/C04CurvCode.lean) is the 2-jet at one grid point; `CurvHyp e T` its hypotheses.
  `lieK_code`, `DDa_code`       `L_βK_ij`, `D_iD_jα` of the jet are `Spec.Covd.lieDD …`, the generated `DDalpha`;
  `trace_gup4`                  `g^{ab}T_ab = S − ρ` for the code's projections (`NormalOK`);
  `ricci4_spatial_of_einstein`  Einstein's equations ⟹ `⁴R_ij = Λγ_ij + κ(T_ij − ½(S − ρ)γ_ij)`;
  `dtKdown_of_einstein[_vacuum]` the ADM evolution equation `ADM.dtKdown` with the code's matter terms;
  `gaussCodazzi_textbook`       the hypotheses (S), (G), (C) of Props/C06c.lean hold for the textbook Riemann tensor of the jet.
-/
import AurelVerif.Props.C06d
import AurelVerif.Props.C06c
import AurelVerif.Props.C04b
import AurelVerif.Lemmas.C06RicciEq

set_option linter.unusedSimpArgs false
set_option linter.unusedVariables false
set_option linter.unusedTactic false
set_option linter.unreachableTactic false
set_option linter.unusedSectionVars false

namespace AurelVerif.C06L
open AurelVerif.Gen.Core AurelVerif.Tensor AurelVerif.CoreTac AurelVerif.C08 AurelVerif.Spec
open AurelVerif.Spec.Curvature (JetC Jet ricciDown trace einstein KK3 RiemannSym tsplit ricciOfMatter)
open AurelVerif.C04L AurelVerif.C06

variable {K : Type} [Field K]

/-- Ricci tensor of the textbook Riemann tensor of the assembled metric at the grid point. -/
def ricci4Of (e : Env K) (T : TimeJet2 K) : Fin 4 → Fin 4 → K :=
  ricciDown (gup4 e) ((jetCOf e T).riem4 (gup4 e))

/-- **on shell**: Einstein's equations `G_ab + Λ g_ab = κ T_ab` with the supplied `Tdown4`, `Lambda`, `kappa` hold at the grid
point, `G_ab`, `R_ab`, `R` of the textbook Riemann tensor of the assembled metric (same statement as `C01Coherence.OnShell`,
hypothesis `hE` of `C04.st_Ricci_down3_of_einstein`). -/
def OnShell (e : Env K) (T : TimeJet2 K) : Prop :=
  ∀ a b, einstein (ricci4Of e T) (trace (gup4 e) (ricci4Of e T)) e.gdown4 a b + e.Lambda * e.gdown4 a b
    = e.kappa * e.Tdown4 a b

/-- **vacuum, on shell**: `G_ab = 0`. -/
def OnShellVac (e : Env K) (T : TimeJet2 K) : Prop :=
  ∀ a b, einstein (ricci4Of e T) (trace (gup4 e) (ricci4Of e T)) e.gdown4 a b = 0

/-- the table `∂_tK_ij = dtKd i j` is the one for which `∂_t∂_tγ_ij` (`T.dttgam`) is the Leibniz t-derivative of the kinematic
relation. -/
def IsDtK (e : Env K) (T : TimeJet2 K) (dtKd : Fin 3 → Fin 3 → K) : Prop :=
  ∀ i j, T.dttgam i j = (jetCOf e T).dttgamOf dtKd i j

/-- `L_βK_ij` of the jet in the vocabulary of Spec/ADM.lean. -/
theorem lieK_code (e : Env K) (T : TimeJet2 K) (i j : Fin 3) :
    (jetCOf e T).lieK i j = Covd.lieDD e.betaup3 (dβ e) (Covd.pd2 e.D e.Kdown3) e.Kdown3 i j := by
  simp only [JetC.lieK, Covd.lieDD, dβ, Covd.pd2, jetCOf, jetOf, Fin.sum_univ_three]
  ring

/-- `D_iD_jα` of the jet is the generated `DDalpha`. -/
theorem DDa_code (e : Env K) (T : TimeJet2 K) (i j : Fin 3) : (jetCOf e T).DDa i j = DDalpha e i j := by
  simp only [JetC.DDa, jetCOf, jetOf, tsplit_succ]
  revert i j
  cases3 <;> cases3 <;> (simp only [core_unfold, Fin.sum_univ_three]; ring)

/-- `g^{ab}T_ab = γ^{ij}T_ij − T_ab n^a n^b` for any `T` (projector `γ^{ab} = g^{ab} + n^an^b` with vanishing time components). -/
theorem trace_gup4 (e : Env K) (hN : NormalOK e) (S : Fin 4 → Fin 4 → K) :
    trace e.gup4 S = ADM.stressTrace e.gammaup3 S - ADM.rhoN S e.nup4 := by
  have hg : ∀ a b, e.gup4 a b = e.gammaup4 a b - e.nup4 a * e.nup4 b := by
    intro a b; rw [hN.proj]; ring
  have t0 := fun μ => (hN.time μ).1
  have t1 := fun μ => (hN.time μ).2
  have s00 := hN.space 0 0; have s01 := hN.space 0 1; have s02 := hN.space 0 2
  have s10 := hN.space 1 0; have s11 := hN.space 1 1; have s12 := hN.space 1 2
  have s20 := hN.space 2 0; have s21 := hN.space 2 1; have s22 := hN.space 2 2
  simp only [succ3_0, succ3_1, succ3_2] at s00 s01 s02 s10 s11 s12 s20 s21 s22
  simp only [trace, hg, ADM.stressTrace, ADM.stressN, ADM.rhoN, Fin.sum_univ_four, Fin.sum_univ_three, t0, t1, s00, s01,
    s02, s10, s11, s12, s20, s21, s22, succ3_0, succ3_1, succ3_2]
  ring

variable {e : Env K} {T : TimeJet2 K}

/-- the spatial block of the assembled metric is `γ_ij`. -/
theorem gdown4_spatial (H : CurvHyp e T) (i j : Fin 3) : e.gdown4 i.succ j.succ = e.gammadown3 i j := by
  rw [H.asm.hg4]; exact (gdown4_layout e).2.2 i j

/-- **Einstein's equations give the spatial block of the 4-Ricci tensor** in 3+1 variables:
`⁴R_ij = Λγ_ij + κ(T_ij − ½(S − ρ)γ_ij)`, `ρ = T_ab n^a n^b`, `S = γ^{ij}T_ij`. -/
theorem ricci4_spatial_of_einstein (H : CurvHyp e T) (hN : NormalOK e) (hgup : e.gup4 = gup4 e) (hE : OnShell e T)
    (i j : Fin 3) :
    ricci4Of e T i.succ j.succ
      = e.Lambda * e.gammadown3 i j
        + e.kappa * (e.Tdown4 i.succ j.succ
            - (1 / 2) * (ADM.stressTrace e.gammaup3 e.Tdown4 - ADM.rhoN e.Tdown4 e.nup4) * e.gammadown3 i j) := by
  have h := Jet.ricci_of_einstein H.lc.two (gup4 e) e.gdown4 (ricci4Of e T) e.Tdown4 e.Lambda e.kappa H.trace_g hE
    i.succ j.succ
  rw [h, ← hgup, trace_gup4 e hN e.Tdown4]
  simp only [ricciOfMatter, gdown4_spatial H]

/-- vacuum: `G_ab = 0` gives `R_ab = 0`. -/
theorem ricci4_zero_of_vacuum (H : CurvHyp e T) (hE : OnShellVac e T) (a b : Fin 4) : ricci4Of e T a b = 0 := by
  have h := Jet.ricci_of_einstein H.lc.two (gup4 e) e.gdown4 (ricci4Of e T) (fun _ _ => 0) 0 0 H.trace_g
    (fun a b => by rw [hE a b]; ring) a b
  rw [h]; simp only [ricciOfMatter]; ring

/-- `ADM.dtKdown` is the geometric right-hand side with `⁴R_ij = Λγ_ij + κ(S_ij − ½(S − ρ)γ_ij)` (symmetric `K_ij`). -/
theorem dtKdown_geometric (β : Fin 3 → K) (dβ' : Fin 3 → Fin 3 → K) (dKd : Fin 3 → Fin 3 → Fin 3 → K)
    (Kd γ γup DDα Ric Sdn : Fin 3 → Fin 3 → K) (α Ktr κ ρ S Λ : K) (hK : ∀ i j, Kd i j = Kd j i) (i j : Fin 3) :
    ADM.dtKdown β dβ' dKd Kd γ γup DDα Ric Sdn α Ktr κ ρ S Λ i j
      = -DDα i j
        + α * (Ric i j - 2 * KK3 γup Kd i j + Kd i j * Ktr
            - (Λ * γ i j + κ * (Sdn i j - (1 / 2) * (S - ρ) * γ i j)))
        + Covd.lieDD β dβ' dKd Kd i j := by
  have s0 := hK 0 j; have s1 := hK 1 j; have s2 := hK 2 j
  simp only [ADM.dtKdown, KK3, Fin.sum_univ_three, s0, s1, s2]
  ring

/-- **the ADM evolution equation of `K_ij` from Einstein's equations**, code vocabulary, `vacuum = False`:
`Ric` = the contraction `γ^{ac}R_abcd` of the cached `s_Riemann_down3`, matter terms = the cached projections. -/
theorem dtKdown_of_einstein (H : CurvHyp e T) (hN : NormalOK e) (hgup : e.gup4 = gup4 e) (hDD : e.DDalpha = DDalpha e)
    (hKt : e.Ktrace = Ktrace e) (hρ : e.rho_n = ADM.rhoN e.Tdown4 e.nup4)
    (hS : e.Stresstrace_n = ADM.stressTrace e.gammaup3 e.Tdown4)
    (hSd : ∀ i j : Fin 3, e.Stressdown3_n i j = e.Tdown4 i.succ j.succ)
    (hE : OnShell e T) (dtKd : Fin 3 → Fin 3 → K) (hT : IsDtK e T dtKd) (i j : Fin 3) :
    dtKd i j = ADM.dtKdown e.betaup3 (dβ e) (Covd.pd2 e.D e.Kdown3) e.Kdown3 e.gammadown3 e.gammaup3 e.DDalpha
        (ricciDown e.gammaup3 e.s_Riemann_down3) e.Stressdown3_n e.alpha e.Ktrace e.kappa e.rho_n e.Stresstrace_n
        e.Lambda i j := by
  have h1 := JetC.adm_of_ricci (jetCOf e T) H.lc H.smooth (gup4 e) H.hinv dtKd hT
    (fun i j => ricci4Of e T i.succ j.succ) (fun _ _ => rfl) i j
  have hr3 : (jetCOf e T).riem3 = e.s_Riemann_down3 := by funext a b c d; exact (H.riem3 a b c d).symm
  have hK : e.Ktrace = ∑ k, ∑ l, e.gammaup3 k l * e.Kdown3 k l := by rw [hKt]; exact Ktrace_spec e
  rw [h1, dtKdown_geometric _ _ _ e.Kdown3 _ _ _ _ _ _ _ _ _ _ _ (show ∀ i j, e.Kdown3 i j = e.Kdown3 j i from H.lc.symK) i j]
  simp only [JetC.admRHS, DDa_code, lieK_code, hr3, ricci4_spatial_of_einstein H hN hgup hE, hDD, hρ, hS, hSd, hK]
  rfl

/-- the same with `vacuum = True` (`G_ab = 0`): the vacuum ADM equation (`κ = ρ = S_ij = Λ = 0`). -/
theorem dtKdown_of_einstein_vacuum (H : CurvHyp e T) (hDD : e.DDalpha = DDalpha e) (hKt : e.Ktrace = Ktrace e)
    (hE : OnShellVac e T) (dtKd : Fin 3 → Fin 3 → K) (hT : IsDtK e T dtKd) (i j : Fin 3) :
    dtKd i j = ADM.dtKdown e.betaup3 (dβ e) (Covd.pd2 e.D e.Kdown3) e.Kdown3 e.gammadown3 e.gammaup3 e.DDalpha
        (ricciDown e.gammaup3 e.s_Riemann_down3) (fun _ _ => 0) e.alpha e.Ktrace 0 0 0 0 i j := by
  have h1 := JetC.adm_of_ricci (jetCOf e T) H.lc H.smooth (gup4 e) H.hinv dtKd hT
    (fun i j => ricci4Of e T i.succ j.succ) (fun _ _ => rfl) i j
  have hr3 : (jetCOf e T).riem3 = e.s_Riemann_down3 := by funext a b c d; exact (H.riem3 a b c d).symm
  have hK : e.Ktrace = ∑ k, ∑ l, e.gammaup3 k l * e.Kdown3 k l := by rw [hKt]; exact Ktrace_spec e
  rw [h1, dtKdown_geometric _ _ _ e.Kdown3 _ _ _ _ _ _ _ _ _ _ _ (show ∀ i j, e.Kdown3 i j = e.Kdown3 j i from H.lc.symK) i j]
  simp only [JetC.admRHS, DDa_code, lieK_code, hr3, ricci4_zero_of_vacuum H hE, hDD, hK, zero_mul, mul_zero, sub_zero,
    add_zero, sub_self]
  rfl

/-- the textbook Riemann tensor of the jet has the Riemann symmetries (with the code's inverse metric). -/
theorem riem4_code_sym (H : CurvHyp e T) : RiemannSym ((jetCOf e T).riem4 (gup4 e)) := by
  have hg : gup4 e = (jetCOf e T).gup3p1 := by funext a b; exact H.gup a b
  rw [hg]; exact JetC.riem4_sym (jetCOf e T) H.lc H.smooth

/-- **(S), (G), (C) of Props/C06c.lean hold for the textbook Riemann tensor of the jet**: pair antisymmetries, the GAUSS equation
with `³R` = the cached `s_Riemann_down3`, the CODAZZI equation with `D_cK_ab` the covariant derivative of the cached `Kdown3`
with the cached connection (C04b: `gauss_offshell`, `codazzi_offshell`). -/
theorem gaussCodazzi_textbook (H : CurvHyp e T) (hn : e.nup4 = nup4 e) :
    GaussCodazzi e ((jetCOf e T).riem4 (gup4 e)) e.s_Riemann_down3
      (Covd.covdDD e.s_Gamma_udd3 (Covd.pd2 e.D e.Kdown3) e.Kdown3) := by
  have hs := riem4_code_sym H
  refine ⟨hs.anti12, hs.anti34, fun i j k l => (H.gauss_code i j k l).symm, ?_⟩
  refine C06Gauss.codazzi_normal_of_coord _ e.nup4 e.alpha e.betaup3 _ H.lc.ha (by rw [hn]; rfl)
    (fun i => by rw [hn]; exact nup4_succ e i) (fun i j k => ?_)
  rw [← H.codazzi_code i j k]
  have hA : (fun i j k l : Fin 3 => (jetCOf e T).riem4 (gup4 e) i.succ j.succ k.succ l.succ) = RssssE e := by
    funext i j k l; exact (H.gauss_code i j k l).symm
  rw [hA]
  rfl

/-! ### cached entries produced by the code's own formulas -/

/-- geometric entries read by the constraints / dt-keys, produced by the code's own formulas. -/
structure AdmCached (e : Env K) : Prop where
  hu : e.gammaup3 = gammaup3 e
  hgup : e.gup4 = gup4 e
  hn : e.nup4 = nup4 e
  hγ4 : e.gammaup4 = gammaup4 e
  hDD : e.DDalpha = DDalpha e
  hKt : e.Ktrace = Ktrace e
  hKup : e.Kup3 = Kup3 e

/-- Eulerian projections of `Tdown4`, produced by the code's own formulas. -/
structure MatterCached (e : Env K) : Prop where
  hρ : e.rho_n = rho_n e
  hS : e.Stresstrace_n = Stresstrace_n e
  hSu : e.Stressup3_n = Stressup3_n e
  hSd : e.Stressdown3_n = Stressdown3_n e
  hflux : e.fluxup3_n = fluxup3_n e

theorem AdmCached.normalOK (C : AdmCached e) (H : CurvHyp e T) : NormalOK e :=
  normalOK_of_code e H.asm H.hgd C.hu H.lc.ha H.hdet C.hgup C.hn C.hγ4

theorem symU_of (H : CurvHyp e T) : Sym e.gammaup3 := fun i j => Jet.gamup_symm (jetOf e) H.lc i j
theorem symK_of (H : CurvHyp e T) : Sym e.Kdown3 := H.lc.symK
theorem hUG_of (H : CurvHyp e T) (i k : Fin 3) : ∑ j, e.gammaup3 i j * e.gammadown3 j k = delta i k :=
  (Jet.gamup_facts (jetOf e) H.lc).1 i k
theorem hGU_of (H : CurvHyp e T) (i k : Fin 3) : ∑ j, e.gammadown3 i j * e.gammaup3 j k = delta i k :=
  Jet.gam_mul_gamup (jetOf e) H.lc i k

theorem MatterCached.rho (M : MatterCached e) : e.rho_n = ADM.rhoN e.Tdown4 e.nup4 := by
  rw [M.hρ]; exact rho_n_spec e

theorem MatterCached.strace (M : MatterCached e) (H : CurvHyp e T) :
    e.Stresstrace_n = ADM.stressTrace e.gammaup3 e.Tdown4 := by
  rw [M.hS]; exact (Stress_spec e (symU_of H) H.asm.hsym 0 0).2.1

theorem MatterCached.sdown (M : MatterCached e) (H : CurvHyp e T) (i j : Fin 3) :
    e.Stressdown3_n i j = e.Tdown4 i.succ j.succ := by
  rw [M.hSd]; exact Stressdown3_n_is_T e M.hSu (hUG_of H) i j

theorem MatterCached.strace' (M : MatterCached e) (H : CurvHyp e T) :
    e.Stresstrace_n = ∑ i, ∑ j, e.gammaup3 i j * e.Stressdown3_n i j := by
  rw [M.strace H]; simp only [ADM.stressTrace, ADM.stressN, M.sdown H]

/-- `OnShell` in the vocabulary of Props/C06c.lean. -/
theorem einsteinEq_of_onShell (hgup : e.gup4 = gup4 e) (hE : OnShell e T) :
    GC.EinsteinEq (GC.einstein4 e.gup4 e.gdown4 ((jetCOf e T).riem4 (gup4 e))) e.gdown4 e.Tdown4 e.Lambda e.kappa := by
  intro μ ν; rw [hgup]; exact hE μ ν

theorem einstein4_zero_of_onShellVac (hgup : e.gup4 = gup4 e) (hE : OnShellVac e T) (μ ν : Fin 4) :
    GC.einstein4 e.gup4 e.gdown4 ((jetCOf e T).riem4 (gup4 e)) μ ν = 0 := by
  rw [hgup]; exact hE μ ν

/-- the Ricci scalar the code computes is the double contraction of the cached `s_Riemann_down3` when `s_Ricci_down3` is its
contraction (either alternative of `s_Ricci_down3`: `C05.s_Ricci_down3_alt_raw`, `C05L.s_Ricci_down3_dflt_via_down`). -/
theorem ricciS_cached (hRS : e.s_RicciS = s_RicciS e)
    (hRic3 : ∀ i j, e.s_Ricci_down3 i j = ricciDown e.gammaup3 e.s_Riemann_down3 i j) :
    e.s_RicciS = GC.ricciS3 e.gammaup3 e.s_Riemann_down3
    ∧ e.s_RicciS = ∑ i, ∑ j, e.gammaup3 i j * ricciDown e.gammaup3 e.s_Riemann_down3 i j := by
  rw [hRS, C05L.s_RicciS_spec]
  simp only [Covd.ricciS, hRic3, ricciDown, GC.ricciS3, and_self]

/-! ### operator form: `∂_t` as a derivation on values -/

/-- the second derivatives involving time, from an operator `Dt` on values (`∂_t∂_cα = Dt(∂_cα)`, …). -/
def timeJet2Of (e : Env K) (Dt : K → K) : TimeJet2 K where
  ddta := tsplit (Dt e.dtalpha) fun i => Dt (e.D i e.alpha)
  ddtb := tsplit (fun m => Dt (e.dtbetaup3 m)) fun i m => Dt (e.D i (e.betaup3 m))
  dttgam := fun i j => Dt (Dt (e.gammadown3 i j))

/-- **`∂_tK_ij = Dt K_ij`**: for additive operators `Dt`, `e.D s` obeying the product rule, `Dt` commuting with `e.D s`,
`Dt α = dtalpha`, `Dt β^m = dtbetaup3`, and the kinematic relation for `Dt γ_ij`, the second time derivative `Dt(Dt γ_ij)` is the
Leibniz t-derivative of the kinematic relation with `∂_tK_ij = Dt K_ij`. -/
theorem isDtK_of_deriv (e : Env K) (Dt : K → K) (hDt : C06Deriv.Deriv Dt) (hD : ∀ s, C06Deriv.Deriv (e.D s))
    (lc : (jetOf e).LeviCivita) (hct : ∀ s x, Dt (e.D s x) = e.D s (Dt x))
    (hα : Dt e.alpha = e.dtalpha) (hβ : ∀ m, Dt (e.betaup3 m) = e.dtbetaup3 m)
    (hkin : ∀ i j : Fin 3, Dt (e.gammadown3 i j) = -2 * e.alpha * e.Kdown3 i j
        + Covd.lieDD e.betaup3 (dβ e) (Covd.pd2 e.D e.gammadown3) e.gammadown3 i j) :
    IsDtK e (timeJet2Of e Dt) (fun i j => Dt (e.Kdown3 i j)) := by
  intro j k
  have hDt' : C04L.Deriv Dt := ⟨hDt.add, hDt.mul⟩
  have hD' : ∀ s, C04L.Deriv (e.D s) := fun s => ⟨(hD s).add, (hD s).mul⟩
  -- the kinematic relation in the Lie form of `Jet.lieGam`
  have hlie : ∀ a b : Fin 3, Dt (e.gammadown3 a b)
      = -(2 * e.alpha * e.Kdown3 a b) + (jetOf e).lieGam a b := by
    intro a b
    rw [hkin a b]
    simp only [Jet.lieGam, Covd.lieDD, dβ, Covd.pd2, jetOf, Fin.sum_univ_three]
    ring
  have hdtg : ∀ a b : Fin 3, Dt (e.gammadown3 a b) = (jetOf e).dtgam a b := by
    intro a b; rw [hlie a b]; exact (Jet.dtgam_lie (jetOf e) lc a b).symm
  have hddt : ∀ m a b : Fin 3, Dt (e.D m (e.gammadown3 a b)) = (jetCOf e (timeJet2Of e Dt)).ddtgam m a b := by
    intro m a b
    rw [hct, hlie a b]
    exact C04.ddtgam_is_derivative (jetCOf e (timeJet2Of e Dt)) (hD' m) m a b rfl (fun _ => rfl) (fun _ _ => rfl) rfl
      (fun _ _ _ => rfl) (fun l m' => by simp only [jetCOf, jetOf, tsplit_succ])
  show Dt (Dt (e.gammadown3 j k)) = _
  rw [hlie j k]
  unfold Jet.lieGam
  rw [C04L.deriv_kinematic hDt']
  simp only [JetC.dttgamOf, JetC.dtLieGam]
  have e1 : ∀ m, Dt ((jetOf e).beta m) = (jetCOf e (timeJet2Of e Dt)).dtb m := fun m => hβ m
  have e2 : ∀ m a b, Dt ((jetOf e).dgam m a b) = (jetCOf e (timeJet2Of e Dt)).ddtgam m a b := fun m a b => hddt m a b
  have e3 : ∀ a b, Dt ((jetOf e).gam a b) = (jetCOf e (timeJet2Of e Dt)).dtgam a b := fun a b => hdtg a b
  have e4 : ∀ l m, Dt ((jetOf e).db l m) = (jetCOf e (timeJet2Of e Dt)).ddb 0 l.succ m := by
    intro l m; simp only [jetCOf, jetOf, timeJet2Of, Curvature.tsplit_0, tsplit_succ]
  simp only [e1, e2, e3, e4, hα]
  rfl

theorem symT_timeJet2Of (e : Env K) (Dt : K → K) (hs : Sym e.gammadown3) (i j : Fin 3) :
    (timeJet2Of e Dt).dttgam i j = (timeJet2Of e Dt).dttgam j i := by
  show Dt (Dt (e.gammadown3 i j)) = Dt (Dt (e.gammadown3 j i)); rw [hs i j]

end AurelVerif.C06L
