/-
Lemmas/C01Loc.lean — property C01, extension round 6: LOCALITY of generated definitions.  A generated definition
`X e` mentions the environment `e` only through the fields it looks up (its direct dependencies and the non-key fields
`D`, `kappa`, …).  Each lemma states this for one definition: two environments that agree on those fields give the same
value.  They connect the return-site formulas of `Gen/C01Table.lean` (which apply `X` to an environment holding ONLY
the values read on the way) with the single environment `E` of the denotation (Props/C01TabG.lean).
The proofs unfold the generated text (`core_unfold`); if core.py starts to look up another field the lemma fails.
-/
import AurelVerif.Gen.C01Table
import AurelVerif.Lemmas.CoreTac

set_option linter.unusedSimpArgs false
set_option linter.unusedVariables false

namespace AurelVerif.C01Loc
open AurelVerif.Gen.Core AurelVerif.Tensor AurelVerif.CoreTac AurelVerif.Gen.C01Table

variable {K : Type} [Field K]

theorem envOf_D (base : Env K) (g : Nat → Val K) : (envOf base g).D = base.D := rfl
theorem envOf_kappa (base : Env K) (g : Nat → Val K) : (envOf base g).kappa = base.kappa := rfl
theorem envOf_Lambda (base : Env K) (g : Nat → Val K) : (envOf base g).Lambda = base.Lambda := rfl

theorem loc_s_Riemann_uddd3 (e e' : Env K) (h1 : e.s_Gamma_udd3 = e'.s_Gamma_udd3) (hD : e.D = e'.D) :
    s_Riemann_uddd3 e = s_Riemann_uddd3 e' := by
  simp only [core_unfold, h1, hD]

theorem loc_s_Riemann_down3 (e e' : Env K) (h1 : e.s_Riemann_uddd3 = e'.s_Riemann_uddd3)
    (h2 : e.gammadown3 = e'.gammadown3) : s_Riemann_down3 e = s_Riemann_down3 e' := by
  simp only [core_unfold, h1, h2]

theorem loc_s_Ricci_down3_alt (e e' : Env K) (h1 : e.s_Riemann_down3 = e'.s_Riemann_down3)
    (h2 : e.gammaup3 = e'.gammaup3) : s_Ricci_down3__s_Riemann_down3 e = s_Ricci_down3__s_Riemann_down3 e' := by
  simp only [core_unfold, h1, h2]

theorem loc_s_Ricci_down3_dflt (e e' : Env K) (h1 : e.s_Gamma_udd3 = e'.s_Gamma_udd3) (hD : e.D = e'.D) :
    s_Ricci_down3__dflt e = s_Ricci_down3__dflt e' := by
  simp only [core_unfold, h1, hD]

theorem loc_gup4 (e e' : Env K) (h1 : e.gdown4 = e'.gdown4) : gup4 e = gup4 e' := by
  simp only [core_unfold, h1]

theorem loc_gammaup3 (e e' : Env K) (h1 : e.gammadown3 = e'.gammadown3) : gammaup3 e = gammaup3 e' := by
  simp only [core_unfold, h1]

theorem loc_gammaup4 (e e' : Env K) (h1 : e.gammaup3 = e'.gammaup3) : gammaup4 e = gammaup4 e' := by
  simp only [core_unfold, h1]

theorem loc_nup4 (e e' : Env K) (h1 : e.betaup3 = e'.betaup3) (h2 : e.alpha = e'.alpha) : nup4 e = nup4 e' := by
  simp only [core_unfold, h1, h2]

theorem loc_rho_n (e e' : Env K) (h1 : e.Tdown4 = e'.Tdown4) (h2 : e.nup4 = e'.nup4) : rho_n e = rho_n e' := by
  simp only [core_unfold, h1, h2]

theorem loc_press_n (e e' : Env K) (h1 : e.gammaup3 = e'.gammaup3) (h2 : e.Tdown4 = e'.Tdown4) :
    press_n e = press_n e' := by
  simp only [core_unfold, h1, h2]

theorem loc_Ttrace_dflt (e e' : Env K) (h1 : e.press_n = e'.press_n) (h2 : e.rho_n = e'.rho_n) :
    Ttrace__dflt e = Ttrace__dflt e' := by
  simp only [core_unfold, h1, h2]

theorem loc_Ttrace_Tdown4 (e e' : Env K) (h1 : e.Tdown4 = e'.Tdown4) (h2 : e.gup4 = e'.gup4) :
    Ttrace__Tdown4 e = Ttrace__Tdown4 e' := by
  simp only [core_unfold, h1, h2]

end AurelVerif.C01Loc
