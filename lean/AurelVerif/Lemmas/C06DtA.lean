/-
Lemmas/C06DtA.lean — Layer B (consistency) lemma of property C06 for `dtAdown3_bssnok`:
the BSSNOK right-hand side of `∂_tÃ_ij` ([BS] (11.38), [A] (2.8.11)) IS the t-derivative of
`Ã_ij = ψ⁻⁴ (K_ij − γ_ij K/3)` when

  * `∂_tγ_ij = −2αK_ij + L_βγ_ij`                          (kinematic relation),
  * `∂_tK_ij` obeys the ADM evolution equation [BS] (2.135) with Λ (`ADM.dtKdown`),
  * `∂_tφ = −αK/6 + β^k∂_kφ + ∂_kβ^k/6`                     (`ADM.dtPhi`, derived in `dt_logdet`),
  * `∂_tγ^ij = L_βγ^ij + 2αK^ij`                            (`ADM.dtGammaUp`, derived in `dt_inverse_metric`),
  * `∂_t`, `∂_s` of `K = γ^ij K_ij`, of `p = ψ⁻⁴` (`∂p = −4p∂φ`) and of `Ã_ij = p (K_ij − γ_ij K/3)` are
    what the product rule gives,
  * `γ^ij` is the two-sided inverse of `γ_ij`, `γ̃^ij = p⁻¹ γ^ij`, all symmetric.

NO constraint is used (the Hamiltonian constraint enters `∂_tK` only when the Ricci scalar is eliminated;
here `∂_tK` is taken as `∂_t(γ^ij K_ij)` by the product rule).  Pure index algebra over a field; derivatives
enter as VALUES (jets) exactly as in Lemmas/C06Deriv.lean.
-/
import AurelVerif.Lemmas.C06Deriv

set_option linter.unusedSimpArgs false
set_option linter.unusedVariables false

namespace AurelVerif.C06Deriv
open AurelVerif.Tensor AurelVerif.CoreTac AurelVerif.C08 AurelVerif.Spec.Covd AurelVerif.Spec

variable {K : Type} [Field K]

/-- `d (c x) = c d x` for the constant `c = 1/3`. -/
theorem Deriv.third {d : K → K} (h : Deriv d) (h3 : (3 : K) ≠ 0) (x : K) : d ((1 / 3) * x) = (1 / 3) * d x := by
  have hn : d (3 : K) = 0 := by simpa using h.natCast 3
  rw [h.mul, one_div, h.inv_const 3 h3 hn, zero_mul, zero_add]

/-! ### contraction with `γ γ⁻¹ = 1` -/

/-- `Σ_kl G_ik U_kl X_l = X_i` when `Σ_k G_ik U_kl = δ_il`. -/
theorem contract_GU (G U : Fin 3 → Fin 3 → K) (hGU : ∀ i k : Fin 3, ∑ j, G i j * U j k = delta i k)
    (X : Fin 3 → K) (i : Fin 3) : ∑ k, ∑ l, G i k * U k l * X l = X i := by
  have key : ∑ k, ∑ l, G i k * U k l * X l = ∑ l, (∑ k, G i k * U k l) * X l := by
    simp only [Fin.sum_univ_three]; ring
  rw [key]
  simp only [hGU, delta]
  simp [Finset.sum_ite_eq]

/-- `Σ_kl X_k U_kl G_lj = X_j` when `Σ_l U_kl G_lj = δ_kj`. -/
theorem contract_UG (G U : Fin 3 → Fin 3 → K) (hUG : ∀ i k : Fin 3, ∑ j, U i j * G j k = delta i k)
    (X : Fin 3 → K) (j : Fin 3) : ∑ k, ∑ l, X k * U k l * G l j = X j := by
  have key : ∑ k, ∑ l, X k * U k l * G l j = ∑ k, X k * (∑ l, U k l * G l j) := by
    simp only [Fin.sum_univ_three]; ring
  rw [key]
  simp only [hUG, delta]
  simp [Finset.sum_ite_eq']

/-- `γ^ij γ_ij = 3`. -/
theorem trace_UG (G U : Fin 3 → Fin 3 → K) (hsymG : Sym G)
    (hUG : ∀ i k : Fin 3, ∑ j, U i j * G j k = delta i k) : ∑ i, ∑ j, U i j * G i j = 3 := by
  have h : ∑ i : Fin 3, ∑ j : Fin 3, U i j * G j i = 3 := by
    simp only [hUG, delta]; simp
  have g01 := hsymG 1 0; have g02 := hsymG 2 0; have g12 := hsymG 2 1
  simp only [Fin.sum_univ_three, g01, g02, g12] at h ⊢
  linear_combination h

/-- **`A_ik γ^kl A_lj`** for `A_ij = K_ij − γ_ij K/3`:
`= K_ik γ^kl K_lj − (2/3) K K_ij + (1/9) K² γ_ij`  (two-sided inverse). -/
theorem AUA_closed (G U Kd : Fin 3 → Fin 3 → K) (T : K)
    (hUG : ∀ i k : Fin 3, ∑ j, U i j * G j k = delta i k)
    (hGU : ∀ i k : Fin 3, ∑ j, G i j * U j k = delta i k) (i j : Fin 3) :
    ∑ k, ∑ l, (Kd i k - (1 / 3) * G i k * T) * U k l * (Kd l j - (1 / 3) * G l j * T)
      = (∑ k, ∑ l, Kd i k * U k l * Kd l j) - (2 / 3) * T * Kd i j + (1 / 3) ^ 2 * T ^ 2 * G i j := by
  have c1 := contract_GU G U hGU (fun l => Kd l j) i
  have c2 := contract_UG G U hUG (fun k => Kd i k) j
  have c3 := contract_GU G U hGU (fun l => G l j) i
  simp only [Fin.sum_univ_three] at c1 c2 c3 ⊢
  linear_combination (-(1 / 3) * T) * c1 + (-(1 / 3) * T) * c2 + ((1 / 3) ^ 2 * T ^ 2) * c3

/-- `γ^kl (K_ka γ^ab K_bl) = K_ij K^ij` (symmetric `γ^ij`, `K_ij`). -/
theorem trace_KUK (U Kd Ku : Fin 3 → Fin 3 → K) (hsymU : Sym U) (hsymK : Sym Kd)
    (hKu : ∀ a b, Ku a b = ∑ i, ∑ j, U i a * U j b * Kd i j) :
    ∑ k, ∑ l, U k l * (∑ a, ∑ b, Kd k a * U a b * Kd b l) = ∑ i, ∑ j, Kd i j * Ku i j := by
  have u01 := hsymU 1 0; have u02 := hsymU 2 0; have u12 := hsymU 2 1
  have k01 := hsymK 1 0; have k02 := hsymK 2 0; have k12 := hsymK 2 1
  simp only [hKu, Fin.sum_univ_three, u01, u02, u12, k01, k02, k12]
  ring

/-! ### the density-weighted Lie derivative of `p·A` -/

/-- **product rule + density weight**: for `Ã = pA`, `∂_sÃ = p∂_sA + (∂_sp)A`, `∂p = −4p∂φ` and
`∂_tφ = −αK/6 + β^k∂_kφ + ∂_kβ^k/6`:
`L_βÃ_ij − (2/3)Ã_ij∂_kβ^k = p L_βA_ij + (∂_tp) A_ij − (2/3)αK p A_ij`. -/
theorem lie_weighted_conformal (A At : Fin 3 → Fin 3 → K) (dA dAt : Fin 3 → Fin 3 → Fin 3 → K)
    (β : Fin 3 → K) (dβ : Fin 3 → Fin 3 → K) (dφ : Fin 3 → K) (α Ktr dtφ p : K) (h2 : (2 : K) ≠ 0) (h3 : (3 : K) ≠ 0)
    (hAt : ∀ a b, At a b = p * A a b)
    (hds : ∀ s a b, dAt s a b = p * dA s a b + (-4 * p * dφ s) * A a b)
    (hφ : dtφ = ADM.dtPhi β dφ dβ α Ktr) (i j : Fin 3) :
    lieDD β dβ dAt At i j - (2 / 3) * divβ dβ * At i j
      = p * lieDD β dβ dA A i j + (-4 * p * dtφ) * A i j - (2 / 3) * α * Ktr * p * A i j := by
  have h6 : (6 : K) ≠ 0 := by rw [show (6 : K) = 2 * 3 by norm_num]; exact mul_ne_zero h2 h3
  simp only [ADM.dtPhi, lieDD, lie0, divβ, hAt, hds, hφ, Fin.sum_univ_three]
  field_simp
  ring

/-! ### `(∂_t − L_β)` of the trace `K = γ^ij K_ij` -/

/-- with `∂_tγ^ij = L_βγ^ij + 2αK^ij` and the product rule for `∂_tK`, `∂_sK`:
`∂_tK − β^s∂_sK = γ^ij (∂_tK_ij − L_βK_ij) + 2α K_ij K^ij`  (the shift-gradient terms cancel identically). -/
theorem dt_minus_lie_trace (U Kd Ku dtU dtKd : Fin 3 → Fin 3 → K) (dU dKd : Fin 3 → Fin 3 → Fin 3 → K)
    (β : Fin 3 → K) (dβ : Fin 3 → Fin 3 → K) (dKtr : Fin 3 → K) (α dtKtr : K)
    (hdK : ∀ s, dKtr s = ∑ i, ∑ j, (dU s i j * Kd i j + U i j * dKd s i j))
    (hdtU : ∀ i j, dtU i j = ADM.dtGammaUp β dβ dU U α Ku i j)
    (hdtK : dtKtr = ∑ i, ∑ j, (dtU i j * Kd i j + U i j * dtKd i j)) :
    dtKtr - lie0 β dKtr
      = (∑ i, ∑ j, U i j * (dtKd i j - lieDD β dβ dKd Kd i j)) + 2 * α * ∑ i, ∑ j, Kd i j * Ku i j := by
  simp only [hdtK, hdK, hdtU, ADM.dtGammaUp, lie0, lieUU, lieDD, Fin.sum_univ_three]
  ring

/-! ### the algebraic core -/

/-- scalar assembly of the trace-free part (all contractions named). -/
theorem dtA_assemble (tfF Fij UF KUKij Kdij Gij Aij AUAij Ktr KKu trKUK UGtr UE Eij c α : K) (h3 : (3 : K) ≠ 0)
    (hA : Aij = Kdij - (1 / 3) * Gij * Ktr)
    (hAUA : AUAij = KUKij - (2 / 3) * Ktr * Kdij + (1 / 3) ^ 2 * Ktr ^ 2 * Gij)
    (htf : tfF = Fij - (1 / 3) * Gij * UF)
    (hE : Eij = Fij + α * (-2 * KUKij + Ktr * Kdij) + c * Gij)
    (hUE : UE = UF + α * (-2 * trKUK + Ktr * Ktr) + c * UGtr)
    (hUG : UGtr = 3) (htr : trKUK = KKu) :
    tfF + α * (Ktr * Aij - 2 * AUAij) - (2 / 3) * α * Ktr * Aij
      = Eij + (2 / 3) * α * Ktr * Kdij - (1 / 3) * Gij * (UE + 2 * α * KKu) := by
  rw [hA, hAUA, htf, hE, hUE, hUG, htr]
  field_simp
  ring

/-- **∂_t of Ã_ij = p (K_ij − γ_ij K/3)**, `p = ψ⁻⁴ = e^{−4φ}`.  Hypotheses: see the file header.  `q = ψ⁴`. -/
theorem dt_Atilde (G U Kd Ku dtG dtU dtKd DDα Ric Sd At Ut : Fin 3 → Fin 3 → K)
    (dG dU dKd dAt : Fin 3 → Fin 3 → Fin 3 → K) (β : Fin 3 → K) (dβ : Fin 3 → Fin 3 → K) (dφ dKtr : Fin 3 → K)
    (α Ktr dtKtr dtφ p q κ ρ S Λ : K) (h2 : (2 : K) ≠ 0) (h3 : (3 : K) ≠ 0)
    (hsymG : Sym G) (hsymU : Sym U) (hsymK : Sym Kd)
    (hUG : ∀ i k : Fin 3, ∑ j, U i j * G j k = delta i k)
    (hGU : ∀ i k : Fin 3, ∑ j, G i j * U j k = delta i k)
    (hKu : ∀ a b, Ku a b = ∑ i, ∑ j, U i a * U j b * Kd i j)
    (hKtr : Ktr = ∑ i, ∑ j, U i j * Kd i j) (hS : S = ∑ i, ∑ j, U i j * Sd i j)
    (hpq : p * q = 1)
    (hAt : ∀ a b, At a b = p * (Kd a b - (1 / 3) * G a b * Ktr))
    (hUt : ∀ a b, Ut a b = q * U a b)
    (hdK : ∀ s, dKtr s = ∑ i, ∑ j, (dU s i j * Kd i j + U i j * dKd s i j))
    (hdsA : ∀ s a b, dAt s a b = p * (dKd s a b - (1 / 3) * (dG s a b * Ktr + G a b * dKtr s))
        + (-4 * p * dφ s) * (Kd a b - (1 / 3) * G a b * Ktr))
    (hφ : dtφ = ADM.dtPhi β dφ dβ α Ktr)
    (hkin : ∀ i j : Fin 3, dtG i j = -2 * α * Kd i j + lieDD β dβ dG G i j)
    (hdtU : ∀ i j, dtU i j = ADM.dtGammaUp β dβ dU U α Ku i j)
    (hadm : ∀ i j, dtKd i j = ADM.dtKdown β dβ dKd Kd G U DDα Ric Sd α Ktr κ ρ S Λ i j)
    (hdtK : dtKtr = ∑ i, ∑ j, (dtU i j * Kd i j + U i j * dtKd i j))
    (i j : Fin 3) :
    ADM.dtATilde β dβ dAt At Ut G U DDα Ric Sd p α Ktr κ i j
      = p * (dtKd i j - (1 / 3) * (dtG i j * Ktr + G i j * dtKtr))
        + (-4 * p * dtφ) * (Kd i j - (1 / 3) * G i j * Ktr) := by
  -- the trace-free tensor and its x-derivatives
  let A : Fin 3 → Fin 3 → K := fun a b => Kd a b - (1 / 3) * G a b * Ktr
  let dA : Fin 3 → Fin 3 → Fin 3 → K := fun s a b => dKd s a b - (1 / 3) * (dG s a b * Ktr + G a b * dKtr s)
  let F : Fin 3 → Fin 3 → K := fun a b => -DDα a b + α * Ric a b - α * κ * Sd a b
  let E : Fin 3 → Fin 3 → K := fun a b => dtKd a b - lieDD β dβ dKd Kd a b
  -- 1. Lie derivative with density weight of p·A
  have s1 := lie_weighted_conformal A At dA dAt β dβ dφ α Ktr dtφ p h2 h3 hAt hdsA hφ i j
  -- 2. L_β A by linearity
  have s2 : lieDD β dβ dA A i j
      = lieDD β dβ dKd Kd i j - (1 / 3) * (Ktr * lieDD β dβ dG G i j + G i j * lie0 β dKtr) := by
    simp only [A, dA, lieDD, lie0, Fin.sum_univ_three]; ring
  -- 3. (∂_t − L_β) K
  have s3 := dt_minus_lie_trace U Kd Ku dtU dtKd dU dKd β dβ dKtr α dtKtr hdK hdtU hdtK
  -- 4. Ã γ̃⁻¹ Ã = p A γ⁻¹ A
  have s4 : ∑ k, ∑ l, At i k * Ut k l * At l j = p * ∑ k, ∑ l, A i k * U k l * A l j := by
    have hp : ∀ x y z : K, (p * x) * (q * y) * (p * z) = p * (x * y * z) := by
      intro x y z; linear_combination (x * y * z * p) * hpq
    simp only [A, hAt, hUt, hp, Finset.mul_sum]
  -- 5. the algebraic core
  have hAUA := AUA_closed G U Kd Ktr hUG hGU i j
  have h3tr := trace_UG G U hsymG hUG
  have htrK := trace_KUK U Kd Ku hsymU hsymK hKu
  have hEij : E i j = F i j + α * (-2 * (∑ k, ∑ l, Kd i k * U k l * Kd l j) + Ktr * Kd i j)
      + ((1 / 2) * κ * α * (S - ρ) - α * Λ) * G i j := by
    simp only [E, F, hadm, ADM.dtKdown]; ring
  have hUE : ∑ a, ∑ b, U a b * E a b
      = (∑ a, ∑ b, U a b * F a b)
        + α * (-2 * (∑ k, ∑ l, U k l * (∑ a, ∑ b, Kd k a * U a b * Kd b l)) + Ktr * Ktr)
        + ((1 / 2) * κ * α * (S - ρ) - α * Λ) * ∑ a, ∑ b, U a b * G a b := by
    have hUE0 : ∑ a, ∑ b, U a b * E a b
        = (∑ a, ∑ b, U a b * F a b)
          + α * (-2 * (∑ k, ∑ l, U k l * (∑ a, ∑ b, Kd k a * U a b * Kd b l)) + Ktr * ∑ a, ∑ b, U a b * Kd a b)
          + ((1 / 2) * κ * α * (S - ρ) - α * Λ) * ∑ a, ∑ b, U a b * G a b := by
      have hE' : ∀ a b, E a b = F a b + α * (-2 * (∑ k, ∑ l, Kd a k * U k l * Kd l b) + Ktr * Kd a b)
          + ((1 / 2) * κ * α * (S - ρ) - α * Λ) * G a b := by
        intro a b; simp only [E, F, hadm, ADM.dtKdown]; ring
      simp only [hE', Fin.sum_univ_three]
      ring
    rw [← hKtr] at hUE0
    exact hUE0
  have core := dtA_assemble (ADM.tf G U F i j) (F i j) (∑ a, ∑ b, U a b * F a b)
    (∑ k, ∑ l, Kd i k * U k l * Kd l j) (Kd i j) (G i j) (A i j) (∑ k, ∑ l, A i k * U k l * A l j) Ktr
    (∑ a, ∑ b, Kd a b * Ku a b) (∑ k, ∑ l, U k l * (∑ a, ∑ b, Kd k a * U a b * Kd b l))
    (∑ a, ∑ b, U a b * G a b) (∑ a, ∑ b, U a b * E a b) (E i j) ((1 / 2) * κ * α * (S - ρ) - α * Λ) α h3
    rfl hAUA rfl hEij hUE h3tr htrK
  -- assemble
  have hkin' : lieDD β dβ dG G i j = dtG i j + 2 * α * Kd i j := by rw [hkin]; ring
  have hgoal : ADM.dtATilde β dβ dAt At Ut G U DDα Ric Sd p α Ktr κ i j
      = p * ADM.tf G U F i j + α * (Ktr * At i j - 2 * ∑ k, ∑ l, At i k * Ut k l * At l j)
        + (lieDD β dβ dAt At i j - (2 / 3) * divβ dβ * At i j) := by
    simp only [ADM.dtATilde, F]; ring
  rw [hgoal, s1, s2, s4, hAt i j, hkin']
  have hEdef : lieDD β dβ dKd Kd i j = dtKd i j - E i j := by simp only [E]; ring
  rw [hEdef]
  have hl : lie0 β dKtr = dtKtr - ((∑ a, ∑ b, U a b * E a b) + 2 * α * ∑ a, ∑ b, Kd a b * Ku a b) := by
    rw [← s3]; ring
  rw [hl]
  have hAij : A i j = Kd i j - (1 / 3) * G i j * Ktr := rfl
  rw [hAij] at core ⊢
  linear_combination p * core

end AurelVerif.C06Deriv
