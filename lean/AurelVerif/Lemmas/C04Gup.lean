/-
Lemmas/C04Gup.lean — T2: the code's `gup4` (closed-form 4x4 inverse of the assembled metric)
has the textbook 3+1 form `g^tt = −1/α²`, `g^ti = β^i/α²`, `g^ij = γ^ij − β^iβ^j/α²`.
Proof: the 3+1 form `U` is a right inverse of the assembled metric (uses γ γ^{-1} = 1), `gup4` is a
left inverse (C08), hence they coincide.
-/
import AurelVerif.Lemmas.C04GammaCode
import AurelVerif.Lemmas.C04Blocks

set_option linter.unusedSimpArgs false
set_option linter.unusedVariables false
set_option linter.unusedTactic false
set_option linter.unreachableTactic false

namespace AurelVerif.C04L
open AurelVerif.Gen.Core AurelVerif.Tensor AurelVerif.CoreTac AurelVerif.C08 AurelVerif.Spec.Curvature

variable {K : Type} [Field K]

/-- the 3+1 form of the inverse metric. -/
def U3p1 (e : Env K) : Fin 4 → Fin 4 → K :=
  tsplit (tsplit (-1 / e.alpha ^ 2) fun j => e.betaup3 j / e.alpha ^ 2)
    fun i => tsplit (e.betaup3 i / e.alpha ^ 2) fun j => e.gammaup3 i j - e.betaup3 i * e.betaup3 j / e.alpha ^ 2

set_option maxHeartbeats 1000000 in
/-- `g · U = 1` for the assembled metric. -/
theorem gdown4_mul_U3p1 (e : Env K) (h : Assembled e) (hu : e.gammaup3 = gammaup3 e) (ha : e.alpha ≠ 0)
    (hdet : gammadet e ≠ 0) : ∀ j l : Fin 4, ∑ k, e.gdown4 j k * U3p1 e k l = delta j l := by
  have hs := h.hsym
  have s01 := hs 1 0; have s02 := hs 2 0; have s12 := hs 2 1
  have hα : e.alpha ^ 2 * (e.alpha ^ 2)⁻¹ = 1 := mul_inv_cancel₀ (pow_ne_zero 2 ha)
  have hinv := inv_of_gammaup3 e hs hu hdet
  have H00 := hinv (fun n => if n = (0 : Fin 3) then 1 else 0) 0
  have H01 := hinv (fun n => if n = (1 : Fin 3) then 1 else 0) 0
  have H02 := hinv (fun n => if n = (2 : Fin 3) then 1 else 0) 0
  have H10 := hinv (fun n => if n = (0 : Fin 3) then 1 else 0) 1
  have H11 := hinv (fun n => if n = (1 : Fin 3) then 1 else 0) 1
  have H12 := hinv (fun n => if n = (2 : Fin 3) then 1 else 0) 1
  have H20 := hinv (fun n => if n = (0 : Fin 3) then 1 else 0) 2
  have H21 := hinv (fun n => if n = (1 : Fin 3) then 1 else 0) 2
  have H22 := hinv (fun n => if n = (2 : Fin 3) then 1 else 0) 2
  simp [Fin.sum_univ_three] at H00 H01 H02 H10 H11 H12 H20 H21 H22
  simp only [s01, s02, s12] at H00 H01 H02 H10 H11 H12 H20 H21 H22
  refine fin4_cases (fin4_cases ?_ ?_ ?_ ?_) (fin4_cases ?_ ?_ ?_ ?_) (fin4_cases ?_ ?_ ?_ ?_) (fin4_cases ?_ ?_ ?_ ?_)
  · simp only [h.hg4, h.hgtt, h.hbm, h.hbd, core_unfold, U3p1, tsplit_0, tsplit_1, tsplit_2, tsplit_3, delta,
      Fin.sum_univ_three, Fin.sum_univ_four, s01, s02, s12, div_eq_mul_inv, Fin.isValue, Fin.reduceEq, if_true, if_false,
      ↓reduceIte]
    linear_combination hα
  · simp only [h.hg4, h.hgtt, h.hbm, h.hbd, core_unfold, U3p1, tsplit_0, tsplit_1, tsplit_2, tsplit_3, delta,
      Fin.sum_univ_three, Fin.sum_univ_four, s01, s02, s12, div_eq_mul_inv, Fin.isValue, Fin.reduceEq, if_true, if_false,
      ↓reduceIte]
    linear_combination (-(e.betaup3 0)) * hα + e.betaup3 0 * H00 + e.betaup3 1 * H10 + e.betaup3 2 * H20
  · simp only [h.hg4, h.hgtt, h.hbm, h.hbd, core_unfold, U3p1, tsplit_0, tsplit_1, tsplit_2, tsplit_3, delta,
      Fin.sum_univ_three, Fin.sum_univ_four, s01, s02, s12, div_eq_mul_inv, Fin.isValue, Fin.reduceEq, if_true, if_false,
      ↓reduceIte]
    linear_combination (-(e.betaup3 1)) * hα + e.betaup3 0 * H01 + e.betaup3 1 * H11 + e.betaup3 2 * H21
  · simp only [h.hg4, h.hgtt, h.hbm, h.hbd, core_unfold, U3p1, tsplit_0, tsplit_1, tsplit_2, tsplit_3, delta,
      Fin.sum_univ_three, Fin.sum_univ_four, s01, s02, s12, div_eq_mul_inv, Fin.isValue, Fin.reduceEq, if_true, if_false,
      ↓reduceIte]
    linear_combination (-(e.betaup3 2)) * hα + e.betaup3 0 * H02 + e.betaup3 1 * H12 + e.betaup3 2 * H22
  · simp only [h.hg4, h.hgtt, h.hbm, h.hbd, core_unfold, U3p1, tsplit_0, tsplit_1, tsplit_2, tsplit_3, delta,
      Fin.sum_univ_three, Fin.sum_univ_four, s01, s02, s12, div_eq_mul_inv, Fin.isValue, Fin.reduceEq, if_true, if_false,
      ↓reduceIte]
    ring
  · simp only [h.hg4, h.hgtt, h.hbm, h.hbd, core_unfold, U3p1, tsplit_0, tsplit_1, tsplit_2, tsplit_3, delta,
      Fin.sum_univ_three, Fin.sum_univ_four, s01, s02, s12, div_eq_mul_inv, Fin.isValue, Fin.reduceEq, if_true, if_false,
      ↓reduceIte]
    linear_combination H00
  · simp only [h.hg4, h.hgtt, h.hbm, h.hbd, core_unfold, U3p1, tsplit_0, tsplit_1, tsplit_2, tsplit_3, delta,
      Fin.sum_univ_three, Fin.sum_univ_four, s01, s02, s12, div_eq_mul_inv, Fin.isValue, Fin.reduceEq, if_true, if_false,
      ↓reduceIte]
    linear_combination H01
  · simp only [h.hg4, h.hgtt, h.hbm, h.hbd, core_unfold, U3p1, tsplit_0, tsplit_1, tsplit_2, tsplit_3, delta,
      Fin.sum_univ_three, Fin.sum_univ_four, s01, s02, s12, div_eq_mul_inv, Fin.isValue, Fin.reduceEq, if_true, if_false,
      ↓reduceIte]
    linear_combination H02
  · simp only [h.hg4, h.hgtt, h.hbm, h.hbd, core_unfold, U3p1, tsplit_0, tsplit_1, tsplit_2, tsplit_3, delta,
      Fin.sum_univ_three, Fin.sum_univ_four, s01, s02, s12, div_eq_mul_inv, Fin.isValue, Fin.reduceEq, if_true, if_false,
      ↓reduceIte]
    ring
  · simp only [h.hg4, h.hgtt, h.hbm, h.hbd, core_unfold, U3p1, tsplit_0, tsplit_1, tsplit_2, tsplit_3, delta,
      Fin.sum_univ_three, Fin.sum_univ_four, s01, s02, s12, div_eq_mul_inv, Fin.isValue, Fin.reduceEq, if_true, if_false,
      ↓reduceIte]
    linear_combination H10
  · simp only [h.hg4, h.hgtt, h.hbm, h.hbd, core_unfold, U3p1, tsplit_0, tsplit_1, tsplit_2, tsplit_3, delta,
      Fin.sum_univ_three, Fin.sum_univ_four, s01, s02, s12, div_eq_mul_inv, Fin.isValue, Fin.reduceEq, if_true, if_false,
      ↓reduceIte]
    linear_combination H11
  · simp only [h.hg4, h.hgtt, h.hbm, h.hbd, core_unfold, U3p1, tsplit_0, tsplit_1, tsplit_2, tsplit_3, delta,
      Fin.sum_univ_three, Fin.sum_univ_four, s01, s02, s12, div_eq_mul_inv, Fin.isValue, Fin.reduceEq, if_true, if_false,
      ↓reduceIte]
    linear_combination H12
  · simp only [h.hg4, h.hgtt, h.hbm, h.hbd, core_unfold, U3p1, tsplit_0, tsplit_1, tsplit_2, tsplit_3, delta,
      Fin.sum_univ_three, Fin.sum_univ_four, s01, s02, s12, div_eq_mul_inv, Fin.isValue, Fin.reduceEq, if_true, if_false,
      ↓reduceIte]
    ring
  · simp only [h.hg4, h.hgtt, h.hbm, h.hbd, core_unfold, U3p1, tsplit_0, tsplit_1, tsplit_2, tsplit_3, delta,
      Fin.sum_univ_three, Fin.sum_univ_four, s01, s02, s12, div_eq_mul_inv, Fin.isValue, Fin.reduceEq, if_true, if_false,
      ↓reduceIte]
    linear_combination H20
  · simp only [h.hg4, h.hgtt, h.hbm, h.hbd, core_unfold, U3p1, tsplit_0, tsplit_1, tsplit_2, tsplit_3, delta,
      Fin.sum_univ_three, Fin.sum_univ_four, s01, s02, s12, div_eq_mul_inv, Fin.isValue, Fin.reduceEq, if_true, if_false,
      ↓reduceIte]
    linear_combination H21
  · simp only [h.hg4, h.hgtt, h.hbm, h.hbd, core_unfold, U3p1, tsplit_0, tsplit_1, tsplit_2, tsplit_3, delta,
      Fin.sum_univ_three, Fin.sum_univ_four, s01, s02, s12, div_eq_mul_inv, Fin.isValue, Fin.reduceEq, if_true, if_false,
      ↓reduceIte]
    linear_combination H22

set_option maxHeartbeats 1000000 in
/-- `gup4 e = U` entrywise. -/
theorem gup4_eq_U3p1 (e : Env K) (h : Assembled e) (hgd : e.gammadet = gammadet e) (hu : e.gammaup3 = gammaup3 e)
    (ha : e.alpha ≠ 0) (hdet : gammadet e ≠ 0) : ∀ i l : Fin 4, gup4 e i l = U3p1 e i l := by
  intro i l
  have R0 := gdown4_mul_U3p1 e h hu ha hdet 0 l; have R1 := gdown4_mul_U3p1 e h hu ha hdet 1 l
  have R2 := gdown4_mul_U3p1 e h hu ha hdet 2 l; have R3 := gdown4_mul_U3p1 e h hu ha hdet 3 l
  have L0 := gup4_mul_gdown4 e h hgd ha hdet i 0; have L1 := gup4_mul_gdown4 e h hgd ha hdet i 1
  have L2 := gup4_mul_gdown4 e h hgd ha hdet i 2; have L3 := gup4_mul_gdown4 e h hgd ha hdet i 3
  simp only [Fin.sum_univ_four] at R0 R1 R2 R3 L0 L1 L2 L3
  revert i l
  cases4 <;> cases4 <;> intro R0 R1 R2 R3 L0 L1 L2 L3 <;>
    (simp [delta] at R0 R1 R2 R3 L0 L1 L2 L3
     linear_combination (-(gup4 e _ 0)) * R0 - (gup4 e _ 1) * R1 - (gup4 e _ 2) * R2 - (gup4 e _ 3) * R3
       + U3p1 e 0 _ * L0 + U3p1 e 1 _ * L1 + U3p1 e 2 _ * L2 + U3p1 e 3 _ * L3)

/-- **T2** the code's inverse 4-metric has the 3+1 form. -/
theorem gup4_3p1 (e : Env K) (h : Assembled e) (hgd : e.gammadet = gammadet e) (hu : e.gammaup3 = gammaup3 e)
    (ha : e.alpha ≠ 0) (hdet : gammadet e ≠ 0) : Gup3p1 e (gup4 e) := by
  have H := gup4_eq_U3p1 e h hgd hu ha hdet
  refine ⟨?_, fun i => ⟨?_, ?_⟩, fun i j => ?_⟩
  · rw [H]; rfl
  · rw [H]; simp only [U3p1, tsplit_0, tsplit_succ]
  · rw [H]; simp only [U3p1, tsplit_0, tsplit_succ]
  · rw [H]; simp only [U3p1, tsplit_succ]

end AurelVerif.C04L
