/-
Lemmas/C20JacobiInteg.lean — an ALGEBRAIC integral over [−1, 1] on ℚ[X] and the
tools of the classical orthogonality proof of Jacobi polynomials, without any
analysis:

  integ : ℚ[X] →ₗ[ℚ] ℚ            integ (Xᵏ) = (1 − (−1)^(k+1))/(k+1)
  integ_derivative                 integ (D p) = p(1) − p(−1)
  integ_by_parts                   integ (D f · g) = [f g]_{−1}^{1} − integ (f · D g)
  integ_iter_by_parts              n-fold, when D^j f vanishes at ±1 for j < n
  uv_iter_eval_one / _neg_one      D^j (u^A v^B) vanishes at ±1 for j < min(A, B)
  integ_rodrigues_low              integ (D^n(u^A v^B) · g) = 0           (deg g < n ≤ A, B)
  integ_rodrigues_top              integ (D^n(u^A v^B) · g) = (−1)^n n! g_n integ(u^A v^B)  (deg g ≤ n)
  integ_beta                       integ (u^p v^q) = 2 p! q!/(p+q+1)!

with u = (1 + X)/2, v = (1 − X)/2 (= cos²(θ/2), sin²(θ/2) at X = cos θ).
Used by Lemmas/C20Jacobi.lean.
-/
import Mathlib.Algebra.Polynomial.Derivative
import Mathlib.Algebra.Polynomial.Degree.Lemmas
import Mathlib.Algebra.Polynomial.Eval.Degree
import Mathlib.Algebra.Order.Field.Rat
import Mathlib.Data.Nat.Factorial.Basic
import Mathlib.Tactic.Ring
import Mathlib.Tactic.Linarith
import Mathlib.Tactic.FieldSimp
import Mathlib.Tactic.LinearCombination

namespace AurelVerif.HarmJacobi
open Polynomial

noncomputable section

/-! ### the integral -/

/-- `∫_{−1}^{1} x^k dx` -/
def wgt (k : ℕ) : ℚ := (1 - (-1) ^ (k + 1)) / ((k : ℚ) + 1)

/-- `p ↦ ∫_{−1}^{1} p(x) dx`, defined coefficient-wise. -/
def integ : ℚ[X] →ₗ[ℚ] ℚ := Polynomial.lsum fun k => wgt k • LinearMap.id

theorem integ_monomial (k : ℕ) (a : ℚ) : integ (monomial k a) = a * wgt k := by
  unfold integ
  rw [lsum_apply, sum_monomial_index]
  · simp [mul_comm]
  · simp

/-- fundamental theorem: `∫_{−1}^{1} p' = p(1) − p(−1)`. -/
theorem integ_derivative (p : ℚ[X]) : integ (derivative p) = p.eval 1 - p.eval (-1) := by
  induction p using Polynomial.induction_on' with
  | add p q hp hq => rw [derivative_add, map_add, hp, hq, eval_add, eval_add]; ring
  | monomial n a =>
    rw [derivative_monomial, integ_monomial, eval_monomial, eval_monomial]
    cases n with
    | zero => simp
    | succ k =>
      unfold wgt
      have : ((k : ℚ) + 1) ≠ 0 := by positivity
      simp only [Nat.add_sub_cancel, Nat.cast_add, Nat.cast_one, one_pow, mul_one]
      field_simp

theorem integ_C_mul (a : ℚ) (p : ℚ[X]) : integ (C a * p) = a * integ p := by
  rw [← smul_eq_C_mul, map_smul, smul_eq_mul]

/-- integration by parts -/
theorem integ_by_parts (f g : ℚ[X]) :
    integ (derivative f * g) = (f * g).eval 1 - (f * g).eval (-1) - integ (f * derivative g) := by
  have h := integ_derivative (f * g)
  rw [derivative_mul, map_add] at h
  linarith

/-- `n`-fold integration by parts when the boundary terms vanish. -/
theorem integ_iter_by_parts (f : ℚ[X]) (n : ℕ)
    (h1 : ∀ j < n, (derivative^[j] f).eval 1 = 0) (hm1 : ∀ j < n, (derivative^[j] f).eval (-1) = 0)
    (g : ℚ[X]) :
    integ (derivative^[n] f * g) = (-1) ^ n * integ (f * derivative^[n] g) := by
  induction n generalizing g with
  | zero => simp
  | succ n ih =>
    rw [Function.iterate_succ_apply', integ_by_parts, eval_mul, eval_mul,
      h1 n (Nat.lt_succ_self n), hm1 n (Nat.lt_succ_self n),
      ih (fun j hj => h1 j (Nat.lt_succ_of_lt hj)) (fun j hj => hm1 j (Nat.lt_succ_of_lt hj)),
      Function.iterate_succ_apply, pow_succ]
    ring

/-! ### u = (1+X)/2, v = (1−X)/2 -/

def u : ℚ[X] := C (1 / 2) * (X + 1)
def v : ℚ[X] := C (1 / 2) * (1 - X)

theorem derivative_u : derivative u = C (1 / 2) := by
  unfold u; rw [derivative_C_mul]; simp

theorem derivative_v : derivative v = C (-(1 / 2)) := by
  unfold v; rw [derivative_C_mul]; simp

theorem u_eval_one : u.eval 1 = 1 := by unfold u; simp; norm_num
theorem u_eval_neg_one : u.eval (-1) = 0 := by unfold u; simp
theorem v_eval_one : v.eval 1 = 0 := by unfold v; simp
theorem v_eval_neg_one : v.eval (-1) = 1 := by unfold v; simp; norm_num

theorem natDegree_u_le : u.natDegree ≤ 1 := by
  unfold u
  refine (natDegree_C_mul_le _ _).trans ?_
  exact natDegree_X_add_C (1 : ℚ) |>.le.trans' (by simp)

theorem natDegree_v_le : v.natDegree ≤ 1 := by
  unfold v
  refine (natDegree_C_mul_le _ _).trans ?_
  exact (natDegree_sub_le _ _).trans (by simp)

theorem coeff_u_one : u.coeff 1 = 1 / 2 := by unfold u; simp [coeff_X, coeff_one]
theorem coeff_v_one : v.coeff 1 = -(1 / 2) := by unfold v; simp [coeff_X, coeff_one]

theorem u_add_v : u + v = 1 := by
  unfold u v
  rw [← mul_add, show (X + 1 + (1 - X) : ℚ[X]) = C 2 by rw [map_ofNat]; ring, ← C_mul]
  norm_num

/-! ### derivatives of `u^A v^B` keep the factors that vanish at ±1 -/

theorem uv_dvd_derivative (a b : ℕ) (p : ℚ[X]) (h : u ^ (a + 1) * v ^ (b + 1) ∣ p) :
    u ^ a * v ^ b ∣ derivative p := by
  obtain ⟨w, rfl⟩ := h
  refine ⟨C ((a + 1 : ℕ) : ℚ) * C (1 / 2) * v * w + C ((b + 1 : ℕ) : ℚ) * C (-(1 / 2)) * u * w
    + u * v * derivative w, ?_⟩
  rw [derivative_mul, derivative_mul, derivative_pow, derivative_pow, derivative_u, derivative_v,
    Nat.add_sub_cancel, Nat.add_sub_cancel]
  ring

theorem uv_dvd_iterate (j a b : ℕ) (p : ℚ[X]) (h : u ^ (a + j) * v ^ (b + j) ∣ p) :
    u ^ a * v ^ b ∣ derivative^[j] p := by
  induction j generalizing p with
  | zero => simpa using h
  | succ j ih =>
    rw [Function.iterate_succ_apply]
    exact ih _ (uv_dvd_derivative (a + j) (b + j) p h)

theorem uv_iter_eval_one (A B j : ℕ) (hA : j ≤ A) (hB : j < B) :
    (derivative^[j] (u ^ A * v ^ B)).eval 1 = 0 := by
  obtain ⟨a, rfl⟩ := Nat.exists_eq_add_of_le' hA
  obtain ⟨b, rfl⟩ : ∃ b, B = b + 1 + j := ⟨B - 1 - j, by omega⟩
  obtain ⟨w, hw⟩ := uv_dvd_iterate j a (b + 1) _ (dvd_refl (u ^ (a + j) * v ^ (b + 1 + j)))
  rw [hw]
  simp [v_eval_one]

theorem uv_iter_eval_neg_one (A B j : ℕ) (hA : j < A) (hB : j ≤ B) :
    (derivative^[j] (u ^ A * v ^ B)).eval (-1) = 0 := by
  obtain ⟨b, rfl⟩ := Nat.exists_eq_add_of_le' hB
  obtain ⟨a, rfl⟩ : ∃ a, A = a + 1 + j := ⟨A - 1 - j, by omega⟩
  obtain ⟨w, hw⟩ := uv_dvd_iterate j (a + 1) b _ (dvd_refl (u ^ (a + 1 + j) * v ^ (b + j)))
  rw [hw]
  simp [u_eval_neg_one]

/-- moving `n ≤ min(A, B)` derivatives off `u^A v^B` costs only the sign. -/
theorem integ_rodrigues (A B n : ℕ) (hA : n ≤ A) (hB : n ≤ B) (g : ℚ[X]) :
    integ (derivative^[n] (u ^ A * v ^ B) * g)
      = (-1) ^ n * integ (u ^ A * v ^ B * derivative^[n] g) :=
  integ_iter_by_parts _ n
    (fun j hj => uv_iter_eval_one A B j (by omega) (by omega))
    (fun j hj => uv_iter_eval_neg_one A B j (by omega) (by omega)) g

/-- orthogonality to lower degree -/
theorem integ_rodrigues_low (A B n : ℕ) (hA : n ≤ A) (hB : n ≤ B) (g : ℚ[X])
    (hg : g.natDegree < n) :
    integ (derivative^[n] (u ^ A * v ^ B) * g) = 0 := by
  rw [integ_rodrigues A B n hA hB, iterate_derivative_eq_zero hg]
  simp

theorem iterate_derivative_top (n : ℕ) (g : ℚ[X]) (hg : g.natDegree ≤ n) :
    derivative^[n] g = C ((n.factorial : ℚ) * g.coeff n) := by
  have hd : (derivative^[n] g).natDegree ≤ 0 := by
    refine (natDegree_iterate_derivative g n).trans ?_
    omega
  rw [eq_C_of_natDegree_le_zero hd, coeff_iterate_derivative, zero_add, Nat.descFactorial_self,
    nsmul_eq_mul]

/-- the top-degree case -/
theorem integ_rodrigues_top (A B n : ℕ) (hA : n ≤ A) (hB : n ≤ B) (g : ℚ[X])
    (hg : g.natDegree ≤ n) :
    integ (derivative^[n] (u ^ A * v ^ B) * g)
      = (-1) ^ n * ((n.factorial : ℚ) * g.coeff n) * integ (u ^ A * v ^ B) := by
  rw [integ_rodrigues A B n hA hB, iterate_derivative_top n g hg, mul_comm (u ^ A * v ^ B),
    integ_C_mul]
  ring

/-! ### the algebraic Beta integral -/

theorem derivative_u_pow_succ (p : ℕ) :
    derivative (C (2 / ((p : ℚ) + 1)) * u ^ (p + 1)) = u ^ p := by
  rw [derivative_C_mul, derivative_pow, derivative_u, Nat.add_sub_cancel]
  have h : ((p : ℚ) + 1) ≠ 0 := by positivity
  have : C (2 / ((p : ℚ) + 1)) * (C ((p + 1 : ℕ) : ℚ) * u ^ p * C (1 / 2))
      = C (2 / ((p : ℚ) + 1) * ((p + 1 : ℕ) : ℚ) * (1 / 2)) * u ^ p := by
    rw [C_mul, C_mul]; ring
  rw [this]
  have : 2 / ((p : ℚ) + 1) * ((p + 1 : ℕ) : ℚ) * (1 / 2) = 1 := by
    push_cast; field_simp
  rw [this]; simp

theorem integ_u_pow (p : ℕ) : integ (u ^ p) = 2 / ((p : ℚ) + 1) := by
  rw [← derivative_u_pow_succ p, integ_derivative]
  simp [u_eval_one, u_eval_neg_one]

theorem integ_beta_step (p q : ℕ) :
    integ (u ^ p * v ^ (q + 1)) = ((q : ℚ) + 1) / ((p : ℚ) + 1) * integ (u ^ (p + 1) * v ^ q) := by
  have h : ((p : ℚ) + 1) ≠ 0 := by positivity
  rw [← derivative_u_pow_succ p, integ_by_parts, derivative_pow, derivative_v, Nat.add_sub_cancel]
  have e : C (2 / ((p : ℚ) + 1)) * u ^ (p + 1) * (C ((q + 1 : ℕ) : ℚ) * v ^ q * C (-(1 / 2)))
      = C (2 / ((p : ℚ) + 1) * ((q + 1 : ℕ) : ℚ) * (-(1 / 2))) * (u ^ (p + 1) * v ^ q) := by
    rw [C_mul, C_mul]; ring
  rw [e, integ_C_mul]
  simp only [eval_mul, eval_pow, eval_C, u_eval_one, u_eval_neg_one, v_eval_one, v_eval_neg_one]
  push_cast
  field_simp
  ring

/-- `∫_{−1}^{1} ((1+x)/2)^p ((1−x)/2)^q dx = 2 p! q!/(p+q+1)!` -/
theorem integ_beta (p q : ℕ) :
    integ (u ^ p * v ^ q)
      = 2 * (p.factorial : ℚ) * (q.factorial : ℚ) / ((p + q + 1).factorial : ℚ) := by
  induction q generalizing p with
  | zero =>
    rw [pow_zero, mul_one, integ_u_pow, Nat.add_zero, Nat.factorial_succ]
    have h : ((p : ℚ) + 1) ≠ 0 := by positivity
    have h2 : (p.factorial : ℚ) ≠ 0 := by positivity
    push_cast
    field_simp
    simp
  | succ q ih =>
    rw [integ_beta_step, ih (p + 1)]
    have h : ((p : ℚ) + 1) ≠ 0 := by positivity
    have e : p + 1 + q + 1 = p + (q + 1) + 1 := by omega
    rw [e, Nat.factorial_succ p, Nat.factorial_succ q]
    have h3 : (((p + (q + 1) + 1).factorial : ℕ) : ℚ) ≠ 0 := by positivity
    push_cast
    field_simp

/-! ### non-vacuity -/

example : integ (monomial 2 (3 : ℚ)) = 2 := by rw [integ_monomial]; norm_num [wgt]

example : integ (monomial 3 (5 : ℚ)) = 0 := by rw [integ_monomial]; norm_num [wgt]

/-- `∫_{−1}^{1} ((1+x)/2)² (1−x)/2 dx = 1/6` -/
example : integ (u ^ 2 * v ^ 1) = 1 / 6 := by rw [integ_beta]; norm_num [Nat.factorial]

end

end AurelVerif.HarmJacobi
