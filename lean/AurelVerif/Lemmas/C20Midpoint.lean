/-
Lemmas/C20Midpoint.lean — the composite MIDPOINT rule for a twice differentiable
function with bounded second derivative:

    |Σ_{j<M} g(a + (j+½)h)·h − ∫_a^{a+Mh} g| ≤ K·M·h³/24,   |g''| ≤ K.

One cell (`midpoint_cell_error`): with ψ(t) = g(c+t) + g(c−t) − 2g(c),
ψ(0) = 0, |ψ'(t)| = |g'(c+t) − g'(c−t)| ≤ 2Kt (mean value inequality), hence
|ψ(t)| ≤ Kt²; Φ(t) = ∫_{c−t}^{c+t} g − 2t·g(c) has Φ(0) = 0, Φ' = ψ, hence
|Φ(δ)| ≤ Kδ³/3 (fencing theorem `image_norm_le_of_norm_deriv_right_le_deriv_boundary'`
twice).  No statement about the harmonics here: see Lemmas/C20MidpointHarm.lean.
-/
import Mathlib.Analysis.Calculus.MeanValue
import Mathlib.Analysis.Calculus.Deriv.Pow
import Mathlib.Analysis.Calculus.Deriv.Shift
import Mathlib.Analysis.SpecialFunctions.Trigonometric.Deriv
import Mathlib.MeasureTheory.Integral.IntervalIntegral.FundThmCalculus

namespace AurelVerif.HarmLemmas
open intervalIntegral Set

/-- `K ≥ 0` follows from a bound `|·| ≤ K`. -/
theorem bound_nonneg {g'' : ℝ → ℝ} {K : ℝ} (hK : ∀ x, |g'' x| ≤ K) : 0 ≤ K :=
  le_trans (abs_nonneg _) (hK 0)

/-- mean value inequality for `g'`: `|g'(y) − g'(x)| ≤ K·|y − x|`. -/
theorem deriv_lipschitz (g' g'' : ℝ → ℝ) (K : ℝ)
    (hg' : ∀ x, HasDerivAt g' (g'' x) x) (hK : ∀ x, |g'' x| ≤ K) (x y : ℝ) :
    |g' y - g' x| ≤ K * |y - x| := by
  have h := Convex.norm_image_sub_le_of_norm_hasDerivWithin_le (f := g') (f' := g'') (s := Set.univ)
    (C := K) (x := x) (y := y) (fun z _ => (hg' z).hasDerivWithinAt)
    (fun z _ => by simpa [Real.norm_eq_abs] using hK z) convex_univ (Set.mem_univ _) (Set.mem_univ _)
  simpa [Real.norm_eq_abs] using h

/-- the symmetric second difference: `|g(c+t) + g(c−t) − 2g(c)| ≤ K t²` for `t ≥ 0`. -/
theorem second_difference_bound (g g' g'' : ℝ → ℝ) (K : ℝ)
    (hg : ∀ x, HasDerivAt g (g' x) x) (hg' : ∀ x, HasDerivAt g' (g'' x) x) (hK : ∀ x, |g'' x| ≤ K)
    (c t : ℝ) (ht : 0 ≤ t) :
    |g (c + t) + g (c - t) - 2 * g c| ≤ K * t ^ 2 := by
  have hK0 := bound_nonneg hK
  -- ψ and its derivative
  have hψ : ∀ u : ℝ, HasDerivAt (fun u => g (c + u) + g (c - u) - 2 * g c) (g' (c + u) - g' (c - u)) u := by
    intro u
    have h1 : HasDerivAt (fun u => g (c + u)) (g' (c + u)) u := (hg (c + u)).comp_const_add c u
    have h2 : HasDerivAt (fun u => g (c - u)) (-(g' (c - u))) u := (hg (c - u)).comp_const_sub c u
    have := (h1.add h2).sub_const (2 * g c)
    exact this.congr_deriv (by ring)
  have hB : ∀ u : ℝ, HasDerivAt (fun u => K * u ^ 2) (2 * K * u) u := by
    intro u
    have := ((hasDerivAt_id' u).fun_pow 2).const_mul K
    exact this.congr_deriv (by simp; ring)
  have key := image_norm_le_of_norm_deriv_right_le_deriv_boundary'
    (f := fun u => g (c + u) + g (c - u) - 2 * g c) (f' := fun u => g' (c + u) - g' (c - u))
    (a := 0) (b := t) (B := fun u => K * u ^ 2) (B' := fun u => 2 * K * u)
    (fun u _ => (hψ u).continuousAt.continuousWithinAt)
    (fun u _ => (hψ u).hasDerivWithinAt)
    (by simp; ring)
    (fun u _ => (hB u).continuousAt.continuousWithinAt)
    (fun u _ => (hB u).hasDerivWithinAt)
    (by
      intro u hu
      have h := deriv_lipschitz g' g'' K hg' hK (c - u) (c + u)
      have e : c + u - (c - u) = 2 * u := by ring
      rw [e, abs_of_nonneg (by linarith [hu.1] : (0 : ℝ) ≤ 2 * u)] at h
      rw [Real.norm_eq_abs]
      linarith)
  have := key (x := t) ⟨ht, le_refl t⟩
  simpa [Real.norm_eq_abs] using this

/-- one cell of the midpoint rule: centre `c`, half width `δ ≥ 0`. -/
theorem midpoint_cell_error (g g' g'' : ℝ → ℝ) (K : ℝ)
    (hg : ∀ x, HasDerivAt g (g' x) x) (hg' : ∀ x, HasDerivAt g' (g'' x) x) (hK : ∀ x, |g'' x| ≤ K)
    (c δ : ℝ) (hδ : 0 ≤ δ) :
    |(∫ x in (c - δ)..(c + δ), g x) - 2 * δ * g c| ≤ K * δ ^ 3 / 3 := by
  have hK0 := bound_nonneg hK
  have hcont : Continuous g := continuous_iff_continuousAt.mpr fun x => (hg x).continuousAt
  have hint : ∀ a b : ℝ, IntervalIntegrable g MeasureTheory.volume a b := fun a b => hcont.intervalIntegrable a b
  -- antiderivative G(x) = ∫_c^x g
  have hG : ∀ x : ℝ, HasDerivAt (fun u => ∫ y in c..u, g y) (g x) x :=
    fun x => (hcont.integral_hasStrictDerivAt c x).hasDerivAt
  have hsplit : ∀ u : ℝ, (∫ x in (c - u)..(c + u), g x) = (∫ y in c..(c + u), g y) - ∫ y in c..(c - u), g y :=
    fun u => (integral_interval_sub_left (hint c (c + u)) (hint c (c - u))).symm
  have hΦ : ∀ u : ℝ, HasDerivAt (fun u => (∫ x in (c - u)..(c + u), g x) - 2 * u * g c)
      (g (c + u) + g (c - u) - 2 * g c) u := by
    intro u
    have h1 : HasDerivAt (fun u => ∫ y in c..(c + u), g y) (g (c + u)) u :=
      (hG (c + u)).comp_const_add c u
    have h2 : HasDerivAt (fun u => ∫ y in c..(c - u), g y) (-(g (c - u))) u :=
      (hG (c - u)).comp_const_sub c u
    have h3 : HasDerivAt (fun u : ℝ => 2 * u * g c) (2 * g c) u := by
      have := ((hasDerivAt_id' u).const_mul (2 : ℝ)).mul_const (g c)
      simpa using this
    have := (h1.sub h2).sub h3
    have e : (fun u => (∫ x in (c - u)..(c + u), g x) - 2 * u * g c)
        = fun u => ((∫ y in c..(c + u), g y) - ∫ y in c..(c - u), g y) - 2 * u * g c := by
      funext u; rw [hsplit u]
    rw [e]
    exact this.congr_deriv (by ring)
  have hB : ∀ u : ℝ, HasDerivAt (fun u => K * u ^ 3 / 3) (K * u ^ 2) u := by
    intro u
    have := (((hasDerivAt_id' u).fun_pow 3).const_mul K).div_const 3
    exact this.congr_deriv (by simp; ring)
  have key := image_norm_le_of_norm_deriv_right_le_deriv_boundary'
    (f := fun u => (∫ x in (c - u)..(c + u), g x) - 2 * u * g c)
    (f' := fun u => g (c + u) + g (c - u) - 2 * g c)
    (a := 0) (b := δ) (B := fun u => K * u ^ 3 / 3) (B' := fun u => K * u ^ 2)
    (fun u _ => (hΦ u).continuousAt.continuousWithinAt)
    (fun u _ => (hΦ u).hasDerivWithinAt)
    (by simp)
    (fun u _ => (hB u).continuousAt.continuousWithinAt)
    (fun u _ => (hB u).hasDerivWithinAt)
    (by
      intro u hu
      rw [Real.norm_eq_abs]
      exact second_difference_bound g g' g'' K hg hg' hK c u hu.1)
  have := key (x := δ) ⟨hδ, le_refl δ⟩
  simpa [Real.norm_eq_abs] using this

/-- **composite midpoint rule**: `M` cells of width `h` starting at `a`. -/
theorem midpoint_rule_error (g g' g'' : ℝ → ℝ) (K : ℝ)
    (hg : ∀ x, HasDerivAt g (g' x) x) (hg' : ∀ x, HasDerivAt g' (g'' x) x) (hK : ∀ x, |g'' x| ≤ K)
    (a h : ℝ) (hh : 0 < h) (M : ℕ) :
    |∑ j ∈ Finset.range M, g (a + ((j : ℝ) + 1 / 2) * h) * h - ∫ x in a..(a + M * h), g x|
      ≤ K * M * h ^ 3 / 24 := by
  have hcont : Continuous g := continuous_iff_continuousAt.mpr fun x => (hg x).continuousAt
  have hsum := sum_integral_adjacent_intervals (f := g) (μ := MeasureTheory.volume)
    (a := fun k : ℕ => a + (k : ℝ) * h) (n := M) (fun k _ => hcont.intervalIntegrable _ _)
  simp only [Nat.cast_zero, zero_mul, add_zero] at hsum
  rw [← hsum, ← Finset.sum_sub_distrib]
  refine le_trans (Finset.abs_sum_le_sum_abs _ _) ?_
  have hcell : ∀ j ∈ Finset.range M,
      |g (a + ((j : ℝ) + 1 / 2) * h) * h - ∫ x in (a + (j : ℝ) * h)..(a + ((j + 1 : ℕ) : ℝ) * h), g x|
        ≤ K * h ^ 3 / 24 := by
    intro j _
    have hc := midpoint_cell_error g g' g'' K hg hg' hK (a + ((j : ℝ) + 1 / 2) * h) (h / 2) (by linarith)
    have e1 : a + ((j : ℝ) + 1 / 2) * h - h / 2 = a + (j : ℝ) * h := by ring
    have e2 : a + ((j : ℝ) + 1 / 2) * h + h / 2 = a + ((j + 1 : ℕ) : ℝ) * h := by push_cast; ring
    rw [e1, e2] at hc
    rw [abs_sub_comm]
    calc _ = |(∫ x in (a + (j : ℝ) * h)..(a + ((j + 1 : ℕ) : ℝ) * h), g x)
              - 2 * (h / 2) * g (a + ((j : ℝ) + 1 / 2) * h)| := by congr 1; ring
      _ ≤ K * (h / 2) ^ 3 / 3 := hc
      _ = K * h ^ 3 / 24 := by ring
  refine le_trans (Finset.sum_le_sum hcell) ?_
  rw [Finset.sum_const, Finset.card_range, nsmul_eq_mul]
  apply le_of_eq
  ring

/-- non-vacuity: `g = sin`, `g' = cos`, `g'' = −sin`, `K = 1`, the interval `[0, π]`
cut into `M` cells of width `π/M`. -/
example (M : ℕ) (hM : 0 < M) :
    |∑ j ∈ Finset.range M, Real.sin (0 + ((j : ℝ) + 1 / 2) * (Real.pi / M)) * (Real.pi / M)
        - ∫ x in (0 : ℝ)..(0 + M * (Real.pi / M)), Real.sin x|
      ≤ 1 * M * (Real.pi / M) ^ 3 / 24 :=
  midpoint_rule_error Real.sin Real.cos (fun x => -Real.sin x) 1 Real.hasDerivAt_sin Real.hasDerivAt_cos
    (fun x => by rw [abs_neg]; exact Real.abs_sin_le_one x) 0 (Real.pi / M)
    (div_pos Real.pi_pos (by exact_mod_cast hM)) M

end AurelVerif.HarmLemmas
