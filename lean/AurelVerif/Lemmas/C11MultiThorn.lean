/-
Lemmas/C11MultiThorn.lean — C11: facts about Model/MultiThorn.lean (the branch of
`read_ET_checkpoints` / `read_ET_group_or_var` taken when a requested name is answered by
several thorns of one file).
-/
import AurelVerif.Model.MultiThorn
namespace AurelVerif.MultiThornLemmas
open AurelVerif.Chunks AurelVerif.Checkpoint AurelVerif.MultiThorn
set_option linter.unusedSimpArgs false
set_option linter.unusedVariables false

/-- the candidate list `key` of variable `v` and component `c` -/
def keyOf {α : Type} (rel : List (DSet α)) (nochunks : Bool) (c : Option Nat) (v : String) : List (DSet α) :=
  if nochunks then rel.filter (fun d => matchesVar d v)
  else (rel.filter fun d => matchesVar d v).filter fun d => d.c == c

/-- reading the datasets `pick v` under the names `names`, in order -/
def readAll {α : Type} (pick : String → DSet α) (names : List String) (st : St α) : St α :=
  names.foldl (fun st v => st.read v (pick v)) st

theorem readAll_var {α : Type} (pick : String → DSet α) (names : List String) (st : St α) :
    (readAll pick names st).var = st.var := by
  induction names generalizing st with
  | nil => rfl
  | cons v rest ih => simp only [readAll, List.foldl_cons] at ih ⊢; rw [ih]; rfl

theorem pickKey_single {α : Type} (d : DSet α) (pool : List (DSet α)) (vi : Nat) (v : String) (st : St α) :
    pickKey [d] pool vi v st = some (v, st.read v d) := rfl

theorem pickKey_empty {α : Type} (pool : List (DSet α)) (vi : Nat) (v : String) (st : St α) :
    pickKey [] pool vi v st = none := rfl

/-- several datasets answer: the name is replaced by the first dataset's `THORN::var`, the other
`THORN::var` names are appended to the list, the first dataset is read under its combined name -/
theorem pickKey_multi {α : Type} (d0 d1 : DSet α) (rest pool : List (DSet α)) (vi : Nat) (v : String) (st : St α)
    (hsame : restSame (d0 :: d1 :: rest) = true) (hpool : pool.filter (nameIn (combined d0)) = [d0]) :
    pickKey (d0 :: d1 :: rest) pool vi v st
      = some (combined d0,
          ({ st with var := setAt st.var vi (combined d0) ++ (d1 :: rest).map combined } : St α).read (combined d0) d0) := by
  simp only [pickKey, hsame, if_true, hpool]

/-- the substring look-up finds a second dataset (`A::H` inside `BA::H`, `A::H` inside `A::H2`): ValueError -/
theorem pickKey_multi_substring_raises {α : Type} (d0 d1 : DSet α) (rest pool : List (DSet α)) (vi : Nat) (v : String)
    (st : St α) (e1 e2 : DSet α) (more : List (DSet α)) (hpool : pool.filter (nameIn (combined d0)) = e1 :: e2 :: more) :
    pickKey (d0 :: d1 :: rest) pool vi v st = none := by
  simp only [pickKey, hpool]
  split <;> rfl

/-- the datasets that answer differ in iteration / time level / level / component: ValueError -/
theorem pickKey_multi_rest_differs {α : Type} (d0 d1 : DSet α) (rest pool : List (DSet α)) (vi : Nat) (v : String)
    (st : St α) (h : restSame (d0 :: d1 :: rest) = false) : pickKey (d0 :: d1 :: rest) pool vi v st = none := by
  simp [pickKey, h]

theorem ckChunks_one {α : Type} (varkeys : List (DSet α)) (nochunks : Bool) (vi : Nat) (c : Option Nat) (v : String)
    (st : St α) :
    ckChunks varkeys nochunks vi [c] v st
      = pickKey (if nochunks then varkeys else varkeys.filter fun d => d.c == c) varkeys vi v st := by
  simp only [ckChunks]
  cases pickKey (if nochunks then varkeys else varkeys.filter fun d => d.c == c) varkeys vi v st with
  | none => rfl
  | some p => rfl

/-- one component per file (`crange = [c]`: no ` c=` at all, or one file per process): when every
name from position `vi` on selects exactly one dataset, the loop reads them in order and leaves the
variable list alone -/
theorem ckVars_singles {α : Type} (rel : List (DSet α)) (nochunks : Bool) (c : Option Nat) (pick : String → DSet α) :
    ∀ (fuel vi : Nat) (st : St α), st.var.length - vi < fuel →
      (∀ v ∈ st.var.drop vi, keyOf rel nochunks c v = [pick v]) →
      ckVars rel nochunks [c] fuel vi st = some (readAll pick (st.var.drop vi) st) := by
  intro fuel
  induction fuel with
  | zero => intro vi st h; omega
  | succ fuel ih =>
    intro vi st hf hk
    simp only [ckVars]
    cases hv : st.var[vi]? with
    | none =>
      have : st.var.length ≤ vi := by simpa using hv
      simp [readAll, List.drop_eq_nil_of_le this]
    | some v =>
      have hlt : vi < st.var.length := by
        rcases Nat.lt_or_ge vi st.var.length with h | h
        · exact h
        · have := List.getElem?_eq_none h; rw [this] at hv; cases hv
      have hget : st.var[vi] = v := by
        have := List.getElem?_eq_getElem hlt; rw [this] at hv; exact Option.some.inj hv
      have hdrop : st.var.drop vi = v :: st.var.drop (vi + 1) := by
        rw [← hget]; exact List.drop_eq_getElem_cons hlt
      have hkv := hk v (by rw [hdrop]; exact List.mem_cons_self ..)
      simp only [ckChunks_one]
      have hkey : (if nochunks then rel.filter (fun d => matchesVar d v)
          else (rel.filter fun d => matchesVar d v).filter fun d => d.c == c) = [pick v] := by
        simpa [keyOf] using hkv
      rw [hkey, pickKey_single]
      simp only
      have := ih (vi + 1) (st.read v (pick v)) (by simp only [St.read]; omega)
        (by
          intro w hw
          have : w ∈ st.var.drop (vi + 1) := by simpa [St.read] using hw
          exact hk w (by rw [hdrop]; exact List.mem_cons_of_mem _ this))
      rw [this, hdrop]
      simp [readAll, St.read]

/-- **one rewrite.**  The variable list is `pre ++ v :: post`, the loop stands at `v` (index
`pre.length`); `v` is answered by the datasets `d0, d1, ...` of several thorns (same iteration, time
level, level, component); the `THORN::var` name of `d0` is contained in no other candidate's name; every
later name — the rest of the list and the appended `THORN::var` names — selects exactly one dataset.
Then: the list becomes `pre ++ THORN0::var :: post ++ [THORN1::var, ...]`, `d0` is read under
`THORN0::var`, then the later names in order, each under its own name. -/
theorem ckVars_one_rewrite {α : Type} (rel : List (DSet α)) (nochunks : Bool) (c : Option Nat) (pick : String → DSet α)
    (pre post : List String) (v : String) (d0 d1 : DSet α) (rest : List (DSet α)) (st : St α) (fuel : Nat)
    (hvar : st.var = pre ++ v :: post) (hfuel : post.length + rest.length + 2 < fuel)
    (hkey : keyOf rel nochunks c v = d0 :: d1 :: rest) (hsame : restSame (d0 :: d1 :: rest) = true)
    (hpool : (rel.filter fun d => matchesVar d v).filter (nameIn (combined d0)) = [d0])
    (hlater : ∀ w ∈ post ++ (d1 :: rest).map combined, keyOf rel nochunks c w = [pick w]) :
    ckVars rel nochunks [c] fuel pre.length st
      = some (readAll pick (post ++ (d1 :: rest).map combined)
          (({ st with var := pre ++ combined d0 :: post ++ (d1 :: rest).map combined } : St α).read (combined d0) d0)) := by
  cases fuel with
  | zero => omega
  | succ fuel =>
    simp only [ckVars]
    have hv : st.var[pre.length]? = some v := by rw [hvar]; simp
    rw [hv]
    simp only [ckChunks_one]
    have hk : (if nochunks then rel.filter (fun d => matchesVar d v)
        else (rel.filter fun d => matchesVar d v).filter fun d => d.c == c) = d0 :: d1 :: rest := by
      simpa [keyOf] using hkey
    rw [hk, pickKey_multi d0 d1 rest _ pre.length v st hsame hpool]
    simp only
    have hset : setAt st.var pre.length (combined d0) ++ (d1 :: rest).map combined
        = pre ++ combined d0 :: post ++ (d1 :: rest).map combined := by
      rw [hvar]; simp [setAt]
    rw [hset]
    have hdrop : (pre ++ combined d0 :: post ++ (d1 :: rest).map combined).drop (pre.length + 1)
        = post ++ (d1 :: rest).map combined := by
      have : pre ++ combined d0 :: post ++ (d1 :: rest).map combined
          = (pre ++ [combined d0]) ++ (post ++ (d1 :: rest).map combined) := by simp
      rw [this, List.drop_left' (by simp)]
    have := ckVars_singles rel nochunks c pick fuel (pre.length + 1)
      (({ st with var := pre ++ combined d0 :: post ++ (d1 :: rest).map combined } : St α).read (combined d0) d0)
      (by simp [St.read]; omega)
      (by
        intro w hw
        have hw' : w ∈ post ++ (d1 :: rest).map combined := by
          have : w ∈ (pre ++ combined d0 :: post ++ (d1 :: rest).map combined).drop (pre.length + 1) := by
            simpa [St.read] using hw
          rw [hdrop] at this; exact this
        exact hlater w hw')
    rw [this]
    simp only [St.read, hdrop]

/-- the names before the rewritten one: `k` names that each select one dataset are read in order -/
theorem ckVars_prefix {α : Type} (rel : List (DSet α)) (nochunks : Bool) (c : Option Nat) (pick : String → DSet α) :
    ∀ (k fuel vi : Nat) (st : St α), vi + k ≤ st.var.length →
      (∀ v ∈ (st.var.drop vi).take k, keyOf rel nochunks c v = [pick v]) →
      ckVars rel nochunks [c] (fuel + k) vi st
        = ckVars rel nochunks [c] fuel (vi + k) (readAll pick ((st.var.drop vi).take k) st) := by
  intro k
  induction k with
  | zero => intro fuel vi st _ _; simp [readAll]
  | succ k ih =>
    intro fuel vi st hlen hk
    have hlt : vi < st.var.length := by omega
    obtain ⟨x, hx⟩ : ∃ x, st.var[vi]? = some x := ⟨_, List.getElem?_eq_getElem hlt⟩
    have hx' : st.var[vi] = x := by rw [List.getElem?_eq_getElem hlt] at hx; exact Option.some.inj hx
    have hdrop : st.var.drop vi = x :: st.var.drop (vi + 1) := by
      rw [← hx']; exact List.drop_eq_getElem_cons hlt
    have htk : (st.var.drop vi).take (k + 1) = x :: (st.var.drop (vi + 1)).take k := by rw [hdrop]; rfl
    have hfu : fuel + (k + 1) = (fuel + k) + 1 := by omega
    rw [hfu]
    simp only [ckVars, hx, ckChunks_one]
    have hkv := hk x (by rw [htk]; exact List.mem_cons_self ..)
    have hkey : (if nochunks then rel.filter (fun d => matchesVar d x)
        else (rel.filter fun d => matchesVar d x).filter fun d => d.c == c) = [pick x] := by
      simpa [keyOf] using hkv
    rw [hkey, pickKey_single]
    simp only
    have := ih fuel (vi + 1) (st.read x (pick x)) (by simp only [St.read]; omega)
      (by
        intro w hw
        have hw' : w ∈ (st.var.drop (vi + 1)).take k := by simpa [St.read] using hw
        exact hk w (by rw [htk]; exact List.mem_cons_of_mem _ hw'))
    rw [this]
    have e1 : vi + 1 + k = vi + (k + 1) := by omega
    rw [e1, htk]
    simp [readAll, St.read]

/-- **one file with one component per file (no ` c=`, or one file per process), one name of the request answered
by several thorns.**  Request `pre ++ v :: post`; every name of `pre`, of `post` and every appended `THORN::var`
selects exactly one dataset (`pick`); `v` is answered by `d0, d1, ...`.  After the file: the list is
`pre ++ THORN0::var :: post ++ [THORN1::var, ...]` and exactly these datasets were read, each under its name, in
this order — nothing dropped, nothing read twice. -/
theorem ckFile_one_rewrite {α : Type} (cmax : CMax) (f : CFile α) (iit rl : Nat) (nochunks : Bool) (c : Option Nat)
    (hcr : chunkRange cmax f (relevant f iit rl) = some (nochunks, [c]))
    (pick : String → DSet α) (pre post : List String) (v : String) (d0 d1 : DSet α) (rest : List (DSet α))
    (vc0 : VarChunks α) (last0 : Option (DSet α))
    (hpre : ∀ w ∈ pre, keyOf (relevant f iit rl) nochunks c w = [pick w])
    (hkey : keyOf (relevant f iit rl) nochunks c v = d0 :: d1 :: rest) (hsame : restSame (d0 :: d1 :: rest) = true)
    (hpool : ((relevant f iit rl).filter fun d => matchesVar d v).filter (nameIn (combined d0)) = [d0])
    (hlater : ∀ w ∈ post ++ (d1 :: rest).map combined, keyOf (relevant f iit rl) nochunks c w = [pick w]) :
    ckFile cmax iit rl ⟨pre ++ v :: post, vc0, last0⟩ f
      = some (readAll pick (post ++ (d1 :: rest).map combined)
          (({ (readAll pick pre ⟨pre ++ v :: post, vc0, last0⟩) with
              var := pre ++ combined d0 :: post ++ (d1 :: rest).map combined } : St α).read (combined d0) d0)) := by
  unfold ckFile
  simp only [hcr]
  -- the candidate list is part of the relevant datasets
  have hlen : rest.length + 2 ≤ (relevant f iit rl).length := by
    have h1 : (keyOf (relevant f iit rl) nochunks c v).length ≤ (relevant f iit rl).length := by
      unfold keyOf
      split
      · exact List.length_filter_le _ _
      · exact Nat.le_trans (List.length_filter_le _ _) (List.length_filter_le _ _)
    rw [hkey] at h1
    simpa using h1
  have hfuel : ∀ R, R = (relevant f iit rl).length →
      fuelFor (⟨pre ++ v :: post, vc0, last0⟩ : St α) (relevant f iit rl)
      = ((pre.length + (post.length + 1) + R + 1) * (R + 1) - pre.length) + pre.length := by
    intro R hR
    unfold fuelFor
    simp only [List.length_append, List.length_cons, ← hR]
    have : pre.length ≤ (pre.length + (post.length + 1) + R + 1) * (R + 1) := by
      have : pre.length ≤ pre.length + (post.length + 1) + R + 1 := by omega
      exact Nat.le_trans this (Nat.le_mul_of_pos_right _ (by omega))
    omega
  generalize hR : (relevant f iit rl).length = R at hlen
  rw [hfuel R hR.symm]
  have hp := ckVars_prefix (relevant f iit rl) nochunks c pick pre.length
    ((pre.length + (post.length + 1) + R + 1) * (R + 1) - pre.length) 0 (⟨pre ++ v :: post, vc0, last0⟩ : St α)
    (by simp) (by
      intro w hw
      have : w ∈ pre := by simpa using hw
      exact hpre w this)
  rw [hp]
  simp only [List.drop_zero, List.take_left', Nat.zero_add]
  have := ckVars_one_rewrite (relevant f iit rl) nochunks c pick pre post v d0 d1 rest
    (readAll pick pre ⟨pre ++ v :: post, vc0, last0⟩)
    ((pre.length + (post.length + 1) + R + 1) * (R + 1) - pre.length)
    (by rw [readAll_var])
    (by
      have h1 : (pre.length + (post.length + 1) + R + 1) * 1 ≤ (pre.length + (post.length + 1) + R + 1) * (R + 1) :=
        Nat.mul_le_mul_left _ (by omega)
      omega)
    hkey hsame hpool hlater
  rw [this]

end AurelVerif.MultiThornLemmas
