/-
Lemmas/C05Compat.lean — property C05, Layer B (consistency): metric compatibility
(T8) and the Lie derivative of the metric in covariant form (T10).

T8 needs no property of the operator `e.D` at all (only `2 ≠ 0`, γ symmetric and
γ⁻¹γ = 1): it is exact for the finite-difference operators.
T10 needs the product rule for `β_j = β^k γ_kj` only; that single instance is a
hypothesis (`ProdRuleBeta`), derived from `Deriv` (additive + Leibniz) below.  The
finite-difference operators satisfy it only up to truncation error — T10 is a
continuum-limit consistency statement.
-/
import AurelVerif.Lemmas.C05Lie

set_option linter.unusedSimpArgs false
set_option linter.unusedVariables false
set_option linter.unusedSectionVars false

namespace AurelVerif.C05L
open AurelVerif.Gen.Core AurelVerif.Tensor AurelVerif.CoreTac AurelVerif.C08 AurelVerif.Spec.Covd

variable {K : Type} [Field K]

/-- the metric data of one point: γ symmetric, γ⁻¹ symmetric, γ⁻¹γ = 1, and the cached
connection is the one the code computes from them. -/
structure MetricOK (e : Env K) : Prop where
  hs : Sym e.gammadown3
  hsu : Sym e.gammaup3
  hinv : ∀ i k, ∑ j, e.gammaup3 i j * e.gammadown3 j k = delta i k
  hG : e.s_Gamma_udd3 = s_Gamma_udd3 e

/-- `MetricOK` holds when `gammaup3` and `s_Gamma_udd3` are the code's own values and det γ ≠ 0. -/
theorem metricOK_of_code (e : Env K) (hs : Sym e.gammadown3) (hd : gammadet e ≠ 0)
    (hu : e.gammaup3 = gammaup3 e) (hG : e.s_Gamma_udd3 = s_Gamma_udd3 e) : MetricOK e := by
  refine ⟨hs, ?_, ?_, hG⟩
  · rw [hu, gammaup3_is_inverse]; exact inverse3_symm e e.gammadown3 hs
  · intro i k; rw [hu]; exact gammaup3_mul e hs hd i k

/-- `Σ_m γ_{mb} γ^{mj} X_j = X_b`. -/
theorem contract_inv (gu gd : Fin 3 → Fin 3 → K) (hr : ∀ j b, ∑ m, gd m b * gu m j = delta j b)
    (X : Fin 3 → K) (b : Fin 3) : ∑ m, (∑ j, gu m j * X j) * gd m b = X b := by
  have h0 := hr 0 b; have h1 := hr 1 b; have h2 := hr 2 b
  revert b
  cases3 <;>
    (intro h0 h1 h2
     simp only [delta, Fin.sum_univ_three] at h0 h1 h2 ⊢
     simp at h0 h1 h2
     linear_combination X 0 * h0 + X 1 * h1 + X 2 * h2)

/-- `(γ^{ml} X_l)(β^k γ_{km}) = X_l β^l`. -/
theorem contract_inv2 (gu gd : Fin 3 → Fin 3 → K) (h : ∀ l k, ∑ m, gd k m * gu m l = delta l k)
    (X β : Fin 3 → K) : ∑ m, (∑ l, gu m l * X l) * (∑ k, β k * gd k m) = ∑ l, X l * β l := by
  have h00 := h 0 0; have h01 := h 0 1; have h02 := h 0 2
  have h10 := h 1 0; have h11 := h 1 1; have h12 := h 1 2
  have h20 := h 2 0; have h21 := h 2 1; have h22 := h 2 2
  simp only [delta, Fin.sum_univ_three] at *
  simp at h00 h01 h02 h10 h11 h12 h20 h21 h22
  linear_combination X 0 * β 0 * h00 + X 0 * β 1 * h01 + X 0 * β 2 * h02 + X 1 * β 0 * h10
    + X 1 * β 1 * h11 + X 1 * β 2 * h12 + X 2 * β 0 * h20 + X 2 * β 1 * h21 + X 2 * β 2 * h22

/-- right-inverse forms of `γ⁻¹γ = 1` for symmetric γ, γ⁻¹. -/
theorem MetricOK.hr (e : Env K) (h : MetricOK e) (j b : Fin 3) :
    ∑ m, e.gammadown3 m b * e.gammaup3 m j = delta j b := by
  rw [← h.hinv j b]
  exact Finset.sum_congr rfl (fun m _ => by rw [h.hsu m j]; ring)

theorem MetricOK.hr' (e : Env K) (h : MetricOK e) (l k : Fin 3) :
    ∑ m, e.gammadown3 k m * e.gammaup3 m l = delta l k := by
  rw [← h.hr e l k]
  exact Finset.sum_congr rfl (fun m _ => by rw [h.hs k m])

/-- lowering the code's connection gives the Christoffel symbol of the first kind:
`γ_{mb} Γ^m_{ca} = Γ_{bca}`. -/
theorem lower_Gamma (e : Env K) (h : MetricOK e) (b c a : Fin 3) :
    ∑ m, e.s_Gamma_udd3 m c a * e.gammadown3 m b = christoffel1 e.D e.gammadown3 b c a := by
  rw [h.hG]
  simp only [s_Gamma_udd3_spec e h.hs, christoffel2]
  exact contract_inv e.gammaup3 e.gammadown3 (h.hr e) (fun j => christoffel1 e.D e.gammadown3 j c a) b

/-- **T8 metric compatibility** `D_c γ_ab = 0`: the code's `s_covd(γ, 'dd')` vanishes identically when the
cached connection is the code's Christoffel symbol of a symmetric γ with γ⁻¹γ = 1 (`2 ≠ 0` in `K`).
Holds for EVERY operator `e.D` — in particular exactly for the finite-difference operators. -/
theorem metric_compat_dd (e : Env K) (h : MetricOK e) (h2 : (2 : K) ≠ 0) (c a b : Fin 3) :
    s_covd_dd e e.gammadown3 c a b = 0 := by
  rw [s_covd_dd_spec]
  simp only [covdDD, pd2]
  have l2 : ∑ m, e.s_Gamma_udd3 m c b * e.gammadown3 a m = christoffel1 e.D e.gammadown3 a c b := by
    rw [← lower_Gamma e h a c b]
    exact Finset.sum_congr rfl (fun m _ => by rw [h.hs a m])
  rw [lower_Gamma e h b c a, l2]
  simp only [christoffel1, h.hs b a, h.hs c a, h.hs c b]
  field_simp
  ring

/-! ### T10 -/

/-- the operator differentiates `β_j = β^k γ_kj` by the product rule (the only property of `D` used by T10). -/
def ProdRuleBeta (e : Env K) : Prop :=
  ∀ c a, e.D c (e.betadown3 a)
    = ∑ k, (e.D c (e.betaup3 k) * e.gammadown3 k a + e.betaup3 k * e.D c (e.gammadown3 k a))

/-- additive + Leibniz operator (holds in the continuum limit only). -/
structure Deriv (D : Fin 3 → K → K) : Prop where
  add : ∀ i x y, D i (x + y) = D i x + D i y
  mul : ∀ i x y, D i (x * y) = D i x * y + x * D i y

theorem prodRuleBeta_of_deriv (e : Env K) (hD : Deriv e.D) (hbd : e.betadown3 = betadown3 e) :
    ProdRuleBeta e := by
  intro c a
  rw [hbd]
  revert a
  cases3 <;> (simp only [core_unfold, Fin.sum_univ_three, hD.add, hD.mul])

/-- **T10** `L_β γ_ij = D_i β_j + D_j β_i` with the code's `Lie_beta 's_dd'`, the code's `s_covd 'd'`
and `β_j = β^k γ_kj`.  Layer B: uses the product rule for `β^k γ_kj`. -/
theorem lie_of_metric (e : Env K) (h : MetricOK e) (h2 : (2 : K) ≠ 0)
    (hbd : e.betadown3 = betadown3 e) (hp : ProdRuleBeta e) (i j : Fin 3) :
    Lie_beta_s_dd e e.gammadown3 i j = s_covd_d e e.betadown3 i j + s_covd_d e e.betadown3 j i := by
  have hp' : ∀ c a, e.D c (e.betadown3 a)
      = ∑ k, (e.D c (e.betaup3 k) * e.gammadown3 k a + e.betaup3 k * e.D c (e.gammadown3 k a)) := hp
  rw [Lie_beta_s_dd_spec, s_covd_d_spec, s_covd_d_spec]
  simp only [lieDD, covdD, pd1, pd2, dbeta, hp']
  have hb : ∀ m, e.betadown3 m = ∑ k, e.betaup3 k * e.gammadown3 k m := by
    intro m; rw [hbd]; exact betadown3_spec e m
  have lG : ∀ i j, ∑ m, e.s_Gamma_udd3 m i j * e.betadown3 m
      = ∑ l, christoffel1 e.D e.gammadown3 l i j * e.betaup3 l := by
    intro i j
    simp only [hb, h.hG, s_Gamma_udd3_spec e h.hs, christoffel2]
    exact contract_inv2 e.gammaup3 e.gammadown3 (h.hr' e) (fun l => christoffel1 e.D e.gammadown3 l i j) e.betaup3
  rw [lG i j, lG j i]
  simp only [christoffel1, Fin.sum_univ_three, h.hs j i, h.hs j 0, h.hs j 1, h.hs j 2, h.hs i 0, h.hs i 1, h.hs i 2]
  field_simp
  ring

end AurelVerif.C05L
