/-
Lemmas/C10Weyl.lean — facts about the textbook expressions of Spec/Weyl.lean
(no generated code here): symmetries and trace-freeness of the Weyl expression,
symmetries of the E/B construction, trace-free parts, null tetrad algebra,
Gram–Schmidt, tetrad invariance of I and J.
-/
import AurelVerif.Spec.Weyl
import AurelVerif.Model.WeylNP
import Mathlib.Tactic.Ring
import Mathlib.Tactic.FieldSimp
import Mathlib.Tactic.LinearCombination
import Mathlib.Tactic.NormNum
import Mathlib.Algebra.BigOperators.Ring.Finset

set_option linter.unusedSimpArgs false
set_option linter.unusedVariables false

namespace AurelVerif.C10
open AurelVerif.Spec.Weyl AurelVerif.Model.WeylNP AurelVerif.Tensor

section field
variable {K : Type} [Field K]

/-! ### Weyl expression: Riemann symmetries -/

theorem weyl_riemannSym (g : Fin 4 → Fin 4 → K) (Riem : Fin 4 → Fin 4 → Fin 4 → Fin 4 → K)
    (Ric : Fin 4 → Fin 4 → K) (R : K) (hR : RiemannSym Riem) (hg : Symm g) (hRic : Symm Ric) :
    RiemannSym (weyl g Riem Ric R) := by
  refine ⟨fun a b c d => ?_, fun a b c d => ?_, fun a b c d => ?_⟩
  · unfold weyl
    linear_combination hR.anti12 a b c d
      + (1 / 6) * R * (g a c * hg d b + g b d * hg a c - g a d * hg c b - g b c * hg a d)
  · unfold weyl
    linear_combination hR.anti34 a b c d
  · unfold weyl
    linear_combination hR.pair a b c d
      - (1 / 2) * ((g a c * hRic d b + Ric b d * hg a c) - (g a d * hRic c b + Ric b c * hg a d)
          - (g b c * hRic d a + Ric a d * hg b c) + (g b d * hRic c a + Ric a c * hg b d))
      + (1 / 6) * R * (g a c * hg d b + g b d * hg a c)

/-- the expression with the OLD signs is not antisymmetric in its first pair, already for the
flat metric with a non-zero Ricci tensor: the antisymmetry theorem separates the two versions. -/
theorem weylOldSigns_not_antisymmetric :
    ¬ (∀ (g : Fin 4 → Fin 4 → ℚ) (Riem : Fin 4 → Fin 4 → Fin 4 → Fin 4 → ℚ) (Ric : Fin 4 → Fin 4 → ℚ) (R : ℚ),
        RiemannSym Riem → Symm g → Symm Ric →
        ∀ a b c d, weylOldSigns g Riem Ric R a b c d = -weylOldSigns g Riem Ric R b a c d) := by
  intro h
  have := h (fun i j => if i = j then 1 else 0) (fun _ _ _ _ => 0)
    (fun i j => if i = 0 ∧ j = 0 then 1 else 0) 0
    ⟨fun _ _ _ _ => by simp, fun _ _ _ _ => by simp, fun _ _ _ _ => rfl⟩
    (fun i j => by by_cases hij : i = j <;> simp [hij, eq_comm])
    (fun i j => by simp only [and_comm]) 0 1 0 1
  simp [weylOldSigns] at this
  norm_num at this

/-! ### Weyl expression: trace-free -/

theorem weyl_tracefree (g gup : Fin 4 → Fin 4 → K) (Riem : Fin 4 → Fin 4 → Fin 4 → Fin 4 → K)
    (Ric : Fin 4 → Fin 4 → K) (R : K) (hg : Symm g) (hgup : Symm gup) (hRicS : Symm Ric)
    (hinv : ∀ a b, ∑ c, gup a c * g c b = if a = b then 1 else 0)
    (hRic : ∀ b d, Ric b d = ∑ a, ∑ c, gup a c * Riem a b c d)
    (hR : R = ∑ b, ∑ d, gup b d * Ric b d)
    (h2 : (2 : K) ≠ 0) (h3 : (3 : K) ≠ 0) (b d : Fin 4) :
    ∑ a, ∑ c, gup a c * weyl g Riem Ric R a b c d = 0 := by
  -- g^{ac} g_{ad} = δ^c_d in the two index placements that occur
  have hinv' : ∀ c d, ∑ a, gup a c * g a d = if c = d then 1 else 0 := by
    intro c d; rw [← hinv c d]; exact Finset.sum_congr rfl fun a _ => by rw [hgup a c]
  have hinv'' : ∀ a b, ∑ c, gup a c * g b c = if a = b then 1 else 0 := by
    intro a b; rw [← hinv a b]; exact Finset.sum_congr rfl fun c _ => by rw [hg b c]
  have hdim : ∑ a, ∑ c, gup a c * g a c = 4 := by
    have : ∀ a, ∑ c, gup a c * g a c = 1 := fun a => by rw [hinv'' a a, if_pos rfl]
    simp only [this, Fin.sum_univ_four]; norm_num
  have P1 : ∑ a, ∑ c, gup a c * Riem a b c d = Ric b d := (hRic b d).symm
  have P3 : ∑ a, ∑ c, gup a c * g a d * Ric c b = Ric d b := by
    rw [Finset.sum_comm]
    simp only [← Finset.sum_mul, hinv', ite_mul, one_mul, zero_mul, Finset.sum_ite_eq', Finset.mem_univ,
      if_true]
  have P4 : ∑ a, ∑ c, gup a c * g b c * Ric d a = Ric d b := by
    simp only [← Finset.sum_mul, hinv'', ite_mul, one_mul, zero_mul, Finset.sum_ite_eq', Finset.mem_univ,
      if_true]
  have P5 : ∑ a, ∑ c, gup a c * Ric c a = R := by
    rw [hR]; exact Finset.sum_congr rfl fun a _ => Finset.sum_congr rfl fun c _ => by rw [hRicS c a]
  have P7 : ∑ a, ∑ c, gup a c * g a d * g c b = g d b := by
    rw [Finset.sum_comm]
    simp only [← Finset.sum_mul, hinv', ite_mul, one_mul, zero_mul, Finset.sum_ite_eq', Finset.mem_univ,
      if_true]
  have hh : (1 / 2 : K) * 2 = 1 := by field_simp
  have hs : (1 / 6 : K) * 6 = 1 := by
    have h6 : (6 : K) ≠ 0 := by
      have : (6 : K) = 2 * 3 := by norm_num
      rw [this]; exact mul_ne_zero h2 h3
    field_simp
  have hRbd := hRicS b d
  have hgbd := hg b d
  unfold weyl
  generalize (1 / 2 : K) = h at hh ⊢
  generalize (1 / 6 : K) = s at hs ⊢
  simp only [Fin.sum_univ_four] at hdim P1 P3 P4 P5 P7 ⊢
  linear_combination P1 - h * (Ric d b * hdim - P3 - P4 + g b d * P5) + s * R * (g d b * hdim - P7)
    + hRbd - Ric d b * hh - h * R * hgbd + R * g d b * (h * hs - 3 * s * hh)

/-! ### E/B construction: Riemann symmetries (no hypothesis on `B`, `n`) -/

theorem lproj_symm (g : Fin 4 → Fin 4 → K) (n : Fin 4 → K) (hg : Symm g) : Symm (lproj g n) :=
  fun a b => by unfold lproj; rw [hg a b]; ring

theorem weylEB_riemannSym (l E B : Fin 4 → Fin 4 → K) (n : Fin 4 → K) (eps : Fin 4 → Fin 4 → Fin 4 → K)
    (hl : Symm l) (hE : Symm E) (heps : ∀ e a b, eps e a b = -eps e b a) :
    RiemannSym (weylEB l E B n eps) := by
  refine ⟨fun a b c d => ?_, fun a b c d => ?_, fun a b c d => ?_⟩
  · simp only [weylEB, Fin.sum_univ_four, heps _ a b]; ring
  · simp only [weylEB, Fin.sum_univ_four, heps _ c d]; ring
  · simp only [weylEB, Fin.sum_univ_four, hl c a, hE b d, hl c b, hE a d, hl d a, hE b c, hl d b, hE a c]
    ring

theorem epsUdd_antisymm (gup : Fin 4 → Fin 4 → K) (nup : Fin 4 → K) (LC : Fin 4 → Fin 4 → Fin 4 → Fin 4 → K)
    (hLC : ∀ d c a b, LC d c a b = -LC d c b a) (e a b : Fin 4) :
    epsUdd gup nup LC e a b = -epsUdd gup nup LC e b a := by
  simp only [epsUdd, Fin.sum_univ_four, hLC _ _ a b]; ring

/-! ### trace-free part -/

theorem tracefree_symm (γup γ f : Fin 3 → Fin 3 → K) (hγ : Symm γ) (hf : Symm f) : Symm (tracefree γup γ f) :=
  fun i j => by unfold tracefree; rw [hγ i j, hf i j]

theorem tracefree_traceless (γup γ f : Fin 3 → Fin 3 → K) (h3ne : (3 : K) ≠ 0)
    (h3 : ∑ i, ∑ j, γup i j * γ i j = 3) : ∑ i, ∑ j, γup i j * tracefree γup γ f i j = 0 := by
  have ht : (1 / 3 : K) * 3 = 1 := by field_simp
  unfold tracefree
  generalize (1 / 3 : K) = t at ht ⊢
  simp only [Fin.sum_univ_three] at h3 ⊢
  linear_combination (-(t * (γup 0 0 * f 0 0 + γup 0 1 * f 0 1 + γup 0 2 * f 0 2
      + (γup 1 0 * f 1 0 + γup 1 1 * f 1 1 + γup 1 2 * f 1 2)
      + (γup 2 0 * f 2 0 + γup 2 1 * f 2 1 + γup 2 2 * f 2 2)))) * h3
    - (γup 0 0 * f 0 0 + γup 0 1 * f 0 1 + γup 0 2 * f 0 2
      + (γup 1 0 * f 1 0 + γup 1 1 * f 1 1 + γup 1 2 * f 1 2)
      + (γup 2 0 * f 2 0 + γup 2 1 * f 2 1 + γup 2 2 * f 2 2)) * ht

theorem eweylCore_symm (γup Ric Kd : Fin 3 → Fin 3 → K) (Ktr : K) (hγ : Symm γup) (hRic : Symm Ric)
    (hK : Symm Kd) : Symm (eweylCore γup Ric Kd Ktr) := by
  intro i j
  simp only [eweylCore, Fin.sum_univ_three, hRic i j, hK i j, hK i 0, hK i 1, hK i 2, hK 0 j, hK 1 j, hK 2 j,
    hγ 1 0, hγ 2 0, hγ 2 1]
  ring

theorem eweylN_symm (γup γ Ric Kd S : Fin 3 → Fin 3 → K) (Ktr κ : K) (vac : Bool)
    (hγu : Symm γup) (hγ : Symm γ) (hRic : Symm Ric) (hK : Symm Kd) (hS : Symm S) :
    Symm (eweylN γup γ Ric Kd S Ktr κ vac) := by
  intro i j
  have h1 := tracefree_symm γup γ _ hγ (eweylCore_symm γup Ric Kd Ktr hγu hRic hK) i j
  have h2 := tracefree_symm γup γ S hγ hS i j
  unfold eweylN
  cases vac <;> simp only [Bool.false_eq_true, if_false, if_true, h1, h2]

theorem eweylN_traceless (γup γ Ric Kd S : Fin 3 → Fin 3 → K) (Ktr κ : K) (vac : Bool) (h3ne : (3 : K) ≠ 0)
    (h3 : ∑ i, ∑ j, γup i j * γ i j = 3) :
    ∑ i, ∑ j, γup i j * eweylN γup γ Ric Kd S Ktr κ vac i j = 0 := by
  have h1 := tracefree_traceless γup γ (eweylCore γup Ric Kd Ktr) h3ne h3
  have h2 := tracefree_traceless γup γ S h3ne h3
  unfold eweylN
  cases vac
  · simp only [Bool.false_eq_true, if_false, Fin.sum_univ_three] at h1 h2 ⊢
    linear_combination h1 - (1 / 2) * κ * h2
  · simp only [if_true]; exact h1

end field

/-! ### Newman–Penrose part: any commutative ring with `I² = −1` -/

section ring
variable {R : Type} [CommRing R]

/-- the code's operand order of Ψ1, `C(l,k,m,k)`, is the textbook `C(k,l,k,m)` for every tensor
antisymmetric in each index pair. -/
theorem contract4_psi1 (C : Fin 4 → Fin 4 → Fin 4 → Fin 4 → R)
    (h12 : ∀ a b c d, C a b c d = -C b a c d) (h34 : ∀ a b c d, C a b c d = -C a b d c)
    (l k m : Fin 4 → R) :
    contract4 C l k m k = contract4 C k l k m := by
  have h : ∀ a b c d, C a b c d = C b a d c := fun a b c d => by
    rw [h12 a b c d, h34 b a c d]; ring
  unfold contract4
  rw [Finset.sum_comm]
  refine Finset.sum_congr rfl fun a _ => Finset.sum_congr rfl fun b _ => ?_
  rw [Finset.sum_comm]
  refine Finset.sum_congr rfl fun c _ => Finset.sum_congr rfl fun d _ => ?_
  rw [h a b c d]; ring

theorem invI_rotI (ab : R) (Ψ : Scalars R) : invI (rotI ab Ψ) = invI Ψ := by
  simp only [invI, rotI]; ring
theorem invJ_rotI (ab : R) (Ψ : Scalars R) : invJ (rotI ab Ψ) = invJ Ψ := by
  simp only [invJ, rotI]; ring
theorem invI_rotII (b : R) (Ψ : Scalars R) : invI (rotII b Ψ) = invI Ψ := by
  simp only [invI, rotII]; ring
theorem invJ_rotII (b : R) (Ψ : Scalars R) : invJ (rotII b Ψ) = invJ Ψ := by
  simp only [invJ, rotII]; ring
theorem invI_rotIII (z w : R) (hzw : z * w = 1) (Ψ : Scalars R) : invI (rotIII z w Ψ) = invI Ψ := by
  simp only [invI, rotIII]
  linear_combination (Ψ.p0 * Ψ.p4 * (z * w + 1) - 4 * Ψ.p1 * Ψ.p3) * hzw
theorem invJ_rotIII (z w : R) (hzw : z * w = 1) (Ψ : Scalars R) : invJ (rotIII z w Ψ) = invJ Ψ := by
  simp only [invJ, rotIII]
  linear_combination ((z * w + 1) * (Ψ.p4 * Ψ.p2 * Ψ.p0 - Ψ.p4 * Ψ.p1 * Ψ.p1 - Ψ.p3 * Ψ.p3 * Ψ.p0)
    + 2 * Ψ.p1 * Ψ.p2 * Ψ.p3) * hzw
theorem invI_swapKL (Ψ : Scalars R) : invI (swapKL Ψ) = invI Ψ := by
  simp only [invI, swapKL]; ring
theorem invJ_swapKL (Ψ : Scalars R) : invJ (swapKL Ψ) = invJ Ψ := by
  simp only [invJ, swapKL]; ring

/-! null tetrad from an orthonormal tetrad -/

theorem ip_comm {n : Nat} (g : Fin n → Fin n → R) (hg : ∀ a b, g a b = g b a) (u v : Fin n → R) :
    ip g u v = ip g v u := by
  unfold ip
  rw [Finset.sum_comm]
  exact Finset.sum_congr rfl fun a _ => Finset.sum_congr rfl fun b _ => by rw [hg b a]; ring

theorem ip_add_mul_left {n : Nat} (g : Fin n → Fin n → R) (x y w : Fin n → R) (c : R) :
    ip g (fun a => x a + c * y a) w = ip g x w + c * ip g y w := by
  unfold ip
  simp only [Finset.mul_sum, ← Finset.sum_add_distrib]
  exact Finset.sum_congr rfl fun a _ => Finset.sum_congr rfl fun b _ => by ring

theorem ip_sub_mul_left {n : Nat} (g : Fin n → Fin n → R) (x y w : Fin n → R) (c : R) :
    ip g (fun a => x a - c * y a) w = ip g x w - c * ip g y w := by
  unfold ip
  simp only [Finset.mul_sum, ← Finset.sum_sub_distrib]
  exact Finset.sum_congr rfl fun a _ => Finset.sum_congr rfl fun b _ => by ring

theorem ip_add_mul_right {n : Nat} (g : Fin n → Fin n → R) (x y w : Fin n → R) (c : R) :
    ip g w (fun a => x a + c * y a) = ip g w x + c * ip g w y := by
  unfold ip
  simp only [Finset.mul_sum, ← Finset.sum_add_distrib]
  exact Finset.sum_congr rfl fun a _ => Finset.sum_congr rfl fun b _ => by ring

theorem ip_sub_mul_right {n : Nat} (g : Fin n → Fin n → R) (x y w : Fin n → R) (c : R) :
    ip g w (fun a => x a - c * y a) = ip g w x - c * ip g w y := by
  unfold ip
  simp only [Finset.mul_sum, ← Finset.sum_sub_distrib]
  exact Finset.sum_congr rfl fun a _ => Finset.sum_congr rfl fun b _ => by ring

theorem ip_mul_left {n : Nat} (g : Fin n → Fin n → R) (x w : Fin n → R) (c : R) :
    ip g (fun a => x a * c) w = c * ip g x w := by
  unfold ip
  simp only [Finset.mul_sum]
  exact Finset.sum_congr rfl fun a _ => Finset.sum_congr rfl fun b _ => by ring

theorem ip_mul_right {n : Nat} (g : Fin n → Fin n → R) (x w : Fin n → R) (c : R) :
    ip g w (fun a => x a * c) = c * ip g w x := by
  unfold ip
  simp only [Finset.mul_sum]
  exact Finset.sum_congr rfl fun a _ => Finset.sum_congr rfl fun b _ => by ring

end ring

section np_field
variable {K : Type} [Field K]

/-- `null_vector_base` turns an orthonormal tetrad into a null tetrad:
`l·k = −1`, `m·m̄ = 1`, every other product 0 (`s² = ½`, `I² = −1`). -/
theorem nullVectorBase_isNull (g : Fin 4 → Fin 4 → K) (s I : K) (hs : 2 * s ^ 2 = 1) (hI : I ^ 2 = -1)
    (E : Fin 4 → Fin 4 → K) (hE : Orthonormal g E) : IsNullTetrad g (nullVectorBase s I E) := by
  have e00 : ip g (E 0) (E 0) = -1 := by rw [hE 0 0]; simp [eta]
  have e11 : ip g (E 1) (E 1) = 1 := by rw [hE 1 1]; simp [eta]
  have e22 : ip g (E 2) (E 2) = 1 := by rw [hE 2 2]; simp [eta]
  have e33 : ip g (E 3) (E 3) = 1 := by rw [hE 3 3]; simp [eta]
  have off : ∀ a b : Fin 4, a ≠ b → ip g (E a) (E b) = 0 := fun a b hab => by rw [hE a b]; simp [eta, hab]
  have e01 := off 0 1 (by decide); have e10 := off 1 0 (by decide)
  have e02 := off 0 2 (by decide); have e20 := off 2 0 (by decide)
  have e03 := off 0 3 (by decide); have e30 := off 3 0 (by decide)
  have e12 := off 1 2 (by decide); have e21 := off 2 1 (by decide)
  have e13 := off 1 3 (by decide); have e31 := off 3 1 (by decide)
  have e23 := off 2 3 (by decide); have e32 := off 3 2 (by decide)
  constructor <;> simp only [nullVectorBase, ip, Fin.sum_univ_four] at *
  · linear_combination s ^ 2 * (e00 + e01 - e10 - e11) - hs
  · linear_combination s ^ 2 * (e22 - I * e23 + I * e32 - I ^ 2 * e33) + hs - s ^ 2 * hI
  · linear_combination s ^ 2 * (e00 - e01 - e10 + e11)
  · linear_combination s ^ 2 * (e00 + e01 + e10 + e11)
  · linear_combination s ^ 2 * (e22 + I * e23 + I * e32 + I ^ 2 * e33) + s ^ 2 * hI
  · linear_combination s ^ 2 * (e22 - I * e23 - I * e32 + I ^ 2 * e33) + s ^ 2 * hI
  · linear_combination s ^ 2 * (e02 + I * e03 - e12 - I * e13)
  · linear_combination s ^ 2 * (e02 - I * e03 - e12 + I * e13)
  · linear_combination s ^ 2 * (e02 + I * e03 + e12 + I * e13)
  · linear_combination s ^ 2 * (e02 - I * e03 + e12 - I * e13)

/-! Gram–Schmidt -/

theorem ip_div_left {n : Nat} (g : Fin n → Fin n → K) (x w : Fin n → K) (N : K) :
    ip g (fun i => x i / N) w = ip g x w / N := by
  have : (fun i => x i / N) = fun i => x i * N⁻¹ := by funext i; rw [div_eq_mul_inv]
  rw [this, ip_mul_left, div_eq_mul_inv]; ring

theorem ip_div_right {n : Nat} (g : Fin n → Fin n → K) (x w : Fin n → K) (N : K) :
    ip g w (fun i => x i / N) = ip g w x / N := by
  have : (fun i => x i / N) = fun i => x i * N⁻¹ := by funext i; rw [div_eq_mul_inv]
  rw [this, ip_mul_right, div_eq_mul_inv]; ring

theorem ip_sub_sum_left {n k : Nat} (g : Fin n → Fin n → K) (v w : Fin n → K) (c : Fin k → K)
    (e : Fin k → Fin n → K) :
    ip g (fun i => v i - ∑ a : Fin k, c a * e a i) w = ip g v w - ∑ a : Fin k, c a * ip g (e a) w := by
  unfold ip
  have h : ∀ i j, g i j * (v i - ∑ a : Fin k, c a * e a i) * w j
      = g i j * v i * w j - ∑ a : Fin k, c a * (g i j * e a i * w j) := by
    intro i j
    rw [mul_sub, sub_mul, Finset.mul_sum, Finset.sum_mul]
    congr 1
    exact Finset.sum_congr rfl fun a _ => by ring
  simp only [h, Finset.sum_sub_distrib, Finset.mul_sum]
  congr 1
  calc ∑ i, ∑ j, ∑ a : Fin k, c a * (g i j * e a i * w j)
      = ∑ i, ∑ a : Fin k, ∑ j, c a * (g i j * e a i * w j) :=
        Finset.sum_congr rfl fun i _ => Finset.sum_comm
    _ = ∑ a : Fin k, ∑ i, ∑ j, c a * (g i j * e a i * w j) := Finset.sum_comm

/-- **one generic Gram–Schmidt step**: subtracting from `v` its components along vectors
`e_a` that are mutually orthogonal with `⟨e_a,e_a⟩ = η_a`, `η_a² = 1`, gives a vector orthogonal
to every `e_b`; normalising by `N`, `N² = ⟨u,u⟩`, `N ≠ 0` gives a unit vector still orthogonal. -/
theorem gramSchmidt_step {n k : Nat} (g : Fin n → Fin n → K) (hg : ∀ a b, g a b = g b a)
    (e : Fin k → Fin n → K) (η : Fin k → K) (hη : ∀ a, η a * η a = 1)
    (horth : ∀ a b, ip g (e a) (e b) = if a = b then η a else 0) (v : Fin n → K) (N : K)
    (u : Fin n → K) (hu : u = fun i => v i - ∑ a : Fin k, η a * ip g (e a) v * e a i)
    (hN : N ^ 2 = ip g u u) (hN0 : N ≠ 0) :
    (∀ b, ip g (fun i => u i / N) (e b) = 0 ∧ ip g (e b) (fun i => u i / N) = 0)
      ∧ ip g (fun i => u i / N) (fun i => u i / N) = 1 := by
  have horth_u : ∀ b, ip g u (e b) = 0 := by
    intro b
    rw [hu, ip_sub_sum_left]
    simp only [horth, mul_ite, mul_zero, Finset.sum_ite_eq', Finset.mem_univ, if_true]
    rw [ip_comm g hg v (e b)]
    linear_combination (-(ip g (e b) v)) * hη b
  refine ⟨fun b => ⟨?_, ?_⟩, ?_⟩
  · rw [ip_div_left, horth_u b, zero_div]
  · rw [ip_comm g hg, ip_div_left, horth_u b, zero_div]
  · rw [ip_div_left, ip_div_right, ← hN]
    field_simp

/-! the two Gram–Schmidt chains of `tetrad_base` (hand model `Model/WeylNP.lean`) -/

def vec2 {α : Type} (a b : α) : Fin 2 → α := fun i =>
  match i with
  | ⟨0, _⟩ => a
  | ⟨_ + 1, _⟩ => b
theorem vec2_0 {α : Type} (a b : α) : vec2 a b 0 = a := rfl
theorem vec2_1 {α : Type} (a b : α) : vec2 a b 1 = b := rfl
theorem fin2_cases {P : Fin 2 → Prop} (h0 : P 0) (h1 : P 1) : ∀ i, P i :=
  Fin.forall_fin_two.mpr ⟨h0, h1⟩

theorem gs4_core (g : Fin 4 → Fin 4 → K) (hg : ∀ a b, g a b = g b a)
    (e0 v1 v2 v3 u1 e1 u2 e2 u3 e3 : Fin 4 → K) (N1 N2 N3 : K) (h0 : ip g e0 e0 = -1)
    (hu1 : u1 = fun a => v1 a + ip g e0 v1 * e0 a) (he1 : e1 = fun a => u1 a / N1)
    (hu2 : u2 = fun a => v2 a + ip g e0 v2 * e0 a - ip g e1 v2 * e1 a) (he2 : e2 = fun a => u2 a / N2)
    (hu3 : u3 = fun a => v3 a + ip g e0 v3 * e0 a - ip g e1 v3 * e1 a - ip g e2 v3 * e2 a)
    (he3 : e3 = fun a => u3 a / N3)
    (hN1 : N1 ^ 2 = ip g u1 u1) (hN1' : N1 ≠ 0) (hN2 : N2 ^ 2 = ip g u2 u2) (hN2' : N2 ≠ 0)
    (hN3 : N3 ^ 2 = ip g u3 u3) (hN3' : N3 ≠ 0) :
    Orthonormal g (vec4 e0 e1 e2 e3) := by
  -- step 1
  obtain ⟨o1, n1⟩ := gramSchmidt_step g hg (fun _ : Fin 1 => e0) (fun _ => (-1 : K)) (fun _ => by ring)
    (fun a b => by simp only [Subsingleton.elim a b, if_true, h0]) v1 N1 u1
    (by rw [hu1]; funext i; simp only [Fin.sum_univ_one]; ring) hN1 hN1'
  rw [← he1] at o1 n1
  obtain ⟨e10, e01⟩ := o1 0
  -- step 2
  obtain ⟨o2, n2⟩ := gramSchmidt_step g hg (vec2 e0 e1) (vec2 (-1 : K) 1)
    (fin2_cases (by simp only [vec2_0]; ring) (by simp only [vec2_1]; ring))
    (fin2_cases (fin2_cases (by simp [vec2_0, h0]) (by simp [vec2_0, vec2_1, e01]))
      (fin2_cases (by simp [vec2_0, vec2_1, e10]) (by simp [vec2_1, n1]))) v2 N2 u2
    (by rw [hu2]; funext i; simp only [Fin.sum_univ_two, vec2_0, vec2_1]; ring) hN2 hN2'
  rw [← he2] at o2 n2
  obtain ⟨e20, e02⟩ := o2 0
  obtain ⟨e21, e12⟩ := o2 1
  simp only [vec2_0, vec2_1] at e20 e02 e21 e12
  -- step 3
  obtain ⟨o3, n3⟩ := gramSchmidt_step g hg (vec3 e0 e1 e2) (vec3 (-1 : K) 1 1)
    (fin3_cases (by simp only [vec3_0]; ring) (by simp only [vec3_1]; ring) (by simp only [vec3_2]; ring))
    (fin3_cases
      (fin3_cases (by simp [h0]) (by simp [e01]) (by simp [e02]))
      (fin3_cases (by simp [e10]) (by simp [n1]) (by simp [e12]))
      (fin3_cases (by simp [e20]) (by simp [e21]) (by simp [n2]))) v3 N3 u3
    (by rw [hu3]; funext i; simp only [Fin.sum_univ_three, vec3_0, vec3_1, vec3_2]; ring) hN3 hN3'
  rw [← he3] at o3 n3
  obtain ⟨e30, e03⟩ := o3 0
  obtain ⟨e31, e13⟩ := o3 1
  obtain ⟨e32, e23⟩ := o3 2
  simp only [vec3_0, vec3_1, vec3_2] at e30 e03 e31 e13 e32 e23
  refine fin4_cases (fin4_cases ?_ ?_ ?_ ?_) (fin4_cases ?_ ?_ ?_ ?_) (fin4_cases ?_ ?_ ?_ ?_)
    (fin4_cases ?_ ?_ ?_ ?_) <;>
    simp [eta, h0, n1, n2, n3, e10, e01, e20, e02, e21, e12, e30, e03, e31, e13, e32, e23]

/-- **fluid-adapted tetrad**: the Gram–Schmidt chain of `tetrad_base` (else-branch) returns a tetrad
orthonormal for `g`, provided `u` is unit timelike and each intermediate vector is spacelike and
non-degenerate with `norm4` its true norm (`nrm(u_i)² = ⟨u_i,u_i⟩ ≠ 0`; `sqrt`, `abs` are opaque). -/
theorem gramSchmidt4_orthonormal (g : Fin 4 → Fin 4 → K) (hg : ∀ a b, g a b = g b a)
    (nrm : (Fin 4 → K) → K) (e0 v1 v2 v3 : Fin 4 → K) (h0 : ip g e0 e0 = -1)
    (hN1 : nrm (gs4_u1 g e0 v1) ^ 2 = ip g (gs4_u1 g e0 v1) (gs4_u1 g e0 v1)) (hN1' : nrm (gs4_u1 g e0 v1) ≠ 0)
    (hN2 : nrm (gs4_u2 g nrm e0 v1 v2) ^ 2 = ip g (gs4_u2 g nrm e0 v1 v2) (gs4_u2 g nrm e0 v1 v2))
    (hN2' : nrm (gs4_u2 g nrm e0 v1 v2) ≠ 0)
    (hN3 : nrm (gs4_u3 g nrm e0 v1 v2 v3) ^ 2 = ip g (gs4_u3 g nrm e0 v1 v2 v3) (gs4_u3 g nrm e0 v1 v2 v3))
    (hN3' : nrm (gs4_u3 g nrm e0 v1 v2 v3) ≠ 0) :
    Orthonormal g (gramSchmidt4 g nrm e0 v1 v2 v3) :=
  gs4_core g hg e0 v1 v2 v3 _ _ _ _ _ _ _ _ _ h0 rfl rfl rfl rfl rfl rfl hN1 hN1' hN2 hN2' hN3 hN3'

theorem gs3_core (γ : Fin 3 → Fin 3 → K) (hγ : ∀ a b, γ a b = γ b a)
    (v1 v2 v3 w1 u2 w2 u3 w3 : Fin 3 → K) (N1 N2 N3 : K)
    (hw1 : w1 = fun a => v1 a / N1)
    (hu2 : u2 = fun a => v2 a - ip γ w1 v2 * w1 a) (hw2 : w2 = fun a => u2 a / N2)
    (hu3 : u3 = fun a => v3 a - ip γ w1 v3 * w1 a - ip γ w2 v3 * w2 a) (hw3 : w3 = fun a => u3 a / N3)
    (hN1 : N1 ^ 2 = ip γ v1 v1) (hN1' : N1 ≠ 0) (hN2 : N2 ^ 2 = ip γ u2 u2) (hN2' : N2 ≠ 0)
    (hN3 : N3 ^ 2 = ip γ u3 u3) (hN3' : N3 ≠ 0) :
    ∀ a b, ip γ (vec3 w1 w2 w3 a) (vec3 w1 w2 w3 b) = if a = b then 1 else 0 := by
  have n1 : ip γ w1 w1 = 1 := by
    rw [hw1, ip_div_left, ip_div_right, ← hN1]; field_simp
  obtain ⟨o2, n2⟩ := gramSchmidt_step γ hγ (fun _ : Fin 1 => w1) (fun _ => (1 : K)) (fun _ => by ring)
    (fun a b => by simp only [Subsingleton.elim a b, if_true, n1]) v2 N2 u2
    (by rw [hu2]; funext i; simp only [Fin.sum_univ_one]; ring) hN2 hN2'
  rw [← hw2] at o2 n2
  obtain ⟨e21, e12⟩ := o2 0
  obtain ⟨o3, n3⟩ := gramSchmidt_step γ hγ (vec2 w1 w2) (vec2 (1 : K) 1)
    (fin2_cases (by simp only [vec2_0]; ring) (by simp only [vec2_1]; ring))
    (fin2_cases (fin2_cases (by simp [vec2_0, n1]) (by simp [vec2_0, vec2_1, e12]))
      (fin2_cases (by simp [vec2_0, vec2_1, e21]) (by simp [vec2_1, n2]))) v3 N3 u3
    (by rw [hu3]; funext i; simp only [Fin.sum_univ_two, vec2_0, vec2_1]; ring) hN3 hN3'
  rw [← hw3] at o3 n3
  obtain ⟨e31, e13⟩ := o3 0
  obtain ⟨e32, e23⟩ := o3 1
  simp only [vec2_0, vec2_1] at e31 e13 e32 e23
  refine fin3_cases (fin3_cases ?_ ?_ ?_) (fin3_cases ?_ ?_ ?_) (fin3_cases ?_ ?_ ?_) <;>
    simp [n1, n2, n3, e21, e12, e31, e13, e32, e23]

/-- **quasi-Kinnersley triad**: the Gram–Schmidt chain returns a triad orthonormal for `γ`
wherever the three norms are the true non-zero norms (this fails on the axis `x = y = 0`, where
`v1 = (−y, x, 0) = 0`: there `norm3(v1) = 0`, excluded by `hN1'`). -/
theorem gramSchmidt3_orthonormal (γ : Fin 3 → Fin 3 → K) (hγ : ∀ a b, γ a b = γ b a)
    (nrm : (Fin 3 → K) → K) (v1 v2 v3 : Fin 3 → K)
    (hN1 : nrm v1 ^ 2 = ip γ v1 v1) (hN1' : nrm v1 ≠ 0)
    (hN2 : nrm (gs3_u2 γ nrm v1 v2) ^ 2 = ip γ (gs3_u2 γ nrm v1 v2) (gs3_u2 γ nrm v1 v2))
    (hN2' : nrm (gs3_u2 γ nrm v1 v2) ≠ 0)
    (hN3 : nrm (gs3_u3 γ nrm v1 v2 v3) ^ 2 = ip γ (gs3_u3 γ nrm v1 v2 v3) (gs3_u3 γ nrm v1 v2 v3))
    (hN3' : nrm (gs3_u3 γ nrm v1 v2 v3) ≠ 0) (a b : Fin 3) :
    ip γ (gramSchmidt3 γ nrm v1 v2 v3 a) (gramSchmidt3 γ nrm v1 v2 v3 b) = if a = b then 1 else 0 :=
  gs3_core γ hγ v1 v2 v3 _ _ _ _ _ _ _ _ rfl rfl rfl rfl rfl hN1 hN1' hN2 hN2' hN3 hN3' a b

end np_field

end AurelVerif.C10
