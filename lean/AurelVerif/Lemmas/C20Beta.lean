/-
Lemmas/C20Beta.lean — the half-angle Beta integral

    ∫_0^π cos(θ/2)^(2p) · sin(θ/2)^(2q) · sin θ dθ = 2 · p! · q! / (p+q+1)!

for all natural p, q (fundamental theorem of calculus + induction on q; no
substitution, no Gamma function).  This is the only analytic ingredient of the
continuous orthonormality statements of C20: every product of two closed-form
sums of `maths.sYlm` with the same (s, m) is a polynomial in cos²(θ/2),
sin²(θ/2).
-/
import Mathlib.Analysis.SpecialFunctions.Integrals.Basic

namespace AurelVerif.HarmLemmas
open Real intervalIntegral
open scoped Nat

theorem hasDerivAt_cos_half (θ : ℝ) :
    HasDerivAt (fun t : ℝ => cos (t / 2)) (-(sin (θ / 2)) / 2) θ := by
  have h : HasDerivAt (fun t : ℝ => cos (t / 2)) (-sin (θ / 2) * (1 / 2)) θ :=
    ((hasDerivAt_id' θ).div_const 2).cos
  exact h.congr_deriv (by ring)

theorem hasDerivAt_sin_half (θ : ℝ) :
    HasDerivAt (fun t : ℝ => sin (t / 2)) (cos (θ / 2) / 2) θ := by
  have h : HasDerivAt (fun t : ℝ => sin (t / 2)) (cos (θ / 2) * (1 / 2)) θ :=
    ((hasDerivAt_id' θ).div_const 2).sin
  exact h.congr_deriv (by ring)

theorem sin_eq_half (θ : ℝ) : sin θ = 2 * sin (θ / 2) * cos (θ / 2) := by
  have := Real.sin_two_mul (θ / 2)
  rwa [show 2 * (θ / 2) = θ by ring] at this

/-- the integrand -/
noncomputable def betaF (p q : ℕ) (θ : ℝ) : ℝ := cos (θ / 2) ^ (2 * p) * sin (θ / 2) ^ (2 * q) * sin θ

theorem betaF_continuous (p q : ℕ) : Continuous (betaF p q) := by
  unfold betaF
  fun_prop

theorem betaF_integrable (p q : ℕ) (a b : ℝ) : IntervalIntegrable (betaF p q) MeasureTheory.volume a b :=
  (betaF_continuous p q).intervalIntegrable a b

/-- `I(p, 0) = 2/(p+1)` -/
theorem beta_base (p : ℕ) : ∫ θ in (0 : ℝ)..π, betaF p 0 θ = 2 / ((p : ℝ) + 1) := by
  have hp : ((p : ℝ) + 1) ≠ 0 := by positivity
  have hd : ∀ θ ∈ Set.uIcc (0 : ℝ) π,
      HasDerivAt (fun t : ℝ => -(2 / ((p : ℝ) + 1)) * cos (t / 2) ^ (2 * p + 2)) (betaF p 0 θ) θ := by
    intro θ _
    have h := ((hasDerivAt_cos_half θ).fun_pow (2 * p + 2)).const_mul (-(2 / ((p : ℝ) + 1)))
    refine h.congr_deriv ?_
    unfold betaF
    rw [sin_eq_half θ]
    have : 2 * p + 2 - 1 = 2 * p + 1 := by omega
    rw [this]
    push_cast
    field_simp
    ring
  rw [integral_eq_sub_of_hasDerivAt hd (betaF_integrable p 0 0 π)]
  have h1 : cos (π / 2) = 0 := Real.cos_pi_div_two
  simp only [h1, zero_div, Real.cos_zero, one_pow, mul_one]
  have : (0 : ℝ) ^ (2 * p + 2) = 0 := zero_pow (by omega)
  rw [this]; ring

/-- `(p+1) · I(p, q+1) = (q+1) · I(p+1, q)` -/
theorem beta_step (p q : ℕ) :
    ((p : ℝ) + 1) * ∫ θ in (0 : ℝ)..π, betaF p (q + 1) θ
      = ((q : ℝ) + 1) * ∫ θ in (0 : ℝ)..π, betaF (p + 1) q θ := by
  have hd : ∀ θ ∈ Set.uIcc (0 : ℝ) π,
      HasDerivAt (fun t : ℝ => cos (t / 2) ^ (2 * p + 2) * sin (t / 2) ^ (2 * q + 2))
        (((q : ℝ) + 1) / 2 * betaF (p + 1) q θ - ((p : ℝ) + 1) / 2 * betaF p (q + 1) θ) θ := by
    intro θ _
    have h := ((hasDerivAt_cos_half θ).fun_pow (2 * p + 2)).fun_mul ((hasDerivAt_sin_half θ).fun_pow (2 * q + 2))
    refine h.congr_deriv ?_
    unfold betaF
    rw [sin_eq_half θ]
    have e1 : 2 * p + 2 - 1 = 2 * p + 1 := by omega
    have e2 : 2 * q + 2 - 1 = 2 * q + 1 := by omega
    have e3 : 2 * (p + 1) = 2 * p + 2 := by ring
    have e4 : 2 * (q + 1) = 2 * q + 2 := by ring
    rw [e1, e2, e3, e4]
    push_cast
    ring
  have hint : IntervalIntegrable
      (fun θ => ((q : ℝ) + 1) / 2 * betaF (p + 1) q θ - ((p : ℝ) + 1) / 2 * betaF p (q + 1) θ)
      MeasureTheory.volume 0 π :=
    ((betaF_integrable (p + 1) q 0 π).const_mul _).sub ((betaF_integrable p (q + 1) 0 π).const_mul _)
  have key := integral_eq_sub_of_hasDerivAt hd hint
  rw [integral_sub ((betaF_integrable (p + 1) q 0 π).const_mul _) ((betaF_integrable p (q + 1) 0 π).const_mul _),
    integral_const_mul, integral_const_mul] at key
  have h1 : cos (π / 2) = 0 := Real.cos_pi_div_two
  have h2 : sin ((0 : ℝ) / 2) = 0 := by simp
  have z1 : (0 : ℝ) ^ (2 * p + 2) = 0 := zero_pow (by omega)
  have z2 : (0 : ℝ) ^ (2 * q + 2) = 0 := zero_pow (by omega)
  rw [h1, h2, z1, z2] at key
  linarith

/-- **half-angle Beta integral** -/
theorem halfAngle_beta (p q : ℕ) :
    ∫ θ in (0 : ℝ)..π, cos (θ / 2) ^ (2 * p) * sin (θ / 2) ^ (2 * q) * sin θ
      = 2 * (p ! : ℝ) * (q ! : ℝ) / ((p + q + 1)! : ℝ) := by
  show ∫ θ in (0 : ℝ)..π, betaF p q θ = _
  induction q generalizing p with
  | zero =>
    rw [beta_base]
    have hp : ((p : ℝ) + 1) ≠ 0 := by positivity
    have hf : ((p ! : ℕ) : ℝ) ≠ 0 := by positivity
    rw [show p + 0 + 1 = p + 1 by ring, Nat.factorial_succ]
    push_cast
    field_simp
    simp
  | succ q ih =>
    have hp : ((p : ℝ) + 1) ≠ 0 := by positivity
    have hs := beta_step p q
    rw [ih (p + 1)] at hs
    have hI : ∫ θ in (0 : ℝ)..π, betaF p (q + 1) θ
        = ((q : ℝ) + 1) * (2 * ((p + 1)! : ℝ) * (q ! : ℝ) / ((p + 1 + q + 1)! : ℝ)) / ((p : ℝ) + 1) := by
      rw [eq_div_iff hp]
      linarith [hs]
    rw [hI, show p + (q + 1) + 1 = p + 1 + q + 1 by ring, Nat.factorial_succ p, Nat.factorial_succ q]
    have hf : (((p + 1 + q + 1)! : ℕ) : ℝ) ≠ 0 := by positivity
    push_cast
    field_simp

end AurelVerif.HarmLemmas
