/-
Lemmas/C17EinFLRW.lean — Einstein's equations for the two FLRW modules (EdS, LCDM), all ten
components, as theorems about the definitions of Gen/Solutions.lean.

For each module: (1) the 4-metric in closed form (proven equal to the generated definitions),
(2) a field of 2-jets `X_jet` built from the algebraic FLRW family (Lemmas/C17JetFLRW.lean),
(3) `X_isJetField`: its entries ARE the first and second partial derivatives of the module's metric
(Mathlib `HasDerivAt`), (4) `X_einstein`: `G_ab + Λ g_ab = κ T_ab` with the module's own
`rho`, `press`, `Lambda`, `kappa`, where `G` is the textbook Einstein tensor of Spec/Jet4.lean.
-/
import AurelVerif.Lemmas.C17JetFLRW
import AurelVerif.Lemmas.Solutions
import AurelVerif.Spec.MetricJet

set_option linter.unusedVariables false
set_option linter.unusedTactic false
set_option linter.unreachableTactic false
set_option linter.unusedSimpArgs false

namespace AurelVerif.C17Ein
open AurelVerif.Gen.Solutions AurelVerif.SolutionsLemmas AurelVerif.Spec.Jet4 AurelVerif.Spec.Curvature
open AurelVerif.C17JetTac AurelVerif.C17Jet

/-! ## EdS -/

/-- EdS has no `gdown4`: the 4-metric of its lapse, (zero) shift and `gammadown3`. -/
noncomputable def EdS_gdown4 (t x y z : ℝ) : Fin 4 → Fin 4 → ℝ :=
  fourMetric (EdS.alpha t x y z) (EdS.gammadown3 t x y z)

theorem EdS_gdown4_closed (t x y z : ℝ) : EdS_gdown4 t x y z =
    ![![-1, 0, 0, 0], ![0, EdS.a t ^ 2, 0, 0], ![0, 0, EdS.a t ^ 2, 0], ![0, 0, 0, EdS.a t ^ 2]] := by
  refine funext4 ?_ ?_ ?_ ?_ <;> refine funext4 ?_ ?_ ?_ ?_ <;>
    simp [EdS_gdown4, fourMetric, EdS.alpha, EdS.gammadown3, EdS.gammadown3_00, EdS.gammadown3_01,
      EdS.gammadown3_02, EdS.gammadown3_10, EdS.gammadown3_11, EdS.gammadown3_12, EdS.gammadown3_20,
      EdS.gammadown3_21, EdS.gammadown3_22]

/-- closed forms: `A = a²`, `∂_t A = 2a²H`, `∂_t² A = a²(4H² − 2H/t)`. -/
noncomputable def EdS_jet (t x y z : ℝ) : Jet2 ℝ :=
  FLRW.jet (EdS.a t ^ 2) (2 * EdS.a t ^ 2 * EdS.Hprop t)
    (EdS.a t ^ 2 * (4 * EdS.Hprop t ^ 2 - 2 * EdS.Hprop t / t))

theorem EdS_Hprop_deriv (t : ℝ) (ht : 0 < t) : HasDerivAt (fun s => EdS.Hprop s) (-EdS.Hprop t / t) t := by
  unfold EdS.Hprop
  have := (hasDerivAt_const t (EdS.Hprop_today * EdS.t_today)).div (hasDerivAt_id' t) ht.ne'
  refine this.congr_deriv ?_
  have := ht.ne'
  field_simp
  ring

theorem EdS_A_deriv (t : ℝ) (ht : 0 < t) :
    HasDerivAt (fun s => EdS.a s ^ 2) (2 * EdS.a t ^ 2 * EdS.Hprop t) t :=
  ((EdS_a_deriv t ht).pow 2).congr_deriv (by ring)

theorem EdS_A1_deriv (t : ℝ) (ht : 0 < t) : HasDerivAt (fun s => 2 * EdS.a s ^ 2 * EdS.Hprop s)
    (EdS.a t ^ 2 * (4 * EdS.Hprop t ^ 2 - 2 * EdS.Hprop t / t)) t :=
  (((EdS_A_deriv t ht).const_mul 2).mul (EdS_Hprop_deriv t ht)).congr_deriv (by ring)

theorem EdS_isJetField : IsJetField (fun t _ _ _ => 0 < t) EdS_gdown4 EdS_jet where
  g_eq := by
    intro t x y z ht
    rw [EdS_gdown4_closed]; rfl
  inverse := by
    intro t x y z ht
    exact FLRW.jet_inverse _ _ _ (pow_ne_zero 2 (EdS_a_pos t ht).ne')
  d1 := by
    intro t x y z ht
    have hA := EdS_A_deriv t ht
    refine forall4 ?_ ?_ ?_ ?_ <;> refine forall4 ?_ ?_ ?_ ?_ <;> refine forall4 ?_ ?_ ?_ ?_ <;>
      first
      | exact hasDerivAt_const _ _
      | (simp only [hasPartialAt_zero, hasPartialAt_one, hasPartialAt_two, hasPartialAt_three,
          EdS_gdown4_closed, EdS_jet, FLRW.jet, Matrix.cons_val_zero, Matrix.cons_val_one, Matrix.cons_val]
         first | exact hasDerivAt_const _ _ | exact hA)
  d2 := by
    intro t x y z ht
    have hA := EdS_A1_deriv t ht
    refine forall4 ?_ ?_ ?_ ?_ <;> refine forall4 ?_ ?_ ?_ ?_ <;> refine forall4 ?_ ?_ ?_ ?_ <;>
      refine forall4 ?_ ?_ ?_ ?_ <;>
      first
      | exact hasDerivAt_const _ _
      | (simp only [hasPartialAt_zero, hasPartialAt_one, hasPartialAt_two, hasPartialAt_three,
          EdS_jet, FLRW.jet, Matrix.cons_val_zero, Matrix.cons_val_one, Matrix.cons_val]
         first | exact hasDerivAt_const _ _ | exact hA)

/-- EdS: all ten Einstein equations, perfect fluid at rest with the module's `rho`, `press`. -/
theorem EdS_einstein (t x y z : ℝ) (ht : 0 < t) :
    (EdS_jet t x y z).SolvesEinstein EdS.Lambda EdS.kappa
      (comovingFluid (EdS.rho t) (EdS.press t) (EdS_gdown4 t x y z)) := by
  have ha := (EdS_a_pos t ht).ne'
  have hk := EdS_kappa_pos.ne'
  have h0 := EdS_H0_pos.ne'
  have htn := ht.ne'
  unfold Jet2.SolvesEinstein
  rw [EdS_gdown4_closed]
  unfold EdS_jet
  rw [FLRW.Einstein_eq _ _ _ (pow_ne_zero 2 ha)]
  refine forall4 ?_ ?_ ?_ ?_ <;> refine forall4 ?_ ?_ ?_ ?_ <;>
    (simp only [FLRW.EinsteinT, FLRW.jet, comovingFluid, Matrix.cons_val_zero, Matrix.cons_val_one,
      Matrix.cons_val, Fin.isValue, Fin.reduceEq, if_true, if_false, reduceIte]
     unfold EdS.press EdS.rho EdS.Omega_m EdS.Omega_m_EdS EdS.Lambda EdS.Hprop EdS.w EdS.t_today EdS.w
     first | ring1 | (field_simp; ring1) | (field_simp; done))

/-! ## LCDM -/

/-- LCDM has no `gdown4`: the 4-metric of its lapse, (zero) shift and `gammadown3`. -/
noncomputable def LCDM_gdown4 (t x y z : ℝ) : Fin 4 → Fin 4 → ℝ :=
  fourMetric (LCDM.alpha t x y z) (LCDM.gammadown3_num t x y z)

theorem LCDM_gdown4_closed (t x y z : ℝ) : LCDM_gdown4 t x y z =
    ![![-1, 0, 0, 0], ![0, LCDM.a_num t ^ 2, 0, 0], ![0, 0, LCDM.a_num t ^ 2, 0],
      ![0, 0, 0, LCDM.a_num t ^ 2]] := by
  refine funext4 ?_ ?_ ?_ ?_ <;> refine funext4 ?_ ?_ ?_ ?_ <;>
    simp [LCDM_gdown4, fourMetric, LCDM.alpha, LCDM.gammadown3_num, LCDM.gammadown3_num_00,
      LCDM.gammadown3_num_01, LCDM.gammadown3_num_02, LCDM.gammadown3_num_10, LCDM.gammadown3_num_11,
      LCDM.gammadown3_num_12, LCDM.gammadown3_num_20, LCDM.gammadown3_num_21, LCDM.gammadown3_num_22]

/-- `∂_t H = −(3/2) H₀² Ω_m / (a/a₀)³`. -/
noncomputable def LCDM_dH (t : ℝ) : ℝ :=
  -(3 / 2) * LCDM.Hprop_today ^ 2 * LCDM.Omega_m_today / LCDM.an_today t ^ 3

theorem LCDM_H_pos (t : ℝ) (ht : 0 < t) : 0 < LCDM.Hprop t := by
  have h0 := LCDM_H0_pos
  have han := LCDM_an_pos t ht
  have hl := LCDM_Ol_pos
  have hm := LCDM_Om_pos
  unfold LCDM.Hprop
  have : 0 < LCDM.Omega_m_today / LCDM.an_today t ^ 3 + LCDM.Omega_l_today := by positivity
  have := Real.sqrt_pos.mpr this
  positivity

theorem LCDM_H_sq (t : ℝ) (ht : 0 < t) : LCDM.Hprop t ^ 2 =
    LCDM.Hprop_today ^ 2 * (LCDM.Omega_m_today / LCDM.an_today t ^ 3 + LCDM.Omega_l_today) := by
  have han := LCDM_an_pos t ht
  have hl := LCDM_Ol_pos
  have hm := LCDM_Om_pos
  have hpos : 0 ≤ LCDM.Omega_m_today / LCDM.an_today t ^ 3 + LCDM.Omega_l_today := by positivity
  unfold LCDM.Hprop
  rw [mul_pow, Real.sq_sqrt hpos]

theorem LCDM_an_deriv (t : ℝ) (ht : 0 < t) :
    HasDerivAt (fun s => LCDM.an_today s) (LCDM.an_today t * LCDM.Hprop t) t := by
  unfold LCDM.an_today
  exact ((LCDM_a_deriv t ht).div_const LCDM.a_today).congr_deriv (by ring)

theorem LCDM_H_deriv (t : ℝ) (ht : 0 < t) : HasDerivAt (fun s => LCDM.Hprop s) (LCDM_dH t) t := by
  have han := LCDM_an_pos t ht
  have hl := LCDM_Ol_pos
  have hm := LCDM_Om_pos
  have hH := LCDM_H_pos t ht
  have h0 := LCDM_H0_pos
  have hpos : 0 < LCDM.Omega_m_today / LCDM.an_today t ^ 3 + LCDM.Omega_l_today := by positivity
  have h1 := ((hasDerivAt_const t LCDM.Omega_m_today).div ((LCDM_an_deriv t ht).pow 3)
    (pow_ne_zero 3 han.ne')).add_const LCDM.Omega_l_today
  have h2 := (h1.sqrt hpos.ne').const_mul LCDM.Hprop_today
  unfold LCDM.Hprop
  refine h2.congr_deriv ?_
  have hs := Real.sqrt_pos.mpr hpos
  have hsq := Real.sq_sqrt hpos.le
  have hHe : LCDM.Hprop t = LCDM.Hprop_today *
      Real.sqrt (LCDM.Omega_m_today / LCDM.an_today t ^ 3 + LCDM.Omega_l_today) := rfl
  unfold LCDM_dH
  rw [hHe]
  generalize Real.sqrt (LCDM.Omega_m_today / LCDM.an_today t ^ 3 + LCDM.Omega_l_today) = S at hs hsq ⊢
  have hsn := hs.ne'
  have hann := han.ne'
  simp only [Pi.pow_apply]
  field_simp
  ring

/-- closed forms: `A = a²`, `∂_t A = 2a²H`, `∂_t² A = a²(4H² + 2Ḣ)`. -/
noncomputable def LCDM_jet (t x y z : ℝ) : Jet2 ℝ :=
  FLRW.jet (LCDM.a_num t ^ 2) (2 * LCDM.a_num t ^ 2 * LCDM.Hprop t)
    (LCDM.a_num t ^ 2 * (4 * LCDM.Hprop t ^ 2 + 2 * LCDM_dH t))

theorem LCDM_A_deriv (t : ℝ) (ht : 0 < t) :
    HasDerivAt (fun s => LCDM.a_num s ^ 2) (2 * LCDM.a_num t ^ 2 * LCDM.Hprop t) t :=
  ((LCDM_a_deriv t ht).pow 2).congr_deriv (by ring)

theorem LCDM_A1_deriv (t : ℝ) (ht : 0 < t) : HasDerivAt (fun s => 2 * LCDM.a_num s ^ 2 * LCDM.Hprop s)
    (LCDM.a_num t ^ 2 * (4 * LCDM.Hprop t ^ 2 + 2 * LCDM_dH t)) t :=
  (((LCDM_A_deriv t ht).const_mul 2).mul (LCDM_H_deriv t ht)).congr_deriv (by ring)

theorem LCDM_a_pos (t : ℝ) (ht : 0 < t) : 0 < LCDM.a_num t := by
  have := LCDM_an_pos t ht
  unfold LCDM.an_today LCDM.a_today at this
  simpa using this

theorem LCDM_isJetField : IsJetField (fun t _ _ _ => 0 < t) LCDM_gdown4 LCDM_jet where
  g_eq := by
    intro t x y z ht
    rw [LCDM_gdown4_closed]; rfl
  inverse := by
    intro t x y z ht
    exact FLRW.jet_inverse _ _ _ (pow_ne_zero 2 (LCDM_a_pos t ht).ne')
  d1 := by
    intro t x y z ht
    have hA := LCDM_A_deriv t ht
    refine forall4 ?_ ?_ ?_ ?_ <;> refine forall4 ?_ ?_ ?_ ?_ <;> refine forall4 ?_ ?_ ?_ ?_ <;>
      first
      | exact hasDerivAt_const _ _
      | (simp only [hasPartialAt_zero, hasPartialAt_one, hasPartialAt_two, hasPartialAt_three,
          LCDM_gdown4_closed, LCDM_jet, FLRW.jet, Matrix.cons_val_zero, Matrix.cons_val_one, Matrix.cons_val]
         first | exact hasDerivAt_const _ _ | exact hA)
  d2 := by
    intro t x y z ht
    have hA := LCDM_A1_deriv t ht
    refine forall4 ?_ ?_ ?_ ?_ <;> refine forall4 ?_ ?_ ?_ ?_ <;> refine forall4 ?_ ?_ ?_ ?_ <;>
      refine forall4 ?_ ?_ ?_ ?_ <;>
      first
      | exact hasDerivAt_const _ _
      | (simp only [hasPartialAt_zero, hasPartialAt_one, hasPartialAt_two, hasPartialAt_three,
          LCDM_jet, FLRW.jet, Matrix.cons_val_zero, Matrix.cons_val_one, Matrix.cons_val]
         first | exact hasDerivAt_const _ _ | exact hA)

/-- LCDM: all ten Einstein equations, dust at rest (`p = 0`) with the module's `rho`, `Lambda`. -/
theorem LCDM_einstein (t x y z : ℝ) (ht : 0 < t) :
    (LCDM_jet t x y z).SolvesEinstein LCDM.Lambda LCDM.kappa
      (comovingFluid (LCDM.rho t) 0 (LCDM_gdown4 t x y z)) := by
  have ha := (LCDM_a_pos t ht).ne'
  have hk := LCDM_kappa_pos.ne'
  have h0 := LCDM_H0_pos.ne'
  have han := (LCDM_an_pos t ht).ne'
  have hfr := LCDM_friedmann t ht
  have hsq := LCDM_H_sq t ht
  have hL : LCDM.Lambda = 3 * LCDM.Omega_l_today * LCDM.Hprop_today ^ 2 := by
    unfold LCDM.Lambda LCDM.c; ring
  unfold Jet2.SolvesEinstein
  rw [LCDM_gdown4_closed]
  unfold LCDM_jet
  rw [FLRW.Einstein_eq _ _ _ (pow_ne_zero 2 ha)]
  refine forall4 ?_ ?_ ?_ ?_ <;> refine forall4 ?_ ?_ ?_ ?_ <;>
    simp only [FLRW.EinsteinT, FLRW.jet, comovingFluid, Matrix.cons_val_zero, Matrix.cons_val_one,
      Matrix.cons_val, Fin.isValue, Fin.reduceEq, if_true, if_false, reduceIte]
  any_goals ring1
  · -- tt
    field_simp
    linear_combination 4 * hfr
  all_goals
    have hsq' : LCDM.Hprop t ^ 2 * LCDM.an_today t ^ 3 = LCDM.Hprop_today ^ 2 *
        (LCDM.Omega_m_today + LCDM.Omega_l_today * LCDM.an_today t ^ 3) := by
      rw [hsq]; field_simp
    unfold LCDM_dH
    rw [hL]
    field_simp
    linear_combination (-12 * LCDM.a_num t ^ 2) * hsq'
end AurelVerif.C17Ein
