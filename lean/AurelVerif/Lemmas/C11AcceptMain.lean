/-
Lemmas/C11AcceptMain.lean — C11: a chunk dictionary that `joinGeneral`
accepts is, up to the order of its entries, `ochunks R O` for an ordered
origin-annotated decomposition `O` of the result `R` (assembly of the three
passes), and the consequences for gap-free / class-X dictionaries.
-/
import AurelVerif.Lemmas.C11AcceptPass
namespace AurelVerif.AcceptLemmas
open AurelVerif.Chunks AurelVerif.ChunksLemmas AurelVerif.ChunkLayout
set_option linter.unusedSimpArgs false
set_option linter.unusedVariables false

theorem insertKV_map {β γ : Type} (f : Nat × β → γ) (kv : Nat × β) (l : Dict Nat β) :
    insertKV (kv.1, f kv) (l.map fun x => (x.1, f x)) = (insertKV kv l).map fun x => (x.1, f x) := by
  induction l with
  | nil => rfl
  | cons y ys ih =>
    simp only [List.map_cons, insertKV]
    split
    · simp
    · simp [ih]

theorem sortDict_map {β γ : Type} (f : Nat × β → γ) (l : Dict Nat β) :
    sortDict (l.map fun x => (x.1, f x)) = (sortDict l).map fun x => (x.1, f x) := by
  induction l with
  | nil => rfl
  | cons x xs ih =>
    simp only [List.map_cons, sortDict, ih]
    exact insertKV_map f x (sortDict xs)

/-- the pieces of the strip `(iy, iz)` in the order of their x-origins -/
def piecesOf {α : Type} (G1 : Dict (Nat × Nat) (Dict Nat (Arr3 α))) (iy iz : Nat) : Dict Nat (Arr3 α) :=
  sortDict ((G1.get? (iy, iz)).getD [])

/-- the origin-annotated decomposition read off the groups that `join_chunks` formed -/
def layoutOf {α : Type} (G1 : Dict (Nat × Nat) (Dict Nat (Arr3 α))) (S3 : Dict Nat (Dict Nat (Arr3 α)))
    (W2 : Nat × Dict Nat (Arr3 α) → Arr3 α) : OZ :=
  S3.map fun kg2 => ((W2 kg2).length, kg2.1,
    (sortDict kg2.2).map fun ov2 => (dim1 ov2.2, ov2.1,
      (piecesOf G1 ov2.1 kg2.1).map fun ov1 => (dim2 ov1.2, ov1.1)))

/-- the entries of the dictionary, re-listed slab by slab, strip by strip, piece by piece -/
def relisted {α : Type} (G1 : Dict (Nat × Nat) (Dict Nat (Arr3 α))) (S3 : Dict Nat (Dict Nat (Arr3 α))) :
    Dict (Nat × Nat × Nat) (Arr3 α) :=
  S3.flatMap fun kg2 => (sortDict kg2.2).flatMap fun ov2 =>
    (piecesOf G1 ov2.1 kg2.1).map fun ov1 => ((ov1.1, ov2.1, kg2.1), ov1.2)

theorem rectPos_of_rect {α : Type} {w : Arr3 α} {a b c : Nat} (h : Rect w a b c) (ha : 0 < a) (hb : 0 < b)
    (hc : 0 < c) : RectPos w := ⟨a, b, c, ha, hb, hc, h⟩

theorem accepted_structure_lemma {α : Type} (cut : Dict (Nat × Nat × Nat) (Arr3 α))
    (hk : (cut.map Prod.fst).Nodup) (hb : ∀ kb ∈ cut, RectPos kb.2) (R : Arr3 α)
    (h : joinGeneral cut = some R) :
    ∃ (O : OZ) (nz ny nx : Nat), 0 < nz ∧ 0 < ny ∧ 0 < nx ∧ Rect R nz ny nx ∧ O.Ordered
      ∧ O.lens.Valid nz ny nx ∧ cut.Perm (ochunks R O) := by
  unfold joinGeneral at h
  cases h1 : pass cat2 cut with
  | none => simp [h1] at h
  | some R1 =>
  simp only [h1] at h
  cases h2 : pass cat1 R1 with
  | none => simp [h2] at h
  | some R2 =>
  simp only [h2] at h
  ------------------------------------------------------------------ pass 1
  obtain ⟨W1, F1W, hR1⟩ := pass_inv cat2 cut R1 h1
  obtain ⟨F1k, _, F1flat⟩ := groupAll_spec cut hk
  generalize groupAll cut = G1 at F1W hR1 F1k F1flat
  have F1fk : ((flat G1).map Prod.fst).Nodup := ((F1flat.map Prod.fst).nodup_iff).mpr hk
  have F1in := flat_inner_nodup G1 F1fk
  have F1ok : ∀ kg ∈ G1, ∀ ov ∈ kg.2, RectPos ov.2 := by
    intro kg hkg ov hov
    have : ((ov.1, kg.1), ov.2) ∈ flat G1 := mem_flat.mpr ⟨kg.2, hkg, hov⟩
    exact hb _ (F1flat.mem_iff.mp this)
  have gf2 := fun kg (hkg : kg ∈ G1) => group_facts2 kg.2 (W1 kg) (F1in kg hkg) (F1ok kg hkg) (F1W kg hkg)
  have F1pos : ∀ kg ∈ G1, RectPos (W1 kg) := by
    intro kg hkg
    obtain ⟨sz, sy, hz, hy, hs, hr, _, _⟩ := gf2 kg hkg
    exact rectPos_of_rect hr hz hy hs
  subst hR1
  have R1k : ((G1.map fun kg => (kg.1, W1 kg)).map Prod.fst).Nodup := by
    rw [List.map_map]; exact F1k
  ------------------------------------------------------------------ pass 2
  obtain ⟨W2, F2W, hR2⟩ := pass_inv cat1 _ R2 h2
  obtain ⟨F2k, _, F2flat⟩ := groupAll_spec _ R1k
  generalize groupAll (G1.map fun kg => (kg.1, W1 kg)) = G2 at F2W hR2 F2k F2flat
  have F2fk : ((flat G2).map Prod.fst).Nodup := ((F2flat.map Prod.fst).nodup_iff).mpr R1k
  have F2in := flat_inner_nodup G2 F2fk
  have hlink : ∀ kg2 ∈ G2, ∀ ov2 ∈ kg2.2, ∃ kg1 ∈ G1, kg1.1 = (ov2.1, kg2.1) ∧ W1 kg1 = ov2.2 := by
    intro kg2 hkg2 ov2 hov2
    have : ((ov2.1, kg2.1), ov2.2) ∈ flat G2 := mem_flat.mpr ⟨kg2.2, hkg2, hov2⟩
    obtain ⟨kg1, hkg1, e⟩ := List.mem_map.mp (F2flat.mem_iff.mp this)
    simp only [Prod.mk.injEq] at e
    exact ⟨kg1, hkg1, e.1, e.2⟩
  have F2ok : ∀ kg ∈ G2, ∀ ov ∈ kg.2, RectPos ov.2 := by
    intro kg hkg ov hov
    obtain ⟨kg1, hkg1, _, e⟩ := hlink kg hkg ov hov
    rw [← e]; exact F1pos kg1 hkg1
  have gf1 := fun kg (hkg : kg ∈ G2) => group_facts1 kg.2 (W2 kg) (F2in kg hkg) (F2ok kg hkg) (F2W kg hkg)
  have F2pos : ∀ kg ∈ G2, RectPos (W2 kg) := by
    intro kg hkg
    obtain ⟨sz, sx, hz, hx, hs, hr, _, _⟩ := gf1 kg hkg
    exact rectPos_of_rect hr hz hs hx
  subst hR2
  have R2k : ((G2.map fun kg => (kg.1, W2 kg)).map Prod.fst).Nodup := by
    rw [List.map_map]; exact F2k
  ------------------------------------------------------------------ pass 3
  obtain ⟨sy, sx, hsy, hsx, hsum, hRrect, hslabs, hsl0⟩ := group_facts0 _ R R2k (by
    intro ov hov
    obtain ⟨kg, hkg, rfl⟩ := List.mem_map.mp hov
    exact F2pos kg hkg) h
  rw [sortDict_map (fun kg => W2 kg) G2] at hsum hRrect hslabs hsl0
  rw [List.map_map] at hsum hRrect hsl0
  have hS3mem : ∀ kg, kg ∈ sortDict G2 → kg ∈ G2 := fun kg hkg => (mem_sortDict G2 kg).mp hkg
  have hS3k := sortDict_strict G2 F2k
  -- every strip found in a slab is a group of pass 1 joined
  have hpieces : ∀ kg2 ∈ G2, ∀ ov2 ∈ kg2.2, ∃ kg1 ∈ G1, kg1.1 = (ov2.1, kg2.1) ∧ W1 kg1 = ov2.2
      ∧ piecesOf G1 ov2.1 kg2.1 = sortDict kg1.2 := by
    intro kg2 hkg2 ov2 hov2
    obtain ⟨kg1, hkg1, e1, e2⟩ := hlink kg2 hkg2 ov2 hov2
    refine ⟨kg1, hkg1, e1, e2, ?_⟩
    unfold piecesOf
    rw [← e1, get?_of_mem F1k (show (kg1.1, kg1.2) ∈ G1 from hkg1)]
    rfl
  refine ⟨layoutOf G1 (sortDict G2) W2, ((sortDict G2).map fun kg => (W2 kg).length).sum, sy, sx,
    hsum, hsy, hsx, hRrect, ?_, ?_, ?_⟩
  ------------------------------------------------------------------ Ordered
  · refine ⟨?_, ?_⟩
    · simp only [layoutOf, List.map_map, Function.comp_def]
      exact hS3k
    · intro s hs
      obtain ⟨kg2, hkg2, rfl⟩ := List.mem_map.mp hs
      have hkg2' := hS3mem kg2 hkg2
      refine ⟨?_, ?_⟩
      · simp only [List.map_map, Function.comp_def]
        exact sortDict_strict kg2.2 (F2in kg2 hkg2')
      · intro t ht
        obtain ⟨ov2, hov2, rfl⟩ := List.mem_map.mp ht
        obtain ⟨kg1, hkg1, _, _, e3⟩ := hpieces kg2 hkg2' ov2 ((mem_sortDict _ _).mp hov2)
        simp only [List.map_map, Function.comp_def, e3]
        exact sortDict_strict kg1.2 (F1in kg1 hkg1)
  ------------------------------------------------------------------ Valid
  · refine ⟨?_, ?_⟩
    · intro s hs
      simp only [OZ.lens, layoutOf, List.map_map, Function.comp_def] at hs
      obtain ⟨kg2, hkg2, rfl⟩ := List.mem_map.mp hs
      have hkg2' := hS3mem kg2 hkg2
      obtain ⟨hlen, hrect2⟩ := hslabs (kg2.1, W2 kg2) (List.mem_map.mpr ⟨kg2, hkg2, rfl⟩)
      obtain ⟨sz, sx', hz, hx', hs1, hr1, hall1, _⟩ := gf1 kg2 hkg2'
      obtain ⟨_, e2, e3⟩ := rect_unique hr1 hrect2 hz hs1
      refine ⟨hlen, ⟨?_, ?_⟩⟩
      · intro t ht
        obtain ⟨ov2, hov2, rfl⟩ := List.mem_map.mp ht
        obtain ⟨hd1, hr2⟩ := hall1 ov2 hov2
        obtain ⟨kg1, hkg1, _, e5, e6⟩ := hpieces kg2 hkg2' ov2 ((mem_sortDict _ _).mp hov2)
        obtain ⟨sz', sy', hz', hy', hs2, hrw, hall2, _⟩ := gf2 kg1 hkg1
        rw [e5] at hrw
        obtain ⟨_, _, e7⟩ := rect_unique hrw hr2 hz' hy'
        refine ⟨hd1, ⟨?_, ?_⟩⟩
        · intro l hl
          simp only [e6, List.map_map, Function.comp_def] at hl
          obtain ⟨ov1, hov1, rfl⟩ := List.mem_map.mp hl
          exact hall2 ov1 hov1
        · simp only [e6, List.map_map, Function.comp_def]
          omega
      · simp only [List.map_map, Function.comp_def]
        exact e2
    · simp only [OZ.lens, layoutOf, List.map_map, Function.comp_def]
  ------------------------------------------------------------------ Perm
  · have hA : ochunks R (layoutOf G1 (sortDict G2) W2) = relisted G1 (sortDict G2) := by
      unfold ochunks layoutOf relisted
      have := cutsP_map_flatMap (fun kg2 : Nat × Dict Nat (Arr3 α) => (W2 kg2).length)
        (fun kg2 => (kg2.1, (sortDict kg2.2).map fun ov2 => (dim1 ov2.2, ov2.1,
          (piecesOf G1 ov2.1 kg2.1).map fun ov1 => (dim2 ov1.2, ov1.1))))
        (fun o l => slice0 o l R) (fun kg2 => W2 kg2)
        (fun slab (p : Nat × OY) => (cutsP 0 p.2).flatMap fun yc =>
          (cutsP 0 yc.2.2.2).map fun xc =>
            ((xc.2.2, yc.2.2.1, p.1), slice2 xc.1 xc.2.1 (slice1 yc.1 yc.2.1 slab)))
        (sortDict G2) 0 (by simpa [List.map_map, Function.comp_def] using hsl0)
      refine this.trans ?_
      apply List.flatMap_congr
      intro kg2 hkg2
      have hkg2' := hS3mem kg2 hkg2
      obtain ⟨sz, sx', hz, hx', hs1, hr1, hall1, hsl1⟩ := gf1 kg2 hkg2'
      have := cutsP_map_flatMap (fun ov2 : Nat × Arr3 α => dim1 ov2.2)
        (fun ov2 => (ov2.1, (piecesOf G1 ov2.1 kg2.1).map fun ov1 => (dim2 ov1.2, ov1.1)))
        (fun o l => slice1 o l (W2 kg2)) (fun ov2 => ov2.2)
        (fun strip (p : Nat × OX) => (cutsP 0 p.2).map fun xc =>
            ((xc.2.2, p.1, kg2.1), slice2 xc.1 xc.2.1 strip))
        (sortDict kg2.2) 0 hsl1
      refine this.trans ?_
      apply List.flatMap_congr
      intro ov2 hov2
      obtain ⟨kg1, hkg1, _, e5, e6⟩ := hpieces kg2 hkg2' ov2 ((mem_sortDict _ _).mp hov2)
      obtain ⟨sz', sy', hz', hy', hs2, hrw, hall2, hsl2⟩ := gf2 kg1 hkg1
      rw [e5] at hsl2
      rw [e6]
      exact cutsP_map_map (fun ov1 : Nat × Arr3 α => dim2 ov1.2) (fun ov1 => ov1.1)
        (fun o l => slice2 o l ov2.2) (fun ov1 => ov1.2)
        (fun b ix => ((ix, ov2.1, kg2.1), b)) (sortDict kg1.2) 0 hsl2
    rw [hA]
    -- the re-listing is a permutation of the dictionary
    have hB : (relisted G1 (sortDict G2)).Perm (flat G1) := by
      unfold relisted
      -- undo the three sorts
      have p1 : ((sortDict G2).flatMap fun kg2 => (sortDict kg2.2).flatMap fun ov2 =>
            (piecesOf G1 ov2.1 kg2.1).map fun ov1 => ((ov1.1, ov2.1, kg2.1), ov1.2)).Perm
          (G2.flatMap fun kg2 => kg2.2.flatMap fun ov2 =>
            ((G1.get? (ov2.1, kg2.1)).getD []).map fun ov1 => ((ov1.1, ov2.1, kg2.1), ov1.2)) := by
        apply List.Perm.flatMap (sortDict_perm G2)
        intro kg2 _
        apply List.Perm.flatMap (sortDict_perm kg2.2)
        intro ov2 _
        exact (sortDict_perm _).map _
      refine p1.trans ?_
      -- through `flat G2 ~ R1`
      have e1 : (G2.flatMap fun kg2 => kg2.2.flatMap fun ov2 =>
            ((G1.get? (ov2.1, kg2.1)).getD []).map fun ov1 => ((ov1.1, ov2.1, kg2.1), ov1.2))
          = (flat G2).flatMap fun x =>
            ((G1.get? (x.1.1, x.1.2)).getD []).map fun ov1 => ((ov1.1, x.1.1, x.1.2), ov1.2) := by
        simp only [flat, List.flatMap_assoc, List.flatMap_map]
      rw [e1]
      refine (F2flat.flatMap_right _).trans ?_
      rw [List.flatMap_map]
      have e2 : (G1.flatMap fun kg1 =>
            ((G1.get? (kg1.1.1, kg1.1.2)).getD []).map fun ov1 => ((ov1.1, kg1.1.1, kg1.1.2), ov1.2))
          = flat G1 := by
        unfold flat
        apply List.flatMap_congr
        intro kg1 hkg1
        have : G1.get? (kg1.1.1, kg1.1.2) = some kg1.2 :=
          get?_of_mem F1k (show ((kg1.1.1, kg1.1.2), kg1.2) ∈ G1 from hkg1)
        rw [this]
        rfl
      rw [e2]
    exact (hB.trans F1flat).symm

end AurelVerif.AcceptLemmas
