/-
Lemmas/C12History.lean — Model/ReadCacheX.lean: the statements about one call in
terms of the call's plan (catalogue, 'it to do', resolved request), and histories.
-/
import AurelVerif.Lemmas.C12Call
namespace AurelVerif.ReadCacheXLemmas
open AurelVerif.Chunks AurelVerif.ReadCache AurelVerif.ReadCacheX AurelVerif.ReadCacheLemmas
  AurelVerif.ChunksLemmas
set_option linter.unusedSimpArgs false
set_option linter.unusedVariables false

/-- the catalogue after `iterations()` and the 'it to do' of every restart of a call;
`none`: the call raises before it reads anything (empty `it`, nothing catalogued, an
explicit restart that is not catalogued) -/
def planX {β : Type} (w : World β) (done : List Nat) (c : CallX) : Option (List Nat × List (Nat × List Nat)) :=
  if sortedSet c.its = [] then none
  else
    match catalogue w done c.skipLast with
    | none => none
    | some done' =>
      match todoX (catsOf w done') c.usechk c.restart (sortedSet c.its) with
      | none => none
      | some todo => some (done', todo)

/-- the names a call asks for: its `vars`, or for `vars=[]` the 'var available' of the
first restart that has something to do (`none`: no such restart, or it has no 3D output) -/
def requestOf {β : Type} (w : World β) (c : CallX) (todo : List (Nat × List Nat)) : Option (List (List Nat)) :=
  if c.req = [] then
    match todo.find? fun rt => !rt.2.isEmpty with
    | none => none
    | some rt => (w.info rt.1).bind (·.varAvail)
  else some c.req

/-- the end of a call, given the outcome of the loop over the restarts -/
def finish {β : Type} (sits done' : List Nat) (o : Except (Store β) (List (Nat × Tab β) × Store β)) :
    Option (List (Row β)) × List Nat × Store β :=
  match o with
  | .error s => (none, done', s)
  | .ok (datar, store') =>
    match flattenX sits datar with
    | none => (none, done', store')
    | some rows => (some rows, done', store')

theorem readDataX_eq_finish {β : Type} (w : World β) (done : List Nat) (c : CallX) (store : Store β)
    (done' : List Nat) (todo : List (Nat × List Nat)) (hplan : planX w done c = some (done', todo)) :
    readDataX w done c store = finish (sortedSet c.its) done'
      (outcome (foldE (restartStep w c.usechk c.split c.rl) { var := c.req, datar := [], store := store } todo)) := by
  unfold planX at hplan
  unfold readDataX
  simp only
  split at hplan
  · cases hplan
  · rename_i hne
    simp only [hne, if_false]
    cases hc : catalogue w done c.skipLast with
    | none => simp [hc] at hplan
    | some d1 =>
      simp only [hc] at hplan ⊢
      cases ht : todoX (catsOf w d1) c.usechk c.restart (sortedSet c.its) with
      | none => simp [ht] at hplan
      | some td =>
        simp only [ht, Option.some.injEq, Prod.mk.injEq] at hplan ⊢
        obtain ⟨rfl, rfl⟩ := hplan
        cases foldE (restartStep w c.usechk c.split c.rl) { var := c.req, datar := [], store := store } td with
        | error e => rfl
        | ok st => rfl

/-- a call that raises before reading leaves catalogue-or-cache as the model says: the cache untouched -/
theorem readDataX_noplan {β : Type} (w : World β) (done : List Nat) (c : CallX) (store : Store β)
    (hplan : planX w done c = none) : (readDataX w done c store).1 = none ∧ (readDataX w done c store).2.2 = store := by
  unfold planX at hplan
  unfold readDataX
  simp only
  split at hplan
  · rename_i h; simp [h]
  · rename_i hne
    simp only [hne, if_false]
    cases hc : catalogue w done c.skipLast with
    | none => simp
    | some d1 =>
      simp only [hc] at hplan ⊢
      cases ht : todoX (catsOf w d1) c.usechk c.restart (sortedSet c.its) with
      | none => simp
      | some td => simp [ht] at hplan

/-- **`vars=[]`**: the call is the call with the resolved request -/
theorem readDataX_request {β : Type} (w : World β) (done : List Nat) (c : CallX) (store : Store β)
    (done' : List Nat) (todo : List (Nat × List Nat)) (hplan : planX w done c = some (done', todo))
    (V : List (List Nat)) (hV : requestOf w c todo = some V) (hVne : V ≠ []) :
    readDataX w done c store = finish (sortedSet c.its) done'
      (outcome (foldE (restartStep w c.usechk c.split c.rl) { var := V, datar := [], store := store } todo)) := by
  rw [readDataX_eq_finish w done c store done' todo hplan]
  unfold requestOf at hV
  split at hV
  · rename_i hreq
    rw [hreq]
    rw [loop_resolve w c.usechk c.split c.rl V hVne todo ?_ [] store]
    intro rt hf
    rw [hf] at hV
    exact hV
  · cases hV; rfl

/-! ### every returned cell -/

/-- **the returned rows of a call on 3D data (cached or not, `vars` explicit or `[]`)**:
on a cache with the invariant, if every restart that has something to do is catalogued
with 3D output and holds at least one requested component, the call returns; the cache keeps
the invariant; the rows are the (iteration, restart) pairs in the order of the flattening;
every requested component has, in every row, the source (uncached read) of that row's
restart and iteration when the restart holds it and `None` when it does not; the time is
the source. -/
theorem readDataX_cells {β : Type} (w : World β) (done : List Nat) (c : CallX) (store : Store β)
    (hG : GInvX w store) (hchk : c.usechk = false)
    (done' : List Nat) (todo : List (Nat × List Nat)) (hplan : planX w done c = some (done', todo))
    (V : List (List Nat)) (hV : requestOf w c todo = some V) (hVne : V ≠ [])
    (hread : NotStarved w V todo) :
    ∃ rows store', readDataX w done c store = (some rows, done', store') ∧ GInvX w store' ∧
      rows.map (fun r => (r.1, r.2.1))
        = RestartsLemmas.rowsLoop (todo.filter fun rt => !rt.2.isEmpty) (sortedSet c.its) ∧
      ∀ row ∈ rows, ∀ n ∈ V.flatten.map DName.var ++ [DName.t],
        cellVal row.2.2 n = expect w c.rl row.2.1 row.1 n := by
  rw [readDataX_request w done c store done' todo hplan V hV hVne, hchk]
  obtain ⟨st, hst, hok⟩ := loop_spec w c.split c.rl V todo hread store hG
  rw [hst]
  obtain ⟨rows, hfl, hpairs, hcells⟩ := flattenX_spec w c.rl (V.flatten.map DName.var ++ [DName.t])
    (sortedSet c.its) st.datar hok.tabs
  refine ⟨rows, st.store, ?_, hok.ginv, ?_, hcells⟩
  · simp only [outcome, finish, hfl]
  · rw [hpairs, pairsOf_eq, hok.shape]

/-- **the cached read never raises and never returns a wrong variable**: a cached call on
3D data on a cache with the invariant, when the restarts that have something to do are
catalogued with 3D output: the call returns — whatever variables those restarts lack, even
all the requested ones — and every requested component has in every row the source where
the row's restart holds it and `None` where it does not. -/
theorem readDataX_cached_cells {β : Type} (w : World β) (done : List Nat) (c : CallX) (store : Store β)
    (hG : GInvX w store) (hchk : c.usechk = false) (hsplit : c.split = true)
    (done' : List Nat) (todo : List (Nat × List Nat)) (hplan : planX w done c = some (done', todo))
    (V : List (List Nat)) (hV : requestOf w c todo = some V) (hVf : V.flatten ≠ [])
    (hread : Has3D w todo) :
    ∃ rows store', readDataX w done c store = (some rows, done', store') ∧ GInvX w store' ∧
      rows.map (fun r => (r.1, r.2.1))
        = RestartsLemmas.rowsLoop (todo.filter fun rt => !rt.2.isEmpty) (sortedSet c.its) ∧
      ∀ row ∈ rows, ∀ n ∈ V.flatten.map DName.var, cellVal row.2.2 n = expect w c.rl row.2.1 row.1 n := by
  have hVne : V ≠ [] := by
    intro e; subst e; exact hVf rfl
  rw [readDataX_request w done c store done' todo hplan V hV hVne, hchk, hsplit]
  obtain ⟨st, hst, hok⟩ := loop_cached_spec w c.rl V hVf todo hread store hG
  rw [hst]
  obtain ⟨rows, hfl, hpairs, hcells⟩ := flattenX_spec w c.rl (V.flatten.map DName.var)
    (sortedSet c.its) st.datar hok.tabs
  refine ⟨rows, st.store, ?_, hok.ginv, ?_, hcells⟩
  · simp only [outcome, finish, hfl]
  · rw [hpairs, pairsOf_eq, hok.shape]

/-! ### the order of the rows, any call that returns -/

/-- the checkpoint reader lists the iterations it was asked for -/
def ChkIts {β : Type} (w : World β) : Prop :=
  ∀ R var its rl T, w.chkRead R var its rl = some T → T.its = its

theorem restartStep_shape {β : Type} (w : World β) (hc : ChkIts w) (usechk split : Bool) (rl : Nat)
    (st st' : LoopSt β) (rt : Nat × List Nat) (h : restartStep w usechk split rl st rt = .ok st') :
    st'.datar.map (fun d => (d.1, d.2.its))
      = st.datar.map (fun d => (d.1, d.2.its)) ++ [rt].filter fun rt => !rt.2.isEmpty := by
  unfold restartStep at h
  obtain ⟨r1, r2⟩ := rt
  cases r2 with
  | nil => simp only [if_true] at h; cases h; simp
  | cons a b =>
    simp only [reduceCtorEq, if_false] at h
    have hgoal : ∀ (T : Tab β), T.its = a :: b →
        (st.datar ++ [(r1, T)]).map (fun d => (d.1, d.2.its))
          = st.datar.map (fun d => (d.1, d.2.its)) ++ [(r1, a :: b)].filter fun rt => !rt.2.isEmpty := by
      intro T hT; simp [hT]
    split at h
    · cases h
    · rename_i ri _
      split at h
      · cases h
      · rename_i var _
        split at h
        · cases hr : w.chkRead r1 var (a :: b) rl with
          | none => simp [hr] at h
          | some T =>
            simp only [hr] at h
            cases h
            exact hgoal T (hc _ _ _ _ T hr)
        · split at h
          · cases hr : readRestartX w ri.varAvail.isNone ri.grouped var st.store r1 rl (a :: b) with
            | error e => simp [hr] at h
            | ok r =>
              obtain ⟨T, store', var'⟩ := r
              simp only [hr] at h
              cases h
              apply hgoal
              unfold readRestartX at hr
              simp only at hr
              split at hr
              · cases hr
              · cases hr; rfl
          · split at h
            · cases h
            · cases h
              exact hgoal _ rfl

theorem foldE_shape {β : Type} (w : World β) (hc : ChkIts w) (usechk split : Bool) (rl : Nat)
    (todo : List (Nat × List Nat)) (st st' : LoopSt β)
    (h : foldE (restartStep w usechk split rl) st todo = .ok st') :
    st'.datar.map (fun d => (d.1, d.2.its))
      = st.datar.map (fun d => (d.1, d.2.its)) ++ todo.filter fun rt => !rt.2.isEmpty := by
  induction todo generalizing st with
  | nil => simp only [foldE] at h; cases h; simp
  | cons rt rest ih =>
    simp only [foldE] at h
    cases hs : restartStep w usechk split rl st rt with
    | error e => simp [hs] at h
    | ok s1 =>
      simp only [hs] at h
      rw [ih s1 h, restartStep_shape w hc usechk split rl st s1 rt hs, List.append_assoc]
      congr 1
      rw [← List.filter_append]
      rfl

/-- **T3 for every kind of call**: with `restart=-1` the rows of a call that returns are the
rows of C11's restart model (`Restarts.rowsOf`): the sorted requested iterations, each from
the latest catalogued restart that holds it — 3D range or checkpoint list — cached or not -/
theorem readDataX_rows {β : Type} (w : World β) (hc : ChkIts w) (done : List Nat) (c : CallX) (store : Store β)
    (hrestart : c.restart = none) (rows : List (Row β))
    (h : (readDataX w done c store).1 = some rows)
    (hnd : ((catsOf w (readDataX w done c store).2.1).map (·.num)).Nodup) :
    rows.map (fun r => (r.1, r.2.1)) = Restarts.rowsOf c.usechk (catsOf w (readDataX w done c store).2.1) c.its := by
  cases hplan : planX w done c with
  | none => rw [(readDataX_noplan w done c store hplan).1] at h; cases h
  | some p =>
    obtain ⟨done', todo⟩ := p
    have heq := readDataX_eq_finish w done c store done' todo hplan
    rw [heq] at h hnd
    -- the catalogue of the result is `done'`, the 'it to do' is that of the restart model
    have hdone : (finish (sortedSet c.its) done' (outcome (foldE (restartStep w c.usechk c.split c.rl)
        { var := c.req, datar := [], store := store } todo))).2.1 = done' := by
      unfold finish
      cases outcome (foldE (restartStep w c.usechk c.split c.rl) { var := c.req, datar := [], store := store } todo) with
      | error e => rfl
      | ok r =>
        obtain ⟨r1, r2⟩ := r
        simp only
        cases flattenX (sortedSet c.its) r1 <;> rfl
    rw [hdone] at hnd
    rw [heq, hdone]
    have htodo : todo = Restarts.itToDo c.usechk (catsOf w done') (sortedSet c.its) := by
      unfold planX at hplan
      split at hplan
      · cases hplan
      · cases hcat : catalogue w done c.skipLast with
        | none => simp [hcat] at hplan
        | some d1 =>
          simp only [hcat, hrestart, todoX, Option.some.injEq, Prod.mk.injEq] at hplan
          obtain ⟨rfl, rfl⟩ := hplan
          rfl
    cases hf : foldE (restartStep w c.usechk c.split c.rl) { var := c.req, datar := [], store := store } todo with
    | error e => simp [hf, outcome, finish] at h
    | ok st =>
      simp only [hf, outcome, finish] at h
      cases hfl : flattenX (sortedSet c.its) st.datar with
      | none => simp [hfl] at h
      | some rows' =>
        simp only [hfl, Option.some.injEq] at h
        subst h
        rw [flattenX_pairs _ _ _ hfl, pairsOf_eq, foldE_shape w hc c.usechk c.split c.rl todo _ st hf]
        simp only [List.map_nil, List.nil_append]
        rw [htodo, RestartsLemmas.rowsLoop_itToDo c.usechk (catsOf w done') hnd (sortedSet c.its)]
        rfl

/-! ### the catalogue -/

theorem catalogue_grows {β : Type} (w : World β) (done done' : List Nat) (skipLast : Bool)
    (h : catalogue w done skipLast = some done') : ∀ r ∈ done, r ∈ done' := by
  unfold catalogue at h
  simp only at h
  generalize ((if skipLast = true then (w.restarts.map fun ri => ri.cat.num).dropLast
    else w.restarts.map fun ri => ri.cat.num).filter fun r => !done.contains r) = new at h
  by_cases hc : (new.isEmpty && done.isEmpty) = true
  · simp [hc] at h
  · simp only [hc, Bool.false_eq_true, if_false, Option.some.injEq] at h
    subst h
    intro r hr
    exact List.mem_append.mpr (Or.inl hr)

/-- **a restart, once catalogued, stays catalogued** whatever `skip_last` the later calls use
and whether they return or raise -/
theorem readDataX_catalogue {β : Type} (w : World β) (done : List Nat) (c : CallX) (store : Store β) :
    ∀ r ∈ done, r ∈ (readDataX w done c store).2.1 := by
  intro r hr
  unfold readDataX
  simp only
  split
  · exact hr
  · cases hc : catalogue w done c.skipLast with
    | none => exact hr
    | some done' =>
      have hg := catalogue_grows w done done' c.skipLast hc r hr
      simp only
      split
      · exact hg
      · split
        · exact hg
        · split <;> exact hg

theorem info_num {β : Type} (w : World β) (r : Nat) (ri : RInfo) (h : w.info r = some ri) : ri.cat.num = r := by
  unfold World.info at h
  have := List.find?_some h
  simpa using this

theorem catsOf_nums {β : Type} (w : World β) (done : List Nat) :
    (catsOf w done).map (·.num) = done.filter fun r => (w.info r).isSome := by
  unfold catsOf
  induction done with
  | nil => rfl
  | cons r rest ih =>
    simp only [List.filterMap_cons, List.filter_cons]
    cases hi : w.info r with
    | none => simpa using ih
    | some ri =>
      simp only [Option.map_some, List.map_cons, Option.isSome_some, if_true, ih]
      rw [info_num w r ri hi]

theorem catsOf_nodup {β : Type} (w : World β) (done : List Nat) (h : done.Nodup) :
    ((catsOf w done).map (·.num)).Nodup := by
  rw [catsOf_nums]
  exact h.sublist List.filter_sublist

theorem catalogue_nodup {β : Type} (w : World β) (hw : (w.restarts.map fun ri => ri.cat.num).Nodup)
    (done done' : List Nat) (skipLast : Bool) (hd : done.Nodup)
    (h : catalogue w done skipLast = some done') : done'.Nodup := by
  unfold catalogue at h
  simp only at h
  have hcand : (if skipLast = true then (w.restarts.map fun ri => ri.cat.num).dropLast
      else w.restarts.map fun ri => ri.cat.num).Nodup := by
    split
    · exact hw.sublist (List.dropLast_sublist _)
    · exact hw
  generalize (if skipLast = true then (w.restarts.map fun ri => ri.cat.num).dropLast
      else w.restarts.map fun ri => ri.cat.num) = cand at h hcand
  have hnew : (cand.filter fun r => !done.contains r).Nodup := hcand.sublist List.filter_sublist
  have hdisj : ∀ a ∈ done, a ∉ (cand.filter fun r => !done.contains r) := by
    intro a ha hb
    have := (List.mem_filter.mp hb).2
    simp [ha] at this
  generalize (cand.filter fun r => !done.contains r) = new at h hnew hdisj
  by_cases hc : (new.isEmpty && done.isEmpty) = true
  · simp [hc] at h
  · simp only [hc, Bool.false_eq_true, if_false, Option.some.injEq] at h
    subst h
    refine List.nodup_append.mpr ⟨hd, hnew, ?_⟩
    intro a ha b hb e
    subst e
    exact hdisj a ha hb

theorem readDataX_done_nodup {β : Type} (w : World β) (hw : (w.restarts.map fun ri => ri.cat.num).Nodup)
    (done : List Nat) (c : CallX) (store : Store β) (hd : done.Nodup) : (readDataX w done c store).2.1.Nodup := by
  unfold readDataX
  simp only
  split
  · exact hd
  · cases hc : catalogue w done c.skipLast with
    | none => exact hd
    | some done' =>
      have hg := catalogue_nodup w hw done done' c.skipLast hd hc
      simp only
      split
      · exact hg
      · split
        · exact hg
        · split <;> exact hg

/-! ### histories -/

/-- catalogue and cache after a call -/
def afterX {β : Type} (w : World β) (s : List Nat × Store β) (c : CallX) : List Nat × Store β :=
  ((readDataX w s.1 c s.2).2.1, (readDataX w s.1 c s.2).2.2)

/-- the states after each call of a history -/
def statesOf {β : Type} (w : World β) : List Nat × Store β → List CallX → List (List Nat × Store β)
  | _, [] => []
  | s, c :: cs => afterX w s c :: statesOf w (afterX w s c) cs

/-- the state each call of a history starts from -/
def statesBefore {β : Type} (w : World β) : List Nat × Store β → List CallX → List ((List Nat × Store β) × CallX)
  | _, [] => []
  | s, c :: cs => (s, c) :: statesBefore w (afterX w s c) cs

theorem historyX_pres {β : Type} (w : World β) (P : Store β → Prop) (hP : SavePresHas w P) (hist : List CallX)
    (s : List Nat × Store β) (h : P s.2) :
    (∀ t ∈ statesOf w s hist, P t.2) ∧ (∀ sc ∈ statesBefore w s hist, P sc.1.2) := by
  induction hist generalizing s with
  | nil => exact ⟨fun t ht => (by cases ht), fun sc hsc => (by cases hsc)⟩
  | cons c cs ih =>
    have h1 : P (afterX w s c).2 := readDataX_pres w P hP s.1 c s.2 h
    obtain ⟨i1, i2⟩ := ih (afterX w s c) h1
    constructor
    · intro t ht
      simp only [statesOf] at ht
      rcases List.mem_cons.mp ht with rfl | ht
      · exact h1
      · exact i1 t ht
    · intro sc hsc
      simp only [statesBefore] at hsc
      rcases List.mem_cons.mp hsc with rfl | hsc
      · exact h
      · exact i2 sc hsc

theorem historyX_done_nodup {β : Type} (w : World β) (hw : (w.restarts.map fun ri => ri.cat.num).Nodup)
    (hist : List CallX) (s : List Nat × Store β) (h : s.1.Nodup) :
    ∀ sc ∈ statesBefore w s hist, sc.1.1.Nodup := by
  induction hist generalizing s with
  | nil => intro sc hsc; cases hsc
  | cons c cs ih =>
    intro sc hsc
    simp only [statesBefore] at hsc
    rcases List.mem_cons.mp hsc with rfl | hsc
    · exact h
    · exact ih (afterX w s c) (readDataX_done_nodup w hw s.1 c s.2 h) sc hsc

end AurelVerif.ReadCacheXLemmas
