/-
Lemmas/C11Checkpoint.lean — proofs about Model/Checkpoint.lean (C11).

A. what `readFile` selects from a well-formed file (three layouts).
B. `var_chunks` after the loops = per variable, the dictionary of its chunks.
C. one iteration read back exactly (`readIt`).
-/
import Mathlib.Data.List.Nodup
import AurelVerif.Lemmas.Chunks
import AurelVerif.Spec.CheckpointSpec
namespace AurelVerif.CheckpointLemmas
open AurelVerif.Chunks AurelVerif.ChunksLemmas AurelVerif.Checkpoint AurelVerif.CheckpointSpec
set_option linter.unusedSimpArgs false
set_option linter.unusedVariables false

/-! ### A. one file -/

theorem foldl_max_eq (l : List Nat) (m : Nat) (hle : ∀ x ∈ l, x ≤ m) :
    ∀ init, init ≤ m → (m ∈ l ∨ init = m) → l.foldl max init = m := by
  induction l with
  | nil => intro init _ h; rcases h with h | h; cases h; simpa using h
  | cons x xs ih =>
    intro init hi h
    simp only [List.foldl_cons]
    have hx := hle x (List.mem_cons_self ..)
    apply ih (fun y hy => hle y (List.mem_cons_of_mem _ hy)) (max init x) (by omega)
    rcases h with h | h
    · rcases List.mem_cons.mp h with h | h
      · right; omega
      · left; exact h
    · right; omega

theorem mapOpt_c {α : Type} (cur : List (DSet α)) (h : ∀ d ∈ cur, ∃ c, d.c = some c) :
    mapOpt (fun d : DSet α => d.c) cur = some (cur.map fun d => d.c.getD 0) :=
  mapOpt_eq_map _ _ _ (fun d hd => by obtain ⟨c, hc⟩ := h d hd; simp [hc])

theorem selectKey_nochunks {α : Type} (cur : List (DSet α)) (v : String) (c : Option Nat) (d : DSet α)
    (h : offers cur v = [d]) : selectKey cur true v c = some d := by
  unfold selectKey
  unfold offers at h
  simp [h]

theorem selectKey_chunk {α : Type} (cur : List (DSet α)) (v : String) (c : Option Nat) (d : DSet α)
    (h : (offers cur v).filter (fun d => d.c == c) = [d]) : selectKey cur false v c = some d := by
  unfold selectKey
  unfold offers at h
  simp [h]

theorem mapOpt_flatMap_sel {α : Type} (cur : List (DSet α)) (nochunks : Bool) (crange : List (Option Nat))
    (var : List String) (sel : String → List (DSet α))
    (h : ∀ v ∈ var, mapOpt (fun c => selectKey cur nochunks v c) crange = some (sel v)) :
    mapOpt (fun vc : String × Option Nat => (selectKey cur nochunks vc.1 vc.2).map fun d => (vc.1, d))
        (var.flatMap fun v => crange.map fun c => (v, c))
      = some (var.flatMap fun v => (sel v).map fun d => (v, d)) := by
  induction var with
  | nil => rfl
  | cons v rest ih =>
    have hv := h v (List.mem_cons_self ..)
    have ihr := ih (fun v' hv' => h v' (List.mem_cons_of_mem _ hv'))
    simp only [List.flatMap_cons]
    -- mapOpt over an append
    have happ : ∀ (xs : List (Option Nat)) (ys : List (DSet α)) (tl : List (String × Option Nat))
        (tr : List (String × DSet α)),
        mapOpt (fun c => selectKey cur nochunks v c) xs = some ys →
        mapOpt (fun vc : String × Option Nat => (selectKey cur nochunks vc.1 vc.2).map fun d => (vc.1, d)) tl = some tr →
        mapOpt (fun vc : String × Option Nat => (selectKey cur nochunks vc.1 vc.2).map fun d => (vc.1, d))
          (xs.map (fun c => (v, c)) ++ tl) = some (ys.map (fun d => (v, d)) ++ tr) := by
      intro xs
      induction xs with
      | nil => intro ys tl tr h1 h2; simp [mapOpt] at h1; subst h1; simpa using h2
      | cons c cs ihc =>
        intro ys tl tr h1 h2
        simp only [mapOpt] at h1
        cases hs : selectKey cur nochunks v c with
        | none => simp [hs] at h1
        | some d =>
          simp only [hs] at h1
          cases hm : mapOpt (fun c => selectKey cur nochunks v c) cs with
          | none => simp [hm] at h1
          | some ys' =>
            simp only [hm, Option.some.injEq] at h1
            subst h1
            simp only [List.map_cons, List.cons_append, mapOpt, hs, Option.map_some, ihc ys' tl tr hm h2]
    exact happ crange (sel v) _ _ hv ihr

/-- what is read from a well-formed file, in the order `for v in var: for c in crange` -/
theorem readFile_good {α : Type} (cmax : CMax) (f : CFile α) (iit rl : Nat) (var : List String)
    (sel : String → List (DSet α)) (h : GoodFile cmax f iit rl var sel) :
    readFile cmax iit rl var f = some (var.flatMap fun v => (sel v).map fun d => (v, d))
      ∧ ∀ v ∈ var, sel v ≠ [] := by
  unfold readFile
  cases h with
  | single hc hne hnoc huniq =>
    subst hc
    have hcr : chunkRange CMax.inFile f (relevant f iit rl) = some (true, [some 0]) := by
      unfold chunkRange
      cases hr : relevant f iit rl with
      | nil => exact absurd hr hne
      | cons d0 rest =>
        have : d0.c = none := hnoc d0 (by rw [hr]; exact List.mem_cons_self ..)
        simp [this]
    simp only [hcr]
    refine ⟨mapOpt_flatMap_sel _ _ _ _ _ ?_, ?_⟩
    · intro v hv
      obtain ⟨d, hd, hs⟩ := huniq v hv
      simp [mapOpt, selectKey_nochunks _ v (some 0) d hd, hs]
    · intro v hv
      obtain ⟨d, _, hs⟩ := huniq v hv
      simp [hs]
  | chunked n hc hn hcs hmax huniq =>
    subst hc
    have hcr : chunkRange CMax.inFile f (relevant f iit rl) = some (false, (List.range n).map some) := by
      unfold chunkRange
      cases hr : relevant f iit rl with
      | nil =>
        obtain ⟨d, hd, _⟩ := hmax
        rw [hr] at hd; cases hd
      | cons d0 rest =>
        obtain ⟨c0, hc0, _⟩ := hcs d0 (by rw [hr]; exact List.mem_cons_self ..)
        simp only [hc0, Option.isSome_some, if_true]
        rw [← hr, mapOpt_c _ (fun d hd => by obtain ⟨c, hc, _⟩ := hcs d hd; exact ⟨c, hc⟩)]
        simp only [Option.map_some, Option.some.injEq, Prod.mk.injEq, true_and]
        have : ((relevant f iit rl).map fun d => d.c.getD 0).foldl max 0 = n - 1 := by
          apply foldl_max_eq
          · intro x hx
            obtain ⟨d, hd, rfl⟩ := List.mem_map.mp hx
            obtain ⟨c, hc, hlt⟩ := hcs d hd
            simp [hc]; omega
          · omega
          · left
            obtain ⟨d, hd, hdc⟩ := hmax
            exact List.mem_map.mpr ⟨d, hd, by simp [hdc]⟩
        rw [this]
        congr 2
        omega
    simp only [hcr]
    refine ⟨mapOpt_flatMap_sel _ _ _ _ _ ?_, ?_⟩
    · intro v hv
      obtain ⟨pk, hpk, hs⟩ := huniq v hv
      rw [hs]
      have : ∀ cs : List Nat, (∀ c ∈ cs, c < n) →
          mapOpt (fun c => selectKey (relevant f iit rl) false v c) (cs.map some) = some (cs.map pk) := by
        intro cs
        induction cs with
        | nil => intro _; rfl
        | cons c rest ih =>
          intro hlt
          simp only [List.map_cons, mapOpt,
            selectKey_chunk _ v (some c) (pk c) (hpk c (hlt c (List.mem_cons_self ..))),
            ih (fun c' hc' => hlt c' (List.mem_cons_of_mem _ hc'))]
      exact this (List.range n) (fun c hc => List.mem_range.mp hc)
    · intro v hv
      obtain ⟨pk, _, hs⟩ := huniq v hv
      rw [hs]
      intro e
      have := congrArg List.length e
      simp at this
      omega
  | perproc m k hc hk huniq =>
    subst hc
    have hcr : chunkRange (CMax.num m) f (relevant f iit rl) = some (false, [some k]) := by
      unfold chunkRange; simp [hk]
    simp only [hcr]
    refine ⟨mapOpt_flatMap_sel _ _ _ _ _ ?_, ?_⟩
    · intro v hv
      obtain ⟨d, hd, hs⟩ := huniq v hv
      simp [mapOpt, selectKey_chunk _ v (some k) d hd, hs]
    · intro v hv
      obtain ⟨d, _, hs⟩ := huniq v hv
      simp [hs]

/-! ### B. `var_chunks` -/

theorem get?_set_same {κ β : Type} [DecidableEq κ] (d : Dict κ β) (k : κ) (v : β) : (d.set k v).get? k = some v := by
  induction d with
  | nil => simp [Dict.set, Dict.get?]
  | cons kv rest ih =>
    obtain ⟨k', v'⟩ := kv
    simp only [Dict.set]
    by_cases e : k' = k
    · simp [e, Dict.get?]
    · simp [e, Dict.get?, ih]

theorem get?_set_ne {κ β : Type} [DecidableEq κ] (d : Dict κ β) (k k2 : κ) (v : β) (h : k ≠ k2) :
    (d.set k v).get? k2 = d.get? k2 := by
  induction d with
  | nil => simp [Dict.set, Dict.get?, h]
  | cons kv rest ih =>
    obtain ⟨k', v'⟩ := kv
    simp only [Dict.set]
    by_cases e : k' = k
    · subst e; simp [Dict.get?, h]
    · simp only [e, if_false, Dict.get?]
      split
      · rfl
      · exact ih

theorem vcSet_get {α : Type} (vc : VarChunks α) (v' v : String) (o : Nat × Nat × Nat) (x : Arr3 α) :
    (vcSet vc v' o x).get? v = if v' = v then some (Dict.set ((vc.get? v).getD []) o x) else vc.get? v := by
  unfold vcSet
  by_cases e : v' = v
  · subst e
    cases h : vc.get? v' with
    | none => simp [get?_set_same, Dict.set]
    | some d => simp [get?_set_same]
  · simp only [e, if_false]
    cases h : vc.get? v' with
    | none => simp [get?_set_ne _ _ _ _ e]
    | some d => simp [get?_set_ne _ _ _ _ e]

/-- the entries that the loops file under variable `v` -/
def entriesOf {α : Type} (items : List (String × DSet α)) (v : String) : List ((Nat × Nat × Nat) × Arr3 α) :=
  (items.filter fun vd => vd.1 == v).map fun vd => (vd.2.iorigin, trimmed vd.2)

theorem foldl_vcSet_get {α : Type} (items : List (String × DSet α)) (v : String) :
    ∀ vc : VarChunks α,
      (items.foldl (fun vc vd => vcSet vc vd.1 vd.2.iorigin (trimmed vd.2)) vc).get? v
        = if entriesOf items v = [] then vc.get? v
          else some ((entriesOf items v).foldl (fun d kv => Dict.set d kv.1 kv.2) ((vc.get? v).getD [])) := by
  induction items with
  | nil => intro vc; simp [entriesOf]
  | cons vd rest ih =>
    intro vc
    simp only [List.foldl_cons]
    rw [ih]
    by_cases e : vd.1 = v
    · have h1 : entriesOf (vd :: rest) v = (vd.2.iorigin, trimmed vd.2) :: entriesOf rest v := by
        simp [entriesOf, List.filter_cons, e]
      rw [h1, vcSet_get]
      simp only [e, if_true, Option.getD_some, List.foldl_cons]
      split <;> simp_all
    · have h1 : entriesOf (vd :: rest) v = entriesOf rest v := by
        simp [entriesOf, List.filter_cons, e]
      rw [h1, vcSet_get]
      simp only [e, if_false]

theorem vc_get {α : Type} (items : List (String × DSet α)) (v : String) (hne : entriesOf items v ≠ []) :
    (items.foldl (fun vc vd => vcSet vc vd.1 vd.2.iorigin (trimmed vd.2)) ([] : VarChunks α)).get? v
      = some (toDict (entriesOf items v)) := by
  rw [foldl_vcSet_get]
  simp [hne, toDict, Dict.get?]

theorem filter_flatMap_var {γ : Type} (var : List String) (hn : var.Nodup) (L : String → List γ) (v : String)
    (hv : v ∈ var) :
    (var.flatMap fun v' => (L v').map fun d => (v', d)).filter (fun vd => vd.1 == v) = (L v).map fun d => (v, d) := by
  induction var with
  | nil => cases hv
  | cons v' rest ih =>
    simp only [List.nodup_cons] at hn
    simp only [List.flatMap_cons, List.filter_append]
    rcases List.mem_cons.mp hv with rfl | hv'
    · have h1 : ((L v).map fun d => (v, d)).filter (fun vd => vd.1 == v) = (L v).map fun d => (v, d) := by
        rw [List.filter_eq_self]; intro x hx; obtain ⟨d, _, rfl⟩ := List.mem_map.mp hx; simp
      have h2 : (rest.flatMap fun v' => (L v').map fun d => (v', d)).filter (fun vd => vd.1 == v) = [] := by
        rw [List.filter_eq_nil_iff]
        intro x hx
        obtain ⟨v'', hv'', hx⟩ := List.mem_flatMap.mp hx
        obtain ⟨d, _, rfl⟩ := List.mem_map.mp hx
        have : v'' ≠ v := fun e => hn.1 (e ▸ hv'')
        simp [this]
      rw [h1, h2, List.append_nil]
    · have h1 : ((L v').map fun d => (v', d)).filter (fun vd => vd.1 == v) = [] := by
        rw [List.filter_eq_nil_iff]
        intro x hx; obtain ⟨d, _, rfl⟩ := List.mem_map.mp hx
        have : v' ≠ v := fun e => hn.1 (e ▸ hv')
        simp [this]
      rw [h1, List.nil_append, ih hn.2 hv']

/-- over all files of the iteration: the entries of `v` are its selected datasets, file by file -/
theorem entriesOf_files {α : Type} (F : List (CFile α)) (var : List String) (hn : var.Nodup)
    (sel : CFile α → String → List (DSet α)) (v : String) (hv : v ∈ var) :
    entriesOf ((F.map fun f => var.flatMap fun v' => (sel f v').map fun d => (v', d)).flatten) v
      = (F.flatMap fun f => sel f v).map fun d => (d.iorigin, trimmed d) := by
  unfold entriesOf
  induction F with
  | nil => rfl
  | cons f rest ih =>
    simp only [List.map_cons, List.flatten_cons, List.filter_append, List.map_append, List.flatMap_cons, ih]
    rw [filter_flatMap_var var hn (sel f) v hv, List.map_map]
    rfl

/-! ### C. one iteration -/

theorem rel2_map_left {β γ δ : Type} (f : β → δ) (R : δ → γ → Prop) :
    ∀ (bs : List β) (cs : List γ), Rel₂ (fun b c => R (f b) c) bs cs → Rel₂ R (bs.map f) cs
  | [], [], _ => trivial
  | b :: bs, c :: cs, h => ⟨h.1, rel2_map_left f R bs cs h.2⟩
  | [], _ :: _, h => h.elim
  | _ :: _, [], h => h.elim

theorem rel2_imp {β γ : Type} (R S : β → γ → Prop) (hRS : ∀ b c, R b c → S b c) :
    ∀ (bs : List β) (cs : List γ), Rel₂ R bs cs → Rel₂ S bs cs
  | [], [], _ => trivial
  | b :: bs, c :: cs, h => ⟨hRS b c h.1, rel2_imp R S hRS bs cs h.2⟩
  | [], _ :: _, h => h.elim
  | _ :: _, [], h => h.elim

theorem rel2_forall_left {β γ : Type} (R : β → γ → Prop) (P : β → Prop) (hRP : ∀ b c, R b c → P b) :
    ∀ (bs : List β) (cs : List γ), Rel₂ R bs cs → ∀ b ∈ bs, P b
  | [], [], _, b, hb => by cases hb
  | b :: bs, c :: cs, h, b', hb' => by
    rcases List.mem_cons.mp hb' with rfl | hb'
    · exact hRP _ c h.1
    · exact rel2_forall_left R P hRP bs cs h.2 b' hb'
  | [], _ :: _, h, _, _ => h.elim
  | _ :: _, [], h, _, _ => h.elim

theorem rel2_length {β γ : Type} (R : β → γ → Prop) :
    ∀ (bs : List β) (cs : List γ), Rel₂ R bs cs → bs.length = cs.length
  | [], [], _ => rfl
  | b :: bs, c :: cs, h => by simp [rel2_length R bs cs h.2]
  | [], _ :: _, h => h.elim
  | _ :: _, [], h => h.elim

/-- **one checkpoint iteration is read back exactly** -/
theorem readIt_good {α : Type} (cmax : CMax) (files : List (CFile α)) (iit rl : Nat) (var : List String)
    (hn : var.Nodup) (hvar : var ≠ []) (A : String → Arr3 α) (tm : Nat)
    (h : GoodIt cmax files iit rl var A tm) :
    readIt cmax files iit rl var = some (some (tm, var.map fun v => fixij (A v))) := by
  obtain ⟨sel, nz, ny, nx, D, base, gx, gy, gz, hF, hgood, hgx, hgy, hgz, hz, hy, hx, hD, hphys⟩ := h
  unfold readIt
  unfold filesOf at hF hgood hphys
  generalize hFdef : files.filter (fun f => f.itName == iit) = F at hF hgood hphys
  cases F with
  | nil => exact absurd rfl hF
  | cons f0 fs =>
  simp only
  have hread : mapOpt (readFile cmax iit rl var) (f0 :: fs)
      = some ((f0 :: fs).map fun f => var.flatMap fun v => (sel f v).map fun d => (v, d)) :=
    mapOpt_eq_map _ _ _ (fun f hf => (readFile_good cmax f iit rl var (sel f) (hgood f hf)).1)
  rw [hread]
  simp only
  -- the selected datasets of a variable
  have hsel : ∀ v ∈ var, ∀ d ∈ (f0 :: fs).flatMap (fun f => sel f v),
      d.ghost = (gx, gy, gz) ∧ d.time = tm := by
    intro v hv
    obtain ⟨_, l, _, hrel⟩ := hphys v hv
    exact rel2_forall_left _ (fun d => d.ghost = (gx, gy, gz) ∧ d.time = tm) (fun d ki h => ⟨h.2.1, h.2.2.1⟩) _ l hrel
  -- the time: last key read in the first file
  have hlast : ∃ vd, (((f0 :: fs).map fun f => var.flatMap fun v => (sel f v).map fun d => (v, d)).headD []).getLast?
      = some vd ∧ vd.2.time = tm := by
    simp only [List.map_cons, List.headD_cons]
    obtain ⟨v0, hv0⟩ := List.exists_mem_of_ne_nil var hvar
    have hne0 := (readFile_good cmax f0 iit rl var (sel f0) (hgood f0 (List.mem_cons_self ..))).2 v0 hv0
    obtain ⟨d0, hd0⟩ := List.exists_mem_of_ne_nil _ hne0
    have hne : (var.flatMap fun v => (sel f0 v).map fun d => (v, d)) ≠ [] := by
      intro e
      have : (v0, d0) ∈ (var.flatMap fun v => (sel f0 v).map fun d => (v, d)) :=
        List.mem_flatMap.mpr ⟨v0, hv0, List.mem_map.mpr ⟨d0, hd0, rfl⟩⟩
      rw [e] at this; cases this
    refine ⟨_, List.getLast?_eq_some_getLast hne, ?_⟩
    have hm := List.getLast_mem hne
    obtain ⟨v, hv, hm⟩ := List.mem_flatMap.mp hm
    obtain ⟨d, hd, e⟩ := List.mem_map.mp hm
    rw [← e]
    exact (hsel v hv d (List.mem_flatMap.mpr ⟨f0, List.mem_cons_self .., hd⟩)).2
  obtain ⟨vd, hvd, hvdt⟩ := hlast
  rw [hvd]
  simp only
  -- the joins
  have hjoin : mapOpt (fun v =>
        ((((f0 :: fs).map fun f => var.flatMap fun v => (sel f v).map fun d => (v, d)).flatten.foldl
          (fun vc vd => vcSet vc vd.1 vd.2.iorigin (trimmed vd.2)) ([] : VarChunks α)).get? v).bind
            fun d => (joinChunks d).map fixij) var
      = some (var.map fun v => fixij (A v)) := by
    apply mapOpt_eq_map
    intro v hv
    obtain ⟨hA, l, hperm, hrel⟩ := hphys v hv
    have hent := entriesOf_files (f0 :: fs) var hn sel v hv
    have hlen : ((f0 :: fs).flatMap fun f => sel f v) ≠ [] := by
      intro e
      have h1 := rel2_length _ _ _ hrel
      rw [e] at h1
      have h2 := hperm.length_eq
      have hne := (readFile_good cmax f0 iit rl var (sel f0) (hgood f0 (List.mem_cons_self ..))).2 v hv
      simp only [List.flatMap_cons, List.append_eq_nil_iff] at e
      exact hne e.1
    rw [vc_get _ v (by rw [hent]; simpa using hlen), hent]
    simp only [Option.bind_some]
    -- trimmed d = trimGhost gx gy gz d.data on the selected datasets
    have htr : ((f0 :: fs).flatMap fun f => sel f v).map (fun d => (d.iorigin, trimmed d))
        = (((f0 :: fs).flatMap fun f => sel f v).map fun d => (d.iorigin, d.data)).map
            fun kb => (kb.1, trimGhost gx gy gz kb.2) := by
      rw [List.map_map]
      apply List.map_congr_left
      intro d hd
      have := (hsel v hv d hd).1
      simp [trimmed, this]
    rw [htr]
    exact read_chunks_lemma (A v) nz ny nx hA hz hy hx D hD base l hperm gx gy gz hgx hgy hgz _
      (rel2_map_left (fun d : DSet α => (d.iorigin, d.data)) _ _ l
        (rel2_imp _ _ (fun d ki h => ⟨h.1, h.2.2.2⟩) _ l hrel))
  rw [hjoin]
  simp [hvdt]

/-! ### D. `cmax` per iteration (/repo bd9646b) -/

/-- the number in `cmax` is never looked at -/
theorem goodFile_num_irrelevant {α : Type} {m m' : Nat} {f : CFile α} {iit rl : Nat} {var : List String}
    {sel : String → List (DSet α)} (h : GoodFile (CMax.num m) f iit rl var sel) :
    GoodFile (CMax.num m') f iit rl var sel := by
  cases h with
  | single hc _ _ _ => cases hc
  | chunked n hc _ _ _ _ => cases hc
  | perproc m0 k hc hk huniq => exact GoodFile.perproc m' k rfl hk huniq

theorem goodIt_num_irrelevant {α : Type} {m m' : Nat} {files : List (CFile α)} {iit rl : Nat} {var : List String}
    {A : String → Arr3 α} {tm : Nat} (h : GoodIt (CMax.num m) files iit rl var A tm) :
    GoodIt (CMax.num m') files iit rl var A tm := by
  obtain ⟨sel, nz, ny, nx, D, base, gx, gy, gz, hF, hgood, hrest⟩ := h
  exact ⟨sel, nz, ny, nx, D, base, gx, gy, gz, hF, fun f hf => goodFile_num_irrelevant (hgood f hf), hrest⟩

theorem goodFile_num_fileNo {α : Type} {m : Nat} {f : CFile α} {iit rl : Nat} {var : List String}
    {sel : String → List (DSet α)} (h : GoodFile (CMax.num m) f iit rl var sel) : ∃ k, f.fileNo = some k := by
  cases h with
  | single hc _ _ _ => cases hc
  | chunked n hc _ _ _ _ => cases hc
  | perproc m0 k hc hk huniq => exact ⟨k, hk⟩

/-- the layout the reader finds for a well-formed iteration is the layout it was written in -/
theorem cmaxOf_good {α : Type} (files : List (CFile α)) (iit rl : Nat) (var : List String)
    (A : String → Arr3 α) (tm : Nat) (h : GoodItAuto files iit rl var A tm) :
    ∃ cmax, cmaxOf (filesOf files iit) = some cmax ∧ GoodIt cmax files iit rl var A tm := by
  obtain ⟨cmax, hlay, hgood⟩ := h
  cases cmax with
  | inFile =>
    refine ⟨CMax.inFile, ?_, hgood⟩
    simp only [LayoutOK] at hlay
    match hF : filesOf files iit, hlay with
    | [f], _ => rfl
  | num m =>
    simp only [LayoutOK] at hlay
    have hno : ∀ f ∈ filesOf files iit, ∃ k, f.fileNo = some k := by
      obtain ⟨sel, _, _, _, _, _, _, _, _, _, hg, _⟩ := hgood
      exact fun f hf => goodFile_num_fileNo (hg f hf)
    have hmap : mapOpt (fun f : CFile α => f.fileNo) (filesOf files iit)
        = some ((filesOf files iit).map fun f => f.fileNo.getD 0) :=
      mapOpt_eq_map _ _ _ (fun f hf => by obtain ⟨k, hk⟩ := hno f hf; simp [hk])
    refine ⟨CMax.num (((filesOf files iit).map fun f => f.fileNo.getD 0).foldl max 0), ?_, goodIt_num_irrelevant hgood⟩
    match hF : filesOf files iit, hlay with
    | f0 :: f1 :: fs, _ =>
      rw [hF] at hmap
      simp only [cmaxOf, hmap, Option.map_some]

/-- **one checkpoint iteration, layout found from its own files, is read back exactly** -/
theorem readItAuto_good {α : Type} (files : List (CFile α)) (iit rl : Nat) (var : List String)
    (hn : var.Nodup) (hvar : var ≠ []) (A : String → Arr3 α) (tm : Nat)
    (h : GoodItAuto files iit rl var A tm) :
    readItAuto files iit rl var = some (some (tm, var.map fun v => fixij (A v))) := by
  obtain ⟨cmax, hc, hgood⟩ := cmaxOf_good files iit rl var A tm h
  have hne : filesOf files iit ≠ [] := by
    obtain ⟨_, _, _, _, _, _, _, _, _, hF, _⟩ := hgood
    exact hF
  unfold readItAuto
  unfold filesOf at hc hne
  cases hF : files.filter (fun f => f.itName == iit) with
  | nil => exact absurd hF hne
  | cons f0 fs =>
    rw [hF] at hc
    simp only [hc]
    exact readIt_good cmax files iit rl var hn hvar A tm hgood

end AurelVerif.CheckpointLemmas
